package main

import (
	"bytes"
	"context"
	"crypto"
	"crypto/rand"
	"crypto/rsa"
	"crypto/x509"
	"encoding/asn1"
	"encoding/hex"
	"encoding/pem"
	"fmt"
	"io"
	"math/big"
	"net/http"
	"net/http/httptest"
	"os"
	"path/filepath"
	"strings"
	"sync"
	"time"

	"github.com/sassoftware/relic/v8/config"
	"github.com/sassoftware/relic/v8/lib/pkcs7"
	"github.com/sassoftware/relic/v8/lib/pkcs9"
	"github.com/sassoftware/relic/v8/lib/pkcs9/tsclient"

	"verif/gen/dergen"
	"verif/relicx"
)

// The path every relic signer takes: pkcs7.NewBuilder -> Sign ->
// pkcs9.TimestampAndMarshal, with the timestamp answer coming from an
// authority (dergen-made token of any family shape, or `openssl ts -reply`)
// through relic's real request builder and response parser.

type builtCase struct {
	Key     string         // rsaA | p256A | p384
	Hash    string         // sha256 | sha384 | sha1
	Content string         // data | detached | struct (non-octet content, Authenticode style)
	Attrs   string         // none | time | multi (same attribute type added twice, like csblob cdhashes) | time+multi
	Stamp   string         // none | rfc3161 | authenticode
	TSA     string         // dergen | ossl:<name>
	Token   *dergen.Params `json:",omitempty"` // dergen token shape (nil = base)
	After   string         // "" | detach (jar/csblob/xar: Detach + Marshal after TimestampAndMarshal)
	// SigOpts: "" (the digest alone: PKCS#1 v1.5 / ECDSA) | pss-auto | pss-equals-hash | pss-salt-20
	// (an *rsa.PSSOptions with that salt length, as library callers and the worker RPC pass)
	SigOpts string `json:",omitempty"`
	// Payload (hex) / PayloadName: the content octets instead of dergen.DataContent (Content data | detached)
	Payload     string `json:",omitempty"`
	PayloadName string `json:",omitempty"`
	Chain       string `json:",omitempty"` // "" (leaf, intermediate, root) | cross (plus the same intermediate certified by a second root: same name, key and key identifier) | repeated (the leaf listed twice, as a bundle that repeats it does)
}

func (c builtCase) String() string {
	s := fmt.Sprintf("key=%s hash=%s content=%s attrs=%s stamp=%s tsa=%s after=%s", c.Key, c.Hash, c.Content, c.Attrs, c.Stamp, c.TSA, c.After)
	if c.Chain != "" {
		s += " chain=" + c.Chain
	}
	if c.SigOpts != "" {
		s += " sigopts=" + c.SigOpts
	}
	if c.PayloadName != "" {
		s += " payload=" + c.PayloadName
	}
	if c.Token != nil {
		s += " token{" + c.Token.String() + "}"
	}
	return s
}

type harnessTSA struct {
	answer   func(query []byte) ([]byte, error)
	lastResp []byte
	err      error

	once   sync.Once
	client pkcs9.Timestamper
	cerr   error
}

// The authority side is the harness's (dergen tokens or `openssl ts -reply`);
// the client side is relic's own lib/pkcs9/tsclient over loopback HTTP, not a
// replica of it: request building, reading of the reply, response parsing and
// the sanity check are whatever the tree under test does.
var (
	tsaSrvOnce sync.Once
	tsaSrv     *httptest.Server
	tsaRegMu   sync.Mutex
	tsaReg     = map[string]*harnessTSA{}
	tsaSeq     int
)

func tsaServer() *httptest.Server {
	tsaSrvOnce.Do(func() {
		tsaSrv = httptest.NewServer(http.HandlerFunc(func(w http.ResponseWriter, r *http.Request) {
			tsaRegMu.Lock()
			h := tsaReg[strings.TrimPrefix(r.URL.Path, "/")]
			tsaRegMu.Unlock()
			body, _ := io.ReadAll(r.Body)
			if h == nil {
				http.Error(w, "unknown authority", 404)
				return
			}
			resp, err := h.answer(body)
			if err != nil {
				h.err = err
				http.Error(w, err.Error(), 500)
				return
			}
			h.lastResp = resp
			w.Header().Set("Content-Type", "application/timestamp-reply")
			w.Write(resp)
		}))
	})
	return tsaSrv
}

func (h *harnessTSA) Timestamp(ctx context.Context, req *pkcs9.Request) (*pkcs7.ContentInfoSignedData, error) {
	h.once.Do(func() {
		srv := tsaServer()
		tsaRegMu.Lock()
		tsaSeq++
		id := fmt.Sprintf("a%d", tsaSeq)
		tsaReg[id] = h
		tsaRegMu.Unlock()
		h.client, h.cerr = tsclient.New(&config.TimestampConfig{URLs: []string{srv.URL + "/" + id}, Timeout: 60})
	})
	if h.cerr != nil {
		return nil, h.cerr
	}
	return h.client.Timestamp(ctx, req)
}

// tokenLifetimePhase: tokens handed out by the real client stay what they were
// when they were handed out. Several requests in a row through ONE client
// (replies of different sizes); after every new reply each earlier token is
// marshalled again and must give the bytes it gave when it was returned, and
// must still be the authority's token for ITS request.
func tokenLifetimePhase() {
	shapes := []*dergen.Params{nil}
	for _, certs := range []string{"3s", "leaf", "3u"} {
		p := dergen.Params{Version: "3", DigAlgs: "1n", EContent: "tst", Certs: certs, CRLs: "no", Signers: "1", SID: "ias",
			Attrs: "sorted", SigAlg: "rsa", Unsigned: "none", Trailing: "0", Key: "tsa"}
		shapes = append(shapes, &p)
	}
	cur := 0
	h := &harnessTSA{}
	h.answer = func(q []byte) ([]byte, error) { return dergenTSA(shapes[cur%len(shapes)])(q) }
	type issued struct {
		tok  *pkcs7.ContentInfoSignedData
		blob []byte
		sig  []byte
	}
	var all []issued
	in := &input{Src: "tsclient", Label: "token lifetime"}
	for i := 0; i < 2*len(shapes); i++ {
		cur = i
		sig := dergen.Digest(crypto.SHA256, []byte(fmt.Sprintf("signature value %d", i)))
		tok, err := h.Timestamp(context.Background(), &pkcs9.Request{EncryptedDigest: sig, Hash: crypto.SHA256})
		run.Eval(1)
		if err != nil {
			if h.err != nil {
				harnessError(in, "tsa", h.err.Error())
				return
			}
			run.Outcome("token-lifetime:refused:" + short(err))
			continue
		}
		blob, err := tok.Marshal()
		if err != nil {
			violation("token-lifetime:marshal-error", err.Error(), in.replay("token-lifetime", nil))
			continue
		}
		want, werr := tokenOfResponse(h.lastResp)
		if werr == nil && !bytes.Equal(blob, want) {
			violation("token-lifetime:token-differs-from-reply", fmt.Sprintf("request %d: the token the client returned marshals to %d bytes that are not the authority's %d", i+1, len(blob), len(want)), in.replay("token-lifetime", nil))
		}
		all = append(all, issued{tok, blob, sig})
		for j, old := range all[:len(all)-1] {
			again, err := old.tok.Marshal()
			if err != nil || !bytes.Equal(again, old.blob) {
				violation("token-lifetime:earlier-token-changed-after-a-later-reply", fmt.Sprintf("token %d no longer marshals to what it was when it was returned, after %d later request(s) through the same client (err=%v)", j+1, len(all)-1-j, err), in.replay("token-lifetime", map[string]any{"token": j + 1, "requests": len(all)}))
				return
			}
			if _, err := pkcs9.Verify(old.tok, old.sig, nil); err != nil {
				violation("token-lifetime:earlier-token-no-longer-verifies", fmt.Sprintf("token %d: %v", j+1, err), in.replay("token-lifetime", nil))
				return
			}
		}
		run.Outcome("token-lifetime:stable")
	}
}

var hashNameOfOID = map[string]string{
	"1.3.14.3.2.26":          "sha1",
	"2.16.840.1.101.3.4.2.1": "sha256",
	"2.16.840.1.101.3.4.2.2": "sha384",
	"2.16.840.1.101.3.4.2.3": "sha512",
}

func dergenTSA(tp *dergen.Params) func([]byte) ([]byte, error) {
	return func(query []byte) ([]byte, error) {
		q, err := dergen.ParseTSQuery(query)
		if err != nil {
			return nil, err
		}
		p := dergen.Params{Version: "3", DigAlgs: "1n", EContent: "tst", Certs: "leaf", CRLs: "no", Signers: "1", SID: "ias",
			Attrs: "sorted", SigAlg: "rsa", Unsigned: "none", Trailing: "0", Key: "tsa"}
		if tp != nil {
			p = *tp
		}
		p.ImprintHash = hashNameOfOID[q.HashOID]
		p.ImprintHex = hex.EncodeToString(q.Imprint)
		p.NonceHex = q.NonceHex
		tok := gen.TokenFor(p)
		return dergen.TimeStampResp(tok), nil
	}
}

type spcLike struct {
	Data struct {
		Type  asn1.ObjectIdentifier
		Value asn1.RawValue `asn1:"optional"`
	}
	Digest struct {
		Alg    struct{ Algorithm asn1.ObjectIdentifier }
		Digest []byte
	}
}

func chainOf(k *dergen.Key) []*x509.Certificate {
	return []*x509.Certificate{k.Leaf, fx.Inter, fx.Root}
}

var crossInter *x509.Certificate

// crossCertified: the fixture intermediate certified a second time, by the
// other fixture root - same subject, same key, same subject key identifier,
// different issuer and serial (what a CA migration leaves in a chain file).
func crossCertified() *x509.Certificate {
	if crossInter != nil {
		return crossInter
	}
	readPEM := func(name, typ string) []byte {
		blob, err := os.ReadFile(filepath.Join(relicx.KeyDir, name))
		if err != nil {
			panic(err)
		}
		for {
			var b *pem.Block
			b, blob = pem.Decode(blob)
			if b == nil {
				panic("no " + typ + " in " + name)
			}
			if strings.Contains(b.Type, typ) {
				return b.Bytes
			}
		}
	}
	other, err := x509.ParseCertificate(readPEM("otherroot.crt", "CERTIFICATE"))
	if err != nil {
		panic(err)
	}
	keyDER := readPEM("otherroot.key", "PRIVATE KEY")
	var signer crypto.Signer
	if k, err := x509.ParsePKCS8PrivateKey(keyDER); err == nil {
		signer = k.(crypto.Signer)
	} else if k, err := x509.ParsePKCS1PrivateKey(keyDER); err == nil {
		signer = k
	} else if k, err := x509.ParseECPrivateKey(keyDER); err == nil {
		signer = k
	} else {
		panic("otherroot.key: unsupported key encoding")
	}
	tmpl := &x509.Certificate{
		SerialNumber:          big.NewInt(0x16c0ffee),
		Subject:               fx.Inter.Subject,
		NotBefore:             fx.Inter.NotBefore,
		NotAfter:              fx.Inter.NotAfter,
		KeyUsage:              fx.Inter.KeyUsage,
		ExtKeyUsage:           fx.Inter.ExtKeyUsage,
		BasicConstraintsValid: true,
		IsCA:                  true,
		SubjectKeyId:          fx.Inter.SubjectKeyId,
	}
	der, err := x509.CreateCertificate(rand.Reader, tmpl, other, fx.Inter.PublicKey, signer)
	if err != nil {
		panic(err)
	}
	crossInter, err = x509.ParseCertificate(der)
	if err != nil {
		panic(err)
	}
	if !bytes.Equal(crossInter.SubjectKeyId, fx.Inter.SubjectKeyId) || bytes.Equal(crossInter.Raw, fx.Inter.Raw) {
		panic("cross certificate does not share the key identifier")
	}
	return crossInter
}

func (c builtCase) chain(k *dergen.Key) []*x509.Certificate {
	switch c.Chain {
	case "cross":
		return []*x509.Certificate{k.Leaf, fx.Inter, crossCertified(), fx.Root}
	case "repeated":
		return []*x509.Certificate{k.Leaf, fx.Inter, k.Leaf, fx.Root}
	}
	return chainOf(k)
}

func runBuilt(c builtCase) {
	in := &input{Src: "built", Label: c.String(), Replay: c, RelicBuilt: true}
	k := fx.Keys[c.Key]
	var h crypto.Hash
	switch c.Hash {
	case "sha1":
		h = crypto.SHA1
	case "sha256":
		h = crypto.SHA256
	case "sha384":
		h = crypto.SHA384
	}
	var psd *pkcs7.ContentInfoSignedData
	var ext []byte
	data := dergen.DataContent
	if c.PayloadName != "" {
		var herr error
		if data, herr = hex.DecodeString(c.Payload); herr != nil {
			harnessError(in, "payload", herr.Error())
			return
		}
	}
	err, pan := guard(in, "pkcs7.SignatureBuilder.Sign", func() error {
		var so crypto.SignerOpts = h
		switch c.SigOpts {
		case "pss-auto":
			so = &rsa.PSSOptions{Hash: h} // SaltLength 0 = rsa.PSSSaltLengthAuto
		case "pss-equals-hash":
			so = &rsa.PSSOptions{Hash: h, SaltLength: rsa.PSSSaltLengthEqualsHash}
		case "pss-salt-20":
			so = &rsa.PSSOptions{Hash: h, SaltLength: 20}
		}
		sb := pkcs7.NewBuilder(k.Signer, c.chain(k), so)
		switch c.Content {
		case "data":
			if err := sb.SetContentData(bytes.Clone(data)); err != nil {
				return err
			}
		case "detached":
			ext = data
			if err := sb.SetDetachedContent(pkcs7.OidData, dergen.Digest(h, ext)); err != nil {
				return err
			}
		case "struct":
			var v spcLike
			v.Data.Type = asn1.ObjectIdentifier{1, 3, 6, 1, 4, 1, 311, 2, 1, 15}
			v.Digest.Alg.Algorithm = asn1.ObjectIdentifier{2, 16, 840, 1, 101, 3, 4, 2, 1}
			v.Digest.Digest = dergen.Digest(crypto.SHA256, []byte("image"))
			if err := sb.SetContent(asn1.ObjectIdentifier{1, 3, 6, 1, 4, 1, 311, 2, 1, 4}, v); err != nil {
				return err
			}
		}
		extra := asn1.ObjectIdentifier{1, 3, 6, 1, 4, 1, 57264, 99, 1}
		if strings.Contains(c.Attrs, "multi") {
			// later value sorts BEFORE the earlier one in DER order
			if err := sb.AddAuthenticatedAttribute(extra, "zz-first-added"); err != nil {
				return err
			}
		}
		if strings.Contains(c.Attrs, "time") {
			if err := sb.AddAuthenticatedAttribute(pkcs7.OidAttributeSigningTime, time.Date(2026, 6, 1, 12, 0, 0, 0, time.UTC)); err != nil {
				return err
			}
		}
		if strings.Contains(c.Attrs, "multi") {
			if err := sb.AddAuthenticatedAttribute(extra, "aa"); err != nil {
				return err
			}
		}
		var e error
		psd, e = sb.Sign()
		return e
	})
	run.Eval(1)
	if err != nil {
		if !pan {
			run.Outcome("built:sign-error:" + short(err))
		}
		return
	}
	var tsa *harnessTSA
	var ts pkcs9.Timestamper
	if c.Stamp != "none" {
		tsa = &harnessTSA{}
		if strings.HasPrefix(c.TSA, "ossl:") {
			o := osslTSAs[strings.TrimPrefix(c.TSA, "ossl:")]
			tsa.answer = o.reply
		} else {
			tsa.answer = dergenTSA(c.Token)
		}
		ts = tsa
	}
	var out *pkcs9.TimestampedSignature
	err, pan = guard(in, "pkcs9.TimestampAndMarshal", func() (e error) {
		out, e = pkcs9.TimestampAndMarshal(context.Background(), psd, ts, c.Stamp == "authenticode")
		return
	})
	if err != nil {
		if pan {
			return
		}
		if tsa != nil && tsa.err != nil {
			harnessError(in, "tsa", tsa.err.Error())
			return
		}
		// relic refuses the authority's answer (or its own product): not an
		// emission, so nothing to compare. Counted by class.
		run.Outcome("built:refused:" + short(err))
		if c.Token != nil && c.Token.WrapTST != "" && tsa != nil && tsa.lastResp != nil {
			wrappedTokenRefused(in, c, tsa.lastResp, psd, err)
		}
		if c.SigOpts != "" && c.Stamp == "none" {
			// relic's check of its own product: the same case signed with the
			// digest alone tells whether the refusal is about the case (detached
			// content, ...) or about what the builder emitted for these options
			base := c
			base.SigOpts = ""
			if builtEmits(base) {
				violation("built:own-product-refused:"+c.SigOpts, fmt.Sprintf("built %s: %v (the same case with PKCS#1 v1.5 is emitted)", c, err), in.replay("built", nil))
			}
		}
		return
	}
	blob := out.Raw
	if c.Content == "data" {
		// the content octets are copied: what the caller handed to the builder is what is emitted
		if l0, err := dergen.Locate(blob); err == nil && (!l0.HasEContent || l0.EContentTag != 4 || !bytes.Equal(l0.EContentBody.Of(blob), data)) {
			violation("built:emitted-content-differs-from-given", fmt.Sprintf("built %s: the eContent octets of the product are not the %d octets handed to SetContentData", c, len(data)), in.replay("built", map[string]any{"output_hex": hex.EncodeToString(blob)}))
		}
	}
	if c.After == "detach" {
		// what jar (detached), csblob and xar do after TimestampAndMarshal
		if l0, err := dergen.Locate(blob); err == nil && l0.HasEContent {
			ext = append([]byte{}, l0.EContentBody.Of(blob)...)
		}
		var detached []byte
		err, pan = guard(in, "ContentInfoSignedData.Detach", func() error {
			var e error
			if detached, e = psd.Detach(); e != nil {
				return e
			}
			blob, e = psd.Marshal()
			return e
		})
		if err == nil && c.Content == "data" && !bytes.Equal(detached, data) {
			violation("detach:returned-content-differs", fmt.Sprintf("built %s: Detach returned %d bytes, the content handed to the builder has %d", c, len(detached), len(data)), in.replay("detach", nil))
		}
		if err != nil {
			if !pan {
				violation("detach-error", fmt.Sprintf("built %s: %v", c, err), in.replay("detach", nil))
			}
			return
		}
	}
	run.Outcome("built:emitted")
	l, err := dergen.Locate(blob)
	if err != nil {
		violation("output-not-der:built", fmt.Sprintf("built %s: %v", c, err), in.replay("built", map[string]any{"output_hex": hex.EncodeToString(blob)}))
		return
	}
	if c.After == "detach" && l.HasEContent {
		violation("detach:content-still-present", fmt.Sprintf("built %s", c), in.replay("detach", nil))
	}
	// certificates are copied: every certificate handed to the builder is in the
	// emitted set (a relying party may need any of them to build its path), the
	// signer's first, and nothing else is
	{
		given := c.chain(k)
		have := map[string]int{}
		for _, r := range l.CertList {
			have[string(r.Of(blob))]++
		}
		for i, g := range given {
			if have[string(g.Raw)] == 0 {
				violation("certificate-dropped:built:"+c.Chain, fmt.Sprintf("built %s: certificate %d of the configured chain (%s, issued by %s) is not in the emitted SignedData (%d certificates emitted for %d configured)", c, i, g.Subject.CommonName, g.Issuer.CommonName, len(l.CertList), len(given)), in.replay("built", map[string]any{"output_hex": hex.EncodeToString(blob)}))
				break
			}
		}
		givenSet := map[string]bool{}
		for _, g := range given {
			givenSet[string(g.Raw)] = true
		}
		for raw := range have {
			if !givenSet[raw] {
				violation("certificate-added:built", fmt.Sprintf("built %s: the emitted SignedData carries a certificate that was not configured", c), in.replay("built", nil))
			}
		}
		if len(l.CertList) > 0 && !bytes.Equal(l.CertList[0].Of(blob), k.Leaf.Raw) {
			violation("leaf-not-first:built", fmt.Sprintf("built %s", c), in.replay("built", nil))
		}
	}
	// the authority's token must be embedded byte-identically
	if tsa != nil {
		want, err := tokenOfResponse(tsa.lastResp)
		if err != nil {
			harnessError(in, "tsa", err.Error())
			return
		}
		sig := l.Signers[0].Signature.Of(blob)
		useOssl := strings.HasPrefix(c.TSA, "ossl:") || c.Token == nil || opensslTokenShapes
		applicable := false
		if useOssl {
			applicable = prejudgeToken(want, sig)
		}
		wantOID := dergen.OIDTimeStampToken
		if c.Stamp == "authenticode" {
			wantOID = dergen.OIDMSTimeStamp
		}
		var got *dergen.TokenRef
		for i, t := range l.Signers[0].Tokens {
			if t.AttrOID == wantOID {
				got = &l.Signers[0].Tokens[i]
			}
		}
		lw, werr := dergen.Locate(want)
		switch {
		case got == nil:
			violation("stamp-not-emitted:built", fmt.Sprintf("built %s", c), in.replay("built", map[string]any{"output_hex": hex.EncodeToString(blob)}))
		case werr != nil:
			harnessError(in, "tsa", "authority token does not locate: "+werr.Error())
		case string(got.Value.Of(blob)) == string(want):
			run.Outcome("embed-token:byte-identical")
		default:
			d := compare(lw, got.Layout, cmpOpts{})
			for _, s := range dedupe(d.signed) {
				violation("signed-region-changed:embed-token:"+s, fmt.Sprintf("built %s: the embedded token differs from the authority's in %s", c, s),
					in.replay("built", map[string]any{"output_hex": hex.EncodeToString(blob), "authority_token_hex": hex.EncodeToString(want)}))
			}
			us := dedupe(d.unsigned)
			if len(d.signed) == 0 && len(us) == 0 {
				us = []string{"unlocated"}
			}
			for _, u := range us {
				run.Outcome("embed-token:unsigned-region-reencoded:" + u)
			}
			// the authority's signature inside the embedded token must still verify
			before := failSet{}
			for _, f := range dergen.VerifyAll(lw, nil, fx.Pool) {
				before[f.Path] = f.Err.Error()
			}
			for _, f := range dergen.VerifyAll(got.Layout, nil, fx.Pool) {
				if _, was := before[f.Path]; !was {
					violation("third-party-signature-broken:embed-token:"+strings.Join(us, "+"), fmt.Sprintf("built %s: %s: %v", c, f.Path, f.Err),
						in.replay("built", map[string]any{"output_hex": hex.EncodeToString(blob), "authority_token_hex": hex.EncodeToString(want)}))
				}
			}
		}
		if useOssl && applicable {
			opensslTokens(in, "embed-token", l)
		} else if useOssl {
			run.Outcome("openssl:ts-verify-not-applicable")
		}
	}
	// relic-built oracle + every parse/emit operation on the product
	in.X = blob
	in.Ext = ext
	in.OpenSSL = c.Token == nil
	if c.PayloadName != "" {
		// the content dimension: parse/emit and detach are the operations that touch it
		in.Ops = "roundtrip,detach"
		in.MustOpenSSL = true
	}
	runOps(in)
}

// wrappedTokenRefused: relic refused a token whose TSTInfo sits in a second,
// dummy OCTET STRING (a quirk of some authorities that relic reads). If the
// independent verifier accepts the token as it stands - messageDigest over the
// eContent octets AS ENCODED (04 LL TSTInfo), signature over the signed
// attributes as encoded, imprint over the signature that was sent - and relic
// accepts the same authority's token without the quirk, the refusal means
// relic digested something else than the encoded content.
func wrappedTokenRefused(in *input, c builtCase, resp []byte, psd *pkcs7.ContentInfoSignedData, refusal error) {
	want, err := tokenOfResponse(resp)
	if err != nil {
		return // the authority's answer carries no token: nothing was refused
	}
	lw, err := dergen.Locate(want)
	if err != nil {
		harnessError(in, "tsa", "authority token does not locate: "+err.Error())
		return
	}
	if fails := dergen.VerifyAll(lw, nil, fx.Pool); len(fails) > 0 {
		harnessError(in, "tsa", "wrapped authority token fails the independent verifier: "+fails[0].Err.Error())
		return
	}
	twin := c
	tp := *c.Token
	tp.WrapTST = ""
	twin.Token = &tp
	if !builtAcceptsToken(twin) {
		run.Outcome("built:wrapped-token-refused-like-its-plain-twin")
		return
	}
	violation("valid-token-refused:tstinfo-in-dummy-octet-string", fmt.Sprintf("built %s: %v (the token verifies independently over its eContent octets as encoded, and the same token shape without the dummy OCTET STRING is accepted)", c, refusal),
		in.replay("built", map[string]any{"authority_token_hex": hex.EncodeToString(want)}))
}

// builtAcceptsToken: does builder + TimestampAndMarshal accept the authority's answer for c?
func builtAcceptsToken(c builtCase) bool {
	k := fx.Keys[c.Key]
	h := map[string]crypto.Hash{"sha1": crypto.SHA1, "sha256": crypto.SHA256, "sha384": crypto.SHA384}[c.Hash]
	ok := false
	func() {
		defer func() { _ = recover() }()
		sb := pkcs7.NewBuilder(k.Signer, c.chain(k), h)
		if sb.SetContentData(dergen.DataContent) != nil {
			return
		}
		if sb.AddAuthenticatedAttribute(pkcs7.OidAttributeSigningTime, time.Date(2026, 6, 1, 12, 0, 0, 0, time.UTC)) != nil {
			return
		}
		psd, err := sb.Sign()
		if err != nil {
			return
		}
		tsa := &harnessTSA{answer: dergenTSA(c.Token)}
		_, err = pkcs9.TimestampAndMarshal(context.Background(), psd, tsa, c.Stamp == "authenticode")
		ok = err == nil
	}()
	return ok
}

// builtEmits: does the builder + TimestampAndMarshal path emit anything for c (no authority involved)?
func builtEmits(c builtCase) bool {
	k := fx.Keys[c.Key]
	h := map[string]crypto.Hash{"sha1": crypto.SHA1, "sha256": crypto.SHA256, "sha384": crypto.SHA384}[c.Hash]
	ok := false
	func() {
		defer func() { _ = recover() }()
		sb := pkcs7.NewBuilder(k.Signer, c.chain(k), h)
		if c.Content == "detached" {
			d := h.New()
			d.Write(dergen.DataContent)
			if sb.SetDetachedContent(pkcs7.OidData, d.Sum(nil)) != nil {
				return
			}
		} else if sb.SetContentData(dergen.DataContent) != nil {
			return
		}
		psd, err := sb.Sign()
		if err != nil {
			return
		}
		_, err = pkcs9.TimestampAndMarshal(context.Background(), psd, nil, false)
		ok = err == nil
	}()
	return ok
}

func short(err error) string {
	s := err.Error()
	for _, cut := range []string{": serial=", " serial="} {
		if i := strings.Index(s, cut); i > 0 {
			s = s[:i]
		}
	}
	if len(s) > 90 {
		s = s[:90]
	}
	return s
}

// C16 — CMS structures survive parsing and re-encoding bit-exactly.
//
// Bounded-exhaustive enumeration of DER CMS SignedData structures (gen/dergen:
// a from-scratch writer, every member correctly signed with the fixture keys),
// plus the blobs relic's own pipeline produces, genuine `openssl ts -reply`
// tokens and the Microsoft-signed functest catalog, driven through the real
// pkcs7.Unmarshal/Marshal, Detach, pkcs9.AddStampToSigned*, the builder +
// TimestampAndMarshal path, the cat signer and the BER repack that csblob/xar
// run before parsing; opaque content whose first octets look like a TLV header
// through the builder (payloads.go); tokens of every length in a window of
// consecutive byte counts through the signers that write the token as base64
// text - appmanifest, vsix, ps (textembed.go). Oracle: an independent DER range walker locates the
// signed regions in input and output (eContent, signedAttrs as encoded,
// signature, certificates, embedded tokens) and compares bytes; third-party
// signatures are re-verified with Go crypto and OpenSSL.
package main

import (
	"bytes"
	"encoding/hex"
	"encoding/json"
	"encoding/pem"
	"fmt"
	"os"
	"path/filepath"
	"runtime"
	"sort"
	"strings"
	"sync"
	"time"

	"github.com/sassoftware/relic/v8/config"
	"github.com/sassoftware/relic/v8/lib/pkcs7"

	"verif/gen/dergen"
	"verif/relicx"
	"verif/vlib"
)

var (
	run   *vlib.Run
	fx    *dergen.Fixtures
	gen   *dergen.Gen
	tmp   string
	start = time.Now()

	knownExtra = map[string]bool{}
	devKnown   sync.Map
	harnessMu  sync.Mutex
	harnessErr = map[string]int{}

	strictStamp = os.Getenv("C16_STRICT_STAMP") == "1"

	replayMode bool
	replayHits int

	// judge dergen-shaped authority tokens with `openssl ts -verify` too
	opensslTokenShapes bool
)

// violation routes through vlib unless the key is listed in C16_KNOWN_EXTRA
// (development runs only; the lead owns KNOWN_FINDINGS.txt).
func violation(key, desc string, replay any) {
	if replayMode {
		fmt.Printf("REPLAY-VIOLATION key=%s :: %s\n", key, desc)
		replayHits++
		return
	}
	if knownExtra[key] {
		n, _ := devKnown.LoadOrStore(key, new(int64))
		harnessMu.Lock()
		*(n.(*int64))++
		harnessMu.Unlock()
		return
	}
	run.Violation(key, desc, replay)
}

// harnessError: a self-check of the harness failed (generator produced
// something its own verifier rejects, a tool is missing...). Never a violation;
// makes the run non-exhaustive and is printed.
func harnessError(in *input, where, msg string) {
	harnessMu.Lock()
	defer harnessMu.Unlock()
	k := where + ": " + msg
	if len(k) > 200 {
		k = k[:200]
	}
	if harnessErr[k] == 0 {
		fmt.Fprintf(os.Stderr, "HARNESS-ERROR %s [%s %s]: %s\n", where, in.Src, in.Label, msg)
	}
	harnessErr[k]++
}

var (
	phases    = map[string]float64{}
	phaseMark = time.Now()
)

func phase(name string) {
	phases[name] = time.Since(phaseMark).Seconds()
	phaseMark = time.Now()
}

func roundTrip(x []byte) ([]byte, error) {
	p, err := pkcs7.Unmarshal(x)
	if err != nil {
		return nil, err
	}
	return p.Marshal()
}

func timeLeft(budget time.Duration) bool { return time.Since(start) < budget }

func main() {
	run = vlib.NewRun("C16", "model_checking")
	for _, k := range strings.Split(os.Getenv("C16_KNOWN_EXTRA"), ",") {
		if k = strings.TrimSpace(k); k != "" {
			knownExtra[k] = true
		}
	}
	relicx.Quiet()
	base := "/dev/shm"
	if _, err := os.Stat(base); err != nil {
		base = ""
	}
	var err error
	tmp, err = os.MkdirTemp(base, "c16-")
	if err != nil {
		panic(err)
	}
	code := 0
	defer func() { os.RemoveAll(tmp); os.Exit(code) }() // early exits only; run.Finish exits itself
	if fx, err = dergen.LoadFixtures(); err != nil {
		fmt.Println("HARNESS-ERROR fixtures:", err)
		code = 2
		return
	}
	gen = dergen.NewGen(fx)
	// every fixture certificate as one PEM file for `openssl cms -certfile`
	var pb bytes.Buffer
	for _, c := range fx.Pool {
		pem.Encode(&pb, &pem.Block{Type: "CERTIFICATE", Bytes: c.Raw})
	}
	poolPEM = filepath.Join(tmp, "pool.pem")
	os.WriteFile(poolPEM, pb.Bytes(), 0o600)
	for _, n := range osslTSANames {
		t, err := newOsslTSA(n, strings.HasPrefix(n, "chain"), map[bool]string{true: "sha256", false: "sha1"}[strings.HasSuffix(n, "ess256")])
		if err != nil {
			fmt.Println("HARNESS-ERROR tsa:", err)
			code = 2
			return
		}
		osslTSAs[n] = t
	}

	for i, a := range os.Args {
		if a == "--replay" && i+1 < len(os.Args) {
			code = replayFile(os.Args[i+1])
			return
		}
	}

	thorough := run.Thorough()
	budget := 150 * time.Second
	if thorough {
		budget = 25 * time.Minute
	}
	opensslTokenShapes = thorough

	// ---------------- 1. the enumerated family ----------------
	var family [][]int
	var familyDesc string
	interacting := []string{"DigAlgs", "Certs", "Signers", "SID", "Attrs", "Unsigned"}
	if thorough {
		family = dergen.Product(dergen.AllDimNames()...)
		familyDesc = "complete product of all 11 dimensions"
	} else {
		seen := map[string]bool{}
		add := func(vs [][]int) {
			for _, v := range vs {
				if k := dergen.IndexKey(v); !seen[k] {
					seen[k] = true
					family = append(family, v)
				}
			}
		}
		add(dergen.Singles())
		add(dergen.Pairs())
		add(dergen.Product(interacting...))
		familyDesc = "base + every single-dimension variation + every pair of dimensions (all value pairs) + the complete product over " + strings.Join(interacting, " x ") + " with the other dimensions at base"
	}
	sort.SliceStable(family, func(i, j int) bool { return dergen.Weight(family[i]) < dergen.Weight(family[j]) })
	if os.Getenv("VERIF_SEED") != "" && run.Seed != 0 {
		// the seed only permutes order
		n := len(family)
		for i := range family {
			j := (i*7919 + run.Seed) % n
			family[i], family[j] = family[j], family[i]
		}
	}
	osslWeight := 1
	if thorough {
		osslWeight = 2
	}
	var capped sync.Once
	nw := runtime.NumCPU()
	vlib.Parallel(len(family), nw, func(i int) {
		if !timeLeft(budget) {
			capped.Do(func() { run.Capped(fmt.Sprintf("time budget %v reached inside the family enumeration", budget)) })
			return
		}
		idx := family[i]
		p := dergen.ParamsAt(idx)
		b := gen.Build(p)
		in := &input{Src: "family", Label: p.String(), Replay: map[string]any{"params": p, "index": idx}, X: b.DER, Ext: b.External,
			OpenSSL: dergen.Weight(idx) <= osslWeight}
		if i < 3 || (dergen.Weight(idx) == 2 && i%97 == 0) {
			run.Sample(map[string]any{"family_member": p.String(), "bytes": len(b.DER)})
		}
		if runOps(in) {
			run.Distinct("family:" + dergen.IndexKey(idx))
		}
	})
	familyN := len(family)
	phase("family")

	// encodings DER discourages but Go accepts (present-but-empty optional
	// fields), on every single-dimension variation
	type quirkCase struct {
		q   string
		idx []int
	}
	var quirks []quirkCase
	for _, q := range dergen.Quirks {
		for _, idx := range dergen.Singles() {
			quirks = append(quirks, quirkCase{q, idx})
		}
	}
	quirkN := len(quirks)
	vlib.Parallel(len(quirks), nw, func(i int) {
		q, idx := quirks[i].q, quirks[i].idx
		p := dergen.ParamsAt(idx)
		switch q {
		case "empty-certs":
			p.Certs = "none"
		case "empty-crls":
			p.CRLs = "no"
		case "empty-unsigned":
			p.Unsigned = "none"
		}
		p.Quirk = q
		b := gen.Build(p)
		in := &input{Src: "family", Label: p.String(), Replay: map[string]any{"params": p}, X: b.DER, Ext: b.External, OpenSSL: true}
		if runOps(in) {
			run.Distinct("family-quirk:" + q + ":" + dergen.IndexKey(idx))
		}
	})

	// BER forms Go's encoding/asn1 refuses outright, fed directly (counted as refused)
	for _, idx := range dergen.Singles() {
		b := gen.Build(dergen.ParamsAt(idx))
		x := bytes.TrimRight(b.DER, "\x00")
		in := &input{Src: "family-ber", Label: dergen.ParamsAt(idx).String()}
		if y, err := dergen.NonMinimalLength(x); err == nil {
			run.Eval(1)
			if _, err, _ := unmarshalGuard(in, y); err != nil {
				run.Outcome("refused:" + refusalClass(in, nil, err))
			} else {
				run.Outcome("ber-direct:accepted-non-minimal")
			}
		}
	}

	// ---------------- 2. relic-built signatures (builder + TimestampAndMarshal) ----------------
	var built []builtCase
	for _, k := range []struct{ key, hash string }{{"rsaA", "sha256"}, {"rsaA", "sha1"}, {"rsaA", "sha384"}, {"p256A", "sha256"}, {"p384", "sha384"}, {"p384", "sha256"}} {
		for _, content := range []string{"data", "detached", "struct"} {
			for _, attrs := range []string{"none", "time", "multi", "time+multi"} {
				for _, stamp := range []string{"none", "rfc3161", "authenticode"} {
					for _, after := range []string{"", "detach"} {
						if after == "detach" && content == "detached" {
							continue
						}
						if content == "struct" && !strings.Contains(attrs, "multi") && attrs != "time" {
							// every in-tree caller that signs non-data content through the
							// builder adds attributes first (authenticode opus attributes)
							continue
						}
						built = append(built, builtCase{Key: k.key, Hash: k.hash, Content: content, Attrs: attrs, Stamp: stamp, TSA: "dergen", After: after})
					}
				}
			}
		}
	}
	// RSASSA-PSS through the builder, every way of naming the salt length
	for _, so := range []string{"pss-auto", "pss-equals-hash", "pss-salt-20"} {
		for _, hh := range []string{"sha256", "sha384"} {
			for _, content := range []string{"data", "detached"} {
				for _, stamp := range []string{"none", "rfc3161"} {
					built = append(built, builtCase{Key: "rsaA", Hash: hh, Content: content, Attrs: "time", Stamp: stamp, TSA: "dergen", SigOpts: so})
				}
			}
		}
	}
	// chains with a cross-certified intermediate / a repeated leaf through the base case and the detach path
	for _, chain := range []string{"cross", "repeated"} {
		for _, k := range []string{"rsaA", "p256A"} {
			for _, stamp := range []string{"none", "rfc3161"} {
				for _, after := range []string{"", "detach"} {
					built = append(built, builtCase{Key: k, Hash: "sha256", Content: "data", Attrs: "time", Stamp: stamp, TSA: "dergen", After: after, Chain: chain})
				}
			}
		}
	}
	// every authority token shape (singles + pairs of the family dimensions that
	// apply to a token, plus ESS v1) through the base builder case, both OIDs
	tokDims := []string{"Version", "DigAlgs", "Certs", "CRLs", "Signers", "SID", "Attrs", "SigAlg", "Unsigned"}
	var tokShapes [][]int
	{
		seen := map[string]bool{}
		isTok := map[int]bool{}
		for _, n := range tokDims {
			isTok[dergen.DimIndex(n)] = true
		}
		for _, v := range append(dergen.Singles(), dergen.Pairs()...) {
			ok := true
			for d, x := range v {
				if x != 0 && !isTok[d] {
					ok = false
				}
			}
			if ok && !seen[dergen.IndexKey(v)] {
				seen[dergen.IndexKey(v)] = true
				tokShapes = append(tokShapes, v)
			}
		}
	}
	for _, v := range tokShapes {
		for _, ess := range []string{"v2", "v1"} {
			if ess == "v1" && dergen.Weight(v) > 1 {
				continue
			}
			for _, stamp := range []string{"rfc3161", "authenticode"} {
				tp := dergen.ParamsAt(v)
				tp.EContent = "tst"
				tp.ESS = ess
				switch tp.SigAlg {
				case "ec256":
					tp.Key = "p256B"
				case "ec384":
					tp.Key = "p384"
				default:
					tp.Key = "tsa"
				}
				tpc := tp
				built = append(built, builtCase{Key: "rsaA", Hash: "sha256", Content: "data", Attrs: "time", Stamp: stamp, TSA: "dergen", Token: &tpc})
			}
		}
	}
	// the same token shapes with the TSTInfo inside a second, dummy OCTET STRING
	// (single-dimension variations; both attribute OIDs)
	wrappedN := 0
	for _, v := range tokShapes {
		if dergen.Weight(v) > 1 {
			continue
		}
		for _, stamp := range []string{"rfc3161", "authenticode"} {
			tp := dergen.ParamsAt(v)
			tp.EContent = "tst"
			tp.WrapTST = "octet"
			switch tp.SigAlg {
			case "ec256":
				tp.Key = "p256B"
			case "ec384":
				tp.Key = "p384"
			default:
				tp.Key = "tsa"
			}
			tpc := tp
			for _, after := range []string{"", "detach"} {
				built = append(built, builtCase{Key: "rsaA", Hash: "sha256", Content: "data", Attrs: "time", Stamp: stamp, TSA: "dergen", Token: &tpc, After: after})
				wrappedN++
			}
		}
	}
	// opaque content whose first octets look like a TLV header (payloads.go), through
	// every way the builder is given content and every way it is emitted
	payloads := opaquePayloads(thorough)
	for _, pl := range payloads {
		hx := hex.EncodeToString(pl.Bytes)
		for _, mode := range []struct{ content, after string }{{"data", ""}, {"data", "detach"}} {
			for _, attrs := range []string{"none", "time"} {
				built = append(built, builtCase{Key: "rsaA", Hash: "sha256", Content: mode.content, Attrs: attrs, Stamp: "none", TSA: "dergen", After: mode.after, Payload: hx, PayloadName: pl.Name})
			}
		}
		if thorough || len(pl.Bytes) == 32 {
			// with a time stamp and an ECDSA key: the hash-sized contents (all sizes in the thorough tier)
			built = append(built, builtCase{Key: "p256A", Hash: "sha256", Content: "data", Attrs: "time", Stamp: "rfc3161", TSA: "dergen", Payload: hx, PayloadName: pl.Name})
		}
	}
	// genuine OpenSSL authorities
	for _, n := range osslTSANames {
		for _, k := range []struct{ key, hash string }{{"rsaA", "sha256"}, {"p256A", "sha256"}, {"p384", "sha384"}} {
			for _, stamp := range []string{"rfc3161", "authenticode"} {
				for _, after := range []string{"", "detach"} {
					built = append(built, builtCase{Key: k.key, Hash: k.hash, Content: "data", Attrs: "time", Stamp: stamp, TSA: "ossl:" + n, After: after})
				}
			}
		}
	}
	vlib.Parallel(len(built), nw, func(i int) {
		if !timeLeft(budget) {
			capped.Do(func() { run.Capped(fmt.Sprintf("time budget %v reached", budget)) })
			return
		}
		if i%53 == 0 {
			run.Sample(map[string]any{"built_case": built[i].String()})
		}
		runBuilt(built[i])
		run.Distinct(fmt.Sprintf("built:%d", i))
	})

	tokenLifetimePhase()
	phase("builder + TimestampAndMarshal")
	// ---------------- 3. relic's pipeline, OpenSSL tokens, catalogs (sequential: one process-wide config) ----------------
	srv := startLoopbackTSA()
	cfg := relicx.BaseConfig("file")
	cfg.Timestamp = &config.TimestampConfig{URLs: []string{srv.URL}, Timeout: 60}
	relicx.Use(cfg)
	runPipeline(cfg)
	runOsslTokens()
	phase("pipeline, openssl tokens")
	textWindow := 96
	if thorough {
		textWindow = 288
	}
	textEmbedPhase(cfg, textWindow)
	phase("tokens re-encoded as text")

	hyperv, err := os.ReadFile(filepath.Join(relicx.Packages, "hyperv.cat"))
	if err != nil {
		harnessError(&input{Src: "hyperv.cat"}, "read", err.Error())
	} else {
		in := &input{Src: "hyperv.cat", Label: "functest/packages/hyperv.cat (Microsoft-signed)", Replay: "hyperv.cat", X: hyperv}
		if l, err := dergen.Locate(hyperv); err == nil {
			run.Set("hyperv_cat", map[string]any{"bytes": len(hyperv), "signers": len(l.Signers), "certificates": len(l.CertList),
				"embedded_tokens": len(l.AllTokens()), "legacy_counter_signatures": len(l.Signers[0].CounterSigs), "eContentType": l.EContentType,
				"independent_verification_failures_on_input": fmt.Sprint(verifyIndependently(l, nil))})
		}
		if runOps(in) {
			run.Distinct("hyperv.cat")
		}
		out1 := catResign(cfg, "hyperv.cat", "hyperv.cat", hyperv, "rsaA", "")
		if out1 != nil {
			out2 := catResign(cfg, "hyperv.cat re-signed once", "hyperv.cat>rsaA", out1, "p256A", "chain-ess256")
			if out2 != nil {
				catResign(cfg, "hyperv.cat re-signed twice", "hyperv.cat>rsaA>p256A", out2, "p384", "nochain-ess1")
			}
		}
	}
	// every single-dimension variation of a dergen catalog through the cat signer
	for _, idx := range dergen.Singles() {
		p := dergen.ParamsAt(idx)
		p.EContent = "ctl"
		b := gen.Build(p)
		if _, err := pkcs7.Unmarshal(b.DER); err != nil {
			run.Outcome("cat-resign:input-refused")
			continue
		}
		catResign(cfg, "dergen catalog "+p.String(), map[string]any{"params": p}, b.DER, "rsaA", "")
		run.Distinct("cat-family:" + dergen.IndexKey(idx))
	}
	srv.Close()
	phase("catalogs")
	run.Set("phase_wall_s", phases)

	// ---------------- evidence ----------------
	dims := map[string]any{}
	for _, d := range dergen.Dims {
		dims[d.Name] = d.Values
	}
	run.Set("family", map[string]any{
		"dimensions":        dims,
		"enumerated":        familyDesc,
		"members":           familyN,
		"full_product_size": len(dergen.Product(dergen.AllDimNames()...)),
		"quirk_members":     fmt.Sprintf("%d = %v x every single-dimension variation", quirkN, dergen.Quirks),
		"openssl_judged":    fmt.Sprintf("members differing from base in <= %d dimensions", osslWeight),
	})
	run.Set("built_cases", len(built))
	run.Set("opaque_content_payloads", map[string]any{"count": len(payloads), "first_octets": fmt.Sprintf("%x", payloadFirst), "sizes": payloadSizes(thorough),
		"length_forms":   "short | 0x81 | 0x82 (minimal or not) x claims none / part / all / more than the rest of the content; 0x80 indefinite with end-of-contents; 0xff",
		"driven_through": "SetContentData [then Detach], with and without signed attributes (rsaA), and with a time stamp (p256A; quick tier: the 32-octet contents only); SetDetachedContent takes a digest, not content, and its product is refused by TimestampAndMarshal's self check (class built:refused:...missing content)"})
	run.Set("wrapped_tstinfo_token_cases", wrappedN)
	run.Set("token_shapes_through_TimestampAndMarshal", len(tokShapes))
	run.Set("openssl_calls", osslCalls)
	run.Set("operations", []string{"pkcs7.Unmarshal -> Marshal (+ second round trip)", "Detach -> Marshal", "AddStampToSignedData / AddStampToSignedAuthenticode on the parsed structure -> Marshal -> round trip",
		"ber.DecodePacketErr(...).Bytes() as in csblob.parseSignature / xar.Verify on the DER form and on two indefinite-length BER forms",
		"pkcs7.NewBuilder...Sign -> pkcs9.TimestampAndMarshal (authority answer through pkcs9.NewRequest / ParseResponse) [-> Detach -> Marshal]",
		"timestamp tokens obtained through relic's own tsclient over loopback HTTP (authority side: dergen / openssl ts); 8 requests in a row through one client, every earlier token re-marshalled and re-verified after each later reply", "relic sign pipeline (ps, cab, pe-coff, cat, jar, xar, macho) with and without the loopback openssl authority", "cat signer on hyperv.cat, on its own output (x2) and on dergen catalogs",
		"relic sign pipeline (appmanifest, vsix, ps) with a loopback dergen authority whose tokens have every length of a window of consecutive byte counts; the base64 text that was written is decoded with encoding/xml + archive/zip + encoding/base64 and compared with the authority's token",
		"pkcs7.NewBuilder.SetContentData(opaque content that starts like a TLV header).Sign -> TimestampAndMarshal [-> Detach]: emitted eContent == content handed in == what Detach returns; messageDigest / direct signature over the emitted octets (walker + Go crypto, openssl cms -verify must accept)",
		"authority tokens whose TSTInfo sits in a second, dummy OCTET STRING through TimestampAndMarshal: embedded byte-identically; a refusal is a violation when the independent verifier accepts the token and relic accepts the same shape without the quirk"})
	dk := map[string]int64{}
	devKnown.Range(func(k, v any) bool { dk[k.(string)] = *(v.(*int64)); return true })
	if len(dk) > 0 {
		run.Set("dev_known_extra_hits", dk)
		for k, n := range dk {
			fmt.Printf("DEV-KNOWN (C16_KNOWN_EXTRA) key=%s hits=%d\n", k, n)
		}
	}
	if len(harnessErr) > 0 {
		run.Set("harness_errors", harnessErr)
		run.Capped(fmt.Sprintf("%d harness self-check failures (see harness_errors)", len(harnessErr)))
	}
	run.Rule("case = (input CMS blob, operation) executed on the real code and judged by the walker; distinct_nontrivial = distinct inputs relic parsed (family members by index vector, builder cases, pipeline blobs, catalogs) — refused inputs are counted only in outcome_classes")
	run.Rule("builder content dimension: content octets = first octet in {04,24,30,31,80,a0,02,00} x length form (short/0x81/0x82 claiming none, part, all, more than the rest; indefinite; 0xff) x size (bare header, hash sized, signature sized), each through SetContentData [+ Detach], with/without signed attributes, with/without a time stamp; non-trivial because the header forms differ in whether a DER reader would accept them and how much of the content they would claim")
	run.Rule("text-embedded tokens: signer in {appmanifest, vsix, ps} x token length in a window of consecutive byte counts (quick 96, thorough 288: every residue modulo the 48-byte base64 line at least twice, modulo the 3-byte quantum 32 times); outcome classes name the boundary class of each length (last line full / partial, quantum remainder)")
	run.Assume("structures Go's encoding/asn1 refuses (indefinite or non-minimal lengths) and SignerInfos identified by subjectKeyIdentifier (relic's IssuerAndSerial struct cannot hold them) are outside 'that relic parses': counted as refused")
	run.Assume("a re-encoded unsigned region (re-sorted SET OF digestAlgorithms / signerInfos) is reported as outcome class unsigned-region-reencoded:<field> and is a violation only if an independently verified signature stops verifying")
	run.Assume("text forms: only RFC 3161 requests (the legacy Microsoft protocol of appmanifest's rfc3161-timestamp=false is not driven); the cosign signer's annotation (needs an OCI registry) is not driven; base64 text is decoded after removing CR, LF, space and tab, nothing else is tolerated")
	run.Assume("the token length is steered by an unsigned attribute (private OID, OCTET STRING filler >= 256 octets so that one octet of filler is one octet of token) on the authority's SignerInfo: outside every signature, so the token stays valid for every verifier")
	run.Assume("the BER repack step is the three library calls csblob.parseSignature and xar.Verify make (replicated verbatim in the harness; the functions themselves are reached through the macho/xar pipeline cases)")
	for _, a := range moreAssumptions {
		run.Assume(a)
	}
	os.RemoveAll(tmp)
	run.Finish()
}

func init() {
	moreAssumptions = []string{
		"relic-built oracle: a SignerInfo without signed attributes is accepted only for eContentType id-data (RFC 5652 5.3: signedAttrs MUST be present otherwise); the builder cases the harness itself drives without attributes on non-data content are not judged by this rule",
		"the stamp operations hand relic a copy of the input in a buffer with spare capacity (len n, cap 2n+4096), as io.ReadAll returns; a token added to a parsed SignerInfo that is simply not emitted changes no signed region and is counted as outcome class token-not-emitted unless C16_STRICT_STAMP=1",
		"ECDSA and RSA-PSS signatures are randomised: which of two SignerInfos sorts first can differ between runs; both orders are enumerated (2s/2u) and nothing is compared across runs",
		"Detach on content that is a definite-length CONSTRUCTED OCTET STRING, and CMS CertificateChoices other than X.509 certificates / other[3], are not generated",
	}
}

var moreAssumptions []string

func unmarshalGuard(in *input, x []byte) (*pkcs7.ContentInfoSignedData, error, bool) {
	var psd *pkcs7.ContentInfoSignedData
	err, pan := guard(in, "pkcs7.Unmarshal", func() (e error) { psd, e = pkcs7.Unmarshal(x); return })
	return psd, err, pan
}

// replayFile re-executes the single case stored in a replay artefact: the
// input bytes are run through every operation again (for relic-built findings
// the stored input is relic's product and the relic-built oracle is applied).
func replayFile(path string) int {
	blob, err := os.ReadFile(path)
	if err != nil {
		fmt.Println("replay:", err)
		return 2
	}
	var doc struct {
		Key    string
		Replay struct {
			Source   string `json:"source"`
			Label    string `json:"label"`
			InputHex string `json:"input_hex"`
		}
	}
	if err := json.Unmarshal(blob, &doc); err != nil || doc.Replay.InputHex == "" {
		fmt.Println("replay: no input_hex in", path, err)
		return 2
	}
	x, err := hex.DecodeString(doc.Replay.InputHex)
	if err != nil {
		fmt.Println("replay:", err)
		return 2
	}
	replayMode = true
	src := doc.Replay.Source
	in := &input{Src: src, Label: doc.Replay.Label, Replay: "replay of " + path, X: x,
		RelicBuilt: src == "pipeline" || src == "built" || src == "cat-resign"}
	if strings.Contains(doc.Replay.Label, "type=cat") || src == "cat-resign" {
		in.Signer = "cat"
	}
	if src == "family" && strings.Contains(doc.Replay.Label, "econtent=absent") {
		in.Ext = dergen.DataContent
	}
	runOps(in)
	fmt.Printf("replay of %s (%s): %d violation(s) reproduced\n", doc.Key, path, replayHits)
	if replayHits > 0 {
		return 1
	}
	return 0
}

package main

import (
	"archive/zip"
	"bytes"
	"crypto"
	"encoding/base64"
	"encoding/hex"
	"encoding/xml"
	"errors"
	"fmt"
	"io"
	"net/url"
	"os"
	"path/filepath"
	"strings"

	"github.com/sassoftware/relic/v8/config"

	"verif/gen/dergen"
	"verif/relicx"
)

// Tokens that relic re-encodes into a TEXT form.
//
// Three signers do not put the authority's token into a DER attribute but
// write it (or the SignedData that carries it) as base64 text: appmanifest
// (<as:Timestamp>, 64-column lines), vsix (<EncodedTime> in the .psdsxs part)
// and ps (the "# SIG #" block, 64-column lines). "Re-encoded byte-identically"
// then has one more stage that can lose bytes, and whether it does depends on
// nothing but the LENGTH of what is encoded (line and quantum boundaries).
// So the dimension enumerated here is the token length: the loopback authority
// issues tokens of every length in a window of consecutive byte counts (every
// residue of every chunk size up to the window width occurs, the 48-byte line
// and the 3-byte base64 quantum at least twice each), each real signer is run
// once per length, and what was written is read back without relic code
// (encoding/xml, archive/zip, encoding/base64) and compared byte for byte with
// the token the authority sent.

type textTarget struct {
	file, sigType string
	// extract returns the DER blobs found in the signed file that must contain / be the token
	extract func(path string) ([]byte, error)
	// whole: the text holds the token itself (otherwise a SignedData that embeds it)
	whole bool
}

const (
	nsAuthenticode = "http://schemas.microsoft.com/windows/pki/2005/Authenticode"
	nsDigSig       = "http://schemas.openxmlformats.org/package/2006/digital-signature"
)

// xmlElementText: the concatenated character data of the only element with
// the given local name (and namespace, when given) in an XML document.
func xmlElementText(doc []byte, space, local string) (string, error) {
	d := xml.NewDecoder(bytes.NewReader(doc))
	depth, found := 0, 0
	var sb strings.Builder
	for {
		t, err := d.Token()
		if err == io.EOF {
			break
		}
		if err != nil {
			return "", err
		}
		switch e := t.(type) {
		case xml.StartElement:
			if depth > 0 {
				depth++
			} else if e.Name.Local == local && (space == "" || e.Name.Space == space) {
				depth = 1
				found++
			}
		case xml.EndElement:
			if depth > 0 {
				depth--
			}
		case xml.CharData:
			if depth == 1 {
				sb.Write(e)
			}
		}
	}
	if found != 1 {
		return "", fmt.Errorf("%d <%s> elements", found, local)
	}
	return sb.String(), nil
}

var errNotBase64 = errors.New("not base64")

// unBase64 decodes standard base64 text that may be broken into lines.
func unBase64(text string) ([]byte, error) {
	clean := strings.Map(func(r rune) rune {
		switch r {
		case '\r', '\n', ' ', '\t':
			return -1
		}
		return r
	}, text)
	b, err := base64.StdEncoding.DecodeString(clean)
	if err != nil {
		return nil, fmt.Errorf("%w: %v", errNotBase64, err)
	}
	return b, nil
}

func textTargets() []textTarget {
	return []textTarget{
		{file: "WindowsFormsApplication1.exe.manifest", sigType: "appmanifest", whole: true, extract: func(path string) ([]byte, error) {
			doc, err := os.ReadFile(path)
			if err != nil {
				return nil, err
			}
			text, err := xmlElementText(doc, nsAuthenticode, "Timestamp")
			if err != nil {
				return nil, err
			}
			return unBase64(text)
		}},
		{file: "VSIXProject1.vsix", sigType: "vsix", whole: true, extract: func(path string) ([]byte, error) {
			zr, err := zip.OpenReader(path)
			if err != nil {
				return nil, err
			}
			defer zr.Close()
			for _, f := range zr.File {
				if !strings.HasSuffix(f.Name, ".psdsxs") {
					continue
				}
				if f.UncompressedSize64 > 1<<22 {
					return nil, fmt.Errorf("%s: %d bytes", f.Name, f.UncompressedSize64)
				}
				rc, err := f.Open()
				if err != nil {
					return nil, err
				}
				doc, err := io.ReadAll(io.LimitReader(rc, 1<<22))
				rc.Close()
				if err != nil {
					return nil, err
				}
				text, err := xmlElementText(doc, "", "EncodedTime")
				if err != nil {
					return nil, err
				}
				return unBase64(text)
			}
			return nil, errors.New("no .psdsxs part")
		}},
		{file: "hello.ps1", sigType: "ps", whole: false, extract: func(path string) ([]byte, error) {
			bs, err := extractCMS(path, "ps")
			if err != nil {
				if strings.Contains(err.Error(), "illegal base64") {
					return nil, fmt.Errorf("%w: %v", errNotBase64, err)
				}
				return nil, err
			}
			return bs[0].der, nil
		}},
	}
}

// lengthTSA answers every query with the base dergen token (for that query's
// imprint and nonce) padded to exactly target bytes. Padding lengths stay at
// or above 256 so that every length field the padding sits in has the 0x82
// form and one more octet of padding is exactly one more octet of token.
type lengthTSA struct {
	target int
	err    error
}

const padFloor = 300

// the authority's chain is in the token (leaf, intermediate, root), so that every verifier can build a path
var lengthShape = dergen.Params{Version: "3", DigAlgs: "1n", EContent: "tst", Certs: "3s", CRLs: "no", Signers: "1", SID: "ias",
	Attrs: "sorted", SigAlg: "rsa", Unsigned: "none", Trailing: "0", Key: "tsa"}

func (t *lengthTSA) answer(query []byte) ([]byte, error) {
	resp, err := dergenTSA(&lengthShape)(query)
	if err != nil {
		return nil, err
	}
	tok, err := tokenOfResponse(resp)
	if err != nil {
		return nil, err
	}
	probe, err := dergen.PadToken(tok, padFloor)
	if err != nil {
		return nil, err
	}
	pad := padFloor + t.target - len(probe)
	if pad < 256 || pad > 60000 {
		return nil, fmt.Errorf("target length %d is out of reach (token with %d octets of padding has %d)", t.target, padFloor, len(probe))
	}
	out, err := dergen.PadToken(tok, pad)
	if err != nil {
		return nil, err
	}
	if len(out) != t.target {
		return nil, fmt.Errorf("padded token has %d bytes, wanted %d", len(out), t.target)
	}
	return dergen.TimeStampResp(out), nil
}

func textEmbedPhase(cfg *config.Config, window int) {
	// where the window starts: the length of a padded base token, rounded up
	probe, err := dergen.PadToken(gen.Token(dergen.Digest(crypto.SHA256, []byte("probe")), 0, &lengthShape), padFloor)
	if err != nil {
		harnessError(&input{Src: "text-embed"}, "pad", err.Error())
		return
	}
	first := len(probe) + 64 // room for nonces of any size relic may send
	lt := &lengthTSA{}
	tsaMu.Lock()
	tsaOverride = func(q []byte) ([]byte, error) {
		r, err := lt.answer(q)
		if err != nil {
			lt.err = err
		}
		return r, err
	}
	tsaMu.Unlock()
	defer func() {
		tsaMu.Lock()
		tsaOverride = nil
		tsaMu.Unlock()
	}()
	lengths := map[string]map[int]bool{}
	for _, tg := range textTargets() {
		lengths[tg.sigType] = map[int]bool{}
		for _, key := range []string{"rsaA"} {
			for n := first; n < first+window; n++ {
				lt.target, lt.err = n, nil
				if textEmbedCase(cfg, tg, key, n) {
					lengths[tg.sigType][n] = true
				}
			}
		}
	}
	cover := map[string]int{}
	for s, m := range lengths {
		cover[s] = len(m)
	}
	run.Set("text_embedded_tokens", map[string]any{
		"signers":                  []string{"appmanifest <as:Timestamp> (base64, 64-column lines)", "vsix <EncodedTime> (base64)", "ps signature block (base64 of the SignedData that carries the token, 64-column lines)"},
		"token_lengths":            fmt.Sprintf("every length from %d to %d bytes (%d consecutive values)", first, first+window-1, window),
		"lengths_judged_by_signer": cover,
	})
}

// textEmbedCase signs one file with a token of exactly n bytes. Returns true
// when the token was issued, embedded and judged.
func textEmbedCase(cfg *config.Config, tg textTarget, key string, n int) bool {
	label := fmt.Sprintf("%s type=%s key=%s token-length=%d", tg.file, tg.sigType, key, n)
	in := &input{Src: "text-embed", Label: label, Replay: map[string]any{"file": tg.file, "type": tg.sigType, "key": key, "token_length": n}, Signer: tg.sigType}
	dir, err := os.MkdirTemp(tmp, "text-")
	if err != nil {
		panic(err)
	}
	defer os.RemoveAll(dir)
	path := filepath.Join(dir, tg.file)
	src, err := os.ReadFile(filepath.Join(relicx.Packages, tg.file))
	if err != nil {
		harnessError(in, "copy", err.Error())
		return false
	}
	if err := os.WriteFile(path, src, 0o644); err != nil {
		harnessError(in, "copy", err.Error())
		return false
	}
	cfg.Keys[key].Timestamp = true
	tsaMu.Lock()
	tsaMode = "length"
	issuedBefore := len(tsaIssued)
	tsaMu.Unlock()
	tok, err := relicx.OpenTokenByKey(cfg, key)
	if err != nil {
		harnessError(in, "open-token", err.Error())
		return false
	}
	run.Eval(1)
	err, pan := guard(in, "signers."+tg.sigType+".Sign", func() error {
		return relicx.SignStandalone(cfg, tok, relicx.SignReq{SigType: tg.sigType, Key: key, Hash: crypto.SHA256, Flags: url.Values{}, In: path})
	})
	tsaMu.Lock()
	issued := append([][]byte{}, tsaIssued[issuedBefore:]...)
	tsaMu.Unlock()
	if err != nil {
		if pan {
			return false
		}
		if len(issued) == 0 {
			harnessError(in, "tsa", "no token issued: "+err.Error())
			return false
		}
		// an authority token that only differs from its neighbours in length is
		// refused: reported by class (the property speaks about what is emitted)
		run.Outcome("text-embed:" + tg.sigType + ":sign-refused:" + short(err))
		return false
	}
	if len(issued) == 0 {
		violation("stamp-not-emitted:text:"+tg.sigType, label+": timestamping is configured and the authority was never asked", in.replay("text-embed", nil))
		return false
	}
	if fi, err := os.Stat(path); err != nil || fi.Size() > 1<<24 {
		violation("text-embed:output-unreadable:"+tg.sigType, fmt.Sprintf("%s: %v", label, err), in.replay("text-embed", nil))
		return false
	}
	got, err := tg.extract(path)
	if err != nil {
		if errors.Is(err, errNotBase64) {
			violation("embed-token-text:"+tg.sigType+":not-base64", fmt.Sprintf("%s: the text relic wrote does not decode: %v", label, err), in.replay("text-embed", nil))
		} else {
			violation("stamp-not-emitted:text:"+tg.sigType, fmt.Sprintf("%s: %v", label, err), in.replay("text-embed", nil))
		}
		return false
	}
	want := issued[len(issued)-1]
	if len(want) != n {
		harnessError(in, "tsa", fmt.Sprintf("issued token has %d bytes", len(want)))
		return false
	}
	// which boundary classes this length falls in (what makes the cases differ)
	class := fmt.Sprintf("last-line-%s,quantum-%d", map[bool]string{true: "full", false: "partial"}[n%48 == 0], n%3)
	if !tg.whole {
		// the SignedData that carries the token is what is written as text
		l, err := dergen.Locate(got)
		if err != nil {
			what := "not-der"
			if errors.Is(err, dergen.ErrTruncated) {
				what = "truncated"
			}
			violation("embed-token-text:"+tg.sigType+":"+what, fmt.Sprintf("%s: the decoded signature block (%d bytes) does not locate: %v", label, len(got), err), in.replay("text-embed", map[string]any{"output_hex": hex.EncodeToString(got)}))
			return true
		}
		if !l.Trailing.Empty() {
			violation("embed-token-text:"+tg.sigType+":trailing-bytes", label, in.replay("text-embed", nil))
		}
		toks := l.AllTokens()
		if len(toks) == 0 {
			violation("stamp-not-emitted:text:"+tg.sigType, label+": no token in the signature block", in.replay("text-embed", nil))
			return true
		}
		got = toks[0].Ref.Value.Of(got)
		class = fmt.Sprintf("block-last-line-%s,quantum-%d", map[bool]string{true: "full", false: "partial"}[l.Full.Len()%48 == 0], l.Full.Len()%3)
	}
	judgeTextToken(in, tg.sigType, class, got, want)
	if _, err := relicx.Verify(path, relicx.TrustOpts()); err != nil {
		run.Outcome("text-embed:" + tg.sigType + ":relic-verify-fails:" + short(err))
	} else {
		run.Outcome("text-embed:" + tg.sigType + ":relic-verify-ok")
	}
	return true
}

// judgeTextToken: got (decoded from the text relic wrote) against the token
// the authority sent.
func judgeTextToken(in *input, signer, class string, got, want []byte) {
	run.Eval(1)
	if bytes.Equal(got, want) {
		run.Outcome("embed-token-text:" + signer + ":byte-identical(" + class + ")")
		return
	}
	rep := in.replay("text-embed", map[string]any{"decoded_hex": hex.EncodeToString(got), "authority_token_hex": hex.EncodeToString(want)})
	if len(got) < len(want) && bytes.Equal(got, want[:len(got)]) {
		violation("embed-token-text:"+signer+":truncated", fmt.Sprintf("%s: the text form holds the first %d of the token's %d bytes (%s)", in.Label, len(got), len(want), class), rep)
		return
	}
	lw, werr := dergen.Locate(want)
	if werr != nil {
		harnessError(in, "tsa", "authority token does not locate: "+werr.Error())
		return
	}
	lg, err := dergen.Locate(got)
	if err != nil {
		violation("embed-token-text:"+signer+":not-der", fmt.Sprintf("%s: decoded %d bytes for a token of %d: %v", in.Label, len(got), len(want), err), rep)
		return
	}
	if !lg.Trailing.Empty() {
		violation("embed-token-text:"+signer+":trailing-bytes", in.Label, rep)
	}
	d := compare(lw, lg, cmpOpts{})
	for _, s := range dedupe(d.signed) {
		violation("signed-region-changed:embed-token-text:"+signer+":"+s, fmt.Sprintf("%s: the embedded token differs from the authority's in %s", in.Label, s), rep)
	}
	us := dedupe(d.unsigned)
	if len(d.signed) == 0 && len(us) == 0 {
		us = []string{"unlocated"}
	}
	for _, u := range us {
		run.Outcome("embed-token-text:" + signer + ":unsigned-region-reencoded:" + u)
	}
	before := failSet{}
	for _, f := range dergen.VerifyAll(lw, nil, fx.Pool) {
		before[f.Path] = f.Err.Error()
	}
	for _, f := range dergen.VerifyAll(lg, nil, fx.Pool) {
		if _, was := before[f.Path]; !was {
			violation("third-party-signature-broken:embed-token-text:"+signer, fmt.Sprintf("%s: %s: %v", in.Label, f.Path, f.Err), rep)
		}
	}
}

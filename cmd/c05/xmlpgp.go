package main

import (
	"archive/tar"
	"bytes"
	"compress/gzip"
	"crypto/x509"
	"encoding/base64"
	"encoding/hex"
	"fmt"
	"net/url"
	"os"
	"os/exec"
	"path/filepath"
	"regexp"
	"strings"

	"verif/gen/dergen"
)

// ---- ClickOnce manifest ------------------------------------------------------------------------

var (
	reTimestamp = regexp.MustCompile(`<as:Timestamp[^>]*>([^<]+)</as:Timestamp>`)
	reSigValue  = regexp.MustCompile(`<(?:[A-Za-z0-9]+:)?SignatureValue[^>]*>([^<]+)</(?:[A-Za-z0-9]+:)?SignatureValue>`)
	reX509      = regexp.MustCompile(`<(?:[A-Za-z0-9]+:)?X509Certificate[^>]*>([^<]+)</(?:[A-Za-z0-9]+:)?X509Certificate>`)
)

func unb64ws(s string) ([]byte, error) {
	s = strings.Map(func(r rune) rune {
		if r == ' ' || r == '\n' || r == '\r' || r == '\t' {
			return -1
		}
		return r
	}, s)
	return base64.StdEncoding.DecodeString(s)
}

func jdkXML(c sigCase, kind string, doc []byte, spki []byte, dsig bool) {
	r := java("VALID " + kind + " " + b64(doc) + " " + b64(spki))
	ok := r == "OK 1 valid"
	oracle(c.Fmt, "JDK canonicaliser + JCA: XML-DSig core validation", ok)
	if !ok {
		violation(c.Fmt+":jdk-xmldsig-rejects:"+keyType(c.Key)+":"+xmlReason(r), fmt.Sprintf("%s: %s", c, r), c.replay(map[string]any{"document": string(doc)}))
	}
	if dsig {
		r := java("DSIG " + kind + " " + b64(doc) + " " + b64(spki))
		ok := r == "OK 1 valid"
		oracle(c.Fmt, "JDK javax.xml.crypto.dsig validate()", ok)
		if !ok {
			violation(c.Fmt+":jdk-javax-dsig-rejects:"+keyType(c.Key)+":"+xmlReason(r), fmt.Sprintf("%s: %s", c, r), c.replay(map[string]any{"document": string(doc)}))
		}
	}
}

func xmlReason(r string) string {
	f := strings.Fields(r)
	if len(f) >= 3 {
		s := f[2]
		if len(s) > 60 {
			s = s[:60]
		}
		return s
	}
	return "error"
}

func runManifestCase(c sigCase, input []byte) {
	dir := scratchDir("man")
	defer os.RemoveAll(dir)
	path := filepath.Join(dir, "x.exe.manifest")
	os.WriteFile(path, input, 0o644)
	if !signedOK(c, signWith(c, "appmanifest", path, "")) {
		return
	}
	if !relicAccepts(c, path, "") {
		if c.TS {
			// informational only: OpenSSL's verdict on the token relic's verifier rejects
			doc := mustRead(path)
			if m := reTimestamp.FindSubmatchIndex(doc); m != nil {
				tok, _ := unb64ws(string(doc[m[2]:m[3]]))
				var stamped []byte
				for _, sv := range reSigValue.FindAllSubmatchIndex(doc, -1) {
					if sv[0] < m[0] {
						stamped, _ = unb64ws(string(doc[sv[2]:sv[3]]))
					}
				}
				err := opensslTSVerify(tok, stamped)
				tally("informational: outside verdict on outputs relic's own verifier rejects", fmt.Sprintf("appmanifest key=%s timestamped: openssl ts -verify over the SignatureValue octets accepts=%v", c.Key, err == nil), 1)
			}
		}
		return
	}
	run.Distinct(c.String())
	doc := mustRead(path)
	// javax.xml.crypto.dsig knows only the W3C algorithm URIs: SHA-1 manifests use them
	jdkXML(c, "manifest", doc, fx.Keys[c.Key].Leaf.RawSubjectPublicKeyInfo, c.Hash == "sha1")
	if c.TS {
		m := reTimestamp.FindSubmatchIndex(doc)
		if m == nil {
			violation("appmanifest:timestamp-requested-none-embedded", c.String(), c.replay(nil))
			return
		}
		tok, err := unb64ws(string(doc[m[2]:m[3]]))
		if err != nil {
			violation("appmanifest:timestamp-not-base64", c.String(), c.replay(nil))
			return
		}
		// the stamped value is the SignatureValue of the signature that carries the token
		var stamped []byte
		for _, sv := range reSigValue.FindAllSubmatchIndex(doc, -1) {
			if sv[0] < m[0] {
				stamped, _ = unb64ws(string(doc[sv[2]:sv[3]]))
			}
		}
		err = opensslTSVerify(tok, stamped)
		oracle(c.Fmt, "openssl ts -verify (embedded token over signature value)", err == nil)
		if err != nil {
			violation("appmanifest:openssl-ts-rejects", fmt.Sprintf("%s: %v", c, err), c.replay(map[string]any{"token_hex": hex.EncodeToString(tok), "stamped_hex": hex.EncodeToString(stamped)}))
		}
	}
}

// ---- VSIX ------------------------------------------------------------------------------------------

var xmlHashURI = map[string]string{
	"http://www.w3.org/2000/09/xmldsig#sha1":        "sha1",
	"http://www.w3.org/2001/04/xmldsig-more#sha224": "sha224",
	"http://www.w3.org/2001/04/xmlenc#sha256":       "sha256",
	"http://www.w3.org/2001/04/xmldsig-more#sha384": "sha384",
	"http://www.w3.org/2001/04/xmlenc#sha512":       "sha512",
}

const relTransform = "http://schemas.openxmlformats.org/package/2006/RelationshipTransform"

// checkVsix validates the signature part of an OPC package with the JDK and
// recomputes every part digest listed in its ds:Manifest. Returns problems as
// (key suffix, description) pairs.
func checkVsix(data []byte, spki []byte, dsig bool) (sigDoc []byte, problems [][2]string) {
	files, err := zipFiles(data, "")
	if err != nil {
		return nil, [][2]string{{"output-not-a-zip", err.Error()}}
	}
	var name string
	for n := range files {
		if strings.HasPrefix(n, "package/services/digital-signature/xml-signature/") && strings.HasSuffix(n, ".psdsxs") {
			name = n
		}
	}
	if name == "" {
		return nil, [][2]string{{"no-signature-part", "no *.psdsxs part"}}
	}
	doc := files[name]
	if spki == nil {
		// third-party package: take the key from the embedded certificate
		m := reX509.FindSubmatch(doc)
		if m == nil {
			return doc, [][2]string{{"no-embedded-certificate", ""}}
		}
		der, err := unb64ws(string(m[1]))
		if err != nil {
			return doc, [][2]string{{"bad-embedded-certificate", err.Error()}}
		}
		cert, err := x509.ParseCertificate(der)
		if err != nil {
			return doc, [][2]string{{"bad-embedded-certificate", err.Error()}}
		}
		spki = cert.RawSubjectPublicKeyInfo
	}
	if r := java("VALID vsix " + b64(doc) + " " + b64(spki)); r != "OK 1 valid" {
		problems = append(problems, [2]string{"jdk-xmldsig-rejects:" + xmlReason(r), r})
	}
	if dsig {
		if r := java("DSIG vsix " + b64(doc) + " " + b64(spki)); r != "OK 1 valid" {
			problems = append(problems, [2]string{"jdk-javax-dsig-rejects:" + xmlReason(r), r})
		}
	}
	r := java("PARTS " + b64(doc))
	if !strings.HasPrefix(r, "OK") {
		return doc, append(problems, [2]string{"manifest-unreadable", r})
	}
	refs := strings.Fields(r)[1:]
	if len(refs) == 0 {
		problems = append(problems, [2]string{"manifest-lists-no-parts", ""})
	}
	for _, ref := range refs {
		f := strings.Split(ref, "|")
		if len(f) != 4 {
			problems = append(problems, [2]string{"manifest-unreadable", ref})
			continue
		}
		ub, _ := base64.StdEncoding.DecodeString(f[0])
		uri := string(ub)
		hn := xmlHashURI[f[1]]
		want, _ := base64.StdEncoding.DecodeString(f[2])
		part := uri
		if i := strings.IndexByte(part, '?'); i >= 0 {
			part = part[:i]
		}
		part = strings.TrimPrefix(part, "/")
		if un, err := url.PathUnescape(part); err == nil {
			part = un
		}
		body, ok := files[part]
		if !ok {
			problems = append(problems, [2]string{"manifest-part-missing", uri})
			continue
		}
		if hn == "" {
			problems = append(problems, [2]string{"manifest-digest-method-unknown", f[1]})
			continue
		}
		if f[3] != "-" {
			var ids []string
			okT := true
			for _, t := range strings.Split(f[3], ",") {
				parts := strings.Split(t, ";")
				switch parts[0] {
				case relTransform:
					for _, p := range parts[1:] {
						ids = append(ids, strings.TrimPrefix(p, "id="))
					}
				case "http://www.w3.org/TR/2001/REC-xml-c14n-20010315":
				default:
					okT = false
				}
			}
			if !okT {
				problems = append(problems, [2]string{"manifest-transform-unknown", f[3]})
				continue
			}
			idl := "-"
			if len(ids) > 0 {
				idl = strings.Join(ids, ",")
			}
			rr := java("RELS " + b64(body) + " " + idl)
			if !strings.HasPrefix(rr, "OK ") {
				problems = append(problems, [2]string{"relationships-transform-failed", rr})
				continue
			}
			body, _ = base64.StdEncoding.DecodeString(strings.TrimPrefix(rr, "OK "))
			if strings.TrimPrefix(rr, "OK ") == "-" {
				body = nil
			}
		}
		got := dergen.Digest(hashOf(hn), body)
		if !bytes.Equal(got, want) {
			kind := "part-digest-differs"
			if f[3] != "-" {
				kind = "relationships-part-digest-differs"
			}
			problems = append(problems, [2]string{kind, fmt.Sprintf("%s: manifest %x, recomputed %x", uri, want, got)})
		}
	}
	return doc, problems
}

func runVsixCase(c sigCase, input []byte) {
	dir := scratchDir("vsix")
	defer os.RemoveAll(dir)
	path := filepath.Join(dir, "x.vsix")
	os.WriteFile(path, input, 0o644)
	if !signedOK(c, signWith(c, "vsix", path, "")) {
		return
	}
	if !relicAccepts(c, path, "") {
		return
	}
	run.Distinct(c.String())
	doc, problems := checkVsix(mustRead(path), fx.Keys[c.Key].Leaf.RawSubjectPublicKeyInfo, true)
	oracle(c.Fmt, "JDK XML-DSig validation of the signature part + recomputed OPC part digests", len(problems) == 0)
	for _, p := range problems {
		violation("vsix:"+p[0]+":"+keyType(c.Key), fmt.Sprintf("%s: %s", c, p[1]), c.replay(map[string]any{"signature_part": string(doc)}))
	}
}

// ---- OpenPGP -----------------------------------------------------------------------------------------

type pgpText struct {
	ID   string
	Text string
}

func pgpTexts() []pgpText {
	return []pgpText{
		{"lf-final", "hello world\nsecond line\n"},
		{"lf-nofinal", "hello world\nsecond line"},
		{"trailing-whitespace", "ends in blanks  \t\nand tab\t\nlast \n"},
		{"dash-lines", "- item\n-----BEGIN PGP SIGNATURE-----\n-\nFrom the start\n"},
		{"crlf", "dos line one\r\ndos line two\r\n"},
		{"mixed-endings", "unix\ndos\r\nlone cr\rend\n"},
		{"empty", ""},
		{"only-newline", "\n"},
		{"trailing-blank-lines", "text\n\n\n"},
		{"utf8", "grüße € 😀\n"},
		{"long-line", strings.Repeat("x", 5000) + "\n"},
		// (lines beyond ~20000 characters are outside what GnuPG itself accepts in text documents; relic's handling of very long lines is C01's and C11's matter)
		{"line-of-19000-bytes", "first\n" + strings.Repeat("y", 19000) + "\nlast\n"},
		// sizes that put the inline literal packet (1 mode + 1 + len("message.txt")
		// + 4 time octets + text) on either side of the OpenPGP length-encoding
		// boundaries 191|192 and 8383|8384 (RFC 4880 4.2.2)
		{"literal-body-191", strings.Repeat("a", 191-17)},
		{"literal-body-192", strings.Repeat("a", 192-17)},
		{"literal-body-8383", strings.Repeat("b", 8383-17)},
		{"literal-body-8384", strings.Repeat("b", 8384-17)},
		{"literal-body-8385", strings.Repeat("b", 8385-17)},
	}
}

// clearCanon: what a cleartext signature protects (RFC 4880 7.1): lines with
// trailing blanks removed, line endings irrelevant, no final line ending.
func clearCanon(b []byte) string {
	s := strings.ReplaceAll(string(b), "\r\n", "\n")
	lines := strings.Split(s, "\n")
	for i, l := range lines {
		lines[i] = strings.TrimRight(l, " \t\r")
	}
	s = strings.Join(lines, "\n")
	return strings.TrimSuffix(s, "\n")
}

func pgpFlagClass(c sigCase) string {
	var f []string
	for _, k := range []string{"armor", "clearsign", "inline", "textmode"} {
		if c.Flags[k] == "true" {
			f = append(f, k)
		}
	}
	if len(f) == 0 {
		return "detached-binary"
	}
	return strings.Join(f, "+")
}

func runPGPCase(c sigCase, t pgpText) {
	dir := scratchDir("pgp")
	defer os.RemoveAll(dir)
	in := filepath.Join(dir, "message.txt")
	out := filepath.Join(dir, "message.out")
	os.WriteFile(in, []byte(t.Text), 0o644)
	if !signedOK(c, signWith(c, "pgp", in, out)) {
		return
	}
	res := mustRead(out)
	merged := c.Flags["clearsign"] == "true" || c.Flags["inline"] == "true"
	content := ""
	if !merged {
		content = in
	}
	if !relicAccepts(c, out, content) {
		// informational only: what GnuPG thinks of an output relic itself rejects
		var ok bool
		if merged {
			ok, _, _ = gpgv(c.Key, false, out)
		} else {
			ok, _, _ = gpgv(c.Key, false, out, in)
		}
		tally("informational: outside verdict on outputs relic's own verifier rejects", fmt.Sprintf("pgp %s: gpgv accepts=%v", pgpFlagClass(c), ok), 1)
		return
	}
	run.Distinct(c.String())
	// key class: signature mode (armor is only an encoding) + whether the text
	// differs from its canonical <CR><LF> form
	mode := "detached"
	switch {
	case c.Flags["clearsign"] == "true":
		mode = "clearsign"
	case c.Flags["inline"] == "true":
		mode = "inline"
	}
	if c.Flags["textmode"] == "true" {
		mode += "+textmode"
	}
	canon := strings.ReplaceAll(strings.ReplaceAll(t.Text, "\r\n", "\n"), "\n", "\r\n")
	cls := mode + ":text-already-in-crlf-form"
	if canon != t.Text {
		cls = mode + ":text-not-in-crlf-form"
	}
	var ok bool
	var plain []byte
	var status string
	if merged {
		ok, plain, status = gpgv(c.Key, true, out)
	} else {
		ok, _, status = gpgv(c.Key, false, out, in)
	}
	oracle(c.Fmt, "gpgv", ok)
	if !ok {
		violation("pgp:gpgv-rejects:"+cls, fmt.Sprintf("%s: %s", c, status), c.replay(map[string]any{"text": t.Text, "output_b64": base64.StdEncoding.EncodeToString(res)}))
		return
	}
	if h := validsigHash(status); h != c.Hash {
		violation("pgp:digest-algorithm-not-requested:"+pgpFlagClass(c), fmt.Sprintf("%s: gpgv reports %s", c, h), c.replay(nil))
	}
	if merged {
		if c.Flags["clearsign"] == "true" {
			if clearCanon(plain) != clearCanon([]byte(t.Text)) {
				violation("pgp:clearsign-text-differs:"+t.ID, fmt.Sprintf("%s: text recovered by gpgv %q, input %q", c, clearCanon(plain), clearCanon([]byte(t.Text))), c.replay(nil))
			}
		} else if !bytes.Equal(plain, []byte(t.Text)) {
			violation("pgp:inline-literal-differs:"+t.ID, fmt.Sprintf("%s: literal data recovered by gpgv differs from the input (%d vs %d bytes)", c, len(plain), len(t.Text)), c.replay(nil))
		}
	}
	wantArmor := c.Flags["armor"] == "true" || c.Flags["clearsign"] == "true"
	if isArmor := bytes.HasPrefix(res, []byte("-----BEGIN PGP")); isArmor != wantArmor {
		run.Outcome("pgp:armor-flag-not-reflected:" + pgpFlagClass(c))
	}
}

// ---- DEB ----------------------------------------------------------------------------------------------

func arWrite(members [][2][]byte) []byte {
	var b bytes.Buffer
	b.WriteString("!<arch>\n")
	for _, m := range members {
		fmt.Fprintf(&b, "%-16s%-12d%-6d%-6d%-8s%-10d`\n", string(m[0]), 1600000000, 0, 0, "100644", len(m[1]))
		b.Write(m[1])
		if len(m[1])%2 == 1 {
			b.WriteByte('\n')
		}
	}
	return b.Bytes()
}

func tarGz(files [][2]string) []byte {
	var b bytes.Buffer
	gz := gzip.NewWriter(&b)
	tw := tar.NewWriter(gz)
	tw.WriteHeader(&tar.Header{Name: "./", Typeflag: tar.TypeDir, Mode: 0o755})
	for _, f := range files {
		tw.WriteHeader(&tar.Header{Name: "./" + f[0], Mode: 0o644, Size: int64(len(f[1])), Typeflag: tar.TypeReg})
		tw.Write([]byte(f[1]))
	}
	tw.Close()
	gz.Close()
	return b.Bytes()
}

type debShape struct {
	ID   string
	Data []byte
}

func debFamily() []debShape {
	control := "Package: c05sample\nVersion: 1.0\nArchitecture: all\nMaintainer: Verif <verif@example.invalid>\nDescription: sample\n generated by the C05 harness\n"
	small := arWrite([][2][]byte{
		{[]byte("debian-binary"), []byte("2.0\n")},
		{[]byte("control.tar.gz"), tarGz([][2]string{{"control", control}})},
		{[]byte("data.tar.gz"), tarGz([][2]string{{"usr/share/doc/c05sample/README", "hello\n"}})},
	})
	// odd-sized member exercises the ar padding byte
	odd := arWrite([][2][]byte{
		{[]byte("debian-binary"), []byte("2.0\n")},
		{[]byte("control.tar.gz"), tarGz([][2]string{{"control", control}})},
		{[]byte("data.tar.gz"), tarGz([][2]string{{"usr/share/doc/c05sample/README", "hello!\n"}, {"usr/share/c05/odd", strings.Repeat("z", 1001)}})},
	})
	return []debShape{
		{"fixture:zlib1g", fixture("zlib1g_1.2.8.dfsg-5_i386.deb")},
		{"generated:small", small},
		{"generated:odd-sizes", odd},
	}
}

func runDebCase(c sigCase, input []byte, secondRole string) {
	dir := scratchDir("deb")
	defer os.RemoveAll(dir)
	path := filepath.Join(dir, "x.deb")
	os.WriteFile(path, input, 0o644)
	if !signedOK(c, signWith(c, "deb", path, "")) {
		return
	}
	roles := []string{c.Flags["role"]}
	if roles[0] == "" {
		roles[0] = "builder"
	}
	if secondRole != "" {
		c2 := c
		c2.Flags = map[string]string{"role": secondRole}
		if err := signWith(c2, "deb", path, ""); err != nil {
			run.Outcome("deb:second-role-refused:" + short(err))
			return
		}
		roles = append(roles, secondRole)
	}
	if !relicAccepts(c, path, "") {
		return
	}
	run.Distinct(c.String() + "+" + secondRole)
	r := py.call(map[string]any{"op": "deb", "path": path})
	if !jbool(r, "ok") {
		oracle(c.Fmt, "python: ar archive + signature block", false)
		violation("deb:output-unreadable", fmt.Sprintf("%s: %s", c, jstr(r, "err")), c.replay(nil))
		return
	}
	sigs := jlist(r, "sigs")
	if len(sigs) != len(roles) {
		violation("deb:signature-member-count", fmt.Sprintf("%s: %d _gpg members for roles %v", c, len(sigs), roles), c.replay(nil))
	}
	data := mustRead(path)
	for i, x := range sigs {
		s := x.(map[string]any)
		okb := len(jlist(s, "problems")) == 0
		oracle(c.Fmt, "python: md5/sha1/size lines of the signature block recomputed", okb)
		if !okb {
			violation("deb:signature-block:"+jlist(s, "problems")[0].(string), fmt.Sprintf("%s: member %s: listed %v, members %v", c, jstr(s, "member"), s["listed"], s["want"]), c.replay(nil))
		}
		if i < len(roles) {
			if jstr(s, "member") != "_gpg"+roles[i] {
				violation("deb:signature-member-name", fmt.Sprintf("%s: member %q for role %s", c, jstr(s, "member"), roles[i]), c.replay(nil))
			}
			if jstr(jmap(s, "fields"), "Role") != roles[i] {
				violation("deb:role-field", fmt.Sprintf("%s: Role field %q for role %s", c, jstr(jmap(s, "fields"), "Role"), roles[i]), c.replay(nil))
			}
		}
		mp := filepath.Join(dir, fmt.Sprintf("member%d.asc", i))
		os.WriteFile(mp, data[jint(s, "off"):jint(s, "off")+jint(s, "size")], 0o644)
		ok, _, status := gpgv(c.Key, false, mp)
		oracle(c.Fmt, "gpgv", ok)
		if !ok {
			violation("deb:gpgv-rejects:"+roles[len(roles)-1], fmt.Sprintf("%s: member %s: %s", c, jstr(s, "member"), status), c.replay(nil))
		} else if h := validsigHash(status); h != c.Hash {
			violation("deb:digest-algorithm-not-requested", fmt.Sprintf("%s: gpgv reports %s", c, h), c.replay(nil))
		}
	}
	for _, arg := range []string{"-I", "-c"} {
		countTool("dpkg-deb")
		out, err := exec.Command("dpkg-deb", arg, path).CombinedOutput()
		oracle(c.Fmt, "dpkg-deb "+arg, err == nil)
		if err != nil {
			violation("deb:dpkg-deb-rejects:"+arg, fmt.Sprintf("%s: %v: %s", c, err, firstLines(out, 3)), c.replay(nil))
		}
	}
}

// ---- RPM ------------------------------------------------------------------------------------------------

func runRPMCase(c sigCase, input []byte) {
	dir := scratchDir("rpm")
	defer os.RemoveAll(dir)
	path := filepath.Join(dir, "x.rpm")
	os.WriteFile(path, input, 0o644)
	if !signedOK(c, signWith(c, "rpm", path, "")) {
		return
	}
	if !relicAccepts(c, path, "") {
		return
	}
	run.Distinct(c.String())
	r := py.call(map[string]any{"op": "rpm", "path": path})
	if !jbool(r, "ok") {
		oracle(c.Fmt, "python: lead / signature header / header", false)
		violation("rpm:output-unreadable", fmt.Sprintf("%s: %s", c, jstr(r, "err")), c.replay(nil))
		return
	}
	oracle(c.Fmt, "python: lead / signature header / header", true)
	for name, v := range jmap(r, "checks") {
		p := v.([]any)
		ok := p[0] == p[1]
		oracle(c.Fmt, "python: signature-header digests and sizes recomputed", ok)
		if !ok {
			violation("rpm:"+name+"-differs", fmt.Sprintf("%s: stored %v, recomputed %v", c, p[0], p[1]), c.replay(nil))
		}
	}
	data := mustRead(path)
	hs, he := jint(r, "header_start"), jint(r, "header_end")
	found := 0
	for _, t := range []struct {
		tag  string
		body []byte
	}{{"rsaheader", data[hs:he]}, {"pgp", data[hs:]}} {
		sig := jstr(r, t.tag)
		if sig == "" {
			continue
		}
		found++
		sp := filepath.Join(dir, t.tag+".sig")
		dp := filepath.Join(dir, t.tag+".data")
		os.WriteFile(sp, unhex(sig), 0o644)
		os.WriteFile(dp, t.body, 0o644)
		ok, _, status := gpgv(c.Key, false, sp, dp)
		oracle(c.Fmt, "gpgv", ok)
		if !ok {
			violation("rpm:gpgv-rejects:"+t.tag, fmt.Sprintf("%s: %s", c, status), c.replay(nil))
		} else if h := validsigHash(status); h != c.Hash {
			violation("rpm:digest-algorithm-not-requested:"+t.tag, fmt.Sprintf("%s: gpgv reports %s", c, h), c.replay(nil))
		}
	}
	if found == 0 {
		violation("rpm:no-rsa-signature-tags", fmt.Sprintf("%s: tags %v", c, r["tags"]), c.replay(nil))
	}
}

package main

// Mach-O: thin images signed by relic, judged by the reference computation of
// csblob.go (layout, code-page hashes, special slots, cdhash attributes) and by
// OpenSSL (CMS over the primary CodeDirectory as detached content, chain from the
// embedded certificates to the fixture root).

import (
	"bytes"
	"encoding/binary"
	"fmt"
	"os"
	"path/filepath"
	"sort"
	"strings"

	"verif/gen/machogen"
	"verif/gen/shape"
)

func init() { moduleOf["macho"] = "mach-o" }

// ---- option files -------------------------------------------------------------------------

// emptyRequirements is an empty binary requirement set: magic 0xfade0c01, length 12, count 0.
var emptyRequirements = []byte{0xfa, 0xde, 0x0c, 0x01, 0, 0, 0, 12, 0, 0, 0, 0}

var auxFiles = map[string][]byte{}

// aux flag values are written "aux/<name>" in a case and resolved to a scratch
// file when relic is called, so that case names do not carry scratch paths.
func setupAux() {
	auxFiles = map[string][]byte{
		"aux/Info.plist":         machogen.InfoPlist(),
		"aux/entitlements.plist": machogen.Entitlements(),
		"aux/CodeResources":      machogen.Resources(),
		"aux/requirements.bin":   emptyRequirements,
	}
	os.MkdirAll(filepath.Join(tmp, "aux"), 0o755)
	for n, b := range auxFiles {
		if err := os.WriteFile(filepath.Join(tmp, n), b, 0o644); err != nil {
			fatal("%v", err)
		}
	}
}

func signWithAux(c sigCase, sigType, in, out string) error {
	r := c
	r.Flags = map[string]string{}
	for k, v := range c.Flags {
		if strings.HasPrefix(v, "aux/") {
			v = filepath.Join(tmp, v)
		}
		r.Flags[k] = v
	}
	return signWith(r, sigType, in, out)
}

func auxOf(c sigCase, flag string) []byte {
	if v := c.Flags[flag]; v != "" {
		return auxFiles[v]
	}
	return nil
}

// appleOptionSets: every subset of the named options (file-valued options
// take the one generated file, bundle-id the generator's identifier,
// hardened-runtime is on by default and is switched off).
func appleOptionSets(names ...string) []map[string]string {
	val := map[string]string{
		"hardened-runtime": "false", "bundle-id": machogen.BundleID,
		"info-plist": "aux/Info.plist", "entitlements": "aux/entitlements.plist",
		"resources": "aux/CodeResources", "requirements": "aux/requirements.bin",
	}
	out := []map[string]string{{}}
	for _, n := range names {
		var next []map[string]string
		for _, m := range out {
			a, b := map[string]string{}, map[string]string{n: val[n]}
			for k, v := range m {
				a[k], b[k] = v, v
			}
			next = append(next, a, b)
		}
		out = next
	}
	return out
}

func pickOptions(names ...string) map[string]string {
	sets := appleOptionSets(names...)
	return sets[len(sets)-1]
}

// ---- big-endian images ------------------------------------------------------------------------

// machoScratch writes a minimal static executable from <mach-o/loader.h> in
// either byte order: header, __PAGEZERO, __TEXT with one __text section,
// __LINKEDIT holding an empty symbol table and a string table, LC_SYMTAB.
// (gen/machogen has the little-endian ones; big-endian images are PowerPC.)
type machoScratch struct {
	Bits      int  `json:"bits"`
	BigEndian bool `json:"big_endian"`
	TextPages int  `json:"text_pages"`
	Linkedit  int  `json:"linkedit_bytes"`
}

func (s machoScratch) id() string {
	e := "le"
	if s.BigEndian {
		e = "be"
	}
	return fmt.Sprintf("macho/c05-scratch/%s/bits=%d/text-pages=%d/linkedit=%d", e, s.Bits, s.TextPages, s.Linkedit)
}

func (s machoScratch) build() []byte {
	var bo binary.ByteOrder = binary.LittleEndian
	cpu := uint32(7) // i386
	if s.BigEndian {
		bo, cpu = binary.BigEndian, 18 // PowerPC
	}
	if s.Bits == 64 {
		cpu |= 0x01000000
	}
	var cmds bytes.Buffer
	ncmds := 0
	w32 := func(v uint32) { binary.Write(&cmds, bo, v) }
	w64 := func(v uint64) { binary.Write(&cmds, bo, v) }
	name16 := func(n string) {
		var b [16]byte
		copy(b[:], n)
		cmds.Write(b[:])
	}
	textSize := uint64(s.TextPages) * 4096
	base := uint64(0x1000)
	if s.Bits == 64 {
		base = 0x100000000
	}
	code := bytes.Repeat([]byte{0x60, 0, 0, 0}, 4) // nop
	codeOff := textSize - uint64(len(code))
	seg := func(name string, vmaddr, vmsize, fileoff, filesize uint64, prot, nsects uint32) {
		ncmds++
		if s.Bits == 64 {
			w32(0x19)
			w32(72 + 80*nsects)
			name16(name)
			w64(vmaddr)
			w64(vmsize)
			w64(fileoff)
			w64(filesize)
		} else {
			w32(0x1)
			w32(56 + 68*nsects)
			name16(name)
			w32(uint32(vmaddr))
			w32(uint32(vmsize))
			w32(uint32(fileoff))
			w32(uint32(filesize))
		}
		w32(prot)
		w32(prot)
		w32(nsects)
		w32(0)
	}
	seg("__PAGEZERO", 0, base, 0, 0, 0, 0)
	seg("__TEXT", base, textSize, 0, textSize, 5, 1)
	name16("__text")
	name16("__TEXT")
	if s.Bits == 64 {
		w64(base + codeOff)
		w64(uint64(len(code)))
	} else {
		w32(uint32(base + codeOff))
		w32(uint32(len(code)))
	}
	w32(uint32(codeOff))
	w32(2)
	w32(0)
	w32(0)
	w32(0x80000400)
	w32(0)
	w32(0)
	if s.Bits == 64 {
		w32(0)
	}
	leVM := (uint64(s.Linkedit) + 4095) / 4096 * 4096
	if leVM == 0 {
		leVM = 4096
	}
	seg("__LINKEDIT", base+textSize, leVM, textSize, uint64(s.Linkedit), 1, 0)
	ncmds++
	w32(0x2)
	w32(24)
	w32(uint32(textSize))
	w32(0)
	w32(uint32(textSize))
	w32(uint32(s.Linkedit))
	var out bytes.Buffer
	h := func(v uint32) { binary.Write(&out, bo, v) }
	if s.Bits == 64 {
		h(0xfeedfacf)
	} else {
		h(0xfeedface)
	}
	h(cpu)
	h(0)
	h(2) // MH_EXECUTE
	h(uint32(ncmds))
	h(uint32(cmds.Len()))
	h(1) // MH_NOUNDEFS
	if s.Bits == 64 {
		h(0)
	}
	out.Write(cmds.Bytes())
	out.Write(make([]byte, int(codeOff)-out.Len()))
	out.Write(code)
	st := make([]byte, s.Linkedit)
	if len(st) > 0 {
		st[0] = ' '
	}
	out.Write(st)
	return out.Bytes()
}

func machoScratchFamily(thorough bool) []shape.Shape {
	specs := []machoScratch{
		{32, true, 1, 8}, {64, true, 1, 8},
		{64, true, 2, 4096}, // three whole pages
		{32, true, 1, 100},  // end of __LINKEDIT not 8-aligned: padding in front of the signature
	}
	if thorough {
		for _, bits := range []int{32, 64} {
			for _, be := range []bool{false, true} {
				for _, l := range []int{1, 4095, 4096, 4097} {
					specs = append(specs, machoScratch{bits, be, 1, l})
				}
				specs = append(specs, machoScratch{bits, be, 3, 8})
			}
		}
	}
	var out []shape.Shape
	for _, s := range specs {
		s := s
		cls := "scratch-little-endian"
		if s.BigEndian {
			cls = "scratch-big-endian"
		}
		out = append(out, shape.Shape{Name: s.id(), Class: fmt.Sprintf("%s-%d", cls, s.Bits), File: machogen.FileName, Strict: (4096*s.TextPages+s.Linkedit)%8 == 0, Source: "generated",
			Build: func() ([]byte, error) { return s.build(), nil },
			Check: func(b []byte) error {
				// debug/macho (through machogen's checker) and the harness's own reader both have to accept it
				if err := machogen.CheckUnsigned(b); err != nil {
					return err
				}
				m, err := readMacho(b)
				if err != nil {
					return err
				}
				if (m.bo == binary.BigEndian) != s.BigEndian || m.is64 != (s.Bits == 64) || m.seg("__LINKEDIT") == nil {
					return fmt.Errorf("written image reads back differently")
				}
				return nil
			}})
	}
	return out
}

// ---- one case ---------------------------------------------------------------------------------

type builtShape struct {
	shape.Shape
	data []byte
}

func buildShapes(format string, shapes []shape.Shape) []builtShape {
	var out []builtShape
	for _, s := range shapes {
		b, err := s.Build()
		if err != nil {
			fatal("%s shape %s: %v", format, s.Name, err)
		}
		if s.Check != nil {
			if err := s.Check(b); err != nil {
				fatal("%s shape %s fails its generator's own re-reader: %v", format, s.Name, err)
			}
		}
		out = append(out, builtShape{s, b})
	}
	return out
}

// csGroup maps a problem kind to the oracle it belongs to.
func csGroup(kind string) string {
	switch {
	case strings.HasPrefix(kind, "superblob-malformed"), strings.HasPrefix(kind, "cd-malformed"):
		return "reference: SuperBlob / CodeDirectory layout (cs_blobs.h)"
	case strings.HasPrefix(kind, "code-"):
		return "reference: codeLimit, slot count and every code-page hash recomputed"
	case strings.HasPrefix(kind, "special-slot"), strings.HasPrefix(kind, "component-not-sealed"):
		return "reference: every special-slot hash recomputed from its component"
	case strings.HasPrefix(kind, "cdhash"):
		return "reference: cdhash attributes"
	case strings.HasPrefix(kind, "option:"):
		return "reference: signing options reflected in the CodeDirectory / blobs"
	}
	return "reference: signature located through the container (LC_CODE_SIGNATURE / koly trailer)"
}

var csGroups = []string{
	"reference: signature located through the container (LC_CODE_SIGNATURE / koly trailer)",
	"reference: SuperBlob / CodeDirectory layout (cs_blobs.h)",
	"reference: codeLimit, slot count and every code-page hash recomputed",
	"reference: every special-slot hash recomputed from its component",
	"reference: signing options reflected in the CodeDirectory / blobs",
}

// reportCS turns the reference's problems into oracle verdicts and violations.
func reportCS(c sigCase, pr csProblems, groups []string) {
	bad := map[string]bool{}
	seen := map[string]bool{}
	for _, p := range pr {
		bad[csGroup(p.kind)] = true
		if seen[p.kind] {
			continue
		}
		seen[p.kind] = true
		violation(c.Fmt+":"+p.kind, fmt.Sprintf("%s: %s", c, p.detail), c.replay(nil))
	}
	for _, g := range groups {
		oracle(c.Fmt, g, !bad[g])
	}
}

// checkAppleSignature runs the reference and OpenSSL over a located signature.
func checkAppleSignature(c sigCase, ctx csContext, pr *csProblems, dgst bool) *csResult {
	r := verifyCodeSignature(ctx)
	*pr = append(*pr, r.pr...)
	tally("recomputed:"+c.Fmt, "code slots", r.codeSlots)
	tally("recomputed:"+c.Fmt, "special slots", r.specialSlots)
	for _, f := range r.facts {
		run.Outcome(c.Fmt + ":" + f)
	}
	if len(r.dirs) == 0 {
		return r
	}
	d := r.dirs[0]
	run.Outcome(fmt.Sprintf("%s:cd-version-%#x:specials=%d:%s:dirs=%d", c.Fmt, d.version, d.nSpecial, d.hashName(), len(r.dirs)))
	if d.hashName() != c.Hash {
		pr.add("option:digest-not-requested", "primary CodeDirectory uses %s, requested %s", d.hashName(), c.Hash)
	}
	if r.cms == nil {
		pr.add("no-cms-signature", "the CMS wrapper blob is missing or empty (an ad-hoc signature)")
		return r
	}
	l := checkCMS(c, "cms", r.cms, cmsOpts{content: d.raw, opensslCMS: true, opensslDgst: dgst, wantTS: c.TS})
	var cp csProblems
	checkCDHashAttrs(c.Fmt, l, r.dirs, &cp)
	*pr = append(*pr, cp...)
	return r
}

func runMachoCase(c sigCase, input []byte, dgst bool) {
	dir := scratchDir("macho")
	defer os.RemoveAll(dir)
	path := filepath.Join(dir, machogen.FileName)
	os.WriteFile(path, input, 0o755)
	// `relic sign` recognises little-endian images by their first bytes; a
	// big-endian one is signed the way its owner has to: relic sign -T mach-o
	sigType := ""
	if len(input) >= 4 && input[0] == 0xfe && input[1] == 0xed {
		sigType = "mach-o"
	}
	if !signedOK(c, signWithAux(c, sigType, path, "")) {
		return
	}
	relicAccepts(c, path, "")
	run.Distinct(c.String())
	data := mustRead(path)
	var pr csProblems
	m, slot := machoSignature(data, &pr)
	if slot != nil {
		comps := map[int][]byte{1: auxOf(c, "info-plist"), 3: auxOf(c, "resources"), 4: nil, 6: nil}
		if comps[1] == nil {
			comps[1] = m.infoPlist // an image without a bundle carries its Info.plist in __TEXT,__info_plist
		}
		r := checkAppleSignature(c, csContext{file: data, slot: slot, expectLimit: int64(m.sigOff), components: comps}, &pr, dgst)
		run.Outcome(fmt.Sprintf("macho:signature-offset-mod-16=%d", m.sigOff%16))
		if len(r.dirs) > 0 {
			machoOptionChecks(c, input, r, &pr)
		}
	}
	reportCS(c, pr, csGroups)
}

// machoOptionChecks: what the command line asked for is what the signature says.
func machoOptionChecks(c sigCase, input []byte, r *csResult, pr *csProblems) {
	d := r.dirs[0]
	const flagRuntime = 0x10000
	in, _ := readMacho(input)
	wasSigned := in != nil && in.sigCmds > 0
	if c.Flags["hardened-runtime"] != "false" {
		if d.flags&flagRuntime == 0 {
			pr.add("option:hardened-runtime-not-set", "CodeDirectory flags %#x without CS_RUNTIME", d.flags)
		}
	} else if !wasSigned && d.flags&flagRuntime != 0 {
		pr.add("option:hardened-runtime-set-although-disabled", "CodeDirectory flags %#x", d.flags)
	}
	if d.flags&0x2 != 0 {
		pr.add("option:adhoc-flag-on-a-cms-signature", "CodeDirectory flags %#x", d.flags)
	}
	if want := auxOf(c, "entitlements"); want != nil {
		if b := r.super.find(5); b == nil || !bytes.Equal(b.data[8:], want) {
			pr.add("option:entitlements-blob-differs", "the entitlements blob is not the file given")
		}
	}
	if want := auxOf(c, "requirements"); want != nil {
		if b := r.super.find(2); b == nil || !bytes.Equal(b.data, want) {
			pr.add("option:requirements-blob-differs", "the requirements blob is not the requirement set given")
		}
	}
	if r.super.find(2) == nil {
		run.Outcome(c.Fmt + ":no-requirements-blob")
	}
	switch {
	case c.Flags["bundle-id"] != "":
		if d.ident != c.Flags["bundle-id"] {
			pr.add("option:identifier-differs", "identifier %q, --bundle-id %q", d.ident, c.Flags["bundle-id"])
		}
	case c.Flags["info-plist"] != "":
		if d.ident != machogen.BundleID {
			pr.add("option:identifier-differs", "identifier %q, CFBundleIdentifier %q", d.ident, machogen.BundleID)
		}
	case d.ident == "":
		run.Outcome(c.Fmt + ":empty-identifier(no bundle-id, no info-plist)")
	}
}

// ---- plan ------------------------------------------------------------------------------------

func optClass(fl map[string]string) string {
	var ks []string
	for k := range fl {
		ks = append(ks, k)
	}
	sort.Strings(ks)
	if len(ks) == 0 {
		return "default"
	}
	return strings.Join(ks, "+")
}

func planMacho(thorough bool) {
	setupAux()
	shapes := buildShapes("macho", append(machogen.Shapes(thorough), machoScratchFamily(thorough)...))
	mk := func(s builtShape, key, h string, fl map[string]string, ts bool) sigCase {
		return sigCase{Fmt: "macho", Shape: s.Name, Class: []string{s.Class}, Key: key, Hash: h, Flags: fl, TS: ts}
	}
	all := appleOptionSets("hardened-runtime", "entitlements", "info-plist", "requirements", "resources", "bundle-id")
	// each option alone, the usual pairs, everything
	some := []map[string]string{{}, pickOptions("hardened-runtime"), pickOptions("entitlements"), pickOptions("info-plist"), pickOptions("requirements"),
		pickOptions("resources"), pickOptions("bundle-id"), pickOptions("info-plist", "resources"), pickOptions("entitlements", "requirements"),
		pickOptions("info-plist", "bundle-id"), pickOptions("entitlements", "info-plist", "requirements", "resources", "bundle-id"), all[len(all)-1]}
	keys := []string{"rsaA", "p256A"}
	digests := []string{"sha1", "sha256", "sha384"}
	canon := shapes[0]
	if canon.Class != "canonical" {
		fatal("machogen: first shape is %s/%s, not the canonical one", canon.Name, canon.Class)
	}
	if thorough {
		four := []map[string]string{{}, pickOptions("info-plist", "resources"), pickOptions("entitlements", "requirements"), all[len(all)-1]}
		for _, s := range shapes {
			s := s
			for _, k := range append(keys, "p384") {
				for _, h := range digests {
					for _, fl := range four {
						c := mk(s, k, h, fl, false)
						plan("macho", "all shapes x {rsaA,p256A,p384} x {sha1,sha256,sha384} x 4 option sets", func() { runMachoCase(c, s.data, false) })
					}
				}
			}
			for _, fl := range all {
				c := mk(s, "rsaA", "sha256", fl, false)
				plan("macho", "all shapes x rsaA x sha256 x all 64 option sets", func() { runMachoCase(c, s.data, false) })
			}
		}
		for _, k := range append(keys, "p384") {
			for _, h := range digests {
				for _, fl := range all {
					c := mk(canon, k, h, fl, false)
					plan("macho", "canonical shape x {rsaA,p256A,p384} x {sha1,sha256,sha384} x all 64 option sets (+openssl dgst)", func() { runMachoCase(c, canon.data, true) })
				}
			}
		}
	} else {
		for _, s := range shapes {
			s := s
			for _, k := range keys {
				for _, fl := range some {
					c := mk(s, k, "sha256", fl, false)
					plan("macho", "all shapes x {rsaA,p256A} x sha256 x 12 option sets", func() { runMachoCase(c, s.data, false) })
				}
			}
		}
		for _, k := range append(keys, "p384") {
			for _, h := range digests {
				for _, fl := range some {
					c := mk(canon, k, h, fl, false)
					plan("macho", "canonical shape x {rsaA,p256A,p384} x {sha1,sha256,sha384} x 12 option sets (+openssl dgst)", func() { runMachoCase(c, canon.data, true) })
				}
			}
		}
		for _, fl := range all {
			c := mk(canon, "rsaA", "sha256", fl, false)
			plan("macho", "canonical shape x rsaA x sha256 x all 64 option sets", func() { runMachoCase(c, canon.data, false) })
		}
	}
	for _, h := range []string{"sha512", "sha224", "md5"} {
		c := mk(canon, "rsaA", h, map[string]string{}, false)
		plan("macho", "expected refusals (no cs_blobs.h hash type)", func() { runMachoCase(c, canon.data, false) })
	}
	for _, k := range keys {
		for _, fl := range []map[string]string{{}, some[len(some)-2]} {
			c := mk(canon, k, "sha256", fl, true)
			plan("macho", "rfc3161", func() { runMachoCase(c, canon.data, true) })
		}
	}
	for _, k := range bundleKeyNames() {
		c := mk(canon, k, "sha256", map[string]string{}, false)
		plan("macho", "certificate-file shapes", func() { runMachoCase(c, canon.data, true) })
	}
	// fat files: documented as verify-only
	fat := mustRead("/repo/functest/packages/fatfile.app/Contents/MacOS/dummy")
	c := sigCase{Fmt: "macho", Shape: "macho/fixture=fatfile/verbatim", Class: []string{"fat"}, Key: "rsaA", Hash: "sha256"}
	plan("macho", "expected refusals (fat file)", func() { runMachoCase(c, fat, false) })
}

// ---- start-up validation of the reference ----------------------------------------------------------

// selfCheckCodeSign: the two slices of fatfile.app's executable carry ad-hoc
// signatures made by Apple's codesign (flags 0x2, empty CMS wrapper, version
// 0x20400, SHA-256, 14 code slots the last of which is short, special slots 1, 2,
// 3, 5 and 7). The reference has to reproduce every recorded hash, and has to
// notice a flipped byte in a page, in a blob and in a bundle file.
func selfCheckCodeSign() string {
	fail := func(format string, a ...any) { fatal("reference self-check codesign failed: "+format, a...) }
	const app = "/repo/functest/packages/fatfile.app/Contents/"
	fat := mustRead(app + "MacOS/dummy")
	info, res := mustRead(app+"Info.plist"), mustRead(app+"_CodeSignature/CodeResources")
	if len(fat) < 8 || binary.BigEndian.Uint32(fat) != 0xcafebabe {
		fail("fatfile.app's executable is not a fat file")
	}
	n := int(binary.BigEndian.Uint32(fat[4:]))
	pages, specials := 0, 0
	for i := 0; i < n; i++ {
		off, size := int(binary.BigEndian.Uint32(fat[8+20*i+8:])), int(binary.BigEndian.Uint32(fat[8+20*i+12:]))
		img := fat[off : off+size]
		verify := func(img, info, res []byte) (*machoInfo, *csResult, csProblems) {
			var pr csProblems
			m, slot := machoSignature(img, &pr)
			if slot == nil {
				return m, nil, pr
			}
			r := verifyCodeSignature(csContext{file: img, slot: slot, expectLimit: int64(m.sigOff), components: map[int][]byte{1: info, 3: res, 4: nil, 6: nil}})
			return m, r, append(pr, r.pr...)
		}
		m, r, pr := verify(img, info, res)
		if len(pr) != 0 {
			fail("slice %d of Apple's ad-hoc signed sample: %s: %s", i, pr[0].kind, pr[0].detail)
		}
		d := r.dirs[0]
		if len(r.dirs) != 1 || d.flags != 2 || r.cms != nil || d.nCode != 14 || d.codeLimit%4096 == 0 || r.codeSlots != 14 || r.specialSlots != 5 || d.ident != "com.sas.dummy" {
			fail("slice %d: the sample is not what this check was written for (dirs=%d flags=%#x slots=%d/%d specials=%d)", i, len(r.dirs), d.flags, r.codeSlots, d.nCode, r.specialSlots)
		}
		pages += r.codeSlots
		specials += r.specialSlots
		// the reference must be able to say no
		expect := func(what, kind string, img, info, res []byte) {
			_, _, pr := verify(img, info, res)
			for _, p := range pr {
				if strings.HasPrefix(p.kind, kind) {
					return
				}
			}
			fail("slice %d: %s went unnoticed (problems: %v)", i, what, pr)
		}
		flip := func(b []byte, at int) []byte {
			c := append([]byte(nil), b...)
			c[at] ^= 1
			return c
		}
		expect("a flipped bit in the short last page", "code-page-hash-differs:last-page-short", flip(img, int(d.codeLimit)-1), info, res)
		expect("a flipped bit in the first page", "code-page-hash-differs:first-page", flip(img, 100), info, res)
		expect("a flipped bit in the entitlements blob", "special-slot-differs:slot-5", flip(img, m.sigOff+r.super.find(5).off+20), info, res)
		expect("a flipped bit in the requirements blob", "special-slot-differs:slot-2", flip(img, m.sigOff+r.super.find(2).off+11), info, res)
		expect("a changed Info.plist", "special-slot-differs:slot-1", img, flip(info, 10), res)
		expect("a missing resource directory", "special-slot-without-component:slot-3", img, info, nil)
	}
	return fmt.Sprintf("reader + reference reproduce all %d code-page hashes (last page short) and %d special-slot hashes (Info.plist, requirements, CodeResources, entitlements, DER entitlements) of the %d slices Apple's codesign signed ad hoc in fatfile.app, and notice a flipped bit in a page, a blob and a bundle file; no sample with an Apple CMS signature or an Apple-signed disk image exists in the sandbox: cdhash attributes and the UDIF representation-specific slot stand on the published layout alone", pages, specials, n)
}

package main

import (
	"bytes"
	"compress/flate"
	"crypto/sha1"
	"encoding/base64"
	"encoding/binary"
	"fmt"
	"hash/crc32"
	"strings"
	"unicode/utf16"
)

// Independent writers for the input shape families: ZIP (JAR/APK), PE, CAB,
// script texts. Written from the format specifications; no relic code.

// ---- ZIP ------------------------------------------------------------------------

type zmember struct {
	Name    string `json:"name"`
	Deflate bool   `json:"deflate"`
	Size    int    `json:"size"`
	Seed    int    `json:"seed"`
	Raw     []byte `json:"-"` // explicit content (overrides Size/Seed)
	Align   int    `json:"-"`
}

func sha1Of(b []byte) []byte { h := sha1.Sum(b); return h[:] }

func fill(seed, n int) []byte {
	b := make([]byte, n)
	for i := range b {
		b[i] = byte(1 + (i*7+seed*37+i/251)%251)
	}
	return b
}

// noise is incompressible, deterministic content (xorshift).
func noise(seed, n int) []byte {
	b := make([]byte, n)
	x := uint64(seed)*0x9E3779B97F4A7C15 + 0x1234567
	for i := range b {
		x ^= x << 13
		x ^= x >> 7
		x ^= x << 17
		b[i] = byte(x >> 24)
	}
	return b
}

func (m zmember) content() []byte {
	if m.Raw != nil {
		return m.Raw
	}
	return fill(m.Seed, m.Size)
}

// buildZip writes local headers without data descriptors, UTF-8 flag set when
// the name is not ASCII, a central directory and a plain end record.
func buildZip(ms []zmember) []byte {
	var out, cd bytes.Buffer
	le := binary.LittleEndian
	for _, m := range ms {
		data := m.content()
		comp := data
		method := uint16(0)
		if m.Deflate {
			var cb bytes.Buffer
			w, _ := flate.NewWriter(&cb, 6)
			w.Write(data)
			w.Close()
			comp = cb.Bytes()
			method = 8
		}
		flags := uint16(0)
		for i := 0; i < len(m.Name); i++ {
			if m.Name[i] >= 0x80 {
				flags = 0x800
			}
		}
		crc := crc32.ChecksumIEEE(data)
		off := out.Len()
		hdr := make([]byte, 30)
		le.PutUint32(hdr[0:], 0x04034b50)
		le.PutUint16(hdr[4:], 20)
		le.PutUint16(hdr[6:], flags)
		le.PutUint16(hdr[8:], method)
		le.PutUint16(hdr[10:], 0x6000) // 12:00:00
		le.PutUint16(hdr[12:], 0x5021) // 2020-01-01
		le.PutUint32(hdr[14:], crc)
		le.PutUint32(hdr[18:], uint32(len(comp)))
		le.PutUint32(hdr[22:], uint32(len(data)))
		le.PutUint16(hdr[26:], uint16(len(m.Name)))
		le.PutUint16(hdr[28:], 0)
		out.Write(hdr)
		out.WriteString(m.Name)
		out.Write(comp)
		ch := make([]byte, 46)
		le.PutUint32(ch[0:], 0x02014b50)
		le.PutUint16(ch[4:], 20)
		le.PutUint16(ch[6:], 20)
		le.PutUint16(ch[8:], flags)
		le.PutUint16(ch[10:], method)
		le.PutUint16(ch[12:], 0x6000)
		le.PutUint16(ch[14:], 0x5021)
		le.PutUint32(ch[16:], crc)
		le.PutUint32(ch[20:], uint32(len(comp)))
		le.PutUint32(ch[24:], uint32(len(data)))
		le.PutUint16(ch[28:], uint16(len(m.Name)))
		le.PutUint32(ch[42:], uint32(off))
		cd.Write(ch)
		cd.WriteString(m.Name)
	}
	cdOff := out.Len()
	out.Write(cd.Bytes())
	e := make([]byte, 22)
	le.PutUint32(e[0:], 0x06054b50)
	le.PutUint16(e[8:], uint16(len(ms)))
	le.PutUint16(e[10:], uint16(len(ms)))
	le.PutUint32(e[12:], uint32(cd.Len()))
	le.PutUint32(e[16:], uint32(cdOff))
	out.Write(e)
	return out.Bytes()
}

type zshape struct {
	ID       string    `json:"id"`
	Members  []zmember `json:"members"`
	Manifest string    `json:"manifest,omitempty"` // "" = defaultManifest
	Class    []string  `json:"-"`
}

const defaultManifest = "Manifest-Version: 1.0\r\nCreated-By: 17 (C05 harness)\r\n\r\n"

// jarBytes: META-INF/MANIFEST.MF first (as the jar tool writes it), then the members.
func (s zshape) jarBytes() []byte {
	m := s.Manifest
	if m == "" {
		m = defaultManifest
	}
	ms := []zmember{{Name: "META-INF/MANIFEST.MF", Deflate: true, Raw: []byte(m)}}
	return buildZip(append(ms, s.Members...))
}

// jarManifestFamily: the input manifest in other legal spellings.
func jarManifestFamily() []zshape {
	two := []zmember{{Name: "a.txt", Deflate: true, Size: 8192, Seed: 1}, {Name: "b/c.class", Size: 1, Seed: 2}}
	return []zshape{
		{ID: "manifest:lf-line-ends", Class: []string{"manifest-lf"}, Members: two, Manifest: "Manifest-Version: 1.0\nCreated-By: x\n\n"},
		{ID: "manifest:cr-line-ends", Class: []string{"manifest-cr"}, Members: two, Manifest: "Manifest-Version: 1.0\rCreated-By: x\r\r"},
		{ID: "manifest:no-blank-line-at-end", Class: []string{"manifest-no-final-blank"}, Members: two, Manifest: "Manifest-Version: 1.0\r\nCreated-By: x\r\n"},
		{ID: "manifest:only-version", Class: []string{"manifest-minimal"}, Members: two, Manifest: "Manifest-Version: 1.0\r\n\r\n"},
		{ID: "manifest:existing-section-with-attribute", Class: []string{"manifest-existing-section"}, Members: two,
			Manifest: "Manifest-Version: 1.0\r\n\r\nName: b/c.class\r\nJava-Bean: True\r\n\r\n"},
		{ID: "manifest:existing-section-other-digest", Class: []string{"manifest-existing-section"}, Members: two,
			Manifest: "Manifest-Version: 1.0\r\n\r\nName: a.txt\r\nSHA-1-Digest: " + base64.StdEncoding.EncodeToString(sha1Of(fill(1, 8192))) + "\r\n\r\n"},
		{ID: "manifest:folded-main-attribute", Class: []string{"manifest-folded-main"}, Members: two,
			Manifest: "Manifest-Version: 1.0\r\nClass-Path: " + strings.Repeat("lib/x.jar ", 6) + "\r\n lib/continued.jar\r\n\r\n"},
	}
}

var jarSizes = []int{0, 1, 8192}

func sizeName(n int) string {
	switch {
	case n == 0:
		return "empty"
	case n == 1:
		return "1B"
	}
	return fmt.Sprintf("%dB", n)
}

// jarStructureFamily: member count 1..3 x per member (stored|deflated) x size {0,1,8 KiB}.
func jarStructureFamily() []zshape {
	var out []zshape
	type opt struct {
		d bool
		s int
	}
	var opts []opt
	for _, d := range []bool{false, true} {
		for _, s := range jarSizes {
			opts = append(opts, opt{d, s})
		}
	}
	names := []string{"a.txt", "dir/B.class", "z/y/x.bin"}
	for n := 1; n <= 3; n++ {
		idx := make([]int, n)
		for {
			var ms []zmember
			var id []string
			for i, k := range idx {
				o := opts[k]
				ms = append(ms, zmember{Name: names[i], Deflate: o.d, Size: o.s, Seed: i + 1})
				t := "S"
				if o.d {
					t = "D"
				}
				id = append(id, t+sizeName(o.s))
			}
			out = append(out, zshape{ID: "struct:" + strings.Join(id, "+"), Members: ms})
			i := n - 1
			for i >= 0 {
				idx[i]++
				if idx[i] < len(opts) {
					break
				}
				idx[i] = 0
				i--
			}
			if i < 0 {
				break
			}
		}
	}
	return out
}

// jarNameFamily: one member whose "Name: <name>" manifest line has every length
// from 64 to 76 bytes (ASCII), two long ASCII names (2 and 3 folds), and names
// where a 2-, 3- and 4-byte UTF-8 sequence sits at every byte offset around the
// 70/72-byte fold point of the line.
func jarNameFamily() []zshape {
	var out []zshape
	add := func(id, name string, class ...string) {
		out = append(out, zshape{ID: "name:" + id, Class: class, Members: []zmember{
			{Name: name, Size: 1, Seed: 3}, {Name: "plain.txt", Deflate: true, Size: 8192, Seed: 4}}})
	}
	for l := 58; l <= 70; l++ {
		add(fmt.Sprintf("ascii-line%d", 6+l), "d/"+strings.Repeat("n", l-6)+".txt", "ascii-fold")
	}
	add("ascii-line150", "d/"+strings.Repeat("m", 138)+".class", "ascii-fold")
	add("ascii-line230", "d/"+strings.Repeat("k", 218)+".class", "ascii-fold")
	for p := 56; p <= 70; p++ {
		// line = "Name: " + "u/" + p x 'a' + tail: the first multi-byte sequence starts at byte 8+p
		add(fmt.Sprintf("utf8-at%d", 8+p), "u/"+strings.Repeat("a", p)+"é€😀é€😀.txt", "utf8-fold")
	}
	add("utf8-long", "u/"+strings.Repeat("€", 60)+".txt", "utf8-fold")
	add("space-and-colon", "dir with space/a: b.txt", "special-chars")
	return out
}

// ---- PE -------------------------------------------------------------------------------

type peShape struct {
	ID       string `json:"id"`
	Plus     bool   `json:"pe32plus"`
	Lfanew   int    `json:"e_lfanew"`
	RawSizes []int  `json:"section_raw_sizes"`
	Overlay  int    `json:"overlay_bytes"`
	// Linker: the CheckSum field of the input holds the correct checksum of the
	// unsigned image (what link.exe /RELEASE and every earlier signing leave
	// there) instead of zero.
	Linker bool     `json:"checksum_prefilled"`
	Class  []string `json:"-"`
}

// peChecksumOf: the documented algorithm (sum of little-endian 16-bit words
// with end-around carry, CheckSum field taken as zero, plus the file length),
// used only to give generated inputs a realistic CheckSum field.
func peChecksumOf(b []byte, field int) uint32 {
	var sum uint32
	for i := 0; i < len(b); i += 2 {
		var w uint32
		if i >= field && i < field+4 || i+1 >= field && i+1 < field+4 {
			// bytes of the field count as zero
			lo, hi := uint32(b[i]), uint32(0)
			if i+1 < len(b) {
				hi = uint32(b[i+1])
			}
			if i >= field && i < field+4 {
				lo = 0
			}
			if i+1 >= field && i+1 < field+4 {
				hi = 0
			}
			w = lo | hi<<8
		} else {
			w = uint32(b[i])
			if i+1 < len(b) {
				w |= uint32(b[i+1]) << 8
			}
		}
		sum += w
		sum = (sum & 0xffff) + (sum >> 16)
	}
	sum = (sum & 0xffff) + (sum >> 16)
	return sum + uint32(len(b))
}

func align(n, a int) int { return (n + a - 1) / a * a }

// buildPE writes a structurally complete image: DOS header, PE signature, COFF
// header, PE32/PE32+ optional header with 16 data directories, section table,
// contiguous section raw data (FileAlignment 512, SectionAlignment 4096) and an
// optional overlay after the last section.
func buildPE(s peShape) []byte {
	le := binary.LittleEndian
	optSize := 224
	if s.Plus {
		optSize = 240
	}
	hdrEnd := s.Lfanew + 4 + 20 + optSize + 40*len(s.RawSizes)
	soh := align(hdrEnd, 512)
	total := soh
	for _, r := range s.RawSizes {
		total += r
	}
	b := make([]byte, total, total+s.Overlay)
	copy(b, "MZ")
	le.PutUint16(b[2:], 0x90)
	le.PutUint16(b[4:], 3)
	le.PutUint16(b[8:], 4)
	le.PutUint16(b[0x18:], 0x40)
	le.PutUint32(b[0x3c:], uint32(s.Lfanew))
	for i := 0x40; i < s.Lfanew; i++ {
		b[i] = byte(0x20 + i%95) // stub filler, printable
	}
	p := s.Lfanew
	copy(b[p:], "PE\x00\x00")
	c := p + 4
	machine := uint16(0x14c)
	chars := uint16(0x0102)
	if s.Plus {
		machine = 0x8664
		chars = 0x0022
	}
	le.PutUint16(b[c:], machine)
	le.PutUint16(b[c+2:], uint16(len(s.RawSizes)))
	le.PutUint32(b[c+4:], 0x5f000000)
	le.PutUint16(b[c+16:], uint16(optSize))
	le.PutUint16(b[c+18:], chars)
	o := c + 20
	if s.Plus {
		le.PutUint16(b[o:], 0x20b)
	} else {
		le.PutUint16(b[o:], 0x10b)
	}
	b[o+2] = 14
	sectAlign := 0x1000
	rva := align(soh, sectAlign)
	firstRVA := rva
	le.PutUint32(b[o+16:], uint32(firstRVA)) // entry point
	le.PutUint32(b[o+20:], uint32(firstRVA)) // base of code
	if s.Plus {
		le.PutUint64(b[o+24:], 0x140000000)
	} else {
		le.PutUint32(b[o+24:], uint32(firstRVA)) // base of data
		le.PutUint32(b[o+28:], 0x400000)
	}
	le.PutUint32(b[o+32:], uint32(sectAlign))
	le.PutUint32(b[o+36:], 512)
	le.PutUint16(b[o+40:], 6)
	le.PutUint16(b[o+48:], 6)
	le.PutUint32(b[o+60:], uint32(soh))
	le.PutUint16(b[o+68:], 3) // console subsystem
	le.PutUint16(b[o+70:], 0x8160)
	if s.Plus {
		le.PutUint64(b[o+72:], 0x100000)
		le.PutUint64(b[o+80:], 0x1000)
		le.PutUint64(b[o+88:], 0x100000)
		le.PutUint64(b[o+96:], 0x1000)
		le.PutUint32(b[o+108:], 16)
	} else {
		le.PutUint32(b[o+72:], 0x100000)
		le.PutUint32(b[o+76:], 0x1000)
		le.PutUint32(b[o+80:], 0x100000)
		le.PutUint32(b[o+84:], 0x1000)
		le.PutUint32(b[o+92:], 16)
	}
	st := o + optSize
	ptr := soh
	codeSize := 0
	names := []string{".text", ".rdata", ".data"}
	for i, r := range s.RawSizes {
		e := st + 40*i
		copy(b[e:], names[i])
		le.PutUint32(b[e+8:], uint32(r))
		le.PutUint32(b[e+12:], uint32(rva))
		le.PutUint32(b[e+16:], uint32(r))
		le.PutUint32(b[e+20:], uint32(ptr))
		ch := uint32(0x60000020)
		if i > 0 {
			ch = 0x40000040
		}
		le.PutUint32(b[e+36:], ch)
		copy(b[ptr:ptr+r], fill(10+i, r))
		if i == 0 {
			codeSize = r
		}
		ptr += r
		rva += align(r, sectAlign)
	}
	le.PutUint32(b[o+4:], uint32(codeSize))
	le.PutUint32(b[o+56:], uint32(rva)) // SizeOfImage
	for i := 0; i < s.Overlay; i++ {
		b = append(b, byte(0xA1+i))
	}
	if s.Linker {
		le.PutUint32(b[o+64:], peChecksumOf(b, o+64))
	}
	return b
}

// attachCertTable appends an attribute certificate table holding one
// WIN_CERTIFICATE (PKCS#7 blob given) to a generated image, the way a signing
// tool leaves it: zero padding to a multiple of 8, entry, padding; data
// directory entry 4 set.
func attachCertTable(img []byte, s peShape, pkcs7 []byte) []byte {
	le := binary.LittleEndian
	out := append([]byte{}, img...)
	for len(out)%8 != 0 {
		out = append(out, 0)
	}
	addr := len(out)
	ent := make([]byte, 8)
	le.PutUint32(ent[0:], uint32(8+len(pkcs7)))
	le.PutUint16(ent[4:], 0x0200)
	le.PutUint16(ent[6:], 2)
	out = append(out, ent...)
	out = append(out, pkcs7...)
	for len(out)%8 != 0 {
		out = append(out, 0)
	}
	opt := s.Lfanew + 24
	dd := opt + 128
	if s.Plus {
		dd = opt + 144
	}
	le.PutUint32(out[dd:], uint32(addr))
	le.PutUint32(out[dd+4:], uint32(len(out)-addr))
	if s.Linker {
		le.PutUint32(out[opt+64:], 0)
		le.PutUint32(out[opt+64:], peChecksumOf(out, opt+64))
	}
	return out
}

var peRawSizes = []int{512, 4096, 4608}
var peOverlays = []int{0, 1, 7, 8, 9}

func peStructureFamily() []peShape {
	var out []peShape
	for _, plus := range []bool{false, true} {
		for n := 1; n <= 3; n++ {
			idx := make([]int, n)
			for {
				var rs []int
				for _, k := range idx {
					rs = append(rs, peRawSizes[k])
				}
				for _, ov := range peOverlays {
					for _, linker := range []bool{false, true} {
						bits := "pe32"
						if plus {
							bits = "pe32+"
						}
						var cls []string
						if ov%8 != 0 {
							cls = append(cls, "overlay-not-8-aligned")
						} else if ov > 0 {
							cls = append(cls, "overlay-8-aligned")
						}
						id := fmt.Sprintf("%s/sections=%v/overlay=%d", bits, rs, ov)
						if linker {
							id += "/checksum-prefilled"
							cls = append(cls, "input-checksum-nonzero")
						}
						out = append(out, peShape{ID: id, Plus: plus, Lfanew: 0x80, RawSizes: append([]int{}, rs...), Overlay: ov, Linker: linker, Class: cls})
					}
				}
				i := n - 1
				for i >= 0 {
					idx[i]++
					if idx[i] < len(peRawSizes) {
						break
					}
					idx[i] = 0
					i--
				}
				if i < 0 {
					break
				}
			}
		}
	}
	return out
}

// peLfanewFamily moves the headers: CheckSum sits at e_lfanew+88. Values put
// the field just before, across and just after the 32 KiB and 64 KiB offsets
// (a reader working in 32 KiB blocks sees it split), plus the minimum header
// position. Unaligned e_lfanew values are marked: the Windows loader wants
// e_lfanew 4-byte aligned, file-level tools do not care.
func peLfanewFamily() []peShape {
	var out []peShape
	var fields []int
	for _, base := range []int{32768, 65536} {
		for d := -8; d <= 4; d++ {
			fields = append(fields, base+d)
		}
	}
	lf := []int{0x40, 0x44, 0x48, 0xf8, 0x200, 0x1000 - 88, 0x1000 - 90}
	for _, f := range fields {
		lf = append(lf, f-88)
	}
	for _, plus := range []bool{false, true} {
		for _, l := range lf {
			for _, ovl := range []int{0, 1, 2, 3} {
				ov := ovl & 1
				linker := ovl&2 != 0
				bits := "pe32"
				if plus {
					bits = "pe32+"
				}
				var cls []string
				co := l + 88
				for _, base := range []int{32768, 65536} {
					if co < base && co+4 > base {
						cls = append(cls, "field-straddles-32k")
					} else if co == base {
						cls = append(cls, "field-starts-at-32k-multiple")
					} else if co+4 == base {
						cls = append(cls, "field-ends-at-32k-multiple")
					}
				}
				if l%2 != 0 {
					cls = append(cls, "e_lfanew-odd")
				} else if l%4 != 0 {
					cls = append(cls, "e_lfanew-2-aligned")
				}
				if ov%8 != 0 {
					cls = append(cls, "overlay-not-8-aligned")
				}
				id := fmt.Sprintf("%s/lfanew=%d/checksum@%d/overlay=%d", bits, l, co, ov)
				if linker {
					id += "/checksum-prefilled"
					cls = append(cls, "input-checksum-nonzero")
				}
				out = append(out, peShape{ID: id, Plus: plus, Lfanew: l, RawSizes: []int{512}, Overlay: ov, Linker: linker, Class: cls})
			}
		}
	}
	// images large enough for the sum of their 16-bit words to pass 2^32 (the
	// checksum's end-around carries have to survive that): installers, Go binaries
	for _, ov := range []int{300000, 300001, 3 << 20} {
		for _, plus := range []bool{false, true} {
			bits := "pe32"
			if plus {
				bits = "pe32+"
			}
			cls := []string{"large-image-word-sum-over-32-bits"}
			if ov%8 != 0 {
				cls = append(cls, "overlay-not-8-aligned")
			}
			out = append(out, peShape{ID: fmt.Sprintf("%s/sections=[512]/overlay=%d", bits, ov), Plus: plus, Lfanew: 0x80, RawSizes: []int{512}, Overlay: ov, Class: cls})
		}
	}
	return out
}

// ---- CAB ------------------------------------------------------------------------------------

type cabShape struct {
	ID    string `json:"id"`
	Files []int  `json:"file_sizes"`
}

// buildCAB writes a single-folder, uncompressed cabinet ([MS-CAB]): CFHEADER,
// one CFFOLDER, CFFILE entries, CFDATA blocks of at most 32768 bytes with the
// specified checksums.
func buildCAB(s cabShape) []byte {
	le := binary.LittleEndian
	var files bytes.Buffer
	var data []byte
	for i, n := range s.Files {
		e := make([]byte, 16)
		le.PutUint32(e[0:], uint32(n))
		le.PutUint32(e[4:], uint32(len(data)))
		le.PutUint16(e[8:], 0)
		le.PutUint16(e[10:], 0x5021)
		le.PutUint16(e[12:], 0x6000)
		le.PutUint16(e[14:], 0x20)
		files.Write(e)
		files.WriteString(fmt.Sprintf("file%d.bin", i))
		files.WriteByte(0)
		data = append(data, fill(30+i, n)...)
	}
	var blocks bytes.Buffer
	nblocks := 0
	for p := 0; p < len(data) || nblocks == 0; p += 32768 {
		end := p + 32768
		if end > len(data) {
			end = len(data)
		}
		chunk := data[p:end]
		hdr := make([]byte, 8)
		le.PutUint16(hdr[4:], uint16(len(chunk)))
		le.PutUint16(hdr[6:], uint16(len(chunk)))
		sum := cabChecksum(chunk, 0)
		sum = cabChecksum(hdr[4:8], sum)
		le.PutUint32(hdr[0:], sum)
		blocks.Write(hdr)
		blocks.Write(chunk)
		nblocks++
		if len(data) == 0 {
			break
		}
	}
	coffFiles := 36 + 8
	coffData := coffFiles + files.Len()
	total := coffData + blocks.Len()
	h := make([]byte, 36)
	copy(h, "MSCF")
	le.PutUint32(h[8:], uint32(total))
	le.PutUint32(h[16:], uint32(coffFiles))
	h[24], h[25] = 3, 1
	le.PutUint16(h[26:], 1)
	le.PutUint16(h[28:], uint16(len(s.Files)))
	le.PutUint16(h[30:], 0)
	le.PutUint16(h[32:], 0x1234)
	fo := make([]byte, 8)
	le.PutUint32(fo[0:], uint32(coffData))
	le.PutUint16(fo[4:], uint16(nblocks))
	le.PutUint16(fo[6:], 0)
	var out bytes.Buffer
	out.Write(h)
	out.Write(fo)
	out.Write(files.Bytes())
	out.Write(blocks.Bytes())
	return out.Bytes()
}

// [MS-CAB] 3.1 checksum
func cabChecksum(b []byte, seed uint32) uint32 {
	csum := seed
	n := len(b) / 4
	for i := 0; i < n; i++ {
		csum ^= binary.LittleEndian.Uint32(b[4*i:])
	}
	rest := b[4*n:]
	var ul uint32
	switch len(rest) {
	case 3:
		ul |= uint32(rest[0])<<16 | uint32(rest[1])<<8 | uint32(rest[2])
	case 2:
		ul |= uint32(rest[0])<<8 | uint32(rest[1])
	case 1:
		ul |= uint32(rest[0])
	}
	return csum ^ ul
}

// ---- script texts ------------------------------------------------------------------------------

type psShape struct {
	ID    string   `json:"id"`
	Ext   string   `json:"ext"`
	Enc   string   `json:"encoding"` // ascii | utf8bom | utf16le
	Text  string   `json:"text"`
	Class []string `json:"-"`
}

func (s psShape) bytes() []byte {
	switch s.Enc {
	case "utf8bom":
		return append([]byte{0xef, 0xbb, 0xbf}, []byte(s.Text)...)
	case "utf16le":
		u := utf16.Encode([]rune(s.Text))
		b := []byte{0xff, 0xfe}
		for _, x := range u {
			b = append(b, byte(x), byte(x>>8))
		}
		return b
	}
	return []byte(s.Text)
}

func psFamily() []psShape {
	type tv struct{ id, text string }
	texts := []tv{
		{"crlf-final", "Write-Host 'hello'\r\n$x = 1\r\n"},
		{"crlf-nofinal", "Write-Host 'hello'\r\n$x = 1"},
		{"lf-final", "Write-Host 'hello'\n$x = 1\n"},
		{"lf-nofinal", "Write-Host 'hello'\n$x = 1"},
		{"cr-only", "Write-Host 'hello'\r$x = 1\r"},
		{"cr-only-nofinal", "Write-Host 'hello'\r$x = 1"},
		{"one-line-nofinal", "exit"},
		{"blank-lines-final", "a\r\n\r\n\r\n"},
	}
	nonASCII := []tv{
		{"non-ascii-crlf", "Write-Host 'héllo € 😀'\r\n"},
		{"non-ascii-nofinal", "# ünïcödé"},
		// U+0A95 / U+010A: UTF-16LE code units with a 0x0A byte that is not a line feed
		{"utf16-unit-with-0x0a-byte", "# ક Ċ x\r\n$y = 2\r\n"},
	}
	var out []psShape
	for _, ext := range []string{".ps1", ".ps1xml", ".mof"} {
		for _, enc := range []string{"ascii", "utf8bom", "utf16le"} {
			ts := texts
			if enc != "ascii" {
				ts = append(append([]tv{}, texts...), nonASCII...)
			}
			for _, t := range ts {
				out = append(out, psShape{ID: ext[1:] + "/" + enc + "/" + t.id, Ext: ext, Enc: enc, Text: t.text, Class: []string{enc, t.id}})
			}
		}
	}
	return out
}

package main

import (
	"bytes"
	"encoding/hex"
	"fmt"
	"os"
	"path/filepath"
	"strings"

	"verif/gen/cfbgen"
	"verif/gen/dergen"
)

// Authenticode family: PE, PowerShell scripts, CAB, MSI (+ cat/appx/xap CMS only).

func pickClass(classes []string, prefer ...string) string {
	for _, p := range prefer {
		for _, c := range classes {
			if strings.HasPrefix(c, p) {
				return c
			}
		}
	}
	return "plain"
}

const (
	oidPageHashV1 = "1.3.6.1.4.1.311.2.3.1"
	oidPageHashV2 = "1.3.6.1.4.1.311.2.3.2"
)

// findPageHashes searches the SpcAttributeTypeAndOptionalValue for the
// SpcPageHashes attribute: SEQUENCE { OID v1|v2, SET { OCTET STRING } }, looking
// through OCTET STRINGs that themselves hold DER (the serialized-object moniker).
func findPageHashes(b []byte, depth int) (oid string, blob []byte) {
	if depth > 8 {
		return "", nil
	}
	n, err := dergen.Parse(b)
	if err != nil {
		return "", nil
	}
	var walk func(n *dergen.Node) (string, []byte)
	walk = func(n *dergen.Node) (string, []byte) {
		if n.Is(0, 16) && len(n.Kids) == 2 && n.Kids[0].Is(0, 6) && n.Kids[1].Is(0, 17) && len(n.Kids[1].Kids) == 1 && n.Kids[1].Kids[0].Is(0, 4) {
			o := dergen.OIDString(n.Kids[0].Content().Of(b))
			if o == oidPageHashV1 || o == oidPageHashV2 {
				return o, n.Kids[1].Kids[0].Content().Of(b)
			}
		}
		for _, k := range n.Kids {
			if o, x := walk(k); o != "" {
				return o, x
			}
		}
		if !n.Constructed && (n.Is(0, 4) || n.Class == 2) {
			c := n.Content().Of(b)
			if len(c) > 4 && (c[0] == 0x30 || c[0] == 0x31) {
				if o, x := findPageHashes(c, depth+1); o != "" {
					return o, x
				}
			}
		}
		return "", nil
	}
	return walk(n)
}

type peOpts struct {
	presign bool // input already carries a relic signature by another key
	ossl    bool
}

func runPECase(c sigCase, input []byte, o peOpts) {
	dir := scratchDir("pe")
	defer os.RemoveAll(dir)
	path := filepath.Join(dir, "x.exe")
	os.WriteFile(path, input, 0o644)
	if o.presign {
		pc := sigCase{Fmt: c.Fmt, Key: "rsaB", Hash: "sha256"}
		if err := signWith(pc, "pe-coff", path, ""); err != nil {
			run.Outcome("pe:presign-refused:" + short(err))
			return
		}
	}
	if !signedOK(c, signWith(c, "pe-coff", path, "")) {
		return
	}
	if !relicAccepts(c, path, "") {
		return
	}
	run.Distinct(c.String())
	ph := c.Flags["page-hashes"] == "true"
	req := map[string]any{"op": "pe", "path": path, "algs": []string{c.Hash}}
	if ph {
		req["page_algs"] = []string{c.Hash}
	}
	r := py.call(req)
	if !jbool(r, "ok") {
		oracle(c.Fmt, "python: PE structure readable", false)
		violation("pe:output-unreadable", fmt.Sprintf("%s: %s", c, jstr(r, "err")), c.replay(nil))
		return
	}
	// --- checksum
	okc := jint(r, "checksum_field") == jint(r, "checksum_ref")
	oracle(c.Fmt, "python: PE CheckSum", okc)
	if !okc {
		cls := pickClass(c.Class, "field-", "e_lfanew-", "overlay-", "input-checksum")
		violation("pe:checksum-differs:"+cls, fmt.Sprintf("%s: CheckSum field %#x at offset %d, reference %#x (file size %d)", c, jint(r, "checksum_field"), jint(r, "checksum_off"), jint(r, "checksum_ref"), jint(r, "size")), c.replay(nil))
	}
	// --- certificate table
	cert := jmap(r, "cert")
	for _, p := range jlist(cert, "problems") {
		violation("pe:certificate-table:"+p.(string)+":"+pickClass(c.Class, "overlay-"), fmt.Sprintf("%s: table at %d size %d, file size %d", c, jint(cert, "addr"), jint(cert, "size"), jint(r, "size")), c.replay(nil))
	}
	oracle(c.Fmt, "python: attribute certificate table well-formed (8-aligned, at end of file)", len(jlist(cert, "problems")) == 0)
	ents := jlist(cert, "entries")
	if len(ents) != 1 {
		violation("pe:certificate-table:entry-count", fmt.Sprintf("%s: %d WIN_CERTIFICATE entries", c, len(ents)), c.replay(nil))
		if len(ents) == 0 {
			return
		}
	}
	e := ents[len(ents)-1].(map[string]any)
	if jint(e, "rev") != 0x200 || jint(e, "type") != 2 {
		violation("pe:certificate-table:revision-or-type", fmt.Sprintf("%s: wRevision %#x wCertificateType %d", c, jint(e, "rev"), jint(e, "type")), c.replay(nil))
	}
	data := mustRead(path)
	der := data[jint(e, "off") : jint(e, "off")+jint(e, "len")]
	l := checkCMS(c, "authenticode", der, cmsOpts{opensslDgst: o.ossl, wantTS: c.TS})
	if l == nil {
		return
	}
	if tr := l.Trailing.Of(der); len(bytes.Trim(tr, "\x00")) != 0 {
		violation("pe:certificate-table:garbage-after-pkcs7", c.String(), c.replay(nil))
	}
	s, err := spcIndirect(l)
	if err != nil {
		violation("pe:spc-indirect-data-unreadable", fmt.Sprintf("%s: %v", c, err), c.replay(nil))
		return
	}
	if s.typ != "1.3.6.1.4.1.311.2.1.15" {
		violation("pe:spc-data-type-not-pe-image", fmt.Sprintf("%s: %s", c, s.typ), c.replay(nil))
	}
	ref := jstr(jmap(r, "image_hash"), c.Hash)
	okh := s.alg == c.Hash && hex.EncodeToString(s.digest) == ref
	oracle(c.Fmt, "python: Authenticode PE image hash", okh)
	if !okh {
		violation("pe:image-hash-differs:"+pickClass(c.Class, "overlay-", "field-", "presigned", "fixture"), fmt.Sprintf("%s: SpcIndirectData %s %x, reference %s", c, s.alg, s.digest, ref), c.replay(nil))
	}
	// --- page hashes
	oid, blob := findPageHashes(s.data, 0)
	if ph {
		if oid == "" {
			oracle(c.Fmt, "python: Authenticode page hashes", false)
			violation("pe:page-hashes-missing", fmt.Sprintf("%s: page-hashes requested, no SpcPageHashes attribute found", c), c.replay(nil))
			return
		}
		wantOID := map[string]string{"sha1": oidPageHashV1, "sha256": oidPageHashV2}[c.Hash]
		if wantOID != "" && oid != wantOID {
			violation("pe:page-hashes-attribute-oid:"+c.Hash, fmt.Sprintf("%s: attribute %s", c, oid), c.replay(nil))
		}
		refp := jstr(jmap(r, "page_hashes"), c.Hash)
		okp := hex.EncodeToString(blob) == refp
		oracle(c.Fmt, "python: Authenticode page hashes", okp)
		if !okp {
			violation("pe:page-hashes-differ:"+pickClass(c.Class, "overlay-", "fixture")+":"+c.Hash, fmt.Sprintf("%s: %d bytes emitted, %d bytes reference; first difference at byte %d", c, len(blob), len(refp)/2, firstDiff(blob, unhex(refp))), c.replay(map[string]any{"emitted_hex": hex.EncodeToString(blob), "reference_hex": refp}))
		}
	} else if oid != "" {
		run.Outcome("pe:page-hashes-present-without-flag")
	}
}

func firstDiff(a, b []byte) int {
	n := len(a)
	if len(b) < n {
		n = len(b)
	}
	for i := 0; i < n; i++ {
		if a[i] != b[i] {
			return i
		}
	}
	return n
}

// ---- PowerShell ---------------------------------------------------------------------------------

var psStyleOf = map[string]string{".ps1": "hash", ".ps1xml": "xml", ".mof": "c"}

func runPSCase(c sigCase, s psShape, ossl bool) {
	dir := scratchDir("ps")
	defer os.RemoveAll(dir)
	path := filepath.Join(dir, "x"+s.Ext)
	input := s.bytes()
	os.WriteFile(path, input, 0o644)
	if !signedOK(c, signWith(c, "ps", path, "")) {
		return
	}
	if !relicAccepts(c, path, "") {
		return
	}
	run.Distinct(c.String())
	r := py.call(map[string]any{"op": "ps", "path": path, "style": psStyleOf[s.Ext], "algs": []string{c.Hash}})
	cls := s.Enc + ":" + pickClass(s.Class[1:], "")
	if !jbool(r, "ok") || !jbool(r, "signed") {
		oracle(c.Fmt, "python: signature block readable", false)
		violation("ps:signature-block-unreadable:"+psStyleOf[s.Ext]+":"+s.Enc, fmt.Sprintf("%s: ok=%v signed=%v %s", c, r["ok"], r["signed"], jstr(r, "err")), c.replay(nil))
		return
	}
	oracle(c.Fmt, "python: signature block readable", true)
	if jint(r, "trailing") != 0 {
		run.Outcome("ps:bytes-after-end-marker")
	}
	data := mustRead(path)
	if !bytes.Equal(data[:jint(r, "sig_pos")], input) {
		run.Outcome("ps:text-before-block-differs-from-input(C03 matter)")
	}
	der := unhex(jstr(r, "sig"))
	l := checkCMS(c, "authenticode", der, cmsOpts{opensslDgst: ossl, wantTS: c.TS})
	if l == nil {
		return
	}
	sp, err := spcIndirect(l)
	if err != nil {
		violation("ps:spc-indirect-data-unreadable", fmt.Sprintf("%s: %v", c, err), c.replay(nil))
		return
	}
	ref := jstr(jmap(r, "digest"), c.Hash)
	ok := sp.alg == c.Hash && hex.EncodeToString(sp.digest) == ref
	oracle(c.Fmt, "python: script digest (UTF-16LE text before the block)", ok)
	if !ok {
		violation("ps:digest-differs:"+cls, fmt.Sprintf("%s: SpcIndirectData %s %x, reference %s", c, sp.alg, sp.digest, ref), c.replay(nil))
	}
}

// ---- CAB ----------------------------------------------------------------------------------------------

func runCABCase(c sigCase, input []byte, ossl bool) {
	dir := scratchDir("cab")
	defer os.RemoveAll(dir)
	path := filepath.Join(dir, "x.cab")
	os.WriteFile(path, input, 0o644)
	if !signedOK(c, signWith(c, "cab", path, "")) {
		return
	}
	if !relicAccepts(c, path, "") {
		return
	}
	run.Distinct(c.String())
	r := py.call(map[string]any{"op": "cab", "path": path, "algs": []string{c.Hash}})
	if !jbool(r, "ok") || !jbool(r, "signed") {
		oracle(c.Fmt, "python: signed cabinet header readable", false)
		violation("cab:signed-header-unreadable", fmt.Sprintf("%s: ok=%v signed=%v %s %v", c, r["ok"], r["signed"], jstr(r, "err"), r["problems"]), c.replay(nil))
		return
	}
	oracle(c.Fmt, "python: signed cabinet header readable", true)
	for _, p := range jlist(r, "problems") {
		violation("cab:structure:"+p.(string), fmt.Sprintf("%s: cbCabinet=%d sig_off=%d sig_len=%d size=%d", c, jint(r, "cbCabinet"), jint(r, "sig_off"), jint(r, "sig_len"), jint(r, "size")), c.replay(nil))
	}
	der := unhex(jstr(r, "sig"))
	l := checkCMS(c, "authenticode", der, cmsOpts{opensslDgst: ossl, wantTS: c.TS})
	if l == nil {
		return
	}
	if tr := l.Trailing.Of(der); len(bytes.Trim(tr, "\x00")) != 0 {
		violation("cab:garbage-after-pkcs7", c.String(), c.replay(nil))
	}
	sp, err := spcIndirect(l)
	if err != nil {
		violation("cab:spc-indirect-data-unreadable", fmt.Sprintf("%s: %v", c, err), c.replay(nil))
		return
	}
	ref := jstr(jmap(r, "digest"), c.Hash)
	ok := sp.alg == c.Hash && hex.EncodeToString(sp.digest) == ref
	oracle(c.Fmt, "python: CAB header/folder/data digest", ok)
	if !ok {
		violation("cab:digest-differs:"+shapeClass(c), fmt.Sprintf("%s: SpcIndirectData %s %x, reference %s", c, sp.alg, sp.digest, ref), c.replay(nil))
	}
}

// ---- MSI --------------------------------------------------------------------------------------------------

type msiShape struct {
	ID    string
	Data  []byte
	Class []string
}

func msiFamily(thorough bool) []msiShape {
	out := []msiShape{{ID: "fixture:dummy.msi", Data: fixture("dummy.msi"), Class: []string{"fixture"}}}
	var specs []cfbgen.Spec
	specs = append(specs, cfbgen.FamilyNames()...)
	specs = append(specs, cfbgen.FamilyStorage()...)
	specs = append(specs, cfbgen.FamilyNestedSigName()...)
	specs = append(specs, cfbgen.FamilyLayout()...)
	if thorough {
		specs = append(specs, cfbgen.FamilySizes(2, 3)...)
		specs = append(specs, cfbgen.FamilyDirCount()...)
		specs = append(specs, cfbgen.FamilyFatFull()...)
	} else {
		specs = append(specs, cfbgen.FamilySizes(1, 2)...)
	}
	for _, sp := range specs {
		data, _, err := cfbgen.Build(sp)
		if err != nil {
			tally("generator", "cfbgen build error: "+sp.Family, 1)
			continue
		}
		cls := []string{"cfbgen-" + sp.Family}
		if sp.Storage != nil {
			cls = append(cls, "nested-storage")
		}
		for _, st := range sp.Streams {
			for _, r := range st.Name {
				if r >= 0x80 {
					cls = append(cls, "non-ascii-names")
					break
				}
			}
		}
		out = append(out, msiShape{ID: "cfbgen:" + sp.ID(), Data: data, Class: dedupe(cls)})
	}
	return out
}

func dedupe(s []string) []string {
	seen := map[string]bool{}
	var out []string
	for _, x := range s {
		if !seen[x] {
			seen[x] = true
			out = append(out, x)
		}
	}
	return out
}

func runMSICase(c sigCase, input []byte, ossl bool) {
	dir := scratchDir("msi")
	defer os.RemoveAll(dir)
	path := filepath.Join(dir, "x.msi")
	os.WriteFile(path, input, 0o644)
	if !signedOK(c, signWith(c, "msi", path, "")) {
		return
	}
	if !relicAccepts(c, path, "") {
		return
	}
	run.Distinct(c.String())
	r := py.call(map[string]any{"op": "msi", "path": path, "algs": []string{c.Hash}})
	cls := pickClass(c.Class, "nested-storage", "non-ascii-names", "cfbgen-", "fixture")
	if !jbool(r, "ok") || !jbool(r, "has_sig") {
		oracle(c.Fmt, "python: compound file + \\5DigitalSignature readable", false)
		violation("msi:output-unreadable-by-reference-cfb-reader:"+cls, fmt.Sprintf("%s: ok=%v has_sig=%v %s", c, r["ok"], r["has_sig"], jstr(r, "err")), c.replay(nil))
		return
	}
	oracle(c.Fmt, "python: compound file + \\5DigitalSignature readable", true)
	wantEx := c.Flags["no-extended-sig"] != "true"
	if jbool(r, "has_ex") != wantEx {
		violation("msi:extended-signature-stream-presence", fmt.Sprintf("%s: MsiDigitalSignatureEx present=%v, wanted %v", c, jbool(r, "has_ex"), wantEx), c.replay(nil))
	}
	der := unhex(jstr(r, "sig"))
	l := checkCMS(c, "authenticode", der, cmsOpts{opensslDgst: ossl, wantTS: c.TS})
	if l == nil {
		return
	}
	sp, err := spcIndirect(l)
	if err != nil {
		violation("msi:spc-indirect-data-unreadable", fmt.Sprintf("%s: %v", c, err), c.replay(nil))
		return
	}
	exc := "plain"
	if jbool(r, "has_ex") {
		exc = "extended"
		pre := jstr(jmap(r, "prehash"), c.Hash)
		okp := jstr(r, "ex") == pre
		oracle(c.Fmt, "python: MsiDigitalSignatureEx pre-hash", okp)
		if !okp {
			violation("msi:ex-prehash-differs:"+cls, fmt.Sprintf("%s: stream %s, reference %s", c, jstr(r, "ex"), pre), c.replay(nil))
		}
	}
	ref := jstr(jmap(r, "digest"), c.Hash)
	ok := sp.alg == c.Hash && hex.EncodeToString(sp.digest) == ref
	oracle(c.Fmt, "python: MSI stream-order digest", ok)
	if !ok {
		violation("msi:digest-differs:"+exc+":"+cls, fmt.Sprintf("%s: SpcIndirectData %s %x, reference %s", c, sp.alg, sp.digest, ref), c.replay(nil))
	}
}

// ---- other CMS-carrying fixtures (cat, appx, xap): CMS checks only --------------------------------------------

func runOtherCMSCase(c sigCase, sigType, fileName string, input []byte) {
	dir := scratchDir("cms")
	defer os.RemoveAll(dir)
	path := filepath.Join(dir, fileName)
	os.WriteFile(path, input, 0o644)
	if !signedOK(c, signWith(c, sigType, path, "")) {
		return
	}
	if !relicAccepts(c, path, "") {
		return
	}
	run.Distinct(c.String())
	data := mustRead(path)
	var ders [][]byte
	switch sigType {
	case "cat":
		ders = append(ders, data)
	case "appx":
		files, err := zipFiles(data, "AppxSignature.p7x")
		if err != nil || len(files["AppxSignature.p7x"]) < 4 {
			violation("appx:no-signature-part", fmt.Sprintf("%s: %v", c, err), c.replay(nil))
			return
		}
		p := files["AppxSignature.p7x"]
		if string(p[:4]) != "PKCX" {
			violation("appx:p7x-magic", c.String(), c.replay(nil))
			return
		}
		ders = append(ders, p[4:])
	default:
		for _, r := range dergen.FindCMSBlobs(data) {
			ders = append(ders, append([]byte{}, r.Of(data)...))
		}
	}
	if len(ders) == 0 {
		violation(c.Fmt+":no-cms-found", c.String(), c.replay(nil))
	}
	for _, der := range ders {
		checkCMS(c, "pkcs7", der, cmsOpts{opensslDgst: true, wantTS: c.TS})
	}
}

// C05 — signatures are accepted by each ecosystem's reference verifier.
//
// Bounded-exhaustive enumeration of (input shape x key x digest x encoding
// flags) per package type; every artifact is produced by relic's real
// standalone signing pipeline, must pass relic's own verifier (precondition)
// and is then judged by implementations that share no code with relic:
// java.util.jar / jarsigner, the JDK XML-DSig stack, OpenSSL (cms, dgst, ts),
// GnuPG's gpgv, dpkg-deb, Go's crypto on byte ranges found by an independent
// DER walker, and specification-derived reference computations in Python
// (ref/py/c05ref.py): Authenticode PE image hash + page hashes, PE CheckSum,
// APK v2 chunked digest, MSI stream-order digest (+ MsiDigitalSignatureEx),
// CAB digest, script digest, RPM header digests, deb signature block; Apple code
// signatures (Mach-O, UDIF), xar archives and cosign payloads are read and
// recomputed by harness-owned Go readers written from the published layouts.
//
// Development knobs (never needed by ./check): C05_KNOWN_EXTRA=key1,key2 treats
// these violation keys as known; C05_ONLY=jar,pe,... restricts the formats;
// C05_BUDGET_S overrides the time budget.
package main

import (
	"crypto"
	_ "crypto/sha256"
	"fmt"
	"os"
	"runtime"
	"sort"
	"strings"
	"sync/atomic"
	"time"
	"verif/gen/xmlgen"

	"github.com/sassoftware/relic/v8/config"

	"verif/gen/dergen"
	"verif/relicx"
	"verif/vlib"
)

var py *pyRef

type job struct {
	fmt string
	fn  func()
}

var (
	jobs      []job
	planCount = map[string]map[string]int{} // format -> sub-product -> cases
)

func plan(format, sub string, fn func()) {
	jobs = append(jobs, job{format, fn})
	m := planCount[format]
	if m == nil {
		m = map[string]int{}
		planCount[format] = m
	}
	m[sub]++
}

func only(format string) bool {
	o := os.Getenv("C05_ONLY")
	if o == "" {
		return true
	}
	for _, f := range strings.Split(o, ",") {
		if f == format {
			return true
		}
	}
	return false
}

func flagSets(names ...string) []map[string]string {
	out := []map[string]string{{}}
	for _, n := range names {
		var next []map[string]string
		for _, m := range out {
			a := map[string]string{}
			b := map[string]string{n: "true"}
			for k, v := range m {
				a[k] = v
				b[k] = v
			}
			next = append(next, a, b)
		}
		out = next
	}
	return out
}

func bundleKeyNames() []string {
	var ks []string
	for k := range relicx.BundleKeys {
		ks = append(ks, k)
	}
	sort.Strings(ks)
	return ks
}

func main() {
	run = vlib.NewRun("C05", "model_checking")
	relicx.Quiet()
	thorough := run.Thorough()
	budget := 170 * time.Second
	if thorough {
		budget = 24 * time.Minute
	}
	if v := os.Getenv("C05_BUDGET_S"); v != "" {
		var s int
		fmt.Sscan(v, &s)
		budget = time.Duration(s) * time.Second
	}
	deadline = time.Now().Add(budget)
	for _, k := range strings.Split(os.Getenv("C05_KNOWN_EXTRA"), ",") {
		if k = strings.TrimSpace(k); k != "" {
			extraKnown[k] = true
		}
	}
	base := "/dev/shm"
	if _, err := os.Stat(base); err != nil {
		base = ""
	}
	var err error
	tmp, err = os.MkdirTemp(base, "c05-")
	if err != nil {
		fatal("scratch dir: %v", err)
	}
	defer os.RemoveAll(tmp)
	dergen.HashByOID["2.16.840.1.101.3.4.2.4"] = crypto.SHA224 // the shared walker's table has no SHA-224 entry
	if fx, err = dergen.LoadFixtures(); err != nil {
		fatal("fixtures: %v", err)
	}
	for k := range relicx.BundleKeys {
		fx.Keys[k] = fx.Keys["rsaA"] // the same key and leaf behind another certificate file
	}
	setupTools()

	// relic configuration: one plain, one whose keys ask for an RFC 3161 timestamp
	// from the loopback authority (openssl ts -reply)
	tsa := newOsslTSA()
	srv := startLoopbackTSA(tsa)
	defer srv.Close()
	cfgPlain = relicx.BaseConfig("file")
	cfgTS = relicx.BaseConfig("file")
	for _, k := range cfgTS.Keys {
		k.Timestamp = true
	}
	cfgTS.Timestamp = &config.TimestampConfig{URLs: []string{srv.URL}, Timeout: 60}
	cfgPlain.Timestamp = cfgTS.Timestamp
	relicx.Use(cfgTS) // process-wide: only the timestamp section and audit sinks are read from it
	if tokPlain, err = relicx.OpenTokenByKey(cfgPlain, "rsaA"); err != nil {
		fatal("token: %v", err)
	}
	if tokTS, err = relicx.OpenTokenByKey(cfgTS, "rsaA"); err != nil {
		fatal("token: %v", err)
	}

	py = startPy()
	defer py.close()
	nj := 4
	if runtime.NumCPU() < 8 {
		nj = 2
	}
	startJVMs(nj)

	selfChecks()

	x509Keys := []string{"rsaA", "p256A", "p384"}
	if thorough {
		x509Keys = append(x509Keys, "p521")
	}

	if only("jar") {
		planJar(thorough, x509Keys)
	}
	if only("apk") {
		planApk(thorough, x509Keys)
	}
	if only("pe") {
		planPE(thorough, x509Keys)
	}
	if only("ps") {
		planPS(thorough, x509Keys)
	}
	if only("cab") {
		planCAB(thorough, x509Keys)
	}
	if only("msi") {
		planMSI(thorough, x509Keys)
	}
	if only("xml") {
		planXML(thorough, x509Keys)
	}
	if only("pgp") {
		planPGP(thorough)
	}
	if only("other") {
		planOther(thorough, x509Keys)
	}
	if only("macho") {
		planMacho(thorough)
	}
	if only("dmg") {
		planDmg(thorough)
	}
	if only("xar") {
		planXar(thorough)
	}
	if only("cosign") {
		planCosign(thorough)
	}

	// heavier formats first so that the tail of the run is made of cheap cases
	var skipped int64
	vlib.Parallel(len(jobs), runtime.NumCPU(), func(i int) {
		if timeUp() {
			atomic.AddInt64(&skipped, 1)
			return
		}
		jobs[i].fn()
	})
	if skipped > 0 {
		run.Capped(fmt.Sprintf("time budget %.0fs reached: %d of %d planned cases not executed", budget.Seconds(), skipped, len(jobs)))
	}

	closeJVMs()
	flushFindings()

	// ---- evidence ----
	tools := map[string]int64{}
	toolCalls.Range(func(k, v any) bool { tools[k.(string)] = atomic.LoadInt64(v.(*int64)); return true })
	tools["python reference requests (one process)"] = py.calls
	tools["JVM reference requests (pooled)"] = atomic.LoadInt64(&jvmCalls)
	run.Set("external_tool_calls", tools)
	run.Set("reference_jvms", nj)
	run.Set("planned_cases", planCount)
	tallyMu.Lock()
	for g, m := range tallies {
		if g == "refusals" || g == "precondition_failures" {
			// keep these readable: top 40 by count
			type kv struct {
				k string
				v int64
			}
			var l []kv
			for k, v := range m {
				l = append(l, kv{k, v})
			}
			sort.Slice(l, func(i, j int) bool { return l[i].v > l[j].v || l[i].v == l[j].v && l[i].k < l[j].k })
			if len(l) > 40 {
				l = l[:40]
			}
			mm := map[string]int64{}
			for _, e := range l {
				mm[e.k] = e.v
			}
			run.Set(g+"(top 40 classes)", mm)
			continue
		}
		run.Set(g, m)
	}
	tallyMu.Unlock()
	run.Set("bounds", boundsText(thorough))
	run.Set("time_budget_s", budget.Seconds())
	run.Rule("every member of each stated finite product (shape family x keys x digests x flags, per format and tier; see bounds and planned_cases) is signed by relic's real pipeline and judged by every oracle applicable to the format; distinct_nontrivial counts distinct (format, shape, key, digest, flags, timestamp) cases that relic signed AND its own verifier accepted (the precondition), i.e. cases on which the outside oracles actually ran; refused combinations and precondition failures are tallied separately and are not violations of this property. macho / dmg / xar / cosign: the oracle is a harness-owned reader plus reference computation (csblob.go, dmg.go, xar.go, cosign.go) and OpenSSL; recomputed:<type> counts the code-page, special-slot and member digests that were recomputed and compared")
	run.Assume("JDK 17 java.util.jar / javax.xml.crypto, OpenSSL 3.x cms/dgst/ts, GnuPG 2.2 gpgv and dpkg-deb implement their standards; the JDK's deployment policy entry that disables SHA-1 in signed JARs is switched off for the reference JVMs (policy, not format conformance)")
	run.Assume("the Python reference computations follow the published descriptions (Authenticode_PE, PE/COFF, APK Signature Scheme v2, MS-CFB + the MSI/CAB/script digests as implemented by the Windows SIPs and osslsigncode); the PE image hash and CheckSum, the RPM header digests and the VSIX validator are additionally validated at start-up against genuine third-party signatures (signtool, Rocky Linux, Visual Studio); no third-party signed MSI, CAB, APK-v2 or PowerShell sample exists in the sandbox, for those the reference stands on the specification alone")
	run.Assume("apksigner, signtool/osslsigncode, rpm/rpmkeys and dpkg-sig are not installed")
	run.Assume("macho, dmg: Apple's codesign / Security.framework are not in the sandbox. What they compute is reproduced by a harness-owned reader and reference written from the published layout (xnu cs_blobs.h, <mach-o/loader.h>, the UDIF koly trailer): SuperBlob and CodeDirectory structure, codeLimit = start of the signature, every code-page hash, every special-slot hash (1 Info.plist, 2 requirements, 3 resource directory, 5 entitlements, 6 koly trailer with the signature length blanked, 7 DER entitlements), the two cdhash attributes; the CMS blob goes to `openssl cms -verify` with the primary CodeDirectory as detached content. The reference is validated at start-up on the two ad-hoc signatures Apple's codesign left in functest/packages/fatfile.app (28 code pages with a short last page, 10 special slots); there is no sample with an Apple CMS signature and no Apple-signed disk image: the cdhash attributes (OID 1.2.840.113635.100.9.1/.2) and the UDIF special slot 6 stand on the published layout alone")
	run.Assume("macho, dmg: NOT decided here, because only Apple's implementation defines it: whether the designated requirement relic generates by default evaluates to true for the signing certificate (requirement language evaluation), whether Gatekeeper/AMFI policy accepts a CodeDirectory of version 0x20300 that sets CS_RUNTIME without the 0x20500 runtime-version field, an empty signing identifier (no --bundle-id, no --info-plist), XML entitlements without a DER twin, notarization tickets, and the Apple-specific certificate policy (Developer ID extensions, Apple root). The signature offset is 8- but not always 16-aligned (tallied as outcome class macho:signature-offset-mod-16=8): codesign_allocate aligns to 16 according to the Go linker's sources; the loader layout rules checked here do not require it")
	run.Assume("xar: pkgutil / productsign / xar(1) are not in the sandbox. Reader written from the xar format description (header, zlib TOC, heap); Go's compress/zlib, encoding/xml and crypto plus `openssl pkeyutl -verify` (classic RSA signature: DigestInfo carrying the TOC checksum) and `openssl cms -verify` (x-signature over the checksum bytes as detached content, chain from the embedded certificates); validated at start-up on Apple's productbuild output dummy.pkg (TOC checksum and 8 member checksums), which is unsigned: the placement and encoding of the signature elements stand on the format description alone. Not decided: Apple's installer trust policy and the RFC 3161 token placement it expects")
	run.Assume("cosign: the cosign CLI / sigstore libraries are not in the sandbox and relic has no verifier for this type. Decided with encoding/json + OpenSSL: digest of the given manifest = payload critical.image.docker-manifest-digest = subject descriptor; layer descriptor describes the payload; `openssl dgst -<h> -verify <leaf public key>` over the payload bytes; `openssl verify` of the certificate/chain annotations to the root; `openssl ts -verify` of the token over the signature bytes. Not decided: whether cosign reads the dev.sigstore.cosign/rfc3161timestamp annotation in the encoding relic writes (bare base64 of the token; current cosign documents a JSON object holding a TimeStampResp), registry referrers behaviour, sigstore bundle / transparency-log policy")
	os.RemoveAll(tmp)
	run.Finish()
}

func boundsText(thorough bool) map[string]any {
	return map[string]any{
		"jar":    "shapes: members 1..3 x (stored|deflated) x size {0,1,8192} (258) + name family (manifest line lengths 64..76 ASCII, 150, 230; 2/3/4-byte UTF-8 sequence at every byte offset 64..78 of the Name line; 60 three-byte characters; blanks and colon; META-INF/services member). + 7 input-manifest spellings (LF, CR, no final blank line, minimal, existing sections, folded main attribute). quick: all shapes x {rsaA,p256A} x sha256 x 4 flag sets  U  3 canonical shapes x keys{rsaA,p256A,p384} x digests{sha1,sha256,sha384,sha512} x {inline-signature} x {sections-only} (+openssl cms; jarsigner CLI on 2 canonical shapes x keys x sha256 x 4 flag sets; RFC 3161 on 1 canonical shape x {rsaA,p256A} x {default, inline-signature}). thorough: all shapes x keys+p521 x {sha256,sha1,sha384,sha512} x 4 flag sets  U  canonical x keys+p521 x digests+sha224 x 4 flag sets (CLI also with sha1, sha512; RFC 3161 for every key)",
		"apk":    "shapes: 7 small (one with ZIP64 end records no field needs; AndroidManifest.xml + META-INF/MANIFEST.MF + stored/deflated/empty members; one without a JAR manifest) + section-1 length exactly {1MiB-1, 1MiB, 1MiB+1, 2MiB-1, 2MiB, 2MiB+1, 2MiB+4097} (v2-only packages hit these exactly; v1+v2 packages are near them, the class reached is tallied) x {v2-only, v1+v2} x keys x {sha256,sha512}; sha1 and sha384 on one shape (expected refusals)",
		"pe":     "shapes: {PE32,PE32+} x sections 1..3 x raw size {512,4096,4608} x overlay {0,1,7,8,9} x input CheckSum field {zero, correct for the unsigned image} (780) + e_lfanew family {64,68,72,248,512,4008,4006, CheckSum field at 32768-8..32768+4 and 65536-8..65536+4} x {PE32,PE32+} x overlay {0,1} x input CheckSum {zero, correct} (264) + 2 .NET fixtures. quick: all shapes x rsaA x sha256 x {page-hashes off,on} (+p256A on every one-section shape, which includes the e_lfanew family)  U  4 canonical shapes x keys x digests{sha1,sha256,sha384,sha512} x page-hashes (+openssl dgst)  U  canonical x {already signed by rsaB, generator-written certificate table holding a foreign PKCS#7}  U  RFC 3161 on 1 shape x {rsaA,p256A}. thorough: all shapes x {rsaA,p256A,p384} x {sha256,sha1,sha384,sha512} x page-hashes (sha384/sha512 with page hashes are refused by relic and tallied)",
		"ps":     "texts: {CRLF,LF,CR-only} x {final newline, none}, one line, blank lines (+3 non-ASCII texts for BOM encodings, one whose UTF-16 code units contain a 0x0A byte) x encoding {ASCII, UTF-8 BOM, UTF-16LE BOM} x style {.ps1,.ps1xml,.mof} (90) x keys x digests{sha1,sha256,sha384,sha512}",
		"cab":    "dummy.cab + generated single-folder uncompressed cabinets with file sizes {[1],[100],[40000],[1,100],[32768,1]} x keys x digests{sha1,sha256,sha384,sha512}",
		"msi":    "dummy.msi + cfbgen families names, storage, nested-signame, layout, sizes(quick: <=2 streams; thorough: <=3 + dircount + fatfull). quick: all shapes x rsaA x sha256 x {extended, no-extended-sig}  U  dummy.msi x keys x digests x both. thorough: all shapes x {rsaA,p256A,p384} x {sha256,sha1,sha384,sha512} x both",
		"xml":    "appmanifest fixture x keys x digests{sha1,sha256,sha384,sha512} (+RFC 3161 x {rsaA,p256A}; + the fixture with every extension subtree binding / re-binding / using an unknown prefix at three levels, rsaA sha256); VSIX fixture x keys x digests(+sha224 thorough) x {detach-certs}",
		"pgp":    "16 texts (final newline or not; five sizes around the packet-length encoding boundaries, trailing blanks, dash lines, CRLF, mixed endings, empty, newline only, trailing blank lines, UTF-8, 5000-char line) x all 16 subsets of {armor,inline,clearsign,textmode} x keys {rsaA (+rsaB thorough)} x digests {sha256,sha512 (+sha1,sha224,sha384 thorough)}; p256A on 2 cases (expected refusal). deb: fixture + 2 generated packages x role {builder,origin,maint,archive} x digests {sha256,sha512} (+ a second role added on top); rpm: rocky fixture x {rsaA,rsaB} x {sha1,sha256,sha512}",
		"other":  "cat (hyperv.cat), appx (App1), xap (dummy.xap) x keys x sha256 (+RFC 3161 on rsaA): CMS checks only",
		"macho":  "shapes: gen/machogen family (fixture slices verbatim / signature stripped / __LINKEDIT grown to page multiple -1, 0, +1; thorough: more pads, from-scratch 32/64-bit images with 1..3 text pages and __LINKEDIT of 0,1,8,4095,4096,4097 bytes) + harness-written PowerPC big-endian images 32/64 bit (signed with -T mach-o: relic detects only little-endian magic) ; options: every subset of {hardened-runtime=false, entitlements, info-plist, requirements, resources, bundle-id} (64). quick: all shapes x {rsaA,p256A} x sha256 x 12 option sets (each option alone, usual pairs, all)  U  canonical x {rsaA,p256A,p384} x {sha1,sha256,sha384} x 12 sets (+openssl dgst)  U  canonical x rsaA x sha256 x 64 sets  U  RFC 3161 x {rsaA,p256A} x 2 sets  U  3 certificate-file shapes  U  refusals {sha512, sha224, md5, fat file}. thorough: all shapes x {rsaA,p256A,p384} x {sha1,sha256,sha384} x 4 sets  U  all shapes x rsaA x sha256 x 64 sets  U  canonical x {rsaA,p256A,p384} x {sha1,sha256,sha384} x 64 sets",
		"dmg":    "shapes: gen/dmggen family (data fork ladder around 512 B / 4 KiB / 64 KiB / 1 MiB, plist > 4 KiB, no checksums, gaps before XML / trailer, dummy.dmg and data-fork-grown edits) x {rsaA,p256A} x sha256 x {requirements} x {bundle-id}  U  canonical x {rsaA,p256A,p384} x {sha1,sha256,sha384} x 4 sets (+openssl dgst)  U  RFC 3161  U  certificate-file shapes  U  input already signed by rsaB  U  refusals {sha512, sha224}. thorough: all shapes x {rsaA,p256A,p384} x {sha1,sha256,sha384} x 4 sets",
		"xar":    "shapes: gen/xargen family (file count, nested directory, empty member, TOC checksum style sha1/sha256/sha512, member checksum style, size ladder stored/zlib, already carrying a classic signature by rsaB, lenient: 32-byte header, md5, no checksum; dummy.pkg) x {rsaA,p256A (+p384,p521 thorough)} x {sha1,sha256,sha512}  U  canonical x p384  U  RFC 3161  U  certificate-file shapes  U  refusals {sha384, sha224, md5}",
		"cosign": "shapes: gen/ocigen family (OCI manifest / index, Docker v2 manifest / list, 0/3 layers, pretty-printed, annotation padding to 64 KiB+1, 1 MiB+1, just under and over 4 MiB, no mediaType member; thorough: media type x items 0..3 x pretty x pad ladder) x {rsaA,p256A} x sha256 x {optional JSON}  U  canonical x {rsaA,p256A,p384} x {sha256,sha384,sha512}  U  RFC 3161  U  certificate-file shapes  U  refusals {sha1, sha224}. thorough: all shapes x {rsaA,p256A,p384} x sha256 x {optional}  U  one shape per class x {rsaA,p256A,p384,p521} x {sha384,sha512} x {optional}",
		"tier":   map[bool]string{false: "quick", true: "thorough"}[thorough],
	}
}

// ---- per-format plans ----------------------------------------------------------------------------------

func planJar(thorough bool, keys []string) {
	shapes := append(jarStructureFamily(), jarNameFamily()...)
	shapes = append(shapes, jarManifestFamily()...)
	shapes = append(shapes, zshape{ID: "name:meta-inf-services", Class: []string{"meta-inf-member"}, Members: []zmember{
		{Name: "META-INF/services/x.Provider", Size: 1, Seed: 2}, {Name: "x/Provider.class", Deflate: true, Size: 8192, Seed: 3}}})
	for i := range shapes {
		if strings.HasPrefix(shapes[i].ID, "struct:") {
			for _, m := range shapes[i].Members {
				if m.Size == 0 {
					shapes[i].Class = []string{"empty-member"}
				}
			}
		}
	}
	byID := map[string]zshape{}
	for _, s := range shapes {
		byID[s.ID] = s
	}
	canon := []zshape{byID["struct:D8192B+S1B"], byID["name:utf8-at70"], byID["name:ascii-line73"]}
	for _, s := range canon {
		if s.ID == "" {
			fatal("canonical jar shape missing")
		}
	}
	mk := func(s zshape, key, h string, fl map[string]string, ts bool) sigCase {
		return sigCase{Fmt: "jar", Shape: s.ID, Class: s.Class, Key: key, Hash: h, Flags: fl, TS: ts, Gen: s}
	}
	digests := []string{"sha1", "sha256", "sha384", "sha512"}
	if thorough {
		digests = append(digests, "sha224")
	}
	fsets := flagSets("inline-signature", "sections-only")
	// canonical product
	for ci, s := range canon {
		in := s.jarBytes()
		for _, k := range keys {
			for _, h := range digests {
				for _, fl := range fsets {
					c := mk(s, k, h, fl, false)
					cli := ci < 2 && (h == "sha256" || thorough && (h == "sha1" || h == "sha512"))
					plan("jar", "canonical shapes x keys x digests x flags", func() { runJarCase(c, in, jarOpts{cli: cli, ossl: true}) })
				}
			}
		}
	}
	tsKeys := []string{"rsaA", "p256A"}
	if thorough {
		tsKeys = keys
	}
	for _, k := range tsKeys {
		for _, fl := range []map[string]string{{}, {"inline-signature": "true"}} {
			c := mk(canon[0], k, "sha256", fl, true)
			in := canon[0].jarBytes()
			plan("jar", "rfc3161", func() { runJarCase(c, in, jarOpts{cli: true, ossl: true}) })
		}
	}
	// key rsaA behind certificate files of other shapes: foreign PEM blocks
	// before and between the certificates, a superseded intermediate listed first
	for _, k := range bundleKeyNames() {
		c := mk(canon[0], k, "sha256", map[string]string{}, false)
		in := canon[0].jarBytes()
		plan("jar", "certificate-file shapes", func() { runJarCase(c, in, jarOpts{cli: true, ossl: true}) })
	}
	// all shapes
	ks, hs := []string{"rsaA", "p256A"}, []string{"sha256"}
	sub := "all shapes x {rsaA,p256A} x sha256 x 4 flag sets"
	if thorough {
		ks, hs = keys, []string{"sha256", "sha1", "sha384", "sha512"}
		sub = "all shapes x {rsaA,p256A,p384,p521} x {sha256,sha1,sha384,sha512} x 4 flag sets"
	}
	for _, s := range shapes {
		in := s.jarBytes()
		for _, k := range ks {
			for _, h := range hs {
				for _, fl := range fsets {
					c := mk(s, k, h, fl, false)
					plan("jar", sub, func() { runJarCase(c, in, jarOpts{}) })
				}
			}
		}
	}
}

func planApk(thorough bool, keys []string) {
	shapes := apkFamily()
	for _, s := range shapes {
		s := s
		for _, v1 := range []bool{false, true} {
			for _, k := range keys {
				for _, h := range []string{"sha256", "sha512"} {
					mode := "v2-only"
					if v1 {
						mode = "v1+v2"
					}
					c := sigCase{Fmt: "apk", Shape: s.ID + "/" + mode, Key: k, Hash: h, Gen: s}
					v1 := v1
					plan("apk", "shapes x modes x keys x {sha256,sha512}", func() { runApkCase(c, buildAPK(s), v1) })
				}
			}
		}
	}
	for _, h := range []string{"sha1", "sha384"} {
		c := sigCase{Fmt: "apk", Shape: shapes[0].ID + "/v2-only", Key: "rsaA", Hash: h, Gen: shapes[0]}
		s := shapes[0]
		plan("apk", "expected refusals", func() { runApkCase(c, buildAPK(s), false) })
	}
}

func planPE(thorough bool, keys []string) {
	structs := peStructureFamily()
	lf := peLfanewFamily()
	all := append(append([]peShape{}, structs...), lf...)
	byID := map[string]peShape{}
	for _, s := range all {
		byID[s.ID] = s
	}
	canon := []peShape{byID["pe32/sections=[512]/overlay=0"], byID["pe32+/sections=[4096 4608]/overlay=1"], byID["pe32/sections=[512 4096 4608]/overlay=7"]}
	for _, s := range canon {
		if s.ID == "" {
			fatal("canonical PE shape missing")
		}
	}
	mk := func(id string, cls []string, key, h string, ph bool, ts bool, gen any) sigCase {
		fl := map[string]string{}
		if ph {
			fl["page-hashes"] = "true"
		}
		return sigCase{Fmt: "pe", Shape: id, Class: cls, Key: key, Hash: h, Flags: fl, TS: ts, Gen: gen}
	}
	type inp struct {
		id   string
		cls  []string
		data []byte
		gen  any
	}
	var canonIn []inp
	for _, s := range canon {
		canonIn = append(canonIn, inp{s.ID, s.Class, buildPE(s), s})
	}
	for _, f := range []string{"WindowsFormsApplication1.exe", "ClassLibrary1.dll"} {
		canonIn = append(canonIn, inp{"fixture:" + f, []string{"fixture"}, fixture(f), nil})
	}
	digests := []string{"sha1", "sha256", "sha384", "sha512"}
	for _, in := range canonIn {
		in := in
		for _, k := range keys {
			for _, h := range digests {
				for _, ph := range []bool{false, true} {
					c := mk(in.id, in.cls, k, h, ph, false, in.gen)
					plan("pe", "canonical shapes + fixtures x keys x digests x page-hashes", func() { runPECase(c, in.data, peOpts{ossl: true}) })
				}
			}
		}
	}
	for _, in := range canonIn[:3] {
		in := in
		for _, ph := range []bool{false, true} {
			c := mk(in.id+"/presigned-by-rsaB", append([]string{"presigned"}, in.cls...), "rsaA", "sha256", ph, false, in.gen)
			plan("pe", "already signed input", func() { runPECase(c, in.data, peOpts{presign: true}) })
		}
	}
	// a certificate table written by the generator, holding a genuine foreign
	// PKCS#7 (the signtool signature of the self-check sample)
	{
		ev := mustRead("/verif/ref/py/testdata/ev-signed-file.exe")
		foreign := ev[10760 : 10760+7387+4]
		for i, s := range canon {
			in := canonIn[i]
			data := attachCertTable(in.data, s, foreign)
			for _, ph := range []bool{false, true} {
				c := mk(in.id+"/foreign-certificate-table", append([]string{"presigned"}, in.cls...), "rsaA", "sha256", ph, false, in.gen)
				plan("pe", "already signed input", func() { runPECase(c, data, peOpts{}) })
			}
		}
	}
	tsKeys := []string{"rsaA", "p256A"}
	if thorough {
		tsKeys = keys
	}
	for _, k := range tsKeys {
		in := canonIn[0]
		c := mk(in.id, in.cls, k, "sha256", false, true, in.gen)
		plan("pe", "rfc3161", func() { runPECase(c, in.data, peOpts{ossl: true}) })
	}
	for _, k := range bundleKeyNames() {
		in := canonIn[0]
		c := mk(in.id, in.cls, k, "sha256", false, false, in.gen)
		plan("pe", "certificate-file shapes", func() { runPECase(c, in.data, peOpts{ossl: true}) })
	}
	for _, s := range all {
		s := s
		data := buildPE(s)
		ks := []string{"rsaA"}
		hs := []string{"sha256"}
		sub := "all shapes x rsaA x sha256 x page-hashes{off,on} (+p256A on the one-section shapes incl. the whole e_lfanew family)"
		if thorough {
			ks = []string{"rsaA", "p256A", "p384"}
			hs = []string{"sha256", "sha1", "sha384", "sha512"}
			sub = "all shapes x {rsaA,p256A,p384} x {sha256,sha1,sha384,sha512} x page-hashes{off,on}"
		} else if len(s.RawSizes) == 1 {
			ks = []string{"rsaA", "p256A"}
			sub = "all shapes x rsaA x sha256 x page-hashes{off,on} (+p256A on the one-section shapes incl. the whole e_lfanew family)"
		}
		for _, k := range ks {
			for _, h := range hs {
				for _, ph := range []bool{false, true} {
					if ph && align(s.Lfanew+24+240+40*len(s.RawSizes), 512) > 4096 {
						continue // page hashes are defined for headers within the first page
					}
					c := mk(s.ID, s.Class, k, h, ph, false, s)
					plan("pe", sub, func() { runPECase(c, data, peOpts{}) })
				}
			}
		}
	}
}

func planPS(thorough bool, keys []string) {
	for _, s := range psFamily() {
		s := s
		for _, k := range keys {
			for _, h := range []string{"sha1", "sha256", "sha384", "sha512"} {
				c := sigCase{Fmt: "ps", Shape: s.ID, Class: s.Class, Key: k, Hash: h, Gen: s}
				ossl := strings.HasSuffix(s.ID, "crlf-final")
				plan("ps", "texts x encodings x styles x keys x digests", func() { runPSCase(c, s, ossl) })
			}
		}
	}
	s := psFamily()[0]
	for _, k := range []string{"rsaA", "p256A"} {
		c := sigCase{Fmt: "ps", Shape: s.ID, Class: s.Class, Key: k, Hash: "sha256", TS: true, Gen: s}
		plan("ps", "rfc3161", func() { runPSCase(c, s, true) })
	}
}

func planCAB(thorough bool, keys []string) {
	type inp struct {
		id   string
		data []byte
		gen  any
	}
	ins := []inp{{"fixture:dummy.cab", fixture("dummy.cab"), nil}}
	for _, fs := range [][]int{{1}, {100}, {40000}, {1, 100}, {32768, 1}} {
		s := cabShape{ID: fmt.Sprintf("generated:files=%v", fs), Files: fs}
		ins = append(ins, inp{s.ID, buildCAB(s), s})
	}
	for _, in := range ins {
		in := in
		for _, k := range keys {
			for _, h := range []string{"sha1", "sha256", "sha384", "sha512"} {
				c := sigCase{Fmt: "cab", Shape: in.id, Key: k, Hash: h, Gen: in.gen}
				plan("cab", "shapes x keys x digests", func() { runCABCase(c, in.data, true) })
			}
		}
	}
	for _, k := range []string{"rsaA", "p256A"} {
		c := sigCase{Fmt: "cab", Shape: ins[0].id, Key: k, Hash: "sha256", TS: true}
		plan("cab", "rfc3161", func() { runCABCase(c, ins[0].data, true) })
	}
}

func planMSI(thorough bool, keys []string) {
	shapes := msiFamily(thorough)
	exFlags := []map[string]string{{}, {"no-extended-sig": "true"}}
	for _, k := range keys {
		for _, h := range []string{"sha1", "sha256", "sha384", "sha512"} {
			for _, fl := range exFlags {
				c := sigCase{Fmt: "msi", Shape: shapes[0].ID, Class: shapes[0].Class, Key: k, Hash: h, Flags: fl}
				plan("msi", "dummy.msi x keys x digests x {extended, no-extended-sig}", func() { runMSICase(c, shapes[0].Data, true) })
			}
		}
	}
	for _, k := range []string{"rsaA", "p256A"} {
		c := sigCase{Fmt: "msi", Shape: shapes[0].ID, Class: shapes[0].Class, Key: k, Hash: "sha256", TS: true}
		plan("msi", "rfc3161", func() { runMSICase(c, shapes[0].Data, true) })
	}
	for _, s := range shapes[1:] {
		s := s
		ks := []string{"rsaA"}
		hs := []string{"sha256"}
		sub := "all shapes x rsaA x sha256 x {extended, no-extended-sig}"
		if thorough {
			ks = []string{"rsaA", "p256A", "p384"}
			hs = []string{"sha256", "sha1", "sha384", "sha512"}
			sub = "all shapes x {rsaA,p256A,p384} x {sha256,sha1,sha384,sha512} x {extended, no-extended-sig}"
		}
		for _, k := range ks {
			for _, h := range hs {
				for _, fl := range exFlags {
					c := sigCase{Fmt: "msi", Shape: s.ID, Class: s.Class, Key: k, Hash: h, Flags: fl}
					plan("msi", sub, func() { runMSICase(c, s.Data, false) })
				}
			}
		}
	}
}

func planXML(thorough bool, keys []string) {
	man := fixture("WindowsFormsApplication1.exe.manifest")
	vsix := fixture("VSIXProject1.vsix")
	digests := []string{"sha1", "sha256", "sha384", "sha512"}
	for _, k := range keys {
		for _, h := range digests {
			c := sigCase{Fmt: "appmanifest", Shape: "fixture", Key: k, Hash: h}
			plan("appmanifest", "fixture x keys x digests", func() { runManifestCase(c, man) })
		}
	}
	// the fixture with an extension subtree that binds, re-binds and uses a prefix the
	// manifest does not know (root / element / child). Variants in which an element
	// repeats the binding already in scope are left to C19, which lists relic's
	// handling of redundant declarations as a known finding.
	xmlgen.Extensions(func(e xmlgen.Extension) {
		if e.Redundant {
			return
		}
		doc, err := e.Embed(man)
		if err != nil {
			panic(err)
		}
		c := sigCase{Fmt: "appmanifest", Shape: "fixture+extension " + e.Desc, Key: "rsaA", Hash: "sha256"}
		plan("appmanifest", "extension subtrees", func() { runManifestCase(c, doc) })
	})
	for _, k := range []string{"rsaA", "p256A"} {
		c := sigCase{Fmt: "appmanifest", Shape: "fixture", Key: k, Hash: "sha256", TS: true}
		plan("appmanifest", "rfc3161", func() { runManifestCase(c, man) })
	}
	vd := digests
	if thorough {
		vd = append(vd, "sha224")
	}
	for _, k := range keys {
		for _, h := range vd {
			for _, fl := range flagSets("detach-certs") {
				c := sigCase{Fmt: "vsix", Shape: "fixture", Key: k, Hash: h, Flags: fl}
				plan("vsix", "fixture x keys x digests x detach-certs", func() { runVsixCase(c, vsix) })
			}
		}
	}
}

func planPGP(thorough bool) {
	keys := []string{"rsaA"}
	digests := []string{"sha256", "sha512"}
	if thorough {
		keys = []string{"rsaA", "rsaB"}
		digests = []string{"sha1", "sha224", "sha256", "sha384", "sha512"}
	}
	texts := pgpTexts()
	for _, t := range texts {
		t := t
		for _, fl := range flagSets("armor", "inline", "clearsign", "textmode") {
			for _, k := range keys {
				for _, h := range digests {
					c := sigCase{Fmt: "pgp", Shape: t.ID, Key: k, Hash: h, Flags: fl}
					plan("pgp", "texts x flag subsets x keys x digests", func() { runPGPCase(c, t) })
				}
			}
		}
	}
	for _, fl := range []map[string]string{{}, {"clearsign": "true"}} {
		c := sigCase{Fmt: "pgp", Shape: texts[0].ID, Key: "p256A", Hash: "sha256", Flags: fl}
		plan("pgp", "expected refusals (X.509-only key)", func() { runPGPCase(c, texts[0]) })
	}
	// deb
	for _, s := range debFamily() {
		s := s
		for _, role := range []string{"builder", "origin", "maint", "archive"} {
			for _, k := range keys {
				for _, h := range digests {
					c := sigCase{Fmt: "deb", Shape: s.ID, Key: k, Hash: h, Flags: map[string]string{"role": role}}
					plan("deb", "packages x roles x keys x digests", func() { runDebCase(c, s.Data, "") })
				}
			}
		}
		c := sigCase{Fmt: "deb", Shape: s.ID, Key: "rsaA", Hash: "sha256", Flags: map[string]string{"role": "builder"}}
		plan("deb", "second role on top", func() { runDebCase(c, s.Data, "origin") })
		c2 := sigCase{Fmt: "deb", Shape: s.ID, Key: "rsaA", Hash: "sha256"}
		plan("deb", "default role", func() { runDebCase(c2, s.Data, "") })
	}
	// rpm
	rpm := fixture("rocky-basesystem-11-13.el9.noarch.rpm")
	for _, k := range []string{"rsaA", "rsaB"} {
		for _, h := range []string{"sha1", "sha256", "sha512"} {
			c := sigCase{Fmt: "rpm", Shape: "fixture:rocky-basesystem", Key: k, Hash: h}
			plan("rpm", "fixture x keys x digests", func() { runRPMCase(c, rpm) })
		}
	}
}

func planOther(thorough bool, keys []string) {
	type of struct{ sig, file string }
	for _, o := range []of{{"cat", "hyperv.cat"}, {"appx", "App1_1.0.3.0_x64.appx"}, {"xap", "dummy.xap"}} {
		o := o
		data := fixture(o.file)
		for _, k := range keys {
			c := sigCase{Fmt: o.sig, Shape: "fixture:" + o.file, Key: k, Hash: "sha256"}
			plan(o.sig, "fixture x keys x sha256", func() { runOtherCMSCase(c, o.sig, o.file, data) })
		}
		c := sigCase{Fmt: o.sig, Shape: "fixture:" + o.file, Key: "rsaA", Hash: "sha256", TS: true}
		plan(o.sig, "rfc3161", func() { runOtherCMSCase(c, o.sig, o.file, data) })
	}
}

package main

// xar archives (Apple flat packages). A reader written from the xar format
// description: 28-byte big-endian header (magic 'xar!', u16 header size, u16
// version, u64 compressed and u64 uncompressed TOC length, u32 checksum
// algorithm: 0 none, 1 sha1, 2 md5, 3 sha256, 4 sha512), a zlib-compressed XML
// table of contents, then the heap. TOC offsets are relative to the heap. The
// TOC checksum is the digest of the COMPRESSED table of contents; <signature
// style="RSA"> is a PKCS#1 v1.5 signature whose DigestInfo carries that checksum;
// <x-signature style="CMS"> is a detached CMS signature over the checksum bytes.

import (
	"bytes"
	"compress/zlib"
	"crypto"
	"crypto/rsa"
	"crypto/x509"
	"encoding/base64"
	"encoding/binary"
	"encoding/hex"
	"encoding/xml"
	"fmt"
	"io"
	"os"
	"path/filepath"
	"sort"
	"strings"

	"verif/gen/dergen"
	"verif/gen/xargen"
	"verif/relicx"
)

type xarSum struct {
	Style  string `xml:"style,attr"`
	Offset *int64 `xml:"offset"`
	Size   *int64 `xml:"size"`
}

type xarSig struct {
	Style  string   `xml:"style,attr"`
	Offset *int64   `xml:"offset"`
	Size   *int64   `xml:"size"`
	Certs  []string `xml:"KeyInfo>X509Data>X509Certificate"`
}

type xarDigest struct {
	Style string `xml:"style,attr"`
	Hex   string `xml:",chardata"`
}

type xarData struct {
	Length   *int64 `xml:"length"`
	Offset   *int64 `xml:"offset"`
	Size     *int64 `xml:"size"`
	Encoding struct {
		Style string `xml:"style,attr"`
	} `xml:"encoding"`
	Archived  *xarDigest `xml:"archived-checksum"`
	Extracted *xarDigest `xml:"extracted-checksum"`
}

type xarFile struct {
	Name  string     `xml:"name"`
	Type  string     `xml:"type"`
	Data  *xarData   `xml:"data"`
	Files []*xarFile `xml:"file"`
}

type xarToc struct {
	XMLName xml.Name `xml:"xar"`
	Toc     struct {
		Checksum   []*xarSum  `xml:"checksum"`
		Signature  []*xarSig  `xml:"signature"`
		XSignature []*xarSig  `xml:"x-signature"`
		Files      []*xarFile `xml:"file"`
	} `xml:"toc"`
}

var xarAlg = map[uint32]string{0: "none", 1: "sha1", 2: "md5", 3: "sha256", 4: "sha512"}

type xarArchive struct {
	alg     string
	ztoc    []byte
	tocXML  []byte
	heap    []byte
	toc     xarToc
	members []xarMember
}

type xarMember struct {
	path string
	data *xarData
}

func readXar(b []byte) (*xarArchive, error) {
	if len(b) < 28 || string(b[:4]) != "xar!" {
		return nil, fmt.Errorf("no xar header")
	}
	hsize := int(binary.BigEndian.Uint16(b[4:]))
	if v := binary.BigEndian.Uint16(b[6:]); v != 1 || hsize < 28 || hsize > len(b) {
		return nil, fmt.Errorf("version %d header size %d", v, hsize)
	}
	clen, ulen := binary.BigEndian.Uint64(b[8:]), binary.BigEndian.Uint64(b[16:])
	a := &xarArchive{alg: xarAlg[binary.BigEndian.Uint32(b[24:])]}
	if a.alg == "" {
		return nil, fmt.Errorf("checksum algorithm number %d", binary.BigEndian.Uint32(b[24:]))
	}
	if clen > uint64(len(b)-hsize) {
		return nil, fmt.Errorf("compressed TOC length %d runs past the end of the file", clen)
	}
	a.ztoc, a.heap = b[hsize:hsize+int(clen)], b[hsize+int(clen):]
	zr, err := zlib.NewReader(bytes.NewReader(a.ztoc))
	if err != nil {
		return nil, fmt.Errorf("TOC: %v", err)
	}
	if a.tocXML, err = io.ReadAll(zr); err != nil {
		return nil, fmt.Errorf("TOC: %v", err)
	}
	if uint64(len(a.tocXML)) != ulen {
		return nil, fmt.Errorf("TOC inflates to %d bytes, the header says %d", len(a.tocXML), ulen)
	}
	if err := xml.Unmarshal(a.tocXML, &a.toc); err != nil {
		return nil, fmt.Errorf("TOC: %v", err)
	}
	var walk func(fs []*xarFile, p string)
	walk = func(fs []*xarFile, p string) {
		for _, f := range fs {
			if f.Data != nil {
				a.members = append(a.members, xarMember{p + "/" + f.Name, f.Data})
			}
			walk(f.Files, p+"/"+f.Name)
		}
	}
	walk(a.toc.Toc.Files, "")
	return a, nil
}

func (a *xarArchive) heapRange(off, size *int64) ([]byte, bool) {
	if off == nil || size == nil || *off < 0 || *size < 0 || *off+*size > int64(len(a.heap)) {
		return nil, false
	}
	return a.heap[*off : *off+*size], true
}

func xarHash(style string) (crypto.Hash, bool) {
	switch strings.ToLower(style) {
	case "sha1":
		return crypto.SHA1, true
	case "md5":
		return crypto.MD5, true
	case "sha256":
		return crypto.SHA256, true
	case "sha512":
		return crypto.SHA512, true
	}
	return 0, false
}

// checkXarMembers recomputes the archived checksum (heap bytes) and the
// extracted checksum (decoded bytes) of every member and returns the heap
// extents in use.
func checkXarMembers(a *xarArchive, pr *csProblems) (spans [][3]any, checked int) {
	for _, m := range a.members {
		d := m.data
		arch, ok := a.heapRange(d.Offset, d.Length)
		if !ok || d.Size == nil {
			pr.add("member-extent-outside-heap", "%s", m.path)
			continue
		}
		if len(arch) > 0 {
			spans = append(spans, [3]any{*d.Offset, *d.Offset + *d.Length, "member " + m.path})
		}
		raw := arch
		switch d.Encoding.Style {
		case "application/octet-stream":
		case "application/x-gzip":
			zr, err := zlib.NewReader(bytes.NewReader(arch))
			if err == nil {
				raw, err = io.ReadAll(zr)
			}
			if err != nil {
				pr.add("member-not-decodable", "%s: %v", m.path, err)
				continue
			}
		default:
			pr.add("member-encoding-unknown", "%s: %q", m.path, d.Encoding.Style)
			continue
		}
		if int64(len(raw)) != *d.Size {
			pr.add("member-size-differs", "%s: decodes to %d bytes, the TOC says %d", m.path, len(raw), *d.Size)
		}
		for _, x := range []struct {
			d    *xarDigest
			b    []byte
			kind string
		}{{d.Archived, arch, "archived"}, {d.Extracted, raw, "extracted"}} {
			if x.d == nil {
				pr.add("member-checksum-missing:"+x.kind, "%s", m.path)
				continue
			}
			h, ok := xarHash(x.d.Style)
			if !ok {
				pr.add("member-checksum-style-unknown:"+x.kind, "%s: %q", m.path, x.d.Style)
				continue
			}
			want := hex.EncodeToString(dergen.Digest(h, x.b))
			if strings.ToLower(strings.TrimSpace(x.d.Hex)) != want {
				pr.add("member-checksum-differs:"+x.kind, "%s: the TOC records %s, the %s bytes digest to %s", m.path, strings.TrimSpace(x.d.Hex), x.kind, want)
				continue
			}
			checked++
		}
	}
	return
}

// selfCheckXar: dummy.pkg was written by Apple's productbuild; the reader has
// to reproduce its TOC checksum and every member checksum.
func selfCheckXar() string {
	a, err := readXar(fixture("dummy.pkg"))
	if err != nil {
		fatal("reference self-check xar failed: %v", err)
	}
	var pr csProblems
	_, n := checkXarMembers(a, &pr)
	sum := a.toc.Toc.Checksum
	if len(pr) == 0 && (len(sum) != 1 || sum[0].Style != a.alg) {
		pr.add("checksum", "header algorithm %s, TOC %v", a.alg, sum)
	}
	if len(pr) == 0 {
		h, _ := xarHash(a.alg)
		if got, ok := a.heapRange(sum[0].Offset, sum[0].Size); !ok || !bytes.Equal(got, dergen.Digest(h, a.ztoc)) {
			pr.add("checksum", "stored TOC checksum is not the %s of the compressed TOC", a.alg)
		}
	}
	if len(pr) != 0 || n < 2 {
		fatal("reference self-check xar failed on dummy.pkg: %v (member checksums reproduced: %d)", pr, n)
	}
	return fmt.Sprintf("reader reproduces the %s TOC checksum and %d member checksums of dummy.pkg (an unsigned productbuild archive); no third-party SIGNED xar exists in the sandbox: the placement of the signatures stands on the format description alone", a.alg, n)
}

func runXarCase(c sigCase, input []byte, dgst bool) {
	dir := scratchDir("xar")
	defer os.RemoveAll(dir)
	path := filepath.Join(dir, xargen.FileName)
	os.WriteFile(path, input, 0o644)
	if !signedOK(c, signWith(c, "", path, "")) {
		return
	}
	relicAccepts(c, path, "")
	run.Distinct(c.String())
	data := mustRead(path)
	var pr csProblems
	func() {
		a, err := readXar(data)
		if err != nil {
			pr.add("container-unreadable", "%v", err)
			return
		}
		var spans [][3]any
		// ---- TOC checksum
		if a.alg != c.Hash {
			pr.add("toc-checksum:header-algorithm-not-requested", "header names %s, requested %s", a.alg, c.Hash)
		}
		if len(a.toc.Toc.Checksum) != 1 {
			pr.add("toc-checksum:element-count", "%d <checksum> elements", len(a.toc.Toc.Checksum))
			return
		}
		cs := a.toc.Toc.Checksum[0]
		h, ok := xarHash(cs.Style)
		if !ok || cs.Style != a.alg {
			pr.add("toc-checksum:style-differs-from-header", "header %s, <checksum style=%q>", a.alg, cs.Style)
			return
		}
		stored, ok := a.heapRange(cs.Offset, cs.Size)
		if !ok || len(stored) != h.Size() {
			pr.add("toc-checksum:extent", "checksum extent is not %d heap bytes", h.Size())
			return
		}
		spans = append(spans, [3]any{*cs.Offset, *cs.Offset + *cs.Size, "checksum"})
		sum := dergen.Digest(h, a.ztoc)
		if !bytes.Equal(stored, sum) {
			pr.add("toc-checksum:differs:"+a.alg, "the heap holds %x, the compressed TOC digests to %x", stored, sum)
		}
		// ---- members
		ms, n := checkXarMembers(a, &pr)
		spans = append(spans, ms...)
		tally("recomputed:xar", "member checksums", n)
		// ---- signatures
		leaf := fx.Keys[c.Key].Leaf
		certsOf := func(sg *xarSig, what string) []*x509.Certificate {
			var out []*x509.Certificate
			for i, t := range sg.Certs {
				der, err := base64.StdEncoding.DecodeString(strings.Join(strings.Fields(t), ""))
				var crt *x509.Certificate
				if err == nil {
					crt, err = x509.ParseCertificate(der)
				}
				if err != nil {
					pr.add(what+":certificate-unreadable", "X509Certificate %d: %v", i, err)
					return nil
				}
				out = append(out, crt)
			}
			if len(out) == 0 || !bytes.Equal(out[0].Raw, leaf.Raw) {
				pr.add(what+":first-certificate-is-not-the-leaf", "%d certificates listed", len(out))
				return nil
			}
			return out
		}
		chainOK := func(certs []*x509.Certificate, what string) {
			d := scratchDir("xarchain")
			defer os.RemoveAll(d)
			var rest bytes.Buffer
			for _, crt := range certs[1:] {
				rest.WriteString("-----BEGIN CERTIFICATE-----\n" + base64.StdEncoding.EncodeToString(crt.Raw) + "\n-----END CERTIFICATE-----\n")
			}
			os.WriteFile(filepath.Join(d, "leaf.pem"), []byte("-----BEGIN CERTIFICATE-----\n"+base64.StdEncoding.EncodeToString(certs[0].Raw)+"\n-----END CERTIFICATE-----\n"), 0o600)
			os.WriteFile(filepath.Join(d, "rest.pem"), rest.Bytes(), 0o600)
			_, err := openssl("verify", "-no_check_time", "-purpose", "any", "-CAfile", filepath.Join(relicx.KeyDir, "root.crt"), "-untrusted", filepath.Join(d, "rest.pem"), filepath.Join(d, "leaf.pem"))
			oracle("xar", "openssl verify: chain from the certificates listed in the TOC to the root", err == nil)
			if err != nil {
				pr.add(what+":listed-certificates-do-not-chain-to-root", "%v", err)
			}
		}
		rsaKey := keyType(c.Key) == "rsa"
		switch n := len(a.toc.Toc.Signature); {
		case n > 1, n == 1 && !rsaKey:
			pr.add("classic-signature:unexpected", "%d <signature> elements for a %s key", n, keyType(c.Key))
		case n == 0 && rsaKey:
			pr.add("classic-signature:missing", "no <signature style=\"RSA\"> for an RSA key")
		case n == 1:
			sg := a.toc.Toc.Signature[0]
			sig, ok := a.heapRange(sg.Offset, sg.Size)
			pub, _ := leaf.PublicKey.(*rsa.PublicKey)
			if sg.Style != "RSA" || !ok || pub == nil || len(sig) != pub.Size() {
				pr.add("classic-signature:extent-or-style", "style %q, %d bytes", sg.Style, len(sig))
				break
			}
			spans = append(spans, [3]any{*sg.Offset, *sg.Offset + *sg.Size, "signature"})
			err := rsa.VerifyPKCS1v15(pub, h, sum, sig)
			oracle("xar", "go-crypto: classic RSA signature over the TOC checksum", err == nil)
			if err != nil {
				pr.add("classic-signature:invalid:"+a.alg, "PKCS#1 v1.5 over DigestInfo(%s, checksum): %v", a.alg, err)
			}
			d := scratchDir("xarsig")
			os.WriteFile(filepath.Join(d, "sum"), sum, 0o600)
			os.WriteFile(filepath.Join(d, "sig"), sig, 0o600)
			_, err = openssl("pkeyutl", "-verify", "-pubin", "-inkey", leafPubPEM[c.Key], "-pkeyopt", "digest:"+a.alg, "-in", filepath.Join(d, "sum"), "-sigfile", filepath.Join(d, "sig"))
			os.RemoveAll(d)
			oracle("xar", "openssl pkeyutl -verify: classic RSA signature over the TOC checksum", err == nil)
			if err != nil {
				pr.add("classic-signature:openssl-pkeyutl-rejects:"+a.alg, "%v", err)
			}
			if certs := certsOf(sg, "classic-signature"); certs != nil {
				chainOK(certs, "classic-signature")
			}
		}
		switch n := len(a.toc.Toc.XSignature); {
		case n != 1:
			pr.add("cms-signature:element-count", "%d <x-signature> elements", n)
		default:
			sg := a.toc.Toc.XSignature[0]
			area, ok := a.heapRange(sg.Offset, sg.Size)
			if sg.Style != "CMS" || !ok || len(area) < 4 {
				pr.add("cms-signature:extent-or-style", "style %q, %d bytes", sg.Style, len(area))
				break
			}
			spans = append(spans, [3]any{*sg.Offset, *sg.Offset + *sg.Size, "x-signature"})
			root, err := dergen.Parse(area)
			if err != nil {
				pr.add("cms-signature:not-der", "%v", err)
				break
			}
			if !allZero(area[root.End:]) {
				pr.add("cms-signature:reserved-space-not-zero-padded", "%d bytes behind the CMS structure are not all zero", len(area)-root.End)
			}
			checkCMS(c, "x-signature", append([]byte(nil), area[:root.End]...), cmsOpts{content: sum, opensslCMS: true, opensslDgst: dgst, wantTS: c.TS})
			if certs := certsOf(sg, "cms-signature"); certs != nil && !rsaKey {
				chainOK(certs, "cms-signature")
			}
		}
		// ---- heap extents must not overlap
		sort.Slice(spans, func(i, j int) bool { return spans[i][0].(int64) < spans[j][0].(int64) })
		for i := 1; i < len(spans); i++ {
			if spans[i][0].(int64) < spans[i-1][1].(int64) {
				pr.add("heap-extents-overlap", "%v and %v", spans[i-1], spans[i])
			}
		}
	}()
	reportCS(c, pr, nil)
	groups := map[string]bool{}
	for _, p := range pr {
		groups[xarGroup(p.kind)] = true
	}
	for _, g := range xarGroups {
		oracle("xar", g, !groups[g])
	}
}

var xarGroups = []string{
	"reference: header, TOC and heap readable (zlib, XML)",
	"reference: TOC checksum recomputed over the compressed TOC",
	"reference: every member's archived and extracted checksum recomputed",
	"reference: signature elements and heap extents",
}

func xarGroup(kind string) string {
	switch {
	case strings.HasPrefix(kind, "container-"):
		return xarGroups[0]
	case strings.HasPrefix(kind, "toc-checksum"):
		return xarGroups[1]
	case strings.HasPrefix(kind, "member-"):
		return xarGroups[2]
	}
	return xarGroups[3]
}

func planXar(thorough bool) {
	shapes := buildShapes("xar", xargen.Shapes(thorough))
	mk := func(s builtShape, key, h string, ts bool) sigCase {
		return sigCase{Fmt: "xar", Shape: s.Name, Class: []string{s.Class}, Key: key, Hash: h, TS: ts}
	}
	keys := []string{"rsaA", "p256A"}
	if thorough {
		keys = append(keys, "p384", "p521")
	}
	canon := shapes[0]
	for _, s := range shapes {
		s := s
		for _, k := range keys {
			for _, h := range []string{"sha1", "sha256", "sha512"} {
				c := mk(s, k, h, false)
				dg := s.Class == "canonical"
				plan("xar", "all shapes x keys x {sha1,sha256,sha512}", func() { runXarCase(c, s.data, dg) })
			}
		}
	}
	if !thorough {
		for _, h := range []string{"sha1", "sha256", "sha512"} {
			c := mk(canon, "p384", h, false)
			plan("xar", "canonical shape x p384 x {sha1,sha256,sha512}", func() { runXarCase(c, canon.data, true) })
		}
	}
	for _, h := range []string{"sha384", "sha224", "md5"} {
		c := mk(canon, "rsaA", h, false)
		plan("xar", "expected refusals (no xar checksum algorithm number)", func() { runXarCase(c, canon.data, false) })
	}
	for _, k := range []string{"rsaA", "p256A"} {
		c := mk(canon, k, "sha256", true)
		plan("xar", "rfc3161", func() { runXarCase(c, canon.data, true) })
	}
	for _, k := range bundleKeyNames() {
		c := mk(canon, k, "sha256", false)
		plan("xar", "certificate-file shapes", func() { runXarCase(c, canon.data, true) })
	}
}

package main

import (
	"encoding/hex"
	"fmt"

	"verif/gen/dergen"
)

// selfChecks validates the reference side on genuine third-party signatures
// before it is allowed to judge relic. A failure here is a harness error
// (exit 2), never a verdict about relic.
func selfChecks() {
	res := map[string]string{}
	fail := func(name, msg string) {
		fatal("reference self-check %s failed: %s", name, msg)
	}

	// (1) PE image hash + CheckSum against signtool (EV-signed mingw program from golang.org/x/sys testdata)
	{
		p := "/verif/ref/py/testdata/ev-signed-file.exe"
		r := py.call(map[string]any{"op": "pe", "path": p, "algs": []string{"sha256"}})
		if !jbool(r, "ok") {
			fail("pe", jstr(r, "err"))
		}
		if jint(r, "checksum_field") != jint(r, "checksum_ref") {
			fail("pe", fmt.Sprintf("CheckSum reference %#x, signtool wrote %#x", jint(r, "checksum_ref"), jint(r, "checksum_field")))
		}
		cert := jmap(r, "cert")
		if len(jlist(cert, "problems")) != 0 || len(jlist(cert, "entries")) != 1 {
			fail("pe", fmt.Sprintf("certificate table of the signtool file judged malformed: %v", cert["problems"]))
		}
		e := jlist(cert, "entries")[0].(map[string]any)
		data := mustRead(p)
		der := data[jint(e, "off") : jint(e, "off")+jint(e, "len")]
		l, err := dergen.Locate(der)
		if err != nil {
			fail("pe", err.Error())
		}
		s, err := spcIndirect(l)
		if err != nil {
			fail("pe", err.Error())
		}
		if s.alg != "sha256" || hex.EncodeToString(s.digest) != jstr(jmap(r, "image_hash"), "sha256") {
			fail("pe", fmt.Sprintf("image hash reference %s, signtool signed %x", jstr(jmap(r, "image_hash"), "sha256"), s.digest))
		}
		if f := dergen.VerifyAll(l, nil, nil); len(f) != 0 {
			fail("pe", fmt.Sprintf("independent CMS verifier rejects the signtool signature: %s: %v", f[0].Path, f[0].Err))
		}
		res["pe image hash + CheckSum + CMS verifier"] = "agree with signtool on ev-signed-file.exe (sha256, timestamped)"
	}
	// (2) RPM header digests as shipped by Rocky Linux
	{
		r := py.call(map[string]any{"op": "rpm", "path": "/repo/functest/packages/rocky-basesystem-11-13.el9.noarch.rpm"})
		if !jbool(r, "ok") {
			fail("rpm", jstr(r, "err"))
		}
		n := 0
		for name, v := range jmap(r, "checks") {
			p := v.([]any)
			if p[0] != p[1] {
				fail("rpm", fmt.Sprintf("%s: stored %v recomputed %v", name, p[0], p[1]))
			}
			n++
		}
		if n < 3 || jstr(r, "rsaheader") == "" {
			fail("rpm", "expected digests/signature tags not found in the Rocky package")
		}
		res["rpm header digests"] = fmt.Sprintf("%d stored digests/sizes of the Rocky-signed package recomputed identically", n)
	}
	// (3) VSIX signed by Visual Studio ("ralph")
	{
		_, problems := checkVsix(fixture("VSIXProject1.vsix"), nil, true)
		if len(problems) != 0 {
			fail("vsix", fmt.Sprintf("%v", problems))
		}
		res["vsix validator"] = "JDK validation + recomputed part digests accept the third-party signed VSIXProject1.vsix"
	}
	// (4) CMS verifier on Microsoft's catalog and on the third-party appx
	{
		cat := fixture("hyperv.cat")
		l, err := dergen.Locate(cat)
		if err != nil {
			fail("cat", err.Error())
		}
		if f := dergen.VerifyAll(l, nil, nil); len(f) != 0 {
			fail("cat", fmt.Sprintf("%s: %v", f[0].Path, f[0].Err))
		}
		files, err := zipFiles(fixture("App1_1.0.3.0_x64.appx"), "AppxSignature.p7x")
		if err != nil || len(files["AppxSignature.p7x"]) < 4 {
			fail("appx", "no AppxSignature.p7x")
		}
		l, err = dergen.Locate(files["AppxSignature.p7x"][4:])
		if err != nil {
			fail("appx", err.Error())
		}
		if f := dergen.VerifyAll(l, nil, nil); len(f) != 0 {
			fail("appx", fmt.Sprintf("%s: %v", f[0].Path, f[0].Err))
		}
		res["cms verifier"] = "accepts Microsoft's hyperv.cat and the third-party AppxSignature.p7x"
	}
	// (5) gpgv plumbing: Ubuntu's InRelease must be *parsed* (the key is not available: NO_PUBKEY, not a format error)
	{
		_, _, status := gpgv("rsaA", false, "/repo/functest/packages/InRelease")
		res["gpgv plumbing"] = "InRelease (Ubuntu): " + firstLines([]byte(status), 1)
	}
	// (6) Apple code signatures: the ad-hoc signatures Apple's codesign left in fatfile.app
	res["code signature reader + reference (Mach-O)"] = selfCheckCodeSign()
	// (7) xar: Apple's productbuild archive
	res["xar reader"] = selfCheckXar()
	run.Set("reference_selfchecks", res)
}

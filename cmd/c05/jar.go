package main

import (
	"archive/zip"
	"bytes"
	"crypto"
	"crypto/ecdsa"
	"crypto/rsa"
	"encoding/base64"
	"encoding/binary"
	"encoding/hex"
	"fmt"
	"io"
	"os"
	"os/exec"
	"path/filepath"
	"strings"

	"verif/gen/dergen"
)

// ---- JAR ------------------------------------------------------------------------------

func zipFiles(data []byte, prefix string) (map[string][]byte, error) {
	zr, err := zip.NewReader(bytes.NewReader(data), int64(len(data)))
	if err != nil {
		return nil, err
	}
	out := map[string][]byte{}
	for _, f := range zr.File {
		if !strings.HasPrefix(f.Name, prefix) {
			continue
		}
		rc, err := f.Open()
		if err != nil {
			return nil, err
		}
		b, err := io.ReadAll(rc)
		rc.Close()
		if err != nil {
			return nil, err
		}
		out[f.Name] = b
	}
	return out, nil
}

func shapeClass(c sigCase) string {
	if len(c.Class) == 0 {
		return "plain"
	}
	return strings.Join(c.Class, "+")
}

func jarFlagClass(c sigCase) string {
	var f []string
	for _, k := range []string{"inline-signature", "sections-only"} {
		if c.Flags[k] == "true" {
			f = append(f, k)
		}
	}
	if len(f) == 0 {
		return "default-flags"
	}
	return strings.Join(f, "+")
}

type jarOpts struct {
	cli  bool // also the jarsigner command line
	ossl bool // also openssl cms -verify
}

func runJarCase(c sigCase, input []byte, o jarOpts) {
	dir := scratchDir("jar")
	defer os.RemoveAll(dir)
	path := filepath.Join(dir, "x.jar")
	os.WriteFile(path, input, 0o644)
	if !signedOK(c, signWith(c, "jar", path, "")) {
		return
	}
	if !relicAccepts(c, path, "") {
		return
	}
	run.Distinct(c.String())
	checkJarWithJDK(c, path)
	data := mustRead(path)
	checkJarCMS(c, data, o.ossl)
	if o.cli {
		jarsignerCLI(c, path)
	}
}

func checkJarWithJDK(c sigCase, path string) {
	ts := "0"
	if c.TS {
		ts = "1"
	}
	r := java("JAR " + path + " " + b64(fx.Keys[c.Key].Leaf.Raw) + " " + ts)
	ok := strings.HasPrefix(r, "OK ")
	oracle(c.Fmt, "JDK JarFile(verify=true) all entries signed by leaf", ok)
	if ok {
		return
	}
	f := strings.Fields(r)
	class, detail := "error", r
	if len(f) >= 3 && f[0] == "FAIL" {
		class = f[1]
		if b, err := base64.StdEncoding.DecodeString(f[2]); err == nil {
			detail = class + ": " + string(b)
		}
	}
	violation(c.Fmt+":jdk-rejects:"+class+":"+shapeClass(c)+":"+jarFlagClass(c), fmt.Sprintf("%s: java.util.jar verification: %s", c, detail), c.replay(map[string]any{"jdk": r}))
}

func checkJarCMS(c sigCase, data []byte, ossl bool) {
	files, err := zipFiles(data, "META-INF/")
	if err != nil {
		violation(c.Fmt+":output-not-a-zip", fmt.Sprintf("%s: archive/zip cannot read the signed archive: %v", c, err), c.replay(nil))
		return
	}
	// JAR specification, "Line length": no line may be longer than 72 bytes in
	// its UTF-8 form (java.util.jar itself tolerates up to 512)
	for name, body := range files {
		if name != "META-INF/MANIFEST.MF" && !strings.HasSuffix(name, ".SF") {
			continue
		}
		longest := 0
		for _, ln := range strings.FieldsFunc(string(body), func(r rune) bool { return r == '\r' || r == '\n' }) {
			if len(ln) > longest {
				longest = len(ln)
			}
		}
		kind := "manifest"
		if name != "META-INF/MANIFEST.MF" {
			kind = "signature-file"
		}
		oracle(c.Fmt, "JAR specification: manifest / .SF lines <= 72 bytes", longest <= 72)
		if longest > 72 {
			violation(c.Fmt+":line-longer-than-72-bytes:"+kind, fmt.Sprintf("%s: %s has a line of %d bytes", c, name, longest), c.replay(nil))
		}
	}
	found := 0
	for name, der := range files {
		base := ""
		for _, sfx := range []string{".RSA", ".EC", ".DSA"} {
			if strings.HasSuffix(name, sfx) {
				base = strings.TrimSuffix(name, sfx)
			}
		}
		if base == "" {
			continue
		}
		found++
		sf, ok := files[base+".SF"]
		if !ok {
			violation(c.Fmt+":signature-block-without-sf", fmt.Sprintf("%s: %s has no %s.SF", c, name, base), c.replay(nil))
			continue
		}
		wantSuffix := ".RSA"
		if keyType(c.Key) == "ecdsa" {
			wantSuffix = ".EC"
		}
		if !strings.HasSuffix(name, wantSuffix) {
			violation(c.Fmt+":signature-block-extension:"+keyType(c.Key), fmt.Sprintf("%s: block file %s for a %s key", c, name, keyType(c.Key)), c.replay(nil))
		}
		l := checkCMS(c, "sigblock:"+jarFlagClass(c), der, cmsOpts{content: sf, opensslCMS: ossl, wantTS: c.TS})
		if l != nil && l.HasEContent && !bytes.Equal(l.EContentBody.Of(der), sf) {
			violation(c.Fmt+":inline-content-differs-from-sf", fmt.Sprintf("%s: encapsulated content is not the .SF file", c), c.replay(nil))
		}
		if l != nil {
			want := c.Flags["inline-signature"] == "true"
			if l.HasEContent != want {
				run.Outcome("jar:inline-flag-not-reflected")
			}
		}
	}
	if found == 0 {
		violation(c.Fmt+":no-signature-block", fmt.Sprintf("%s: no META-INF/*.RSA|EC in the signed archive", c), c.replay(nil))
	}
}

// jarsignerCLI runs the real tool: `jarsigner -verify -strict` with the fixture
// root as trust anchor. "jar verified." and exit status 0 are both required.
func jarsignerCLI(c sigCase, path string) {
	countTool("jarsigner")
	cmd := exec.Command("jarsigner", "-J-Djava.security.properties="+javaClassDir+"/relax.security", "-J-XX:+UseSerialGC", "-J-Xshare:auto",
		"-verify", "-strict", "-keystore", javaClassDir+"/trust.p12", "-storepass", "changeit", path)
	out, err := cmd.CombinedOutput()
	txt := string(out)
	ok := err == nil && strings.Contains(txt, "jar verified.")
	oracle(c.Fmt, "jarsigner -verify -strict (CLI)", ok)
	if !ok {
		class := "not-verified"
		switch {
		case strings.Contains(txt, "jar is unsigned"):
			class = "jar-is-unsigned"
		case strings.Contains(txt, "jar verified."):
			class = "verified-with-severe-warnings"
		}
		violation(c.Fmt+":jarsigner-rejects:"+class+":"+shapeClass(c)+":"+jarFlagClass(c), fmt.Sprintf("%s: jarsigner -verify -strict: %v: %s", c, err, firstLines(out, 8)), c.replay(nil))
	}
}

// ---- APK ------------------------------------------------------------------------------------

type apkShape struct {
	ID      string    `json:"id"`
	Members []zmember `json:"members"`
	// Target > 0: a stored member "assets/pad.bin" is sized so that the bytes
	// before the central directory (= APK section 1 for a v2-only package) are
	// exactly Target.
	Target int `json:"section1_target,omitempty"`
	// Zip64End: a ZIP64 end-of-central-directory record and locator that no
	// field needs are placed in front of the classic end record (APPNOTE 6.3
	// allows that; some writers always emit them).
	Zip64End bool `json:"zip64_end_records,omitempty"`
}

// addZip64End inserts the optional ZIP64 end record + locator in front of a
// comment-less classic end record, leaving every other byte alone.
func addZip64End(z []byte) []byte {
	eocd := len(z) - 22
	if eocd < 0 || binary.LittleEndian.Uint32(z[eocd:]) != 0x06054b50 {
		panic("addZip64End: no comment-less end record")
	}
	n := uint64(binary.LittleEndian.Uint16(z[eocd+8:]))
	total := uint64(binary.LittleEndian.Uint16(z[eocd+10:]))
	cdSize := uint64(binary.LittleEndian.Uint32(z[eocd+12:]))
	cdOff := uint64(binary.LittleEndian.Uint32(z[eocd+16:]))
	var b bytes.Buffer
	b.Write(z[:eocd])
	le := func(v any) { binary.Write(&b, binary.LittleEndian, v) }
	le(uint32(0x06064b50))
	le(uint64(44))
	le(uint16(45))
	le(uint16(45))
	le(uint32(0))
	le(uint32(0))
	le(n)
	le(total)
	le(cdSize)
	le(cdOff)
	le(uint32(0x07064b50))
	le(uint32(0))
	le(uint64(eocd))
	le(uint32(1))
	b.Write(z[eocd:])
	return b.Bytes()
}

func buildAPK(s apkShape) []byte {
	ms := append([]zmember{}, s.Members...)
	if s.Target > 0 {
		base := buildZip(ms)
		// offset of the central directory = bytes of all local records
		cd := int(uint32(base[len(base)-6]) | uint32(base[len(base)-5])<<8 | uint32(base[len(base)-4])<<16 | uint32(base[len(base)-3])<<24)
		name := "assets/pad.bin"
		pad := s.Target - cd - 30 - len(name)
		if pad < 0 {
			panic("apk target too small")
		}
		ms = append(ms, zmember{Name: name, Raw: noise(99, pad)})
	}
	if s.Zip64End {
		return addZip64End(buildZip(ms))
	}
	return buildZip(ms)
}

func apkFamily() []apkShape {
	man := zmember{Name: "AndroidManifest.xml", Deflate: true, Size: 1709, Seed: 5}
	dex := zmember{Name: "classes.dex", Deflate: true, Size: 8192, Seed: 6}
	res := zmember{Name: "resources.arsc", Size: 1024, Seed: 7}
	M := 1 << 20
	mf := zmember{Name: "META-INF/MANIFEST.MF", Deflate: true, Raw: []byte(defaultManifest)}
	out := []apkShape{
		{ID: "small/1-deflated", Members: []zmember{man, mf}},
		{ID: "small/deflated+stored", Members: []zmember{man, mf, res}},
		{ID: "small/stored-manifest+deflated", Members: []zmember{{Name: "AndroidManifest.xml", Size: 1709, Seed: 5}, mf, dex}},
		{ID: "small/4-members", Members: []zmember{man, mf, dex, res}},
		{ID: "small/empty-member", Members: []zmember{man, mf, {Name: "assets/empty", Size: 0}}},
		{ID: "small/no-jar-manifest", Members: []zmember{man, res}},
		{ID: "small/zip64-end-records", Members: []zmember{man, mf, res}, Zip64End: true},
	}
	for _, t := range []int{M - 1, M, M + 1, 2*M - 1, 2 * M, 2*M + 1, 2*M + 4097} {
		out = append(out, apkShape{ID: fmt.Sprintf("boundary/section1=%d", t), Members: []zmember{man, mf, res}, Target: t})
	}
	return out
}

func apkChunkClass(sec1 int64) string {
	M := int64(1 << 20)
	switch {
	case sec1%M == 0:
		return fmt.Sprintf("contents-exactly-%d-chunks", sec1/M)
	case sec1%M == 1:
		return "contents-1-byte-over-chunk-boundary"
	case sec1%M == M-1:
		return "contents-1-byte-under-chunk-boundary"
	case sec1 < M:
		return "contents-single-short-chunk"
	}
	return "contents-several-chunks-and-tail"
}

func runApkCase(c sigCase, input []byte, v1 bool) {
	dir := scratchDir("apk")
	defer os.RemoveAll(dir)
	path := filepath.Join(dir, "x.apk")
	os.WriteFile(path, input, 0o644)
	if v1 {
		c1 := c
		c1.Flags = map[string]string{"apk-v2-present": "true"}
		if err := signWith(c1, "jar", path, ""); err != nil {
			run.Eval(1)
			run.Outcome("refused:apk-v1-step:" + short(err))
			tally("cases:"+c.Fmt, "refused(v1 step)", 1)
			tally("refusals", c.Fmt+" "+keyType(c.Key)+" digest="+c.Hash+" (v1 step): "+short(err), 1)
			return
		}
	}
	if !signedOK(c, signWith(c, "apk", path, "")) {
		return
	}
	if !relicAccepts(c, path, "") {
		return
	}
	run.Distinct(c.String())
	r := py.call(map[string]any{"op": "apk", "path": path})
	if !jbool(r, "ok") || !jbool(r, "has_block") || !jbool(r, "has_v2") {
		oracle(c.Fmt, "python: APK signing block / v2 structure readable", false)
		violation("apk:v2-block-unreadable", fmt.Sprintf("%s: reference reader: ok=%v err=%s has_block=%v has_v2=%v", c, r["ok"], jstr(r, "err"), r["has_block"], r["has_v2"]), c.replay(nil))
		return
	}
	oracle(c.Fmt, "python: APK signing block / v2 structure readable", true)
	cls := apkChunkClass(jint(r, "block_start"))
	run.Outcome("apk:" + cls)
	signers := jlist(r, "signers")
	if len(signers) != 1 {
		violation("apk:v2-signer-count", fmt.Sprintf("%s: %d signers", c, len(signers)), c.replay(nil))
		return
	}
	s := signers[0].(map[string]any)
	leaf := fx.Keys[c.Key].Leaf
	// digests
	digs := jlist(s, "digests")
	if len(digs) == 0 {
		violation("apk:v2-no-digest", c.String(), c.replay(nil))
	}
	var digIDs, sigIDs []int64
	for _, d := range digs {
		dm := d.(map[string]any)
		digIDs = append(digIDs, jint(dm, "alg"))
		if jstr(dm, "hash") == "" {
			violation("apk:v2-unknown-algorithm-id", fmt.Sprintf("%s: digest algorithm id %#x", c, jint(dm, "alg")), c.replay(nil))
			continue
		}
		ok := jstr(dm, "digest") == jstr(dm, "ref")
		oracle(c.Fmt, "python: v2 chunked top-level digest", ok)
		if !ok {
			violation("apk:v2-digest-differs:"+cls, fmt.Sprintf("%s: digest in block %s, reference %s over %d chunks", c, jstr(dm, "digest"), jstr(dm, "ref"), jint(dm, "chunks")), c.replay(nil))
		}
		if jstr(dm, "hash") != c.Hash {
			violation("apk:v2-digest-algorithm-not-requested", fmt.Sprintf("%s: block uses %s", c, jstr(dm, "hash")), c.replay(nil))
		}
	}
	// certificate + public key
	certs := jlist(s, "certs")
	if len(certs) == 0 || !bytes.Equal(unhex(certs[0].(string)), leaf.Raw) {
		violation("apk:v2-first-certificate-is-not-leaf", c.String(), c.replay(nil))
	}
	if !bytes.Equal(unhex(jstr(s, "pubkey")), leaf.RawSubjectPublicKeyInfo) {
		violation("apk:v2-public-key-is-not-leaf-spki", c.String(), c.replay(nil))
	}
	if jstr(s, "signed_data_tail") != "" {
		run.Outcome("apk:v2-signed-data-has-extra-fields")
	}
	signed := unhex(jstr(s, "signed_data"))
	sigs := jlist(s, "signatures")
	if len(sigs) == 0 {
		violation("apk:v2-no-signature", c.String(), c.replay(nil))
	}
	for _, x := range sigs {
		sm := x.(map[string]any)
		sigIDs = append(sigIDs, jint(sm, "alg"))
		scheme, hn := jstr(sm, "scheme"), jstr(sm, "hash")
		if scheme == "" {
			violation("apk:v2-unknown-algorithm-id", fmt.Sprintf("%s: signature algorithm id %#x", c, jint(sm, "alg")), c.replay(nil))
			continue
		}
		err := verifyRaw(leaf.PublicKey, scheme, hashOf(hn), signed, unhex(jstr(sm, "sig")))
		oracle(c.Fmt, "go-crypto: v2 signature over signed-data under leaf key", err == nil)
		if err != nil {
			violation("apk:v2-signature-invalid:"+scheme, fmt.Sprintf("%s: %v", c, err), c.replay(map[string]any{"signed_data_hex": hex.EncodeToString(signed)}))
		}
	}
	if fmt.Sprint(digIDs) != fmt.Sprint(sigIDs) {
		violation("apk:v2-digest-and-signature-algorithm-lists-differ", fmt.Sprintf("%s: %v vs %v", c, digIDs, sigIDs), c.replay(nil))
	}
	if v1 {
		checkJarWithJDK(c, path)
		checkJarCMS(c, mustRead(path), false)
	}
}

func verifyRaw(pub crypto.PublicKey, scheme string, h crypto.Hash, msg, sig []byte) error {
	d := dergen.Digest(h, msg)
	switch scheme {
	case "rsa-pkcs1":
		rp, ok := pub.(*rsa.PublicKey)
		if !ok {
			return fmt.Errorf("RSA algorithm id with a non-RSA leaf key")
		}
		return rsa.VerifyPKCS1v15(rp, h, d, sig)
	case "rsa-pss":
		rp, ok := pub.(*rsa.PublicKey)
		if !ok {
			return fmt.Errorf("RSA algorithm id with a non-RSA leaf key")
		}
		return rsa.VerifyPSS(rp, h, d, sig, &rsa.PSSOptions{SaltLength: h.Size(), Hash: h})
	case "ecdsa":
		ep, ok := pub.(*ecdsa.PublicKey)
		if !ok {
			return fmt.Errorf("ECDSA algorithm id with a non-EC leaf key")
		}
		if !ecdsa.VerifyASN1(ep, d, sig) {
			return fmt.Errorf("ECDSA verification failed")
		}
		return nil
	}
	return fmt.Errorf("scheme %s not implemented", scheme)
}

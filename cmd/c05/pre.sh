#!/bin/bash
# Compiles the JDK-only reference oracle for C05 and prepares the jarsigner trust
# store + the security-properties override (skipped when up to date).
set -e
SRC=/verif/ref/java/C05Ref.java
OUT=/verif/.build/java-c05
mkdir -p "$OUT"
if [ ! -f "$OUT/C05Ref.class" ] || [ "$SRC" -nt "$OUT/C05Ref.class" ]; then
  javac -nowarn -d "$OUT" \
    --add-exports java.xml.crypto/com.sun.org.apache.xml.internal.security.c14n=ALL-UNNAMED \
    --add-exports java.xml.crypto/com.sun.org.apache.xml.internal.security=ALL-UNNAMED \
    "$SRC"
fi
if [ ! -f "$OUT/trust.p12" ] || [ /verif/fixtures/keys/root.crt -nt "$OUT/trust.p12" ]; then
  rm -f "$OUT/trust.p12"
  keytool -importcert -noprompt -alias fixtureroot -file /verif/fixtures/keys/root.crt \
    -keystore "$OUT/trust.p12" -storetype PKCS12 -storepass changeit >/dev/null 2>&1
  keytool -importcert -noprompt -alias fixturetsa -file /verif/fixtures/keys/tsa.crt \
    -keystore "$OUT/trust.p12" -storetype PKCS12 -storepass changeit >/dev/null 2>&1 || true
  # jarsigner -strict also wants every signer to be an alias of the given keystore
  for k in rsaA rsaB p256A p256B p384 p521; do
    keytool -importcert -noprompt -alias "leaf-$k" -file "/verif/fixtures/keys/$k.leaf.crt" \
      -keystore "$OUT/trust.p12" -storetype PKCS12 -storepass changeit >/dev/null 2>&1
  done
fi
# The JDK's deployment POLICY (not the JAR specification) refuses SHA-1 digests in
# signed JARs since 17.0.3; the oracle judges conformance, so that policy entry is
# dropped for the reference JVMs. MD2/MD5 and short keys stay disabled.
cat > "$OUT/relax.security" <<'EOP'
jdk.jar.disabledAlgorithms=MD2, MD5, RSA keySize < 1024, DSA keySize < 1024
jdk.security.legacyAlgorithms=
EOP

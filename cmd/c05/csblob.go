package main

// Apple code signatures (Mach-O and UDIF): a reader and reference computation
// written from the published layout (xnu osfmk/kern/cs_blobs.h, <mach-o/loader.h>,
// Security.framework's codedirectory.h for the special-slot numbers). It shares
// no code with relic: byte offsets below are the header's field offsets.
//
//	SuperBlob         u32 magic 0xfade0cc0, u32 length, u32 count, count x {u32 type, u32 offset}
//	blob              u32 magic, u32 length (both cover the 8 header bytes), payload
//	index types       0 CodeDirectory, 0x1000.. alternate CodeDirectories, 2 requirements,
//	                  5 entitlements, 7 DER entitlements, 0x10000 CMS wrapper
//	CodeDirectory     0 magic 0xfade0c02, 4 length, 8 version, 12 flags, 16 hashOffset,
//	                  20 identOffset, 24 nSpecialSlots, 28 nCodeSlots, 32 codeLimit,
//	                  36 hashSize, 37 hashType, 38 platform, 39 pageSize (log2), 40 spare2,
//	                  44 scatterOffset (>=0x20100), 48 teamOffset (>=0x20200),
//	                  52 spare3, 56 codeLimit64 (>=0x20300),
//	                  64 execSegBase, 72 execSegLimit, 80 execSegFlags (>=0x20400)
//	hash slots        slot i (code, i >= 0) at hashOffset + i*hashSize; special slot n
//	                  (n >= 1) at hashOffset - n*hashSize; an all-zero special slot is "absent"
//	special slots     1 Info.plist, 2 requirements blob, 3 resource directory, 4 application
//	                  specific, 5 entitlements blob, 6 representation specific (UDIF: the koly
//	                  trailer), 7 DER entitlements blob. Blob-valued slots are hashed with
//	                  their 8-byte blob header.
//	hash types        1 SHA-1, 2 SHA-256, 3 SHA-256 truncated to 20, 4 SHA-384

import (
	"bytes"
	"crypto"
	"encoding/base64"
	"encoding/binary"
	"encoding/hex"
	"encoding/xml"
	"fmt"
	"io"
	"sort"
	"strings"

	"verif/gen/dergen"
)

const (
	csMagicSuper        = 0xfade0cc0
	csMagicCodeDir      = 0xfade0c02
	csMagicRequirements = 0xfade0c01
	csMagicEntitlements = 0xfade7171
	csMagicEntDER       = 0xfade7172
	csMagicWrapper      = 0xfade0b01

	csSlotCodeDir   = 0
	csSlotAlternate = 0x1000
	csSlotSignature = 0x10000

	oidCDHashPlist = "1.2.840.113635.100.9.1"
	oidCDHashes    = "1.2.840.113635.100.9.2"
)

var csMagicOfType = map[uint32]uint32{
	2: csMagicRequirements, 5: csMagicEntitlements, 7: csMagicEntDER, csSlotSignature: csMagicWrapper,
}

type csBlob struct {
	typ   uint32
	off   int
	magic uint32
	data  []byte // with the 8-byte header
}

type csSuper struct {
	length int
	blobs  []csBlob
}

func (s *csSuper) find(typ uint32) *csBlob {
	for i := range s.blobs {
		if s.blobs[i].typ == typ {
			return &s.blobs[i]
		}
	}
	return nil
}

type csProblem struct{ kind, detail string }

type csProblems []csProblem

func (p *csProblems) add(kind, format string, a ...any) {
	*p = append(*p, csProblem{kind, fmt.Sprintf(format, a...)})
}

func be32(b []byte, off int) uint32 { return binary.BigEndian.Uint32(b[off:]) }

// parseSuperBlob reads the embedded-signature SuperBlob at the start of slot.
func parseSuperBlob(slot []byte, pr *csProblems) *csSuper {
	if len(slot) < 12 {
		pr.add("superblob-malformed:shorter-than-header", "signature slot of %d bytes", len(slot))
		return nil
	}
	if m := be32(slot, 0); m != csMagicSuper {
		pr.add("superblob-malformed:magic", "magic %#x, want 0xfade0cc0", m)
		return nil
	}
	length, count := int(be32(slot, 4)), int(be32(slot, 8))
	if length < 12 || length > len(slot) {
		pr.add("superblob-malformed:length", "length %d in a slot of %d bytes", length, len(slot))
		return nil
	}
	if count < 0 || 12+8*count > length {
		pr.add("superblob-malformed:index", "%d index entries do not fit %d bytes", count, length)
		return nil
	}
	s := &csSuper{length: length}
	type ext struct{ lo, hi int }
	var exts []ext
	seen := map[uint32]bool{}
	for i := 0; i < count; i++ {
		typ, off := be32(slot, 12+8*i), int(be32(slot, 16+8*i))
		if off < 12+8*count || off+8 > length {
			pr.add("superblob-malformed:blob-offset", "entry %d (type %#x) offset %d outside [%d,%d)", i, typ, off, 12+8*count, length)
			continue
		}
		bl := int(be32(slot, off+4))
		if bl < 8 || off+bl > length {
			pr.add("superblob-malformed:blob-length", "entry %d (type %#x) length %d at %d runs past %d", i, typ, bl, off, length)
			continue
		}
		if seen[typ] {
			pr.add("superblob-malformed:duplicate-type", "two entries of type %#x", typ)
		}
		seen[typ] = true
		b := csBlob{typ: typ, off: off, magic: be32(slot, off), data: slot[off : off+bl]}
		want, known := csMagicOfType[typ]
		if typ == csSlotCodeDir || typ >= csSlotAlternate && typ < csSlotAlternate+16 {
			want, known = csMagicCodeDir, true
		}
		if known && b.magic != want {
			pr.add(fmt.Sprintf("superblob-malformed:blob-magic:type-%#x", typ), "blob of type %#x has magic %#x, want %#x", typ, b.magic, want)
		}
		exts = append(exts, ext{off, off + bl})
		s.blobs = append(s.blobs, b)
	}
	sort.Slice(exts, func(i, j int) bool { return exts[i].lo < exts[j].lo })
	for i := 1; i < len(exts); i++ {
		if exts[i].lo < exts[i-1].hi {
			pr.add("superblob-malformed:blobs-overlap", "blobs [%d,%d) and [%d,%d) overlap", exts[i-1].lo, exts[i-1].hi, exts[i].lo, exts[i].hi)
		}
	}
	return s
}

type codeDir struct {
	typ                         uint32
	raw                         []byte
	version, flags              uint32
	hashOffset, identOffset     int
	nSpecial, nCode             int
	codeLimit                   int64
	hashSize, hashType, pageLog int
	teamOffset                  int
	ident, team                 string
	hash                        crypto.Hash
	truncate                    int
}

func (d *codeDir) hashName() string {
	switch d.hashType {
	case 1:
		return "sha1"
	case 2:
		return "sha256"
	case 3:
		return "sha256-truncated"
	case 4:
		return "sha384"
	}
	return fmt.Sprintf("hashtype-%d", d.hashType)
}

func (d *codeDir) digest(b []byte) []byte {
	h := dergen.Digest(d.hash, b)
	if d.truncate > 0 {
		h = h[:d.truncate]
	}
	return h
}

// cdhash is the directory's identity: the digest of the whole blob in the
// directory's own algorithm.
func (d *codeDir) cdhash() []byte { return dergen.Digest(d.hash, d.raw) }

func (d *codeDir) slot(i int) []byte {
	o := d.hashOffset + i*d.hashSize
	return d.raw[o : o+d.hashSize]
}

func cstringAt(b []byte, off int) (string, bool) {
	if off <= 0 || off >= len(b) {
		return "", false
	}
	j := bytes.IndexByte(b[off:], 0)
	if j < 0 {
		return "", false
	}
	return string(b[off : off+j]), true
}

func parseCodeDir(b csBlob, pr *csProblems) *codeDir {
	raw := b.data
	bad := func(what, format string, a ...any) *codeDir {
		pr.add("cd-malformed:"+what, format, a...)
		return nil
	}
	if b.magic != csMagicCodeDir {
		return nil
	}
	if len(raw) < 44 {
		return bad("shorter-than-header", "CodeDirectory of %d bytes", len(raw))
	}
	d := &codeDir{typ: b.typ, raw: raw}
	d.version, d.flags = be32(raw, 8), be32(raw, 12)
	d.hashOffset, d.identOffset = int(be32(raw, 16)), int(be32(raw, 20))
	d.nSpecial, d.nCode = int(be32(raw, 24)), int(be32(raw, 28))
	d.codeLimit = int64(be32(raw, 32))
	d.hashSize, d.hashType, d.pageLog = int(raw[36]), int(raw[37]), int(raw[39])
	hdrEnd := 44
	if d.version < 0x20000 || d.version >= 0x30000 {
		return bad("version", "version %#x", d.version)
	}
	need := func(n int) bool {
		if len(raw) < n {
			bad("header-truncated-for-version", "version %#x needs a %d-byte header, blob has %d bytes", d.version, n, len(raw))
			return false
		}
		hdrEnd = n
		return true
	}
	if d.version >= 0x20100 {
		if !need(48) {
			return nil
		}
		if so := be32(raw, 44); so != 0 {
			return bad("scatter", "scatterOffset %d: scattered images are not produced by any input here", so)
		}
	}
	if d.version >= 0x20200 {
		if !need(52) {
			return nil
		}
		d.teamOffset = int(be32(raw, 48))
	}
	if d.version >= 0x20300 {
		if !need(64) {
			return nil
		}
		if l64 := int64(binary.BigEndian.Uint64(raw[56:])); l64 != 0 {
			if d.codeLimit != 0 && d.codeLimit != l64 {
				pr.add("cd-malformed:code-limit-32-and-64-differ", "codeLimit %d, codeLimit64 %d", d.codeLimit, l64)
			}
			d.codeLimit = l64
		}
	}
	if d.version >= 0x20400 {
		if !need(88) {
			return nil
		}
	}
	switch d.hashType {
	case 1:
		d.hash = crypto.SHA1
	case 2:
		d.hash = crypto.SHA256
	case 3:
		d.hash, d.truncate = crypto.SHA256, 20
	case 4:
		d.hash = crypto.SHA384
	default:
		return bad("hash-type", "hash type %d", d.hashType)
	}
	want := d.hash.Size()
	if d.truncate > 0 {
		want = d.truncate
	}
	if d.hashSize != want {
		return bad("hash-size", "hash size %d for %s", d.hashSize, d.hashName())
	}
	if d.pageLog != 0 && (d.pageLog < 9 || d.pageLog > 24) {
		return bad("page-size", "pageSize 2^%d", d.pageLog)
	}
	var ok bool
	if d.ident, ok = cstringAt(raw, d.identOffset); !ok || d.identOffset < hdrEnd {
		return bad("identifier", "identOffset %d (header ends at %d): no NUL-terminated string there", d.identOffset, hdrEnd)
	}
	strEnd := d.identOffset + len(d.ident) + 1
	if d.teamOffset != 0 {
		if d.team, ok = cstringAt(raw, d.teamOffset); !ok || d.teamOffset < hdrEnd {
			return bad("team-identifier", "teamOffset %d: no NUL-terminated string there", d.teamOffset)
		}
		if e := d.teamOffset + len(d.team) + 1; e > strEnd {
			strEnd = e
		}
	}
	lo := d.hashOffset - d.nSpecial*d.hashSize
	hi := d.hashOffset + d.nCode*d.hashSize
	if d.nSpecial < 0 || d.nCode < 0 || lo < strEnd || hi > len(raw) || d.hashOffset > len(raw) {
		return bad("hash-array-bounds", "hash slots [%d,%d) with strings ending at %d in a blob of %d bytes", lo, hi, strEnd, len(raw))
	}
	return d
}

func allZero(b []byte) bool {
	for _, c := range b {
		if c != 0 {
			return false
		}
	}
	return true
}

// csContext is what the container (Mach-O, UDIF) contributes.
type csContext struct {
	file        []byte // the whole signed file
	slot        []byte // the bytes reserved for the signature
	expectLimit int64  // what codeLimit has to be: everything in front of the signature
	// components the representation supplies: 1 Info.plist, 3 resource
	// directory, 6 representation specific. A key with a nil value means
	// "this representation has no such component".
	components map[int][]byte
}

type csResult struct {
	super *csSuper
	dirs  []*codeDir // index type 0 first, alternates ascending
	cms   []byte     // payload of the CMS wrapper (nil: none or empty = ad hoc)
	pr    csProblems
	facts []string
	// how much was recomputed (evidence)
	codeSlots, specialSlots int
}

func pageKind(i, n int, short bool) string {
	switch {
	case n == 1 && short:
		return "only-page-short"
	case n == 1:
		return "only-page"
	case i == n-1 && short:
		return "last-page-short"
	case i == n-1:
		return "last-page-full"
	case i == 0:
		return "first-page"
	}
	return "middle-page"
}

// verifyCodeSignature is the reference computation: every code slot and every
// special slot of every CodeDirectory is recomputed from the file and from the
// other blobs.
func verifyCodeSignature(ctx csContext) *csResult {
	r := &csResult{}
	r.super = parseSuperBlob(ctx.slot, &r.pr)
	if r.super == nil {
		return r
	}
	if !allZero(ctx.slot[r.super.length:]) {
		r.facts = append(r.facts, "slot-padding-not-zero")
	}
	for _, b := range r.super.blobs {
		if b.typ == csSlotCodeDir || b.typ >= csSlotAlternate && b.typ < csSlotAlternate+16 {
			if d := parseCodeDir(b, &r.pr); d != nil {
				r.dirs = append(r.dirs, d)
			}
		}
	}
	sort.SliceStable(r.dirs, func(i, j int) bool { return r.dirs[i].typ < r.dirs[j].typ })
	if len(r.dirs) == 0 || r.dirs[0].typ != csSlotCodeDir {
		r.pr.add("superblob-malformed:no-primary-code-directory", "no well-formed CodeDirectory of index type 0")
	}
	if w := r.super.find(csSlotSignature); w != nil && len(w.data) > 8 {
		r.cms = w.data[8:]
	}
	for _, d := range r.dirs {
		hn := d.hashName()
		// ---- code slots
		if ctx.expectLimit >= 0 && d.codeLimit != ctx.expectLimit {
			r.pr.add("code-limit-differs", "CodeDirectory %#x: codeLimit %d, the signature starts at %d", d.typ, d.codeLimit, ctx.expectLimit)
		}
		if d.codeLimit > int64(len(ctx.file)) {
			r.pr.add("code-limit-beyond-file", "CodeDirectory %#x: codeLimit %d in a file of %d bytes", d.typ, d.codeLimit, len(ctx.file))
			continue
		}
		limit := int(d.codeLimit)
		page := limit
		wantSlots := 1
		if d.pageLog != 0 {
			page = 1 << d.pageLog
			wantSlots = (limit + page - 1) / page
		}
		if limit == 0 {
			wantSlots = 0
		}
		if d.nCode != wantSlots {
			r.pr.add("code-slot-count-differs", "CodeDirectory %#x: %d code slots for codeLimit %d and page size %d (want %d)", d.typ, d.nCode, limit, page, wantSlots)
		}
		for i := 0; i < d.nCode && i < wantSlots; i++ {
			lo, hi := i*page, (i+1)*page
			if hi > limit {
				hi = limit
			}
			if !bytes.Equal(d.digest(ctx.file[lo:hi]), d.slot(i)) {
				kind := pageKind(i, wantSlots, hi-lo < page)
				if d.pageLog == 0 {
					kind = "whole-image-single-slot"
				}
				r.pr.add("code-page-hash-differs:"+kind+":"+hn, "CodeDirectory %#x: slot %d of %d over file[%d:%d): recorded %x, recomputed %x", d.typ, i, d.nCode, lo, hi, d.slot(i), d.digest(ctx.file[lo:hi]))
				break // one report per directory
			}
			r.codeSlots++
		}
		// ---- special slots
		top := d.nSpecial
		if top < 7 {
			top = 7
		}
		for n := 1; n <= top; n++ {
			comp, fromRep := ctx.components[n]
			if !fromRep {
				if b := r.super.find(uint32(n)); b != nil {
					comp = b.data
				}
			}
			var rec []byte
			if n <= d.nSpecial {
				rec = d.slot(-n)
				if allZero(rec) {
					rec = nil
				}
			}
			switch {
			case comp == nil && rec == nil:
			case comp == nil:
				r.pr.add(fmt.Sprintf("special-slot-without-component:slot-%d:%s", n, hn), "CodeDirectory %#x: special slot %d holds %x but nothing in the signature or the container goes with it", d.typ, n, rec)
			case rec == nil:
				r.pr.add(fmt.Sprintf("component-not-sealed:slot-%d:%s", n, hn), "CodeDirectory %#x: a component for special slot %d exists (%d bytes) but the slot is absent or zero (nSpecialSlots=%d)", d.typ, n, len(comp), d.nSpecial)
			case bytes.Equal(rec, d.digest(comp)):
				r.specialSlots++
			default:
				r.pr.add(fmt.Sprintf("special-slot-differs:slot-%d:%s", n, hn), "CodeDirectory %#x: special slot %d records %x, the component (%d bytes) digests to %x", d.typ, n, rec, len(comp), d.digest(comp))
			}
		}
	}
	return r
}

// ---- the hash-agility attributes of the CMS signature --------------------------------------------

// cdhashPlist extracts the <data> members of the cdhashes array.
func cdhashPlist(doc []byte) ([][]byte, error) {
	dec := xml.NewDecoder(bytes.NewReader(doc))
	dec.Strict = false
	var out [][]byte
	var stack []string
	lastKey := ""
	inArray := false
	for {
		tok, err := dec.Token()
		if err == io.EOF {
			break
		}
		if err != nil {
			return nil, err
		}
		switch t := tok.(type) {
		case xml.StartElement:
			stack = append(stack, t.Name.Local)
			if t.Name.Local == "array" && lastKey == "cdhashes" {
				inArray = true
			}
		case xml.EndElement:
			if t.Name.Local == "array" {
				inArray = false
			}
			if len(stack) > 0 {
				stack = stack[:len(stack)-1]
			}
		case xml.CharData:
			if len(stack) == 0 {
				continue
			}
			switch stack[len(stack)-1] {
			case "key":
				lastKey = strings.TrimSpace(string(t))
			case "data":
				if inArray {
					b, err := base64.StdEncoding.DecodeString(strings.Join(strings.Fields(string(t)), ""))
					if err != nil {
						return nil, fmt.Errorf("cdhashes entry: %v", err)
					}
					out = append(out, b)
				}
			}
		}
	}
	return out, nil
}

var oidOfHash = map[crypto.Hash]string{
	crypto.SHA1: "1.3.14.3.2.26", crypto.SHA256: "2.16.840.1.101.3.4.2.1", crypto.SHA384: "2.16.840.1.101.3.4.2.2", crypto.SHA512: "2.16.840.1.101.3.4.2.3",
}

// checkCDHashAttrs compares the two signed attributes that bind the set of
// CodeDirectories to the CMS signature with the directories actually present.
// Both are optional for a signature with one directory (an Apple verifier
// needs them only to reach an alternate directory): absence is tallied.
func checkCDHashAttrs(format string, l *dergen.CMS, dirs []*codeDir, pr *csProblems) {
	if l == nil || len(l.Signers) != 1 {
		return
	}
	si := l.Signers[0]
	// 1.2.840.113635.100.9.1: OCTET STRING holding a property list {cdhashes: [20-byte truncated cdhash per directory]}
	pl := dergen.FindAttrs(si.Attrs, oidCDHashPlist)
	switch {
	case len(pl) == 0:
		tally("oracle:cdhashes plist attribute matches the directories", format+":attribute-absent", 1)
		if len(dirs) > 1 {
			pr.add("cdhash-plist-missing-with-alternates", "%d CodeDirectories but no 1.2.840.113635.100.9.1 attribute", len(dirs))
		}
	case len(pl) > 1 || len(pl[0].Values) != 1:
		pr.add("cdhash-plist-attribute-shape", "%d attributes / %d values", len(pl), len(pl[0].Values))
	default:
		ok := true
		vb := pl[0].Values[0].Of(l.B)
		n, err := dergen.Parse(vb)
		if err != nil || !n.Is(0, 4) {
			pr.add("cdhash-plist-attribute-shape", "value is not an OCTET STRING")
			ok = false
		} else {
			doc := n.Content().Of(vb)
			hs, err := cdhashPlist(doc)
			if err != nil {
				pr.add("cdhash-plist-unreadable", "%v", err)
				ok = false
			} else if len(hs) != len(dirs) {
				pr.add("cdhash-plist-differs:count", "plist lists %d cdhashes, the signature has %d CodeDirectories", len(hs), len(dirs))
				ok = false
			} else {
				for i, d := range dirs {
					if want := d.cdhash()[:20]; !bytes.Equal(hs[i], want) {
						pr.add("cdhash-plist-differs:"+d.hashName(), "plist entry %d is %x, CodeDirectory %#x digests to %x (first 20 bytes of %s)", i, hs[i], d.typ, want, d.hashName())
						ok = false
					}
				}
			}
		}
		oracle(format, "cdhashes plist attribute matches the directories", ok)
	}
	// 1.2.840.113635.100.9.2: one SEQUENCE {digest algorithm OID, OCTET STRING full cdhash} per directory
	at := dergen.FindAttrs(si.Attrs, oidCDHashes)
	var vals []dergen.Range
	for _, a := range at {
		vals = append(vals, a.Values...)
	}
	if len(vals) == 0 {
		tally("oracle:typed cdhash attribute matches the directories", format+":attribute-absent", 1)
		return
	}
	ok := true
	got := map[string]bool{}
	for _, v := range vals {
		b := v.Of(l.B)
		n, err := dergen.Parse(b)
		if err != nil || !n.Is(0, 16) || len(n.Kids) != 2 || !n.Kids[0].Is(0, 6) || !n.Kids[1].Is(0, 4) {
			pr.add("cdhash-attribute-shape", "value %x is not SEQUENCE {OID, OCTET STRING}", b)
			ok = false
			continue
		}
		got[dergen.OIDString(n.Kids[0].Content().Of(b))+":"+hex.EncodeToString(n.Kids[1].Content().Of(b))] = true
	}
	want := map[string]bool{}
	for _, d := range dirs {
		want[oidOfHash[d.hash]+":"+hex.EncodeToString(d.cdhash())] = true
	}
	for k := range want {
		if !got[k] {
			pr.add("cdhash-attribute-differs:directory-not-listed", "no value %s among %v", k, keysOf(got))
			ok = false
		}
	}
	for k := range got {
		if !want[k] {
			pr.add("cdhash-attribute-differs:lists-unknown-directory", "value %s matches none of the %d CodeDirectories (%v)", k, len(dirs), keysOf(want))
			ok = false
		}
	}
	oracle(format, "typed cdhash attribute matches the directories", ok)
}

func keysOf(m map[string]bool) []string {
	var ks []string
	for k := range m {
		ks = append(ks, k)
	}
	sort.Strings(ks)
	return ks
}

// ---- Mach-O container (<mach-o/loader.h>) ------------------------------------------------------------

type machoSeg struct {
	name                      string
	vmsize, fileoff, filesize uint64
	cmdOff                    int
	nsects                    int
	sectName, sectSeg         []string
	sectOff, sectSize         []uint64
}

type machoInfo struct {
	bo             binary.ByteOrder
	is64           bool
	hdrSize        int
	ncmds, cmdsz   int
	segs           []machoSeg
	sigCmds        int
	sigOff, sigLen int
	infoPlist      []byte
	firstSect      uint64
}

func trimName(b []byte) string {
	if i := bytes.IndexByte(b, 0); i >= 0 {
		b = b[:i]
	}
	return string(b)
}

func readMacho(b []byte) (*machoInfo, error) {
	if len(b) < 28 {
		return nil, fmt.Errorf("shorter than a mach_header")
	}
	m := &machoInfo{hdrSize: 28}
	switch binary.BigEndian.Uint32(b) {
	case 0xfeedface:
		m.bo = binary.BigEndian
	case 0xfeedfacf:
		m.bo, m.is64 = binary.BigEndian, true
	case 0xcefaedfe:
		m.bo = binary.LittleEndian
	case 0xcffaedfe:
		m.bo, m.is64 = binary.LittleEndian, true
	default:
		return nil, fmt.Errorf("magic %x is not a thin Mach-O", b[:4])
	}
	if m.is64 {
		m.hdrSize = 32
	}
	m.ncmds, m.cmdsz = int(m.bo.Uint32(b[16:])), int(m.bo.Uint32(b[20:]))
	if m.hdrSize+m.cmdsz > len(b) {
		return nil, fmt.Errorf("load commands run past the end of the file")
	}
	m.firstSect = uint64(len(b))
	p, end := m.hdrSize, m.hdrSize+m.cmdsz
	for i := 0; i < m.ncmds; i++ {
		if p+8 > end {
			return nil, fmt.Errorf("load command %d starts beyond sizeofcmds", i)
		}
		cmd, sz := m.bo.Uint32(b[p:]), int(m.bo.Uint32(b[p+4:]))
		if sz < 8 || p+sz > end {
			return nil, fmt.Errorf("load command %d: size %d", i, sz)
		}
		c := b[p : p+sz]
		switch cmd {
		case 0x1, 0x19:
			var s machoSeg
			s.cmdOff = p
			s.name = trimName(c[8:24])
			var sectBase, sectSz int
			if cmd == 0x19 {
				if sz < 72 {
					return nil, fmt.Errorf("LC_SEGMENT_64 of %d bytes", sz)
				}
				s.vmsize, s.fileoff, s.filesize = m.bo.Uint64(c[32:]), m.bo.Uint64(c[40:]), m.bo.Uint64(c[48:])
				s.nsects, sectBase, sectSz = int(m.bo.Uint32(c[64:])), 72, 80
			} else {
				if sz < 56 {
					return nil, fmt.Errorf("LC_SEGMENT of %d bytes", sz)
				}
				s.vmsize, s.fileoff, s.filesize = uint64(m.bo.Uint32(c[28:])), uint64(m.bo.Uint32(c[32:])), uint64(m.bo.Uint32(c[36:]))
				s.nsects, sectBase, sectSz = int(m.bo.Uint32(c[48:])), 56, 68
			}
			if sectBase+s.nsects*sectSz > sz {
				return nil, fmt.Errorf("segment %s: %d sections do not fit the command", s.name, s.nsects)
			}
			for k := 0; k < s.nsects; k++ {
				sc := c[sectBase+k*sectSz:]
				var off, size uint64
				if cmd == 0x19 {
					size, off = m.bo.Uint64(sc[40:]), uint64(m.bo.Uint32(sc[48:]))
				} else {
					size, off = uint64(m.bo.Uint32(sc[36:])), uint64(m.bo.Uint32(sc[40:]))
				}
				sn, sg := trimName(sc[0:16]), trimName(sc[16:32])
				s.sectName, s.sectSeg = append(s.sectName, sn), append(s.sectSeg, sg)
				s.sectOff, s.sectSize = append(s.sectOff, off), append(s.sectSize, size)
				if size != 0 && off != 0 && off < m.firstSect {
					m.firstSect = off
				}
				if sg == "__TEXT" && sn == "__info_plist" && off+size <= uint64(len(b)) {
					m.infoPlist = b[off : off+size]
				}
			}
			m.segs = append(m.segs, s)
		case 0x1d:
			m.sigCmds++
			if sz != 16 {
				return nil, fmt.Errorf("LC_CODE_SIGNATURE of %d bytes", sz)
			}
			m.sigOff, m.sigLen = int(m.bo.Uint32(c[8:])), int(m.bo.Uint32(c[12:]))
		}
		p += sz
	}
	if p != end {
		return nil, fmt.Errorf("load commands take %d bytes, sizeofcmds says %d", p-m.hdrSize, m.cmdsz)
	}
	return m, nil
}

func (m *machoInfo) seg(name string) *machoSeg {
	for i := range m.segs {
		if m.segs[i].name == name {
			return &m.segs[i]
		}
	}
	return nil
}

// machoSignature locates the signature of a signed thin image and checks what
// the loader needs of the container.
func machoSignature(b []byte, pr *csProblems) (*machoInfo, []byte) {
	m, err := readMacho(b)
	if err != nil {
		pr.add("container-unreadable", "%v", err)
		return nil, nil
	}
	if m.sigCmds != 1 {
		pr.add("lc-code-signature:count", "%d LC_CODE_SIGNATURE commands", m.sigCmds)
		return m, nil
	}
	if uint64(m.hdrSize+m.cmdsz) > m.firstSect {
		pr.add("load-commands-overlap-first-section", "load commands end at %d, first section data at %d", m.hdrSize+m.cmdsz, m.firstSect)
	}
	if m.sigOff < 0 || m.sigLen < 0 || m.sigOff+m.sigLen > len(b) {
		pr.add("lc-code-signature:outside-file", "dataoff %d datasize %d in a file of %d bytes", m.sigOff, m.sigLen, len(b))
		return m, nil
	}
	le := m.seg("__LINKEDIT")
	switch {
	case le == nil:
		pr.add("lc-code-signature:no-linkedit", "no __LINKEDIT segment")
	default:
		if le != &m.segs[len(m.segs)-1] {
			pr.add("linkedit-not-last-segment", "segment order %v", func() (n []string) {
				for _, s := range m.segs {
					n = append(n, s.name)
				}
				return
			}())
		}
		end := le.fileoff + le.filesize
		if uint64(m.sigOff) < le.fileoff || uint64(m.sigOff+m.sigLen) != end {
			pr.add("lc-code-signature:not-at-end-of-linkedit", "signature [%d,%d), __LINKEDIT [%d,%d)", m.sigOff, m.sigOff+m.sigLen, le.fileoff, end)
		}
		if end != uint64(len(b)) {
			pr.add("linkedit-does-not-end-at-eof", "__LINKEDIT ends at %d, the file at %d", end, len(b))
		}
		if le.filesize > le.vmsize {
			pr.add("linkedit-filesize-exceeds-vmsize", "filesize %d vmsize %d", le.filesize, le.vmsize)
		}
	}
	return m, b[m.sigOff : m.sigOff+m.sigLen]
}

package main

import (
	"bufio"
	"bytes"
	"crypto"
	"crypto/x509"
	"encoding/base64"
	"encoding/hex"
	"encoding/json"
	"fmt"
	"io"
	"net/http"
	"net/http/httptest"
	"net/url"
	"os"
	"os/exec"
	"path/filepath"
	"regexp"
	"sort"
	"strings"
	"sync"
	"sync/atomic"
	"time"

	"github.com/sassoftware/relic/v8/config"
	"github.com/sassoftware/relic/v8/signers"
	"github.com/sassoftware/relic/v8/token"

	"verif/gen/dergen"
	"verif/relicx"
	"verif/vlib"
)

var (
	run      *vlib.Run
	tmp      string
	deadline time.Time
	fx       *dergen.Fixtures

	cfgPlain, cfgTS *config.Config
	tokPlain, tokTS token.Token

	extraKnown = map[string]bool{}
)

func fatal(format string, a ...any) {
	fmt.Printf("HARNESS-ERROR "+format+"\n", a...)
	if tmp != "" {
		os.RemoveAll(tmp)
	}
	os.Exit(2)
}

func timeUp() bool { return time.Now().After(deadline) }

// ---- findings ---------------------------------------------------------------------

type finding struct {
	count  int
	desc   string
	replay any
	order  string
}

var (
	findMu   sync.Mutex
	findings = map[string]*finding{}
)

// violation records a reference verifier rejecting / a reference computation
// differing. Of all cases with the same key the one with the shortest (then
// lexicographically first) case description is kept as the reproducer, so the
// report does not depend on goroutine scheduling.
func violation(key, desc string, replay any) {
	order := fmt.Sprintf("%06d %s", len(desc), desc)
	if m, ok := replay.(map[string]any); ok {
		if c, ok := m["case"].(sigCase); ok {
			cs := c.String()
			order = fmt.Sprintf("%06d %s", len(cs), cs)
		}
	}
	findMu.Lock()
	defer findMu.Unlock()
	f := findings[key]
	if f == nil {
		findings[key] = &finding{count: 1, desc: desc, replay: replay, order: order}
		return
	}
	f.count++
	if order < f.order {
		f.desc, f.replay, f.order = desc, replay, order
	}
}

func flushFindings() {
	var ks []string
	for k := range findings {
		ks = append(ks, k)
	}
	sort.Strings(ks)
	var extraHits []map[string]any
	for _, k := range ks {
		f := findings[k]
		desc := fmt.Sprintf("%s [cases=%d; shortest case kept as reproducer]", f.desc, f.count)
		if extraKnown[k] {
			fmt.Printf("KNOWN-FINDING(dev, C05_KNOWN_EXTRA): property=C05 key=%s hits=%d :: %s\n", k, f.count, f.desc)
			extraHits = append(extraHits, map[string]any{"key": k, "hits": f.count, "what": f.desc})
			continue
		}
		n := f.count
		if n > 100000 {
			n = 100000
		}
		for i := 0; i < n; i++ {
			run.Violation(k, desc, f.replay)
		}
	}
	if extraHits != nil {
		run.Set("known_extra_hits", extraHits)
	}
}

// ---- per-format / per-oracle tallies --------------------------------------------------

var (
	tallyMu sync.Mutex
	tallies = map[string]map[string]int64{}
)

func tally(group, name string, n int) {
	tallyMu.Lock()
	m := tallies[group]
	if m == nil {
		m = map[string]int64{}
		tallies[group] = m
	}
	m[name] += int64(n)
	tallyMu.Unlock()
}

// oracle counts one verdict of one independent oracle on one artifact.
func oracle(format, name string, ok bool) {
	v := "accept"
	if !ok {
		v = "REJECT"
	}
	tally("oracle:"+name, format+":"+v, 1)
	run.Outcome("oracle:" + name + ":" + v)
}

// ---- signing case ---------------------------------------------------------------------

type sigCase struct {
	Fmt   string            `json:"format"`
	Shape string            `json:"shape"`
	Class []string          `json:"shape_classes,omitempty"`
	Key   string            `json:"key"`
	Hash  string            `json:"digest"`
	Flags map[string]string `json:"flags,omitempty"`
	TS    bool              `json:"rfc3161_timestamp,omitempty"`
	Gen   any               `json:"generator,omitempty"` // parameters that rebuild the input
}

func (c sigCase) String() string {
	var fl []string
	for k, v := range c.Flags {
		fl = append(fl, k+"="+v)
	}
	sort.Strings(fl)
	ts := ""
	if c.TS {
		ts = " +ts"
	}
	return fmt.Sprintf("%s[%s] key=%s digest=%s flags=%s%s", c.Fmt, c.Shape, c.Key, c.Hash, strings.Join(fl, ","), ts)
}

func (c sigCase) flagKey() string {
	var fl []string
	for k, v := range c.Flags {
		fl = append(fl, k+"="+v)
	}
	sort.Strings(fl)
	return strings.Join(fl, ",")
}

func (c sigCase) replay(extra map[string]any) map[string]any {
	m := map[string]any{"case": c}
	for k, v := range extra {
		m[k] = v
	}
	return m
}

func hashOf(name string) crypto.Hash {
	switch name {
	case "md5":
		return crypto.MD5
	case "sha1":
		return crypto.SHA1
	case "sha224":
		return crypto.SHA224
	case "sha256":
		return crypto.SHA256
	case "sha384":
		return crypto.SHA384
	case "sha512":
		return crypto.SHA512
	}
	panic("hash " + name)
}

var hashNameByOID = map[string]string{
	"1.2.840.113549.2.5":     "md5",
	"1.3.14.3.2.26":          "sha1",
	"2.16.840.1.101.3.4.2.4": "sha224",
	"2.16.840.1.101.3.4.2.1": "sha256",
	"2.16.840.1.101.3.4.2.2": "sha384",
	"2.16.840.1.101.3.4.2.3": "sha512",
}

func short(err error) string {
	s := err.Error()
	if i := strings.IndexAny(s, "\n"); i >= 0 {
		s = s[:i]
	}
	// strip scratch paths and time stamps so that outcome classes are stable
	s = reStamp.ReplaceAllString(s, "")
	s = strings.ReplaceAll(s, tmp, "<tmp>")
	for {
		i := strings.Index(s, "<tmp>/")
		if i < 0 {
			break
		}
		j := i + 6
		for j < len(s) && s[j] != ' ' && s[j] != ':' && s[j] != '"' {
			j++
		}
		s = s[:i] + "<file>" + s[j:]
	}
	if len(s) > 100 {
		s = s[:100]
	}
	return s
}

var reStamp = regexp.MustCompile(` ?\[\d{4}-\d\d-\d\d [^\]]*\]`)

var seq int64

func scratchDir(prefix string) string {
	d := filepath.Join(tmp, fmt.Sprintf("%s-%d", prefix, atomic.AddInt64(&seq, 1)))
	if err := os.MkdirAll(d, 0o755); err != nil {
		fatal("%v", err)
	}
	return d
}

// guard turns a panic inside relic into an error (C11's business, not ours).
func guard(f func() error) (err error) {
	defer func() {
		if r := recover(); r != nil {
			err = fmt.Errorf("panic: %v", r)
		}
	}()
	return f()
}

// signWith runs relic's real standalone pipeline. out=="" signs in place.
func signWith(c sigCase, sigType, in, out string) error {
	flags := url.Values{}
	for k, v := range c.Flags {
		flags.Set(k, v)
	}
	cfg, tok := cfgPlain, tokPlain
	if c.TS {
		cfg, tok = cfgTS, tokTS
	}
	return guard(func() error {
		return relicx.SignStandalone(cfg, tok, relicx.SignReq{SigType: sigType, Key: c.Key, Hash: hashOf(c.Hash), Flags: flags, In: in, Out: out})
	})
}

// signed is the common bookkeeping after a signing attempt: returns false when
// the case ends here (refused, or relic does not accept its own output).
func signedOK(c sigCase, err error) bool {
	run.Eval(1)
	tally("cases:"+c.Fmt, "attempted", 1)
	if err != nil {
		if strings.HasPrefix(err.Error(), "panic:") {
			run.Outcome("sign-panic:" + c.Fmt)
			tally("cases:"+c.Fmt, "sign-panic(C11 matter)", 1)
			return false
		}
		run.Outcome("refused:" + c.Fmt + ":" + short(err))
		tally("cases:"+c.Fmt, "refused", 1)
		tally("refusals", c.Fmt+" "+keyType(c.Key)+" digest="+c.Hash+": "+short(err), 1)
		return false
	}
	tally("cases:"+c.Fmt, "signed", 1)
	return true
}

var moduleOf = map[string]string{"pe": "pe-coff", "xml": "appmanifest"}

func relicAccepts(c sigCase, path string, content string) bool {
	opts := relicx.TrustOpts()
	opts.Content = content
	var sigs int
	verify := func() error {
		return guard(func() error {
			s, e := relicx.Verify(path, opts)
			sigs = len(s)
			return e
		})
	}
	err := verify()
	if err != nil {
		// `relic verify` picks the verifier from the first bytes of the file
		// (unknown type for PE headers beyond its peek window; a PKCS#7 OID in
		// the first 256 bytes of a tiny cabinet selects the pkcs verifier): the
		// signer module's own verifier is then asked directly. Detection is
		// C01's matter; it is tallied here.
		first := err
		name := moduleOf[c.Fmt]
		if name == "" {
			name = c.Fmt
		}
		if mod := signers.ByName(name); mod != nil {
			err = guard(func() error {
				f, e := os.Open(path)
				if e != nil {
					return e
				}
				defer f.Close()
				o := opts
				o.FileName = path
				s, e := relicx.VerifyWith(mod, f, o)
				sigs = len(s)
				return e
			})
			if err == nil && sigs > 0 {
				run.Outcome("relic-verify-type-detection-failed:" + c.Fmt + ":" + short(first))
				tally("cases:"+c.Fmt, "type mis/undetected by `relic verify` (module verifier used instead)", 1)
			}
		}
	}
	if err != nil || sigs == 0 {
		msg := "no signature found"
		if err != nil {
			msg = short(err)
		}
		run.Outcome("precondition-failed:relic-rejects-own-output:" + c.Fmt + ":" + msg)
		tally("cases:"+c.Fmt, "relic-rejects-own-output(C01 matter)", 1)
		fam := "*"
		if i := strings.IndexAny(c.Shape, ":/"); i > 0 {
			fam = c.Shape[:i]
		}
		tally("precondition_failures", c.Fmt+"["+fam+"] flags="+c.flagKey()+": "+msg, 1)
		// relic's own verdict is C01's matter; the independent verifier still
		// decides this property, so the case goes on to the outside oracle
		return true
	}
	tally("cases:"+c.Fmt, "relic-verified", 1)
	if c.Key == "p256A" || c.TS || len(c.Flags) > 0 {
		run.Sample(map[string]any{"case": c.String(), "signed_by": "relic standalone pipeline", "relic_verify": "accepted"})
	}
	return true
}

// ---- Python reference (one process) ------------------------------------------------------

type pyRef struct {
	mu    sync.Mutex
	cmd   *exec.Cmd
	in    *bufio.Writer
	out   *bufio.Reader
	calls int64
}

func startPy() *pyRef {
	cmd := exec.Command("/usr/bin/python3", "-S", "/verif/ref/py/c05ref.py")
	cmd.Stderr = os.Stderr
	in, err := cmd.StdinPipe()
	if err != nil {
		fatal("%v", err)
	}
	out, err := cmd.StdoutPipe()
	if err != nil {
		fatal("%v", err)
	}
	if err := cmd.Start(); err != nil {
		fatal("cannot start the Python reference: %v", err)
	}
	p := &pyRef{cmd: cmd, in: bufio.NewWriterSize(in, 1<<16), out: bufio.NewReaderSize(out, 1<<20)}
	r := p.call(map[string]any{"op": "ping"})
	if r["pong"] != true {
		fatal("Python reference does not answer")
	}
	return p
}

func (p *pyRef) call(req map[string]any) map[string]any {
	blob, _ := json.Marshal(req)
	p.mu.Lock()
	defer p.mu.Unlock()
	p.calls++
	p.in.Write(blob)
	p.in.WriteByte('\n')
	if err := p.in.Flush(); err != nil {
		fatal("Python reference died: %v", err)
	}
	line, err := p.out.ReadBytes('\n')
	if err != nil {
		fatal("Python reference died: %v", err)
	}
	var res map[string]any
	dec := json.NewDecoder(bytes.NewReader(line))
	dec.UseNumber()
	if err := dec.Decode(&res); err != nil {
		fatal("Python reference: bad answer %q", line)
	}
	return res
}

func (p *pyRef) close() {
	p.cmd.Process.Kill()
	p.cmd.Wait()
}

func jstr(m map[string]any, k string) string {
	s, _ := m[k].(string)
	return s
}

func jint(m map[string]any, k string) int64 {
	switch v := m[k].(type) {
	case json.Number:
		n, _ := v.Int64()
		return n
	case float64:
		return int64(v)
	}
	return -1
}

func jmap(m map[string]any, k string) map[string]any {
	v, _ := m[k].(map[string]any)
	return v
}

func jlist(m map[string]any, k string) []any {
	v, _ := m[k].([]any)
	return v
}

func jbool(m map[string]any, k string) bool {
	v, _ := m[k].(bool)
	return v
}

func unhex(s string) []byte {
	b, err := hex.DecodeString(s)
	if err != nil {
		fatal("bad hex from reference")
	}
	return b
}

// ---- JVM pool ------------------------------------------------------------------------------

type jvm struct {
	mu    sync.Mutex
	cmd   *exec.Cmd
	in    *bufio.Writer
	inRaw io.WriteCloser
	out   *bufio.Reader
}

const javaClassDir = "/verif/.build/java-c05"

var (
	jvms     []*jvm
	jvmNext  int64
	jvmCalls int64
)

func startJVM() (*jvm, error) {
	cmd := exec.Command("java", "-Xss4m", "-Xmx512m", "-XX:+UseSerialGC", "-Djava.security.properties="+javaClassDir+"/relax.security",
		"--add-exports", "java.xml.crypto/com.sun.org.apache.xml.internal.security.c14n=ALL-UNNAMED",
		"--add-exports", "java.xml.crypto/com.sun.org.apache.xml.internal.security=ALL-UNNAMED",
		"-cp", javaClassDir, "C05Ref")
	cmd.Stderr = os.Stderr
	in, err := cmd.StdinPipe()
	if err != nil {
		return nil, err
	}
	out, err := cmd.StdoutPipe()
	if err != nil {
		return nil, err
	}
	if err := cmd.Start(); err != nil {
		return nil, err
	}
	j := &jvm{cmd: cmd, in: bufio.NewWriterSize(in, 1<<20), inRaw: in, out: bufio.NewReaderSize(out, 1<<20)}
	if r := j.call("PING"); r != "OK pong" {
		return nil, fmt.Errorf("reference JVM did not answer: %q", r)
	}
	return j, nil
}

func (j *jvm) call(req string) string {
	j.mu.Lock()
	defer j.mu.Unlock()
	atomic.AddInt64(&jvmCalls, 1)
	j.in.WriteString(req + "\n")
	if err := j.in.Flush(); err != nil {
		fatal("reference JVM died: %v", err)
	}
	line, err := j.out.ReadString('\n')
	if err != nil {
		fatal("reference JVM died: %v", err)
	}
	return strings.TrimRight(line, "\n")
}

func startJVMs(n int) {
	jvms = make([]*jvm, n)
	errs := make([]error, n)
	var wg sync.WaitGroup
	for i := 0; i < n; i++ {
		wg.Add(1)
		go func(i int) {
			defer wg.Done()
			jvms[i], errs[i] = startJVM()
		}(i)
	}
	wg.Wait()
	for _, e := range errs {
		if e != nil {
			fatal("cannot start reference JVMs (was cmd/c05/pre.sh run?): %v", e)
		}
	}
}

func java(req string) string {
	i := int(atomic.AddInt64(&jvmNext, 1)) % len(jvms)
	return jvms[i].call(req)
}

func closeJVMs() {
	for _, j := range jvms {
		if j != nil {
			j.inRaw.Close()
			j.cmd.Wait()
		}
	}
}

func b64(b []byte) string {
	if len(b) == 0 {
		return "-"
	}
	return base64.StdEncoding.EncodeToString(b)
}

// ---- external tools ---------------------------------------------------------------------------

var toolCalls sync.Map // name -> *int64

func countTool(name string) {
	v, _ := toolCalls.LoadOrStore(name, new(int64))
	atomic.AddInt64(v.(*int64), 1)
}

func firstLines(b []byte, n int) string {
	ls := strings.Split(strings.TrimSpace(string(b)), "\n")
	if len(ls) > n {
		ls = ls[:n]
	}
	return strings.Join(ls, " | ")
}

func openssl(args ...string) ([]byte, error) {
	countTool("openssl " + args[0])
	cmd := exec.Command("openssl", args...)
	cmd.Env = append(os.Environ(), "OPENSSL_CONF=/dev/null")
	out, err := cmd.CombinedOutput()
	if err != nil {
		return out, fmt.Errorf("openssl %s: %v: %s", args[0], err, firstLines(out, 3))
	}
	return out, nil
}

var (
	poolPEM    string                // every fixture certificate, for -certfile
	leafPubPEM = map[string]string{} // key -> path of the leaf public key (PEM), made by openssl itself
	pgpKeyring = map[string]string{} // key -> dearmored public key file
	gpgHome    string
)

func setupTools() {
	poolPEM = filepath.Join(tmp, "pool.pem")
	var all []byte
	for _, n := range []string{"rsaA.leaf.crt", "rsaB.leaf.crt", "p256A.leaf.crt", "p256B.leaf.crt", "p384.leaf.crt", "p521.leaf.crt", "inter.crt", "root.crt"} {
		b, err := os.ReadFile(filepath.Join(relicx.KeyDir, n))
		if err != nil {
			fatal("%v", err)
		}
		all = append(all, b...)
	}
	os.WriteFile(poolPEM, all, 0o600)
	for k := range relicx.BundleKeys {
		defer func(k string) { leafPubPEM[k] = leafPubPEM["rsaA"] }(k)
	}
	for _, k := range relicx.X509Keys {
		p := filepath.Join(tmp, k+".pub.pem")
		if _, err := openssl("x509", "-in", filepath.Join(relicx.KeyDir, k+".leaf.crt"), "-pubkey", "-noout", "-out", p); err != nil {
			fatal("%v", err)
		}
		leafPubPEM[k] = p
	}
	gpgHome = filepath.Join(tmp, "gnupg")
	os.MkdirAll(gpgHome, 0o700)
	for _, k := range relicx.PGPKeys {
		blob, err := os.ReadFile(filepath.Join(relicx.KeyDir, k+".pgp"))
		if err != nil {
			fatal("%v", err)
		}
		bin, err := dearmor(blob)
		if err != nil {
			fatal("fixture %s.pgp: %v", k, err)
		}
		p := filepath.Join(tmp, k+".keyring.gpg")
		os.WriteFile(p, bin, 0o600)
		pgpKeyring[k] = p
	}
}

// dearmor: RFC 4880 6.2 with the standard library only.
func dearmor(blob []byte) ([]byte, error) {
	if len(blob) > 0 && blob[0] != '-' {
		return blob, nil
	}
	lines := strings.Split(strings.ReplaceAll(string(blob), "\r\n", "\n"), "\n")
	var body strings.Builder
	state := 0
	for _, l := range lines {
		switch state {
		case 0:
			if strings.HasPrefix(l, "-----BEGIN PGP") {
				state = 1
			}
		case 1: // armor headers until the blank line
			if strings.TrimSpace(l) == "" {
				state = 2
			} else if !strings.Contains(l, ": ") {
				// no header section at all
				state = 2
				body.WriteString(strings.TrimSpace(l))
			}
		case 2:
			if strings.HasPrefix(l, "=") || strings.HasPrefix(l, "-----END") {
				state = 3
			} else {
				body.WriteString(strings.TrimSpace(l))
			}
		}
	}
	if state != 3 {
		return nil, fmt.Errorf("not an armored block")
	}
	return base64.StdEncoding.DecodeString(body.String())
}

// gpgv runs GnuPG's verifier. args: [sigfile, datafile] or [signed-message].
// Returns the plaintext written with --output (when wantOut) and the status text.
func gpgv(key string, wantOut bool, files ...string) (ok bool, plain []byte, status string) {
	countTool("gpgv")
	args := []string{"--homedir", gpgHome, "--keyring", pgpKeyring[key], "--status-fd", "1"}
	var outPath string
	if wantOut {
		outPath = filepath.Join(tmp, fmt.Sprintf("gpgv-out-%d", atomic.AddInt64(&seq, 1)))
		args = append(args, "--output", outPath)
		defer os.Remove(outPath)
	}
	args = append(args, files...)
	cmd := exec.Command("gpgv", args...)
	var so, se bytes.Buffer
	cmd.Stdout = &so
	cmd.Stderr = &se
	err := cmd.Run()
	status = so.String()
	good := strings.Contains(status, "[GNUPG:] GOODSIG") && strings.Contains(status, "[GNUPG:] VALIDSIG")
	if wantOut {
		plain, _ = os.ReadFile(outPath)
	}
	if err != nil || !good {
		return false, plain, firstLines(append(so.Bytes(), se.Bytes()...), 6)
	}
	return true, plain, status
}

// validsigHash extracts the hash algorithm number of the VALIDSIG status line.
func validsigHash(status string) string {
	for _, l := range strings.Split(status, "\n") {
		if strings.HasPrefix(l, "[GNUPG:] VALIDSIG ") {
			f := strings.Fields(l)
			// VALIDSIG fpr date ts expire version reserved pubkey-algo hash-algo sig-class primary-fpr
			if len(f) >= 10 {
				switch f[9] {
				case "2":
					return "sha1"
				case "8":
					return "sha256"
				case "9":
					return "sha384"
				case "10":
					return "sha512"
				case "11":
					return "sha224"
				case "1":
					return "md5"
				}
				return "alg" + f[9]
			}
		}
	}
	return ""
}

func validsigClass(status string) string {
	for _, l := range strings.Split(status, "\n") {
		if strings.HasPrefix(l, "[GNUPG:] VALIDSIG ") {
			f := strings.Fields(l)
			if len(f) >= 11 {
				return f[10]
			}
		}
	}
	return ""
}

// ---- loopback RFC 3161 authority backed by `openssl ts -reply` -----------------------------------

type osslTSA struct {
	dir, conf string
	mu        sync.Mutex
	issued    int64
}

func newOsslTSA() *osslTSA {
	dir := filepath.Join(tmp, "tsa")
	os.MkdirAll(dir, 0o700)
	k := relicx.KeyDir
	var sb strings.Builder
	fmt.Fprintf(&sb, "[tsa]\ndefault_tsa = tsa1\n[tsa1]\ndir = %s\nserial = %s/serial\ncrypto_device = builtin\n", dir, dir)
	fmt.Fprintf(&sb, "signer_cert = %s/tsa.crt\nsigner_key = %s/tsa.key\nsigner_digest = sha256\ncerts = %s/tsa.chain.crt\n", k, k, k)
	fmt.Fprintf(&sb, "default_policy = 1.2.3.4.1\ndigests = sha1, sha256, sha384, sha512\n")
	fmt.Fprintf(&sb, "accuracy = secs:1\nordering = yes\ntsa_name = yes\ness_cert_id_chain = no\ness_cert_id_alg = sha256\n")
	conf := filepath.Join(dir, "tsa.cnf")
	os.WriteFile(conf, []byte(sb.String()), 0o600)
	os.WriteFile(filepath.Join(dir, "serial"), []byte("0A\n"), 0o600)
	return &osslTSA{dir: dir, conf: conf}
}

func (t *osslTSA) reply(query []byte) ([]byte, error) {
	t.mu.Lock()
	defer t.mu.Unlock()
	q := filepath.Join(t.dir, "q.tsq")
	r := filepath.Join(t.dir, "r.tsr")
	os.Remove(r)
	if err := os.WriteFile(q, query, 0o600); err != nil {
		return nil, err
	}
	countTool("openssl ts -reply")
	cmd := exec.Command("openssl", "ts", "-reply", "-config", t.conf, "-queryfile", q, "-out", r)
	if out, err := cmd.CombinedOutput(); err != nil {
		return nil, fmt.Errorf("openssl ts -reply: %v: %s", err, firstLines(out, 3))
	}
	t.issued++
	return os.ReadFile(r)
}

func startLoopbackTSA(t *osslTSA) *httptest.Server {
	return httptest.NewServer(http.HandlerFunc(func(w http.ResponseWriter, r *http.Request) {
		body, _ := io.ReadAll(r.Body)
		resp, err := t.reply(body)
		if err != nil {
			http.Error(w, err.Error(), 500)
			return
		}
		w.Header().Set("Content-Type", "application/timestamp-reply")
		w.Write(resp)
	}))
}

// opensslTSVerify: `openssl ts -verify -token_in -digest H(stamped)`; the digest
// algorithm is the one named in the token's message imprint (read with the
// independent walker), the digest itself is computed here from the stamped bytes.
func opensslTSVerify(token, stamped []byte) error {
	l, err := dergen.Locate(token)
	if err != nil {
		return fmt.Errorf("token is not a CMS SignedData: %v", err)
	}
	info, err := l.TSTInfo()
	if err != nil {
		return err
	}
	h, ok := dergen.HashByOID[info.ImprintOID]
	if !ok {
		return fmt.Errorf("imprint algorithm %s unknown", info.ImprintOID)
	}
	t := filepath.Join(tmp, fmt.Sprintf("tok-%d", atomic.AddInt64(&seq, 1)))
	defer os.Remove(t)
	os.WriteFile(t, token, 0o600)
	_, err = openssl("ts", "-verify", "-digest", hex.EncodeToString(dergen.Digest(h, stamped)), "-in", t, "-token_in",
		"-CAfile", filepath.Join(relicx.KeyDir, "root.crt"), "-untrusted", filepath.Join(relicx.KeyDir, "tsa.chain.crt"))
	return err
}

// ---- CMS checks shared by every CMS-based format --------------------------------------------------

type cmsOpts struct {
	content     []byte // external content for detached signatures (nil: use eContent)
	opensslCMS  bool   // also run `openssl cms -verify` (only meaningful for id-data content)
	opensslDgst bool   // also run `openssl dgst -verify` over the re-tagged signedAttrs
	wantTS      bool
}

// checkCMS judges one emitted PKCS#7 blob: signature over the signedAttrs as
// emitted (re-tagged SET OF) under the configured leaf key, messageDigest =
// digest of the content, signer certificate = configured leaf, digest algorithm
// = the requested one; optionally OpenSSL; the embedded RFC 3161 token.
// Returns the located structure (nil when it cannot be walked).
func checkCMS(c sigCase, what string, der []byte, o cmsOpts) *dergen.CMS {
	f := c.Fmt
	l, err := dergen.Locate(der)
	if err != nil {
		oracle(f, "der-walker", false)
		violation(f+":cms-not-der:"+what, fmt.Sprintf("%s: %s: emitted PKCS#7 is not walkable definite-length DER: %v", c, what, err), c.replay(map[string]any{"cms_hex": hex.EncodeToString(der)}))
		return nil
	}
	oracle(f, "der-walker", true)
	if len(l.Signers) != 1 {
		violation(f+":cms-signer-count:"+what, fmt.Sprintf("%s: %s: %d SignerInfos", c, what, len(l.Signers)), c.replay(nil))
		return l
	}
	si := l.Signers[0]
	leaf := fx.Keys[c.Key].Leaf
	content := o.content
	if l.HasEContent {
		content = l.EContentBody.Of(der)
	}
	// (1) signature + messageDigest with Go's crypto on the walker's byte ranges
	err = dergen.VerifySigner(der, si, content, []*x509.Certificate{leaf})
	if err != nil {
		oracle(f, "cms-signature(go-crypto on emitted signedAttrs)", false)
		kind := "signature-invalid"
		if strings.Contains(err.Error(), "messageDigest") {
			kind = "message-digest-differs"
		} else if err == dergen.ErrNoCert {
			kind = "signer-is-not-configured-leaf"
		}
		violation(f+":cms-"+kind+":"+what+":"+keyType(c.Key), fmt.Sprintf("%s: %s: %v", c, what, err), c.replay(map[string]any{"cms_hex": hex.EncodeToString(der)}))
	} else {
		oracle(f, "cms-signature(go-crypto on emitted signedAttrs)", true)
	}
	// the leaf must be among the embedded certificates unless detached on purpose
	if got := hashNameByOID[si.DigestOID]; got != c.Hash {
		violation(f+":cms-digest-algorithm-not-requested:"+what, fmt.Sprintf("%s: %s: SignerInfo digest %s, requested %s", c, what, got, c.Hash), c.replay(nil))
	}
	// (2) OpenSSL
	if o.opensslDgst && si.HasSigned {
		enc := si.SignedAttrs.Of(der)
		tbs := append([]byte{0x31}, enc[1:]...)
		d := scratchDir("dgst")
		os.WriteFile(filepath.Join(d, "tbs"), tbs, 0o600)
		os.WriteFile(filepath.Join(d, "sig"), si.Signature.Of(der), 0o600)
		_, err := openssl("dgst", "-"+c.Hash, "-verify", leafPubPEM[c.Key], "-signature", filepath.Join(d, "sig"), filepath.Join(d, "tbs"))
		os.RemoveAll(d)
		oracle(f, "openssl dgst -verify (signedAttrs)", err == nil)
		if err != nil {
			violation(f+":openssl-dgst-rejects:"+what+":"+keyType(c.Key), fmt.Sprintf("%s: %s: %v", c, what, err), c.replay(map[string]any{"cms_hex": hex.EncodeToString(der)}))
		}
	}
	if o.opensslCMS {
		if l.HasEContent && l.EContentTag != 4 {
			tally("oracle:openssl cms -verify", f+":not-applicable(eContent is not an OCTET STRING)", 1)
		} else {
			d := scratchDir("cms")
			os.WriteFile(filepath.Join(d, "p7"), der, 0o600)
			args := []string{"cms", "-verify", "-binary", "-noverify", "-inform", "DER", "-in", filepath.Join(d, "p7"), "-out", os.DevNull, "-certfile", poolPEM}
			if !l.HasEContent {
				os.WriteFile(filepath.Join(d, "content"), o.content, 0o600)
				args = append(args, "-content", filepath.Join(d, "content"))
			}
			_, err := openssl(args...)
			oracle(f, "openssl cms -verify", err == nil)
			if err != nil {
				violation(f+":openssl-cms-rejects:"+what+":"+keyType(c.Key), fmt.Sprintf("%s: %s: %v", c, what, err), c.replay(map[string]any{"cms_hex": hex.EncodeToString(der)}))
			} else {
				// the relying party's view: only the root is known in advance, the
				// path to it is built from the certificates the signature carries
				// (the configured certificate file holds a complete path)
				args2 := []string{"cms", "-verify", "-binary", "-purpose", "any", "-no_check_time", "-CAfile", filepath.Join(relicx.KeyDir, "root.crt"), "-inform", "DER", "-in", filepath.Join(d, "p7"), "-out", os.DevNull}
				if !l.HasEContent {
					args2 = append(args2, "-content", filepath.Join(d, "content"))
				}
				_, err := openssl(args2...)
				oracle(f, "openssl cms -verify with chain validation from the embedded certificates to the root", err == nil)
				if err != nil {
					violation(f+":openssl-cms-chain-rejects:"+what+":"+keyType(c.Key), fmt.Sprintf("%s: %s: %v", c, what, err), c.replay(map[string]any{"cms_hex": hex.EncodeToString(der)}))
				}
			}
			os.RemoveAll(d)
		}
	}
	// (3) RFC 3161 token
	if o.wantTS {
		checkTokens(c, what, l)
	}
	return l
}

func checkTokens(c sigCase, what string, l *dergen.CMS) {
	f := c.Fmt
	n := 0
	for _, ft := range l.AllTokens() {
		if ft.Ref.Layout.EContentType != dergen.OIDTSTInfo {
			continue
		}
		n++
		tok := ft.Ref.Value.Of(l.B)
		err := opensslTSVerify(tok, ft.Over.Of(l.B))
		oracle(f, "openssl ts -verify (embedded token over signature value)", err == nil)
		if err != nil {
			violation(f+":openssl-ts-rejects:"+what, fmt.Sprintf("%s: %s: %s: %v", c, what, ft.Path, err), c.replay(map[string]any{"token_hex": hex.EncodeToString(tok), "stamped_hex": hex.EncodeToString(ft.Over.Of(l.B))}))
		}
	}
	if n == 0 {
		violation(f+":timestamp-requested-none-embedded:"+what, fmt.Sprintf("%s: %s: key has timestamp: true, no RFC 3161 token in the unsigned attributes", c, what), c.replay(nil))
	}
}

func keyType(k string) string {
	if strings.HasPrefix(k, "rsa") {
		return "rsa"
	}
	return "ecdsa"
}

// spcIndirect extracts (digest algorithm name, digest, raw SpcAttributeTypeAndOptionalValue)
// from an Authenticode SpcIndirectDataContent eContent with the generic walker.
type spc struct {
	alg    string
	digest []byte
	data   []byte // the SpcAttributeTypeAndOptionalValue TLV
	typ    string
}

func spcIndirect(l *dergen.CMS) (*spc, error) {
	if l.EContentType != dergen.OIDSpcIndirect || !l.HasEContent {
		return nil, fmt.Errorf("eContentType %s is not SpcIndirectDataContent", l.EContentType)
	}
	b := l.EContent.Of(l.B)
	n, err := dergen.Parse(b)
	if err != nil {
		return nil, err
	}
	if !n.Is(0, 16) || len(n.Kids) != 2 || len(n.Kids[0].Kids) < 1 || len(n.Kids[1].Kids) != 2 || len(n.Kids[1].Kids[0].Kids) < 1 {
		return nil, fmt.Errorf("SpcIndirectDataContent: unexpected shape")
	}
	di := n.Kids[1]
	s := &spc{data: n.Kids[0].Range().Of(b)}
	s.typ = dergen.OIDString(n.Kids[0].Kids[0].Content().Of(b))
	oid := dergen.OIDString(di.Kids[0].Kids[0].Content().Of(b))
	s.alg = hashNameByOID[oid]
	if s.alg == "" {
		return nil, fmt.Errorf("DigestInfo algorithm %s unknown", oid)
	}
	s.digest = di.Kids[1].Content().Of(b)
	return s, nil
}

func leafPub(key string) crypto.PublicKey { return fx.Keys[key].Leaf.PublicKey }

func mustRead(p string) []byte {
	b, err := os.ReadFile(p)
	if err != nil {
		fatal("%v", err)
	}
	return b
}

func fixture(name string) []byte { return mustRead(filepath.Join(relicx.Packages, name)) }

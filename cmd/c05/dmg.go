package main

// UDIF disk images: the signature is found through the koly trailer (code
// signature offset at byte 296, length at byte 304 of the last 512 bytes), the
// CodeDirectory has one code slot over everything in front of the signature
// (pageSize 0 = the whole image is one page) and seals the trailer in special
// slot 6 (the trailer as written, with the signature length field zero).

import (
	"bytes"
	"encoding/binary"
	"fmt"
	"os"
	"path/filepath"

	"verif/gen/dmggen"
	"verif/gen/machogen"
)

const (
	kolyLen       = 512
	kolySigOffset = 296
	kolySigLength = 304
)

type kolyInfo struct {
	raw              []byte
	xmlOff, xmlLen   uint64
	sigOff, sigLen   uint64
	dataOff, dataLen uint64
}

func readKoly(b []byte) (*kolyInfo, error) {
	if len(b) < kolyLen {
		return nil, fmt.Errorf("shorter than a koly trailer")
	}
	t := b[len(b)-kolyLen:]
	if string(t[:4]) != "koly" {
		return nil, fmt.Errorf("trailer magic %q", t[:4])
	}
	if v, hs := binary.BigEndian.Uint32(t[4:]), binary.BigEndian.Uint32(t[8:]); v != 4 || hs != kolyLen {
		return nil, fmt.Errorf("trailer version %d, header size %d", v, hs)
	}
	u64 := func(o int) uint64 { return binary.BigEndian.Uint64(t[o:]) }
	return &kolyInfo{raw: t, dataOff: u64(24), dataLen: u64(32), xmlOff: u64(216), xmlLen: u64(224), sigOff: u64(kolySigOffset), sigLen: u64(kolySigLength)}, nil
}

// forHashing: the trailer with the signature length blanked (the length is not
// known when the directory is built; the offset is).
func (k *kolyInfo) forHashing() []byte {
	c := append([]byte(nil), k.raw...)
	for i := kolySigLength; i < kolySigLength+8; i++ {
		c[i] = 0
	}
	return c
}

func (k *kolyInfo) withoutSignatureFields() []byte {
	c := k.forHashing()
	for i := kolySigOffset; i < kolySigOffset+8; i++ {
		c[i] = 0
	}
	return c
}

func runDmgCase(c sigCase, input []byte, dgst bool) {
	dir := scratchDir("dmg")
	defer os.RemoveAll(dir)
	path := filepath.Join(dir, dmggen.FileName)
	os.WriteFile(path, input, 0o644)
	if !signedOK(c, signWithAux(c, "", path, "")) {
		return
	}
	relicAccepts(c, path, "")
	run.Distinct(c.String())
	data := mustRead(path)
	var pr csProblems
	func() {
		k, err := readKoly(data)
		if err != nil {
			pr.add("container-unreadable", "%v", err)
			return
		}
		body := uint64(len(data) - kolyLen)
		if k.sigLen == 0 || k.sigOff+k.sigLen < k.sigOff || k.sigOff+k.sigLen > body {
			pr.add("koly-code-signature:outside-file", "signature [%d,+%d) with the trailer at %d", k.sigOff, k.sigLen, body)
			return
		}
		if k.sigOff < k.xmlOff+k.xmlLen || k.sigOff < k.dataOff+k.dataLen {
			pr.add("koly-code-signature:overlaps-image-data", "signature at %d, data fork ends at %d, XML at %d", k.sigOff, k.dataOff+k.dataLen, k.xmlOff+k.xmlLen)
		}
		if k.sigOff+k.sigLen != body {
			run.Outcome("dmg:bytes-between-signature-and-trailer")
		}
		if k.sigOff != k.xmlOff+k.xmlLen {
			run.Outcome("dmg:signature-does-not-start-at-end-of-xml")
		}
		// nothing else in the trailer may move
		if in, err := readKoly(input); err == nil && !bytes.Equal(in.withoutSignatureFields(), k.withoutSignatureFields()) {
			pr.add("koly-field-changed", "a trailer field other than the code signature offset/length differs from the input's")
		}
		// the image in front of the signature is the input's
		if in, err := readKoly(input); err == nil {
			keep := in.xmlOff + in.xmlLen
			if in.sigOff != 0 && in.sigOff < keep {
				keep = in.sigOff
			}
			if keep > k.sigOff || !bytes.Equal(data[:keep], input[:keep]) {
				pr.add("image-bytes-changed", "the first %d bytes (data fork and XML) are not the input's", keep)
			}
		}
		slot := data[k.sigOff : k.sigOff+k.sigLen]
		r := checkAppleSignature(c, csContext{file: data, slot: slot, expectLimit: int64(k.sigOff),
			components: map[int][]byte{1: nil, 3: nil, 4: nil, 6: k.forHashing()}}, &pr, dgst)
		if len(r.dirs) == 0 {
			return
		}
		d := r.dirs[0]
		if d.pageLog != 0 || d.nCode != 1 {
			pr.add("code-slots-not-single-whole-image", "pageSize 2^%d with %d code slots: a disk image is sealed as one page", d.pageLog, d.nCode)
		}
		if want := auxOf(c, "requirements"); want != nil {
			if b := r.super.find(2); b == nil || !bytes.Equal(b.data, want) {
				pr.add("option:requirements-blob-differs", "the requirements blob is not the requirement set given")
			}
		}
		if id := c.Flags["bundle-id"]; id != "" && d.ident != id {
			pr.add("option:identifier-differs", "identifier %q, --bundle-id %q", d.ident, id)
		}
		if d.flags&0x2 != 0 {
			pr.add("option:adhoc-flag-on-a-cms-signature", "CodeDirectory flags %#x", d.flags)
		}
	}()
	reportCS(c, pr, csGroups)
}

func planDmg(thorough bool) {
	setupAux()
	shapes := buildShapes("dmg", dmggen.Shapes(thorough))
	mk := func(s builtShape, key, h string, fl map[string]string, ts bool) sigCase {
		return sigCase{Fmt: "dmg", Shape: s.Name, Class: []string{s.Class}, Key: key, Hash: h, Flags: fl, TS: ts}
	}
	opts := appleOptionSets("requirements", "bundle-id")
	keys := []string{"rsaA", "p256A"}
	digests := []string{"sha1", "sha256", "sha384"}
	canon := shapes[0]
	if canon.Class != "canonical" {
		fatal("dmggen: first shape is %s", canon.Name)
	}
	for _, s := range shapes {
		s := s
		ks, hs, sub := keys, []string{"sha256"}, "all shapes x {rsaA,p256A} x sha256 x {requirements} x {bundle-id}"
		if thorough {
			ks, hs, sub = append(keys, "p384"), digests, "all shapes x {rsaA,p256A,p384} x {sha1,sha256,sha384} x {requirements} x {bundle-id}"
		}
		for _, k := range ks {
			for _, h := range hs {
				for _, fl := range opts {
					c := mk(s, k, h, fl, false)
					plan("dmg", sub, func() { runDmgCase(c, s.data, false) })
				}
			}
		}
	}
	for _, k := range append(keys, "p384") {
		for _, h := range digests {
			for _, fl := range opts {
				c := mk(canon, k, h, fl, false)
				plan("dmg", "canonical shape x {rsaA,p256A,p384} x {sha1,sha256,sha384} x 4 option sets (+openssl dgst)", func() { runDmgCase(c, canon.data, true) })
			}
		}
	}
	for _, h := range []string{"sha512", "sha224"} {
		c := mk(canon, "rsaA", h, map[string]string{}, false)
		plan("dmg", "expected refusals (no cs_blobs.h hash type)", func() { runDmgCase(c, canon.data, false) })
	}
	for _, k := range keys {
		c := mk(canon, k, "sha256", map[string]string{"bundle-id": machogen.BundleID}, true)
		plan("dmg", "rfc3161", func() { runDmgCase(c, canon.data, true) })
	}
	for _, k := range bundleKeyNames() {
		c := mk(canon, k, "sha256", map[string]string{}, false)
		plan("dmg", "certificate-file shapes", func() { runDmgCase(c, canon.data, true) })
	}
	// a second signature over relic's own first one (the old one is replaced)
	for _, k := range keys {
		c := mk(canon, k, "sha256", map[string]string{"bundle-id": machogen.BundleID}, false)
		c.Shape += "/already-signed-by-rsaB"
		c.Class = []string{"already-signed"}
		plan("dmg", "already signed input", func() {
			dir := scratchDir("dmgpre")
			defer os.RemoveAll(dir)
			p := filepath.Join(dir, dmggen.FileName)
			os.WriteFile(p, canon.data, 0o644)
			pre := sigCase{Fmt: "dmg", Key: "rsaB", Hash: "sha256", Flags: map[string]string{"requirements": "aux/requirements.bin"}}
			if err := signWithAux(pre, "", p, ""); err != nil {
				run.Outcome("dmg:presign-failed:" + short(err))
				return
			}
			runDmgCase(c, mustRead(p), false)
		})
	}
}

package main

// Container image signatures: relic emits an OCI image manifest (artifact type
// application/vnd.dev.cosign.artifact.sig.v1+json) whose single layer carries,
// inline, a "simple signing" payload (containers-signature(5) JSON: critical.
// image.docker-manifest-digest, critical.type, optional) and, in annotations, the
// base64 signature over the payload bytes, the leaf certificate and the chain.
// Checked here with encoding/json and OpenSSL only: the digest named in the
// payload and in the subject descriptor is the digest of the manifest that was
// given; the layer descriptor describes the payload; `openssl dgst -verify` with
// the leaf's public key accepts the signature over the payload; the certificates
// chain to the root; the RFC 3161 token, when asked for, covers the signature.

import (
	"bytes"
	"encoding/base64"
	"encoding/hex"
	"encoding/json"
	"encoding/pem"
	"fmt"
	"os"
	"path/filepath"
	"strings"

	"verif/gen/dergen"
	"verif/gen/ocigen"
	"verif/relicx"
)

const cosignOptional = `{"env":"prod","n":1}`

func runCosignCase(c sigCase, input []byte) {
	dir := scratchDir("cosign")
	defer os.RemoveAll(dir)
	in, out := filepath.Join(dir, "manifest.json"), filepath.Join(dir, "manifest.json.sig.json")
	os.WriteFile(in, input, 0o644)
	if !signedOK(c, signWith(c, "cosign", in, out)) {
		return
	}
	tally("cases:"+c.Fmt, "relic has no verifier for this type (no precondition)", 1)
	run.Distinct(c.String())
	if c.Key == "p256A" || c.TS || len(c.Flags) > 0 {
		run.Sample(map[string]any{"case": c.String(), "signed_by": "relic standalone pipeline", "relic_verify": "not available for cosign"})
	}
	var pr csProblems
	func() {
		blob, err := os.ReadFile(out)
		if err != nil {
			pr.add("no-output", "%v", err)
			return
		}
		if !bytes.Equal(mustRead(in), input) {
			pr.add("input-manifest-modified", "the image manifest itself was rewritten")
		}
		var m struct {
			SchemaVersion int    `json:"schemaVersion"`
			MediaType     string `json:"mediaType"`
			ArtifactType  string `json:"artifactType"`
			Subject       *struct {
				MediaType string `json:"mediaType"`
				Digest    string `json:"digest"`
				Size      int64  `json:"size"`
			} `json:"subject"`
			Layers []struct {
				MediaType   string            `json:"mediaType"`
				Digest      string            `json:"digest"`
				Size        int64             `json:"size"`
				Data        []byte            `json:"data"`
				Annotations map[string]string `json:"annotations"`
			} `json:"layers"`
		}
		if err := json.Unmarshal(blob, &m); err != nil {
			pr.add("output-not-json", "%v", err)
			return
		}
		if m.SchemaVersion != 2 || m.MediaType != ocigen.OCIManifest || len(m.Layers) != 1 {
			pr.add("envelope:not-an-oci-manifest-with-one-layer", "schemaVersion %d mediaType %q layers %d", m.SchemaVersion, m.MediaType, len(m.Layers))
			return
		}
		h := hashOf(c.Hash)
		manifestDigest := c.Hash + ":" + hex.EncodeToString(dergen.Digest(h, input))
		var given struct {
			MediaType string `json:"mediaType"`
		}
		json.Unmarshal(input, &given)
		// ---- subject descriptor
		if m.Subject == nil {
			pr.add("subject:missing", "no subject descriptor")
		} else {
			if m.Subject.Digest != manifestDigest {
				pr.add("subject:digest-differs", "subject digest %s, the manifest given digests to %s", m.Subject.Digest, manifestDigest)
			}
			if m.Subject.Size != int64(len(input)) {
				pr.add("subject:size-differs", "subject size %d, the manifest given has %d bytes", m.Subject.Size, len(input))
			}
			if m.Subject.MediaType != given.MediaType {
				pr.add("subject:media-type-differs", "subject %q, manifest %q", m.Subject.MediaType, given.MediaType)
			}
		}
		// ---- payload
		l := m.Layers[0]
		payload := l.Data
		if l.MediaType != "application/vnd.dev.cosign.simplesigning.v1+json" {
			pr.add("layer:media-type", "%q", l.MediaType)
		}
		if want := c.Hash + ":" + hex.EncodeToString(dergen.Digest(h, payload)); l.Digest != want || l.Size != int64(len(payload)) {
			pr.add("layer:descriptor-does-not-describe-payload", "descriptor %s/%d, payload %s/%d", l.Digest, l.Size, want, len(payload))
		}
		var p struct {
			Critical struct {
				Image struct {
					Digest string `json:"docker-manifest-digest"`
				} `json:"image"`
				Type string `json:"type"`
			} `json:"critical"`
			Optional map[string]any `json:"optional"`
		}
		if err := json.Unmarshal(payload, &p); err != nil {
			pr.add("payload:not-json", "%v", err)
			return
		}
		ok := p.Critical.Image.Digest == manifestDigest
		oracle("cosign", "reference: payload names the digest of the manifest given", ok)
		if !ok {
			pr.add("payload:manifest-digest-differs", "payload names %s, the manifest given digests to %s", p.Critical.Image.Digest, manifestDigest)
		}
		if p.Critical.Type != "cosign container image signature" {
			pr.add("payload:type", "%q", p.Critical.Type)
		}
		if c.Flags["optional"] != "" {
			var want map[string]any
			json.Unmarshal([]byte(c.Flags["optional"]), &want)
			for k, v := range want {
				if fmt.Sprint(p.Optional[k]) != fmt.Sprint(v) {
					pr.add("payload:optional-member-lost", "optional.%s is %v, asked for %v", k, p.Optional[k], v)
				}
			}
		}
		// ---- signature over the payload bytes
		sig, err := base64.StdEncoding.DecodeString(l.Annotations["dev.cosignproject.cosign/signature"])
		if err != nil || len(sig) == 0 {
			pr.add("signature:annotation-missing-or-not-base64", "%v", err)
			return
		}
		d := scratchDir("cosig")
		defer os.RemoveAll(d)
		os.WriteFile(filepath.Join(d, "payload"), payload, 0o600)
		os.WriteFile(filepath.Join(d, "sig"), sig, 0o600)
		_, err = openssl("dgst", "-"+c.Hash, "-verify", leafPubPEM[c.Key], "-signature", filepath.Join(d, "sig"), filepath.Join(d, "payload"))
		oracle("cosign", "openssl dgst -verify (signature over the payload, leaf public key)", err == nil)
		if err != nil {
			pr.add("signature:openssl-dgst-rejects:"+keyType(c.Key)+":"+c.Hash, "%v", err)
		}
		// ---- certificates
		blk, _ := pem.Decode([]byte(l.Annotations["dev.sigstore.cosign/certificate"]))
		if blk == nil || !bytes.Equal(blk.Bytes, fx.Keys[c.Key].Leaf.Raw) {
			pr.add("certificate:annotation-is-not-the-leaf", "dev.sigstore.cosign/certificate does not hold the configured leaf certificate")
		} else {
			os.WriteFile(filepath.Join(d, "leaf.pem"), []byte(l.Annotations["dev.sigstore.cosign/certificate"]), 0o600)
			os.WriteFile(filepath.Join(d, "chain.pem"), []byte(l.Annotations["dev.sigstore.cosign/chain"]), 0o600)
			_, err := openssl("verify", "-no_check_time", "-purpose", "any", "-CAfile", filepath.Join(relicx.KeyDir, "root.crt"), "-untrusted", filepath.Join(d, "chain.pem"), filepath.Join(d, "leaf.pem"))
			oracle("cosign", "openssl verify: chain from the annotations to the root", err == nil)
			if err != nil {
				pr.add("certificate:chain-annotation-does-not-reach-root", "%v", err)
			}
		}
		// ---- RFC 3161
		ts := l.Annotations["dev.sigstore.cosign/rfc3161timestamp"]
		switch {
		case c.TS && ts == "":
			pr.add("timestamp-requested-none-attached", "key has timestamp: true, no rfc3161timestamp annotation")
		case ts != "":
			tok, err := base64.StdEncoding.DecodeString(ts)
			if err == nil {
				err = opensslTSVerify(tok, sig)
			}
			oracle("cosign", "openssl ts -verify (token over the signature bytes)", err == nil)
			if err != nil {
				pr.add("timestamp:openssl-ts-rejects", "%v", err)
			}
		}
	}()
	reportCS(c, pr, nil)
	bad := map[string]bool{}
	for _, p := range pr {
		bad[strings.SplitN(p.kind, ":", 2)[0]] = true
	}
	oracle("cosign", "reference: subject and layer descriptors describe the manifest given and the payload", !bad["subject"] && !bad["layer"] && !bad["envelope"] && !bad["output-not-json"] && !bad["no-output"])
}

func planCosign(thorough bool) {
	shapes := buildShapes("cosign", ocigen.Shapes(thorough))
	mk := func(s builtShape, key, h string, opt bool, ts bool) sigCase {
		c := sigCase{Fmt: "cosign", Shape: s.Name, Class: []string{s.Class}, Key: key, Hash: h, TS: ts}
		if opt {
			c.Flags = map[string]string{"optional": cosignOptional}
		}
		return c
	}
	keys := []string{"rsaA", "p256A"}
	sub := "all shapes x {rsaA,p256A} x sha256 x {optional}"
	if thorough {
		keys, sub = []string{"rsaA", "p256A", "p384"}, "all shapes x {rsaA,p256A,p384} x sha256 x {optional}"
	}
	canon := shapes[0]
	for _, s := range shapes {
		s := s
		for _, k := range keys {
			for _, opt := range []bool{false, true} {
				c := mk(s, k, "sha256", opt, false)
				plan("cosign", sub, func() { runCosignCase(c, s.data) })
			}
		}
	}
	if thorough {
		// the quick family (one shape per class) again with every key and digest
		for _, s := range buildShapes("cosign", ocigen.Shapes(false)) {
			s := s
			for _, k := range []string{"rsaA", "p256A", "p384", "p521"} {
				for _, h := range []string{"sha384", "sha512"} {
					for _, opt := range []bool{false, true} {
						c := mk(s, k, h, opt, false)
						plan("cosign", "one shape per class x {rsaA,p256A,p384,p521} x {sha384,sha512} x {optional}", func() { runCosignCase(c, s.data) })
					}
				}
			}
		}
	}
	if !thorough {
		for _, k := range []string{"rsaA", "p256A", "p384"} {
			for _, h := range []string{"sha256", "sha384", "sha512"} {
				c := mk(canon, k, h, true, false)
				plan("cosign", "canonical shape x {rsaA,p256A,p384} x {sha256,sha384,sha512}", func() { runCosignCase(c, canon.data) })
			}
		}
	}
	for _, h := range []string{"sha1", "sha224"} {
		c := mk(canon, "rsaA", h, false, false)
		plan("cosign", "expected refusals (digest algorithm not registered for OCI descriptors)", func() { runCosignCase(c, canon.data) })
	}
	for _, k := range []string{"rsaA", "p256A"} {
		c := mk(canon, k, "sha256", false, true)
		plan("cosign", "rfc3161", func() { runCosignCase(c, canon.data) })
	}
	for _, k := range bundleKeyNames() {
		c := mk(canon, k, "sha256", false, false)
		plan("cosign", "certificate-file shapes", func() { runCosignCase(c, canon.data) })
	}
}

package main

// The layer above daemon.Close: the REAL `relic serve` process (built by pre.sh from /repo's main
// package through the base overlay, no shims) and the signals its operator and its supervisor send
// it. "Shutting the server down lets in-flight requests finish" is a statement about that process:
// a stop signal is the only way a deployment shuts the server down.
//
// Alphabet: the signals the serve command registers for (read from the signal.Notify call in
// cmdline/servecmd - not hard-coded), classified by what they ask for: SIGTERM, SIGINT, SIGQUIT
// (POSIX termination requests) and SIGUSR2 (einhorn's graceful-stop signal to its workers) ask the
// server to stop; SIGUSR1 is what distro/linux/relic-einhorn's `reopenlogs` sends to a server that
// is meant to go on serving. Histories: every sequence of at most 2 (thorough 3) registered
// signals that contains no stop signal, or exactly one and that at its end (quick); thorough also
// those with two stop signals (the second one means "now": only the process's exit is required).
// Each history is delivered, in its own server process, while a /sign request is in flight: its
// headers are sent with Expect: 100-continue, the server's "100 Continue" proves that the handler
// has authenticated the caller and is reading the body, half the body is sent, then the signals,
// then the rest of the body.
//
// Oracle: the request is answered 200 with a signature that verifies over that request's body
// with its key and digest, the audit file has exactly that request's record, and - history with a
// stop signal - the process exits (not later than 60 s after the answer); - history without - the
// process goes on serving: a second request is answered, then a SIGTERM ends it.

import (
	"bufio"
	"crypto/ecdsa"
	"crypto/elliptic"
	"crypto/rand"
	"crypto/tls"
	"crypto/x509"
	"crypto/x509/pkix"
	"encoding/pem"
	"fmt"
	"go/ast"
	"go/parser"
	"go/token"
	"io"
	"math/big"
	"net"
	"net/http"
	"os"
	"os/exec"
	"path/filepath"
	"strconv"
	"strings"
	"syscall"
	"time"

	"verif/relicx"
	"verif/vlib"
)

const c14relicBin = "/verif/.build/bin/c14relic"

var sigByName = map[string]syscall.Signal{
	"SIGHUP": syscall.SIGHUP, "SIGINT": syscall.SIGINT, "SIGQUIT": syscall.SIGQUIT, "SIGTERM": syscall.SIGTERM,
	"SIGUSR1": syscall.SIGUSR1, "SIGUSR2": syscall.SIGUSR2,
}

// what a signal asks of the server (see the comment at the top)
var sigAsksToStop = map[string]bool{"SIGTERM": true, "SIGINT": true, "SIGQUIT": true, "SIGUSR2": true, "SIGUSR1": false}

// registeredSignals: the syscall.SIGxxx arguments of the signal.Notify calls in cmdline/servecmd's
// unix signal file (of the tree under test), in source order.
func registeredSignals() ([]string, error) {
	rel := "cmdline/servecmd/signals_unix.go"
	path := filepath.Join("/repo", rel)
	if m := os.Getenv("VERIF_MUTANT_DIR"); m != "" {
		if _, err := os.Stat(filepath.Join(m, rel)); err == nil {
			path = filepath.Join(m, rel)
		}
	}
	f, err := parser.ParseFile(token.NewFileSet(), path, nil, 0)
	if err != nil {
		return nil, err
	}
	var out []string
	seen := map[string]bool{}
	ast.Inspect(f, func(n ast.Node) bool {
		call, ok := n.(*ast.CallExpr)
		if !ok {
			return true
		}
		sel, ok := call.Fun.(*ast.SelectorExpr)
		if !ok || sel.Sel.Name != "Notify" {
			return true
		}
		if x, ok := sel.X.(*ast.Ident); !ok || x.Name != "signal" {
			return true
		}
		for _, a := range call.Args[1:] {
			if s, ok := a.(*ast.SelectorExpr); ok && strings.HasPrefix(s.Sel.Name, "SIG") && !seen[s.Sel.Name] {
				seen[s.Sel.Name] = true
				out = append(out, s.Sel.Name)
			}
		}
		return true
	})
	return out, nil
}

type sigHistory struct {
	Sigs  []string
	Stops int
}

func (h sigHistory) String() string { return "[" + strings.Join(h.Sigs, " ") + "]" }

func sigHistories(alpha []string, maxLen int, twoStops bool) []sigHistory {
	var out []sigHistory
	var rec func(cur []string, stops int)
	rec = func(cur []string, stops int) {
		if len(cur) > 0 {
			out = append(out, sigHistory{append([]string{}, cur...), stops})
		}
		if len(cur) == maxLen {
			return
		}
		for _, s := range alpha {
			ns := stops
			if sigAsksToStop[s] {
				ns++
			}
			// after the one stop signal nothing more is sent, unless the history is one of
			// those with two stop signals
			if stops >= 1 && !(twoStops && ns == 2 && sigAsksToStop[s]) {
				continue
			}
			if ns > 2 {
				continue
			}
			rec(append(cur, s), ns)
		}
	}
	rec(nil, 0)
	return out
}

func sigServerCert(dir string) (certPath, keyPath string, cert *x509.Certificate) {
	priv, err := ecdsa.GenerateKey(elliptic.P256(), rand.Reader)
	if err != nil {
		panic(err)
	}
	tmpl := &x509.Certificate{SerialNumber: big.NewInt(0xC14), Subject: pkix.Name{CommonName: "c14 relic server"},
		NotBefore: time.Now().Add(-time.Hour), NotAfter: time.Now().Add(48 * time.Hour),
		KeyUsage: x509.KeyUsageDigitalSignature | x509.KeyUsageCertSign, ExtKeyUsage: []x509.ExtKeyUsage{x509.ExtKeyUsageServerAuth},
		BasicConstraintsValid: true, IsCA: true, IPAddresses: []net.IP{net.ParseIP("127.0.0.1")}, DNSNames: []string{"localhost"}}
	der, err := x509.CreateCertificate(rand.Reader, tmpl, tmpl, &priv.PublicKey, priv)
	if err != nil {
		panic(err)
	}
	cert, _ = x509.ParseCertificate(der)
	keyDer, err := x509.MarshalPKCS8PrivateKey(priv)
	if err != nil {
		panic(err)
	}
	certPath, keyPath = filepath.Join(dir, "server.crt"), filepath.Join(dir, "server.key")
	if err := os.WriteFile(certPath, pem.EncodeToMemory(&pem.Block{Type: "CERTIFICATE", Bytes: der}), 0o644); err != nil {
		panic(err)
	}
	if err := os.WriteFile(keyPath, pem.EncodeToMemory(&pem.Block{Type: "PRIVATE KEY", Bytes: keyDer}), 0o600); err != nil {
		panic(err)
	}
	return
}

// real-time caps; none is reached by a tree that works
const (
	sigStartCap  = 120 * time.Second
	sigAnswerCap = 120 * time.Second
	sigExitCap   = 60 * time.Second
)

type sigServer struct {
	cmd    *exec.Cmd
	exited chan struct{}
	state  *os.ProcessState
	addr   string
	audit  string
	tlsc   *tls.Config
	log    string
}

func (s *sigServer) running() bool {
	select {
	case <-s.exited:
		return false
	default:
		return true
	}
}

func (s *sigServer) kill() {
	if s.running() {
		s.cmd.Process.Kill()
		<-s.exited
	}
}

func startSigServer(root string) (*sigServer, string) {
	os.MkdirAll(filepath.Join(root, "tmp"), 0o755)
	certPath, keyPath, cert := sigServerCert(root)
	pool := x509.NewCertPool()
	pool.AddCert(cert)
	k := relicx.KeyDir
	clientCert, err := tls.LoadX509KeyPair(k+"/rsaB.leaf.crt", k+"/rsaB.key")
	if err != nil {
		panic(err)
	}
	s := &sigServer{audit: filepath.Join(root, "audit.log"), log: filepath.Join(root, "server.log"),
		tlsc: &tls.Config{RootCAs: pool, ServerName: "127.0.0.1", Certificates: []tls.Certificate{clientCert}, NextProtos: []string{"http/1.1"}}}
	why := ""
	for attempt := 0; attempt < 3; attempt++ {
		l, err := net.Listen("tcp", "127.0.0.1:0")
		if err != nil {
			panic(err)
		}
		port := l.Addr().(*net.TCPAddr).Port
		l.Close()
		conf := fmt.Sprintf(`tokens:
  tok:
    type: file
    pin: ""
keys:
  rsaA:
    token: tok
    keyfile: %[1]s/rsaA.key
    x509certificate: %[1]s/rsaA.chain.crt
    roles: [r]
server:
  listen: 127.0.0.1:%[2]d
  keyfile: %[3]s
  certfile: %[4]s
clients:
  %[5]s:
    nickname: verif-client
    roles: [r]
auditfile: %[6]s
`, k, port, keyPath, certPath, fingerprintOf(relicx.LeafOf("rsaB")), s.audit)
		if err := os.WriteFile(filepath.Join(root, "server.yml"), []byte(conf), 0o644); err != nil {
			panic(err)
		}
		logf, err := os.Create(s.log)
		if err != nil {
			panic(err)
		}
		cmd := exec.Command(c14relicBin, "serve", "-c", filepath.Join(root, "server.yml"))
		cmd.Env = []string{"PATH=/usr/bin:/bin", "HOME=" + root, "TMPDIR=" + filepath.Join(root, "tmp")}
		cmd.Dir = root
		cmd.Stdout, cmd.Stderr = logf, logf
		cmd.SysProcAttr = &syscall.SysProcAttr{Pdeathsig: syscall.SIGKILL}
		if err := cmd.Start(); err != nil {
			panic(err)
		}
		logf.Close()
		s.cmd, s.exited = cmd, make(chan struct{})
		go func(c *exec.Cmd, ch chan struct{}) { c.Wait(); s.state = c.ProcessState; close(ch) }(cmd, s.exited)
		s.addr = fmt.Sprintf("127.0.0.1:%d", port)
		deadline := time.Now().Add(sigStartCap)
		for time.Now().Before(deadline) && s.running() {
			conn, err := tls.DialWithDialer(&net.Dialer{Timeout: 2 * time.Second}, "tcp", s.addr, s.tlsc)
			if err == nil {
				conn.Close()
				return s, ""
			}
			time.Sleep(100 * time.Millisecond)
		}
		s.kill()
		logb, _ := os.ReadFile(s.log)
		why = strings.Join(strings.Fields(string(logb)), " ")
		if len(why) > 300 {
			why = why[len(why)-300:]
		}
	}
	return nil, why
}

// pending: the signal is still waiting to be taken by the process (Linux: SigPnd/ShdPnd)
func sigPending(pid int, sig syscall.Signal) bool {
	blob, err := os.ReadFile(fmt.Sprintf("/proc/%d/status", pid))
	if err != nil {
		return false
	}
	for _, l := range strings.Split(string(blob), "\n") {
		if strings.HasPrefix(l, "SigPnd:") || strings.HasPrefix(l, "ShdPnd:") {
			v, _ := strconv.ParseUint(strings.TrimSpace(l[7:]), 16, 64)
			if v&(1<<(uint(sig)-1)) != 0 {
				return true
			}
		}
	}
	return false
}

type sigOutcome struct {
	problems []string // "key: text"
	capped   []string
	class    string
}

// signRoundTrip sends a /sign request on a fresh connection; between the server's "100 Continue"
// + the first half of the body and the second half it calls during().
func (s *sigServer) signRoundTrip(o op, during func()) (status int, respBody []byte, err error) {
	conn, err := tls.DialWithDialer(&net.Dialer{Timeout: 30 * time.Second}, "tcp", s.addr, s.tlsc)
	if err != nil {
		return 0, nil, fmt.Errorf("connect: %w", err)
	}
	defer conn.Close()
	conn.SetDeadline(time.Now().Add(sigAnswerCap))
	payload := body(o)
	fmt.Fprintf(conn, "POST %s HTTP/1.1\r\nHost: %s\r\nContent-Length: %d\r\nContent-Type: application/octet-stream\r\nExpect: 100-continue\r\nConnection: close\r\n\r\n", o.request().URL.RequestURI(), s.addr, len(payload))
	br := bufio.NewReader(conn)
	resp, err := http.ReadResponse(br, nil)
	if err != nil {
		return 0, nil, fmt.Errorf("before the body was asked for: %w", err)
	}
	if resp.StatusCode != 100 {
		b, _ := io.ReadAll(resp.Body)
		return resp.StatusCode, b, fmt.Errorf("the server answered %d before reading the body", resp.StatusCode)
	}
	half := len(payload) / 2
	if _, err := conn.Write(payload[:half]); err != nil {
		return 0, nil, fmt.Errorf("first half of the body: %w", err)
	}
	if during != nil {
		during()
	}
	if _, err := conn.Write(payload[half:]); err != nil {
		return 0, nil, fmt.Errorf("second half of the body: %w", err)
	}
	resp, err = http.ReadResponse(br, nil)
	if err != nil {
		return 0, nil, fmt.Errorf("response: %w", err)
	}
	b, err := io.ReadAll(resp.Body)
	if err != nil {
		return resp.StatusCode, b, fmt.Errorf("response body: %w", err)
	}
	return resp.StatusCode, b, nil
}

func isTimeout(err error) bool {
	var ne net.Error
	for e := err; e != nil; {
		if x, ok := e.(net.Error); ok {
			ne = x
			break
		}
		u, ok := e.(interface{ Unwrap() error })
		if !ok {
			break
		}
		e = u.Unwrap()
	}
	return ne != nil && ne.Timeout()
}

func runSigHistory(h sigHistory, scratchBase string) (res sigOutcome) {
	root, err := os.MkdirTemp(scratchBase, "c14sig-")
	if err != nil {
		panic(err)
	}
	defer os.RemoveAll(root)
	srv, why := startSigServer(root)
	if srv == nil {
		res.capped = append(res.capped, "`relic serve` did not come up within the cap: "+why)
		return
	}
	defer srv.kill()
	pid := srv.cmd.Process.Pid
	o := op{Kind: "sign", Name: "inflight-" + strings.ToLower(strings.Join(h.Sigs, "-")) + ".ps1", Key: "rsaA", Digest: "sha256"}
	status, respBody, err := srv.signRoundTrip(o, func() {
		for i, name := range h.Sigs {
			sig := sigByName[name]
			if !srv.running() {
				break
			}
			syscall.Kill(pid, sig)
			// let the process take this signal before the next one is sent (signals that are pending
			// together are not taken in the order they were sent). Not a verdict: whatever order the
			// process sees, a history with at most one stop signal asks for the same thing.
			for t := 0; t < 100 && sigPending(pid, sig); t++ {
				time.Sleep(20 * time.Millisecond)
			}
			if i < len(h.Sigs)-1 {
				time.Sleep(300 * time.Millisecond)
			}
		}
	})
	desc := fmt.Sprintf("`relic serve`, a /sign request in flight (headers sent, 100 Continue received, half the body sent), signals %s delivered, rest of the body sent", h)
	judge := func(o op, status int, respBody []byte, err error, what string) bool {
		switch {
		case err != nil && isTimeout(err):
			res.capped = append(res.capped, fmt.Sprintf("%s: %s not answered within %v: %v", desc, what, sigAnswerCap, err))
			return false
		case err != nil || status != 200:
			logb, _ := os.ReadFile(srv.log)
			tail := strings.Join(strings.Fields(string(logb)), " ")
			if len(tail) > 400 {
				tail = tail[len(tail)-400:]
			}
			res.problems = append(res.problems, fmt.Sprintf("signals:in-flight-request-not-finished: %s: %s got no 200 response: status %d, %v (%.100s); process still running: %v; server log ends: %s", desc, what, status, err, respBody, srv.running(), tail))
			return false
		}
		if why := checkSign(o, outcome{Op: o, Status: status, Body: respBody}); why != "" {
			res.problems = append(res.problems, fmt.Sprintf("signals:in-flight-response-wrong: %s: %s: %s", desc, what, why))
			return false
		}
		return true
	}
	want := []string{}
	auditLine := func(o op) string {
		return strings.ToLower(fmt.Sprintf("%s|%s|%s|%s|%s|%s", o.Name, o.Key, auditHash(o.Digest), "verif-client", "-", "127.0.0.1"))
	}
	if h.Stops >= 2 {
		// the second stop signal says "now": the request may or may not have been answered
		if err == nil && status == 200 {
			res.class = "answered"
		} else {
			res.class = "cut off"
		}
	} else if judge(o, status, respBody, err, "the in-flight request") {
		want = append(want, auditLine(o))
		res.class = "answered"
	}
	waitExit := func(what string) {
		select {
		case <-srv.exited:
		case <-time.After(sigExitCap):
			res.problems = append(res.problems, fmt.Sprintf("signals:process-still-running-after-stop-signal: %s: the process was still running %v after %s", desc, sigExitCap, what))
		}
	}
	if h.Stops == 0 {
		// nothing asked the server to stop: it goes on serving
		if !srv.running() {
			res.problems = append(res.problems, fmt.Sprintf("signals:server-stops-without-being-asked-to: %s: the process has exited (%v) although none of the signals asks the server to stop", desc, srv.state))
		} else if len(res.problems) == 0 && len(res.capped) == 0 {
			o2 := o
			o2.Name = "after-" + o.Name
			st2, b2, err2 := srv.signRoundTrip(o2, nil)
			if judge(o2, st2, b2, err2, "a request sent after the signals") {
				want = append(want, auditLine(o2))
			}
			syscall.Kill(pid, syscall.SIGTERM)
			waitExit("SIGTERM was sent to the idle server")
		}
	} else if len(res.capped) == 0 {
		waitExit("the last in-flight request was answered")
	}
	if h.Stops < 2 && len(res.capped) == 0 {
		blob, _ := os.ReadFile(srv.audit)
		got, torn := auditNames(blob)
		if torn > 0 || strings.Join(got, ";") != strings.Join(want, ";") {
			res.problems = append(res.problems, fmt.Sprintf("signals:audit-records-do-not-match-signatures: %s: audit file has %v (torn lines %d), signatures returned: %v", desc, got, torn, want))
		}
	}
	if !srv.running() && srv.state != nil {
		res.class += fmt.Sprintf(", process exit status %d", srv.state.ExitCode())
	}
	return
}

func signalPhase() {
	if _, err := os.Stat(c14relicBin); err != nil {
		fmt.Println("HARNESS-ERROR: the relic binary was not built:", err)
		os.Exit(2)
	}
	registered, err := registeredSignals()
	if err != nil || len(registered) == 0 {
		run.Capped(fmt.Sprintf("the signals `relic serve` registers for could not be read from cmdline/servecmd: %v", err))
		return
	}
	var alpha, unknown []string
	for _, s := range registered {
		if _, ok := sigAsksToStop[s]; ok && sigByName[s] != 0 {
			alpha = append(alpha, s)
		} else {
			unknown = append(unknown, s)
		}
	}
	if len(unknown) > 0 {
		run.Capped(fmt.Sprintf("`relic serve` registers for signals the harness has no classification for (left out of the histories): %v", unknown))
	}
	maxLen := 2
	if run.Thorough() {
		maxLen = 3
	}
	hs := sigHistories(alpha, maxLen, run.Thorough())
	outs := make([]sigOutcome, len(hs))
	vlib.Parallel(len(hs), 6, func(i int) { outs[i] = runSigHistory(hs[i], scratch) })
	capped := 0
	for i, h := range hs {
		run.Eval(1)
		run.AddStates(1)
		run.AddTransitions(len(h.Sigs))
		if len(h.Sigs) > 1 {
			run.Distinct("signals|" + h.String())
		}
		o := outs[i]
		for _, c := range o.capped {
			capped++
			if capped <= 3 {
				run.Capped(c)
			}
		}
		for _, p := range o.problems {
			kv := strings.SplitN(p, ": ", 2)
			run.Violation(kv[0], kv[1], map[string]any{"signals": h.Sigs})
		}
		if len(o.capped) == 0 {
			run.Outcome(fmt.Sprintf("signals:%d stop signal(s) after %d other(s):%s", h.Stops, len(h.Sigs)-h.Stops, o.class))
		}
	}
	run.Set("signal_phase", map[string]any{"registered_signals": registered, "ask_to_stop": sigAsksToStop, "max_history_length": maxLen, "histories": len(hs),
		"in_flight_point": "headers sent, 100 Continue received (handler reading the body), half the body sent", "process_per_history": true})
}

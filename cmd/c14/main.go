// C14 — concurrent requests are isolated and race-free.
//
// (a) schedule exploration (mc.Sched): 2-3 threads issuing requests against one
//
//	real server (sign with different keys/digests/options, list_keys,
//	key info, health, a health check, key-cache expiry, Close twice), all
//	interleavings up to a preemption bound; each response must equal what the
//	same request returns in isolation (signature applied to THAT request's
//	body verifies and names THAT request's key, digest and options);
//
// (b) the same thread bodies run free (real goroutines, real sync) under the
//
//	race detector (separate binary .build/bin/c14race built by pre.sh);
//
// (c) graceful shutdown: a real daemon on loopback, Close released at each
//
//	hooked point of an in-flight request.
package main

import (
	"bytes"
	"compress/gzip"
	"context"
	"crypto/tls"
	"crypto/x509"
	"encoding/json"
	"fmt"
	"io"
	"net"
	"net/http"
	"net/http/httptest"
	"net/url"
	"os"
	"os/exec"
	"path/filepath"
	"sort"
	"strings"
	"sync"
	"time"

	"github.com/sassoftware/relic/v8/config"
	"github.com/sassoftware/relic/v8/server"
	"github.com/sassoftware/relic/v8/server/daemon"
	"github.com/sassoftware/relic/v8/signers"
	"github.com/sassoftware/relic/v8/token"

	"verif/faketoken"
	"verif/mc"
	"verif/relicx"
	"verif/shim/vos"
	"verif/shim/vtime"
	"verif/vlib"
)

var run *vlib.Run

const auditPath = "/vfs/audit/audit.log"

// op is one thing a thread does.
type op struct {
	Kind   string // sign | list | keyinfo | health | home | healthcheck | expire | close
	Name   string // file name for sign
	Key    string
	Digest string
	Desc   string // opus description (request option)
	// Leaves: the client of this sign request may go away (its request context
	// is cancelled by a "hangup" op naming it). Target: which request a hangup ends.
	Leaves bool
	Target string
	// Gzip: the client asks for a gzip-compressed response (curl --compressed,
	// a browser; relic's own client prefers snappy).
	Gzip bool
}

// request contexts of the clients that may go away, per execution
var (
	leaveMu  sync.Mutex
	leaveCtx = map[string]context.Context{}
	leaveFn  = map[string]context.CancelFunc{}
)

func resetLeaves(sc scenario) {
	leaveMu.Lock()
	defer leaveMu.Unlock()
	for _, f := range leaveFn {
		f()
	}
	leaveCtx = map[string]context.Context{}
	leaveFn = map[string]context.CancelFunc{}
	for _, th := range sc.Threads {
		for _, o := range th {
			if o.Leaves {
				leaveCtx[o.Name], leaveFn[o.Name] = context.WithCancel(context.Background())
			}
		}
	}
}

func (o op) String() string {
	switch o.Kind {
	case "sign":
		return fmt.Sprintf("sign(%s,%s,%s,%q)", o.Name, o.Key, o.Digest, o.Desc)
	case "keyinfo":
		return "keyinfo(" + o.Key + ")"
	case "hangup":
		return "hangup(" + o.Target + ")"
	}
	return o.Kind
}

func body(o op) []byte { return []byte("Write-Host '" + o.Name + "'\r\n# body of " + o.Name + "\r\n") }

func (o op) request() *http.Request {
	var req *http.Request
	switch o.Kind {
	case "sign":
		q := url.Values{}
		q.Set("key", o.Key)
		q.Set("filename", o.Name)
		q.Set("sigtype", "ps")
		q.Set("ps-style", ".ps1")
		q.Set("digest", o.Digest)
		if o.Desc != "" {
			q.Set("description", o.Desc)
		}
		req = httptest.NewRequest("POST", "/sign?"+q.Encode(), bytes.NewReader(body(o)))
	case "list":
		req = httptest.NewRequest("GET", "/list_keys", nil)
	case "keyinfo":
		req = httptest.NewRequest("GET", "/keys/"+o.Key, nil)
	case "health":
		req = httptest.NewRequest("GET", "/health", nil)
	case "home":
		req = httptest.NewRequest("GET", "/", nil)
	}
	if o.Gzip {
		req.Header.Set("Accept-Encoding", "gzip")
	}
	if o.Leaves {
		leaveMu.Lock()
		if ctx := leaveCtx[o.Name]; ctx != nil {
			req = req.WithContext(ctx)
		}
		leaveMu.Unlock()
	}
	req.RemoteAddr = "192.0.2.77:4444"
	req.TLS = &tls.ConnectionState{PeerCertificates: []*x509.Certificate{relicx.ClientCert()}}
	return req
}

type outcome struct {
	Op     op
	Status int
	Body   []byte
	Extra  string
}

// rateLimited: the scenario's tokens are configured with tokens.<name>.ratelimit
var rateLimited bool

func mkConfig(audit string) *config.Config {
	cfg := relicx.ServerConfig(faketoken.Type)
	cfg.AuditFile = audit
	cfg.Keys["aliasA"] = &config.KeyConfig{Alias: "rsaA"}
	cfg.Server.TokenCacheSeconds = 600
	if rateLimited {
		// a limit far above anything the scenario can reach: the limiter is in
		// the path (it is what hands out the cached key objects) but never delays
		for _, t := range cfg.Tokens {
			t.RateLimit, t.RateBurst = 1e9, 1000
		}
	}
	if err := cfg.Normalize(""); err != nil {
		panic(err)
	}
	return cfg
}

func perform(srv *server.Server, h http.Handler, o op) outcome {
	switch o.Kind {
	case "healthcheck":
		ok := server.VerifHealthCheck(srv)
		return outcome{Op: o, Status: 0, Extra: fmt.Sprint(ok)}
	case "expire":
		vtime.Advance(601 * time.Second)
		return outcome{Op: o}
	case "close":
		err := srv.Close()
		return outcome{Op: o, Extra: fmt.Sprint(err)}
	case "hangup":
		leaveMu.Lock()
		f := leaveFn[o.Target]
		leaveMu.Unlock()
		if f != nil {
			f()
		}
		return outcome{Op: o}
	}
	rec := httptest.NewRecorder()
	var w http.ResponseWriter = rec
	if o.Gzip {
		// the connection is a place where a handler can be overtaken too: every
		// write of response bytes is a scheduling point
		w = pointWriter{rec}
	}
	// as in net/http, a request's context ends when its handler returns
	req := o.request()
	rctx, done := context.WithCancel(req.Context())
	h.ServeHTTP(w, req.WithContext(rctx))
	done()
	body := rec.Body.Bytes()
	if rec.Header().Get("Content-Encoding") == "gzip" {
		zr, err := gzip.NewReader(bytes.NewReader(body))
		var plain []byte
		if err == nil {
			plain, err = io.ReadAll(zr)
		}
		if err != nil {
			return outcome{Op: o, Status: 599, Body: []byte("response body is not a complete gzip stream: " + err.Error())}
		}
		body = plain
	} else if o.Gzip && rec.Code == 200 {
		_ = body // an uncompressed answer to a client that accepts gzip is fine
	}
	return outcome{Op: o, Status: rec.Code, Body: body}
}

var verifyMu sync.Mutex
var scratch string

// checkSign applies the returned patch to the request's own body and verifies
// key, digest and option.
func checkSign(o op, out outcome) string {
	if out.Status != 200 {
		return fmt.Sprintf("status %d: %.120s", out.Status, out.Body)
	}
	verifyMu.Lock()
	defer verifyMu.Unlock()
	p := filepath.Join(scratch, o.Name)
	if err := os.WriteFile(p, body(o), 0o644); err != nil {
		return err.Error()
	}
	f, err := os.OpenFile(p, os.O_RDWR, 0)
	if err != nil {
		return err.Error()
	}
	err = signers.ApplyBinPatch(f, p, bytes.NewReader(out.Body))
	f.Close()
	if err != nil {
		return "patch does not apply to this request's body: " + err.Error()
	}
	sigs, err := relicx.Verify(p, relicx.TrustOpts())
	if err != nil {
		return "signature does not verify against this request's body: " + err.Error()
	}
	sig := sigs[len(sigs)-1]
	key := o.Key
	if key == "aliasA" {
		key = "rsaA"
	}
	if !sig.X509Signature.Certificate.Equal(relicx.LeafOf(key)) {
		return "signed with another key: " + sig.X509Signature.Certificate.Subject.String()
	}
	if sig.Hash != relicx.HashByName(o.Digest) {
		return fmt.Sprintf("digest %v, requested %s", sig.Hash, o.Digest)
	}
	if o.Desc != "" && !strings.Contains(sig.SigInfo, o.Desc) {
		return fmt.Sprintf("description %q missing from signature info %q", o.Desc, sig.SigInfo)
	}
	if o.Desc == "" && strings.Contains(sig.SigInfo, "opus-") {
		return fmt.Sprintf("signature carries another request's description: %q", sig.SigInfo)
	}
	return ""
}

type scenario struct {
	Name    string
	Threads [][]op
}

type pointWriter struct{ *httptest.ResponseRecorder }

func (p pointWriter) Write(b []byte) (int, error) {
	if s := mc.Active(); s != nil {
		if t := s.Me(); t != nil {
			t.Point("response.write")
		}
	}
	return p.ResponseRecorder.Write(b)
}

func gz(o op, name string) op { o.Gzip = true; o.Name = name; return o }

func scenarios(thorough bool) []scenario {
	sA := op{Kind: "sign", Name: "a.ps1", Key: "rsaA", Digest: "sha256"}
	sB := op{Kind: "sign", Name: "b.ps1", Key: "p256A", Digest: "sha384", Desc: "opus-b"}
	sA2 := op{Kind: "sign", Name: "a2.ps1", Key: "rsaA", Digest: "sha512", Desc: "opus-a2"}
	sAl := op{Kind: "sign", Name: "al.ps1", Key: "aliasA", Digest: "sha256"}
	sLeave := op{Kind: "sign", Name: "leaves.ps1", Key: "rsaA", Digest: "sha256", Leaves: true}
	sc := []scenario{
		{"two-keys", [][]op{{sA}, {sB}}},
		{"same-key-cache-contention", [][]op{{sA}, {sA2}}},
		{"alias-and-direct", [][]op{{sAl}, {sA2}}},
		{"sign-list-keyinfo", [][]op{{sA}, {{Kind: "list"}, {Kind: "keyinfo", Key: "p256A"}}}},
		{"sign-healthcheck-health", [][]op{{sB}, {{Kind: "healthcheck"}, {Kind: "health"}}}},
		{"cache-expiry-between-signs", [][]op{{sA, sA2}, {{Kind: "expire"}, sAl}}},
		// Close is issued once (the daemon guarantees that); a second Close after
		// the first has returned must be harmless
		{"close-during-healthcheck", [][]op{{{Kind: "close"}, {Kind: "close"}}, {{Kind: "healthcheck"}}, {{Kind: "health"}}}},
		{"three-signers", [][]op{{sA}, {sB}, {sA2}}},
		// one client goes away while its request is somewhere inside the server: the
		// other request for the same key must not notice
		{"same-key-one-client-hangs-up", [][]op{{sLeave}, {sA2}, {{Kind: "hangup", Target: sLeave.Name}}}},
		// clients that take gzip responses: one response completes, then two overlap
		// tokens.<name>.ratelimit configured: the limiter hands out the key objects
		// the cache keeps; a later request gets the object an earlier, finished or
		// abandoned request fetched
		{"rate-limited-key-reused-after-request-ended", [][]op{{sA, sA2}, {sB}}},
		{"rate-limited-same-key-one-client-hangs-up", [][]op{{sLeave}, {sA2}, {{Kind: "hangup", Target: sLeave.Name}}}},
		{"gzip-responses-overlap-after-an-earlier-one", [][]op{{gz(sA, "g1.ps1"), gz(sB, "g2.ps1")}, {gz(sA2, "g3.ps1")}}},
	}
	if thorough {
		sc = append(sc,
			scenario{"three-mixed", [][]op{{sA, {Kind: "list"}}, {sB}, {{Kind: "healthcheck"}, {Kind: "health"}}}},
			scenario{"two-requests-each", [][]op{{sA, sB}, {sA2, sAl}}},
			scenario{"other-key-one-client-hangs-up", [][]op{{sLeave, {Kind: "list"}}, {sB}, {{Kind: "hangup", Target: sLeave.Name}}}},
			scenario{"expired-cache-one-client-hangs-up", [][]op{{sA, {Kind: "expire"}, sLeave}, {sA2}, {{Kind: "hangup", Target: sLeave.Name}}}},
		)
	}
	return sc
}

func auditNames(blob []byte) (names []string, torn int) {
	for _, l := range strings.Split(strings.TrimSuffix(string(blob), "\n"), "\n") {
		if l == "" {
			continue
		}
		var m map[string]any
		if json.Unmarshal([]byte(l), &m) != nil {
			torn++
			continue
		}
		a := m
		if x, ok := m["attributes"].(map[string]any); ok {
			a = x
		}
		names = append(names, fmt.Sprintf("%v|%v|%v", a["client.filename"], a["sig.keyname"], a["sig.hash"]))
	}
	return
}

// isolation runs every op alone on a fresh server: the expected responses.
func isolation(sc scenario) map[string]outcome {
	rateLimited = strings.HasPrefix(sc.Name, "rate-limited-")
	exp := map[string]outcome{}
	for _, th := range sc.Threads {
		for _, o := range th {
			if o.Kind == "close" || o.Kind == "expire" || o.Kind == "hangup" {
				continue
			}
			resetLeaves(sc)
			vos.Reset()
			vos.Mkdir("/vfs/audit")
			vtime.ResetClock()
			faketoken.Reset()
			cfg := mkConfig(auditPath)
			relicx.Use(cfg)
			srv, err := server.New(cfg)
			if err != nil {
				panic(err)
			}
			exp[o.String()] = perform(srv, srv.Handler(), o)
			srv.Close()
		}
	}
	return exp
}

func schedPhase() {
	defer func() { rateLimited = false }()
	for _, sc := range scenarios(run.Thorough()) {
		bound := 2
		if run.Thorough() && len(sc.Threads) < 3 {
			bound = 3
		}
		exp := isolation(sc)
		for k, e := range exp {
			if e.Op.Kind == "sign" {
				if why := checkSign(e.Op, e); why != "" {
					fmt.Println("HARNESS-ERROR: isolated request fails:", k, why)
					os.Exit(2)
				}
			}
		}
		seenOrders := map[string]bool{}
		st := mc.Explore(mc.Options{MaxDeviations: bound}, func(c *mc.Ctx) {
			vos.Reset()
			vos.Mkdir("/vfs/audit")
			vtime.ResetClock()
			faketoken.Reset()
			cfg := mkConfig(auditPath)
			relicx.Use(cfg)
			srv, err := server.New(cfg)
			if err != nil {
				panic(err)
			}
			h := srv.Handler()
			resetLeaves(sc)
			// the token honours the caller's context the way a rate-limited or
			// remote token does: a lookup that is overtaken by the client going
			// away fails with the context's error
			faketoken.S.GetKey = func(ctx context.Context, tok, key string) (token.Key, error) {
				return nil, ctx.Err()
			}
			s := mc.NewSched(c)
			faketoken.S.Hook = func(call faketoken.Call) {
				if t := s.Me(); t != nil {
					t.Point("token." + call.Op)
				}
			}
			results := make([][]outcome, len(sc.Threads))
			for i, th := range sc.Threads {
				i, th := i, th
				s.Go(fmt.Sprintf("t%d", i+1), func() {
					for _, o := range th {
						if t := s.Me(); t != nil {
							t.Point("begin:" + o.Kind)
						}
						results[i] = append(results[i], perform(srv, h, o))
					}
				})
			}
			s.Run()
			pingsAtEnd := faketoken.S.Count("ping")
			closed := false
			for _, th := range sc.Threads {
				for _, o := range th {
					if o.Kind == "close" {
						closed = true
					}
				}
			}
			if !closed {
				srv.Close()
			}
			run.Eval(1)
			desc := fmt.Sprintf("scenario %s, schedule %v", sc.Name, c.Trace)
			replay := map[string]any{"scenario": sc.Name, "choices": c.Trace, "labels": c.Labels}
			if s.Deadlock {
				run.Violation("sched:deadlock:"+sc.Name, desc+"\n"+strings.Join(s.Log, " "), replay)
				return
			}
			if s.Horizon {
				run.Capped("an execution exceeded the scheduling-point horizon: " + sc.Name)
				return
			}
			if len(s.Panics) > 0 {
				run.Violation("sched:panic:"+sc.Name, desc+": "+s.Panics[0], replay)
				return
			}
			if c.Deviations() > 0 {
				run.Distinct(sc.Name + fmt.Sprint(c.Trace))
			}
			if c.Deviations() == bound && len(c.Trace) > 8 {
				run.Sample(map[string]any{"scenario": sc.Name, "choices": c.Trace, "points": len(s.Log)})
			}
			wantAudit := []string{}
			for _, outs := range results {
				for _, out := range outs {
					o := out.Op
					e, has := exp[o.String()]
					switch o.Kind {
					case "sign":
						if o.Leaves && out.Status != 200 && strings.Contains(string(out.Body)+out.Extra, "cancel") || o.Leaves && out.Status == 499 {
							// its own client went away: any failure that says so is this request's own result
							run.Outcome("sched:" + sc.Name + ":leaving-client-request-abandoned")
							continue
						}
						if why := checkSign(o, out); why != "" {
							run.Violation("sched:sign-response-not-isolated:"+sc.Name, fmt.Sprintf("%s: %s: %s", desc, o, why), replay)
						} else {
							key := o.Key
							if key == "aliasA" {
								key = "rsaA"
							}
							wantAudit = append(wantAudit, fmt.Sprintf("%s|%s|%s", o.Name, key, auditHash(o.Digest)))
						}
					case "list", "keyinfo", "home":
						if has && (out.Status != e.Status || !bytes.Equal(out.Body, e.Body)) {
							run.Violation("sched:response-differs-from-isolation:"+o.Kind+":"+sc.Name, fmt.Sprintf("%s: %s: got %d %.100s want %d %.100s", desc, o, out.Status, out.Body, e.Status, e.Body), replay)
						}
					case "health":
						if out.Status != 200 && !closed {
							run.Violation("sched:health-fails:"+sc.Name, fmt.Sprintf("%s: %d", desc, out.Status), replay)
						}
					case "healthcheck":
						if out.Extra != "true" && !closed {
							run.Violation("sched:healthcheck-fails:"+sc.Name, desc, replay)
						}
					case "close":
						if out.Extra != "<nil>" {
							run.Violation("sched:close-error:"+sc.Name, desc+": "+out.Extra, replay)
						}
					}
				}
			}
			got, torn := auditNames(vos.Snapshot(auditPath))
			order := strings.Join(got, " < ")
			seenOrders[order] = true
			for i := range got {
				got[i] = strings.ToLower(got[i])
			}
			for i := range wantAudit {
				wantAudit[i] = strings.ToLower(wantAudit[i])
			}
			sort.Strings(got)
			sort.Strings(wantAudit)
			if torn > 0 || strings.Join(got, ";") != strings.Join(wantAudit, ";") {
				run.Violation("sched:audit-records-do-not-match-signatures:"+sc.Name, fmt.Sprintf("%s: audit has %v (torn lines %d), successful signs %v", desc, got, torn, wantAudit), replay)
			}
			_ = pingsAtEnd
			run.Outcome("sched:" + sc.Name + ":ok")
		})
		run.AddStates(st.Executions)
		run.AddTransitions(st.ChoicePoints)
		run.Set("schedules:"+sc.Name, map[string]any{"executions": st.Executions, "preemption_bound": bound, "distinct_audit_orders": len(seenOrders)})
	}
}

func auditHash(d string) string {
	switch d {
	case "sha256":
		return "sha-256"
	case "sha384":
		return "sha-384"
	case "sha512":
		return "sha-512"
	}
	return d
}

// ---- (b) free-running race pass (this binary built with -race) ----

func racePass() {
	iters := 40
	if os.Getenv("VERIF_TIER") == "thorough" {
		iters = 200
	}
	dir, _ := os.MkdirTemp(os.Getenv("C14_SCRATCH"), "c14race-")
	defer os.RemoveAll(dir)
	scratch = dir
	n := 0
	// ONE server for the whole pass: relic keeps its health state in package
	// variables that server.New re-initialises without the mutex, so a second
	// server in the same process would race with the first one's (finished)
	// health loop - an artefact of the harness, not of a deployment.
	faketoken.Reset()
	audit := filepath.Join(dir, "audit.log")
	cfg := mkConfig(audit)
	relicx.Use(cfg)
	srv, err := server.New(cfg)
	if err != nil {
		panic(err)
	}
	h := srv.Handler()
	all := scenarios(true)
	sort.SliceStable(all, func(i, j int) bool { return all[j].Name == "close-during-healthcheck" && all[i].Name != all[j].Name })
	for it := 0; it < iters; it++ {
		for _, sc := range all {
			if sc.Name == "close-during-healthcheck" && it != iters-1 {
				continue // closing is final: last iteration only
			}
			var wg sync.WaitGroup
			for _, th := range sc.Threads {
				th := th
				wg.Add(1)
				go func() {
					defer wg.Done()
					for _, o := range th {
						if o.Kind == "expire" {
							continue // real clock in this pass
						}
						out := perform(srv, h, o)
						if o.Kind == "sign" {
							if why := checkSign(o, out); why != "" {
								fmt.Printf("RACEPASS-MISMATCH scenario=%s %s: %s\n", sc.Name, o, why)
							}
						}
					}
				}()
			}
			wg.Wait()
			n++
		}
	}
	// put the closing scenario last
	fmt.Printf("RACEPASS-DONE runs=%d\n", n)
}

// ---- (c) graceful shutdown on a real daemon ----

func shutdownPhase() {
	dir, _ := os.MkdirTemp("", "c14d-")
	defer os.RemoveAll(dir)
	points := []string{"getkey", "sign"}
	for _, pt := range points {
		faketoken.Reset()
		vos.Reset()
		vos.Mkdir("/vfs/audit")
		cfg := mkConfig(auditPath)
		ln, err := net.Listen("tcp", "127.0.0.1:0")
		if err != nil {
			panic(err)
		}
		addr := ln.Addr().String()
		ln.Close()
		cfg.Server.ListenHTTP = addr
		cfg.Server.TrustedProxies = []string{"127.0.0.1"}
		if err := cfg.Normalize(""); err != nil {
			panic(err)
		}
		relicx.Use(cfg)
		d, err := daemon.New(cfg, false)
		if err != nil {
			panic(err)
		}
		serveDone := make(chan error, 1)
		go func() { serveDone <- d.Serve() }()
		reached := make(chan struct{})
		release := make(chan struct{})
		var once sync.Once
		faketoken.S.Hook = func(call faketoken.Call) {
			if call.Op == pt {
				once.Do(func() {
					close(reached)
					<-release
				})
			}
		}
		o := op{Kind: "sign", Name: "inflight.ps1", Key: "rsaA", Digest: "sha256"}
		type resT struct {
			status int
			body   []byte
			err    error
		}
		resCh := make(chan resT, 1)
		go func() {
			req, _ := http.NewRequest("POST", "http://"+addr+o.request().URL.String(), bytes.NewReader(body(o)))
			req.Header.Set("X-Forwarded-For", "192.0.2.77")
			req.Header.Set("Ssl-Client-Cert", url.PathEscape(string(pemCert(relicx.ClientCert()))))
			var resp *http.Response
			var err error
			for i := 0; i < 100; i++ {
				resp, err = http.DefaultTransport.RoundTrip(req)
				if err == nil {
					break
				}
				time.Sleep(20 * time.Millisecond)
				req.Body = io.NopCloser(bytes.NewReader(body(o)))
			}
			if err != nil {
				resCh <- resT{err: err}
				return
			}
			b, _ := io.ReadAll(resp.Body)
			resp.Body.Close()
			resCh <- resT{status: resp.StatusCode, body: b}
		}()
		select {
		case <-reached:
		case <-time.After(30 * time.Second):
			fmt.Println("HARNESS-ERROR: in-flight request never reached the token")
			os.Exit(2)
		}
		closeDone := make(chan error, 1)
		go func() { closeDone <- d.Close() }()
		// Close must not complete while the request is in flight
		early := false
		select {
		case <-closeDone:
			early = true
		case <-time.After(300 * time.Millisecond):
		}
		// ... and neither must Serve return (relic serve exits when it does, taking
		// the in-flight handler with it)
		serveEarly := false
		var serveErr error
		select {
		case serveErr = <-serveDone:
			serveEarly = true
		default:
		}
		close(release)
		res := <-resCh
		if !early {
			select {
			case <-closeDone:
			case <-time.After(60 * time.Second):
				run.Violation("shutdown:close-never-returns", "daemon.Close did not return within 60 s after the in-flight request was released (point "+pt+")", pt)
			}
		}
		if !serveEarly {
			<-serveDone
		}
		run.Eval(1)
		run.Distinct("shutdown|" + pt)
		if serveEarly {
			run.Violation("shutdown:serve-returns-while-a-request-is-in-flight", fmt.Sprintf("daemon.Close while a /sign request is blocked at token.%s: Daemon.Serve returned (%v) before the request finished; the process would exit with the request unanswered", pt, serveErr), pt)
		}
		desc := fmt.Sprintf("daemon.Close while a /sign request is blocked at token.%s: request -> status %d err %v; Close returned early: %v", pt, res.status, res.err, early)
		if early {
			run.Violation("shutdown:close-does-not-wait-for-in-flight-request", desc, pt)
		}
		if res.err != nil || res.status != 200 {
			run.Violation("shutdown:in-flight-request-not-finished", desc, pt)
		} else if why := checkSign(o, outcome{Op: o, Status: res.status, Body: res.body}); why != "" {
			run.Violation("shutdown:in-flight-response-wrong", desc+": "+why, pt)
		}
		run.Outcome("shutdown:" + pt + ":ok")
	}
}

func pemCert(c *x509.Certificate) []byte {
	return []byte("-----BEGIN CERTIFICATE-----\n" + b64(c.Raw) + "\n-----END CERTIFICATE-----\n")
}

func b64(b []byte) string {
	const enc = "ABCDEFGHIJKLMNOPQRSTUVWXYZabcdefghijklmnopqrstuvwxyz0123456789+/"
	var sb strings.Builder
	for i := 0; i < len(b); i += 3 {
		var n uint32
		rem := len(b) - i
		for j := 0; j < 3; j++ {
			n <<= 8
			if j < rem {
				n |= uint32(b[i+j])
			}
		}
		sb.WriteByte(enc[n>>18&63])
		sb.WriteByte(enc[n>>12&63])
		if rem > 1 {
			sb.WriteByte(enc[n>>6&63])
		} else {
			sb.WriteByte('=')
		}
		if rem > 2 {
			sb.WriteByte(enc[n&63])
		} else {
			sb.WriteByte('=')
		}
	}
	return sb.String()
}

func main() {
	relicx.Quiet()
	if os.Getenv("C14_RACEPASS") != "" {
		racePass()
		return
	}
	run = vlib.NewRun("C14", "model_checking")
	dir, err := os.MkdirTemp("", "c14-")
	if err != nil {
		panic(err)
	}
	defer os.RemoveAll(dir)
	scratch = dir
	schedPhase()
	shutdownPhase()
	// race pass in the -race binary
	cmd := exec.Command("/verif/.build/bin/c14race")
	cmd.Env = append(os.Environ(), "C14_RACEPASS=1", "C14_SCRATCH="+dir, "VERIF_TIER="+run.Tier, "GORACE=halt_on_error=0 exitcode=0")
	outb, rerr := cmd.CombinedOutput()
	out := string(outb)
	run.Eval(1)
	races := strings.Count(out, "WARNING: DATA RACE")
	run.Set("race_pass", map[string]any{"data_race_reports": races, "completed": strings.Contains(out, "RACEPASS-DONE"), "note": "free-running goroutines with the race detector; not exhaustive - evidence of a different kind for the 'no data race' clause"})
	if races > 0 {
		// key by the first relic frame of the first report
		key := "race:unknown"
		for _, l := range strings.Split(out, "\n") {
			l = strings.TrimSpace(l)
			if strings.HasPrefix(l, "github.com/sassoftware/relic") {
				key = "race:" + l[:strings.LastIndex(l, "(")]
				break
			}
		}
		tail := out
		if len(tail) > 3000 {
			tail = tail[:3000]
		}
		run.Violation(key, fmt.Sprintf("%d data race report(s) in the free-running pass:\n%s", races, tail), nil)
	}
	if strings.Contains(out, "RACEPASS-MISMATCH") {
		i := strings.Index(out, "RACEPASS-MISMATCH")
		run.Violation("racepass:sign-response-not-isolated", out[i:i+min(400, len(out)-i)], nil)
	}
	if !strings.Contains(out, "RACEPASS-DONE") {
		run.Capped(fmt.Sprintf("race pass did not complete: %v", rerr))
	}
	_ = context.Background
	run.Rule("(a) for each of 8 (thorough 10) scenarios of 2-3 threads (sign with two keys, same key, alias, list/keyinfo, health check + /health, key-cache expiry between signs, Close (then Close again) during a health check and /health, three signers): every interleaving with <=2 preemptions (thorough 3 for 2-thread scenarios) over the hooked mutex/token/audit-file operations; oracle per request = result in isolation (patch applied to that request's body verifies, names its key, digest and description), audit lines = successful signs; (b) free-running -race pass; (c) daemon.Close released at 2 hooked points of an in-flight request on a real loopback daemon. distinct_nontrivial = schedules with at least one preemption")
	run.Assume("net/http's own goroutines are not under the scheduler; the shutdown clause is explored only at the handler's hooked points")
	run.Assume("the 'no data race' clause rests on the race detector over free-running executions (not exhaustive)")
	os.RemoveAll(dir) // Finish exits the process: deferred calls do not run
	run.Finish()
}

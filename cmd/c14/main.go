// C14 — concurrent requests are isolated and race-free.
//
// (a) schedule exploration (mc.Sched): 2-3 threads issuing requests against one
//
//	real server (sign with different keys/digests/options, list_keys,
//	key info, health, a health check, key-cache expiry, Close twice), all
//	interleavings up to a preemption bound; each response must equal what the
//	same request returns in isolation (signature applied to THAT request's
//	body verifies and names THAT request's key, digest and options);
//
//	the requests come from several clients with different role sets over keys
//	with different role lists (sequentially: every history of <=2 requests on
//	one server; and interleaved), and a token operation (ping, key lookup,
//	signing) of one thread may stall for as long as anything else can happen:
//	requests that do not need that token must be answered meanwhile;
//
//	server.numworkers set with the in-process token and requests that fail
//	while their key is prepared before / among valid ones: every valid request
//	is answered as in isolation (one that never returns is ended by the harness
//	at quiescence and reported as never answered); every system call on the
//	audit file (vos emulates *os.File incl. Seek/ReadAt/WriteAt/SyscallConn) is
//	a scheduling point;
//
// (b) the same thread bodies run free (real goroutines, real sync) under the
//
//	race detector (separate binary .build/bin/c14race built by pre.sh);
//
// (c) graceful shutdown: a real daemon on loopback, Close released at each
//
//	hooked point of an in-flight request;
//
// (d) the real `relic serve` process and the signals it registers for, delivered
//
//	while a request is in flight (signals.go).
//
// Callers are configured by fingerprint or admitted through a CA certificate (two
// harness CAs, several certificate holders each); every identity field of the audit
// record is compared per request.
package main

import (
	"bytes"
	"compress/gzip"
	"context"
	"crypto/ecdsa"
	"crypto/elliptic"
	"crypto/rand"
	"crypto/sha256"
	"crypto/tls"
	"crypto/x509"
	"crypto/x509/pkix"
	"encoding/hex"
	"encoding/json"
	"fmt"
	"io"
	"math/big"
	"net"
	"net/http"
	"net/http/httptest"
	"net/url"
	"os"
	"os/exec"
	"path/filepath"
	"sort"
	"strings"
	"sync"
	"time"

	"github.com/sassoftware/relic/v8/config"
	"github.com/sassoftware/relic/v8/server"
	"github.com/sassoftware/relic/v8/server/daemon"
	"github.com/sassoftware/relic/v8/signers"
	"github.com/sassoftware/relic/v8/token"

	"verif/faketoken"
	"verif/mc"
	"verif/relicx"
	"verif/shim/vos"
	"verif/shim/vtime"
	"verif/vlib"
)

var run *vlib.Run

const auditPath = "/vfs/audit/audit.log"

// op is one thing a thread does.
type op struct {
	Kind   string // sign | list | keyinfo | health | home | healthcheck | expire | close
	Name   string // file name for sign
	Key    string
	Digest string
	Desc   string // opus description (request option)
	// Leaves: the client of this sign request may go away (its request context
	// is cancelled by a "hangup" op naming it). Target: which request a hangup ends.
	Leaves bool
	Target string
	// Gzip: the client asks for a gzip-compressed response (curl --compressed,
	// a browser; relic's own client prefers snappy).
	Gzip bool
	// Client: which configured client sends the request ("" = the default client
	// holding role r; see clients).
	Client string
	// SigType: signature type asked for ("" = ps).
	SigType string
	// Refused: why this sign request cannot be served whatever else goes on (the
	// key has no certificate of the kind the signature type needs, its certificate
	// file is missing): it is refused in isolation and must be refused the same way
	// in company - and must not change what any other request gets.
	Refused string
}

// client is one caller identity: a certificate (known to the server by the
// fingerprint of its public key, or not at all) and the roles configured for it.
type client struct {
	Leaf     string // fixture whose leaf certificate the client presents
	Nickname string
	Roles    []string // nil: the certificate is not configured on the server
	// CA: the client is not configured by fingerprint; it holds a certificate
	// (subject CN = CN) issued by this harness CA, which a clients: entry names
	// through its certificate: field (see caEntries). Nickname and Roles are that
	// entry's.
	CA string
	CN string
	// IP: the address the client connects from ("" = 192.0.2.77)
	IP string
}

// caEntries: the clients: entries that admit callers through a CA certificate.
// "build-ca" has a nickname; "anon-ca" has none (relic then names the caller by
// the first 12 hex digits of its public key's fingerprint).
var caEntries = map[string]client{
	"build-ca": {Nickname: "short-lived-builds", Roles: []string{"r"}},
	"anon-ca":  {Nickname: "", Roles: []string{"rel", "night"}},
}

// The role sets select different, partly overlapping subsets of the keys (see
// mkConfig): r sees every key of the base configuration, rel and night two
// different subsets, both their union, norole nothing; stranger is turned away.
var clients = map[string]client{
	"":         {Leaf: "rsaB", Nickname: "verif-client", Roles: []string{"r"}},
	"rel":      {Leaf: "p256B", Nickname: "release-eng", Roles: []string{"rel"}, IP: "192.0.2.78"},
	"night":    {Leaf: "p384", Nickname: "nightly-builder", Roles: []string{"night"}, IP: "192.0.2.79"},
	"both":     {Leaf: "p521", Nickname: "both-teams", Roles: []string{"rel", "night"}, IP: "192.0.2.80"},
	"norole":   {Leaf: "p256A", Nickname: "no-role", Roles: []string{"unused"}},
	"stranger": {Leaf: "rsaA"},
	// holders of certificates issued by one CA that a clients: entry names
	"ca-alice": {CA: "build-ca", CN: "alice", IP: "192.0.2.101"},
	"ca-bob":   {CA: "build-ca", CN: "bob", IP: "192.0.2.102"},
	"ca-carol": {CA: "build-ca", CN: "carol", IP: "192.0.2.103"},
	"ca-dave":  {CA: "anon-ca", CN: "dave", IP: "192.0.2.104"},
	"ca-erin":  {CA: "anon-ca", CN: "erin", IP: "192.0.2.105"},
}

func init() {
	for name, cl := range clients {
		if cl.CA != "" {
			cl.Nickname, cl.Roles = caEntries[cl.CA].Nickname, caEntries[cl.CA].Roles
			clients[name] = cl
		}
	}
}

var clientOrder = []string{"", "rel", "night", "both", "norole", "stranger"}

var (
	certMu    sync.Mutex
	certCache = map[string]*x509.Certificate{}
)

func clientCert(name string) *x509.Certificate {
	certMu.Lock()
	defer certMu.Unlock()
	c := certCache[name]
	if c == nil {
		if cl := clients[name]; cl.CA != "" {
			c = issueClient(cl.CA, cl.CN)
		} else {
			c = relicx.LeafOf(cl.Leaf)
		}
		certCache[name] = c
	}
	return c
}

// harness CAs (made when the process starts: every process of a run has its own)
type harnessCA struct {
	cert *x509.Certificate
	key  *ecdsa.PrivateKey
}

var harnessCAs = map[string]*harnessCA{}

func caOf(name string) *harnessCA {
	if ca := harnessCAs[name]; ca != nil {
		return ca
	}
	key, err := ecdsa.GenerateKey(elliptic.P256(), rand.Reader)
	if err != nil {
		panic(err)
	}
	now := time.Now()
	t := &x509.Certificate{SerialNumber: big.NewInt(1), Subject: pkix.Name{CommonName: "verif C14 " + name}, NotBefore: now.Add(-time.Hour), NotAfter: now.Add(72 * time.Hour),
		BasicConstraintsValid: true, IsCA: true, KeyUsage: x509.KeyUsageCertSign}
	der, err := x509.CreateCertificate(rand.Reader, t, t, &key.PublicKey, key)
	if err != nil {
		panic(err)
	}
	c, err := x509.ParseCertificate(der)
	if err != nil {
		panic(err)
	}
	harnessCAs[name] = &harnessCA{c, key}
	return harnessCAs[name]
}

// issueClient: a TLS client certificate with subject CN=cn issued by the harness CA
// (called with certMu held)
func issueClient(ca, cn string) *x509.Certificate {
	a := caOf(ca)
	key, err := ecdsa.GenerateKey(elliptic.P256(), rand.Reader)
	if err != nil {
		panic(err)
	}
	now := time.Now()
	serial, _ := rand.Int(rand.Reader, big.NewInt(1<<62))
	t := &x509.Certificate{SerialNumber: serial, Subject: pkix.Name{CommonName: cn}, NotBefore: now.Add(-time.Hour), NotAfter: now.Add(48 * time.Hour),
		BasicConstraintsValid: true, KeyUsage: x509.KeyUsageDigitalSignature, ExtKeyUsage: []x509.ExtKeyUsage{x509.ExtKeyUsageClientAuth}}
	der, err := x509.CreateCertificate(rand.Reader, t, a.cert, &key.PublicKey, a.key)
	if err != nil {
		panic(err)
	}
	c, err := x509.ParseCertificate(der)
	if err != nil {
		panic(err)
	}
	return c
}

// what the audit record of a request by this client must say about the caller:
// client.name = the nickname of the clients: entry that admits it (an entry
// without a nickname: the first 12 hex digits of the fingerprint of the caller's
// public key), client.dn = the subject of the caller's certificate in OpenSSL's
// one-line form when the entry admits by CA certificate ("the subject DN of the
// leaf certificate is logged", doc/relic.yml) and absent otherwise, client.ip =
// the address the request came from.
func auditIdentity(name string) (cname, dn, ip string) {
	cl := clients[name]
	cname, dn, ip = cl.Nickname, "-", cl.IP
	if cl.CA != "" {
		dn = "/CN=" + cl.CN
		if cname == "" {
			cname = fingerprintOf(clientCert(name))[:12]
		}
	}
	if ip == "" {
		ip = "192.0.2.77"
	}
	return
}

// wantAuditLine: the audit record (as auditNames renders it) of a successful sign request
func wantAuditLine(o op) string {
	cname, dn, ip := auditIdentity(o.Client)
	return strings.ToLower(fmt.Sprintf("%s|%s|%s|%s|%s|%s", o.Name, targetOf(o.Key), auditHash(o.Digest), cname, dn, ip))
}

// keyFixture: which fixture key pair a configured key name uses; keyTarget:
// the name an alias resolves to (what the audit record names).
var keyFixture = map[string]string{"aliasA": "rsaA", "relonly": "rsaB", "nightonly": "p521", "aliasNight": "p521", "t2key": "p384"}
var keyTarget = map[string]string{"aliasA": "rsaA", "aliasNight": "nightonly"}

func fixtureOf(key string) string {
	if f, ok := keyFixture[key]; ok {
		return f
	}
	return key
}

func targetOf(key string) string {
	if t, ok := keyTarget[key]; ok {
		return t
	}
	return key
}

// request contexts of the clients that may go away, per execution
var (
	leaveMu  sync.Mutex
	leaveCtx = map[string]context.Context{}
	leaveFn  = map[string]context.CancelFunc{}
)

func resetLeaves(sc scenario) {
	leaveMu.Lock()
	defer leaveMu.Unlock()
	for _, f := range leaveFn {
		f()
	}
	leaveCtx = map[string]context.Context{}
	leaveFn = map[string]context.CancelFunc{}
	for _, th := range sc.Threads {
		for _, o := range th {
			if o.Leaves {
				leaveCtx[o.Name], leaveFn[o.Name] = context.WithCancel(context.Background())
			}
		}
	}
}

func (o op) String() string {
	who := ""
	if o.Client != "" {
		who = "@" + o.Client
	}
	switch o.Kind {
	case "sign":
		if o.SigType != "" {
			who = "[" + o.SigType + "]" + who
		}
		return fmt.Sprintf("sign(%s,%s,%s,%q)%s", o.Name, o.Key, o.Digest, o.Desc, who)
	case "keyinfo":
		return "keyinfo(" + o.Key + ")" + who
	case "hangup":
		return "hangup(" + o.Target + ")"
	}
	return o.Kind + who
}

func body(o op) []byte { return []byte("Write-Host '" + o.Name + "'\r\n# body of " + o.Name + "\r\n") }

func (o op) request() *http.Request {
	var req *http.Request
	switch o.Kind {
	case "sign":
		q := url.Values{}
		q.Set("key", o.Key)
		q.Set("filename", o.Name)
		if o.SigType != "" {
			q.Set("sigtype", o.SigType)
		} else {
			q.Set("sigtype", "ps")
			q.Set("ps-style", ".ps1")
		}
		q.Set("digest", o.Digest)
		if o.Desc != "" {
			q.Set("description", o.Desc)
		}
		req = httptest.NewRequest("POST", "/sign?"+q.Encode(), bytes.NewReader(body(o)))
	case "list":
		req = httptest.NewRequest("GET", "/list_keys", nil)
	case "keyinfo":
		req = httptest.NewRequest("GET", "/keys/"+o.Key, nil)
	case "health":
		req = httptest.NewRequest("GET", "/health", nil)
	case "home":
		req = httptest.NewRequest("GET", "/", nil)
	}
	if o.Gzip {
		req.Header.Set("Accept-Encoding", "gzip")
	}
	if o.Leaves {
		leaveMu.Lock()
		if ctx := leaveCtx[o.Name]; ctx != nil {
			req = req.WithContext(ctx)
		}
		leaveMu.Unlock()
	}
	_, _, ip := auditIdentity(o.Client)
	req.RemoteAddr = ip + ":4444"
	req.TLS = &tls.ConnectionState{PeerCertificates: []*x509.Certificate{clientCert(o.Client)}}
	return req
}

type outcome struct {
	Op     op
	Status int
	Body   []byte
	Extra  string
}

// rateLimited: the scenario's tokens are configured with tokens.<name>.ratelimit
var rateLimited bool

// twoTokens: the configuration has a second token (tok2) serving key t2key
var twoTokens bool

// numWorkers: server.numworkers of the scenario's configuration (0 = not set)
var numWorkers int

// missingCert: the configuration has a key (nocert) whose certificate file does
// not exist - a deployment mistake that shows only when the key is asked for
var missingCert bool

func fingerprintOf(c *x509.Certificate) string {
	d := sha256.Sum256(c.RawSubjectPublicKeyInfo)
	return hex.EncodeToString(d[:])
}

func mkConfig(audit string) *config.Config {
	cfg := relicx.ServerConfig(faketoken.Type)
	cfg.AuditFile = audit
	cfg.Keys["aliasA"] = &config.KeyConfig{Alias: "rsaA"}
	// several clients with different role sets ...
	if fingerprintOf(clientCert("")) != fingerprintOf(relicx.ClientCert()) {
		panic("default client is not relicx's client")
	}
	for name, cl := range clients {
		if cl.Roles != nil && cl.CA == "" {
			cfg.Clients[fingerprintOf(clientCert(name))] = &config.ClientConfig{Nickname: cl.Nickname, Roles: cl.Roles}
		}
	}
	// clients admitted through a CA certificate: one entry per CA
	certMu.Lock()
	for name, e := range caEntries {
		cfg.Clients[name] = &config.ClientConfig{Nickname: e.Nickname, Roles: e.Roles, Certificate: string(pemCert(caOf(name).cert))}
	}
	certMu.Unlock()
	// ... over keys with different role lists. Every key of the base
	// configuration stays usable with role r.
	for key, more := range map[string][]string{"rsaA": {"rel"}, "p256A": {"night"}, "p256B": {"rel", "night"}, "p384": {"night"}} {
		cfg.Keys[key].Roles = append([]string{"r"}, more...)
	}
	mk := func(fixture string, roles ...string) *config.KeyConfig {
		return &config.KeyConfig{Token: "tok", KeyFile: filepath.Join(relicx.KeyDir, fixture+".key"),
			X509Certificate: filepath.Join(relicx.KeyDir, fixture+".chain.crt"), Roles: roles}
	}
	cfg.Keys["relonly"] = mk("rsaB", "rel")
	cfg.Keys["nightonly"] = mk("p521", "night")
	cfg.Keys["aliasNight"] = &config.KeyConfig{Alias: "nightonly"}
	if twoTokens {
		empty := ""
		cfg.Tokens["tok2"] = &config.TokenConfig{Type: faketoken.Type, Pin: &empty}
		cfg.Keys["t2key"] = mk("p384", "r")
		cfg.Keys["t2key"].Token = "tok2"
	}
	if missingCert {
		cfg.Keys["nocert"] = mk("rsaB", "r")
		cfg.Keys["nocert"].X509Certificate = filepath.Join(relicx.KeyDir, "no-such-file.chain.crt")
	}
	cfg.Server.NumWorkers = numWorkers
	cfg.Server.TokenCacheSeconds = 600
	if rateLimited {
		// a limit far above anything the scenario can reach: the limiter is in
		// the path (it is what hands out the cached key objects) but never delays
		for _, t := range cfg.Tokens {
			t.RateLimit, t.RateBurst = 1e9, 1000
		}
	}
	if err := cfg.Normalize(""); err != nil {
		panic(err)
	}
	return cfg
}

func perform(srv *server.Server, h http.Handler, o op) outcome {
	switch o.Kind {
	case "healthcheck":
		ok := server.VerifHealthCheck(srv)
		return outcome{Op: o, Status: 0, Extra: fmt.Sprint(ok)}
	case "expire":
		vtime.Advance(601 * time.Second)
		return outcome{Op: o}
	case "close":
		err := srv.Close()
		return outcome{Op: o, Extra: fmt.Sprint(err)}
	case "hangup":
		leaveMu.Lock()
		f := leaveFn[o.Target]
		leaveMu.Unlock()
		if f != nil {
			f()
		}
		return outcome{Op: o}
	}
	rec := httptest.NewRecorder()
	var w http.ResponseWriter = rec
	if o.Gzip {
		// the connection is a place where a handler can be overtaken too: every
		// write of response bytes is a scheduling point
		w = pointWriter{rec}
	}
	// as in net/http, a request's context ends when its handler returns
	req := o.request()
	rctx, done := context.WithCancel(req.Context())
	if hook := inFlight; hook != nil {
		hook(o, done, true)
	}
	h.ServeHTTP(w, req.WithContext(rctx))
	if hook := inFlight; hook != nil {
		hook(o, done, false)
	}
	done()
	body := rec.Body.Bytes()
	if rec.Header().Get("Content-Encoding") == "gzip" {
		zr, err := gzip.NewReader(bytes.NewReader(body))
		var plain []byte
		if err == nil {
			plain, err = io.ReadAll(zr)
		}
		if err != nil {
			return outcome{Op: o, Status: 599, Body: []byte("response body is not a complete gzip stream: " + err.Error())}
		}
		body = plain
	} else if o.Gzip && rec.Code == 200 {
		_ = body // an uncompressed answer to a client that accepts gzip is fine
	}
	return outcome{Op: o, Status: rec.Code, Body: body}
}

// inFlight, when set, is told when a request enters and leaves the server, with
// the function that ends the request's context (what net/http does when the
// client's connection goes away).
var inFlight func(o op, hangUp context.CancelFunc, entering bool)

var verifyMu sync.Mutex
var scratch string

// checkSign applies the returned patch to the request's own body and verifies
// key, digest and option.
func checkSign(o op, out outcome) string {
	if out.Status != 200 {
		return fmt.Sprintf("status %d: %.120s", out.Status, out.Body)
	}
	verifyMu.Lock()
	defer verifyMu.Unlock()
	p := filepath.Join(scratch, o.Name)
	if err := os.WriteFile(p, body(o), 0o644); err != nil {
		return err.Error()
	}
	f, err := os.OpenFile(p, os.O_RDWR, 0)
	if err != nil {
		return err.Error()
	}
	err = signers.ApplyBinPatch(f, p, bytes.NewReader(out.Body))
	f.Close()
	if err != nil {
		return "patch does not apply to this request's body: " + err.Error()
	}
	sigs, err := relicx.Verify(p, relicx.TrustOpts())
	if err != nil {
		return "signature does not verify against this request's body: " + err.Error()
	}
	sig := sigs[len(sigs)-1]
	if !sig.X509Signature.Certificate.Equal(relicx.LeafOf(fixtureOf(o.Key))) {
		return "signed with another key: " + sig.X509Signature.Certificate.Subject.String()
	}
	if sig.Hash != relicx.HashByName(o.Digest) {
		return fmt.Sprintf("digest %v, requested %s", sig.Hash, o.Digest)
	}
	if o.Desc != "" && !strings.Contains(sig.SigInfo, o.Desc) {
		return fmt.Sprintf("description %q missing from signature info %q", o.Desc, sig.SigInfo)
	}
	if o.Desc == "" && strings.Contains(sig.SigInfo, "opus-") {
		return fmt.Sprintf("signature carries another request's description: %q", sig.SigInfo)
	}
	return ""
}

type scenario struct {
	Name    string
	Threads [][]op
	// Stall: the first token operation of this kind (and key, if named) that a
	// thread reaches does not return until nothing else in the execution can
	// happen any more - a slow HSM, a KMS call that runs into its timeout. Whatever
	// is then still waiting has waited for the token.
	Stall *stall
	// NumWorkers: server.numworkers (0 = not set, the default); MissingCert: the
	// configuration has key nocert whose certificate file does not exist.
	NumWorkers  int
	MissingCert bool
}

type stall struct {
	Op  string // ping | getkey | sign
	Key string
	Tok string // the token the stalled operation belongs to
}

// needsToken: which token a request cannot be answered without ("" = none:
// health, key listing and the home page are answered from the configuration and
// the last recorded health state; "*" = every token).
func needsToken(o op) string {
	switch o.Kind {
	case "sign", "keyinfo":
		if o.Key == "t2key" {
			return "tok2"
		}
		return "tok"
	case "healthcheck", "close":
		return "*"
	}
	return ""
}

type pointWriter struct{ *httptest.ResponseRecorder }

func (p pointWriter) Write(b []byte) (int, error) {
	if s := mc.Active(); s != nil {
		if t := s.Me(); t != nil {
			t.Point("response.write")
		}
	}
	return p.ResponseRecorder.Write(b)
}

func gz(o op, name string) op { o.Gzip = true; o.Name = name; return o }

func by(client string, o op) op { o.Client = client; return o }

func scenarios(thorough bool) []scenario {
	sA := op{Kind: "sign", Name: "a.ps1", Key: "rsaA", Digest: "sha256"}
	sB := op{Kind: "sign", Name: "b.ps1", Key: "p256A", Digest: "sha384", Desc: "opus-b"}
	sA2 := op{Kind: "sign", Name: "a2.ps1", Key: "rsaA", Digest: "sha512", Desc: "opus-a2"}
	sAl := op{Kind: "sign", Name: "al.ps1", Key: "aliasA", Digest: "sha256"}
	sLeave := op{Kind: "sign", Name: "leaves.ps1", Key: "rsaA", Digest: "sha256", Leaves: true}
	sT2 := op{Kind: "sign", Name: "t2.ps1", Key: "t2key", Digest: "sha256"}
	lst := op{Kind: "list"}
	sc := []scenario{
		{"two-keys", [][]op{{sA}, {sB}}, nil, 0, false},
		{"same-key-cache-contention", [][]op{{sA}, {sA2}}, nil, 0, false},
		{"alias-and-direct", [][]op{{sAl}, {sA2}}, nil, 0, false},
		{"sign-list-keyinfo", [][]op{{sA}, {{Kind: "list"}, {Kind: "keyinfo", Key: "p256A"}}}, nil, 0, false},
		{"sign-healthcheck-health", [][]op{{sB}, {{Kind: "healthcheck"}, {Kind: "health"}}}, nil, 0, false},
		{"cache-expiry-between-signs", [][]op{{sA, sA2}, {{Kind: "expire"}, sAl}}, nil, 0, false},
		// Close is issued once (the daemon guarantees that); a second Close after
		// the first has returned must be harmless
		{"close-during-healthcheck", [][]op{{{Kind: "close"}, {Kind: "close"}}, {{Kind: "healthcheck"}}, {{Kind: "health"}}}, nil, 0, false},
		{"three-signers", [][]op{{sA}, {sB}, {sA2}}, nil, 0, false},
		// one client goes away while its request is somewhere inside the server: the
		// other request for the same key must not notice
		{"same-key-one-client-hangs-up", [][]op{{sLeave}, {sA2}, {{Kind: "hangup", Target: sLeave.Name}}}, nil, 0, false},
		// clients that take gzip responses: one response completes, then two overlap
		// tokens.<name>.ratelimit configured: the limiter hands out the key objects
		// the cache keeps; a later request gets the object an earlier, finished or
		// abandoned request fetched
		{"rate-limited-key-reused-after-request-ended", [][]op{{sA, sA2}, {sB}}, nil, 0, false},
		{"rate-limited-same-key-one-client-hangs-up", [][]op{{sLeave}, {sA2}, {{Kind: "hangup", Target: sLeave.Name}}}, nil, 0, false},
		{"gzip-responses-overlap-after-an-earlier-one", [][]op{{gz(sA, "g1.ps1"), gz(sB, "g2.ps1")}, {gz(sA2, "g3.ps1")}}, nil, 0, false},
		// clients with different role sets on one server, overlapping
		{"clients-listings-overlap", [][]op{{by("rel", lst), by("night", lst)}, {by("both", lst), lst}, {by("norole", lst)}}, nil, 0, false},
		{"clients-sign-keyinfo-list-overlap", [][]op{
			{by("rel", op{Kind: "sign", Name: "rel.ps1", Key: "aliasA", Digest: "sha256"}), by("rel", op{Kind: "keyinfo", Key: "nightonly"}), by("rel", lst)},
			{by("night", op{Kind: "sign", Name: "night.ps1", Key: "aliasNight", Digest: "sha384", Desc: "opus-night"}), by("night", lst), by("both", op{Kind: "keyinfo", Key: "relonly"})}}, nil, 0, false},
		// a token operation of one request stalls; what needs no token (or another
		// token) is answered meanwhile
		{"stalled-ping", [][]op{{{Kind: "healthcheck"}}, {{Kind: "health"}, lst, {Kind: "home"}}}, &stall{"ping", "", "tok"}, 0, false},
		{"stalled-getkey", [][]op{{sA}, {{Kind: "health"}, by("night", lst), sB}}, &stall{"getkey", "rsaA", "tok"}, 0, false},
		{"stalled-sign", [][]op{{sA}, {lst, {Kind: "health"}, {Kind: "keyinfo", Key: "p256A"}}}, &stall{"sign", "rsaA", "tok"}, 0, false},
		{"two-tokens-stalled-getkey", [][]op{{sA}, {sT2, {Kind: "keyinfo", Key: "t2key"}, {Kind: "health"}}}, &stall{"getkey", "rsaA", "tok"}, 0, false},
		{"two-tokens-stalled-sign-on-the-other-token", [][]op{{sT2}, {sA, lst}}, &stall{"sign", "t2key", "tok2"}, 0, false},
	}
	// callers admitted through a CA certificate (clients.<name>.certificate): several
	// holders of certificates of one CA share one clients: entry - its nickname and
	// roles - and are told apart in the audit record by their certificate's subject
	// (an entry without a nickname: also by their key's fingerprint)
	caSign := func(cl, key, digest, desc string) op {
		return by(cl, op{Kind: "sign", Name: cl + ".ps1", Key: key, Digest: digest, Desc: desc})
	}
	sc = append(sc,
		scenario{Name: "ca-clients-two-holders-of-one-ca-overlap", Threads: [][]op{{caSign("ca-alice", "rsaA", "sha256", "")}, {caSign("ca-bob", "p256A", "sha384", "opus-bob")}}},
		scenario{Name: "ca-clients-holder-and-fingerprint-client-same-key", Threads: [][]op{{caSign("ca-carol", "rsaA", "sha256", "opus-carol"), by("ca-carol", lst)}, {sA2}}},
		scenario{Name: "ca-clients-entry-without-nickname-two-holders-overlap", Threads: [][]op{{caSign("ca-dave", "p256B", "sha256", "")}, {caSign("ca-erin", "p256B", "sha512", "opus-erin")}}},
	)
	if thorough {
		sc = append(sc,
			scenario{Name: "ca-clients-three-holders-of-one-ca-overlap", Threads: [][]op{{caSign("ca-alice", "rsaA", "sha256", "")}, {caSign("ca-bob", "p256A", "sha384", "opus-bob")}, {caSign("ca-carol", "rsaA", "sha512", "opus-carol")}}},
			scenario{Name: "ca-clients-two-cas-two-holders-each", Threads: [][]op{{caSign("ca-alice", "rsaA", "sha256", ""), by("ca-bob", lst)}, {caSign("ca-dave", "p256B", "sha256", "opus-dave"), by("ca-erin", op{Kind: "keyinfo", Key: "nightonly"})}}},
		)
	}
	// server.numworkers set on a server with an in-process token, and requests
	// that cannot be served (they fail while the key and its certificates are
	// prepared: the key has no certificate of the kind the signature type needs,
	// the key's certificate file is missing) before and among requests that can:
	// numworkers of the former, then a valid one; and two threads that each send a
	// refused request followed by a valid one
	noPgp := func(name string) op {
		return op{Kind: "sign", Name: name, Key: "p256A", Digest: "sha256", SigType: "pgp", Refused: "key p256A has no PGP certificate"}
	}
	noCert := func(name string) op {
		return op{Kind: "sign", Name: name, Key: "nocert", Digest: "sha256", Refused: "the certificate file of key nocert does not exist"}
	}
	for _, nw := range []int{1, 2} {
		for _, k := range []struct {
			name string
			mk   func(string) op
		}{{"no-pgp-certificate", noPgp}, {"certificate-file-missing", noCert}} {
			var seq []op
			for i := 1; i <= nw; i++ {
				seq = append(seq, k.mk(fmt.Sprintf("refused%d.ps1", i)))
			}
			seq = append(seq, sA, sB)
			sc = append(sc, scenario{Name: fmt.Sprintf("numworkers-%d-%s-then-valid", nw, k.name), Threads: [][]op{seq}, NumWorkers: nw, MissingCert: true})
		}
		sc = append(sc, scenario{Name: fmt.Sprintf("numworkers-%d-refused-and-valid-overlap", nw),
			Threads: [][]op{{noPgp("refused1.ps1"), sA}, {noCert("refused2.ps1"), sB}}, NumWorkers: nw, MissingCert: true})
	}
	if thorough {
		sc = append(sc,
			scenario{Name: "numworkers-1-two-valid-overlap", Threads: [][]op{{sA}, {sA2}}, NumWorkers: 1},
			scenario{Name: "numworkers-2-three-refused-and-valid-overlap", Threads: [][]op{{noPgp("refused1.ps1"), sA}, {noCert("refused2.ps1"), sB}, {noPgp("refused3.ps1"), sA2}}, NumWorkers: 2, MissingCert: true})
	}
	if thorough {
		sc = append(sc,
			scenario{"three-mixed", [][]op{{sA, {Kind: "list"}}, {sB}, {{Kind: "healthcheck"}, {Kind: "health"}}}, nil, 0, false},
			scenario{"two-requests-each", [][]op{{sA, sB}, {sA2, sAl}}, nil, 0, false},
			scenario{"other-key-one-client-hangs-up", [][]op{{sLeave, {Kind: "list"}}, {sB}, {{Kind: "hangup", Target: sLeave.Name}}}, nil, 0, false},
			scenario{"stalled-ping-three-threads", [][]op{{{Kind: "healthcheck"}}, {{Kind: "health"}, sB}, {by("night", lst), {Kind: "health"}}}, &stall{"ping", "", "tok"}, 0, false},
			scenario{"stalled-getkey-three-threads", [][]op{{sA}, {{Kind: "health"}, {Kind: "home"}}, {by("rel", lst), sA2}}, &stall{"getkey", "rsaA", "tok"}, 0, false},
			scenario{"two-tokens-stalled-getkey-on-the-other-token", [][]op{{sT2}, {sA, {Kind: "keyinfo", Key: "p256A"}, lst}}, &stall{"getkey", "t2key", "tok2"}, 0, false},
			scenario{"expired-cache-one-client-hangs-up", [][]op{{sA, {Kind: "expire"}, sLeave}, {sA2}, {{Kind: "hangup", Target: sLeave.Name}}}, nil, 0, false},
		)
	}
	return sc
}

func auditNames(blob []byte) (names []string, torn int) {
	for _, l := range strings.Split(strings.TrimSuffix(string(blob), "\n"), "\n") {
		if l == "" {
			continue
		}
		var m map[string]any
		if json.Unmarshal([]byte(l), &m) != nil {
			torn++
			continue
		}
		a := m
		if x, ok := m["attributes"].(map[string]any); ok {
			a = x
		}
		get := func(k string) string {
			if v, ok := a[k]; ok {
				return fmt.Sprint(v)
			}
			return "-"
		}
		names = append(names, strings.ToLower(strings.Join([]string{get("client.filename"), get("sig.keyname"), get("sig.hash"), get("client.name"), get("client.dn"), get("client.ip")}, "|")))
	}
	return
}

// isoCache: the response of one request alone on a fresh server, per
// configuration variant (it depends on nothing else).
var isoCache = map[string]outcome{}

func configure(sc scenario) {
	rateLimited = strings.HasPrefix(sc.Name, "rate-limited-")
	twoTokens = strings.HasPrefix(sc.Name, "two-tokens-")
	numWorkers = sc.NumWorkers
	missingCert = sc.MissingCert
}

func resetConfigVariant() { rateLimited, twoTokens, numWorkers, missingCert = false, false, 0, false }

// isolation runs every op alone on a fresh server: the expected responses.
func isolation(sc scenario) map[string]outcome {
	configure(sc)
	exp := map[string]outcome{}
	for _, th := range sc.Threads {
		for _, o := range th {
			if o.Kind == "close" || o.Kind == "expire" || o.Kind == "hangup" {
				continue
			}
			ck := fmt.Sprintf("%v|%v|%s", rateLimited, twoTokens, o)
			if numWorkers != 0 || missingCert {
				ck = fmt.Sprintf("numworkers=%d|%v|%s", numWorkers, missingCert, ck)
			}
			if e, ok := isoCache[ck]; ok {
				exp[o.String()] = e
				continue
			}
			resetLeaves(sc)
			vos.Reset()
			vos.Mkdir("/vfs/audit")
			vtime.ResetClock()
			faketoken.Reset()
			cfg := mkConfig(auditPath)
			relicx.Use(cfg)
			srv, err := server.New(cfg)
			if err != nil {
				panic(err)
			}
			e := perform(srv, srv.Handler(), o)
			srv.Close()
			if o.Kind == "sign" {
				// a request that is answered 200 in isolation must be right in isolation;
				// one that is refused (this client may not use this key, or is not known)
				// must be refused the same way whatever else goes on
				if o.Refused != "" {
					if e.Status == 200 {
						fmt.Printf("HARNESS-ERROR: isolated request that cannot be served (%s) is answered 200: %s\n", o.Refused, o)
						os.Exit(2)
					}
				} else if e.Status == 200 {
					if why := checkSign(o, e); why != "" {
						fmt.Println("HARNESS-ERROR: isolated request fails:", o, why)
						os.Exit(2)
					}
				} else if allowed(o) {
					fmt.Printf("HARNESS-ERROR: isolated request of a client whose roles grant the key is refused: %s: %d %.100s\n", o, e.Status, e.Body)
					os.Exit(2)
				}
			}
			isoCache[ck] = e
			exp[o.String()] = e
		}
	}
	return exp
}

// allowed: the configuration (mkConfig) gives this op's client a role that this
// op's key lists. Used only to make sure the isolated runs are not vacuous.
func allowed(o op) bool {
	roles := map[string][]string{"rsaA": {"r", "rel"}, "p256A": {"r", "night"}, "p256B": {"r", "rel", "night"}, "p384": {"r", "night"},
		"relonly": {"rel"}, "nightonly": {"night"}, "t2key": {"r"}}
	kr, ok := roles[targetOf(o.Key)]
	if !ok {
		kr = []string{"r"}
	}
	for _, a := range kr {
		for _, b := range clients[o.Client].Roles {
			if a == b {
				return true
			}
		}
	}
	return false
}

type scenarioStats struct {
	Executions, ChoicePoints int
	AuditOrders              map[string]bool
}

// runScenario explores every interleaving of the scenario's threads with at
// most bound preemptions and judges each execution.
func runScenario(sc scenario, bound int, keyName string) scenarioStats {
	exp := isolation(sc)
	seenOrders := map[string]bool{}
	st := mc.Explore(mc.Options{MaxDeviations: bound}, func(c *mc.Ctx) {
		configure(sc)
		vos.Reset()
		vos.Mkdir("/vfs/audit")
		vtime.ResetClock()
		faketoken.Reset()
		cfg := mkConfig(auditPath)
		relicx.Use(cfg)
		srv, err := server.New(cfg)
		if err != nil {
			panic(err)
		}
		h := srv.Handler()
		resetLeaves(sc)
		// the token honours the caller's context the way a rate-limited or
		// remote token does: a lookup that is overtaken by the client going
		// away fails with the context's error
		faketoken.S.GetKey = func(ctx context.Context, tok, key string) (token.Key, error) {
			return nil, ctx.Err()
		}
		s := mc.NewSched(c)
		// the stalled token operation: the thread that reaches it first parks on
		// gate; the gate opens when no thread can take a step any more
		var (
			stMu     sync.Mutex
			parked   = -1
			gateOpen bool
			waiting  []op
			gate     = new(int)
			inflight = make([]*op, len(sc.Threads))
		)
		// requests inside the server, and those the harness had to end itself
		pending := map[string]context.CancelFunc{}
		abandoned := map[string]bool{}
		inFlight = func(o op, hangUp context.CancelFunc, entering bool) {
			stMu.Lock()
			defer stMu.Unlock()
			if entering {
				pending[o.String()] = hangUp
			} else {
				delete(pending, o.String())
			}
		}
		defer func() { inFlight = nil }()
		s.OnStuck = func() bool {
			stMu.Lock()
			defer stMu.Unlock()
			if sc.Stall != nil && parked >= 0 && !gateOpen {
				for i, o := range inflight {
					if i != parked && o != nil {
						waiting = append(waiting, *o)
					}
				}
				gateOpen = true
				s.Unblock(gate)
				return true
			}
			// No thread can take a step and nothing of the environment is outstanding:
			// a request that is still inside the server waits for something that will
			// never happen. Its client hangs up (once) so that the execution ends; the
			// request is reported as never answered.
			n := 0
			for name, hangUp := range pending {
				if !abandoned[name] {
					abandoned[name] = true
					hangUp()
					n++
				}
			}
			return n > 0
		}
		faketoken.S.Hook = func(call faketoken.Call) {
			t := s.Me()
			if t == nil {
				return
			}
			t.Point("token." + call.Op)
			if sc.Stall == nil || call.Op != sc.Stall.Op || call.Token != sc.Stall.Tok || sc.Stall.Key != "" && call.Key != sc.Stall.Key {
				return
			}
			stMu.Lock()
			first := parked < 0
			if first {
				parked = t.ID
			}
			stMu.Unlock()
			for first && mc.Active() == s {
				stMu.Lock()
				open := gateOpen
				stMu.Unlock()
				if open {
					break
				}
				t.Block(gate, "token."+call.Op+":stalled")
			}
		}
		results := make([][]outcome, len(sc.Threads))
		for i, th := range sc.Threads {
			i, th := i, th
			s.Go(fmt.Sprintf("t%d", i+1), func() {
				for k := range th {
					o := th[k]
					if t := s.Me(); t != nil {
						t.Point("begin:" + o.Kind)
					}
					stMu.Lock()
					inflight[i] = &o
					stMu.Unlock()
					out := perform(srv, h, o)
					stMu.Lock()
					inflight[i] = nil
					stMu.Unlock()
					results[i] = append(results[i], out)
				}
			})
		}
		s.Run()
		closed := false
		for _, th := range sc.Threads {
			for _, o := range th {
				if o.Kind == "close" {
					closed = true
				}
			}
		}
		if !closed {
			srv.Close()
		}
		run.Eval(1)
		desc := fmt.Sprintf("scenario %s, schedule %v", sc.Name, c.Trace)
		if keyName != sc.Name {
			desc = fmt.Sprintf("%s: history %v", keyName, sc.Threads[0])
		}
		replay := map[string]any{"scenario": sc.Name, "choices": c.Trace, "labels": c.Labels}
		if s.Deadlock {
			run.Violation("sched:deadlock:"+keyName, desc+"\n"+strings.Join(s.Log, " "), replay)
			return
		}
		if s.Horizon {
			run.Capped("an execution exceeded the scheduling-point horizon: " + sc.Name)
			return
		}
		if len(s.Panics) > 0 {
			run.Violation("sched:panic:"+keyName, desc+": "+s.Panics[0], replay)
			return
		}
		if c.Deviations() > 0 {
			run.Distinct(sc.Name + fmt.Sprint(c.Trace))
		}
		if c.Deviations() == bound && len(c.Trace) > 8 {
			run.Sample(map[string]any{"scenario": sc.Name, "choices": c.Trace, "points": len(s.Log)})
		}
		if sc.Stall != nil {
			// who had to wait until the stalled token operation came back?
			class := "stalled-operation-outlasts-every-other-request"
			switch {
			case parked < 0:
				class = "stall-point-not-reached"
			case len(waiting) > 0:
				class = "only-requests-for-the-stalled-token-wait"
			}
			for _, o := range waiting {
				if need := needsToken(o); need != "*" && need != sc.Stall.Tok {
					what := "needs no token"
					if need != "" {
						what = "needs only token " + need
					}
					class = "request-waits-for-a-token-it-does-not-need"
					run.Violation("sched:request-waits-for-stalled-token:"+o.Kind+":"+keyName,
						fmt.Sprintf("%s: %s (%s) could not be answered while token.%s(%s) of token %s had not returned: with nothing else left to run it was still waiting\n%s",
							desc, o, what, sc.Stall.Op, sc.Stall.Key, sc.Stall.Tok, strings.Join(s.Log, " ")), replay)
				}
			}
			run.Outcome("sched:" + keyName + ":" + class)
		}
		wantAudit := []string{}
		for _, outs := range results {
			for _, out := range outs {
				o := out.Op
				e, has := exp[o.String()]
				if keyName != sc.Name && has {
					// what the histories' requests are answered in isolation
					cl := o.Client
					if cl == "" {
						cl = "r"
					}
					run.Outcome(fmt.Sprintf("%s:%s by %s:%d", keyName, o.Kind, cl, e.Status))
				}
				stMu.Lock()
				gaveUp := abandoned[o.String()]
				stMu.Unlock()
				if gaveUp {
					run.Outcome("sched:" + keyName + ":request-never-answered")
					run.Violation("sched:request-never-answered:"+o.Kind+":"+keyName,
						fmt.Sprintf("%s: %s was still inside the server when no thread could take a step any more and nothing was outstanding (it waits for something no other request will ever do); the harness then ended its context like a client hanging up and it returned %d %.100s\n%s",
							desc, o, out.Status, out.Body, strings.Join(s.Log, " ")), replay)
					continue
				}
				switch o.Kind {
				case "sign":
					if o.Leaves && out.Status != 200 && strings.Contains(string(out.Body)+out.Extra, "cancel") || o.Leaves && out.Status == 499 {
						// its own client went away: any failure that says so is this request's own result
						run.Outcome("sched:" + keyName + ":leaving-client-request-abandoned")
						continue
					}
					if has && e.Status != 200 {
						// refused in isolation (the client's roles do not grant the key, or the
						// client is not known): refused the same way here
						if o.Refused != "" {
							run.Outcome(fmt.Sprintf("sched:%s:refused in isolation (%s): %d", keyName, o.Refused, e.Status))
						}
						if out.Status != e.Status || !bytes.Equal(out.Body, e.Body) {
							run.Violation("sched:response-differs-from-isolation:refused-sign:"+keyName, fmt.Sprintf("%s: %s: got %d %.100s want %d %.100s", desc, o, out.Status, out.Body, e.Status, e.Body), replay)
						}
						continue
					}
					if why := checkSign(o, out); why != "" {
						run.Violation("sched:sign-response-not-isolated:"+keyName, fmt.Sprintf("%s: %s: %s", desc, o, why), replay)
					} else {
						wantAudit = append(wantAudit, wantAuditLine(o))
					}
				case "list", "keyinfo", "home":
					if has && (out.Status != e.Status || !bytes.Equal(out.Body, e.Body)) {
						run.Violation("sched:response-differs-from-isolation:"+o.Kind+":"+keyName, fmt.Sprintf("%s: %s: got %d %.100s want %d %.100s", desc, o, out.Status, out.Body, e.Status, e.Body), replay)
					}
				case "health":
					if out.Status != 200 && !closed {
						run.Violation("sched:health-fails:"+keyName, fmt.Sprintf("%s: %d", desc, out.Status), replay)
					}
				case "healthcheck":
					if out.Extra != "true" && !closed {
						run.Violation("sched:healthcheck-fails:"+keyName, desc, replay)
					}
				case "close":
					if out.Extra != "<nil>" {
						run.Violation("sched:close-error:"+keyName, desc+": "+out.Extra, replay)
					}
				}
			}
		}
		got, torn := auditNames(vos.Snapshot(auditPath))
		order := strings.Join(got, " < ")
		seenOrders[order] = true
		for i := range got {
			got[i] = strings.ToLower(got[i])
		}
		for i := range wantAudit {
			wantAudit[i] = strings.ToLower(wantAudit[i])
		}
		sort.Strings(got)
		sort.Strings(wantAudit)
		if torn > 0 || strings.Join(got, ";") != strings.Join(wantAudit, ";") {
			run.Violation("sched:audit-records-do-not-match-signatures:"+keyName, fmt.Sprintf("%s: audit has %v (torn lines %d), successful signs %v", desc, got, torn, wantAudit), replay)
		}
		run.Outcome("sched:" + keyName + ":ok")
	})
	return scenarioStats{st.Executions, st.ChoicePoints, seenOrders}
}

func schedPhase() {
	defer resetConfigVariant()
	for _, sc := range scenarios(run.Thorough()) {
		if os.Getenv("C14_ONLY") == "ca" && !strings.HasPrefix(sc.Name, "ca-") { // development aid
			continue
		}
		bound := 2
		if run.Thorough() && len(sc.Threads) < 3 {
			bound = 3
		}
		st := runScenario(sc, bound, sc.Name)
		run.AddStates(st.Executions)
		run.AddTransitions(st.ChoicePoints)
		info := map[string]any{"executions": st.Executions, "preemption_bound": bound, "distinct_audit_orders": len(st.AuditOrders)}
		if sc.Stall != nil {
			info["stalled_token_operation"] = fmt.Sprintf("%s.%s(%s)", sc.Stall.Tok, sc.Stall.Op, sc.Stall.Key)
		}
		run.Set("schedules:"+sc.Name, info)
	}
}

// ---- (a') histories of requests by clients with different role sets ----

// clientAlphabet: what each client may ask for. The keys are chosen so that every
// client is granted some and refused others (rsaA: r, rel; nightonly: night;
// p256B: r, rel, night).
func clientAlphabet() []op {
	var ops []op
	order := clientOrder
	if run.Thorough() {
		// ... and holders of CA-issued certificates: one of the CA entry with a
		// nickname, two of the entry without
		order = append(append([]string{}, order...), "ca-alice", "ca-dave", "ca-erin")
	}
	for _, c := range order {
		tag := c
		if tag == "" {
			tag = "r"
		}
		ops = append(ops,
			by(c, op{Kind: "list"}),
			by(c, op{Kind: "keyinfo", Key: "aliasA"}),
			by(c, op{Kind: "keyinfo", Key: "nightonly"}),
			by(c, op{Kind: "sign", Name: "h-" + tag + ".ps1", Key: "p256B", Digest: "sha256", Desc: "opus-" + tag}),
		)
	}
	return ops
}

// clientHistories: every sequence of up to depth requests over the alphabet,
// issued one after the other against one server; each response must be the one
// the same request gets alone on a fresh server.
func clientHistories() {
	defer resetConfigVariant()
	alpha := clientAlphabet()
	depth := 2
	if run.Thorough() {
		depth = 3
	}
	total := 0
	var rec func(prefix []op)
	rec = func(prefix []op) {
		if len(prefix) > 0 {
			if len(prefix) == 3 {
				// depth 3: listings and key info only (a signature costs a key operation
				// and two verifications)
				for _, o := range prefix {
					if o.Kind == "sign" {
						return
					}
				}
			}
			sc := scenario{Name: "client-history", Threads: [][]op{append([]op{}, prefix...)}}
			// the same request twice in one history would need two names; the second
			// occurrence is renamed
			seen := map[string]int{}
			who := map[string]bool{}
			for i := range sc.Threads[0] {
				o := &sc.Threads[0][i]
				who[o.Client] = true
				if o.Kind == "sign" {
					seen[o.Name]++
					if n := seen[o.Name]; n > 1 {
						o.Name = fmt.Sprintf("%s-%d.ps1", strings.TrimSuffix(o.Name, ".ps1"), n)
					}
				}
			}
			st := runScenario(sc, 0, "client-histories")
			total += st.Executions
			run.AddStates(st.Executions)
			run.AddTransitions(st.ChoicePoints)
			if len(who) > 1 {
				run.Distinct("client-history|" + fmt.Sprint(sc.Threads[0]))
			}
		}
		if len(prefix) == depth {
			return
		}
		for _, o := range alpha {
			rec(append(prefix, o))
		}
	}
	rec(nil)
	views := map[string]string{}
	for k, e := range isoCache {
		if e.Op.Kind == "list" && strings.HasPrefix(k, "false|false|") {
			cl := e.Op.Client
			if cl == "" {
				cl = "r"
			}
			views[cl] = fmt.Sprintf("%d %s", e.Status, strings.TrimSpace(string(e.Body)))
		}
	}
	run.Set("client_histories", map[string]any{"clients": len(alpha) / 4, "alphabet": len(alpha), "depth": depth, "histories": total, "key_listing_in_isolation": views})
}

func auditHash(d string) string {
	switch d {
	case "sha256":
		return "sha-256"
	case "sha384":
		return "sha-384"
	case "sha512":
		return "sha-512"
	}
	return d
}

// ---- (b) free-running race pass (this binary built with -race) ----

func racePass() {
	iters := 40
	if os.Getenv("VERIF_TIER") == "thorough" {
		iters = 200
	}
	dir, _ := os.MkdirTemp(os.Getenv("C14_SCRATCH"), "c14race-")
	defer os.RemoveAll(dir)
	scratch = dir
	n := 0
	// ONE server for the whole pass: relic keeps its health state in package
	// variables that server.New re-initialises without the mutex, so a second
	// server in the same process would race with the first one's (finished)
	// health loop - an artefact of the harness, not of a deployment.
	faketoken.Reset()
	audit := filepath.Join(dir, "audit.log")
	twoTokens = true // the one server of this pass serves every scenario's keys
	missingCert = true
	cfg := mkConfig(audit)
	relicx.Use(cfg)
	srv, err := server.New(cfg)
	if err != nil {
		panic(err)
	}
	h := srv.Handler()
	all := scenarios(true)
	sort.SliceStable(all, func(i, j int) bool { return all[j].Name == "close-during-healthcheck" && all[i].Name != all[j].Name })
	for it := 0; it < iters; it++ {
		for _, sc := range all {
			if sc.Name == "close-during-healthcheck" && it != iters-1 {
				continue // closing is final: last iteration only
			}
			var wg sync.WaitGroup
			for _, th := range sc.Threads {
				th := th
				wg.Add(1)
				go func() {
					defer wg.Done()
					for _, o := range th {
						if o.Kind == "expire" {
							continue // real clock in this pass
						}
						out := perform(srv, h, o)
						if o.Kind == "sign" && o.Refused != "" {
							if out.Status == 200 {
								fmt.Printf("RACEPASS-MISMATCH scenario=%s %s: answered 200 although %s\n", sc.Name, o, o.Refused)
							}
						} else if o.Kind == "sign" {
							if why := checkSign(o, out); why != "" {
								fmt.Printf("RACEPASS-MISMATCH scenario=%s %s: %s\n", sc.Name, o, why)
							}
						}
					}
				}()
			}
			wg.Wait()
			n++
		}
	}
	// put the closing scenario last
	fmt.Printf("RACEPASS-DONE runs=%d\n", n)
}

// ---- (c) graceful shutdown on a real daemon ----

func shutdownPhase() {
	dir, _ := os.MkdirTemp("", "c14d-")
	defer os.RemoveAll(dir)
	points := []string{"getkey", "sign"}
	for _, pt := range points {
		faketoken.Reset()
		vos.Reset()
		vos.Mkdir("/vfs/audit")
		cfg := mkConfig(auditPath)
		ln, err := net.Listen("tcp", "127.0.0.1:0")
		if err != nil {
			panic(err)
		}
		addr := ln.Addr().String()
		ln.Close()
		cfg.Server.ListenHTTP = addr
		cfg.Server.TrustedProxies = []string{"127.0.0.1"}
		if err := cfg.Normalize(""); err != nil {
			panic(err)
		}
		relicx.Use(cfg)
		d, err := daemon.New(cfg, false)
		if err != nil {
			panic(err)
		}
		serveDone := make(chan error, 1)
		go func() { serveDone <- d.Serve() }()
		reached := make(chan struct{})
		release := make(chan struct{})
		var once sync.Once
		faketoken.S.Hook = func(call faketoken.Call) {
			if call.Op == pt {
				once.Do(func() {
					close(reached)
					<-release
				})
			}
		}
		o := op{Kind: "sign", Name: "inflight.ps1", Key: "rsaA", Digest: "sha256"}
		type resT struct {
			status int
			body   []byte
			err    error
		}
		resCh := make(chan resT, 1)
		go func() {
			req, _ := http.NewRequest("POST", "http://"+addr+o.request().URL.String(), bytes.NewReader(body(o)))
			req.Header.Set("X-Forwarded-For", "192.0.2.77")
			req.Header.Set("Ssl-Client-Cert", url.PathEscape(string(pemCert(relicx.ClientCert()))))
			var resp *http.Response
			var err error
			for i := 0; i < 100; i++ {
				resp, err = http.DefaultTransport.RoundTrip(req)
				if err == nil {
					break
				}
				time.Sleep(20 * time.Millisecond)
				req.Body = io.NopCloser(bytes.NewReader(body(o)))
			}
			if err != nil {
				resCh <- resT{err: err}
				return
			}
			b, _ := io.ReadAll(resp.Body)
			resp.Body.Close()
			resCh <- resT{status: resp.StatusCode, body: b}
		}()
		select {
		case <-reached:
		case <-time.After(30 * time.Second):
			fmt.Println("HARNESS-ERROR: in-flight request never reached the token")
			os.Exit(2)
		}
		closeDone := make(chan error, 1)
		go func() { closeDone <- d.Close() }()
		// Close must not complete while the request is in flight
		early := false
		select {
		case <-closeDone:
			early = true
		case <-time.After(300 * time.Millisecond):
		}
		// ... and neither must Serve return (relic serve exits when it does, taking
		// the in-flight handler with it)
		serveEarly := false
		var serveErr error
		select {
		case serveErr = <-serveDone:
			serveEarly = true
		default:
		}
		close(release)
		res := <-resCh
		if !early {
			select {
			case <-closeDone:
			case <-time.After(60 * time.Second):
				run.Violation("shutdown:close-never-returns", "daemon.Close did not return within 60 s after the in-flight request was released (point "+pt+")", pt)
			}
		}
		if !serveEarly {
			<-serveDone
		}
		run.Eval(1)
		run.Distinct("shutdown|" + pt)
		if serveEarly {
			run.Violation("shutdown:serve-returns-while-a-request-is-in-flight", fmt.Sprintf("daemon.Close while a /sign request is blocked at token.%s: Daemon.Serve returned (%v) before the request finished; the process would exit with the request unanswered", pt, serveErr), pt)
		}
		desc := fmt.Sprintf("daemon.Close while a /sign request is blocked at token.%s: request -> status %d err %v; Close returned early: %v", pt, res.status, res.err, early)
		if early {
			run.Violation("shutdown:close-does-not-wait-for-in-flight-request", desc, pt)
		}
		if res.err != nil || res.status != 200 {
			run.Violation("shutdown:in-flight-request-not-finished", desc, pt)
		} else if why := checkSign(o, outcome{Op: o, Status: res.status, Body: res.body}); why != "" {
			run.Violation("shutdown:in-flight-response-wrong", desc+": "+why, pt)
		}
		run.Outcome("shutdown:" + pt + ":ok")
	}
}

func pemCert(c *x509.Certificate) []byte {
	return []byte("-----BEGIN CERTIFICATE-----\n" + b64(c.Raw) + "\n-----END CERTIFICATE-----\n")
}

func b64(b []byte) string {
	const enc = "ABCDEFGHIJKLMNOPQRSTUVWXYZabcdefghijklmnopqrstuvwxyz0123456789+/"
	var sb strings.Builder
	for i := 0; i < len(b); i += 3 {
		var n uint32
		rem := len(b) - i
		for j := 0; j < 3; j++ {
			n <<= 8
			if j < rem {
				n |= uint32(b[i+j])
			}
		}
		sb.WriteByte(enc[n>>18&63])
		sb.WriteByte(enc[n>>12&63])
		if rem > 1 {
			sb.WriteByte(enc[n>>6&63])
		} else {
			sb.WriteByte('=')
		}
		if rem > 2 {
			sb.WriteByte(enc[n&63])
		} else {
			sb.WriteByte('=')
		}
	}
	return sb.String()
}

func main() {
	if os.Getenv("C14_TSDEBUG") == "" {
		relicx.Quiet()
	}
	if os.Getenv("C14_RACEPASS") != "" {
		racePass()
		return
	}
	if spec := os.Getenv("C14_TSCHILD"); spec != "" {
		tsChild(spec)
		return
	}
	run = vlib.NewRun("C14", "model_checking")
	dir, err := os.MkdirTemp("", "c14-")
	if err != nil {
		panic(err)
	}
	defer os.RemoveAll(dir)
	scratch = dir
	switch os.Getenv("C14_ONLY") { // development aid
	case "timestamp":
		timestampPhase()
	case "ca":
		schedPhase()
	case "signals":
		signalPhase()
	}
	if os.Getenv("C14_ONLY") != "" {
		run.Capped("C14_ONLY set")
		os.RemoveAll(dir)
		run.Finish()
	}
	schedPhase()
	clientHistories()
	timestampPhase()
	shutdownPhase()
	signalPhase()
	// race pass in the -race binary
	cmd := exec.Command("/verif/.build/bin/c14race")
	cmd.Env = append(os.Environ(), "C14_RACEPASS=1", "C14_SCRATCH="+dir, "VERIF_TIER="+run.Tier, "GORACE=halt_on_error=0 exitcode=0")
	outb, rerr := cmd.CombinedOutput()
	out := string(outb)
	run.Eval(1)
	races := strings.Count(out, "WARNING: DATA RACE")
	run.Set("race_pass", map[string]any{"data_race_reports": races, "completed": strings.Contains(out, "RACEPASS-DONE"), "note": "free-running goroutines with the race detector; not exhaustive - evidence of a different kind for the 'no data race' clause"})
	if races > 0 {
		// key by the first relic frame of the first report
		key := "race:unknown"
		for _, l := range strings.Split(out, "\n") {
			l = strings.TrimSpace(l)
			if strings.HasPrefix(l, "github.com/sassoftware/relic") {
				key = "race:" + l[:strings.LastIndex(l, "(")]
				break
			}
		}
		tail := out
		if len(tail) > 3000 {
			tail = tail[:3000]
		}
		run.Violation(key, fmt.Sprintf("%d data race report(s) in the free-running pass:\n%s", races, tail), nil)
	}
	if strings.Contains(out, "RACEPASS-MISMATCH") {
		i := strings.Index(out, "RACEPASS-MISMATCH")
		run.Violation("racepass:sign-response-not-isolated", out[i:i+min(400, len(out)-i)], nil)
	}
	if !strings.Contains(out, "RACEPASS-DONE") {
		run.Capped(fmt.Sprintf("race pass did not complete: %v", rerr))
	}
	_ = context.Background
	run.Rule("(a) for each of 28 (thorough 39) scenarios of 1-3 threads (sign with two keys, same key, alias, list/keyinfo, health check + /health, key-cache expiry between signs, Close (then Close again) during a health check and /health, three signers, a client hanging up, rate-limited tokens, gzip responses; requests by clients with different role sets (r, rel, night, rel+night, a role no key lists) over keys with different role lists overlapping; callers admitted through a CA certificate (clients.<name>.certificate; two harness CAs made at run time: one entry with a nickname and three certificate holders, one entry without a nickname and two holders; each caller from an address of its own): two holders of one CA overlapping, a holder and a fingerprint-configured client on the same key, two holders of the entry without nickname (thorough also: three holders of one CA, two CAs with two holders each); and 5 (thorough 8) scenarios in which the first token.ping / token.getkey(key) / token.sign(key) reached does not return until no thread can take a step any more, on one token or with a second token configured; and server.numworkers in {1,2} set on the server with its in-process token, with requests that cannot be served - they fail while the key and its certificates are prepared: sigtype pgp for a key without a PGP certificate, a key whose certificate file does not exist - before and among requests that can: numworkers refused requests then two valid ones on one connection, and two threads each sending a refused request followed by a valid one (thorough also: two valid requests overlapping with numworkers 1, three threads with numworkers 2)): every interleaving with <=2 preemptions (thorough 3 for 2-thread scenarios) over the hooked mutex/token/audit-file operations (every system call on the audit file is a scheduling point: open, write, close and - should the sink use them - seek, stat, read/pread, pwrite, truncate, or a callback on the raw descriptor); oracle per request = result in isolation (patch applied to that request's body verifies, names its key, digest and description; a refused request is refused with the same status and body; a request that is still inside the server when no thread can take a step and nothing of the environment is outstanding is reported as never answered - the harness then ends its context, as a client hanging up would, so that the execution ends; listings, key info, home byte-equal), audit lines = successful signs, each record compared in every field that identifies the request and its caller: client.filename, sig.keyname, sig.hash, client.name (the nickname of the clients: entry; for an entry without one the first 12 hex digits of the SHA-256 of the caller's public key), client.dn (the subject of the caller's certificate in OpenSSL one-line form for CA-admitted callers, absent for fingerprint-configured ones) and client.ip (the address that request came from), and in the stall scenarios: a request that needs no token (health, list_keys, home) or only the other token must not be among the requests that are still waiting when nothing but the stalled token operation is left to finish; (a') every history of <=2 (thorough <=3, without signing at depth 3) requests from the alphabet {list_keys, key info of a key granted to r+rel, key info of a key granted to night only, sign with a key granted to r+rel+night} x 6 clients (the five role sets and a certificate the server does not know) issued sequentially against one server, same oracle; (b) free-running -race pass over all scenarios' thread bodies; (c) daemon.Close released at 2 hooked points of an in-flight request on a real loopback daemon. (d) the real `relic serve` process (built from /repo's main package without shims) and the signals it registers for (read from the signal.Notify call in cmdline/servecmd: SIGINT SIGTERM SIGQUIT SIGUSR2 ask it to stop, SIGUSR1 - log re-opening - does not): every history of <=2 (thorough <=3) registered signals with no stop signal, or exactly one and that at its end (thorough also those ending in two stop signals: only the exit of the process is required), one server process per history, delivered while a /sign request is in flight (headers sent with Expect: 100-continue, 100 Continue received = the handler is reading the body, half the body sent; then the signals one by one, each taken by the process before the next; then the rest of the body): the request is answered 200 with a signature over its body by its key and digest, the audit file holds exactly the records of the answered requests, after a stop signal the process exits (a process still running 60 s after the answer is a violation), without one it goes on serving (a second request is answered; SIGTERM then ends it). distinct_nontrivial = schedules with at least one preemption, and histories with at least two different clients")
	run.Assume("a stalled token operation is modelled at its extreme: it outlasts everything else that can happen (the scheduler releases it only when no thread is enabled); intermediate durations are not enumerated separately")
	run.Assume("the audit file is an in-memory file (verif/shim/vos) emulating *os.File system call by system call (O_APPEND: the kernel positions and writes atomically; otherwise the descriptor's own offset; Seek/ReadAt/WriteAt/Stat/Truncate; SyscallConn/Fd give the descriptor of a real file mirroring it, one callback = one atomic step)")
	run.Assume("clients are configured by certificate fingerprint (clients.<fingerprint>) or admitted through a CA certificate (clients.<name>.certificate, certificates issued directly by the CA, subjects of one CN attribute); intermediate CAs between the configured CA and the caller, multi-attribute subjects and clients authenticated through a policy server or Azure AD are not enumerated")
	run.Assume("signal histories: the in-flight request is at one point (the handler reading the body); signals the serve command does not register for (their default action ends the process) are not sent; what each registered signal asks for is fixed by the harness (POSIX termination requests and einhorn's USR2 = stop, USR1 = go on), a registered signal outside that table is left out and reported as capped; two signals are told apart in time by waiting until the first is no longer pending plus 300 ms - should the process still see them in the other order, the verdict is the same for every history that is judged")
	run.Assume("net/http's own goroutines are not under the scheduler; the shutdown clause is explored only at the handler's hooked points")
	run.Assume("the 'no data race' clause rests on the race detector over free-running executions (not exhaustive)")
	os.RemoveAll(dir) // Finish exits the process: deferred calls do not run
	run.Finish()
}

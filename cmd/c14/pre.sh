#!/bin/bash
# builds the free-running race-detector variant of the harness: same bodies,
# real sync/time/os (no shims rewritten into relic), -race
set -e
cd /verif
.build/bin/overlaygen -conf overlay.base.conf,cmd/c14/overlay-race.conf -out .build/overlay-c14race >/dev/null
go build -race -tags verif -overlay .build/overlay-c14race/overlay.json -o .build/bin/c14race ./cmd/c14

#!/bin/bash
# builds the free-running race-detector variant of the harness: same bodies,
# real sync/time/os (no shims rewritten into relic), -race
set -e
cd /verif
.build/bin/overlaygen -conf overlay.base.conf,cmd/c14/overlay-race.conf -out .build/overlay-c14race >/dev/null
go build -race -tags verif -overlay .build/overlay-c14race/overlay.json -o .build/bin/c14race ./cmd/c14
# the real relic binary (.build/bin/c14relic) from /repo's main package (honouring
# VERIF_MUTANT_DIR) through the base overlay, without C14's shims: `relic serve`
# for the signal phase
export GOFLAGS=-mod=mod GOPROXY=off GOSUMDB=off GOTOOLCHAIN=local
export GOCACHE=/verif/.build/gocache
export CGO_ENABLED=${CGO_ENABLED:-1}
flock .build/overlaygen.lock .build/bin/overlaygen -conf overlay.base.conf,cmd/c14/cli.overlay.conf -out .build/overlay-c14cli > .build/overlay-c14cli.log 2>&1
go build -tags verif -overlay .build/overlay-c14cli/overlay.json -o .build/bin/c14relic verif/c14relic

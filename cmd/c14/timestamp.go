package main

// Requests whose keys are configured with different timestamp settings (the default pool of
// authorities, a named pool, none) overlapping on one server. The authorities are real loopback
// servers, so the handler goroutines block in the network stack where the cooperative scheduler
// cannot follow them; this phase therefore works at a coarser grain that needs no scheduler: each
// request is cut into the segments between the points where the handler meets the harness's own
// objects - the first read of the request body and the first write of the response - and only
// one request runs at a time (the others are parked at such a point). Every interleaving of the
// segments of two requests (thorough: three requests cut at the body only) is executed, each in a
// process of its own so that state the server creates lazily on first use is created inside the
// interleaving. Oracle per request = result in isolation: the signature covers that request's body
// with its key and digest, and it carries a countersignature of exactly the pool configured for its
// key (told apart by the time each authority attests) or none; each authority has been asked
// exactly as often as requests for its pool succeeded.

import (
	"bytes"
	"encoding/json"
	"fmt"
	"io"
	"net/http"
	"net/http/httptest"
	"os"
	"os/exec"
	"sort"
	"strings"
	"sync"
	"time"

	"github.com/sassoftware/relic/v8/config"
	"github.com/sassoftware/relic/v8/server"

	"verif/relicx"
	"verif/shim/vos"
	"verif/tsa"
	"verif/vlib"
)

var (
	tsDefaultTime = time.Date(2022, 2, 2, 2, 2, 2, 0, time.UTC)
	tsAltTime     = time.Date(2024, 4, 4, 4, 4, 4, 0, time.UTC)
)

// which pool a key's signatures must be countersigned by ("" = none)
var tsPoolOf = map[string]string{"rsaA": "default", "p256A": "alt", "p384": "alt", "rsaB": ""}

type tsAuthority struct {
	mu    sync.Mutex
	at    time.Time
	asked int
	srv   *httptest.Server
}

func newTSAuthority(at time.Time) *tsAuthority {
	a := &tsAuthority{at: at}
	auth := tsa.Fixture()
	a.srv = httptest.NewServer(http.HandlerFunc(func(w http.ResponseWriter, r *http.Request) {
		body, _ := io.ReadAll(r.Body)
		q, err := tsa.ParseQuery(body)
		if err != nil {
			w.WriteHeader(400)
			return
		}
		a.mu.Lock()
		a.asked++
		n := a.asked
		a.mu.Unlock()
		tok := auth.Token(tsa.TokenOpts{HashAlg: q.HashAlg, Imprint: q.Imprint, Nonce: q.Nonce, GenTime: a.at, Serial: int64(n)})
		w.Header().Set("Content-Type", "application/timestamp-reply")
		w.Write(tsa.Resp(0, tok))
	}))
	return a
}

// gate is a point where a request meets a harness-owned object: the request announces that it
// got there and waits to be let on.
type tsRequest struct {
	o       op
	at      chan string   // the request reports "body", "write" or "done"
	goOn    chan struct{} // the controller lets it on
	cuts    map[string]bool
	out     outcome
	started bool
	over    bool
}

func (r *tsRequest) point(name string) {
	if !r.cuts[name] {
		return
	}
	r.cuts[name] = false // first time only
	r.at <- name
	<-r.goOn
}

type gatedBody struct {
	r   *tsRequest
	rd  *bytes.Reader
	hit bool
}

func (g *gatedBody) Read(p []byte) (int, error) {
	if !g.hit {
		g.hit = true
		g.r.point("body")
	}
	return g.rd.Read(p)
}
func (g *gatedBody) Close() error { return nil }

type gatedWriter struct {
	*httptest.ResponseRecorder
	r *tsRequest
}

func (g gatedWriter) Write(b []byte) (int, error) {
	g.r.point("write")
	return g.ResponseRecorder.Write(b)
}
func (g gatedWriter) WriteHeader(c int) {
	g.r.point("write")
	g.ResponseRecorder.WriteHeader(c)
}

type tsCase struct {
	Ops   []op     `json:"ops"`
	Cuts  []string `json:"cuts"`
	Sched []int    `json:"sched"` // request index per step
}

func (c tsCase) String() string {
	var names []string
	for _, o := range c.Ops {
		names = append(names, o.Key)
	}
	return fmt.Sprintf("requests for keys %v cut at %v, segments run in the order %v", names, c.Cuts, c.Sched)
}

// interleavings of n requests with k segments each
func tsSchedules(n, k int) [][]int {
	var out [][]int
	left := make([]int, n)
	for i := range left {
		left[i] = k
	}
	var rec func(cur []int)
	rec = func(cur []int) {
		if len(cur) == n*k {
			out = append(out, append([]int{}, cur...))
			return
		}
		for i := 0; i < n; i++ {
			if left[i] > 0 {
				left[i]--
				rec(append(cur, i))
				left[i]++
			}
		}
	}
	rec(nil)
	return out
}

func tsCases(thorough bool) []tsCase {
	sDef := op{Kind: "sign", Name: "tsdef.ps1", Key: "rsaA", Digest: "sha256"}
	sDef2 := op{Kind: "sign", Name: "tsdef2.ps1", Key: "rsaA", Digest: "sha384", Desc: "opus-def2"}
	sAlt := op{Kind: "sign", Name: "tsalt.ps1", Key: "p256A", Digest: "sha256", Desc: "opus-alt"}
	sAlt2 := op{Kind: "sign", Name: "tsalt2.ps1", Key: "p384", Digest: "sha256"}
	sNone := op{Kind: "sign", Name: "tsnone.ps1", Key: "rsaB", Digest: "sha256"}
	var cases []tsCase
	pairs := [][]op{{sDef, sAlt}, {sDef, sNone}, {sAlt, sNone}, {sDef, sDef2}, {sAlt, sAlt2}}
	for _, p := range pairs {
		for _, s := range tsSchedules(2, 3) {
			cases = append(cases, tsCase{Ops: p, Cuts: []string{"body", "write"}, Sched: s})
		}
	}
	for _, t := range [][]op{{sDef, sAlt, sNone}, {sDef, sAlt, sDef2}} {
		if thorough {
			for _, s := range tsSchedules(3, 3) {
				cases = append(cases, tsCase{Ops: t, Cuts: []string{"body", "write"}, Sched: s})
			}
		} else {
			for _, s := range tsSchedules(3, 2) {
				cases = append(cases, tsCase{Ops: t, Cuts: []string{"body"}, Sched: s})
			}
		}
	}
	return cases
}

type tsResult struct {
	Problems []string `json:"problems"`
	Classes  []string `json:"classes"`
}

// tsChild runs one case in this (fresh) process and prints its result.
func tsChild(spec string) {
	var c tsCase
	if err := json.Unmarshal([]byte(spec), &c); err != nil {
		panic(err)
	}
	dir, err := os.MkdirTemp("", "c14ts-")
	if err != nil {
		panic(err)
	}
	defer os.RemoveAll(dir)
	scratch = dir
	def, alt := newTSAuthority(tsDefaultTime), newTSAuthority(tsAltTime)
	defer def.srv.Close()
	defer alt.srv.Close()
	vos.Reset()
	vos.Mkdir("/vfs/audit")
	cfg := mkConfig(auditPath)
	cfg.Timestamp = &config.TimestampConfig{URLs: []string{def.srv.URL}, NamedURLs: map[string][]string{"alt": {alt.srv.URL}}, Timeout: 60}
	cfg.Keys["rsaA"].Timestamp = true
	cfg.Keys["p256A"].Timestamper = "alt"
	cfg.Keys["p384"].Timestamper = "alt"
	cfg.Keys["p384"].Timestamp = true
	relicx.Use(cfg)
	srv, err := server.New(cfg)
	if err != nil {
		panic(err)
	}
	h := srv.Handler()
	reqs := make([]*tsRequest, len(c.Ops))
	for i, o := range c.Ops {
		r := &tsRequest{o: o, at: make(chan string, 1), goOn: make(chan struct{}), cuts: map[string]bool{}}
		for _, k := range c.Cuts {
			r.cuts[k] = true
		}
		reqs[i] = r
	}
	start := func(r *tsRequest) {
		r.started = true
		go func() {
			req := r.o.request()
			req.Body = &gatedBody{r: r, rd: bytes.NewReader(body(r.o))}
			rec := httptest.NewRecorder()
			func() {
				defer func() {
					if p := recover(); p != nil {
						rec.Code = 599
						rec.Body.WriteString(fmt.Sprint("panic: ", p))
					}
				}()
				h.ServeHTTP(gatedWriter{rec, r}, req)
			}()
			r.out = outcome{Op: r.o, Status: rec.Code, Body: rec.Body.Bytes()}
			r.at <- "done"
		}()
	}
	var res tsResult
	stuck := false
	for _, i := range c.Sched {
		r := reqs[i]
		if r.over || stuck {
			continue
		}
		if !r.started {
			start(r)
		} else {
			r.goOn <- struct{}{}
		}
		select {
		case where := <-r.at:
			if where == "done" {
				r.over = true
			}
		case <-time.After(120 * time.Second):
			// a request that neither finishes nor reaches a harness-owned object while it is the only
			// one running waits for a request that is parked: reported, not judged further
			res.Problems = append(res.Problems, fmt.Sprintf("request-blocked-by-a-parked-request: the request for key %s made no progress for 120 s while the other requests were parked at their body / response", r.o.Key))
			stuck = true
		}
	}
	if !stuck {
		// let every request run to its end (a request that met fewer cuts than segments is over already)
		for _, r := range reqs {
			for r.started && !r.over {
				r.goOn <- struct{}{}
				if <-r.at == "done" {
					r.over = true
				}
			}
		}
		wantAsked := map[string]int{}
		for _, r := range reqs {
			pool := tsPoolOf[r.o.Key]
			if msg := checkSign(r.o, r.out); msg != "" {
				res.Problems = append(res.Problems, fmt.Sprintf("sign-response-not-isolated: request for key %s: %s", r.o.Key, msg))
				continue
			}
			wantAsked[pool]++
			p := scratch + "/" + r.o.Name
			sigs, err := relicx.Verify(p, relicx.TrustOpts())
			if err != nil || len(sigs) == 0 {
				res.Problems = append(res.Problems, fmt.Sprintf("verify: %v", err))
				continue
			}
			cs := sigs[len(sigs)-1].X509Signature.CounterSignature
			got := ""
			switch {
			case cs == nil:
			case cs.SigningTime.Equal(tsDefaultTime):
				got = "default"
			case cs.SigningTime.Equal(tsAltTime):
				got = "alt"
			default:
				got = "unknown authority at " + cs.SigningTime.String()
			}
			res.Classes = append(res.Classes, fmt.Sprintf("key %s countersigned by %q", r.o.Key, got))
			if got != pool {
				res.Problems = append(res.Problems, fmt.Sprintf("countersignature-from-another-requests-authority: the signature for key %s (timestamp pool %q) carries a countersignature of %q", r.o.Key, pool, got))
			}
		}
		// one audit record per signature returned, complete lines
		names, torn := auditNames(vos.Snapshot(auditPath))
		var wantNames []string
		for _, r := range reqs {
			if r.out.Status == 200 {
				wantNames = append(wantNames, wantAuditLine(r.o))
			}
		}
		sort.Strings(names)
		sort.Strings(wantNames)
		if torn > 0 || strings.Join(names, ",") != strings.Join(wantNames, ",") {
			res.Problems = append(res.Problems, fmt.Sprintf("audit-records-differ-from-signatures-returned: audit file names %v (%d torn lines), signatures returned for %v", names, torn, wantNames))
		}
		for name, a := range map[string]*tsAuthority{"default": def, "alt": alt} {
			if a.asked != wantAsked[name] {
				res.Problems = append(res.Problems, fmt.Sprintf("authority-asked-for-another-request: the %s authority was asked %d times, %d successful requests are configured for it", name, a.asked, wantAsked[name]))
			}
		}
	}
	blob, _ := json.Marshal(res)
	fmt.Println("TSRESULT " + string(blob))
}

func timestampPhase() {
	cases := tsCases(run.Thorough())
	type ret struct {
		res tsResult
		err string
	}
	rets := make([]ret, len(cases))
	vlib.Parallel(len(cases), 16, func(i int) {
		spec, _ := json.Marshal(cases[i])
		cmd := exec.Command(os.Args[0])
		cmd.Env = append(os.Environ(), "C14_TSCHILD="+string(spec), "VERIF_TIER="+run.Tier)
		out, err := cmd.CombinedOutput()
		k := strings.LastIndex(string(out), "TSRESULT ")
		if k < 0 {
			tail := string(out)
			if len(tail) > 1500 {
				tail = tail[len(tail)-1500:]
			}
			rets[i].err = fmt.Sprintf("%v: %s", err, tail)
			return
		}
		line := string(out)[k+len("TSRESULT "):]
		if j := strings.IndexByte(line, '\n'); j >= 0 {
			line = line[:j]
		}
		if jerr := json.Unmarshal([]byte(line), &rets[i].res); jerr != nil {
			rets[i].err = jerr.Error()
		}
	})
	failed := 0
	for i, r := range rets {
		run.Eval(1)
		run.AddStates(1)
		run.AddTransitions(len(cases[i].Sched))
		run.Distinct("timestamp|" + cases[i].String())
		if r.err != "" {
			// a child that dies inside relic's code is the tree's doing; anything else is the harness's
			if strings.Contains(r.err, "panic:") && strings.Contains(r.err, "github.com/sassoftware/relic/v8/") && !strings.Contains(r.err, "verif/cmd/c14.tsChild") {
				run.Violation("timestamp:process-crash", cases[i].String()+": "+r.err, cases[i])
			} else {
				failed++
				fmt.Println("HARNESS-NOTE: timestamp case did not report:", cases[i].String(), r.err)
			}
			continue
		}
		sort.Strings(r.res.Classes)
		run.Outcome("timestamp:" + strings.Join(r.res.Classes, "; "))
		for _, p := range r.res.Problems {
			key := "timestamp:" + strings.SplitN(p, ":", 2)[0]
			run.Violation(key, cases[i].String()+": "+p, cases[i])
		}
	}
	if failed > 0 {
		run.Capped(fmt.Sprintf("%d of %d timestamp interleavings did not report a result", failed, len(cases)))
	}
	run.Set("timestamp_phase", map[string]any{"interleavings": len(cases), "segments_cut_at": "first read of the request body, first write of the response (thorough triples: body only)", "authorities": 2, "process_per_interleaving": true})
}

package main

// The status family: what an RFC 3161 authority may put into the PKIStatusInfo
// of its reply. RFC 3161 section 2.4.2: "When the status contains the value
// zero or one, a TimeStampToken MUST be present. When status contains a value
// other than zero or one, a TimeStampToken MUST NOT be present"; only
// granted(0) and grantedWithMods(1) mean that the request was granted. The
// family is the product of
//
//	status value   every defined one (0..5), the neighbours of the defined range
//	               (-1, 6), and values that become 0 or 1 when cut to 8, 16 or
//	               32 bits, negative and positive, plus one beyond 64 bits
//	token          absent, or the token a granting authority would have issued
//	               for this very request (right nonce, imprint, signature)
//	failInfo       absent, empty, badAlg (bit 0), badRequest (bit 2),
//	               systemFailure (bit 25)
//	statusString   absent, one UTF8String
//
// and the only members after which a timestamp may be attached are status 0
// and 1 with the token present. (0 or 1 with failure bits set contradicts
// itself; the statement does not say how to read it, so either reading is
// accepted for those.)

import (
	"encoding/asn1"
	"fmt"
	"math/big"
	"time"

	d "verif/gen/dergen"
	"verif/tsa"
)

type statusValue struct {
	v     *big.Int
	class string
}

func statusValues() []statusValue {
	n := func(s string) *big.Int {
		v, ok := new(big.Int).SetString(s, 10)
		if !ok {
			panic(s)
		}
		return v
	}
	return []statusValue{
		{n("0"), "granted"},
		{n("1"), "granted-with-mods"},
		{n("2"), "status-2-rejection"},
		{n("3"), "status-3-waiting"},
		{n("4"), "status-4-revocation-warning"},
		{n("5"), "status-5-revocation-notification"},
		{n("6"), "status-above-5"},
		{n("255"), "status-above-5"},
		{n("256"), "status-above-5"},
		{n("257"), "status-above-5"},
		{n("65536"), "status-above-5"},
		{n("4294967296"), "status-above-5"},
		{n("4294967297"), "status-above-5"},
		{n("18446744073709551616"), "status-above-5"},
		{n("-1"), "status-negative"},
		{n("-255"), "status-negative"},
		{n("-256"), "status-negative"},
		{n("-4294967296"), "status-negative"},
	}
}

type failInfoValue struct {
	name string
	der  []byte // nil = absent
}

// PKIFailureInfo is a named-bit BIT STRING: DER drops trailing zero bits.
var failInfoValues = []failInfoValue{
	{"", nil},
	{"failInfo=empty", d.TLV(0x03, []byte{0})},
	{"failInfo=badAlg", d.TLV(0x03, []byte{7, 0x80})},
	{"failInfo=badRequest", d.TLV(0x03, []byte{5, 0x20})},
	{"failInfo=systemFailure", d.TLV(0x03, []byte{6, 0, 0, 0, 0x40})},
}

// statusFamily lists the members; full = with the failInfo and statusString
// dimensions, else those two absent.
func statusFamily(full bool) []behaviour {
	fis := failInfoValues
	texts := []bool{false, true}
	if !full {
		fis, texts = fis[:1], texts[:1]
	}
	var out []behaviour
	for _, sv := range statusValues() {
		for _, withToken := range []bool{false, true} {
			for _, fi := range fis {
				for _, text := range texts {
					sv, withToken, fi, text := sv, withToken, fi, text
					name := "status=" + sv.v.String()
					class := sv.class
					if withToken {
						name += ",valid-token"
						class += "-with-valid-token"
					} else {
						name += ",no-token"
						class += "-without-token"
					}
					if fi.der != nil {
						name += "," + fi.name
					}
					if text {
						name += ",statusString"
					}
					granting := sv.v.IsInt64() && (sv.v.Int64() == 0 || sv.v.Int64() == 1)
					b := behaviour{Name: name, Class: class}
					switch {
					case granting && withToken && fi.der == nil:
						b.Acceptable = true
					case granting && withToken:
						b.Either = true
						b.Class += "-and-failure-bits"
					}
					b.Reply = func(q *tsa.Query, t time.Time) []byte {
						info := [][]byte{derInteger(sv.v)}
						if text {
							info = append(info, d.Seq(d.UTF8String(fmt.Sprintf("status %s", sv.v))))
						}
						if fi.der != nil {
							info = append(info, fi.der)
						}
						parts := [][]byte{d.Seq(info...)}
						if withToken {
							parts = append(parts, authority.Token(tsa.TokenOpts{HashAlg: q.HashAlg, Imprint: q.Imprint, Nonce: q.Nonce, GenTime: t}))
						}
						return d.Seq(parts...)
					}
					out = append(out, b)
				}
			}
		}
	}
	return out
}

// derInteger: two's complement INTEGER of any sign (Go's encoding/asn1).
func derInteger(v *big.Int) []byte {
	b, err := asn1.Marshal(v)
	if err != nil {
		panic(err)
	}
	return b
}

package main

// Who may be a timestamp authority: the extended-key-usage dimension.
//
// "A timestamp ... is itself correctly signed" means signed by a certificate
// that chains to a trusted root AND is entitled to sign timestamps. The
// entitlement is the extended key usage extension:
//
//	RFC 3161 2.3   the authority's certificate MUST contain exactly one extended key usage
//	               extension with the single purpose id-kp-timeStamping, and it MUST be critical;
//	RFC 5280 4.2.1.12  if the extension is present the certificate is used only for the purposes
//	               listed; a certificate without it is not restricted; anyExtendedKeyUsage lifts
//	               the restriction, but an application that needs a particular purpose MAY still
//	               refuse it;
//	CA certificates  RFC 5280 says nothing about the extension in CA certificates; path validation
//	               as deployed (Go crypto/x509, Windows CryptoAPI, NSS; CA/Browser Forum: a
//	               "technically constrained" subordinate CA) treats a CA's extended key usage as
//	               a limit on what may be issued below it.
//
// Enumerated: authority certificate EKU in {timeStamping only and critical,
// timeStamping only not critical, timeStamping + codeSigning, codeSigning
// only, a private-arc purpose only, anyExtendedKeyUsage, no extension} x
// issuing CA EKU in {no extension, timeStamping, clientAuth only, a private-arc
// purpose only} (the CA is issued by the fixture intermediate, which has no
// extension) x token style {RFC 3161 token, legacy countersignature attribute}
// x signer certificate {valid today, expired in 2021}, attested time inside
// both lifetimes, judged by relic verify with chain checking.
//
// Reference (three-valued):
//
//	must be accepted   both readings entitle the authority: purpose list is exactly
//	                   {timeStamping}, critical, and the CA has no extension or lists timeStamping
//	must be refused    (signer expired) no reading entitles it: the extension is present and lists
//	                   neither timeStamping nor anyExtendedKeyUsage (it does not matter whether the
//	                   purposes listed are ones a library has a name for), or the issuing CA's
//	                   extension is present and lists neither (the deployed path validation rule;
//	                   `openssl verify -purpose timestampsign` applies RFC 3161 2.3 to the authority's
//	                   certificate to the letter and does not look at the extension in CA
//	                   certificates: the CA half is a tally unless C10_EKU_NESTING=assert: implementations differ)
//	either             the readings differ (no extension, anyExtendedKeyUsage, a second purpose,
//	                   not critical), or the signer certificate is valid today anyway (refusing the
//	                   whole signature and ignoring the timestamp are both in order): tallied

import (
	"crypto"
	"crypto/sha256"
	"crypto/x509"
	"encoding/asn1"
	"fmt"
	"math/big"
	"os"
	"path/filepath"
	"sync"
	"time"

	"github.com/sassoftware/relic/v8/lib/pkcs7"
	"github.com/sassoftware/relic/v8/lib/pkcs9"

	"verif/relicx"
	"verif/tsa"
)

type ekuClass struct {
	name     string
	eku      []asn1.ObjectIdentifier // nil = no extension
	critical bool
}

func (e ekuClass) lists(oid asn1.ObjectIdentifier) bool {
	for _, o := range e.eku {
		if o.Equal(oid) {
			return true
		}
	}
	return false
}

// permits: RFC 5280 4.2.1.12, most liberal reading.
func (e ekuClass) permits() bool {
	return e.eku == nil || e.lists(tsa.EKUTimeStamping) || e.lists(tsa.EKUAny)
}

// strict: RFC 3161 2.3.
func (e ekuClass) strict() bool {
	return len(e.eku) == 1 && e.lists(tsa.EKUTimeStamping) && e.critical
}

var ekuLeaves = []ekuClass{
	{"timeStamping-only(critical)", []asn1.ObjectIdentifier{tsa.EKUTimeStamping}, true},
	{"timeStamping-only(not-critical)", []asn1.ObjectIdentifier{tsa.EKUTimeStamping}, false},
	{"timeStamping+codeSigning", []asn1.ObjectIdentifier{tsa.EKUTimeStamping, tsa.EKUCodeSigning}, true},
	{"codeSigning-only", []asn1.ObjectIdentifier{tsa.EKUCodeSigning}, false},
	{"private-purpose-only", []asn1.ObjectIdentifier{tsa.EKUPrivate}, false},
	{"anyExtendedKeyUsage", []asn1.ObjectIdentifier{tsa.EKUAny}, false},
	{"no-extension", nil, false},
}

var ekuIssuers = []ekuClass{
	{"no-extension", nil, false},
	{"timeStamping", []asn1.ObjectIdentifier{tsa.EKUTimeStamping}, false},
	{"clientAuth-only", []asn1.ObjectIdentifier{tsa.EKUClientAuth}, false},
	{"private-purpose-only", []asn1.ObjectIdentifier{tsa.EKUPrivate}, false},
}

// thorough tier: two more issuing CAs
var ekuIssuersThorough = []ekuClass{
	{"timeStamping+clientAuth", []asn1.ObjectIdentifier{tsa.EKUTimeStamping, tsa.EKUClientAuth}, false},
	{"anyExtendedKeyUsage", []asn1.ObjectIdentifier{tsa.EKUAny}, false},
}

// ekuVerdict: +1 must be accepted, -1 must be refused, 0 either. nesting false:
// an issuing CA whose extension excludes timestamping is a case where the
// readings differ (OpenSSL's timestampsign purpose, alone of the validators
// consulted, does not look at the extension in CA certificates).
func ekuVerdict(leaf, issuer ekuClass, nesting bool) int {
	issuerOK := issuer.eku == nil || issuer.lists(tsa.EKUTimeStamping)
	switch {
	case !leaf.permits():
		return -1
	case !issuer.permits() && nesting:
		return -1
	case leaf.strict() && issuerOK:
		return 1
	}
	return 0
}

func ekuPhase() {
	dir := scratchDir()
	defer os.RemoveAll(dir)
	kd := relicx.KeyDir
	inter := pemCerts(filepath.Join(kd, "inter.crt"))[0]
	interKey := tsa.LoadKey(filepath.Join(kd, "inter.key"))
	rsaA := tsa.LoadKey(filepath.Join(kd, "rsaA.key"))
	y := func(yr, mo int) time.Time { return time.Date(yr, time.Month(mo), 1, 0, 0, 0, 0, time.UTC) }
	// keys: one per issuing CA, one per authority class
	issuers := ekuIssuers
	styles := []string{"rfc3161-token", "legacy-countersignature"}
	if run.Thorough() {
		issuers = append(append([]ekuClass{}, issuers...), ekuIssuersThorough...)
		styles = append(styles, "rfc3161-token(authenticode-oid)")
	}
	// an issuing CA that excludes timestamping is tallied, not judged, unless C10_EKU_NESTING=assert
	// (OpenSSL does not apply extended key usage to CA certificates; Go, CryptoAPI and NSS do)
	nesting := os.Getenv("C10_EKU_NESTING") == "assert"
	keys := make([]crypto.Signer, len(issuers)+len(ekuLeaves))
	var wg sync.WaitGroup
	for i := range keys {
		wg.Add(1)
		go func(i int) { defer wg.Done(); keys[i] = tsa.NewRSAKey() }(i)
	}
	wg.Wait()
	type authT struct {
		leaf, issuer ekuClass
		a            *tsa.Authority
	}
	var auths []authT
	for i, is := range issuers {
		caKey := keys[i]
		ca := tsa.Issue(tsa.CertSpec{CN: "verif tsa CA, EKU " + is.name, CA: true, EKU: is.eku, EKUCritical: is.critical, NotBefore: y(2020, 1), NotAfter: y(2046, 1)}, caKey.Public(), inter, interKey)
		for j, lf := range ekuLeaves {
			k := keys[len(issuers)+j]
			c := tsa.Issue(tsa.CertSpec{CN: "verif tsa, EKU " + lf.name + ", under CA " + is.name, EKU: lf.eku, EKUCritical: lf.critical, NotBefore: y(2020, 1), NotAfter: y(2046, 1)}, k.Public(), ca, caKey)
			// the builder did what was asked, as an independent parser reads it
			known, unknown := len(c.ExtKeyUsage), len(c.UnknownExtKeyUsage)
			if known+unknown != len(lf.eku) || len(ca.ExtKeyUsage)+len(ca.UnknownExtKeyUsage) != len(is.eku) {
				fmt.Printf("HARNESS-ERROR: eku phase: certificate %q was not built as specified\n", c.Subject.CommonName)
				os.Exit(2)
			}
			auths = append(auths, authT{lf, is, &tsa.Authority{Key: k, Cert: c, Chain: []*x509.Certificate{ca, inter}}})
		}
	}
	type leafT struct {
		name   string
		cert   *x509.Certificate
		nb, na time.Time
	}
	var leaves []leafT
	for _, n := range []string{"rsaA.leaf.crt", "rsaA.expired.crt"} {
		c := pemCerts(filepath.Join(kd, n))[0]
		leaves = append(leaves, leafT{n, c, c.NotBefore, c.NotAfter})
	}
	at := y(2020, 6)
	now := time.Now()
	content := []byte("content to be signed\n")
	contentPath := filepath.Join(dir, "content.bin")
	os.WriteFile(contentPath, content, 0o644)
	shared := relicx.TrustOpts()
	n := 0
	for _, sl := range leaves {
		if at.Before(sl.nb) || at.After(sl.na) {
			panic("eku phase: the attested time is outside a signer certificate's lifetime")
		}
		validNow := !now.Before(sl.nb) && !now.After(sl.na)
		for _, au := range auths {
			for _, style := range styles {
				sb := pkcs7.NewBuilder(rsaA, []*x509.Certificate{sl.cert, inter}, crypto.SHA256)
				if err := sb.SetContentData(content); err != nil {
					panic(err)
				}
				if err := sb.AddAuthenticatedAttribute(pkcs7.OidAttributeSigningTime, time.Now().UTC()); err != nil {
					panic(err)
				}
				psd, err := sb.Sign()
				if err != nil {
					panic(err)
				}
				si := &psd.Content.SignerInfos[0]
				if style != "legacy-countersignature" {
					h := sha256.Sum256(si.EncryptedDigest)
					tok, err := pkcs7.Unmarshal(au.a.Token(tsa.TokenOpts{HashAlg: tsa.SHA256Alg(), Imprint: h[:], Nonce: big.NewInt(7), GenTime: at}))
					if err != nil {
						panic(err)
					}
					add := pkcs9.AddStampToSignedData
					if style == "rfc3161-token(authenticode-oid)" {
						add = pkcs9.AddStampToSignedAuthenticode
					}
					if err := add(si, *tok); err != nil {
						panic(err)
					}
				} else {
					addCounterSignature(psd, au.a, si.EncryptedDigest, at, tsa.TokenOpts{})
				}
				blob, err := psd.Marshal()
				if err != nil {
					panic(err)
				}
				p7 := filepath.Join(dir, "sig.p7s")
				os.WriteFile(p7, blob, 0o644)
				opts := shared
				opts.Content = contentPath
				_, verr := relicx.Verify(p7, opts)
				run.Eval(1)
				n++
				verdict := ekuVerdict(au.leaf, au.issuer, nesting)
				desc := fmt.Sprintf("signer %s (valid %s..%s), %s attesting %s by an authority whose certificate has extended key usage %s, issued by a CA (under the trusted root) with extended key usage %s: relic verify+chain says %v", sl.name, sl.nb.Format("2006-01"), sl.na.Format("2006-01"), style, at.Format("2006-01"), au.leaf.name, au.issuer.name, verr)
				replay := map[string]any{"signer": sl.name, "style": style, "authority_eku": au.leaf.name, "issuer_eku": au.issuer.name}
				run.Distinct("eku|" + sl.name + "|" + style + "|" + au.leaf.name + "|" + au.issuer.name)
				cls := "leaf=" + au.leaf.name + ",issuer=" + au.issuer.name
				switch {
				case verdict > 0 && verr != nil:
					run.Violation("ts-verify-eku:entitled-authority-rejected:"+cls, desc, replay)
				case verdict < 0 && !validNow && verr == nil:
					// named after the certificate that rules timestamping out
					why := "authority-eku=" + au.leaf.name
					if au.leaf.permits() {
						why = "issuing-ca-eku=" + au.issuer.name
					}
					run.Violation("ts-verify-eku:expired-signer-accepted-with-a-timestamp-by-a-certificate-not-entitled-to-timestamp:"+why, desc, replay)
				}
				word := map[int]string{1: "entitled", -1: "not-entitled", 0: "readings-differ"}[verdict]
				run.Outcome(fmt.Sprintf("eku:%s:%s:accepted=%v", word, cls, verr == nil))
				if !validNow && style == styles[0] && au.issuer.name == "no-extension" {
					run.Sample(desc)
				}
			}
		}
	}
	run.Set("authority_eku_cases", n)
}

// addCounterSignature attaches a legacy countersignature (PKCS#9 attribute
// 1.2.840.113549.1.9.6: a bare SignerInfo over the signature value) and puts
// the authority's certificates into the parent's certificate set.
func addCounterSignature(psd *pkcs7.ContentInfoSignedData, a *tsa.Authority, value []byte, at time.Time, o tsa.TokenOpts) {
	si := &psd.Content.SignerInfos[0]
	if err := si.UnauthenticatedAttributes.Add(pkcs9.OidAttributeCounterSign, asn1.RawValue{FullBytes: a.CounterSigner(value, at, o)}); err != nil {
		panic(err)
	}
	for _, c := range append([]*x509.Certificate{a.Cert}, a.Chain...) {
		dup := false
		for _, have := range psd.Content.Certificates {
			if string(have.FullBytes) == string(c.Raw) {
				dup = true
			}
		}
		if !dup {
			psd.Content.Certificates = append(psd.Content.Certificates, asn1.RawValue{FullBytes: c.Raw})
		}
	}
}

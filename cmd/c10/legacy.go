package main

// The legacy (pre RFC 3161) Microsoft timestamp: what binds it to a signature
// value.
//
// A legacy token is a PKCS#7 SignedData of content type data. The authority's
// signature covers its authenticated attributes only; one of them, the
// messageDigest, is the digest of the content, and the content is a copy of
// the signature value that was sent in. "Covers this exact signature value" is
// therefore a chain of two links, and the content itself is NOT signed:
//
//	signature value  ==  content  --digest-->  messageDigest  <--signed--  authority
//
// PKCS#7 (RFC 2315 9.1, CMS RFC 5652 5.2) also allows the content to be absent
// (a detached signature); then the verifier supplies the content from outside
// and the messageDigest is the only link.
//
// Enumerated here: content in {this value, another value, absent} x
// messageDigest in {digest of this value, digest of another value}, all six
// signed by the genuine authority with a valid signature over its attributes:
//
//	content   messageDigest   covers this value?
//	this      of this         yes
//	this      of another      no  (the authority signed for another value; the copy was swapped)
//	another   of this         no  (the token says it is about another value)
//	another   of another      no  (a genuine token of another signature)
//	absent    of this         undecided: a detached counter-signature of this value; a verifier
//	                          that insists on the embedded copy and one that digests the value
//	                          it holds are both in order (tallied, either verdict accepted)
//	absent    of another      no  (a genuine token of another signature with its unsigned copy removed)
//
// The six are used on three sides: as replies of a legacy authority on the
// signing side (main.go signPhase: the four that are not "valid" / "wrong-
// imprint" already), as contents of the timestamp cache for this signature's
// key (main.go cachePhaseFor), and embedded in ClickOnce manifests on the
// verify side (legacyVerifyPhase below), where the signer certificate is
// either valid today or expired.

import (
	"bytes"
	"crypto"
	"crypto/sha256"
	"encoding/base64"
	"fmt"
	"math/big"
	"net/url"
	"os"
	"path/filepath"
	"regexp"
	"strings"
	"time"

	"github.com/sassoftware/relic/v8/config"

	"verif/relicx"
	"verif/tsa"
)

type legacyLink struct {
	name    string
	content []byte // what the token is built over (and carries, unless detached)
	opts    tsa.TokenOpts
	covers  bool // both links hold
	either  bool // the statement does not decide
}

// anotherValue: a signature value of the same length that is not this one.
func anotherValue(value []byte) []byte {
	other := append([]byte{}, value...)
	other[0] ^= 0xff
	return other
}

func legacyTokenMatrix(value []byte) []legacyLink {
	other := anotherValue(value)
	return []legacyLink{
		{name: "legacy-token:content=this,messageDigest=of-this", content: value, covers: true},
		{name: "legacy-token:content=this,messageDigest=of-another-value", content: value, opts: tsa.TokenOpts{DigestOver: other}},
		{name: "legacy-token:content=another-value,messageDigest=of-this", content: other, opts: tsa.TokenOpts{DigestOver: value}},
		{name: "legacy-token:content=another-value,messageDigest=of-another-value", content: other},
		{name: "legacy-token:content=absent,messageDigest=of-this", content: value, opts: tsa.TokenOpts{Detached: true}, either: true},
		{name: "legacy-token:content=absent,messageDigest=of-another-value", content: other, opts: tsa.TokenOpts{Detached: true}},
	}
}

// legacyAnatomy: the members of the matrix that the signing-side alphabet does
// not have under another name ("valid" is this/of-this, "wrong-imprint" is
// another/of-another).
var legacyAnatomy = func() []behaviour {
	var out []behaviour
	for _, m := range legacyTokenMatrix([]byte{0}) {
		if m.covers || strings.HasSuffix(m.name, "content=another-value,messageDigest=of-another-value") {
			continue
		}
		out = append(out, behaviour{Name: m.name, Either: m.either})
	}
	return out
}()

// legacyAnatomyOpts: the token a legacy authority builds for an anatomy behaviour.
func legacyAnatomyOpts(name string, value []byte) ([]byte, tsa.TokenOpts, bool) {
	if !strings.HasPrefix(name, "legacy-token:") || len(value) == 0 {
		return nil, tsa.TokenOpts{}, false
	}
	for _, m := range legacyTokenMatrix(value) {
		if m.name == name {
			return m.content, m.opts, true
		}
	}
	return nil, tsa.TokenOpts{}, false
}

var (
	reTimestamp = regexp.MustCompile(`(?s)(<as:Timestamp[^>]*>)(.*?)(</as:Timestamp>)`)
	reSigValue  = regexp.MustCompile(`(?s)<SignatureValue[^>]*>(.*?)</SignatureValue>`)
	reObject    = regexp.MustCompile(`(?s)<Object[^>]*>\s*<as:Timestamp[^>]*>.*?</as:Timestamp>\s*</Object>`)
)

// manifestBase64: the text of an as:Timestamp element as ClickOnce tools write it.
func manifestBase64(der []byte) string {
	var sb strings.Builder
	for len(der) > 0 {
		n := len(der)
		if n > 48 {
			n = 48
		}
		sb.WriteString(base64.StdEncoding.EncodeToString(der[:n]))
		sb.WriteString("\r\n")
		der = der[n:]
	}
	return sb.String()
}

// legacyVerifyPhase: ClickOnce manifests signed through the real pipeline with
// a certificate that is valid today / expired in 2021, each with a genuine
// legacy timestamp; the harness then replaces the text of the (unsigned)
// as:Timestamp element by every member of {no timestamp, the six legacy
// tokens, an RFC 3161 token for this value / for another value} x attested
// time {inside the expired certificate's lifetime, after it}, and relic verify
// with chain checking judges the manifest. Reference: accepted iff
// (no timestamp and the signer certificate is valid now) or (the token covers
// this signature value and the signer certificate was valid at the attested
// time and the authority was).
func legacyVerifyPhase() {
	srv, dir := startAuthority(), scratchDir()
	defer srv.Close()
	defer os.RemoveAll(dir)
	kd := relicx.KeyDir
	// a chain file for the expired leaf
	expiredChain := filepath.Join(dir, "rsaA.expired.chain.crt")
	{
		a, err := os.ReadFile(filepath.Join(kd, "rsaA.expired.crt"))
		if err != nil {
			panic(err)
		}
		b, err := os.ReadFile(filepath.Join(kd, "inter.crt"))
		if err != nil {
			panic(err)
		}
		if err := os.WriteFile(expiredChain, append(append(a, '\n'), b...), 0o644); err != nil {
			panic(err)
		}
	}
	cfg := relicx.BaseConfig("file")
	cfg.Keys["rsaAexpired"] = &config.KeyConfig{Token: "tok", KeyFile: filepath.Join(kd, "rsaA.key"), X509Certificate: expiredChain, Roles: []string{"r"}}
	if err := cfg.Normalize(""); err != nil {
		panic(err)
	}
	cfg.Keys["rsaA"].Timestamp = true
	cfg.Keys["rsaAexpired"].Timestamp = true
	cfg.Timestamp = &config.TimestampConfig{Timeout: 10, URLs: []string{srv.URL + "/u0"}, MsURLs: []string{srv.URL + "/ms0"}}
	relicx.Use(cfg)
	var asked [][]byte
	srvMu.Lock()
	current = func(idx int, legacy bool, body []byte) (int, []byte, bool) {
		if v, err := tsa.LegacyQuery(body); legacy && err == nil {
			asked = append(asked, append([]byte{}, v...))
		}
		return answer(behaviours[0], idx, legacy, body)
	}
	srvMu.Unlock()
	y := func(yr, mo int) time.Time { return time.Date(yr, time.Month(mo), 1, 0, 0, 0, 0, time.UTC) }
	good := tsa.Fixture()
	type leafT struct {
		key, name string
		nb, na    time.Time
	}
	exp := pemCerts(filepath.Join(kd, "rsaA.expired.crt"))[0]
	cur := pemCerts(filepath.Join(kd, "rsaA.leaf.crt"))[0]
	leaves := []leafT{{"rsaA", "rsaA.leaf.crt", cur.NotBefore, cur.NotAfter}, {"rsaAexpired", "rsaA.expired.crt", exp.NotBefore, exp.NotAfter}}
	attested := []time.Time{y(2020, 6), y(2026, 6)}
	if run.Thorough() {
		// before every certificate's lifetime, and after the authority's
		attested = append(attested, y(2019, 6), y(2022, 6), y(2047, 1))
	}
	now := time.Now()
	n := 0
	for _, lf := range leaves {
		tok, err := relicx.OpenTokenByKey(cfg, lf.key)
		if err != nil {
			panic(err)
		}
		in := filepath.Join(dir, "in.exe.manifest")
		out := filepath.Join(dir, "signed.exe.manifest")
		copyFile(filepath.Join(relicx.Packages, "WindowsFormsApplication1.exe.manifest"), in)
		os.Remove(out)
		asked = nil
		serr := relicx.SignStandalone(cfg, tok, relicx.SignReq{SigType: "appmanifest", Key: lf.key, Hash: crypto.SHA256, Flags: url.Values{"rfc3161-timestamp": {"false"}}, In: in, Out: out})
		if serr != nil {
			// a signer that refuses a certificate outside its validity leaves nothing to judge for that leaf
			run.Outcome("legacy-verify:" + lf.name + ":not-signable")
			run.Set("legacy_verify_not_signable:"+lf.name, serr.Error())
			continue
		}
		signed, err := os.ReadFile(out)
		if err != nil {
			panic(err)
		}
		// this signature value: read from the document by the harness, and it is what the authority was asked about
		vals := reSigValue.FindAllSubmatch(signed, -1)
		if len(vals) != 2 || len(reTimestamp.FindAll(signed, -1)) != 1 || len(reObject.FindAll(signed, -1)) != 1 || len(asked) != 1 {
			fmt.Printf("HARNESS-ERROR: legacy verify phase: the signed manifest does not look as expected (%d SignatureValue, %d as:Timestamp, %d legacy requests)\n", len(vals), len(reTimestamp.FindAll(signed, -1)), len(asked))
			os.Exit(2)
		}
		value, err := base64.StdEncoding.DecodeString(strings.Join(strings.Fields(string(vals[1][1])), ""))
		if err != nil || !bytes.Equal(value, asked[0]) {
			fmt.Println("HARNESS-ERROR: legacy verify phase: the inner SignatureValue of the manifest is not the value the authority was asked to stamp")
			os.Exit(2)
		}
		type tokenT struct {
			name   string
			der    func(at time.Time) []byte // nil = no timestamp element
			covers bool
			either bool
		}
		tokens := []tokenT{{name: "none"}}
		for _, m := range legacyTokenMatrix(value) {
			m := m
			tokens = append(tokens, tokenT{name: m.name, der: func(at time.Time) []byte { return good.LegacyDER(m.content, at, m.opts) }, covers: m.covers, either: m.either})
		}
		for _, over := range []struct {
			name string
			v    []byte
		}{{"rfc3161-token:imprint=of-this", value}, {"rfc3161-token:imprint=of-another-value", anotherValue(value)}} {
			over := over
			tokens = append(tokens, tokenT{name: over.name, der: func(at time.Time) []byte {
				h := sha256.Sum256(over.v)
				return good.Token(tsa.TokenOpts{HashAlg: tsa.SHA256Alg(), Imprint: h[:], Nonce: big.NewInt(7), GenTime: at})
			}, covers: bytes.Equal(over.v, value)})
		}
		within := func(t time.Time) bool { return !t.Before(lf.nb) && !t.After(lf.na) }
		authorityOK := func(t time.Time) bool { return !t.Before(good.Cert.NotBefore) && !t.After(good.Cert.NotAfter) }
		for _, tk := range tokens {
			for _, at := range attested {
				if tk.der == nil && !at.Equal(attested[0]) {
					continue
				}
				var doc []byte
				if tk.der == nil {
					doc = reObject.ReplaceAll(signed, nil)
				} else {
					text := manifestBase64(tk.der(at))
					doc = reTimestamp.ReplaceAllFunc(signed, func(m []byte) []byte {
						sm := reTimestamp.FindSubmatch(m)
						return append(append(append([]byte{}, sm[1]...), text...), sm[3]...)
					})
				}
				p := filepath.Join(dir, "case.exe.manifest")
				if err := os.WriteFile(p, doc, 0o644); err != nil {
					panic(err)
				}
				_, verr := relicx.Verify(p, relicx.TrustOpts())
				run.Eval(1)
				n++
				desc := fmt.Sprintf("ClickOnce manifest signed with %s (valid %s..%s), as:Timestamp replaced by %s", lf.name, lf.nb.Format("2006-01"), lf.na.Format("2006-01"), tk.name)
				if tk.der != nil {
					desc += " of the genuine authority attesting " + at.Format("2006-01")
				}
				desc += fmt.Sprintf(": relic verify+chain says %v", verr)
				run.Distinct("legacy-verify|" + lf.name + "|" + tk.name + "|" + at.Format("2006-01"))
				replay := map[string]any{"leaf": lf.name, "token": tk.name, "attested": at.Format("2006-01")}
				class := strings.SplitN(tk.name, ":", 2)[0]
				switch {
				case tk.der == nil:
					if want := within(now); want != (verr == nil) {
						run.Violation(fmt.Sprintf("ts-verify-manifest:no-timestamp:accepted=%v:%s", verr == nil, lf.name), desc, replay)
					}
				case tk.either:
					// undecided: tallied only
				case tk.covers && within(at) && authorityOK(at):
					if verr != nil {
						run.Violation("ts-verify-manifest:valid-timestamped-signature-rejected:"+class+":"+lf.name, desc, replay)
					}
				default:
					if verr == nil {
						why := "leaf-not-valid-at-attested-time"
						if !tk.covers {
							why = "token-does-not-cover-this-signature-value:" + tk.name
						}
						run.Violation("ts-verify-manifest:accepted:"+why, desc, replay)
					}
				}
				run.Outcome(fmt.Sprintf("legacy-verify:%s:%v", tk.name, verr == nil))
				if lf.key == "rsaAexpired" && at.Equal(attested[0]) && strings.Contains(tk.name, "absent") {
					run.Sample(desc)
				}
			}
		}
	}
	run.Set("legacy_verify_cases", n)
}

// C10 — only genuine, matching timestamps are attached and they govern
// validity time.
//
// Sign side: every sequence of scripted authority behaviours over 1-3
// configured URLs (pruned at the first acceptable one) x attach path, through
// the real pipeline (signinit -> tsclient.New -> HTTP to a loopback authority
// owned by the harness) against the reference "first acceptable authority
// wins, else signing fails". Verify side: PKCS#7 signatures assembled with
// every combination of leaf validity window x token variant x attested time,
// judged by relic verify with chain checking against a reference formula.
//
// status.go: the PKIStatusInfo family (every status value class x token
// present / absent x failInfo x statusString) at the first of two URLs.
// lifetime.go: tokens obtained through the real client and HELD while later
// requests run through the same process, then serialised and judged.
// legacy.go: what binds a legacy Microsoft token to a signature value (content
// x messageDigest), on the sign, cache and verify (ClickOnce manifest) side.
// eku.go: who may be a timestamp authority (extended key usage of the
// authority's certificate x of its issuing CA).
package main

import (
	"bufio"
	"bytes"
	"crypto"
	"crypto/rand"
	"crypto/sha256"
	"crypto/x509"
	"crypto/x509/pkix"
	"encoding/base64"
	"encoding/json"
	"encoding/pem"
	"fmt"
	"io"
	"log"
	"math/big"
	"net"
	"net/http"
	"net/http/httptest"
	"net/url"
	"os"
	"path/filepath"
	"runtime"
	"strings"
	"sync"
	"sync/atomic"
	"time"

	"github.com/sassoftware/relic/v8/config"
	"github.com/sassoftware/relic/v8/lib/certloader"
	"github.com/sassoftware/relic/v8/lib/pkcs7"
	"github.com/sassoftware/relic/v8/lib/pkcs9"
	"github.com/sassoftware/relic/v8/signers"

	"verif/gen/ocigen"
	"verif/mc"
	"verif/relicx"
	"verif/tsa"
	"verif/vlib"
)

var run *vlib.Run

type behaviour struct {
	Name       string
	Acceptable bool
	// Either: the statement does not decide whether this reply grants the
	// request (a granting status that also carries failure bits); taking the
	// token and going on to the next authority are both in order.
	Either bool
	// Class names the input class in violation keys (default: Name).
	Class string
	// Reply, if set, builds the RFC 3161 reply (status family, status.go).
	Reply func(q *tsa.Query, t time.Time) []byte
}

func (b behaviour) class() string {
	if b.Class != "" {
		return b.Class
	}
	return b.Name
}

var behaviours = []behaviour{
	{Name: "valid", Acceptable: true},
	{Name: "granted-with-mods", Acceptable: true},
	{Name: "wrong-nonce", Acceptable: false},
	{Name: "absent-nonce", Acceptable: false},
	{Name: "wrong-imprint", Acceptable: false},
	{Name: "wrong-imprint-algorithm", Acceptable: false},
	{Name: "status-rejection", Acceptable: false},
	{Name: "status-waiting", Acceptable: false},
	{Name: "rejection-with-valid-token", Acceptable: false},
	{Name: "bad-token-signature", Acceptable: false},
	{Name: "signed-by-other-key", Acceptable: false},
	{Name: "no-certificate", Acceptable: false},
	{Name: "http-500", Acceptable: false},
	{Name: "garbage", Acceptable: false},
	{Name: "empty", Acceptable: false},
	{Name: "connection-dropped", Acceptable: false},
}

var (
	authority = tsa.Fixture()
	otherKey  = tsa.NewRSAKey()
	baseTime  = time.Date(2026, 3, 1, 12, 0, 0, 0, time.UTC)

	srvMu   sync.Mutex
	current func(idx int, legacy bool, body []byte) (status int, resp []byte, drop bool)
)

// statusHang tells the authority's handler to hold the request open without answering.
const statusHang = -1

var hangBehaviour = behaviour{Name: "hang-until-client-timeout"}

// hangClientTimeout: timestamp.timeout in the hanging-authority scenarios (the smallest configurable).
const hangClientTimeout = 1 * time.Second

// statusStall: the authority sends 200, the headers and the first bytes of the
// body, then nothing more. stallReleased counts stalls that ended because the
// handler's own cap ran out, not because the client went away.
const statusStall = -2
const stallCap = 30 * time.Second

var stallBehaviour = behaviour{Name: "headers-then-stalled-body"}
var stallReleased atomic.Int64

func urlTime(idx int) time.Time { return baseTime.Add(time.Duration(idx) * time.Hour) }

// authorityServer is the loopback authority plus a record of the connections
// it has accepted and not finished with, so that a scenario can be judged
// after everything the client sent has been seen (quiesce).
type authorityServer struct {
	*httptest.Server
	mu   sync.Mutex
	busy map[net.Conn]bool // accepted; not idle, closed or taken over
}

// quiesce returns once every request the client sent before the call has
// reached the handler: a client that gave up on a request (its own timeout)
// may have done so before the authority got round to reading it, and that
// request still counts as made. First a sentinel request of the harness's own:
// the accept queue is first in first out and the server marks a connection
// before it accepts the next, so when the sentinel is answered every earlier
// connection is on record; then wait until none of them is being served. The
// limit is a cap that only a starved process reaches: false = not quiescent,
// the caller must not judge.
func (a *authorityServer) quiesce(limit time.Duration) bool {
	deadline := time.Now().Add(limit)
	conn, err := net.DialTimeout("tcp", a.Listener.Addr().String(), limit)
	if err != nil {
		return false
	}
	conn.SetDeadline(deadline)
	_, err = io.WriteString(conn, "GET /barrier HTTP/1.0\r\n\r\n")
	if err == nil {
		_, err = io.ReadAll(conn) // the server closes after answering HTTP/1.0
	}
	conn.Close()
	if err != nil {
		return false
	}
	for {
		a.mu.Lock()
		n := len(a.busy)
		a.mu.Unlock()
		if n == 0 {
			return true
		}
		if time.Now().After(deadline) {
			return false
		}
		time.Sleep(time.Millisecond)
	}
}

const quiesceCap = 30 * time.Second

func startAuthority() *authorityServer {
	a := &authorityServer{busy: map[net.Conn]bool{}}
	a.Server = httptest.NewUnstartedServer(authorityHandler())
	a.Config.ConnState = func(c net.Conn, st http.ConnState) {
		a.mu.Lock()
		switch st {
		case http.StateNew, http.StateActive:
			a.busy[c] = true
		default:
			delete(a.busy, c)
		}
		a.mu.Unlock()
	}
	a.Start()
	return a
}

func authorityHandler() http.Handler {
	return http.HandlerFunc(func(w http.ResponseWriter, r *http.Request) {
		if r.URL.Path == "/barrier" {
			w.WriteHeader(204)
			return
		}
		body, _ := io.ReadAll(r.Body)
		var idx int
		legacy := strings.HasPrefix(r.URL.Path, "/ms")
		fmt.Sscanf(strings.TrimLeft(r.URL.Path, "/msu"), "%d", &idx)
		srvMu.Lock()
		f := current
		srvMu.Unlock()
		status, resp, drop := f(idx, legacy, body)
		if status == statusHang {
			// never answers: the request ends when the client gives up
			select {
			case <-r.Context().Done():
			case <-time.After(60 * time.Second):
			}
			return
		}
		if status == statusStall {
			w.Header().Set("Content-Type", "application/timestamp-reply")
			w.Header().Set("Content-Length", "3000")
			w.WriteHeader(200)
			w.Write([]byte{0x30, 0x82, 0x0b})
			if fl, ok := w.(http.Flusher); ok {
				fl.Flush()
			}
			select {
			case <-r.Context().Done():
			case <-time.After(stallCap):
				stallReleased.Add(1)
			}
			return
		}
		if drop {
			if hj, ok := w.(http.Hijacker); ok {
				conn, _, _ := hj.Hijack()
				conn.Close()
				return
			}
		}
		w.WriteHeader(status)
		w.Write(resp)
	})
}

// answer builds the authority's reply for one behaviour.
func answer(b behaviour, idx int, legacy bool, body []byte) (int, []byte, bool) {
	if b.Reply != nil {
		if legacy {
			panic("the status family exists in the RFC 3161 protocol only")
		}
		q, err := tsa.ParseQuery(body)
		if err != nil {
			return 400, []byte("bad request"), false
		}
		return 200, b.Reply(q, urlTime(idx)), false
	}
	if b.Name == hangBehaviour.Name {
		return statusHang, nil, false
	}
	if b.Name == stallBehaviour.Name {
		return statusStall, nil, false
	}
	t := urlTime(idx)
	if legacy {
		sigValue, err := tsa.LegacyQuery(body)
		if err != nil {
			return 400, []byte("bad request"), false
		}
		o := tsa.TokenOpts{}
		if content, ao, ok := legacyAnatomyOpts(b.Name, sigValue); ok {
			return 200, authority.LegacyResp(content, t, ao), false
		}
		switch b.Name {
		case "valid", "granted-with-mods", "wrong-nonce", "absent-nonce", "wrong-imprint-algorithm", "status-rejection", "status-waiting", "rejection-with-valid-token":
			// the legacy protocol has no nonce/status: these are plain valid replies
			return 200, authority.LegacyResp(sigValue, t, o), false
		case "wrong-imprint":
			other := append([]byte{}, sigValue...)
			other[0] ^= 0xff
			return 200, authority.LegacyResp(other, t, o), false
		case "bad-token-signature":
			o.CorruptSig = true
			return 200, authority.LegacyResp(sigValue, t, o), false
		case "signed-by-other-key":
			o.SignWith = otherKey
			return 200, authority.LegacyResp(sigValue, t, o), false
		case "no-certificate":
			o.NoCerts = true
			return 200, authority.LegacyResp(sigValue, t, o), false
		}
	} else {
		q, err := tsa.ParseQuery(body)
		if err != nil {
			return 400, []byte("bad request"), false
		}
		o := tsa.TokenOpts{HashAlg: q.HashAlg, Imprint: q.Imprint, Nonce: q.Nonce, GenTime: t}
		switch b.Name {
		case "valid":
			return 200, tsa.Resp(0, authority.Token(o)), false
		case "granted-with-mods":
			return 200, tsa.Resp(1, authority.Token(o)), false
		case "wrong-nonce":
			o.Nonce = new(big.Int).Add(q.Nonce, big.NewInt(1))
			return 200, tsa.Resp(0, authority.Token(o)), false
		case "absent-nonce":
			o.Nonce = nil
			return 200, tsa.Resp(0, authority.Token(o)), false
		case "wrong-imprint":
			o.Imprint = append([]byte{}, q.Imprint...)
			o.Imprint[0] ^= 0xff
			return 200, tsa.Resp(0, authority.Token(o)), false
		case "wrong-imprint-algorithm":
			// same octets, but declared as another algorithm of the same length
			if len(q.Imprint) == 32 {
				o.HashAlg = tsa.SHA3_256Alg()
			} else {
				o.HashAlg = tsa.SHA256Alg()
			}
			return 200, tsa.Resp(0, authority.Token(o)), false
		case "status-rejection":
			return 200, tsa.Resp(2, nil), false
		case "status-waiting":
			return 200, tsa.Resp(3, nil), false
		case "rejection-with-valid-token":
			return 200, tsa.Resp(2, authority.Token(o)), false
		case "bad-token-signature":
			o.CorruptSig = true
			return 200, tsa.Resp(0, authority.Token(o)), false
		case "signed-by-other-key":
			o.SignWith = otherKey
			return 200, tsa.Resp(0, authority.Token(o)), false
		case "no-certificate":
			o.NoCerts = true
			return 200, tsa.Resp(0, authority.Token(o)), false
		}
	}
	switch b.Name {
	case "http-500":
		return 500, []byte("internal error"), false
	case "garbage":
		return 200, []byte("\x30\x82\xff\xffthis is not a timestamp response"), false
	case "empty":
		return 200, nil, false
	case "connection-dropped":
		return 0, nil, true
	}
	panic("unhandled behaviour " + b.Name)
}

type attachPath struct {
	Name    string
	SigType string
	Input   string
	InName  string
	Flags   url.Values
	Legacy  bool
	Key     string // "" = rsaA
	// Cosign: the output is an OCI artifact manifest (JSON) that relic cannot
	// verify; the harness reads the signature and the RFC 3161 annotation itself.
	Cosign bool
}

func (p attachPath) key() string {
	if p.Key != "" {
		return p.Key
	}
	return "rsaA"
}

var paths = []attachPath{
	{Name: "ps(authenticode-oid)", SigType: "ps", Input: "hello.ps1", InName: "in.ps1"},
	{Name: "jar(rfc3161-oid)", SigType: "jar", Input: "hello.jar", InName: "in.jar"},
	{Name: "appmanifest(rfc3161)", SigType: "appmanifest", Input: "WindowsFormsApplication1.exe.manifest", InName: "in.exe.manifest", Flags: url.Values{"rfc3161-timestamp": {"true"}}},
	{Name: "appmanifest(legacy)", SigType: "appmanifest", Input: "WindowsFormsApplication1.exe.manifest", InName: "in.exe.manifest", Flags: url.Values{"rfc3161-timestamp": {"false"}}, Legacy: true},
	{Name: "vsix", SigType: "vsix", Input: "VSIXProject1.vsix", InName: "in.vsix"},
	// ECDSA: the XML SignatureValue is r||s, not the DER form the key produces
	{Name: "appmanifest(rfc3161,ecdsa)", SigType: "appmanifest", Input: "WindowsFormsApplication1.exe.manifest", InName: "in.exe.manifest", Flags: url.Values{"rfc3161-timestamp": {"true"}}, Key: "p256A"},
	{Name: "vsix(ecdsa)", SigType: "vsix", Input: "VSIXProject1.vsix", InName: "in.vsix", Key: "p256A"},
	{Name: "ps(authenticode-oid,ecdsa)", SigType: "ps", Input: "hello.ps1", InName: "in.ps1", Key: "p256A"},
	{Name: "cosign(annotation)", SigType: "cosign", InName: "image-manifest.json", Cosign: true},
}

func topRelicFrames(stack string) string {
	var out []string
	for _, l := range strings.Split(stack, "\n") {
		if strings.HasPrefix(l, "github.com/sassoftware/relic") {
			out = append(out, l[:strings.LastIndex(l, "(")])
			if len(out) == 3 {
				break
			}
		}
	}
	return strings.Join(out, " < ")
}

func copyFile(src, dst string) []byte {
	b, err := os.ReadFile(src)
	if err != nil {
		panic(err)
	}
	if err := os.WriteFile(dst, b, 0o644); err != nil {
		panic(err)
	}
	return b
}

// signPhase explores authority answer sequences. With hang set, the alphabet is
// {valid, http-500, never answers} under a 1 s client timeout: an authority
// that holds the connection open is one more unacceptable answer, and the
// caller's own context is still live when the client gives up on it.
func signTasks(mode string) []func() {
	hang := mode == "hang"
	nurlsList := []int{1, 2}
	if run.Thorough() {
		nurlsList = []int{1, 2, 3}
	}
	usePaths := paths
	if hang {
		nurlsList = nurlsList[1:]
		usePaths = nil
		for _, p := range paths {
			if p.Name == "ps(authenticode-oid)" || p.Legacy {
				usePaths = append(usePaths, p)
			}
		}
	}
	if mode == "status" {
		// the status field exists in the RFC 3161 protocol only; two URLs: the
		// first answers with a member of the status family, the second decides
		// whether there is anybody to fail over to
		nurlsList = []int{2}
		usePaths = nil
		for _, p := range paths {
			if !p.Legacy {
				usePaths = append(usePaths, p)
			}
		}
	}
	var tasks []func()
	for _, p := range usePaths {
		for _, nurls := range nurlsList {
			p, nurls := p, nurls
			tasks = append(tasks, func() { signPhase(p, nurls, mode) })
		}
	}
	return tasks
}

// signPhase runs in a process of its own: relic builds its timestamp client
// once per process from the configuration, so every (attach path, URL count)
// configuration gets a fresh process instead of the harness reaching into the
// client's private state.
func signPhase(p attachPath, nurls int, mode string) {
	hang := mode == "hang"
	olabel := "sign:"
	if mode == "status" {
		olabel = "status-family:"
	}
	srv, dir := startAuthority(), scratchDir()
	defer srv.Close()
	defer os.RemoveAll(dir)
	{
		{
			cfg := relicx.BaseConfig("file")
			cfg.Keys[p.key()].Timestamp = true
			cfg.Timestamp = &config.TimestampConfig{Timeout: 10}
			if hang {
				cfg.Timestamp.Timeout = int(hangClientTimeout / time.Second)
			}
			for i := 0; i < nurls; i++ {
				cfg.Timestamp.URLs = append(cfg.Timestamp.URLs, fmt.Sprintf("%s/u%d", srv.URL, i))
				cfg.Timestamp.MsURLs = append(cfg.Timestamp.MsURLs, fmt.Sprintf("%s/ms%d", srv.URL, i))
			}
			relicx.Use(cfg)
			tok, err := relicx.OpenTokenByKey(cfg, p.key())
			if err != nil {
				panic(err)
			}
			alphabet := behaviours
			if p.Legacy {
				// the legacy protocol only distinguishes these
				alphabet = nil
				for _, b := range behaviours {
					switch b.Name {
					case "valid", "wrong-imprint", "bad-token-signature", "signed-by-other-key", "no-certificate", "http-500", "garbage", "empty", "connection-dropped":
						alphabet = append(alphabet, b)
					}
				}
				// the two links between a legacy token and the signature value
				// (legacy.go); "valid" and "wrong-imprint" above are the members
				// with both links consistent
				alphabet = append(alphabet, legacyAnatomy...)
			}
			if hang {
				alphabet = []behaviour{behaviours[0], {Name: "http-500", Acceptable: false}, hangBehaviour, stallBehaviour}
			}
			// alphabetOf: the answers the authority behind URL idx chooses from
			alphabetOf := func(idx int) []behaviour { return alphabet }
			if mode == "status" {
				first := statusFamily(p.Name == "ps(authenticode-oid)" || run.Thorough())
				second := []behaviour{behaviours[0], {Name: "status-rejection"}}
				alphabetOf = func(idx int) []behaviour {
					if idx == 0 {
						return first
					}
					return second
				}
			}
			exploreOpts := mc.Options{MaxDeviations: -1}
			if hang {
				// the one family with a real-time element (the client's 1 s timeout): an
				// execution that does not repeat its prefix is run again, then given up
				exploreOpts.RetryDivergence = 2
			}
			st := mc.Explore(exploreOpts, func(c *mc.Ctx) {
				var seq []string
				var chosen []behaviour
				asked := map[int]int{}
				var arrivals []time.Time // when each request reached the authority
				var seqMu sync.Mutex     // a request may reach the handler after the client gave up on it
				srvMu.Lock()
				current = func(idx int, legacy bool, body []byte) (int, []byte, bool) {
					b := func() behaviour {
						seqMu.Lock()
						defer seqMu.Unlock()
						asked[idx]++
						arrivals = append(arrivals, time.Now())
						al := alphabetOf(idx)
						b := al[c.Choose(len(al), fmt.Sprintf("url%d", idx))]
						seq = append(seq, fmt.Sprintf("u%d:%s", idx, b.Name))
						chosen = append(chosen, b)
						return b
					}()
					return answer(b, idx, legacy, body)
				}
				srvMu.Unlock()
				in := filepath.Join(dir, p.InName)
				out := filepath.Join(dir, "out-"+p.InName)
				var orig []byte
				if p.Cosign {
					orig = ocigen.Build(ocigen.Spec{MediaType: ocigen.OCIManifest, Items: 1})
					if err := os.WriteFile(in, orig, 0o644); err != nil {
						panic(err)
					}
				} else {
					orig = copyFile(filepath.Join(relicx.Packages, p.Input), in)
				}
				os.Remove(out)
				flags := url.Values{}
				for k, v := range p.Flags {
					flags[k] = v
				}
				var serr error
				panicked := ""
				released := stallReleased.Load()
				func() {
					defer func() {
						if r := recover(); r != nil {
							buf := make([]byte, 8192)
							n := runtime.Stack(buf, false)
							panicked = fmt.Sprintf("%v\n%s", r, topRelicFrames(string(buf[:n])))
						}
					}()
					serr = relicx.SignStandalone(cfg, tok, relicx.SignReq{SigType: p.SigType, Key: p.key(), Hash: crypto.SHA256, Flags: flags, In: in, Out: out})
				}()
				run.Eval(1)
				// Everything the client sent counts, also what it stopped waiting for
				// before the authority read it (1 s client timeout, busy machine).
				seqMu.Lock()
				short := len(seq) < nurls
				seqMu.Unlock()
				if hang || (serr != nil && short) {
					if !srv.quiesce(quiesceCap) {
						run.Capped(fmt.Sprintf("%s: connections to the authority were still being served %v after signing returned; that sequence was not judged", p.Name, quiesceCap))
						return
					}
				}
				seqMu.Lock()
				defer seqMu.Unlock()
				desc := fmt.Sprintf("%s, %d url(s), authorities answered [%s]", p.Name, nurls, strings.Join(seq, " "))
				replay := map[string]any{"path": p.Name, "urls": nurls, "choices": c.Trace, "labels": c.Labels, "answers": seq}
				if os.Getenv("C10_DEBUG") != "" && p.Legacy {
					fmt.Printf("DEBUG %s -> err=%v\n", desc, serr)
				}
				if stallReleased.Load() != released {
					run.Violation("ts-sign:no-deadline-on-a-stalled-reply:"+p.Name, fmt.Sprintf("%s: timestamp.timeout is 1 s; the client was still waiting for the rest of a reply %v after its headers (the authority let go first)", desc, stallCap), replay)
					return
				}
				last := "nobody-asked"
				if len(seq) > 0 {
					last = chosen[len(chosen)-1].class()
				} else if serr != nil && panicked == "" {
					// refused before any authority was asked: nothing attached, nothing omitted
					run.Outcome(olabel + p.Name + ":refused-before-any-request")
					return
				}
				// succeedsKey: status family members are one input class whatever the attach path
				succeedsKey := "ts-sign:succeeds-without-acceptable-timestamp:" + p.Name + ":" + last
				if mode == "status" && len(chosen) > 0 && chosen[len(chosen)-1].Reply != nil {
					succeedsKey = "ts-status:signing-succeeds-after-non-granting-reply:" + last
				}
				if panicked != "" {
					run.Violation("ts-sign:panic-on-reply:"+last, desc+": signing crashes: "+panicked, replay)
					return
				}
				if len(seq) > 1 || (mode == "status" && len(seq) == 1) {
					run.Distinct(desc)
				}
				if len(seq) == 2 && len(c.Trace) == 2 && c.Trace[0] == 2 {
					run.Sample(desc + fmt.Sprintf(" -> err=%v", serr))
				}
				// reference: the first acceptable answer, in URL order
				want := -1
				for i := 0; i < nurls && want < 0; i++ {
					// the i-th asked URL got behaviour chosen[i] if it was asked at all
					if i < len(seq) && strings.HasPrefix(seq[i], fmt.Sprintf("u%d:", i)) {
						switch {
						case chosen[i].Acceptable:
							want = i
						case chosen[i].Either && i == len(seq)-1 && serr == nil:
							// undecided by the statement and the client took it: judged as taken
							want = i
						}
					}
				}
				// order and count of requests
				for i, s := range seq {
					if !strings.HasPrefix(s, fmt.Sprintf("u%d:", i)) {
						run.Violation("ts-sign:authorities-not-tried-in-order:"+p.Name, desc, replay)
					}
				}
				cur, _ := os.ReadFile(in)
				if !bytes.Equal(cur, orig) {
					run.Violation("ts-sign:input-modified:"+p.Name, desc, replay)
				}
				if want >= 0 {
					if hang && len(seq) > want+1 && arrivals[want+1].Sub(arrivals[want]) >= hangClientTimeout {
						// A client that goes on to the next URL a full timeout after a healthy
						// authority was asked has timed out on it (busy machine), as it would on a
						// hanging one: no verdict. One that goes on sooner has not, and is judged.
						run.Capped("hang scenarios: a healthy authority's answer missed the 1 s client timeout (the next URL was asked a full timeout later); that sequence was not judged")
						return
					}
					if len(seq) != want+1 {
						run.Violation("ts-sign:request-after-acceptable-answer:"+p.Name, desc, replay)
					}
					if serr != nil && hang && asked[want] > 0 {
						// the healthy authority was reached but the 1 s client timeout expired on it too (loaded machine): no verdict
						run.Capped("hang scenarios: a healthy authority's answer missed the 1 s client timeout; that sequence was not judged")
						return
					}
					if serr != nil {
						key := "ts-sign:fails-despite-acceptable-authority:" + p.Name
						run.Violation(key, desc+": "+serr.Error(), replay)
						return
					}
					if p.Cosign {
						has, imprintOK, timeOK, cerr := cosignStamp(out, urlTime(want))
						switch {
						case cerr != nil:
							run.Violation("ts-sign:output-unreadable:"+p.Name, fmt.Sprintf("%s: %v", desc, cerr), replay)
						case !has:
							run.Violation("ts-sign:timestamp-silently-omitted:"+p.Name, desc, replay)
						case !imprintOK:
							run.Violation("ts-sign:attached-token-does-not-cover-this-signature:"+p.Name, desc, replay)
						case !timeOK:
							run.Violation("ts-sign:token-of-wrong-authority-attached:"+p.Name, desc, replay)
						default:
							run.Outcome(olabel + p.Name + ":stamped-by-url" + fmt.Sprint(want))
						}
						return
					}
					sigs, verr := relicx.Verify(out, relicx.TrustOpts())
					if verr != nil || len(sigs) == 0 {
						run.Violation("ts-sign:output-does-not-verify:"+p.Name, fmt.Sprintf("%s: %v", desc, verr), replay)
						return
					}
					cs := sigs[len(sigs)-1].X509Signature.CounterSignature
					if cs == nil {
						run.Violation("ts-sign:timestamp-silently-omitted:"+p.Name, desc, replay)
						return
					}
					if !cs.SigningTime.Equal(urlTime(want)) {
						run.Violation("ts-sign:token-of-wrong-authority-attached:"+p.Name, fmt.Sprintf("%s: attested time %s, authority %d issues %s", desc, cs.SigningTime, want, urlTime(want)), replay)
					}
					run.Outcome(olabel + p.Name + ":stamped-by-url" + fmt.Sprint(want))
					return
				}
				// no acceptable authority: signing must fail and leave no artifact
				if serr == nil && p.Cosign {
					has, _, _, _ := cosignStamp(out, time.Time{})
					what := "an artifact without timestamp"
					if has {
						what = "an artifact carrying the unacceptable token"
					}
					run.Violation(succeedsKey, desc+": signing succeeded with "+what, replay)
					return
				}
				if serr == nil {
					what := "an artifact without timestamp"
					if sigs, verr := relicx.Verify(out, relicx.TrustOpts()); verr != nil {
						what = "an artifact relic's own verifier rejects (" + verr.Error() + ")"
					} else if len(sigs) > 0 && sigs[len(sigs)-1].X509Signature.CounterSignature != nil {
						what = "an artifact carrying the unacceptable token"
					}
					run.Violation(succeedsKey, desc+": signing succeeded with "+what, replay)
					return
				}
				if lastURL := fmt.Sprintf("/u%d\"", nurls-1); len(seq) != nurls && hang && (strings.Contains(serr.Error(), lastURL) || strings.Contains(serr.Error(), strings.Replace(lastURL, "/u", "/ms", 1))) {
					// the client reports its timeout on the last URL, which the authority never saw: the
					// request was given up before it left the process (starved machine): no verdict
					run.Capped("hang scenarios: the client timed out on a URL before its request reached the authority; that sequence was not judged")
					return
				}
				if len(seq) != nurls {
					// gave up before asking everybody
					run.Violation("ts-sign:no-failover-after:"+last+":"+p.Name, desc+": "+serr.Error(), replay)
				}
				if _, err := os.Stat(out); err == nil {
					run.Violation("ts-sign:artifact-left-after-failure:"+p.Name, desc, replay)
				}
				run.Outcome(olabel + p.Name + ":refused")
			})
			run.AddStates(st.Executions)
			run.AddTransitions(st.ChoicePoints)
			if st.Diverged > 0 {
				run.Capped(fmt.Sprintf("hang scenarios (%s): %d sequence(s) could not be repeated as a prefix (timing on a busy machine) and were not explored further", p.Name, st.Diverged))
			}
			label := "sign_sequences"
			if hang {
				label = "sign_sequences_with_hanging_authority"
			}
			if mode == "status" {
				label = "sign_sequences_status_family"
				run.Set("status_family_size:"+p.Name, len(alphabetOf(0)))
			}
			run.Set(fmt.Sprintf("%s:%s:%d-urls", label, p.Name, nurls), st.Executions)
		}
	}
}

// ---- verify side ----

func pemCerts(path string) []*x509.Certificate {
	blob, err := os.ReadFile(path)
	if err != nil {
		panic(err)
	}
	var out []*x509.Certificate
	for {
		var b *pem.Block
		b, blob = pem.Decode(blob)
		if b == nil {
			break
		}
		c, _ := x509.ParseCertificate(b.Bytes)
		out = append(out, c)
	}
	return out
}

// cosignStamp reads relic's cosign output without any relic code: the raw
// signature and the RFC 3161 token are base64 annotations of the first layer.
// The token covers this signature iff SHA-256(signature) appears in it (the
// messageImprint of its TSTInfo) and it is the expected authority's iff that
// authority's attested time (GeneralizedTime) does.
func cosignStamp(path string, at time.Time) (has, imprintOK, timeOK bool, err error) {
	blob, err := os.ReadFile(path)
	if err != nil {
		return false, false, false, err
	}
	var m struct {
		Layers []struct {
			Annotations map[string]string `json:"annotations"`
		} `json:"layers"`
	}
	if err := json.Unmarshal(blob, &m); err != nil || len(m.Layers) == 0 {
		return false, false, false, fmt.Errorf("not a cosign artifact manifest: %v", err)
	}
	a := m.Layers[0].Annotations
	sig, err := base64.StdEncoding.DecodeString(a["dev.cosignproject.cosign/signature"])
	if err != nil || len(sig) == 0 {
		return false, false, false, fmt.Errorf("no signature annotation")
	}
	ts, ok := a["dev.sigstore.cosign/rfc3161timestamp"]
	if !ok {
		return false, false, false, nil
	}
	tok, err := base64.StdEncoding.DecodeString(ts)
	if err != nil {
		return true, false, false, fmt.Errorf("timestamp annotation is not base64")
	}
	h := sha256.Sum256(sig)
	imprintOK = bytes.Contains(tok, h[:])
	timeOK = bytes.Contains(tok, []byte(at.UTC().Format("20060102150405Z")))
	return true, imprintOK, timeOK, nil
}

func scratchDir() string {
	dir, err := os.MkdirTemp("", "c10-")
	if err != nil {
		panic(err)
	}
	return dir
}

// constructionPhase: the timestamp client cannot be built when the first
// request needs it (its CA bundle is not on disk yet); later it can. A key that
// asks for timestamps never yields a signature without one: every request
// either fails or carries a matching timestamp.
func constructionPhase() {
	srv, dir := startAuthority(), scratchDir()
	defer srv.Close()
	defer os.RemoveAll(dir)
	srvMu.Lock()
	asked := 0
	current = func(idx int, legacy bool, body []byte) (int, []byte, bool) {
		asked++
		return answer(behaviours[0], idx, legacy, body)
	}
	srvMu.Unlock()
	ca := filepath.Join(dir, "tsa-ca.pem")
	cfg := relicx.BaseConfig("file")
	cfg.Keys["rsaA"].Timestamp = true
	cfg.Timestamp = &config.TimestampConfig{Timeout: 10, URLs: []string{srv.URL + "/u0"}, CaCert: ca}
	relicx.Use(cfg)
	tok, err := relicx.OpenTokenByKey(cfg, "rsaA")
	if err != nil {
		panic(err)
	}
	var hist []string
	for i := 1; i <= 4; i++ {
		if i == 3 {
			// the bundle appears (any readable PEM bundle will do for a plain-http authority)
			blob, err := os.ReadFile(filepath.Join(relicx.KeyDir, "root.crt"))
			if err != nil {
				panic(err)
			}
			os.WriteFile(ca, blob, 0o644)
		}
		in := filepath.Join(dir, "c.ps1")
		out := filepath.Join(dir, "out-c.ps1")
		os.Remove(out)
		os.WriteFile(in, []byte(fmt.Sprintf("Write-Host 'request %d'\r\n", i)), 0o644)
		before := asked
		serr := relicx.SignStandalone(cfg, tok, relicx.SignReq{SigType: "ps", Key: "rsaA", Hash: crypto.SHA256, Flags: url.Values{}, In: in, Out: out})
		run.Eval(1)
		state := "CA bundle missing"
		if i >= 3 {
			state = "CA bundle present"
		}
		hist = append(hist, fmt.Sprintf("request %d (%s): err=%v, authority asked %d time(s)", i, state, serr != nil, asked-before))
		desc := "timestamp client construction fails first, later succeeds: " + strings.Join(hist, "; ")
		replay := map[string]any{"request": i}
		run.Distinct(fmt.Sprintf("construction|%d", i))
		if serr != nil {
			if i >= 3 && i == 4 {
				run.Violation("ts-construction:still-failing-after-the-cause-is-gone", desc+": "+serr.Error(), replay)
			}
			run.Outcome("construction:refused")
			continue
		}
		sigs, verr := relicx.Verify(out, relicx.TrustOpts())
		if verr != nil || len(sigs) == 0 {
			run.Violation("ts-construction:output-does-not-verify", fmt.Sprintf("%s: %v", desc, verr), replay)
			continue
		}
		if sigs[len(sigs)-1].X509Signature.CounterSignature == nil {
			run.Violation("ts-construction:timestamp-silently-omitted", desc+": the key asks for timestamps, signing succeeded, the artifact carries none", replay)
			continue
		}
		run.Outcome("construction:stamped")
	}
}

func verifyPhase() {
	dir := scratchDir()
	defer os.RemoveAll(dir)
	kd := relicx.KeyDir
	inter := pemCerts(filepath.Join(kd, "inter.crt"))[0]
	interKey := tsa.LoadKey(filepath.Join(kd, "inter.key"))
	root := pemCerts(filepath.Join(kd, "root.crt"))[0]
	rsaA := tsa.LoadKey(filepath.Join(kd, "rsaA.key"))
	type leafT struct {
		name   string
		cert   *x509.Certificate
		nb, na time.Time
	}
	var leaves []leafT
	for _, n := range []string{"rsaA.leaf.crt", "rsaA.expired.crt", "rsaA.future.crt"} {
		c := pemCerts(filepath.Join(kd, n))[0]
		leaves = append(leaves, leafT{n, c, c.NotBefore, c.NotAfter})
	}
	// authorities
	mkTSA := func(cn string, parent *x509.Certificate, pkey crypto.Signer, eku bool, nb, na time.Time) *tsa.Authority {
		k := tsa.NewRSAKey()
		serial, _ := rand.Int(rand.Reader, big.NewInt(1<<62))
		t := &x509.Certificate{SerialNumber: serial, Subject: pkix.Name{CommonName: cn}, NotBefore: nb, NotAfter: na, KeyUsage: x509.KeyUsageDigitalSignature, BasicConstraintsValid: true}
		if eku {
			t.ExtKeyUsage = []x509.ExtKeyUsage{x509.ExtKeyUsageTimeStamping}
		} else {
			t.ExtKeyUsage = []x509.ExtKeyUsage{x509.ExtKeyUsageCodeSigning}
		}
		p := parent
		if p == nil {
			p = t
			pkey = k
		}
		der, err := x509.CreateCertificate(rand.Reader, t, p, &k.PublicKey, pkey)
		if err != nil {
			panic(err)
		}
		c, _ := x509.ParseCertificate(der)
		a := &tsa.Authority{Key: k, Cert: c}
		if parent != nil {
			a.Chain = []*x509.Certificate{parent}
		}
		return a
	}
	y := func(yr, mo int) time.Time { return time.Date(yr, time.Month(mo), 1, 0, 0, 0, 0, time.UTC) }
	type tsaT struct {
		name string
		a    *tsa.Authority
		ok   func(at time.Time) bool // chain valid for timestamping at the attested time
	}
	good := tsa.Fixture()
	tsas := []tsaT{
		{"trusted", good, func(at time.Time) bool { return !at.Before(good.Cert.NotBefore) && !at.After(good.Cert.NotAfter) }},
		{"no-timestamping-eku", mkTSA("tsa noeku", inter, interKey, false, y(2020, 1), y(2046, 1)), func(time.Time) bool { return false }},
		{"untrusted-selfsigned", mkTSA("tsa selfsigned", nil, nil, true, y(2020, 1), y(2046, 1)), func(time.Time) bool { return false }},
		{"short-lived(2020-07..2021-07)", mkTSA("tsa short", inter, interKey, true, y(2020, 7), y(2021, 7)), func(at time.Time) bool { return !at.Before(y(2020, 7)) && !at.After(y(2021, 7)) }},
	}
	attested := []time.Time{y(2019, 6), y(2020, 6), y(2020, 9), y(2022, 6), y(2026, 6), y(2045, 6), y(2047, 1)}
	now := time.Now()
	content := []byte("content to be signed\n")
	contentPath := filepath.Join(dir, "content.bin")
	os.WriteFile(contentPath, content, 0o644)
	pool := x509.NewCertPool()
	pool.AddCert(root)
	type variant struct {
		name    string
		has     bool
		grafted bool
		authOID bool
		// counter: a legacy countersignature attribute (a bare SignerInfo whose
		// messageDigest is the digest of the signature value) instead of a token
		counter bool
	}
	variants := []variant{{name: "none"}, {name: "valid", has: true}, {name: "valid(authenticode-oid)", has: true, authOID: true}, {name: "grafted-from-other-signature", has: true, grafted: true},
		{name: "legacy-countersignature", has: true, counter: true}, {name: "legacy-countersignature-grafted-from-other-signature", has: true, counter: true, grafted: true}}
	// One set of trust options for every case, as `relic verify --cert ca.pem a b c`
	// has for all its files, and the whole list judged twice, forwards and
	// backwards: a verdict must not depend on what was verified before it.
	shared := relicx.TrustOpts()
	var cases []func(order string)
	for _, lf := range leaves {
		for _, v := range variants {
			for _, ta := range tsas {
				for _, at := range attested {
					if !v.has && (ta.name != "trusted" || !at.Equal(attested[0])) {
						continue
					}
					lf, v, ta, at := lf, v, ta, at
					cases = append(cases, func(order string) {
						// build the signature with relic's builder (construction tool, not oracle)
						sb := pkcs7.NewBuilder(rsaA, []*x509.Certificate{lf.cert, inter}, crypto.SHA256)
						if err := sb.SetContentData(content); err != nil {
							panic(err)
						}
						if err := sb.AddAuthenticatedAttribute(pkcs7.OidAttributeSigningTime, time.Now().UTC()); err != nil {
							panic(err)
						}
						psd, err := sb.Sign()
						if err != nil {
							panic(err)
						}
						sigValue := psd.Content.SignerInfos[0].EncryptedDigest
						if v.has {
							over := sigValue
							if v.grafted {
								over = append([]byte("another signature value "), sigValue...)
							}
							if v.counter {
								addCounterSignature(psd, ta.a, over, at, tsa.TokenOpts{})
							}
							h := sha256.Sum256(over)
							tokDER := ta.a.Token(tsa.TokenOpts{HashAlg: tsa.SHA256Alg(), Imprint: h[:], Nonce: big.NewInt(7), GenTime: at})
							tok, err := pkcs7.Unmarshal(tokDER)
							if err != nil {
								panic(err)
							}
							if v.counter {
								// attached above
							} else if v.authOID {
								err = pkcs9.AddStampToSignedAuthenticode(&psd.Content.SignerInfos[0], *tok)
							} else {
								err = pkcs9.AddStampToSignedData(&psd.Content.SignerInfos[0], *tok)
							}
							if err != nil {
								panic(err)
							}
						}
						blob, err := psd.Marshal()
						if err != nil {
							panic(err)
						}
						p7 := filepath.Join(dir, "sig.p7s")
						os.WriteFile(p7, blob, 0o644)
						opts := shared
						opts.Content = contentPath
						_, verr := relicx.Verify(p7, opts)
						run.Eval(1)
						within := func(t time.Time) bool { return !t.Before(lf.nb) && !t.After(lf.na) }
						var want bool
						switch {
						case !v.has:
							want = within(now)
						case v.grafted:
							want = false
						default:
							want = within(at) && ta.ok(at)
						}
						desc := fmt.Sprintf("[pass %s, one trust pool for all cases] leaf %s (valid %s..%s), token %s by authority %s attesting %s: relic verify+chain says %v", order, lf.name, lf.nb.Format("2006-01"), lf.na.Format("2006-01"), v.name, ta.name, at.Format("2006-01"), verr)
						run.Distinct(fmt.Sprintf("%s|%s|%s|%s", lf.name, v.name, ta.name, at.Format("2006-01")))
						if len(desc) > 0 && lf.name == "rsaA.expired.crt" && v.name == "valid" && ta.name == "trusted" {
							run.Sample(desc)
						}
						if want && verr != nil {
							run.Violation("ts-verify:valid-timestamped-signature-rejected:"+lf.name+":"+ta.name, desc, desc)
						}
						if !want && verr == nil {
							why := "leaf-not-valid-at-attested-time"
							switch {
							case v.grafted:
								why = "grafted-token"
							case !v.has:
								why = "no-token-and-leaf-not-valid-now"
							case !ta.ok(at):
								why = "authority-chain-not-valid:" + ta.name
							}
							run.Violation("ts-verify:accepted:"+why, desc, desc)
						}
						run.Outcome(fmt.Sprintf("verify:%s:%v", v.name, verr == nil))
						_ = order
					})
				}
			}
		}
	}
	for _, c := range cases {
		c("forward")
	}
	for i := len(cases) - 1; i >= 0; i-- {
		cases[i]("backward")
	}
	_ = certloader.Certificate{}
	_ = signers.VerifyOpts{}
	_ = net.IPv4len
}

// ---- timestamp cache (memcached) ----

// fakeMemcache speaks the part of the memcached text protocol that
// gomemcache uses (get/gets, set) over loopback TCP; the store is the
// harness's, so entries can be inspected, replaced and removed between runs.
type fakeMemcache struct {
	ln    net.Listener
	mu    sync.Mutex
	store map[string][]byte
	gets  []string // keys asked for, with "+" (found) or "-" (not found)
	sets  []string
	// failGet makes the server drop the connection on a get
	failGet bool
	failSet bool
}

func startMemcache() *fakeMemcache {
	ln, err := net.Listen("tcp", "127.0.0.1:0")
	if err != nil {
		panic(err)
	}
	m := &fakeMemcache{ln: ln, store: map[string][]byte{}}
	go func() {
		for {
			c, err := ln.Accept()
			if err != nil {
				return
			}
			go m.serve(c)
		}
	}()
	return m
}

func (m *fakeMemcache) serve(c net.Conn) {
	defer c.Close()
	br := bufio.NewReader(c)
	for {
		line, err := br.ReadString('\n')
		if err != nil {
			return
		}
		f := strings.Fields(line)
		if len(f) == 0 {
			continue
		}
		switch f[0] {
		case "get", "gets":
			m.mu.Lock()
			if m.failGet {
				m.gets = append(m.gets, f[1]+"!")
				m.mu.Unlock()
				return
			}
			var out bytes.Buffer
			for _, k := range f[1:] {
				if v, ok := m.store[k]; ok {
					m.gets = append(m.gets, k+"+")
					fmt.Fprintf(&out, "VALUE %s 0 %d 1\r\n", k, len(v))
					out.Write(v)
					out.WriteString("\r\n")
				} else {
					m.gets = append(m.gets, k+"-")
				}
			}
			m.mu.Unlock()
			out.WriteString("END\r\n")
			c.Write(out.Bytes())
		case "set":
			n := 0
			fmt.Sscan(f[4], &n)
			data := make([]byte, n+2)
			if _, err := io.ReadFull(br, data); err != nil {
				return
			}
			m.mu.Lock()
			if m.failSet {
				m.sets = append(m.sets, f[1]+"!")
				m.mu.Unlock()
				c.Write([]byte("SERVER_ERROR out of memory storing object\r\n"))
				continue
			}
			m.store[f[1]] = append([]byte{}, data[:n]...)
			m.sets = append(m.sets, f[1])
			m.mu.Unlock()
			c.Write([]byte("STORED\r\n"))
		default:
			c.Write([]byte("ERROR\r\n"))
		}
	}
}

// cachePhase: the memcached layer in front of the authorities. One RSA
// signature is deterministic, so signing the same script twice asks the cache
// for the same key. Explored: what the cache holds for that key when the
// second signing asks {the token stored by the first signing, nothing,
// garbage, a truncated token, a genuine token that belongs to another
// signature, this signature's token with its signature damaged, connection dropped} x whether the store accepts a new entry x
// the authority's answer if it is asked {valid, wrong imprint, http-500}.
// Whatever the cache says, the artifact carries a token only if that token
// matches this signature, and signing fails only if neither the cache nor the
// authority offered an acceptable one.
func flipAt(b []byte, i int) []byte {
	out := append([]byte{}, b...)
	if i >= 0 && i < len(out) {
		out[i] ^= 0x20
	}
	return out
}

// cacheStyle: which protocol the cache phase drives. The RFC 3161 style signs
// PowerShell scripts; the legacy style signs ClickOnce manifests with
// --rfc3161-timestamp=false (the only attach path that asks a legacy
// authority), and adds the cache contents of legacy.go: legacy tokens whose
// content / messageDigest links are broken one at a time.
type cacheStyle struct {
	legacy         bool
	label          string // "" or "(legacy)": part of outcome labels and violation keys
	sigType        string
	name           string
	flags          url.Values
	inputA, inputB string
}

func cachePhase() {
	cachePhaseFor(cacheStyle{sigType: "ps", name: "c.ps1", inputA: "Write-Host 'cache case A'\r\n", inputB: "Write-Host 'cache case B, another signature'\r\n"})
}

func legacyCachePhase() {
	blob, err := os.ReadFile(filepath.Join(relicx.Packages, "WindowsFormsApplication1.exe.manifest"))
	if err != nil {
		panic(err)
	}
	a := string(blob)
	b := strings.Replace(a, `version="1.2.3.4"`, `version="1.2.3.5"`, 1)
	if a == b {
		panic("legacy cache phase: the sample manifest has no version=\"1.2.3.4\" to vary")
	}
	cachePhaseFor(cacheStyle{legacy: true, label: "(legacy)", sigType: "appmanifest", name: "c.exe.manifest", flags: url.Values{"rfc3161-timestamp": {"false"}}, inputA: a, inputB: b})
}

func cachePhaseFor(style cacheStyle) {
	srv, dir := startAuthority(), scratchDir()
	defer srv.Close()
	defer os.RemoveAll(dir)
	mcache := startMemcache()
	defer mcache.ln.Close()
	cfg := relicx.BaseConfig("file")
	cfg.Keys["rsaA"].Timestamp = true
	cfg.Timestamp = &config.TimestampConfig{Timeout: 10, URLs: []string{srv.URL + "/u0"}, MsURLs: []string{srv.URL + "/ms0"}, Memcache: []string{mcache.ln.Addr().String()}}
	relicx.Use(cfg)
	tok, err := relicx.OpenTokenByKey(cfg, "rsaA")
	if err != nil {
		panic(err)
	}
	asked := 0
	var authority behaviour
	var lastLegacyValue []byte // the signature value of the last legacy request
	srvMu.Lock()
	current = func(idx int, legacy bool, body []byte) (int, []byte, bool) {
		asked++
		if legacy != style.legacy {
			fmt.Println("HARNESS-ERROR: cache phase: the request went to the other protocol's authority")
			os.Exit(2)
		}
		if legacy {
			if v, err := tsa.LegacyQuery(body); err == nil {
				lastLegacyValue = append([]byte{}, v...)
			}
		}
		return answer(authority, idx, legacy, body)
	}
	srvMu.Unlock()
	sign := func(input, name string) (string, error) {
		in := filepath.Join(dir, name)
		out := filepath.Join(dir, "out-"+name)
		os.Remove(out)
		if err := os.WriteFile(in, []byte(input), 0o644); err != nil {
			panic(err)
		}
		flags := url.Values{}
		for k, v := range style.flags {
			flags[k] = v
		}
		return out, relicx.SignStandalone(cfg, tok, relicx.SignReq{SigType: style.sigType, Key: "rsaA", Hash: crypto.SHA256, Flags: flags, In: in, Out: out})
	}
	scriptA, scriptB := style.inputA, style.inputB
	var valueA []byte
	// populate: A and B each signed once with a valid authority
	authority = behaviours[0]
	for i, s := range []string{scriptA, scriptB} {
		if _, err := sign(s, style.name); err != nil {
			fmt.Println("HARNESS-ERROR: cache phase: populating signing fails:", err)
			os.Exit(2)
		}
		if i == 0 {
			valueA = lastLegacyValue
		}
	}
	mcache.mu.Lock()
	if len(mcache.sets) != 2 || mcache.sets[0] == mcache.sets[1] {
		mcache.mu.Unlock()
		run.Capped(fmt.Sprintf("timestamp cache: two signings stored %d entries; cache scenarios not explored", len(mcache.sets)))
		return
	}
	keyA, keyB := mcache.sets[0], mcache.sets[1]
	genuineA := append([]byte{}, mcache.store[keyA]...)
	genuineB := append([]byte{}, mcache.store[keyB]...)
	mcache.mu.Unlock()
	// determinism: signing A again must ask for the same key
	mcache.mu.Lock()
	mcache.gets = nil
	mcache.mu.Unlock()
	if _, err := sign(scriptA, style.name); err != nil {
		fmt.Println("HARNESS-ERROR: cache phase: re-signing fails:", err)
		os.Exit(2)
	}
	mcache.mu.Lock()
	hit := len(mcache.gets) == 1 && mcache.gets[0] == keyA+"+"
	mcache.mu.Unlock()
	if !hit {
		run.Capped("timestamp cache: a repeated signature did not ask for the same cache key (signatures are not deterministic here); cache scenarios not explored")
		return
	}
	type cacheEntry struct {
		name       string
		value      []byte
		acceptable bool // the cached value is a token that matches signature A
		failGet    bool
		// either: the statement does not decide whether this token covers the
		// signature (legacy.go); serving it and asking the authority are both in order
		either bool
	}
	entries := []cacheEntry{
		{name: "genuine-token-of-this-signature", value: genuineA, acceptable: true},
		{name: "absent"},
		{name: "garbage", value: []byte("this is not a token")},
		{name: "truncated-token", value: genuineA[:len(genuineA)/2]},
		{name: "genuine-token-of-another-signature", value: genuineB},
		{name: "empty-value", value: []byte{}},
		// the right imprint, but the authority's signature does not hold: an entry
		// damaged in the store, or written there by someone else (memcached has no
		// authentication); last byte = end of the signature value, middle of the
		// last 300 bytes = inside the signed attributes / signature
		{name: "token-of-this-signature-with-damaged-signature-value", value: flipAt(genuineA, len(genuineA)-1)},
		{name: "token-of-this-signature-damaged-near-its-end", value: flipAt(genuineA, len(genuineA)-150)},
		{name: "connection-dropped", value: genuineA, failGet: true},
	}
	if style.legacy {
		if len(valueA) == 0 {
			fmt.Println("HARNESS-ERROR: legacy cache phase: the authority did not see the signature value of the first request")
			os.Exit(2)
		}
		// tokens of the genuine authority for this key, every combination of the two links
		for _, m := range legacyTokenMatrix(valueA) {
			entries = append(entries, cacheEntry{name: m.name, value: tsa.Fixture().LegacyDER(m.content, baseTime, m.opts), acceptable: m.covers, either: m.either})
		}
	}
	auth := []behaviour{behaviours[0], {Name: "wrong-imprint", Acceptable: false}, {Name: "http-500"}}
	n := 0
	for _, e := range entries {
		for _, failSet := range []bool{false, true} {
			for _, a := range auth {
				mcache.mu.Lock()
				delete(mcache.store, keyA)
				if e.value != nil {
					mcache.store[keyA] = e.value
				}
				mcache.failGet, mcache.failSet = e.failGet, failSet
				mcache.gets, mcache.sets = nil, nil
				mcache.mu.Unlock()
				authority = a
				asked = 0
				out, serr := sign(scriptA, style.name)
				n++
				run.Eval(1)
				desc := fmt.Sprintf("timestamp cache%s holds %s for this signature, store accepts new entries: %v, authority would answer %s (asked %d time(s))", style.label, e.name, !failSet, a.Name, asked)
				replay := map[string]any{"cache_entry": e.name, "store_fails": failSet, "authority": a.Name, "legacy": style.legacy}
				run.Distinct("cache" + style.label + "|" + e.name + fmt.Sprint(failSet) + a.Name)
				switch {
				case e.acceptable || (e.either && asked == 0 && serr == nil):
					// a matching cached token may be used, or the authority asked anyway
					if serr != nil && (asked == 0 || a.Acceptable) {
						run.Violation("ts-cache"+style.label+":fails-despite-matching-cached-token", desc+": "+serr.Error(), replay)
						continue
					}
				case !a.Acceptable:
					if serr == nil {
						what := "an artifact"
						if sigs, verr := relicx.Verify(out, relicx.TrustOpts()); verr != nil {
							what = "an artifact relic's own verifier rejects (" + verr.Error() + ")"
						} else if len(sigs) > 0 && sigs[len(sigs)-1].X509Signature.CounterSignature == nil {
							what = "an artifact without timestamp"
						}
						run.Violation("ts-cache"+style.label+":succeeds-without-acceptable-timestamp:"+e.name, desc+": signing produced "+what, replay)
						continue
					}
				default:
					if serr != nil {
						run.Violation("ts-cache"+style.label+":unusable-entry-not-bypassed:"+e.name, desc+": "+serr.Error(), replay)
						continue
					}
					if asked == 0 {
						run.Violation("ts-cache"+style.label+":unusable-entry-used:"+e.name, desc, replay)
						continue
					}
				}
				if serr != nil {
					if _, err := os.Stat(out); err == nil {
						run.Violation("ts-cache"+style.label+":artifact-left-after-failure", desc, replay)
					}
					run.Outcome("cache" + style.label + ":" + e.name + ":refused")
					continue
				}
				sigs, verr := relicx.Verify(out, relicx.TrustOpts())
				if verr != nil || len(sigs) == 0 {
					run.Violation("ts-cache"+style.label+":output-does-not-verify:"+e.name, fmt.Sprintf("%s: %v", desc, verr), replay)
					continue
				}
				cs := sigs[len(sigs)-1].X509Signature.CounterSignature
				if cs == nil {
					run.Violation("ts-cache"+style.label+":timestamp-silently-omitted:"+e.name, desc, replay)
					continue
				}
				// a poisoned entry must not survive a successful fall-through, and what is stored must be usable
				mcache.mu.Lock()
				stored, has := mcache.store[keyA]
				mcache.mu.Unlock()
				if has && !failSet && asked > 0 && a.Acceptable {
					if _, err := pkcs7.Unmarshal(stored); err != nil {
						run.Violation("ts-cache"+style.label+":unusable-entry-left-in-place:"+e.name, desc, replay)
					}
				}
				if asked > 0 {
					run.Outcome("cache" + style.label + ":" + e.name + ":authority-asked")
				} else {
					run.Outcome("cache" + style.label + ":" + e.name + ":served-from-cache")
				}
			}
		}
	}
	run.Set("timestamp_cache_cases"+style.label, n)
}

func main() {
	relicx.Quiet()
	log.SetOutput(io.Discard)
	run = vlib.NewRun("C10", "model_checking")
	// one process per configuration of the (process-wide) timestamp client
	tasks := append(signTasks(""), signTasks("hang")...)
	tasks = append(tasks, signTasks("status")...)
	tasks = append(tasks, lifetimeTasks()...)
	tasks = append(tasks, cachePhase, constructionPhase, verifyPhase)
	tasks = append(tasks, legacyCachePhase, legacyVerifyPhase, ekuPhase)
	// development: C10_ONLY=sign|hang|status|lifetime|cache|legacy-cache|verify|legacy-verify|eku|construction runs that phase (group) alone
	if only := os.Getenv("C10_ONLY"); only != "" {
		if group, ok := map[string][]func(){"sign": signTasks(""), "hang": signTasks("hang"), "status": signTasks("status"), "lifetime": lifetimeTasks()}[only]; ok {
			tasks = group
			only = ""
		}
		f, ok := map[string]func(){"": nil, "cache": cachePhase, "legacy-cache": legacyCachePhase, "verify": verifyPhase, "legacy-verify": legacyVerifyPhase, "eku": ekuPhase, "construction": constructionPhase}[only]
		if !ok {
			fmt.Println("HARNESS-ERROR: unknown C10_ONLY phase", only)
			os.Exit(2)
		}
		if f != nil {
			tasks = []func(){f}
		}
	}
	if run.Fork(len(tasks)) {
		run.Rule("sign side: every sequence of authority behaviours (16 for RFC 3161, 13 for the legacy protocol: 9 + the 4 legacy tokens of the content / messageDigest matrix below that are not among them) over 1-2 (thorough 3) configured URLs, explored as a choice tree that ends at the first acceptable answer, x 9 attach paths (5 with an RSA key, 3 with ECDSA P-256, cosign's annotation read by the harness itself), through the real pipeline and HTTP client against a loopback authority; verify side: 3 leaf validity windows x {no token, valid token under either OID, token grafted from another signature, legacy countersignature attribute of this / of another signature value} x 4 authorities x 7 attested times, all cases under one shared trust pool and judged twice (list forwards, then backwards). states = executions; distinct_nontrivial = sign sequences with >=2 requests + verify cases. Hanging authorities: every sequence over {valid, http-500, never answers} for 2 (thorough 3) URLs under a 1 s client timeout, on one RFC 3161 and the legacy path. Timestamp cache: a loopback memcached owned by the harness; 9 cache contents for this signature's key x store accepts / refuses new entries x 3 authority answers, through the real gomemcache client. Status family (RFC 3161 attach paths, 2 URLs): the first authority answers with every member of {18 PKIStatus values: 0..5, -1, 6, and values that become 0 or 1 when cut to 8/16/32 bits, negative and positive, one beyond 64 bits} x {no token, the valid token for this request} (x {failInfo absent, empty, badAlg, badRequest, systemFailure} x {statusString absent, present} on the ps path; thorough: on every path), the second with {valid, rejection}; only status 0 and 1 with the token may end in that token being attached (0/1 with failure bits: either reading accepted). Token lifetime (one process per client configuration: plain, rate-limited, memcached; tsclient.New, GOMAXPROCS 1): every history of 3 (thorough 4) requests over {RFC 3161 x 4 reply shapes, legacy x 3 reply shapes} plus the first request repeated, every token held so far serialised and judged again after every later reply; then 3 requests in flight at once with the replies released one at a time in each of the 6 orders or all together, RFC 3161 and legacy. Legacy token matrix (legacy.go): a legacy token is bound to a signature value by two links, content = the value and signed messageDigest = digest of the content, and the content itself is not signed; every token of {content: this value, another value, absent (detached)} x {messageDigest: of this value, of another value}, validly signed by the genuine authority, (a) as the reply of a legacy authority in the sign sequences above, (b) as the timestamp cache's entry for this signature's key (legacy cache phase: the RFC 3161 cache phase repeated through the appmanifest legacy attach path, 9 + 6 cache contents x store accepts / refuses x 3 authority answers), (c) as the as:Timestamp of a ClickOnce manifest signed through the real pipeline with a certificate valid today / expired in 2021 (the harness replaces the text of that unsigned element; plus no timestamp and an RFC 3161 token for this / another value) x attested time inside / after the expired certificate's lifetime (thorough: 5 times), judged by relic verify with chain checking; only content = this value with messageDigest = its digest covers the signature (absent content with the right digest: either verdict, tallied). Authority entitlement (eku.go): authority certificate extended key usage in {timeStamping only critical, timeStamping only not critical, timeStamping + codeSigning, codeSigning only, a private-arc purpose only, anyExtendedKeyUsage, no extension} x issuing CA (below the fixture intermediate) extended key usage in {no extension, timeStamping, clientAuth only, private-arc purpose only} (thorough: + timeStamping + clientAuth, anyExtendedKeyUsage) x {RFC 3161 token, legacy countersignature attribute} (thorough: + Authenticode OID) x signer certificate {valid today, expired in 2021}, attested time inside both lifetimes, judged by relic verify with chain checking against a three-valued table written from RFC 3161 2.3 and RFC 5280 4.2.1.12")
		run.Assume("authority entitlement: must be accepted = extension lists exactly timeStamping, critical, under a CA without the extension or listing timeStamping (RFC 3161 2.3 and RFC 5280 agree; cross-checked at development time: `openssl verify -purpose timestampsign` accepts exactly these authority certificates); must be refused with an expired signer = the authority's extension is present and lists neither timeStamping nor anyExtendedKeyUsage, whether or not a library has names for what it lists, or the issuing CA's does (an issuing CA's extended key usage limits what is issued below it: Go crypto/x509, Windows CryptoAPI, NSS, CA/Browser Forum technically-constrained CAs; OpenSSL does not apply it to CA certificates: because implementations differ this half is TALLIED by default and asserted only with C10_EKU_NESTING=assert); everything else (no extension, anyExtendedKeyUsage, a second purpose, not critical; any authority when the signer is valid today anyway) is tallied in outcome_classes as eku:readings-differ / accepted=...")
		run.Assume("token lifetime: a held token is judged by what it serialises to when its holder gets round to it: byte-identical to a token the authority issued for that request, or else (re-encoded) every SignerInfo verifies under the embedded certificates and the imprint / signed content is this signature value, decided by the harness's CMS walker and Go crypto (self-checked against right / wrong / damaged tokens at start); the client is never asked to keep more than 3 requests in flight, a client that does not overlap them within 45 s is reported as not judged")
		run.Assume("acceptable = status granted (0) / granted-with-mods (1) and nothing else (RFC 3161 2.4.2: for any other value no token was issued), nonce echoed, imprint (algorithm and value) equal to the digest of this signature value, token signature valid under the embedded authority certificate")
		run.Assume("the authority's tokens are built by verif/tsa (validated against `openssl ts -verify` at development time); a hanging authority holds the request open until the client's own timeout (1 s, the smallest configurable) closes it, a stalling one sends headers and three body bytes and then holds the connection (a client that is still waiting 30 s later, 30 times its configured timeout, has no deadline on the body): the only real-time waits in this check; when a healthy authority misses that timeout too the sequence is reported as not judged, never as a violation")
		run.Set("bounds", map[string]any{
			"legacy_token_matrix":          "content {this, another value, absent} x messageDigest {of this, of another value} = 6, on the sign, cache and verify side",
			"authority_eku":                fmt.Sprintf("%d authority certificate classes x %d issuing CA classes (thorough %d) x 2 token styles (thorough 3) x 2 signer certificates", len(ekuLeaves), len(ekuIssuers), len(ekuIssuers)+len(ekuIssuersThorough)),
			"legacy_verify_attested_times": "2 (thorough 5)",
		})
		run.Set("processes", len(tasks))
		run.Finish()
		return
	}
	i, _ := vlib.ShardIndex()
	tasks[i]()
	run.Finish()
}

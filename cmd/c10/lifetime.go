package main

// Token lifetime: "a timestamp is attached only if [the reply] carries an
// imprint equal to the digest of THIS signature value and is itself correctly
// signed" is a statement about what ends up attached, and a signer attaches
// what the token it was handed says when it serialises it, which is some time
// after the client checked the reply. The sign scenarios of main.go use every
// token before the next request is made. Here tokens are HELD: they are
// obtained through the real client (tsclient.New: the HTTP client, and the
// rate limiting / memcached layers when configured), further requests run
// through the same process, and only then is each held token serialised and
// judged - by the harness's own CMS walker and Go's crypto, against the
// signature value it was requested for.
//
// (a) sequential: every history of L requests over {RFC 3161, legacy} x reply
// shapes (replies of different lengths, token at different offsets in the
// reply), plus a final repetition of the first request; after every reply all
// tokens held so far are serialised again.
// (b) overlapping: W requests in flight at the same time; the authority holds
// all W replies back until every request has arrived and then lets them go one
// at a time in every order (the next one only after the previous holder has
// its token), or all at once; every token is judged after the last reply.
//
// The process runs on one P so that memory handed back to an allocator or pool
// is handed out again at the next opportunity (sync.Pool keeps per-P caches):
// reuse is then a function of the history, not of goroutine placement.

import (
	"bytes"
	"context"
	"crypto"
	"crypto/sha256"
	"crypto/x509"
	"encoding/base64"
	"encoding/hex"
	"fmt"
	"io"
	"math/big"
	"net/http"
	"net/http/httptest"
	"os"
	"path/filepath"
	"runtime"
	"strings"
	"sync"
	"time"

	"github.com/sassoftware/relic/v8/config"
	"github.com/sassoftware/relic/v8/lib/pkcs7"
	"github.com/sassoftware/relic/v8/lib/pkcs9"
	"github.com/sassoftware/relic/v8/lib/pkcs9/tsclient"

	d "verif/gen/dergen"
	"verif/relicx"
	"verif/tsa"
)

type lifeConfig struct {
	name     string
	rate     bool
	memcache bool
}

var lifeConfigs = []lifeConfig{
	{name: "plain"},
	{name: "rate-limited", rate: true},
	{name: "memcached", memcache: true},
}

type lifeShape struct {
	name  string
	chain int  // certificates embedded besides the authority's own
	text  bool // RFC 3161 only: PKIStatusInfo carries a statusString, the token starts later in the reply
}

type lifeSymbol struct {
	legacy bool
	shape  lifeShape
}

func (s lifeSymbol) String() string {
	if s.legacy {
		return "legacy/" + s.shape.name
	}
	return "rfc3161/" + s.shape.name
}

func (s lifeSymbol) style() string {
	if s.legacy {
		return "legacy"
	}
	return "rfc3161"
}

var lifeSymbols = []lifeSymbol{
	{false, lifeShape{"chain-1", 1, false}},
	{false, lifeShape{"chain-0", 0, false}},
	{false, lifeShape{"chain-2", 2, false}},
	{false, lifeShape{"chain-1+statusString", 1, true}},
	{true, lifeShape{"chain-1", 1, false}},
	{true, lifeShape{"chain-0", 0, false}},
	{true, lifeShape{"chain-2", 2, false}},
}

// lifeAuthority always grants: a correct token for whatever is asked, in the
// shape the driver selected for that request. It keeps every token it sent.
type lifeAuthority struct {
	srv     *httptest.Server
	mu      sync.Mutex
	sent    map[[32]byte]string // SHA-256 of every token (DER) sent -> key of the request it answered
	shapeOf map[string]lifeShape
	answers int
	gate    func(key string) bool // overlapping family: hold the reply; false = give up
	auths   [3]*tsa.Authority
	bad     []string // requests the authority could not read (harness trouble)
}

func lifeKey(legacy bool, sig []byte) string {
	if legacy {
		return "ms:" + hex.EncodeToString(sig)
	}
	h := sha256.Sum256(sig)
	return "ts:" + hex.EncodeToString(h[:])
}

func startLifeAuthority() *lifeAuthority {
	a := &lifeAuthority{sent: map[[32]byte]string{}, shapeOf: map[string]lifeShape{}}
	root := pemCerts(filepath.Join(relicx.KeyDir, "root.crt"))[0]
	for n := 0; n < 3; n++ {
		f := tsa.Fixture()
		switch n {
		case 0:
			f.Chain = nil
		case 2:
			f.Chain = append(append([]*x509.Certificate{}, f.Chain...), root)
		}
		a.auths[n] = f
	}
	a.srv = httptest.NewServer(http.HandlerFunc(func(w http.ResponseWriter, r *http.Request) {
		body, _ := io.ReadAll(r.Body)
		legacy := strings.HasPrefix(r.URL.Path, "/ms")
		var key string
		var q *tsa.Query
		var sigValue []byte
		var err error
		if legacy {
			if sigValue, err = tsa.LegacyQuery(body); err == nil {
				key = "ms:" + hex.EncodeToString(sigValue)
			}
		} else {
			if q, err = tsa.ParseQuery(body); err == nil {
				key = "ts:" + hex.EncodeToString(q.Imprint)
			}
		}
		a.mu.Lock()
		shape, known := a.shapeOf[key]
		if err != nil || !known {
			a.bad = append(a.bad, fmt.Sprintf("%s: %v (known request: %v)", r.URL.Path, err, known))
			a.mu.Unlock()
			w.WriteHeader(400)
			return
		}
		a.answers++
		at := baseTime.Add(time.Duration(a.answers) * time.Minute)
		var token, reply []byte
		if legacy {
			reply = a.auths[shape.chain].LegacyResp(sigValue, at, tsa.TokenOpts{})
			token = legacyDER(reply)
		} else {
			token = a.auths[shape.chain].Token(tsa.TokenOpts{HashAlg: q.HashAlg, Imprint: q.Imprint, Nonce: q.Nonce, GenTime: at, Serial: int64(a.answers)})
			if shape.text {
				reply = d.Seq(d.Seq(d.Int(0), d.Seq(d.UTF8String("Operation Okay"))), token)
			} else {
				reply = tsa.Resp(0, token)
			}
		}
		a.sent[sha256.Sum256(token)] = key
		gate := a.gate
		a.mu.Unlock()
		if gate != nil && !gate(key) {
			return
		}
		w.WriteHeader(200)
		w.Write(reply)
	}))
	return a
}

// issuedFor: which request a byte string was issued for, if any.
func (a *lifeAuthority) issuedFor(der []byte) (string, bool) {
	a.mu.Lock()
	defer a.mu.Unlock()
	k, found := a.sent[sha256.Sum256(der)]
	return k, found
}

// judgeToken: does this DER, as a signer would embed it, cover the signature
// value it was requested for? Byte-identical to a token the authority issued
// for that request: yes. Otherwise (a client may re-encode) it is judged on its
// own: every SignerInfo verifies under the embedded certificates (Go crypto on
// the harness's CMS walker) and the imprint (RFC 3161: SHA-256 of the
// signature value in the TSTInfo; legacy: the signed content) is this one's.
func (a *lifeAuthority) judgeToken(der []byte, legacy bool, sig []byte) (verdict string, ok bool) {
	key := lifeKey(legacy, sig)
	if k, found := a.issuedFor(der); found {
		if k == key {
			return "identical-to-the-authority's-token", true
		}
		return "is now byte for byte the token the authority issued for ANOTHER request", false
	}
	cms, err := d.Locate(der)
	if err != nil {
		return "no longer parses as a token (" + err.Error() + ")", false
	}
	if len(cms.Signers) == 0 {
		return "has no signer", false
	}
	if fails := d.VerifyAll(cms, nil, nil); len(fails) != 0 {
		return fmt.Sprintf("its signature does not verify (%s: %v)", fails[0].Path, fails[0].Err), false
	}
	if legacy {
		if !cms.HasEContent || !bytes.Equal(cms.EContentBody.Of(cms.B), sig) {
			return "signs something else than this signature value", false
		}
		return "re-encoded-but-valid", true
	}
	info, err := cms.TSTInfo()
	if err != nil {
		return "carries no TSTInfo (" + err.Error() + ")", false
	}
	h := sha256.Sum256(sig)
	if info.ImprintOID != "2.16.840.1.101.3.4.2.1" || !bytes.Equal(info.Imprint, h[:]) {
		return "its imprint is not the digest of this signature value", false
	}
	return "re-encoded-but-valid", true
}

type heldToken struct {
	tok     *pkcs7.ContentInfoSignedData
	sym     lifeSymbol
	sig     []byte
	ordinal int
}

var lifeSigCounter int

// nextSig: a fresh 256-byte "signature value", different for every request.
func nextSig() []byte {
	lifeSigCounter++
	var out []byte
	for i := 0; len(out) < 256; i++ {
		h := sha256.Sum256([]byte(fmt.Sprintf("c10 lifetime signature value %d block %d", lifeSigCounter, i)))
		out = append(out, h[:]...)
	}
	return out[:256]
}

const lifeWaitCap = 45 * time.Second

func lifetimeTasks() []func() {
	var tasks []func()
	for _, lc := range lifeConfigs {
		lc := lc
		tasks = append(tasks, func() { lifetimePhase(lc) })
	}
	return tasks
}

func lifetimePhase(lc lifeConfig) {
	runtime.GOMAXPROCS(1)
	auth := startLifeAuthority()
	defer auth.srv.Close()
	conf := &config.TimestampConfig{URLs: []string{auth.srv.URL + "/ts"}, MsURLs: []string{auth.srv.URL + "/ms"}, Timeout: 60}
	if lc.rate {
		conf.RateLimit, conf.RateBurst = 1e6, 1000
	}
	if lc.memcache {
		mcache := startMemcache()
		defer mcache.ln.Close()
		conf.Memcache = []string{mcache.ln.Addr().String()}
	}
	client, err := tsclient.New(conf)
	if err != nil {
		run.Capped(fmt.Sprintf("token lifetime (%s): the timestamp client could not be built (%v); family not explored", lc.name, err))
		return
	}
	if msg := auth.selfCheck(); msg != "" {
		fmt.Println("HARNESS-ERROR: token lifetime: the harness's own token judge is wrong:", msg)
		os.Exit(2)
	}
	request := func(sym lifeSymbol, sig []byte) (*pkcs7.ContentInfoSignedData, error) {
		auth.mu.Lock()
		auth.shapeOf[lifeKey(sym.legacy, sig)] = sym.shape
		auth.mu.Unlock()
		ctx, cancel := context.WithTimeout(context.Background(), 2*time.Minute)
		defer cancel()
		return client.Timestamp(ctx, &pkcs9.Request{EncryptedDigest: sig, Hash: crypto.SHA256, Legacy: sym.legacy})
	}
	// judge serialises a held token and reports; later = requests answered since it was returned
	judge := func(family string, h heldToken, later []string, replay map[string]any) bool {
		run.Eval(1)
		what := fmt.Sprintf("token lifetime (%s client, %s): token of request %d (%s)", lc.name, family, h.ordinal, h.sym)
		when := "right after it was returned"
		keyWhen := "returned-token"
		if len(later) > 0 {
			when = fmt.Sprintf("after %d later request(s) through the same process [%s]", len(later), strings.Join(later, " "))
			keyWhen = "held-token-after-later-requests"
		}
		blob, merr := h.tok.Marshal()
		if merr != nil {
			run.Violation("ts-lifetime:"+keyWhen+":does-not-serialise:"+h.sym.style(), fmt.Sprintf("%s, serialised %s: %v", what, when, merr), replay)
			return false
		}
		verdict, ok := auth.judgeToken(blob, h.sym.legacy, h.sig)
		if !ok {
			run.Violation("ts-lifetime:"+keyWhen+":does-not-cover-its-signature:"+h.sym.style(), fmt.Sprintf("%s, serialised %s: %s; the signer would attach it to the signature it was requested for", what, when, verdict), replay)
			return false
		}
		run.Outcome(fmt.Sprintf("lifetime:%s:%s:%s", strings.SplitN(family, ",", 2)[0], keyWhen, verdict))
		return true
	}
	refused := func(family string, sym lifeSymbol, err error, replay map[string]any) {
		auth.mu.Lock()
		bad := append([]string{}, auth.bad...)
		auth.mu.Unlock()
		if len(bad) != 0 {
			fmt.Println("HARNESS-ERROR: token lifetime: the authority could not read a request:", bad[0])
			os.Exit(2)
		}
		run.Violation("ts-lifetime:request-fails-despite-granting-authority:"+sym.style(), fmt.Sprintf("token lifetime (%s client, %s): the authority grants every request with a matching token, the client reports %v", lc.name, family, err), replay)
	}

	// (a) sequential histories
	depth := 3
	if run.Thorough() {
		depth = 4
	}
	n := len(lifeSymbols)
	total := 1
	for i := 0; i < depth; i++ {
		total *= n
	}
	histories := 0
	for code := 0; code < total; code++ {
		var hist []lifeSymbol
		for i, c := 0, code; i < depth; i, c = i+1, c/n {
			hist = append(hist, lifeSymbols[c%n])
		}
		var names []string
		for _, s := range hist {
			names = append(names, s.String())
		}
		replay := map[string]any{"family": "sequential", "client": lc.name, "history": names}
		var held []heldToken
		var done []string
		ok := true
		step := func(sym lifeSymbol, sig []byte, label string) {
			tok, err := request(sym, sig)
			if err != nil {
				refused("sequential", sym, err, replay)
				ok = false
				return
			}
			done = append(done, label)
			held = append(held, heldToken{tok, sym, sig, len(done)})
			for _, h := range held {
				if !judge("sequential", h, done[h.ordinal:], replay) {
					ok = false
					return
				}
			}
		}
		for _, sym := range hist {
			if step(sym, nextSig(), sym.String()); !ok {
				break
			}
		}
		if ok {
			// the first request once more: the same signature value (a cache in front of the authority answers it)
			step(held[0].sym, held[0].sig, held[0].sym.String()+"(first request repeated)")
		}
		histories++
		run.Distinct("lifetime|" + lc.name + "|" + strings.Join(names, ","))
		if !ok {
			break // one report per client configuration is enough; later histories would repeat it
		}
	}
	run.Set("token_lifetime_histories:"+lc.name, histories)
	run.AddStates(histories)

	// (b) overlapping requests
	const workers = 3
	orders := [][]int{{0, 1, 2}, {0, 2, 1}, {1, 0, 2}, {1, 2, 0}, {2, 0, 1}, {2, 1, 0}, nil} // nil = all at once
	rounds := 0
overlap:
	for _, legacy := range []bool{false, true} {
		for _, order := range orders {
			type result struct {
				tok *pkcs7.ContentInfoSignedData
				err error
			}
			syms := make([]lifeSymbol, workers)
			sigs := make([][]byte, workers)
			keys := make([]string, workers)
			results := make([]chan result, workers)
			release := map[string]chan struct{}{}
			arrived := make(chan string, 4*workers)
			pick := 0
			for i := 0; i < workers; i++ {
				for lifeSymbols[pick%n].legacy != legacy {
					pick++
				}
				syms[i] = lifeSymbols[pick%n]
				pick++
				sigs[i] = nextSig()
				keys[i] = lifeKey(legacy, sigs[i])
				release[keys[i]] = make(chan struct{})
				results[i] = make(chan result, 1)
			}
			gaveUp := make(chan struct{})
			auth.mu.Lock()
			auth.gate = func(key string) bool {
				arrived <- key
				ch := release[key]
				if ch == nil {
					return true
				}
				select {
				case <-ch:
					return true
				case <-gaveUp:
					return true
				}
			}
			auth.mu.Unlock()
			for i := 0; i < workers; i++ {
				i := i
				go func() {
					tok, err := request(syms[i], sigs[i])
					results[i] <- result{tok, err}
				}()
			}
			orderName := "all-at-once"
			if order != nil {
				orderName = fmt.Sprint(order)
			}
			style := syms[0].style()
			replay := map[string]any{"family": "overlapping", "client": lc.name, "style": style, "release_order": orderName}
			family := "overlapping, replies released " + orderName
			// all requests in flight?
			inFlight := 0
			timeout := time.After(lifeWaitCap)
		wait:
			for inFlight < workers {
				select {
				case <-arrived:
					inFlight++
				case <-timeout:
					break wait
				}
			}
			got := make([]result, workers)
			have := make([]bool, workers)
			collect := func(i int) bool {
				if have[i] {
					return true
				}
				select {
				case got[i] = <-results[i]:
					have[i] = true
					return true
				case <-time.After(3 * time.Minute):
					return false
				}
			}
			if inFlight < workers {
				// the client does not keep three requests in flight at once: nothing to overlap
				close(gaveUp)
				for i := 0; i < workers; i++ {
					collect(i)
				}
				run.Capped(fmt.Sprintf("token lifetime (%s client): only %d of %d concurrent requests reached the authority within %v; overlapping family not judged", lc.name, inFlight, workers, lifeWaitCap))
				auth.mu.Lock()
				auth.gate = nil
				auth.mu.Unlock()
				break overlap
			}
			stuck := false
			if order == nil {
				close(gaveUp)
			} else {
				for _, i := range order {
					close(release[keys[i]])
					if !collect(i) {
						stuck = true
						break
					}
				}
			}
			for i := 0; i < workers && !stuck; i++ {
				if !collect(i) {
					stuck = true
				}
			}
			auth.mu.Lock()
			auth.gate = nil
			auth.mu.Unlock()
			if stuck {
				if order != nil {
					close(gaveUp)
				}
				run.Capped(fmt.Sprintf("token lifetime (%s client): a request did not return within 3 minutes of its reply; overlapping family not judged", lc.name))
				break overlap
			}
			rounds++
			run.Distinct("lifetime-overlap|" + lc.name + "|" + style + "|" + orderName)
			var labels []string
			for i := range syms {
				labels = append(labels, syms[i].String())
			}
			bad := false
			for i := 0; i < workers && !bad; i++ {
				if got[i].err != nil {
					refused(family, syms[i], got[i].err, replay)
					bad = true
					break
				}
				var later []string
				if order == nil {
					later = []string{"the other two, concurrently"}
				} else {
					seen := false
					for _, j := range order {
						if seen {
							later = append(later, labels[j])
						}
						if j == i {
							seen = true
						}
					}
				}
				if !judge(family, heldToken{got[i].tok, syms[i], sigs[i], i + 1}, later, replay) {
					bad = true
				}
			}
			if bad {
				break overlap
			}
		}
	}
	run.Set("token_lifetime_overlapping_rounds:"+lc.name, rounds)
}

func legacyDER(reply []byte) []byte {
	der, err := base64.StdEncoding.DecodeString(string(reply))
	if err != nil {
		panic(err)
	}
	return der
}

// selfCheck: the judge's own reading of a token (the path taken when the bytes
// are not ones the authority remembers) accepts the authority's tokens for the
// right signature value and refuses them for another, in both styles.
func (a *lifeAuthority) selfCheck() string {
	sigA, sigB := nextSig(), nextSig()
	for n, au := range a.auths {
		h := sha256.Sum256(sigA)
		tok := au.Token(tsa.TokenOpts{HashAlg: tsa.SHA256Alg(), Imprint: h[:], Nonce: big.NewInt(99), GenTime: baseTime})
		ms := legacyDER(au.LegacyResp(sigA, baseTime, tsa.TokenOpts{}))
		bad := au.Token(tsa.TokenOpts{HashAlg: tsa.SHA256Alg(), Imprint: h[:], Nonce: big.NewInt(99), GenTime: baseTime, CorruptSig: true})
		for _, c := range []struct {
			name   string
			der    []byte
			legacy bool
			sig    []byte
			want   bool
		}{
			{"rfc3161 token, its signature value", tok, false, sigA, true},
			{"rfc3161 token, another signature value", tok, false, sigB, false},
			{"rfc3161 token with a damaged signature", bad, false, sigA, false},
			{"rfc3161 token cut short", tok[:len(tok)-7], false, sigA, false},
			{"legacy token, its signature value", ms, true, sigA, true},
			{"legacy token, another signature value", ms, true, sigB, false},
		} {
			if verdict, ok := a.judgeToken(c.der, c.legacy, c.sig); ok != c.want {
				return fmt.Sprintf("authority %d, %s: judged %v (%s)", n, c.name, ok, verdict)
			}
		}
	}
	return ""
}

// C15 — token failures are retried only when safe and reported faithfully.
//
// (a) all per-attempt outcome sequences x cancellation/deadline at every point,
//
//	through the real token/worker retry loop compiled against a virtual
//	clock and virtual timeout contexts (overlay), with a scripted transport;
//
// (b) error classification end to end through the real worker RPC handler
//
//	(cmdline/workercmd) installed as the transport of the real worker client;
//	cookie variants;
//
// (c) BFS over key-cache operation histories in virtual time.
package main

import (
	"bytes"
	"context"
	"crypto"
	"encoding/json"
	"errors"
	"fmt"
	"io"
	"net/http"
	"net/http/httptest"
	"net/url"
	"os"
	"sort"
	"strings"
	"sync"
	"syscall"
	"time"

	"github.com/sassoftware/relic/v8/cmdline/workercmd"
	"github.com/sassoftware/relic/v8/token"
	"github.com/sassoftware/relic/v8/token/tokencache"
	"github.com/sassoftware/relic/v8/token/worker"
	"github.com/sassoftware/relic/v8/zzverif/bridge"

	"verif/faketoken"
	"verif/mc"
	"verif/relicx"
	"verif/shim/vcontext"
	"verif/shim/vtime"
	"verif/vlib"
)

var run *vlib.Run

type rt func(*http.Request) (*http.Response, error)

func (f rt) RoundTrip(r *http.Request) (*http.Response, error) { return f(r) }

const attemptTimeout = 11 // seconds; no back-off delay equals it

// ---- (a) retry exploration ----

type outcome struct {
	Name      string
	Transient bool
	OK        bool
	Usage     bool
}

var outcomes = []outcome{
	{Name: "ok", OK: true},
	{Name: "http-503", Transient: true},
	{Name: "http-500", Transient: true},
	{Name: "http-502", Transient: true},
	{Name: "http-504", Transient: true},
	{Name: "conn-refused", Transient: true},
	{Name: "attempt-timeout", Transient: true},
	{Name: "truncated-reply", Transient: true},
	{Name: "token-error-retryable", Transient: true},
	{Name: "token-error-permanent"},
	{Name: "key-usage-error", Usage: true},
	{Name: "http-403"},
	{Name: "http-400"},
	{Name: "malformed-json"},
	{Name: "empty-body"},
}

func resp(req *http.Request, code int, body string) *http.Response {
	return &http.Response{StatusCode: code, Status: fmt.Sprintf("%d X", code), Header: http.Header{}, Body: io.NopCloser(strings.NewReader(body)), Request: req}
}

type attempt struct {
	Outcome string
	At      time.Duration // virtual time since start
	Body    string
}

type execution struct {
	Retries             int
	Attempts            []attempt
	Delays              []time.Duration
	Cancelled           string // "", "cancel", "deadline"
	CancelAt            string
	Err                 error
	Elapsed             time.Duration
	AfterCancelAdvance  time.Duration
	AttemptsAfterCancel int
	WaitsAfterCancel    int // back-off timers armed after the caller had gone
	Panic               string
}

func retryPhase() {
	retryAlphabet := []int{1, 2, 3, 0, -1}
	depthCap = 3
	if run.Thorough() {
		retryAlphabet = []int{1, 2, 3, 0, 4, -1, 7}
		depthCap = 4
	}
	for _, retries := range retryAlphabet {
		limit := retries
		if retries == 0 {
			limit = 5
		}
		if retries < 0 {
			// a non-positive count is "unset": either the default applies or
			// nothing is attempted - and then nothing may succeed
			limit = 5
		}
		// with the default limit 5 only the transient outcomes + ok are used
		// beyond depth 3 (the full alphabet to depth 5 is 15^5)
		cfg := relicx.BaseConfig("file")
		tconf := cfg.Tokens["tok"]
		tconf.Retries = retries
		tconf.Timeout = attemptTimeout
		tok := worker.VerifNewToken(cfg, tconf, "cookie", "worker.invalid:1")
		// an execution that does not follow its prefix (the tree under test lets a
		// goroutine of its own decide the order of events) is run again; a prefix
		// that never replays is skipped and the search reported as not exhaustive
		opts := mc.Options{MaxDeviations: -1, RetryDivergence: 4}
		st := mc.Explore(opts, func(c *mc.Ctx) {
			ex := runRetry(c, tok, retries, limit)
			judgeRetry(c, ex, limit)
		})
		if st.Diverged > 0 {
			run.Capped(fmt.Sprintf("retry exploration (retries=%d): %d choice prefix(es) could not be replayed in 5 attempts and were skipped with their subtrees", retries, st.Diverged))
		}
		run.Set(fmt.Sprintf("retry_executions_retries_%d", retries), st.Executions)
		run.AddTransitions(st.ChoicePoints)
	}
}

func runRetry(c *mc.Ctx, tok *worker.WorkerToken, retries, limit int) (ex execution) {
	ex.Retries = retries
	var graceMu sync.Mutex
	ended := false
	defer func() { graceMu.Lock(); ended = true; graceMu.Unlock() }()
	vtime.ResetClock()
	start := vtime.Now()
	// caller context: a virtual deadline context so that both "cancel" and
	// "deadline" can end it
	vcontext.OnTimeout = nil
	parent, cancel := context.WithCancel(context.Background())
	defer cancel()
	baseI, baseCancel := vcontext.WithTimeout(parent, 1000*time.Hour)
	base := baseI.(*vcontext.VCtx)
	defer baseCancel()
	var cancelledAt time.Time
	endCaller := func(how, where string) {
		if ex.Cancelled != "" {
			return
		}
		ex.Cancelled, ex.CancelAt = how, where
		cancelledAt = vtime.Now()
		if how == "cancel" {
			cancel()
		} else {
			// caller deadline reached now
			base.ExpireNow()
		}
	}
	// a back-off wait, whichever primitive implements it (a timeout context
	// or a timer next to the caller's Done channel): it elapses, or the caller
	// goes away during it
	backoff := func(d time.Duration, elapse func()) {
		ex.Delays = append(ex.Delays, d)
		switch c.Choose(3, "backoff") {
		case 0:
			elapse()
		case 1:
			endCaller("cancel", fmt.Sprintf("backoff-%d", len(ex.Delays)))
		case 2:
			endCaller("deadline", fmt.Sprintf("backoff-%d", len(ex.Delays)))
		}
	}
	vcontext.OnTimeout = func(v *vcontext.VCtx) {
		if v.D == attemptTimeout*time.Second {
			return // per-attempt deadline: fires only if the transport says so
		}
		backoff(v.D, v.Expire)
		if ex.Cancelled != "" && v.Err() == nil {
			// the caller has gone and this wait is still open: it does not descend
			// from the caller's context (a context that does ends with it, at once).
			// It elapses, so that the execution goes on and is judged.
			ex.WaitsAfterCancel++
			v.Expire()
		}
	}
	vtime.OnTimer = func(t *vtime.Timer) {
		if ex.Cancelled != "" {
			// the caller is already gone: its Done channel is what ends this wait
			// (a timeout context derived from it would not even start). Code that
			// does not watch the caller any more would wait here for ever: after a
			// grace period of real time, which only such code reaches, the timer
			// elapses and the execution goes on to be judged.
			ex.WaitsAfterCancel++
			go func() {
				time.Sleep(300 * time.Millisecond)
				// only while this execution is still running: a timer of a finished
				// execution must not move the clock of the next one
				graceMu.Lock()
				if !ended {
					t.Elapse()
				}
				graceMu.Unlock()
			}()
			return
		}
		backoff(t.D(), func() { t.Elapse() })
	}
	defer func() { vtime.OnTimer = nil }()
	http.DefaultClient.Transport = rt(func(req *http.Request) (*http.Response, error) {
		ctx := req.Context()
		if err := ctx.Err(); err != nil {
			// a real transport refuses to start on a dead context
			return nil, &url.Error{Op: "Post", URL: req.URL.String(), Err: err}
		}
		if ex.Cancelled != "" {
			ex.AttemptsAfterCancel++
		}
		body, _ := io.ReadAll(req.Body)
		n := len(ex.Attempts)
		alphabet := len(outcomes)
		if n >= depthCap {
			alphabet = 9 // ok + the transient outcomes
		}
		k := c.Choose(alphabet+2, fmt.Sprintf("attempt-%d", n+1))
		a := attempt{At: vtime.Since(epochStart), Body: string(body)}
		if k >= alphabet {
			how := "cancel"
			if k == alphabet+1 {
				how = "deadline"
			}
			a.Outcome = "caller-" + how + "-during"
			ex.Attempts = append(ex.Attempts, a)
			endCaller(how, fmt.Sprintf("attempt-%d", n+1))
			return nil, &url.Error{Op: "Post", URL: req.URL.String(), Err: ctx.Err()}
		}
		o := outcomes[k]
		a.Outcome = o.Name
		ex.Attempts = append(ex.Attempts, a)
		switch o.Name {
		case "ok":
			return resp(req, 200, `{"Value":"AQID"}`), nil
		case "http-503":
			return resp(req, 503, "busy"), nil
		case "http-500":
			return resp(req, 500, "oops"), nil
		case "http-502":
			return resp(req, 502, "bad gateway"), nil
		case "http-504":
			return resp(req, 504, "gw timeout"), nil
		case "http-403":
			return resp(req, 403, "forbidden"), nil
		case "http-400":
			return resp(req, 400, "bad"), nil
		case "conn-refused":
			return nil, &url.Error{Op: "Post", URL: req.URL.String(), Err: &os.SyscallError{Syscall: "connect", Err: syscall.ECONNREFUSED}}
		case "attempt-timeout":
			if v, ok := ctx.(*vcontext.VCtx); ok {
				v.Expire()
			} else {
				panic("attempt context is not virtual")
			}
			return nil, &url.Error{Op: "Post", URL: req.URL.String(), Err: ctx.Err()}
		case "truncated-reply":
			return &http.Response{StatusCode: 200, Status: "200 OK", Header: http.Header{}, Body: io.NopCloser(io.MultiReader(strings.NewReader(`{"Val`), errReader{io.ErrUnexpectedEOF})), Request: req}, nil
		case "token-error-retryable":
			return resp(req, 200, `{"Err":"device busy","Retryable":true}`), nil
		case "token-error-permanent":
			return resp(req, 200, `{"Err":"no such key","Retryable":false}`), nil
		case "key-usage-error":
			return resp(req, 200, `{"Err":"wrong key type","Retryable":false,"Usage":true,"Key":"k1"}`), nil
		case "malformed-json":
			return resp(req, 200, `{"Value": nope`), nil
		case "empty-body":
			return resp(req, 200, ``), nil
		}
		panic("unreachable")
	})
	epochStart = start
	// caller may already be gone before the call
	switch c.Choose(3, "before-call") {
	case 1:
		endCaller("cancel", "before-call")
	case 2:
		endCaller("deadline", "before-call")
	}
	func() {
		defer func() {
			if p := recover(); p != nil {
				ex.Panic = fmt.Sprint(p)
			}
		}()
		ex.Err = tok.Ping(base)
	}()
	ex.Elapsed = vtime.Now().Sub(start)
	if ex.Cancelled != "" {
		ex.AfterCancelAdvance = vtime.Now().Sub(cancelledAt)
	}
	vcontext.OnTimeout = nil
	return ex
}

var epochStart time.Time
var depthCap = 3

type errReader struct{ err error }

func (e errReader) Read([]byte) (int, error) { return 0, e.err }

func judgeRetry(c *mc.Ctx, ex execution, limit int) {
	run.Eval(1)
	var names []string
	for _, a := range ex.Attempts {
		names = append(names, a.Outcome)
	}
	hist := fmt.Sprintf("retries=%d attempts=[%s] cancel=%s@%s", ex.Retries, strings.Join(names, ","), ex.Cancelled, ex.CancelAt)
	replay := map[string]any{"retries": ex.Retries, "choices": c.Trace, "labels": c.Labels, "history": hist}
	if len(ex.Attempts) >= 2 || ex.Cancelled != "" {
		run.Distinct(hist)
	}
	if len(c.Trace) == 5 {
		run.Sample(hist + fmt.Sprintf(" -> err=%v elapsed=%s", ex.Err, ex.Elapsed))
	}
	bad := func(key, msg string) {
		run.Violation(key, hist+": "+msg, replay)
	}
	if ex.Panic != "" {
		bad("retry:panic", ex.Panic)
		return
	}
	// same request on every attempt
	for i, a := range ex.Attempts {
		if a.Body != ex.Attempts[0].Body {
			bad("retry:request-body-differs-between-attempts", fmt.Sprintf("attempt %d sent %q, attempt 1 sent %q", i+1, a.Body, ex.Attempts[0].Body))
		}
	}
	if len(ex.Attempts) > limit {
		bad("retry:more-attempts-than-configured", fmt.Sprintf("%d attempts, limit %d", len(ex.Attempts), limit))
	}
	// walk the reference model
	anyOK := false
	for i, a := range ex.Attempts {
		last := i == len(ex.Attempts)-1
		var o *outcome
		for k := range outcomes {
			if outcomes[k].Name == a.Outcome {
				o = &outcomes[k]
			}
		}
		if o == nil {
			// caller ended during this attempt: must be the last one
			if !last {
				bad("retry:attempt-after-cancellation", "an attempt was started after the caller went away")
			}
			continue
		}
		if o.OK {
			anyOK = true
			if !last {
				bad("retry:attempt-after-success", "another attempt after a successful one")
			}
			continue
		}
		if !o.Transient && !last {
			bad("retry:permanent-error-retried:"+o.Name, "a permanent outcome was followed by another attempt")
		}
		if o.Transient && last && ex.Cancelled == "" && len(ex.Attempts) < limit {
			bad("retry:transient-error-not-retried:"+o.Name, fmt.Sprintf("gave up after %d of %d attempts", len(ex.Attempts), limit))
		}
	}
	if ex.AttemptsAfterCancel > 0 {
		bad("retry:attempt-after-cancellation", "an attempt reached the worker after the caller went away")
	}
	if ex.Cancelled != "" {
		if ex.Err == nil && !anyOK {
			bad("retry:success-after-cancellation", "nil error although the caller went away and no attempt succeeded")
		}
		if ex.AfterCancelAdvance != 0 {
			bad("retry:not-prompt-after-cancellation", fmt.Sprintf("virtual time advanced %s after the caller went away", ex.AfterCancelAdvance))
		}
		run.Outcome("cancelled:" + ex.Cancelled)
		return
	}
	if (ex.Err == nil) != anyOK {
		if ex.Err == nil {
			bad("retry:success-without-successful-attempt", "nil error but no attempt succeeded")
		} else {
			bad("retry:error-despite-successful-attempt", ex.Err.Error())
		}
		return
	}
	// back-off: one positive, non-decreasing delay before every attempt but the first
	if want := len(ex.Attempts) - 1; want >= 0 && len(ex.Delays) != want {
		bad("retry:backoff-count", fmt.Sprintf("%d delays for %d attempts", len(ex.Delays), len(ex.Attempts)))
	}
	for i, d := range ex.Delays {
		if d <= 0 || d > 5*time.Minute || (i > 0 && d < ex.Delays[i-1]) {
			bad("retry:backoff-shape", fmt.Sprintf("delays %v", ex.Delays))
			break
		}
	}
	if ex.Err != nil && len(ex.Attempts) > 0 {
		lastName := ex.Attempts[len(ex.Attempts)-1].Outcome
		var ku token.KeyUsageError
		isUsage := errors.As(ex.Err, &ku)
		switch lastName {
		case "key-usage-error":
			if !isUsage || ku.Key != "k1" || bridge.HTTPTemporary(ex.Err) {
				bad("retry:key-usage-classification-lost", fmt.Sprintf("error %T %v", ex.Err, ex.Err))
			}
		case "http-403", "http-400":
			var re bridge.ResponseError
			if !errors.As(ex.Err, &re) || bridge.HTTPTemporary(ex.Err) {
				bad("retry:http-status-classification-lost", fmt.Sprintf("error %T %v", ex.Err, ex.Err))
			}
		case "token-error-permanent", "malformed-json", "empty-body":
			if bridge.HTTPTemporary(ex.Err) || isUsage {
				bad("retry:permanent-error-reported-as-temporary", fmt.Sprintf("error %T %v", ex.Err, ex.Err))
			}
		default:
			if isUsage {
				bad("retry:transient-error-reported-as-key-usage", ex.Err.Error())
			}
		}
		run.Outcome("error-after:" + lastName)
	} else if ex.Err == nil {
		run.Outcome(fmt.Sprintf("ok-after-%d-attempts", len(ex.Attempts)))
	} else {
		run.Outcome("error-without-attempt")
	}
}

// ---- (b) classification through the real RPC handler ----

func handlerPhase() {
	vcontext.OnTimeout = func(v *vcontext.VCtx) {
		if v.D != attemptTimeout*time.Second {
			v.Expire() // back-off elapses
		}
	}
	defer func() { vcontext.OnTimeout = nil }()
	vtime.OnTimer = func(t *vtime.Timer) { t.Elapse() } // a back-off built on a timer elapses too
	defer func() { vtime.OnTimer = nil }()
	type tokErr struct {
		name      string
		err       func() error
		transient bool
		usage     bool
		either    bool
	}
	errs := []tokErr{
		{name: "none"},
		{name: "pkcs11-fatal", err: func() error { return workercmd.VerifPkcs11Error(0x30) /* CKR_DEVICE_ERROR? see below */ }, either: true},
		{name: "pkcs11-session-closed(fatal)", err: func() error { return workercmd.VerifPkcs11Error(0xb0) }, transient: true},
		{name: "pkcs11-key-type-inconsistent(non-fatal)", err: func() error { return workercmd.VerifPkcs11Error(0x63) }},
		{name: "not-implemented", err: func() error { return token.NotImplementedError{Op: "sign", Type: "verif"} }},
		{name: "key-usage", err: func() error { return token.KeyUsageError{Key: "rsaA", Err: errors.New("key cannot sign")} }, usage: true},
		{name: "plain-error", err: func() error { return errors.New("something odd") }, either: true},
		// a key-usage error CAUSED by a PKCS#11 return value (what p11token wraps): the classification of
		// the outer error counts - permanent, with usage and key intact - whatever the cause is
		{name: "key-usage(cause: pkcs11 non-fatal)", err: func() error {
			return token.KeyUsageError{Key: "rsaA", Err: workercmd.VerifPkcs11Error(0x63)}
		}, usage: true},
		{name: "key-usage(cause: pkcs11 fatal)", err: func() error {
			return token.KeyUsageError{Key: "rsaA", Err: workercmd.VerifPkcs11Error(0xb0)}
		}, usage: true},
		{name: "not-implemented(wrapped in fmt.Errorf)", err: func() error {
			return fmt.Errorf("signing: %w", token.NotImplementedError{Op: "sign", Type: "verif"})
		}, either: true},
	}
	for _, op := range []string{"getkey", "sign"} {
		for _, te := range errs {
			vtime.ResetClock()
			faketoken.Reset()
			cfg := relicx.BaseConfig(faketoken.Type)
			tconf := cfg.Tokens["tok"]
			tconf.Retries = 3
			tconf.Timeout = attemptTimeout
			base, err := faketoken.Open(cfg, "tok", nil)
			if err != nil {
				panic(err)
			}
			shutdowns := 0
			h := workercmd.VerifHandler(tokencache.New(base, time.Hour), []byte("sekrit"), func() { shutdowns++ })
			calls := 0
			http.DefaultClient.Transport = rt(func(req *http.Request) (*http.Response, error) {
				calls++
				rec := httptest.NewRecorder()
				r2 := httptest.NewRequest(req.Method, req.URL.String(), req.Body)
				r2.Header = req.Header
				h.ServeHTTP(rec, r2)
				res := rec.Result()
				res.Request = req
				return res, nil
			})
			cli := worker.VerifNewToken(cfg, tconf, "sekrit", "worker.invalid:1")
			te := te
			if te.err != nil {
				if op == "getkey" {
					faketoken.S.GetKey = func(ctx context.Context, t, k string) (token.Key, error) { return nil, te.err() }
				} else {
					faketoken.S.Sign = func(k *faketoken.Key, d []byte, o crypto.SignerOpts) ([]byte, error) { return nil, te.err() }
				}
			}
			var gotErr error
			panicked := ""
			func() {
				defer func() {
					if p := recover(); p != nil {
						panicked = fmt.Sprint(p)
					}
				}()
				key, gerr := cli.GetKey(context.Background(), "rsaA")
				gotErr = gerr
				if gerr == nil && op == "sign" {
					digest := make([]byte, 32)
					_, gotErr = key.SignContext(context.Background(), digest, crypto.SHA256)
				}
			}()
			if panicked != "" {
				run.Violation("rpc:panic:"+op, fmt.Sprintf("worker RPC %s with scripted token error %q panics: %s", op, te.name, panicked), te.name)
				continue
			}
			getkeyCalls := 1
			if op == "sign" {
				calls -= getkeyCalls // the successful GetKey RPC
			}
			run.Eval(1)
			run.Distinct("handler|" + op + "|" + te.name)
			desc := fmt.Sprintf("worker RPC %s with scripted token error %q: %d RPC attempts, error %v (%T)", op, te.name, calls, gotErr, gotErr)
			var ku token.KeyUsageError
			switch {
			case te.err == nil:
				if gotErr != nil || calls != 1 {
					run.Violation("rpc:success-path-broken:"+op, desc, desc)
				}
			case te.either:
				if gotErr == nil {
					run.Violation("rpc:error-swallowed:"+op, desc, desc)
				}
			case te.transient:
				if gotErr == nil || calls != 3 {
					run.Violation("rpc:transient-token-error-not-retried-to-limit:"+op, desc, desc)
				}
				if shutdowns == 0 {
					// the shutdown hook runs in a goroutine; give it a moment
					for i := 0; i < 1000 && shutdowns == 0; i++ {
						time.Sleep(time.Millisecond)
					}
				}
			case te.usage:
				if calls != 1 || !errors.As(gotErr, &ku) || ku.Key != "rsaA" || bridge.HTTPTemporary(gotErr) {
					run.Violation("rpc:key-usage-error-not-returned-at-once-intact:"+op, desc, desc)
				}
			default:
				if calls != 1 || gotErr == nil || bridge.HTTPTemporary(gotErr) || errors.As(gotErr, &ku) {
					run.Violation("rpc:permanent-token-error-retried-or-reclassified:"+op+":"+te.name, desc, desc)
				}
			}
			run.Outcome(fmt.Sprintf("rpc:%s:%s:attempts=%d", op, te.name, calls))
		}
	}
	// caller cancellation that arrives while the worker is inside a token
	// operation: the token must see it (a token that honours its context then
	// stops) and the client must not start another attempt. The worker's key
	// cache is cold for the first request and warm for the second.
	for _, op := range []string{"getkey", "sign"} {
		for _, warm := range []bool{false, true} {
			vtime.ResetClock()
			faketoken.Reset()
			cfg := relicx.BaseConfig(faketoken.Type)
			tconf := cfg.Tokens["tok"]
			tconf.Retries = 3
			tconf.Timeout = attemptTimeout
			base, err := faketoken.Open(cfg, "tok", nil)
			if err != nil {
				panic(err)
			}
			h := workercmd.VerifHandler(tokencache.New(base, time.Hour), []byte("sekrit"), func() {})
			calls := 0
			http.DefaultClient.Transport = rt(func(req *http.Request) (*http.Response, error) {
				calls++
				rec := httptest.NewRecorder()
				r2 := httptest.NewRequest(req.Method, req.URL.String(), req.Body).WithContext(req.Context())
				r2.Header = req.Header
				h.ServeHTTP(rec, r2)
				if err := req.Context().Err(); err != nil {
					return nil, err // the connection of a request that was given up yields no response
				}
				res := rec.Result()
				res.Request = req
				return res, nil
			})
			cli := worker.VerifNewToken(cfg, tconf, "sekrit", "worker.invalid:1")
			digest := make([]byte, 32)
			if warm {
				key, err := cli.GetKey(context.Background(), "rsaA")
				if err == nil {
					_, err = key.SignContext(context.Background(), digest, crypto.SHA256)
				}
				if err != nil {
					fmt.Println("HARNESS-ERROR: warm-up request through the worker fails:", err)
					os.Exit(2)
				}
				if op == "getkey" {
					continue // a warm lookup never reaches the token
				}
			}
			ctx, cancel := context.WithCancel(context.Background())
			var seen context.Context
			tokenSawCancel := false
			inside := 0
			arrive := func(tctx context.Context) error {
				inside++
				seen = tctx
				cancel() // the caller gives up now
				if err := tctx.Err(); err != nil {
					tokenSawCancel = true
					return err
				}
				return nil // a token that would go on working for nobody
			}
			if op == "getkey" {
				faketoken.S.GetKey = func(tctx context.Context, t, k string) (token.Key, error) {
					if err := arrive(tctx); err != nil {
						return nil, err
					}
					return nil, nil
				}
			} else {
				faketoken.S.SignCtx = func(tctx context.Context, k *faketoken.Key, d []byte, o crypto.SignerOpts) ([]byte, error) {
					if err := arrive(tctx); err != nil {
						return nil, err
					}
					return k.Signer.Sign(nil, d, o)
				}
			}
			calls = 0
			var gotErr error
			key, gerr := cli.GetKey(ctx, "rsaA")
			gotErr = gerr
			if gerr == nil && op == "sign" {
				_, gotErr = key.SignContext(ctx, digest, crypto.SHA256)
			}
			cancel()
			run.Eval(1)
			name := fmt.Sprintf("%s/worker-key-cache-warm=%v", op, warm)
			run.Distinct("handler-cancel|" + name)
			desc := fmt.Sprintf("worker RPC %s, caller cancels while the token operation runs: token entered %d time(s), token's context cancelled=%v, %d RPC(s), client error %v", name, inside, tokenSawCancel, calls, gotErr)
			_ = seen
			switch {
			case inside == 0:
				fmt.Println("HARNESS-ERROR: the scripted token operation was never reached:", name)
				os.Exit(2)
			case !tokenSawCancel:
				run.Violation("rpc:cancellation-does-not-reach-token:"+op, desc, desc)
			case gotErr == nil:
				run.Violation("rpc:cancelled-operation-reports-success:"+op, desc, desc)
			case inside > 1:
				run.Violation("rpc:attempt-after-cancellation:"+op, desc, desc)
			default:
				run.Outcome("rpc:cancel-inside-" + op + ":reaches-token-and-ends")
			}
		}
	}
	// per-process secret
	faketoken.Reset()
	cfg := relicx.BaseConfig(faketoken.Type)
	base, _ := faketoken.Open(cfg, "tok", nil)
	h := workercmd.VerifHandler(tokencache.New(base, time.Hour), []byte("0123456789abcdef"), func() {})
	cookies := map[string]*string{"absent": nil}
	for name, v := range map[string]string{"empty": "", "wrong-same-length": "0123456789abcdeX", "prefix": "0123456789abcde", "longer": "0123456789abcdef0", "case-changed": "0123456789ABCDEF", "correct": "0123456789abcdef"} {
		v := v
		cookies[name] = &v
	}
	var cookieNames []string
	for name := range cookies {
		cookieNames = append(cookieNames, name)
	}
	sort.Strings(cookieNames)
	for _, name := range cookieNames {
		ck := cookies[name]
		for _, path := range []string{"/ping", "/getKey", "/sign"} {
			faketoken.S.Mu.Lock()
			faketoken.S.Calls = nil
			faketoken.S.Mu.Unlock()
			body, _ := json.Marshal(map[string]any{"KeyName": "rsaA", "Digest": bytes.Repeat([]byte{1}, 32), "Hash": 5})
			req := httptest.NewRequest("POST", path, bytes.NewReader(body))
			if ck != nil {
				req.Header.Set("Auth-Cookie", *ck)
			}
			rec := httptest.NewRecorder()
			h.ServeHTTP(rec, req)
			touches := faketoken.S.Count("")
			run.Eval(1)
			run.Distinct("cookie|" + name + "|" + path)
			desc := fmt.Sprintf("worker request %s with cookie %s: status %d, token operations %d", path, name, rec.Code, touches)
			if name == "correct" {
				if rec.Code != 200 {
					run.Violation("cookie:correct-secret-refused", desc, desc)
				}
			} else if rec.Code != 403 || touches != 0 || rec.Body.Len() != 0 {
				run.Violation("cookie:request-without-secret-served:"+name, desc, desc)
			}
			run.Outcome(fmt.Sprintf("cookie:%s:%d", name, rec.Code))
		}
	}
}

// ---- (c) key cache BFS ----

type cop struct {
	Kind string // get | get-id1 | get-id2 | expire | rotate | fail-on | fail-off
}

func cachePhase() {
	const expiry = 10 * time.Minute
	// the token's lookup can fail in two ways: for good ("token down") or with an
	// error of the transient class (a reset connection: *os.SyscallError), the
	// kind a cache might be tempted to paper over
	ops := []cop{{"get"}, {"get-id1"}, {"get-id2"}, {"expire"}, {"half"}, {"rotate"}, {"fail-on"}, {"fail-transient-on"}, {"fail-off"}}
	maxDepth := 5
	if run.Thorough() {
		maxDepth = 7
	}
	type modelT struct {
		baseID    string // id of the key the base token currently returns
		failing   bool
		transient bool   // the failure is of the transient class
		cachedID  string // "" = nothing cached
		cachedAt  time.Duration
		now       time.Duration
	}
	type node struct{ hist []cop }
	seen := map[string]bool{}
	build := func(hist []cop) (st string, viol bool) {
		vtime.ResetClock()
		faketoken.Reset()
		cfg := relicx.BaseConfig(faketoken.Type)
		base, _ := faketoken.Open(cfg, "tok", nil)
		m := modelT{baseID: "id1"}
		baseCalls := 0
		faketoken.S.GetKey = func(ctx context.Context, t, k string) (token.Key, error) {
			baseCalls++
			if m.failing {
				if m.transient {
					return nil, os.NewSyscallError("read", syscall.ECONNRESET)
				}
				return nil, errors.New("token down")
			}
			return &faketoken.Key{Tok: t, Name: k, ID: []byte(m.baseID)}, nil
		}
		cache := tokencache.New(base, expiry)
		for i, op := range hist {
			last := i == len(hist)-1
			switch op.Kind {
			case "expire":
				vtime.Advance(expiry + 1)
				m.now += expiry + 1
			case "half":
				vtime.Advance(expiry / 2)
				m.now += expiry / 2
			case "rotate":
				if m.baseID == "id1" {
					m.baseID = "id2"
				} else {
					m.baseID = "id1"
				}
			case "fail-on":
				m.failing, m.transient = true, false
			case "fail-transient-on":
				m.failing, m.transient = true, true
			case "fail-off":
				m.failing, m.transient = false, false
			default:
				want := ""
				ctx := context.Background()
				if op.Kind == "get-id1" {
					want = "id1"
				} else if op.Kind == "get-id2" {
					want = "id2"
				}
				if want != "" {
					ctx = token.WithKeyID(ctx, []byte(want))
				}
				before := baseCalls
				key, err := cache.GetKey(ctx, "rsaA")
				consulted := baseCalls > before
				fresh := m.cachedID != "" && m.now-m.cachedAt < expiry
				desc := fmt.Sprintf("history %v: %s -> ", hist[:i+1], op.Kind)
				if err == nil {
					desc += fmt.Sprintf("key id %s (base consulted: %v; cached %q fresh=%v; base has %s failing=%v)", key.GetID(), consulted, m.cachedID, fresh, m.baseID, m.failing)
				} else {
					desc += "error " + err.Error()
				}
				if last {
					if !consulted {
						// served from cache
						if err != nil {
							run.Violation("cache:error-without-consulting-token", desc, hist)
							viol = true
						} else {
							if !fresh {
								run.Violation("cache:stale-or-absent-entry-served", desc, hist)
								viol = true
							}
							if want != "" && string(key.GetID()) != want {
								run.Violation("cache:pinned-request-served-cached-key-with-other-id", desc, hist)
								viol = true
							}
							if string(key.GetID()) != m.cachedID {
								run.Violation("cache:served-key-is-not-the-cached-one", desc, hist)
								viol = true
							}
						}
					} else if err == nil && string(key.GetID()) != m.baseID {
						run.Violation("cache:token-answer-not-returned", desc, hist)
						viol = true
					} else if err == nil && m.failing {
						run.Violation("cache:success-while-token-fails", desc, hist)
						viol = true
					}
				}
				// model update mirrors what any correct cache may do: remember
				// what the implementation now holds by probing (unpinned
				// successful lookups that consulted the token may populate)
				if consulted && err == nil && want == "" {
					m.cachedID = m.baseID
					m.cachedAt = m.now
				}
			}
		}
		fresh := m.cachedID != "" && m.now-m.cachedAt < expiry
		age := "none"
		if m.cachedID != "" {
			switch {
			case !fresh:
				age = "expired"
			case m.now-m.cachedAt == 0:
				age = "new"
			default:
				age = "aging"
			}
		}
		return fmt.Sprintf("base=%s failing=%v/%v cached=%s/%s", m.baseID, m.failing, m.transient, m.cachedID, age), viol
	}
	frontier := []node{{nil}}
	seen["init"] = true
	run.AddStates(1)
	for len(frontier) > 0 {
		nd := frontier[0]
		frontier = frontier[1:]
		if len(nd.hist) >= maxDepth {
			continue
		}
		for _, op := range ops {
			hist := append(append([]cop{}, nd.hist...), op)
			st, _ := build(hist)
			run.Eval(1)
			run.AddTransitions(1)
			if !seen[st] {
				seen[st] = true
				run.AddStates(1)
				run.Distinct("cache|" + st)
				frontier = append(frontier, node{hist})
			}
		}
	}
	run.Set("cache_states", len(seen))
}

// ---- (d) concurrent lookups through the key cache ----

// cacheConcurrentPhase: 2-3 threads look the same key name up through one
// tokencache.Cache at the same time (package compiled against the hooked
// sync), every interleaving up to a preemption bound. The token holds two
// generations of the key: an unpinned lookup finds the current one (id1), a
// lookup that pins an identifier finds exactly that one. Whatever the cache
// does to share work between callers, a pinned caller must get its identifier.
func cacheConcurrentPhase() {
	type look struct{ pin string }
	type scen struct {
		name    string
		warm    bool // one unpinned lookup before the threads start (entry cached)
		expired bool // ... and the entry has expired since
		threads [][]look
	}
	scens := []scen{
		{"cold:unpinned|pinned-id2", false, false, [][]look{{{""}}, {{"id2"}}}},
		{"cold:pinned-id2|unpinned", false, false, [][]look{{{"id2"}}, {{""}}}},
		{"cold:pinned-id1|pinned-id2", false, false, [][]look{{{"id1"}}, {{"id2"}}}},
		{"expired:unpinned|pinned-id2", true, true, [][]look{{{""}}, {{"id2"}}}},
		{"warm:unpinned|pinned-id2|unpinned", true, false, [][]look{{{""}}, {{"id2"}}, {{""}}}},
		{"cold:unpinned,pinned-id2|pinned-id2,unpinned", false, false, [][]look{{{""}, {"id2"}}, {{"id2"}, {""}}}},
	}
	bound := 2
	if run.Thorough() {
		bound = 4
	}
	const expiry = 10 * time.Minute
	total := 0
	for _, sc := range scens {
		st := mc.Explore(mc.Options{MaxDeviations: bound}, func(c *mc.Ctx) {
			vtime.ResetClock()
			faketoken.Reset()
			cfg := relicx.BaseConfig(faketoken.Type)
			base, _ := faketoken.Open(cfg, "tok", nil)
			faketoken.S.GetKey = func(ctx context.Context, t, k string) (token.Key, error) {
				id := "id1"
				if want := token.KeyID(ctx); len(want) != 0 {
					id = string(want)
				}
				return &faketoken.Key{Tok: t, Name: k, ID: []byte(id)}, nil
			}
			cache := tokencache.New(base, expiry)
			if sc.warm {
				cache.GetKey(context.Background(), "rsaA")
				if sc.expired {
					vtime.Advance(expiry + 1)
				}
			}
			s := mc.NewSched(c)
			faketoken.S.Hook = func(call faketoken.Call) {
				if t := s.Me(); t != nil {
					t.Point("token." + call.Op)
				}
			}
			type res struct {
				pin, got string
				err      error
			}
			results := make([][]res, len(sc.threads))
			for i, th := range sc.threads {
				i, th := i, th
				s.Go(fmt.Sprintf("t%d", i+1), func() {
					for _, l := range th {
						ctx := context.Background()
						if l.pin != "" {
							ctx = token.WithKeyID(ctx, []byte(l.pin))
						}
						s.Me().Point("lookup")
						key, err := cache.GetKey(ctx, "rsaA")
						r := res{pin: l.pin, err: err}
						if err == nil {
							r.got = string(key.GetID())
						}
						results[i] = append(results[i], r)
					}
				})
			}
			s.Run()
			faketoken.S.Hook = nil
			run.Eval(1)
			desc := fmt.Sprintf("cache scenario %s, schedule %v", sc.name, c.Trace)
			replay := map[string]any{"scenario": sc.name, "choices": c.Trace, "labels": c.Labels}
			if s.Deadlock {
				run.Violation("cache-concurrent:deadlock", desc+"\n"+strings.Join(s.Log, " "), replay)
				return
			}
			if len(s.Panics) > 0 {
				run.Violation("cache-concurrent:panic", desc+": "+s.Panics[0], replay)
				return
			}
			if s.Horizon {
				run.Capped("cache-concurrent: an execution exceeded the scheduling-point horizon: " + sc.name)
				return
			}
			if c.Deviations() > 0 {
				run.Distinct("cache-concurrent|" + sc.name + fmt.Sprint(c.Trace))
			}
			for i, rs := range results {
				for _, r := range rs {
					who := fmt.Sprintf("%s: thread %d lookup pinned=%q", desc, i+1, r.pin)
					switch {
					case r.err != nil:
						run.Violation("cache-concurrent:lookup-fails-although-token-is-fine", who+": "+r.err.Error(), replay)
					case r.pin != "" && r.got != r.pin:
						run.Violation("cache-concurrent:pinned-request-got-key-with-other-id", fmt.Sprintf("%s: got key id %q", who, r.got), replay)
					case r.pin == "" && r.got != "id1":
						run.Violation("cache-concurrent:unpinned-request-got-another-callers-pinned-key", fmt.Sprintf("%s: got key id %q, the token's current key is id1", who, r.got), replay)
					}
				}
			}
			run.Outcome("cache-concurrent:" + sc.name + ":ok")
		})
		run.AddStates(st.Executions)
		run.AddTransitions(st.ChoicePoints)
		total += st.Executions
	}
	run.Set("cache_concurrent_schedules", map[string]any{"scenarios": len(scens), "executions": total, "preemption_bound": bound})
}

func main() {
	relicx.Quiet()
	run = vlib.NewRun("C15", "model_checking")
	vtime.AutoSleep = true
	retryPhase()
	handlerPhase()
	cachePhase()
	cacheConcurrentPhase()
	transportPhase()
	ratePhase()
	run.Rule("(f) a token with a rate limit whose burst is used up: a queued getKey / SignContext whose caller is cancelled or runs into its deadline during the wait (virtual waits are interrupted synchronously, a wait on the real clock after 30 ms) ends with the caller's error and the token is not used for it; (e) the retry loop over the real HTTP transport against a loopback stand-in worker that counts arrivals: every sequence of per-arrival answers {ok, 503, request read and connection dropped} of length = configured attempts (1..3) x connection {fresh, warm}: arrivals <= configured attempts, every arrival after the first preceded by a back-off wait of the loop, success only if an arrival was answered ok; (a) every sequence of per-attempt outcomes (15 outcomes incl. 5xx, refused, timeout, truncated reply, retryable/permanent/key-usage token errors, malformed replies; restricted to ok+transient beyond the third attempt) up to the configured limit x caller cancel/deadline before the call, during every attempt and during every back-off, executed on the real retry loop in virtual time; (b) every scripted token error class x {getKey, sign} through the real worker RPC handler, and 7 cookie variants x 3 RPC paths; (c) BFS to fixpoint over key-cache histories (get, get pinned id1/id2, half/whole expiry, rotate, token failing on/off); (d) 6 scenarios of 2-3 threads looking one key name up through the same cache at once (pinned and unpinned callers, cold / warm / expired entry), every interleaving of the hooked lock and token operations up to 2 (thorough 4) preemptions, threads blocked on unhooked primitives followed by the scheduler's monitor. distinct_nontrivial = histories with >=2 attempts or a cancellation, plus handler/cookie/cache cases")
	run.Assume("the transient set is {HTTP 500,502,503,504, connection refused, per-attempt timeout, truncated reply, token error flagged retryable}; HTTP 4xx, malformed replies, non-retryable and key-usage token errors are permanent")
	run.Assume("back-off is judged for shape only (one positive, non-decreasing delay before every retry, below 5 minutes), not for its exact constants")
	run.Assume("an unclassified plain token error may be treated either way by the RPC handler")
	run.Finish()
}

package main

// (e) The retry loop over the REAL HTTP transport. Phases (a)-(d) script http.DefaultClient's
// RoundTripper, so whatever net/http itself does between the retry loop and the worker (connection
// re-use, transparent re-sending of a request that is marked replayable) is outside them. Here a
// stand-in worker listens on loopback and counts what ARRIVES: every arrival is one use of the token
// backend, whoever decided to send it. Environment per arrival: {answers ok, answers 503, reads the
// request and drops the connection without a reply}; the client's connection to the worker is
// {fresh, warm (left over from an earlier successful operation, as in any running server)}.
// Oracle, from the statement: arrivals never exceed the configured number of attempts; an arrival
// after the first is preceded by a back-off wait of the retry loop (virtual: it elapses at once);
// the operation succeeds only if some arrival was answered ok; a key-usage style permanent answer is
// not enumerated here (phases a, b). Whether a dropped connection counts as transient is not asserted
// (both readings are tallied) - only that, if it is retried, the retry is the loop's own.

import (
	"context"
	"fmt"
	"io"
	"net"
	"net/http"
	"net/http/httptest"
	"strings"
	"sync"
	"time"

	"github.com/sassoftware/relic/v8/token/worker"

	"verif/relicx"
	"verif/shim/vcontext"
	"verif/shim/vtime"
)

func transportPhase() {
	var mu sync.Mutex
	var arrivals []string
	var script []string
	srv := httptest.NewServer(http.HandlerFunc(func(w http.ResponseWriter, r *http.Request) {
		io.Copy(io.Discard, r.Body)
		mu.Lock()
		i := len(arrivals)
		o := "ok"
		if i < len(script) {
			o = script[i]
		}
		arrivals = append(arrivals, o)
		mu.Unlock()
		switch o {
		case "ok":
			w.Header().Set("Content-Type", "application/json")
			io.WriteString(w, "{}")
		case "http-503":
			w.WriteHeader(503)
		case "drop":
			if hj, ok := w.(http.Hijacker); ok {
				if c, _, err := hj.Hijack(); err == nil {
					if tc, ok := c.(*net.TCPConn); ok {
						tc.SetLinger(0) // reset rather than a polite close: the client must not mistake it for an idle close
					}
					c.Close()
				}
			}
		}
	}))
	defer srv.Close()
	saved := http.DefaultClient.Transport
	tr := &http.Transport{}
	http.DefaultClient.Transport = tr
	defer func() { http.DefaultClient.Transport = saved; tr.CloseIdleConnections() }()
	addr := strings.TrimPrefix(srv.URL, "http://")

	alphabet := []string{"ok", "http-503", "drop"}
	var seqs [][]string
	var rec func(cur []string, n int)
	rec = func(cur []string, n int) {
		if len(cur) == n {
			seqs = append(seqs, append([]string{}, cur...))
			return
		}
		for _, a := range alphabet {
			rec(append(cur, a), n)
		}
	}
	cases := 0
	for _, retries := range []int{1, 2, 3} {
		seqs = nil
		rec(nil, retries)
		for _, seq := range seqs {
			for _, warm := range []bool{false, true} {
				cfg := relicx.BaseConfig("file")
				tconf := cfg.Tokens["tok"]
				tconf.Retries = retries
				tconf.Timeout = attemptTimeout
				tok := worker.VerifNewToken(cfg, tconf, "cookie", addr)
				vtime.ResetClock()
				backoffs := 0
				vcontext.OnTimeout = func(v *vcontext.VCtx) {
					if v.D == attemptTimeout*time.Second {
						return
					}
					backoffs++
					v.Expire()
				}
				tr.CloseIdleConnections()
				if warm {
					mu.Lock()
					script, arrivals = []string{"ok"}, nil
					mu.Unlock()
					if err := tok.Ping(context.Background()); err != nil {
						run.Capped("transport phase: the warm-up operation failed: " + err.Error())
						continue
					}
				}
				mu.Lock()
				script, arrivals = seq, nil
				mu.Unlock()
				backoffs = 0
				done := make(chan error, 1)
				go func() { done <- tok.Ping(context.Background()) }()
				var err error
				select {
				case err = <-done:
				case <-time.After(60 * time.Second):
					run.Capped(fmt.Sprintf("transport phase: no result within 60 s of real time for retries=%d %v warm=%v", retries, seq, warm))
					continue
				}
				vcontext.OnTimeout = nil
				mu.Lock()
				got := append([]string{}, arrivals...)
				mu.Unlock()
				cases++
				run.Eval(1)
				desc := fmt.Sprintf("retries=%d worker answers %v, connection %s: %d arrival(s) %v, %d back-off wait(s), result %v", retries, seq, map[bool]string{false: "fresh", true: "warm"}[warm], len(got), got, backoffs, err)
				detail := map[string]any{"part": "transport", "retries": retries, "script": seq, "warm": warm, "arrivals": got, "backoffs": backoffs}
				run.Distinct(fmt.Sprintf("transport|%d|%v|%v", retries, seq, warm))
				okSeen := false
				for _, a := range got {
					okSeen = okSeen || a == "ok"
				}
				switch {
				case len(got) > retries:
					run.Violation("transport:more-arrivals-at-the-worker-than-configured-attempts", desc, detail)
				case len(got)-1 > backoffs:
					run.Violation("transport:request-sent-again-without-the-retry-loops-back-off", desc, detail)
				case err == nil && !okSeen:
					run.Violation("transport:success-although-no-attempt-succeeded", desc, detail)
				case err != nil && okSeen && got[len(got)-1] == "ok":
					run.Violation("transport:failure-although-the-last-attempt-succeeded", desc, detail)
				default:
					dropRetried := false
					for i, a := range got {
						if a == "drop" && i+1 < len(got) {
							dropRetried = true
						}
					}
					run.Outcome(fmt.Sprintf("transport:ok:dropped-connection-retried=%v", dropRetried))
				}
			}
		}
	}
	run.Set("transport_phase", map[string]any{"cases": cases, "per_arrival_answers": alphabet, "retries": []int{1, 2, 3}, "connection": []string{"fresh", "warm"}})
}

package main

// (f) A token with tokens.<name>.ratelimit set: operations beyond the burst queue for their turn.
// "Caller cancellation or timeout ends the operation promptly" covers the queue too: an operation
// whose caller goes away while it is queued must end with the caller's error, and the token must
// not be used for it afterwards. The wait is the code's own (a limiter on the real clock, a virtual
// sleep, a virtual timer): the harness ends the caller DURING the wait, whichever primitive
// implements it - synchronously for virtual waits, after 30 ms of real time for a wait on the real
// clock (the budget is one operation per hour, so the turn never comes by itself).

import (
	"context"
	"crypto"
	"errors"
	"fmt"
	"time"

	"github.com/sassoftware/relic/v8/token"
	"github.com/sassoftware/relic/v8/token/tokencache"

	"verif/faketoken"
	"verif/relicx"
	"verif/shim/vtime"
)

func ratePhase() {
	type variant struct {
		op, how string
	}
	var vs []variant
	for _, op := range []string{"getkey", "sign-context"} {
		for _, how := range []string{"cancel", "deadline"} {
			vs = append(vs, variant{op, how})
		}
	}
	for _, v := range vs {
		faketoken.Reset()
		vtime.ResetClock()
		cfg := relicx.BaseConfig(faketoken.Type)
		base, err := faketoken.Open(cfg, "tok", nil)
		if err != nil {
			panic(err)
		}
		lim := tokencache.NewLimiter(base, 1.0/3600, 1)
		// the burst: one lookup, answered at once
		k0, err := lim.GetKey(context.Background(), "rsaA")
		if err != nil {
			run.Capped("rate-limit phase: the first lookup failed: " + err.Error())
			return
		}
		var ctx context.Context
		var cancel context.CancelFunc
		if v.how == "cancel" {
			ctx, cancel = context.WithCancel(context.Background())
		} else {
			ctx, cancel = context.WithTimeout(context.Background(), 30*time.Millisecond)
		}
		gone := false
		end := func() {
			if v.how == "cancel" {
				cancel()
			} else {
				<-ctx.Done()
			}
			gone = true
		}
		// virtual waits: the caller goes away while the code sleeps / waits on a virtual timer
		vtime.OnSleep = func(time.Duration) { end() }
		vtime.OnTimer = func(t *vtime.Timer) { end(); t.Elapse() }
		usedAfter := 0
		faketoken.S.Hook = nil
		faketoken.S.GetKey = func(c context.Context, t, k string) (token.Key, error) {
			if gone {
				usedAfter++
			}
			return nil, nil
		}
		faketoken.S.SignCtx = func(c context.Context, k *faketoken.Key, d []byte, o crypto.SignerOpts) ([]byte, error) {
			if gone {
				usedAfter++
			}
			return k.Signer.Sign(nil, d, o)
		}
		done := make(chan error, 1)
		go func() {
			if v.op == "getkey" {
				_, err := lim.GetKey(ctx, "rsaA")
				done <- err
			} else {
				_, err := k0.SignContext(ctx, make([]byte, 32), crypto.SHA256)
				done <- err
			}
		}()
		// a wait on the real clock: the caller goes away 30 ms into it
		var opErr error
		timedOut := false
		select {
		case opErr = <-done:
		case <-time.After(30 * time.Millisecond):
			end()
			select {
			case opErr = <-done:
			case <-time.After(30 * time.Second):
				timedOut = true
			}
		}
		vtime.OnSleep, vtime.OnTimer = nil, nil
		cancel()
		run.Eval(1)
		desc := fmt.Sprintf("rate-limited token (1 operation per hour, burst used up), %s queued, caller ends by %s: result %v, token used for the departed caller %d time(s)", v.op, v.how, opErr, usedAfter)
		detail := map[string]any{"part": "rate-limit", "op": v.op, "caller_ends_by": v.how}
		run.Distinct("ratelimit|" + v.op + "|" + v.how)
		switch {
		case timedOut:
			run.Violation("ratelimit:queued-operation-outlives-its-caller", desc+" (no result 30 s after the caller had gone)", detail)
		case usedAfter > 0:
			run.Violation("ratelimit:token-used-for-a-caller-that-had-gone", desc, detail)
		case opErr == nil:
			run.Violation("ratelimit:queued-operation-succeeds-after-its-caller-had-gone", desc, detail)
		case !errors.Is(opErr, context.Canceled) && !errors.Is(opErr, context.DeadlineExceeded) && !isWouldExceed(opErr):
			run.Violation("ratelimit:caller-gone-reported-as-another-error", desc, detail)
		default:
			run.Outcome("ratelimit:ended-with-the-callers-error")
		}
	}
}

// the limiter refuses at once when the caller's deadline falls before its turn
func isWouldExceed(err error) bool {
	return err != nil && (errors.Is(err, context.DeadlineExceeded) || containsAny(err.Error(), "would exceed context deadline", "deadline"))
}

func containsAny(s string, subs ...string) bool {
	for _, x := range subs {
		for i := 0; i+len(x) <= len(s); i++ {
			if s[i:i+len(x)] == x {
				return true
			}
		}
	}
	return false
}

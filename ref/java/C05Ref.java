// C05 reference oracle: one long-lived JVM answering line requests on stdin.
//
// Independent of relic: java.util.jar (the engine behind jarsigner -verify), the
// JDK's W3C canonicaliser + JCA primitives and javax.xml.crypto.dsig.
// The XML-DSig part (everything between the two marker comments) is copied
// unchanged from ref/java/C19Ref.java.
//
// Requests (fields separated by one space; binary fields base64, "-" = empty):
//   JAR   <path> <leafDer> <ts 0|1>  open with JarFile(file, verify=true), read every entry to the
//                                    end, require on every entry that is not signature-related a
//                                    code signer whose first certificate is <leafDer> (and, ts=1,
//                                    a verified RFC 3161 timestamp on that signer)
//   VALID <kind> <doc> <spki>        XML-DSig core validation step by step (JDK canonicaliser + JCA)
//   DSIG  <kind> <doc> <spki>        javax.xml.crypto.dsig validation (standard algorithm URIs only)
//   PARTS <doc>                      VSIX/OPC: the Reference URIs, digest algorithms, digest values and
//                                    transform lists inside the ds:Object/ds:Manifest of the signature part
//   RELS  <doc> <sourceIds,...|->    OPC relationships transform + C14N 1.0 of a .rels part
// Answers: "OK ..." or "ERR <message>".
import java.io.*;
import java.nio.charset.StandardCharsets;
import java.security.*;
import java.security.cert.Certificate;
import java.security.spec.X509EncodedKeySpec;
import java.util.*;
import java.util.jar.*;
import javax.xml.crypto.dsig.*;
import javax.xml.crypto.dsig.dom.DOMValidateContext;
import javax.xml.parsers.*;
import org.w3c.dom.*;
import org.xml.sax.InputSource;
import com.sun.org.apache.xml.internal.security.c14n.Canonicalizer;

public class C05Ref {
    // ---- begin: copied from C19Ref.java ----
    static final String EXC = "http://www.w3.org/2001/10/xml-exc-c14n#";
    static final String EXCC = "http://www.w3.org/2001/10/xml-exc-c14n#WithComments";
    static final String INC = "http://www.w3.org/TR/2001/REC-xml-c14n-20010315";
    static final String INCC = "http://www.w3.org/TR/2001/REC-xml-c14n-20010315#WithComments";
    static final String DS = "http://www.w3.org/2000/09/xmldsig#";
    static final String XMLNS = "http://www.w3.org/2000/xmlns/";
    static final String ENVELOPED = "http://www.w3.org/2000/09/xmldsig#enveloped-signature";
    static final String[] NSPREFIXES = { "http://www.w3.org/2000/09/xmldsig#", "http://www.w3.org/2001/04/xmldsig-more#", "http://www.w3.org/2001/04/xmlenc#" };

    static DocumentBuilderFactory dbf;
    static Base64.Decoder b64d = Base64.getDecoder();
    static Base64.Decoder mime = Base64.getMimeDecoder();
    static Base64.Encoder b64e = Base64.getEncoder();

    static String algUri(String a) {
        switch (a) {
        case "exc": return EXC;
        case "inc": return INC;
        case "excc": return EXCC;
        case "incc": return INCC;
        }
        throw new IllegalArgumentException("alg " + a);
    }

    static Document parse(byte[] doc) throws Exception {
        DocumentBuilder b = dbf.newDocumentBuilder();
        b.setErrorHandler(null);
        return b.parse(new InputSource(new ByteArrayInputStream(doc)));
    }

    static byte[] c14n(String uri, Node n) throws Exception {
        Canonicalizer c = Canonicalizer.getInstance(uri);
        ByteArrayOutputStream o = new ByteArrayOutputStream();
        c.canonicalizeSubtree(n, o);
        return o.toByteArray();
    }

    static void elements(Node n, List<Element> out) {
        for (Node c = n.getFirstChild(); c != null; c = c.getNextSibling()) {
            if (c.getNodeType() == Node.ELEMENT_NODE) {
                out.add((Element) c);
                elements(c, out);
            }
        }
    }

    static String sha256hex(byte[] b) throws Exception {
        byte[] d = MessageDigest.getInstance("SHA-256").digest(b);
        StringBuilder sb = new StringBuilder();
        for (byte x : d) sb.append(String.format("%02x", x));
        return sb.toString();
    }

    static String enc(byte[] b) {
        if (b.length == 0) return "-";
        return b64e.encodeToString(b);
    }

    static byte[] dec(String s) {
        if (s.equals("-")) return new byte[0];
        return b64d.decode(s);
    }

    // ---- DOM helpers ----
    static Element childDs(Element e, String local) {
        for (Node c = e.getFirstChild(); c != null; c = c.getNextSibling())
            if (c.getNodeType() == Node.ELEMENT_NODE && local.equals(c.getLocalName()) && DS.equals(c.getNamespaceURI()))
                return (Element) c;
        return null;
    }

    static Element childAny(Element e, String local) {
        for (Node c = e.getFirstChild(); c != null; c = c.getNextSibling())
            if (c.getNodeType() == Node.ELEMENT_NODE && local.equals(c.getLocalName()))
                return (Element) c;
        return null;
    }

    static List<Element> childrenDs(Element e, String local) {
        List<Element> l = new ArrayList<>();
        for (Node c = e.getFirstChild(); c != null; c = c.getNextSibling())
            if (c.getNodeType() == Node.ELEMENT_NODE && local.equals(c.getLocalName()) && DS.equals(c.getNamespaceURI()))
                l.add((Element) c);
        return l;
    }

    static Element path(Element e, String... locals) {
        for (String l : locals) {
            if (e == null) return null;
            e = childAny(e, l);
        }
        return e;
    }

    // index path from the document to a node, used to find the same node in a clone
    static List<Integer> indexPath(Node n) {
        LinkedList<Integer> p = new LinkedList<>();
        while (n.getParentNode() != null) {
            int i = 0;
            for (Node s = n.getPreviousSibling(); s != null; s = s.getPreviousSibling()) i++;
            p.addFirst(i);
            n = n.getParentNode();
        }
        return p;
    }

    static Node follow(Node root, List<Integer> p) {
        Node n = root;
        for (int i : p) {
            n = n.getFirstChild();
            for (int k = 0; k < i; k++) n = n.getNextSibling();
        }
        return n;
    }

    // license extracted into a document of its own (what a ClickOnce verifier
    // does); in-scope namespace declarations of the ancestors are carried along
    static Document extract(Element el) throws Exception {
        Document nd = dbf.newDocumentBuilder().newDocument();
        Element copy = (Element) nd.importNode(el, true);
        nd.appendChild(copy);
        Set<String> seen = new HashSet<>();
        NamedNodeMap own = el.getAttributes();
        for (int i = 0; i < own.getLength(); i++) {
            Attr a = (Attr) own.item(i);
            if (XMLNS.equals(a.getNamespaceURI())) seen.add(a.getName());
        }
        for (Node p = el.getParentNode(); p != null && p.getNodeType() == Node.ELEMENT_NODE; p = p.getParentNode()) {
            NamedNodeMap at = p.getAttributes();
            for (int i = 0; i < at.getLength(); i++) {
                Attr a = (Attr) at.item(i);
                if (!XMLNS.equals(a.getNamespaceURI())) continue;
                if (seen.add(a.getName())) {
                    if (a.getName().equals("xmlns") && a.getValue().isEmpty()) continue;
                    copy.setAttributeNS(XMLNS, a.getName(), a.getValue());
                }
            }
        }
        return nd;
    }

    static String stripNs(String uri) {
        for (String p : NSPREFIXES) if (uri.startsWith(p)) return uri.substring(p.length());
        return null;
    }

    static String c14nOf(String uri) {
        if (uri.equals(EXC) || uri.equals(INC) || uri.equals(EXCC) || uri.equals(INCC)) return uri;
        return null;
    }

    static Element findById(Document d, String id) {
        List<Element> all = new ArrayList<>();
        elements(d, all);
        // first match in document order (a duplicated Id does not change what the
        // first bearer of that Id contains)
        for (Element e : all) {
            if (e.hasAttribute("Id") && e.getAttribute("Id").equals(id)) return e;
        }
        return null;
    }

    // Canonical octets the single Reference of `sig` designates, computed the way
    // XML-DSig core validation prescribes. Returns null + reason in why[0].
    static byte[] referenceForm(Element sig, String[] why) throws Exception {
        Element si = childDs(sig, "SignedInfo");
        if (si == null) { why[0] = "no SignedInfo"; return null; }
        List<Element> refs = childrenDs(si, "Reference");
        if (refs.size() != 1) { why[0] = "references=" + refs.size(); return null; }
        Element ref = refs.get(0);
        if (!ref.hasAttribute("URI")) { why[0] = "Reference without URI"; return null; }
        String uri = ref.getAttribute("URI");
        List<String> algs = new ArrayList<>();
        Element trs = childDs(ref, "Transforms");
        if (trs != null) for (Element t : childrenDs(trs, "Transform")) algs.add(t.getAttribute("Algorithm"));
        Node target;
        int i = 0;
        if (uri.isEmpty()) {
            Document clone = (Document) sig.getOwnerDocument().cloneNode(true);
            if (i < algs.size() && algs.get(i).equals(ENVELOPED)) {
                Node s2 = follow(clone, indexPath(sig));
                s2.getParentNode().removeChild(s2);
                i++;
            }
            target = clone;
        } else if (uri.startsWith("#")) {
            target = findById(sig.getOwnerDocument(), uri.substring(1));
            if (target == null) { why[0] = "reference target not found"; return null; }
        } else { why[0] = "external reference"; return null; }
        String c = INC; // default when no c14n transform is given
        if (i < algs.size()) {
            c = c14nOf(algs.get(i));
            if (c == null) { why[0] = "unsupported transform " + algs.get(i); return null; }
            i++;
        }
        if (i != algs.size()) { why[0] = "unsupported transform chain"; return null; }
        return c14n(c, target);
    }

    static byte[] signedInfoForm(Element sig, String[] why) throws Exception {
        Element si = childDs(sig, "SignedInfo");
        if (si == null) { why[0] = "no SignedInfo"; return null; }
        Element cm = childDs(si, "CanonicalizationMethod");
        if (cm == null) { why[0] = "no CanonicalizationMethod"; return null; }
        String c = c14nOf(cm.getAttribute("Algorithm"));
        if (c == null) { why[0] = "unsupported c14n " + cm.getAttribute("Algorithm"); return null; }
        return c14n(c, si);
    }

    static String jcaDigest(String name) {
        switch (name) {
        case "sha1": return "SHA-1";
        case "sha224": return "SHA-224";
        case "sha256": return "SHA-256";
        case "sha384": return "SHA-384";
        case "sha512": return "SHA-512";
        }
        return null;
    }

    // step-by-step core validation of one Signature element
    static String validateManual(Element sig, PublicKey key) throws Exception {
        String[] why = new String[1];
        byte[] siBytes = signedInfoForm(sig, why);
        if (siBytes == null) return "invalid: " + why[0];
        Element si = childDs(sig, "SignedInfo");
        Element sm = childDs(si, "SignatureMethod");
        if (sm == null) return "invalid: no SignatureMethod";
        String smName = stripNs(sm.getAttribute("Algorithm"));
        if (smName == null) return "invalid: unknown SignatureMethod";
        int dash = smName.indexOf('-');
        if (dash < 0) return "invalid: unknown SignatureMethod";
        String kt = smName.substring(0, dash), hn = smName.substring(dash + 1);
        String jd = jcaDigest(hn);
        if (jd == null) return "invalid: unknown signature digest";
        String jca;
        if (kt.equals("rsa")) jca = jd.replace("-", "") + "withRSA";
        else if (kt.equals("ecdsa")) jca = jd.replace("-", "") + "withECDSAinP1363Format";
        else return "invalid: unknown key type";
        if (kt.equals("rsa") != key.getAlgorithm().equals("RSA")) return "invalid: key type mismatch";
        Element sv = childDs(sig, "SignatureValue");
        if (sv == null) return "invalid: no SignatureValue";
        byte[] sigv;
        try { sigv = mime.decode(sv.getTextContent()); } catch (IllegalArgumentException e) { return "invalid: bad base64 in SignatureValue"; }
        Signature s = Signature.getInstance(jca);
        s.initVerify(key);
        s.update(siBytes);
        boolean ok;
        try { ok = s.verify(sigv); } catch (SignatureException e) { ok = false; }
        if (!ok) return "invalid: SignatureValue does not verify over SignedInfo";
        byte[] refBytes = referenceForm(sig, why);
        if (refBytes == null) return "invalid: " + why[0];
        Element ref = childDs(si, "Reference");
        Element dm = childDs(ref, "DigestMethod");
        Element dv = childDs(ref, "DigestValue");
        if (dm == null || dv == null) return "invalid: no digest";
        String dn = stripNs(dm.getAttribute("Algorithm"));
        String jdd = dn == null ? null : jcaDigest(dn);
        if (jdd == null) return "invalid: unknown DigestMethod";
        byte[] want;
        try { want = mime.decode(dv.getTextContent()); } catch (IllegalArgumentException e) { return "invalid: bad base64 in DigestValue"; }
        byte[] got = MessageDigest.getInstance(jdd).digest(refBytes);
        if (!MessageDigest.isEqual(want, got)) return "invalid: reference digest mismatch";
        return "valid";
    }

    static String validateDsig(Element sig, PublicKey key) throws Exception {
        // KeyInfo is not signed content and the key is supplied by the caller: drop it so
        // that javax.xml.crypto's KeyInfo unmarshaller (which is stricter than XML-DSig
        // core validation needs) has no say in the verdict
        for (Element ki : childrenDs(sig, "KeyInfo")) sig.removeChild(ki);
        XMLSignatureFactory fac = XMLSignatureFactory.getInstance("DOM");
        DOMValidateContext ctx = new DOMValidateContext(key, sig);
        ctx.setProperty("org.jcp.xml.dsig.secureValidation", Boolean.FALSE);
        List<Element> all = new ArrayList<>();
        elements(sig.getOwnerDocument(), all);
        Set<String> ids = new HashSet<>();
        for (Element e : all) if (e.hasAttribute("Id") && ids.add(e.getAttribute("Id"))) ctx.setIdAttributeNS(e, null, "Id");
        XMLSignature s;
        try { s = fac.unmarshalXMLSignature(ctx); } catch (Exception e) { return "invalid: unmarshal: " + oneLine(e); }
        try {
            if (s.validate(ctx)) return "valid";
            boolean sv = s.getSignatureValue().validate(ctx);
            StringBuilder sb = new StringBuilder("invalid: sigvalue=" + sv);
            for (Object r : s.getSignedInfo().getReferences()) sb.append(" ref=" + ((Reference) r).validate(ctx));
            return sb.toString();
        } catch (Exception e) { return "invalid: validate: " + oneLine(e); }
    }

    static String oneLine(Throwable e) {
        String m = String.valueOf(e);
        if (e.getCause() != null) m += " <- " + e.getCause();
        return m.replace('\n', ' ').replace('\r', ' ');
    }

    // the Signature elements of a document of the given kind: each entry is a
    // Signature element living in the document its URI="" reference talks about
    static List<Element> signatures(String kind, Document d, List<String> problems) throws Exception {
        List<Element> out = new ArrayList<>();
        Element root = d.getDocumentElement();
        switch (kind) {
        case "manifest": {
            Element outer = childDs(root, "Signature");
            if (outer == null) { problems.add("no outer Signature"); return out; }
            if (childrenDs(root, "Signature").size() != 1) { problems.add("several outer Signatures"); return out; }
            out.add(outer);
            Element lic = path(outer, "KeyInfo", "RelData", "license");
            if (lic == null) { problems.add("no license"); return out; }
            Document ld = extract(lic);
            Element issuer = childAny(ld.getDocumentElement(), "issuer");
            Element inner = issuer == null ? null : childDs(issuer, "Signature");
            if (inner == null) { problems.add("no inner Signature"); return out; }
            out.add(inner);
            return out;
        }
        case "vsix": {
            if (!"Signature".equals(root.getLocalName()) || !DS.equals(root.getNamespaceURI())) { problems.add("root is not ds:Signature"); return out; }
            out.add(root);
            return out;
        }
        default: { // generic: the first ds:Signature in document order
            List<Element> all = new ArrayList<>();
            if ("Signature".equals(root.getLocalName()) && DS.equals(root.getNamespaceURI())) all.add(root);
            elements(root, all);
            for (Element e : all) if ("Signature".equals(e.getLocalName()) && DS.equals(e.getNamespaceURI())) { out.add(e); return out; }
            problems.add("no Signature");
            return out;
        }
        }
    }

    static PublicKey readKey(byte[] spki) throws Exception {
        try { return KeyFactory.getInstance("RSA").generatePublic(new X509EncodedKeySpec(spki)); } catch (Exception e) { }
        return KeyFactory.getInstance("EC").generatePublic(new X509EncodedKeySpec(spki));
    }

    // ---- end: copied from C19Ref.java ----

    static boolean signatureRelated(String name) {
        String u = name.toUpperCase(Locale.ENGLISH);
        if (!u.startsWith("META-INF/")) return false;
        String r = u.substring(9);
        if (r.indexOf('/') >= 0) return false;
        return r.equals("MANIFEST.MF") || r.endsWith(".SF") || r.endsWith(".DSA") || r.endsWith(".RSA") || r.endsWith(".EC") || r.startsWith("SIG-");
    }

    static String jar(String path, byte[] leaf, boolean wantTs) throws Exception {
        int entries = 0, signed = 0;
        byte[] buf = new byte[65536];
        try (JarFile jf = new JarFile(new File(path), true)) {
            java.util.jar.Manifest man = jf.getManifest();
            if (man == null) return "FAIL no-manifest -";
            Enumeration<JarEntry> en = jf.entries();
            while (en.hasMoreElements()) {
                JarEntry e = en.nextElement();
                try (InputStream is = jf.getInputStream(e)) {
                    while (is.read(buf) != -1) { }
                } catch (SecurityException se) {
                    return "FAIL digest-or-signature-error " + enc(oneLine(se).getBytes(StandardCharsets.UTF_8));
                }
                if (e.isDirectory()) continue;
                entries++;
                if (signatureRelated(e.getName())) continue;
                CodeSigner[] cs = e.getCodeSigners();
                if (cs == null || cs.length == 0) return "FAIL entry-without-signer " + enc(e.getName().getBytes(StandardCharsets.UTF_8));
                boolean match = false;
                for (CodeSigner c : cs) {
                    Certificate first = c.getSignerCertPath().getCertificates().get(0);
                    if (Arrays.equals(first.getEncoded(), leaf)) {
                        match = true;
                        if (wantTs && c.getTimestamp() == null) return "FAIL signer-without-timestamp " + enc(e.getName().getBytes(StandardCharsets.UTF_8));
                    }
                }
                if (!match) return "FAIL signer-is-not-configured-leaf " + enc(e.getName().getBytes(StandardCharsets.UTF_8));
                signed++;
            }
        }
        return "OK " + entries + " " + signed;
    }

    // OPC (ECMA-376 part 2, 13.2.4.24) relationships transform followed by C14N 1.0
    static byte[] relsTransform(byte[] doc, String[] ids) throws Exception {
        Document d = parse(doc);
        Element root = d.getDocumentElement();
        Set<String> keep = new HashSet<>(Arrays.asList(ids));
        List<Element> rels = new ArrayList<>();
        for (Node c = root.getFirstChild(); c != null; c = c.getNextSibling())
            if (c.getNodeType() == Node.ELEMENT_NODE && "Relationship".equals(c.getLocalName())) rels.add((Element) c);
        while (root.getFirstChild() != null) root.removeChild(root.getFirstChild());
        rels.removeIf(r -> !keep.contains(r.getAttribute("Id")));
        rels.sort(Comparator.comparing(r -> r.getAttribute("Id")));
        for (Element r : rels) {
            if (!r.hasAttribute("TargetMode")) r.setAttribute("TargetMode", "Internal");
            while (r.getFirstChild() != null) r.removeChild(r.getFirstChild());
            root.appendChild(r);
        }
        return c14n(INC, d);
    }

    static String handle(String line) throws Exception {
        String[] f = line.split(" ");
        switch (f[0]) {
        case "JAR":
            return jar(f[1], dec(f[2]), f[3].equals("1"));
        case "VALID":
        case "DSIG": {
            Document d = parse(dec(f[2]));
            PublicKey key = readKey(dec(f[3]));
            List<String> problems = new ArrayList<>();
            List<Element> sigs = signatures(f[1], d, problems);
            if (!problems.isEmpty()) return "OK 0 invalid:_" + problems.get(0).replace(' ', '_');
            for (Element sig : sigs) {
                String r = f[0].equals("VALID") ? validateManual(sig, key) : validateDsig(sig, key);
                if (!r.equals("valid")) return "OK 0 " + r.replace(' ', '_');
            }
            return "OK 1 valid";
        }
        case "PARTS": {
            Document d = parse(dec(f[1]));
            Element root = d.getDocumentElement();
            StringBuilder sb = new StringBuilder("OK");
            List<Element> all = new ArrayList<>();
            elements(root, all);
            for (Element e : all) {
                if (!"Manifest".equals(e.getLocalName()) || !DS.equals(e.getNamespaceURI())) continue;
                for (Element ref : childrenDs(e, "Reference")) {
                    Element dm = childDs(ref, "DigestMethod"), dv = childDs(ref, "DigestValue");
                    StringBuilder tr = new StringBuilder();
                    Element trs = childDs(ref, "Transforms");
                    if (trs != null) for (Element t : childrenDs(trs, "Transform")) {
                        if (tr.length() > 0) tr.append(',');
                        tr.append(t.getAttribute("Algorithm"));
                        for (Node c = t.getFirstChild(); c != null; c = c.getNextSibling())
                            if (c.getNodeType() == Node.ELEMENT_NODE && "RelationshipReference".equals(c.getLocalName()))
                                tr.append(";id=").append(((Element) c).getAttribute("SourceId"));
                    }
                    sb.append(' ').append(enc(ref.getAttribute("URI").getBytes(StandardCharsets.UTF_8)))
                      .append('|').append(dm == null ? "-" : dm.getAttribute("Algorithm"))
                      .append('|').append(dv == null ? "-" : enc(mime.decode(dv.getTextContent())))
                      .append('|').append(tr.length() == 0 ? "-" : tr.toString());
                }
            }
            return sb.toString();
        }
        case "RELS": {
            String[] ids = f[2].equals("-") ? new String[0] : f[2].split(",");
            return "OK " + enc(relsTransform(dec(f[1]), ids));
        }
        case "PING":
            return "OK pong";
        }
        return "ERR unknown request " + f[0];
    }

    public static void main(String[] args) throws Exception {
        com.sun.org.apache.xml.internal.security.Init.init();
        dbf = DocumentBuilderFactory.newInstance();
        dbf.setNamespaceAware(true);
        dbf.setExpandEntityReferences(true);
        dbf.setCoalescing(true);
        try { dbf.setFeature("http://apache.org/xml/features/dom/defer-node-expansion", false); } catch (Exception e) { }
        try { dbf.setFeature("http://apache.org/xml/features/nonvalidating/load-external-dtd", false); } catch (Exception e) { }
        BufferedReader in = new BufferedReader(new InputStreamReader(System.in, StandardCharsets.ISO_8859_1), 1 << 20);
        PrintStream out = new PrintStream(new BufferedOutputStream(new FileOutputStream(FileDescriptor.out), 1 << 20), false, "ISO-8859-1");
        System.setErr(new PrintStream(OutputStream.nullOutputStream()));
        String line;
        while ((line = in.readLine()) != null) {
            String resp;
            try {
                resp = handle(line);
            } catch (Throwable e) {
                resp = "ERR " + oneLine(e);
            }
            out.print(resp);
            out.print('\n');
            out.flush();
        }
        out.flush();
    }
}

// C19 reference oracle: one long-lived JVM answering line requests on stdin.
//
// Independent of relic: the JDK's W3C canonicaliser (Apache Santuario as bundled
// in java.xml.crypto), JCA signature/digest primitives, and javax.xml.crypto.dsig.
//
// Requests (fields separated by one space; binary fields base64, "-" = empty):
//   C14N  <alg> <h|f> <doc>          canonical form of EVERY element (document order) as apex,
//                                    then of the Document node. alg: exc|inc|excc|incc
//                                    h = answer sha256 hex of each form, f = full bytes (base64)
//   FORMS <kind> <doc>               sha256 of each signed part / signature value / key value
//                                    kind: manifest|vsix|generic
//   VALID <kind> <doc> <spki>        XML-DSig core validation done step by step with the JDK
//                                    canonicaliser + JCA (accepts Microsoft's algorithm URIs)
//   DSIG  <kind> <doc> <spki>        javax.xml.crypto.dsig validation (standard URIs only)
//   REFFORM <kind> <doc>            full octets of each Reference / SignedInfo canonical form
//   CHECK <kind> <doc> <spki> <0|1> FORMS + VALID (+ DSIG) in one request
//   P1363 <jcaAlg> <spki> <msg> <sig> raw r||s verification (java.security.Signature)
// Answers: "OK ..." or "ERR <message>".
import java.io.*;
import java.nio.charset.StandardCharsets;
import java.security.*;
import java.security.spec.X509EncodedKeySpec;
import java.util.*;
import javax.xml.crypto.dsig.*;
import javax.xml.crypto.dsig.dom.DOMValidateContext;
import javax.xml.parsers.*;
import org.w3c.dom.*;
import org.xml.sax.InputSource;
import com.sun.org.apache.xml.internal.security.c14n.Canonicalizer;

public class C19Ref {
    static final String EXC = "http://www.w3.org/2001/10/xml-exc-c14n#";
    static final String EXCC = "http://www.w3.org/2001/10/xml-exc-c14n#WithComments";
    static final String INC = "http://www.w3.org/TR/2001/REC-xml-c14n-20010315";
    static final String INCC = "http://www.w3.org/TR/2001/REC-xml-c14n-20010315#WithComments";
    static final String DS = "http://www.w3.org/2000/09/xmldsig#";
    static final String XMLNS = "http://www.w3.org/2000/xmlns/";
    static final String ENVELOPED = "http://www.w3.org/2000/09/xmldsig#enveloped-signature";
    static final String[] NSPREFIXES = { "http://www.w3.org/2000/09/xmldsig#", "http://www.w3.org/2001/04/xmldsig-more#", "http://www.w3.org/2001/04/xmlenc#" };

    static DocumentBuilderFactory dbf;
    static Base64.Decoder b64d = Base64.getDecoder();
    static Base64.Decoder mime = Base64.getMimeDecoder();
    static Base64.Encoder b64e = Base64.getEncoder();

    static String algUri(String a) {
        switch (a) {
        case "exc": return EXC;
        case "inc": return INC;
        case "excc": return EXCC;
        case "incc": return INCC;
        }
        throw new IllegalArgumentException("alg " + a);
    }

    static Document parse(byte[] doc) throws Exception {
        DocumentBuilder b = dbf.newDocumentBuilder();
        b.setErrorHandler(null);
        return b.parse(new InputSource(new ByteArrayInputStream(doc)));
    }

    static byte[] c14n(String uri, Node n) throws Exception {
        Canonicalizer c = Canonicalizer.getInstance(uri);
        ByteArrayOutputStream o = new ByteArrayOutputStream();
        c.canonicalizeSubtree(n, o);
        return o.toByteArray();
    }

    static void elements(Node n, List<Element> out) {
        for (Node c = n.getFirstChild(); c != null; c = c.getNextSibling()) {
            if (c.getNodeType() == Node.ELEMENT_NODE) {
                out.add((Element) c);
                elements(c, out);
            }
        }
    }

    static String sha256hex(byte[] b) throws Exception {
        byte[] d = MessageDigest.getInstance("SHA-256").digest(b);
        StringBuilder sb = new StringBuilder();
        for (byte x : d) sb.append(String.format("%02x", x));
        return sb.toString();
    }

    static String enc(byte[] b) {
        if (b.length == 0) return "-";
        return b64e.encodeToString(b);
    }

    static byte[] dec(String s) {
        if (s.equals("-")) return new byte[0];
        return b64d.decode(s);
    }

    // ---- DOM helpers ----
    static Element childDs(Element e, String local) {
        for (Node c = e.getFirstChild(); c != null; c = c.getNextSibling())
            if (c.getNodeType() == Node.ELEMENT_NODE && local.equals(c.getLocalName()) && DS.equals(c.getNamespaceURI()))
                return (Element) c;
        return null;
    }

    static Element childAny(Element e, String local) {
        for (Node c = e.getFirstChild(); c != null; c = c.getNextSibling())
            if (c.getNodeType() == Node.ELEMENT_NODE && local.equals(c.getLocalName()))
                return (Element) c;
        return null;
    }

    static List<Element> childrenDs(Element e, String local) {
        List<Element> l = new ArrayList<>();
        for (Node c = e.getFirstChild(); c != null; c = c.getNextSibling())
            if (c.getNodeType() == Node.ELEMENT_NODE && local.equals(c.getLocalName()) && DS.equals(c.getNamespaceURI()))
                l.add((Element) c);
        return l;
    }

    static Element path(Element e, String... locals) {
        for (String l : locals) {
            if (e == null) return null;
            e = childAny(e, l);
        }
        return e;
    }

    // index path from the document to a node, used to find the same node in a clone
    static List<Integer> indexPath(Node n) {
        LinkedList<Integer> p = new LinkedList<>();
        while (n.getParentNode() != null) {
            int i = 0;
            for (Node s = n.getPreviousSibling(); s != null; s = s.getPreviousSibling()) i++;
            p.addFirst(i);
            n = n.getParentNode();
        }
        return p;
    }

    static Node follow(Node root, List<Integer> p) {
        Node n = root;
        for (int i : p) {
            n = n.getFirstChild();
            for (int k = 0; k < i; k++) n = n.getNextSibling();
        }
        return n;
    }

    // license extracted into a document of its own (what a ClickOnce verifier
    // does); in-scope namespace declarations of the ancestors are carried along
    static Document extract(Element el) throws Exception {
        Document nd = dbf.newDocumentBuilder().newDocument();
        Element copy = (Element) nd.importNode(el, true);
        nd.appendChild(copy);
        Set<String> seen = new HashSet<>();
        NamedNodeMap own = el.getAttributes();
        for (int i = 0; i < own.getLength(); i++) {
            Attr a = (Attr) own.item(i);
            if (XMLNS.equals(a.getNamespaceURI())) seen.add(a.getName());
        }
        for (Node p = el.getParentNode(); p != null && p.getNodeType() == Node.ELEMENT_NODE; p = p.getParentNode()) {
            NamedNodeMap at = p.getAttributes();
            for (int i = 0; i < at.getLength(); i++) {
                Attr a = (Attr) at.item(i);
                if (!XMLNS.equals(a.getNamespaceURI())) continue;
                if (seen.add(a.getName())) {
                    if (a.getName().equals("xmlns") && a.getValue().isEmpty()) continue;
                    copy.setAttributeNS(XMLNS, a.getName(), a.getValue());
                }
            }
        }
        return nd;
    }

    static String stripNs(String uri) {
        for (String p : NSPREFIXES) if (uri.startsWith(p)) return uri.substring(p.length());
        return null;
    }

    static String c14nOf(String uri) {
        if (uri.equals(EXC) || uri.equals(INC) || uri.equals(EXCC) || uri.equals(INCC)) return uri;
        return null;
    }

    static Element findById(Document d, String id) {
        List<Element> all = new ArrayList<>();
        elements(d, all);
        // first match in document order (a duplicated Id does not change what the
        // first bearer of that Id contains)
        for (Element e : all) {
            if (e.hasAttribute("Id") && e.getAttribute("Id").equals(id)) return e;
        }
        return null;
    }

    // Canonical octets the single Reference of `sig` designates, computed the way
    // XML-DSig core validation prescribes. Returns null + reason in why[0].
    static byte[] referenceForm(Element sig, String[] why) throws Exception {
        Element si = childDs(sig, "SignedInfo");
        if (si == null) { why[0] = "no SignedInfo"; return null; }
        List<Element> refs = childrenDs(si, "Reference");
        if (refs.size() != 1) { why[0] = "references=" + refs.size(); return null; }
        Element ref = refs.get(0);
        if (!ref.hasAttribute("URI")) { why[0] = "Reference without URI"; return null; }
        String uri = ref.getAttribute("URI");
        List<String> algs = new ArrayList<>();
        Element trs = childDs(ref, "Transforms");
        if (trs != null) for (Element t : childrenDs(trs, "Transform")) algs.add(t.getAttribute("Algorithm"));
        Node target;
        int i = 0;
        if (uri.isEmpty()) {
            Document clone = (Document) sig.getOwnerDocument().cloneNode(true);
            if (i < algs.size() && algs.get(i).equals(ENVELOPED)) {
                Node s2 = follow(clone, indexPath(sig));
                s2.getParentNode().removeChild(s2);
                i++;
            }
            target = clone;
        } else if (uri.startsWith("#")) {
            target = findById(sig.getOwnerDocument(), uri.substring(1));
            if (target == null) { why[0] = "reference target not found"; return null; }
        } else { why[0] = "external reference"; return null; }
        String c = INC; // default when no c14n transform is given
        if (i < algs.size()) {
            c = c14nOf(algs.get(i));
            if (c == null) { why[0] = "unsupported transform " + algs.get(i); return null; }
            i++;
        }
        if (i != algs.size()) { why[0] = "unsupported transform chain"; return null; }
        return c14n(c, target);
    }

    static byte[] signedInfoForm(Element sig, String[] why) throws Exception {
        Element si = childDs(sig, "SignedInfo");
        if (si == null) { why[0] = "no SignedInfo"; return null; }
        Element cm = childDs(si, "CanonicalizationMethod");
        if (cm == null) { why[0] = "no CanonicalizationMethod"; return null; }
        String c = c14nOf(cm.getAttribute("Algorithm"));
        if (c == null) { why[0] = "unsupported c14n " + cm.getAttribute("Algorithm"); return null; }
        return c14n(c, si);
    }

    static String jcaDigest(String name) {
        switch (name) {
        case "sha1": return "SHA-1";
        case "sha224": return "SHA-224";
        case "sha256": return "SHA-256";
        case "sha384": return "SHA-384";
        case "sha512": return "SHA-512";
        }
        return null;
    }

    // step-by-step core validation of one Signature element
    static String validateManual(Element sig, PublicKey key) throws Exception {
        String[] why = new String[1];
        byte[] siBytes = signedInfoForm(sig, why);
        if (siBytes == null) return "invalid: " + why[0];
        Element si = childDs(sig, "SignedInfo");
        Element sm = childDs(si, "SignatureMethod");
        if (sm == null) return "invalid: no SignatureMethod";
        String smName = stripNs(sm.getAttribute("Algorithm"));
        if (smName == null) return "invalid: unknown SignatureMethod";
        int dash = smName.indexOf('-');
        if (dash < 0) return "invalid: unknown SignatureMethod";
        String kt = smName.substring(0, dash), hn = smName.substring(dash + 1);
        String jd = jcaDigest(hn);
        if (jd == null) return "invalid: unknown signature digest";
        String jca;
        if (kt.equals("rsa")) jca = jd.replace("-", "") + "withRSA";
        else if (kt.equals("ecdsa")) jca = jd.replace("-", "") + "withECDSAinP1363Format";
        else return "invalid: unknown key type";
        if (kt.equals("rsa") != key.getAlgorithm().equals("RSA")) return "invalid: key type mismatch";
        Element sv = childDs(sig, "SignatureValue");
        if (sv == null) return "invalid: no SignatureValue";
        byte[] sigv;
        try { sigv = mime.decode(sv.getTextContent()); } catch (IllegalArgumentException e) { return "invalid: bad base64 in SignatureValue"; }
        Signature s = Signature.getInstance(jca);
        s.initVerify(key);
        s.update(siBytes);
        boolean ok;
        try { ok = s.verify(sigv); } catch (SignatureException e) { ok = false; }
        if (!ok) return "invalid: SignatureValue does not verify over SignedInfo";
        byte[] refBytes = referenceForm(sig, why);
        if (refBytes == null) return "invalid: " + why[0];
        Element ref = childDs(si, "Reference");
        Element dm = childDs(ref, "DigestMethod");
        Element dv = childDs(ref, "DigestValue");
        if (dm == null || dv == null) return "invalid: no digest";
        String dn = stripNs(dm.getAttribute("Algorithm"));
        String jdd = dn == null ? null : jcaDigest(dn);
        if (jdd == null) return "invalid: unknown DigestMethod";
        byte[] want;
        try { want = mime.decode(dv.getTextContent()); } catch (IllegalArgumentException e) { return "invalid: bad base64 in DigestValue"; }
        byte[] got = MessageDigest.getInstance(jdd).digest(refBytes);
        if (!MessageDigest.isEqual(want, got)) return "invalid: reference digest mismatch";
        return "valid";
    }

    static String validateDsig(Element sig, PublicKey key) throws Exception {
        // KeyInfo is not signed content and the key is supplied by the caller: drop it so
        // that javax.xml.crypto's KeyInfo unmarshaller (which is stricter than XML-DSig
        // core validation needs) has no say in the verdict
        for (Element ki : childrenDs(sig, "KeyInfo")) sig.removeChild(ki);
        XMLSignatureFactory fac = XMLSignatureFactory.getInstance("DOM");
        DOMValidateContext ctx = new DOMValidateContext(key, sig);
        ctx.setProperty("org.jcp.xml.dsig.secureValidation", Boolean.FALSE);
        List<Element> all = new ArrayList<>();
        elements(sig.getOwnerDocument(), all);
        Set<String> ids = new HashSet<>();
        for (Element e : all) if (e.hasAttribute("Id") && ids.add(e.getAttribute("Id"))) ctx.setIdAttributeNS(e, null, "Id");
        XMLSignature s;
        try { s = fac.unmarshalXMLSignature(ctx); } catch (Exception e) { return "invalid: unmarshal: " + oneLine(e); }
        try {
            if (s.validate(ctx)) return "valid";
            boolean sv = s.getSignatureValue().validate(ctx);
            StringBuilder sb = new StringBuilder("invalid: sigvalue=" + sv);
            for (Object r : s.getSignedInfo().getReferences()) sb.append(" ref=" + ((Reference) r).validate(ctx));
            return sb.toString();
        } catch (Exception e) { return "invalid: validate: " + oneLine(e); }
    }

    static String oneLine(Throwable e) {
        String m = String.valueOf(e);
        if (e.getCause() != null) m += " <- " + e.getCause();
        return m.replace('\n', ' ').replace('\r', ' ');
    }

    // the Signature elements of a document of the given kind: each entry is a
    // Signature element living in the document its URI="" reference talks about
    static List<Element> signatures(String kind, Document d, List<String> problems) throws Exception {
        List<Element> out = new ArrayList<>();
        Element root = d.getDocumentElement();
        switch (kind) {
        case "manifest": {
            Element outer = childDs(root, "Signature");
            if (outer == null) { problems.add("no outer Signature"); return out; }
            if (childrenDs(root, "Signature").size() != 1) { problems.add("several outer Signatures"); return out; }
            out.add(outer);
            Element lic = path(outer, "KeyInfo", "RelData", "license");
            if (lic == null) { problems.add("no license"); return out; }
            Document ld = extract(lic);
            Element issuer = childAny(ld.getDocumentElement(), "issuer");
            Element inner = issuer == null ? null : childDs(issuer, "Signature");
            if (inner == null) { problems.add("no inner Signature"); return out; }
            out.add(inner);
            return out;
        }
        case "vsix": {
            if (!"Signature".equals(root.getLocalName()) || !DS.equals(root.getNamespaceURI())) { problems.add("root is not ds:Signature"); return out; }
            out.add(root);
            return out;
        }
        default: { // generic: the first ds:Signature in document order
            List<Element> all = new ArrayList<>();
            if ("Signature".equals(root.getLocalName()) && DS.equals(root.getNamespaceURI())) all.add(root);
            elements(root, all);
            for (Element e : all) if ("Signature".equals(e.getLocalName()) && DS.equals(e.getNamespaceURI())) { out.add(e); return out; }
            problems.add("no Signature");
            return out;
        }
        }
    }

    static PublicKey readKey(byte[] spki) throws Exception {
        try { return KeyFactory.getInstance("RSA").generatePublic(new X509EncodedKeySpec(spki)); } catch (Exception e) { }
        return KeyFactory.getInstance("EC").generatePublic(new X509EncodedKeySpec(spki));
    }

    static String handle(String line) throws Exception {
        String[] f = line.split(" ");
        switch (f[0]) {
        case "C14N": {
            String uri = algUri(f[1]);
            boolean full = f[2].equals("f");
            Document d = parse(dec(f[3]));
            List<Element> els = new ArrayList<>();
            elements(d, els);
            StringBuilder sb = new StringBuilder("OK " + els.size());
            for (Element e : els) {
                byte[] c = c14n(uri, e);
                sb.append(' ').append(full ? enc(c) : sha256hex(c));
            }
            byte[] c = c14n(uri, d);
            sb.append(' ').append(full ? enc(c) : sha256hex(c));
            return sb.toString();
        }
        case "FORMS": {
            Document d = parse(dec(f[2]));
            List<String> problems = new ArrayList<>();
            List<Element> sigs = signatures(f[1], d, problems);
            StringBuilder sb = new StringBuilder("OK");
            int want = f[1].equals("manifest") ? 2 : 1;
            for (int i = 0; i < want; i++) {
                if (i >= sigs.size()) { sb.append(" !missing !missing !missing !missing"); continue; }
                Element sig = sigs.get(i);
                String[] why = new String[1];
                byte[] r = referenceForm(sig, why);
                sb.append(' ').append(r == null ? "!" + why[0].replace(' ', '_') : sha256hex(r));
                byte[] s = signedInfoForm(sig, why);
                sb.append(' ').append(s == null ? "!" + why[0].replace(' ', '_') : sha256hex(s));
                Element sv = childDs(sig, "SignatureValue");
                String svh = "!nosigvalue";
                if (sv != null) {
                    try { svh = sha256hex(mime.decode(sv.getTextContent())); } catch (IllegalArgumentException e) { svh = "!badbase64"; }
                }
                sb.append(' ').append(svh);
                Element ki = childDs(sig, "KeyInfo");
                Element kv = ki == null ? null : childDs(ki, "KeyValue");
                sb.append(' ').append(kv == null ? "!nokeyvalue" : sha256hex(c14n(EXC, kv)));
            }
            return sb.toString();
        }
        case "REFFORM": {
            Document d = parse(dec(f[2]));
            List<String> problems = new ArrayList<>();
            List<Element> sigs = signatures(f[1], d, problems);
            StringBuilder sb = new StringBuilder("OK");
            int want = f[1].equals("manifest") ? 2 : 1;
            for (int i = 0; i < want; i++) {
                if (i >= sigs.size()) { sb.append(" ! !"); continue; }
                String[] why = new String[1];
                byte[] r = referenceForm(sigs.get(i), why);
                sb.append(' ').append(r == null ? "!" : enc(r));
                byte[] s = signedInfoForm(sigs.get(i), why);
                sb.append(' ').append(s == null ? "!" : enc(s));
            }
            return sb.toString();
        }
        case "CHECK": {
            // CHECK <kind> <doc> <spki> <dsig 0|1>  ->  OK <8 or 4 form hashes> | <valid> <detail> | <dsig> <detail>
            String forms = handle("FORMS " + f[1] + " " + f[2]);
            String valid = handle("VALID " + f[1] + " " + f[2] + " " + f[3]);
            String dsig = f[4].equals("1") ? handle("DSIG " + f[1] + " " + f[2] + " " + f[3]) : "OK - -";
            return forms + " | " + valid.substring(3) + " | " + dsig.substring(3);
        }
        case "VALID":
        case "DSIG": {
            Document d = parse(dec(f[2]));
            PublicKey key = readKey(dec(f[3]));
            List<String> problems = new ArrayList<>();
            List<Element> sigs = signatures(f[1], d, problems);
            if (!problems.isEmpty()) return "OK 0 invalid:_" + problems.get(0).replace(' ', '_');
            for (Element sig : sigs) {
                String r = f[0].equals("VALID") ? validateManual(sig, key) : validateDsig(sig, key);
                if (!r.equals("valid")) return "OK 0 " + r.replace(' ', '_');
            }
            return "OK 1 valid";
        }
        case "P1363": {
            PublicKey key = readKey(dec(f[2]));
            Signature s = Signature.getInstance(f[1]);
            s.initVerify(key);
            s.update(dec(f[3]));
            boolean ok;
            try { ok = s.verify(dec(f[4])); } catch (SignatureException e) { return "OK 0 " + oneLine(e).replace(' ', '_'); }
            return "OK " + (ok ? "1 valid" : "0 invalid");
        }
        case "PING":
            return "OK pong";
        }
        return "ERR unknown request " + f[0];
    }

    public static void main(String[] args) throws Exception {
        com.sun.org.apache.xml.internal.security.Init.init();
        dbf = DocumentBuilderFactory.newInstance();
        dbf.setNamespaceAware(true);
        dbf.setExpandEntityReferences(true);
        dbf.setCoalescing(true); // CDATA sections become text nodes (canonical XML treats them as text anyway)
        try { dbf.setFeature("http://apache.org/xml/features/dom/defer-node-expansion", false); } catch (Exception e) { }
        try { dbf.setFeature("http://apache.org/xml/features/nonvalidating/load-external-dtd", false); } catch (Exception e) { }
        BufferedReader in = new BufferedReader(new InputStreamReader(System.in, StandardCharsets.ISO_8859_1), 1 << 20);
        PrintStream out = new PrintStream(new BufferedOutputStream(new FileOutputStream(FileDescriptor.out), 1 << 20), false, "ISO-8859-1");
        System.setErr(new PrintStream(OutputStream.nullOutputStream()));
        String line;
        while ((line = in.readLine()) != null) {
            String resp;
            try {
                resp = handle(line);
            } catch (Throwable e) {
                resp = "ERR " + oneLine(e);
            }
            out.print(resp);
            out.print('\n');
            if (!in.ready()) out.flush();
        }
        out.flush();
    }
}

#!/usr/bin/python3
"""Reference ZIP reader for C17: Python stdlib zipfile only.

One process per harness run. Protocol on stdin: a header line "<id> <len>\n"
followed by <len> raw archive bytes; on stdout one JSON line per request:
{"id":..,"ok":true,"members":[{name(hex of raw bytes),size,csize,crc,hoff,doff,sha}]}
or {"id":..,"ok":false,"err":"..."}.  Members are reported in directory order.
"""
import sys, io, json, zipfile, hashlib, struct, warnings

warnings.simplefilter("ignore")


def read_archive(blob):
    zf = zipfile.ZipFile(io.BytesIO(blob), "r")
    members = []
    for zi in zf.infolist():
        raw = zi.orig_filename.encode("utf-8" if zi.flag_bits & 0x800 else "cp437")
        data = zf.read(zi)  # decompresses and verifies the CRC
        if len(data) != zi.file_size:
            raise zipfile.BadZipFile("size mismatch for %r" % zi.orig_filename)
        h = zi.header_offset
        nlen, elen = struct.unpack("<HH", blob[h + 26:h + 30])
        members.append({
            "name": raw.hex(),
            "size": zi.file_size,
            "csize": zi.compress_size,
            "crc": zi.CRC,
            "hoff": h,
            "doff": h + 30 + nlen + elen,
            "method": zi.compress_type,
            "sha": hashlib.sha256(data).hexdigest(),
        })
    start = zf.start_dir
    zf.close()
    return members, start


def main():
    inp = sys.stdin.buffer
    out = sys.stdout
    while True:
        line = inp.readline()
        if not line:
            return
        rid, ln = line.split()
        ln = int(ln)
        blob = inp.read(ln)
        if len(blob) != ln:
            return
        try:
            members, start = read_archive(blob)
            res = {"id": int(rid), "ok": True, "members": members, "start_dir": start}
        except Exception as e:  # any refusal by zipfile puts the archive out of scope
            res = {"id": int(rid), "ok": False, "err": "%s: %s" % (type(e).__name__, e)}
        out.write(json.dumps(res))
        out.write("\n")
        out.flush()


if __name__ == "__main__":
    main()

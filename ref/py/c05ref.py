#!/usr/bin/python3
"""C05 reference computations: Python 3 standard library only, no relic code.

One process per harness run.  One JSON object per line on stdin, one JSON
object per line on stdout ({"ok":true,...} or {"ok":false,"err":...}).

Everything here is written from the published format descriptions:
  * Windows Authenticode Portable Executable Signature Format (image hash,
    page hashes as implemented by signtool/osslsigncode), PE/COFF specification
    (CheckSum = imagehlp CheckSumMappedFile algorithm, attribute certificate table),
  * APK Signature Scheme v2 (source.android.com),
  * [MS-CFB] + the MSI digest order used by msisip / osslsigncode
    (streams ordered by raw byte comparison of the UTF-16LE names, storages
    recursively, CLSID after the children, MsiDigitalSignatureEx pre-hash),
  * [MS-CAB] + the signed-cabinet digest (reserved header area),
  * PowerShell SIP (script text as UTF-16LE up to the signature block),
  * RPM file format (lead, signature header, header), ar(5)/deb(5).

Requests: {"op": "...", "path": "...", ...}; see the handlers.
"""
import sys, json, struct, hashlib, base64, io, zlib

HASHES = {"md5": hashlib.md5, "sha1": hashlib.sha1, "sha224": hashlib.sha224,
          "sha256": hashlib.sha256, "sha384": hashlib.sha384, "sha512": hashlib.sha512}


def u16(b, o):
    return struct.unpack_from("<H", b, o)[0]


def u32(b, o):
    return struct.unpack_from("<I", b, o)[0]


def u64(b, o):
    return struct.unpack_from("<Q", b, o)[0]


class RefError(Exception):
    pass


# ----------------------------------------------------------------------------
# minimal DER walker
# ----------------------------------------------------------------------------
class Node:
    __slots__ = ("cls", "tag", "cons", "start", "hdr", "end", "kids")

    def content(self, b):
        return b[self.start + self.hdr:self.end]

    def raw(self, b):
        return b[self.start:self.end]


def der_parse(b, off=0, limit=None, depth=0):
    if limit is None:
        limit = len(b)
    if off + 2 > limit or depth > 64:
        raise RefError("DER: truncated")
    n = Node()
    n.start = off
    ident = b[off]
    n.cls = ident >> 6
    n.cons = bool(ident & 0x20)
    n.tag = ident & 0x1f
    p = off + 1
    if n.tag == 0x1f:
        n.tag = 0
        while True:
            c = b[p]
            p += 1
            n.tag = (n.tag << 7) | (c & 0x7f)
            if not c & 0x80:
                break
    l = b[p]
    p += 1
    if l == 0x80:
        raise RefError("DER: indefinite length")
    if l > 0x80:
        k = l & 0x7f
        l = int.from_bytes(b[p:p + k], "big")
        p += k
    n.hdr = p - off
    n.end = p + l
    if n.end > limit:
        raise RefError("DER: value overruns its container")
    n.kids = []
    if n.cons:
        q = p
        while q < n.end:
            k = der_parse(b, q, n.end, depth + 1)
            n.kids.append(k)
            q = k.end
    return n


def oid_str(c):
    if not c:
        return ""
    out = [str(min(c[0] // 40, 2)), str(c[0] - 40 * min(c[0] // 40, 2))]
    v = 0
    for x in c[1:]:
        v = (v << 7) | (x & 0x7f)
        if not x & 0x80:
            out.append(str(v))
            v = 0
    return ".".join(out)


# ----------------------------------------------------------------------------
# PE
# ----------------------------------------------------------------------------
def pe_layout(d):
    if len(d) < 0x40 or d[:2] != b"MZ":
        raise RefError("PE: no MZ header")
    lfanew = u32(d, 0x3c)
    if lfanew + 24 > len(d) or d[lfanew:lfanew + 4] != b"PE\0\0":
        raise RefError("PE: no PE signature at e_lfanew")
    coff = lfanew + 4
    nsec = u16(d, coff + 2)
    optsize = u16(d, coff + 16)
    opt = coff + 20
    magic = u16(d, opt)
    if magic == 0x10b:
        plus = False
    elif magic == 0x20b:
        plus = True
    else:
        raise RefError("PE: unknown optional header magic")
    L = {}
    L["lfanew"] = lfanew
    L["plus"] = plus
    L["opt"] = opt
    L["checksum_off"] = opt + 64
    L["section_alignment"] = u32(d, opt + 32)
    L["file_alignment"] = u32(d, opt + 36)
    L["size_of_headers"] = u32(d, opt + 60)
    nd_off = opt + (108 if plus else 92)
    L["ndirs"] = u32(d, nd_off)
    dd = nd_off + 4
    if L["ndirs"] < 5:
        raise RefError("PE: no certificate table data directory")
    L["certdir_off"] = dd + 8 * 4
    L["cert_addr"] = u32(d, L["certdir_off"])
    L["cert_size"] = u32(d, L["certdir_off"] + 4)
    sec = opt + optsize
    L["sectab"] = sec
    secs = []
    for i in range(nsec):
        o = sec + 40 * i
        secs.append({"name": d[o:o + 8], "vsize": u32(d, o + 8), "vaddr": u32(d, o + 12),
                     "rawsize": u32(d, o + 16), "rawptr": u32(d, o + 20), "idx": i})
    L["sections"] = secs
    return L


def pe_image_hash(d, L, alg):
    """Authenticode_PE "Calculating the PE Image Hash", steps 3-15."""
    h = HASHES[alg]()
    co, cd = L["checksum_off"], L["certdir_off"]
    soh = L["size_of_headers"]
    h.update(d[:co])                       # step 3
    h.update(d[co + 4:cd])                 # steps 4-5
    h.update(d[cd + 8:soh])                # step 7
    total = soh                            # step 8
    tab = [s for s in L["sections"] if s["rawsize"] != 0]   # step 9
    tab.sort(key=lambda s: s["rawptr"])    # step 10
    for s in tab:                          # steps 11-13
        h.update(d[s["rawptr"]:s["rawptr"] + s["rawsize"]])
        total += s["rawsize"]
    fsize = len(d)                         # step 14
    if fsize > total:
        extra = fsize - (L["cert_size"] + total)
        if extra < 0:
            raise RefError("PE: certificate table larger than the data after the sections")
        h.update(d[total:total + extra])
    return h.hexdigest(), total


def pe_checksum(d, L):
    """imagehlp CheckSumMappedFile: 16-bit one's-complement style sum of the
    file taken as little-endian words with the CheckSum field as zero, folded
    to 16 bits, plus the file length."""
    co = L["checksum_off"]
    buf = bytearray(d)
    buf[co:co + 4] = b"\0\0\0\0"
    if len(buf) & 1:
        buf.append(0)
    total = 0
    # sum in big blocks: struct.iter_unpack is fast enough for MiB-size files
    n = len(buf) // 2
    total = sum(struct.unpack("<%dH" % n, bytes(buf)))
    while total >> 16:
        total = (total & 0xffff) + (total >> 16)
    return (total + len(d)) & 0xffffffff


def pe_page_hashes(d, L, alg):
    """SpcPageHashes content: (offset u32, digest) for the header page, every
    4096-byte page of every section's raw data (short pages zero-padded), and
    the terminator (end of last section, zero digest)."""
    page = 4096
    hl = HASHES[alg]().digest_size
    co, cd = L["checksum_off"], L["certdir_off"]
    soh = L["size_of_headers"]
    if soh > page:
        raise RefError("page hashes: headers larger than one page")
    h = HASHES[alg]()
    h.update(d[:co])
    h.update(d[co + 4:cd])
    h.update(d[cd + 8:soh])
    h.update(b"\0" * (page - soh))
    out = [struct.pack("<I", 0) + h.digest()]
    last = soh
    for s in L["sections"]:
        rs, ro = s["rawsize"], s["rawptr"]
        if rs == 0:
            continue
        pos = 0
        while pos < rs:
            chunk = d[ro + pos:ro + min(pos + page, rs)]
            h = HASHES[alg]()
            h.update(chunk)
            h.update(b"\0" * (page - len(chunk)))
            out.append(struct.pack("<I", ro + pos) + h.digest())
            pos += page
        last = ro + rs
    out.append(struct.pack("<I", last) + b"\0" * hl)
    return b"".join(out)


def pe_cert_table(d, L):
    """Attribute certificate table entries (PE/COFF spec 5.7)."""
    addr, size = L["cert_addr"], L["cert_size"]
    res = {"addr": addr, "size": size, "entries": [], "problems": []}
    if addr == 0 and size == 0:
        return res
    if addr % 8:
        res["problems"].append("table-not-8-aligned")
    if addr + size != len(d):
        res["problems"].append("table-not-at-end-of-file")
    if addr + size > len(d):
        res["problems"].append("table-overruns-file")
        return res
    p = addr
    end = addr + size
    while p + 8 <= end:
        dw = u32(d, p)
        rev = u16(d, p + 4)
        typ = u16(d, p + 6)
        if dw < 8 or p + dw > end:
            res["problems"].append("entry-length-bad")
            break
        res["entries"].append({"off": p + 8, "len": dw - 8, "rev": rev, "type": typ})
        p += (dw + 7) & ~7
    if p != end and "entry-length-bad" not in res["problems"]:
        res["problems"].append("entries-do-not-fill-table")
    return res


def op_pe(req):
    d = open(req["path"], "rb").read()
    L = pe_layout(d)
    res = {"size": len(d), "lfanew": L["lfanew"], "plus": L["plus"], "checksum_off": L["checksum_off"],
           "checksum_field": u32(d, L["checksum_off"]), "checksum_ref": pe_checksum(d, L),
           "nsections": len(L["sections"]), "size_of_headers": L["size_of_headers"],
           "section_alignment": L["section_alignment"]}
    res["cert"] = pe_cert_table(d, L)
    res["image_hash"] = {}
    for alg in req.get("algs", []):
        hx, total = pe_image_hash(d, L, alg)
        res["image_hash"][alg] = hx
        res["sum_of_bytes_hashed"] = total
    res["page_hashes"] = {}
    for alg in req.get("page_algs", []):
        res["page_hashes"][alg] = pe_page_hashes(d, L, alg).hex()
    return res


# ----------------------------------------------------------------------------
# APK signature scheme v2
# ----------------------------------------------------------------------------
def zip_eocd(d):
    # EOCD without zip64, comment allowed
    lo = max(0, len(d) - 22 - 65535)
    p = d.rfind(b"PK\x05\x06", lo)
    while p >= 0:
        if p + 22 <= len(d) and p + 22 + u16(d, p + 20) == len(d):
            return p
        p = d.rfind(b"PK\x05\x06", lo, p)
    raise RefError("ZIP: end of central directory not found")


def lp_slices(b):
    """sequence of uint32-length-prefixed elements"""
    out = []
    p = 0
    while p < len(b):
        if p + 4 > len(b):
            raise RefError("APK: truncated length prefix")
        n = u32(b, p)
        p += 4
        if p + n > len(b):
            raise RefError("APK: length-prefixed element overruns")
        out.append(b[p:p + n])
        p += n
    return out


def lp_one(b, p):
    n = u32(b, p)
    if p + 4 + n > len(b):
        raise RefError("APK: length-prefixed element overruns")
    return b[p + 4:p + 4 + n], p + 4 + n


APK_ALGS = {0x0101: ("rsa-pss", "sha256"), 0x0102: ("rsa-pss", "sha512"), 0x0103: ("rsa-pkcs1", "sha256"),
            0x0104: ("rsa-pkcs1", "sha512"), 0x0201: ("ecdsa", "sha256"), 0x0202: ("ecdsa", "sha512"),
            0x0301: ("dsa", "sha256")}


def apk_top_digest(d, sb_start, cd_off, eocd_off, alg):
    """Integrity-protected contents: section 1 = [0, signing block), section 3
    = central directory, section 4 = EOCD with the central directory offset
    replaced by the signing block offset; each section cut into 1 MiB chunks."""
    eocd = bytearray(d[eocd_off:])
    struct.pack_into("<I", eocd, 16, sb_start)
    sections = [d[:sb_start], d[cd_off:eocd_off], bytes(eocd)]
    digests = []
    M = 1 << 20
    for s in sections:
        for p in range(0, len(s), M):
            c = s[p:p + M]
            h = HASHES[alg]()
            h.update(b"\xa5" + struct.pack("<I", len(c)))
            h.update(c)
            digests.append(h.digest())
    h = HASHES[alg]()
    h.update(b"\x5a" + struct.pack("<I", len(digests)))
    h.update(b"".join(digests))
    return h.hexdigest(), len(digests)


def op_apk(req):
    d = open(req["path"], "rb").read()
    eocd = zip_eocd(d)
    cd_off = u32(d, eocd + 16)
    cd_size = u32(d, eocd + 12)
    if cd_off + cd_size != eocd:
        raise RefError("ZIP: central directory does not end at the end record")
    if cd_off < 32 or d[cd_off - 16:cd_off] != b"APK Sig Block 42":
        return {"has_block": False}
    size2 = u64(d, cd_off - 24)
    sb_start = cd_off - size2 - 8
    if sb_start < 0:
        raise RefError("APK: signing block size overruns the file")
    size1 = u64(d, sb_start)
    if size1 != size2:
        raise RefError("APK: signing block sizes differ")
    pairs = d[sb_start + 8:cd_off - 24]
    p = 0
    ids = {}
    order = []
    while p < len(pairs):
        n = u64(pairs, p)
        if n < 4 or p + 8 + n > len(pairs):
            raise RefError("APK: bad ID-value pair length")
        pid = u32(pairs, p + 8)
        ids[pid] = pairs[p + 12:p + 8 + n]
        order.append("%#x" % pid)
        p += 8 + n
    res = {"has_block": True, "block_start": sb_start, "cd_off": cd_off, "eocd_off": eocd, "ids": order,
           "chunks": {}, "signers": []}
    if 0x7109871a not in ids:
        res["has_v2"] = False
        return res
    res["has_v2"] = True
    v2 = ids[0x7109871a]
    signers_seq, q = lp_one(v2, 0)
    if q != len(v2):
        raise RefError("APK: trailing bytes after the signer sequence")
    top = {}
    for signer in lp_slices(signers_seq):
        signed_data, q = lp_one(signer, 0)
        sigs_seq, q = lp_one(signer, q)
        pubkey, q = lp_one(signer, q)
        if q != len(signer):
            raise RefError("APK: trailing bytes in signer")
        dig_seq, r = lp_one(signed_data, 0)
        cert_seq, r = lp_one(signed_data, r)
        attr_seq, r = lp_one(signed_data, r)
        tail = signed_data[r:]
        S = {"signed_data": signed_data.hex(), "pubkey": pubkey.hex(), "digests": [], "certs": [], "signatures": [],
             "attrs": len(lp_slices(attr_seq)), "signed_data_tail": tail.hex()}
        for e in lp_slices(dig_seq):
            aid = u32(e, 0)
            dg, _ = lp_one(e, 4)
            ent = {"alg": aid, "digest": dg.hex()}
            if aid in APK_ALGS:
                ha = APK_ALGS[aid][1]
                if ha not in top:
                    top[ha] = apk_top_digest(d, sb_start, cd_off, eocd, ha)
                ent["hash"] = ha
                ent["ref"] = top[ha][0]
                ent["chunks"] = top[ha][1]
            S["digests"].append(ent)
        for c in lp_slices(cert_seq):
            S["certs"].append(c.hex())
        for e in lp_slices(sigs_seq):
            aid = u32(e, 0)
            sg, _ = lp_one(e, 4)
            ent = {"alg": aid, "sig": sg.hex()}
            if aid in APK_ALGS:
                ent["scheme"], ent["hash"] = APK_ALGS[aid]
            S["signatures"].append(ent)
        res["signers"].append(S)
    return res


# ----------------------------------------------------------------------------
# MS-CFB reader + MSI digest
# ----------------------------------------------------------------------------
ENDOFCHAIN = 0xFFFFFFFE
FREESECT = 0xFFFFFFFF
NOSTREAM = 0xFFFFFFFF


class CFB:
    def __init__(self, d):
        self.d = d
        if d[:8] != bytes.fromhex("d0cf11e0a1b11ae1"):
            raise RefError("CFB: bad magic")
        self.major = u16(d, 0x1a)
        self.ss = 1 << u16(d, 0x1e)
        self.mss = 1 << u16(d, 0x20)
        nfat = u32(d, 0x2c)
        dirstart = u32(d, 0x30)
        self.cutoff = u32(d, 0x38)
        minifat_start = u32(d, 0x3c)
        nminifat = u32(d, 0x40)
        difat_start = u32(d, 0x44)
        ndifat = u32(d, 0x48)
        difat = [u32(d, 0x4c + 4 * i) for i in range(109)]
        s = difat_start
        seen = 0
        per = self.ss // 4 - 1
        while s not in (ENDOFCHAIN, FREESECT) and seen <= ndifat + 1:
            sec = self.sector(s)
            difat += [u32(sec, 4 * i) for i in range(per)]
            s = u32(sec, 4 * per)
            seen += 1
        fat = []
        for s in difat:
            if s == FREESECT or len(fat) >= nfat * (self.ss // 4):
                continue
            sec = self.sector(s)
            fat += list(struct.unpack("<%dI" % (self.ss // 4), sec))
        self.fat = fat
        dirbytes = self.chain(dirstart)
        self.ents = []
        for i in range(0, len(dirbytes), 128):
            e = dirbytes[i:i + 128]
            nl = u16(e, 0x40)
            ent = {"rawname": e[:max(nl - 2, 0)], "namelen": nl, "type": e[0x42], "left": u32(e, 0x44), "right": u32(e, 0x48),
                   "child": u32(e, 0x4c), "clsid": e[0x50:0x60], "state": e[0x60:0x64], "ctime": e[0x64:0x6c],
                   "mtime": e[0x6c:0x74], "start": u32(e, 0x74), "size": u64(e, 0x78), "size4": e[0x78:0x7c]}
            if self.major == 3:
                ent["size"] &= 0xffffffff
            self.ents.append(ent)
        if not self.ents or self.ents[0]["type"] != 5:
            raise RefError("CFB: first directory entry is not the root")
        root = self.ents[0]
        self.mini = self.chain(root["start"])[:root["size"]] if root["size"] else b""
        mf = self.chain(minifat_start) if nminifat and minifat_start != ENDOFCHAIN else b""
        self.minifat = list(struct.unpack("<%dI" % (len(mf) // 4), mf)) if mf else []

    def sector(self, n):
        o = (n + 1) * self.ss
        if o + self.ss > len(self.d):
            # a short last sector is tolerated by readers; pad with zeros
            return self.d[o:o + self.ss].ljust(self.ss, b"\0")
        return self.d[o:o + self.ss]

    def chain(self, s):
        out = []
        n = 0
        while s != ENDOFCHAIN:
            if s >= len(self.fat) or n > len(self.fat):
                raise RefError("CFB: broken sector chain")
            out.append(self.sector(s))
            s = self.fat[s]
            n += 1
        return b"".join(out)

    def stream(self, ent):
        size = ent["size"]
        if size == 0:
            return b""
        if size < self.cutoff:
            out = []
            s = ent["start"]
            n = 0
            while s != ENDOFCHAIN:
                if s >= len(self.minifat) or n > len(self.minifat):
                    raise RefError("CFB: broken mini chain")
                out.append(self.mini[s * self.mss:(s + 1) * self.mss])
                s = self.minifat[s]
                n += 1
            data = b"".join(out)
        else:
            data = self.chain(ent["start"])
        if len(data) < size:
            raise RefError("CFB: stream shorter than its size")
        return data[:size]

    def children(self, ent):
        out = []
        stack = [ent["child"]]
        seen = set()
        while stack:
            i = stack.pop()
            if i == NOSTREAM:
                continue
            if i in seen or i >= len(self.ents):
                raise RefError("CFB: broken directory tree")
            seen.add(i)
            e = self.ents[i]
            out.append(e)
            stack.append(e["left"])
            stack.append(e["right"])
        return out


SIG_NAME = "\x05DigitalSignature".encode("utf-16-le")
SIGEX_NAME = "\x05MsiDigitalSignatureEx".encode("utf-16-le")


def msi_sorted(cfb, ent, is_root):
    kids = cfb.children(ent)
    # order: plain byte comparison of the stored (UTF-16LE) name bytes
    kids.sort(key=lambda e: e["rawname"])
    if is_root:
        kids = [k for k in kids if k["rawname"] not in (SIG_NAME, SIGEX_NAME)]
    return kids


def msi_hash_dir(cfb, ent, h, is_root, trace):
    for k in msi_sorted(cfb, ent, is_root):
        if k["type"] == 2:
            h.update(cfb.stream(k))
            trace.append(k["rawname"].hex())
        elif k["type"] == 1:
            trace.append("[" + k["rawname"].hex())
            msi_hash_dir(cfb, k, h, False, trace)
            trace.append("]")
    h.update(ent["clsid"])


def msi_prehash_meta(ent, h):
    if ent["type"] != 5:
        h.update(ent["rawname"])
    if ent["type"] != 2:
        h.update(ent["clsid"])
    else:
        h.update(ent["size4"])
    h.update(ent["state"])
    if ent["type"] != 5:
        h.update(ent["ctime"])
        h.update(ent["mtime"])


def msi_prehash_dir(cfb, ent, h, is_root):
    msi_prehash_meta(ent, h)
    for k in msi_sorted(cfb, ent, is_root):
        if k["type"] == 2:
            msi_prehash_meta(k, h)
        elif k["type"] == 1:
            msi_prehash_dir(cfb, k, h, False)


def op_msi(req):
    d = open(req["path"], "rb").read()
    cfb = CFB(d)
    root = cfb.ents[0]
    sig = sigex = None
    for k in cfb.children(root):
        if k["type"] == 2 and k["rawname"] == SIG_NAME:
            sig = cfb.stream(k)
        if k["type"] == 2 and k["rawname"] == SIGEX_NAME:
            sigex = cfb.stream(k)
    res = {"has_sig": sig is not None, "has_ex": sigex is not None, "digest": {}, "prehash": {}, "digest_plain": {}}
    if sig is not None:
        res["sig"] = sig.hex()
    if sigex is not None:
        res["ex"] = sigex.hex()
    for alg in req.get("algs", []):
        trace = []
        pre = None
        if sigex is not None:
            ph = HASHES[alg]()
            msi_prehash_dir(cfb, root, ph, True)
            pre = ph.digest()
            res["prehash"][alg] = pre.hex()
        h = HASHES[alg]()
        if pre is not None:
            h.update(pre)
        msi_hash_dir(cfb, root, h, True, trace)
        res["digest"][alg] = h.hexdigest()
        res["order"] = trace
    return res


# ----------------------------------------------------------------------------
# CAB
# ----------------------------------------------------------------------------
def op_cab(req):
    d = open(req["path"], "rb").read()
    if d[:4] != b"MSCF":
        raise RefError("CAB: bad magic")
    cb_cabinet = u32(d, 8)
    coff_files = u32(d, 16)
    nfolders = u16(d, 26)
    flags = u16(d, 30)
    res = {"flags": flags, "cbCabinet": cb_cabinet, "size": len(d), "problems": []}
    if not flags & 4:
        res["signed"] = False
        return res
    cb_header = u16(d, 36)
    cb_folder = d[38]
    res["cbCFHeader"] = cb_header
    if cb_header != 20:
        res["problems"].append("reserve-size-not-20")
        res["signed"] = False
        return res
    # abReserve (20 bytes at 40): u2 0, u2 0x0010? , u4 offset, u4 size, 8 spare
    sig_off = u32(d, 44)
    sig_len = u32(d, 48)
    res["signed"] = sig_len != 0
    res["sig_off"], res["sig_len"] = sig_off, sig_len
    if sig_off != cb_cabinet:
        res["problems"].append("signature-not-at-cbCabinet")
    if sig_off + sig_len != len(d):
        res["problems"].append("signature-not-at-end-of-file")
    res["digest"] = {}
    for alg in req.get("algs", []):
        h = HASHES[alg]()
        h.update(d[0:4])        # signature
        # reserved1 (4..8) skipped
        h.update(d[8:16])       # cbCabinet, reserved2
        h.update(d[16:20])      # coffFiles
        h.update(d[20:26])      # reserved3, versions
        h.update(d[26:28])      # cFolders
        h.update(d[28:30])      # cFiles
        h.update(d[30:32])      # flags
        h.update(d[32:34])      # setID
        # iCabinet (34..36), cbCFHeader, cbCFFolder, cbCFData (36..40), abReserve[0:16] (40..56) skipped
        h.update(d[56:60])      # last four bytes of the reserve
        p = 60
        for fl in (1, 2):       # previous / next cabinet strings
            if flags & fl:
                for _ in range(2):
                    e = d.index(b"\0", p)
                    h.update(d[p:e + 1])
                    p = e + 1
        for _ in range(nfolders):
            h.update(d[p:p + 8])
            p += 8 + cb_folder
        if cb_folder == 0 and p != coff_files:
            res["problems"].append("folders-do-not-end-at-coffFiles")
        h.update(d[p:sig_off])
        res["digest"][alg] = h.hexdigest()
    res["sig"] = d[sig_off:sig_off + sig_len].hex()
    return res


# ----------------------------------------------------------------------------
# PowerShell family
# ----------------------------------------------------------------------------
PS_STYLES = {"hash": ("# ", ""), "xml": ("<!-- ", " -->"), "c": ("/* ", " */")}


def op_ps(req):
    d = open(req["path"], "rb").read()
    start, end = PS_STYLES[req["style"]]
    utf16 = d[:2] == b"\xff\xfe"
    enc = "utf-16-le" if utf16 else "utf-8"
    begin = ("\r\n" + start + "SIG # Begin signature block" + end + "\r\n").encode(enc)
    endm = (start + "SIG # End signature block" + end + "\r\n").encode(enc)
    pos = d.rfind(begin)
    res = {"utf16": utf16, "size": len(d)}
    if pos < 0:
        res["signed"] = False
        return res
    if utf16 and pos % 2:
        raise RefError("PS: marker at odd offset in UTF-16 text")
    res["signed"] = True
    res["sig_pos"] = pos
    body = d[pos + len(begin):]
    epos = body.find(endm)
    if epos < 0:
        raise RefError("PS: no end marker")
    res["trailing"] = len(body) - epos - len(endm)
    lines = body[:epos].decode(enc).split("\r\n")
    b64 = []
    for ln in lines:
        if ln == "":
            continue
        if not ln.startswith(start) or not ln.endswith(end):
            raise RefError("PS: malformed signature line")
        b64.append(ln[len(start):len(ln) - len(end)])
    res["line_lengths"] = sorted(set(len(x) for x in b64[:-1])) if len(b64) > 1 else []
    res["sig"] = base64.b64decode("".join(b64), validate=True).hex()
    text = d[:pos]
    if utf16:
        hashed = text                      # already UTF-16LE, BOM included
    else:
        hashed = text.decode("utf-8").encode("utf-16-le")   # a UTF-8 BOM becomes U+FEFF
    res["digest"] = {alg: HASHES[alg](hashed).hexdigest() for alg in req.get("algs", [])}
    return res


# ----------------------------------------------------------------------------
# RPM
# ----------------------------------------------------------------------------
def rpm_header(d, off):
    if d[off:off + 3] != b"\x8e\xad\xe8":
        raise RefError("RPM: bad header magic")
    nindex, hsize = struct.unpack_from(">II", d, off + 8)
    idx = off + 16
    store = idx + 16 * nindex
    ents = {}
    for i in range(nindex):
        tag, typ, o, cnt = struct.unpack_from(">IIII", d, idx + 16 * i)
        ents[tag] = (typ, o, cnt)
    end = store + hsize
    return ents, store, end


def rpm_value(d, store, ent, end):
    typ, o, cnt = ent
    p = store + o
    if typ == 7:      # BIN
        return d[p:p + cnt]
    if typ == 6:      # STRING
        e = d.index(b"\0", p)
        return d[p:e]
    if typ == 4:      # INT32
        return list(struct.unpack_from(">%dI" % cnt, d, p))
    if typ == 5:      # INT64
        return list(struct.unpack_from(">%dQ" % cnt, d, p))
    return None


def op_rpm(req):
    d = open(req["path"], "rb").read()
    if d[:4] != b"\xed\xab\xee\xdb":
        raise RefError("RPM: bad lead magic")
    sig_ents, sig_store, sig_end = rpm_header(d, 96)
    hdr_start = (sig_end + 7) & ~7
    hdr_ents, hdr_store, hdr_end = rpm_header(d, hdr_start)
    header = d[hdr_start:hdr_end]
    rest = d[hdr_start:]
    res = {"header_start": hdr_start, "header_end": hdr_end, "size": len(d), "tags": sorted(sig_ents.keys()), "checks": {}}

    def val(tag):
        if tag not in sig_ents:
            return None
        return rpm_value(d, sig_store, sig_ents[tag], sig_end)
    v = val(269)  # SHA1HEADER
    if v is not None:
        res["checks"]["sha1header"] = [v.decode("latin1"), hashlib.sha1(header).hexdigest()]
    v = val(273)  # SHA256HEADER
    if v is not None:
        res["checks"]["sha256header"] = [v.decode("latin1"), hashlib.sha256(header).hexdigest()]
    v = val(1004)  # MD5 of header+payload
    if v is not None:
        res["checks"]["md5"] = [v.hex(), hashlib.md5(rest).hexdigest()]
    v = val(1000)  # SIZE
    if v is not None:
        res["checks"]["size"] = [str(v[0]), str(len(rest))]
    v = val(270)  # LONGSIZE
    if v is not None:
        res["checks"]["longsize"] = [str(v[0]), str(len(rest))]
    for tag, name in ((268, "rsaheader"), (267, "dsaheader"), (1002, "pgp"), (1005, "gpg")):
        v = val(tag)
        if v is not None:
            res[name] = v.hex()
    return res


# ----------------------------------------------------------------------------
# DEB (ar archive + dpkg-sig style _gpg member)
# ----------------------------------------------------------------------------
def op_deb(req):
    d = open(req["path"], "rb").read()
    if d[:8] != b"!<arch>\n":
        raise RefError("ar: bad magic")
    p = 8
    members = []
    while p < len(d):
        if p + 60 > len(d):
            raise RefError("ar: truncated member header")
        hd = d[p:p + 60]
        if hd[58:60] != b"`\n":
            raise RefError("ar: bad member header terminator")
        name = hd[:16].decode("latin1").rstrip(" ")
        if name.endswith("/"):
            name = name[:-1]
        size = int(hd[48:58].decode("latin1").strip())
        data = d[p + 60:p + 60 + size]
        if len(data) != size:
            raise RefError("ar: truncated member data")
        members.append({"name": name, "size": size, "off": p + 60, "md5": hashlib.md5(data).hexdigest(),
                        "sha1": hashlib.sha1(data).hexdigest()})
        p += 60 + size + (size & 1)
    res = {"members": members, "sigs": []}
    for m in members:
        if not m["name"].startswith("_gpg"):
            continue
        text = d[m["off"]:m["off"] + m["size"]].decode("utf-8")
        S = {"member": m["name"], "off": m["off"], "size": m["size"], "problems": [], "fields": {}}
        lines = text.split("\n")
        listed = []
        in_files = False
        body = False
        for ln in lines:
            if ln.startswith("-----BEGIN PGP SIGNATURE"):
                break
            if not body:
                if ln == "":
                    body = True
                continue
            if in_files and (ln.startswith("\t") or ln.startswith(" ")):
                f = ln.split()
                if len(f) != 4:
                    S["problems"].append("bad-files-line")
                else:
                    listed.append(f)
                continue
            in_files = False
            if ":" in ln:
                k, v = ln.split(":", 1)
                S["fields"][k] = v.strip()
                if k == "Files":
                    in_files = True
        # dpkg-sig --verify checks every listed file against the member of that
        # name; the package proper (debian-binary, control.tar*, data.tar*)
        # must be listed, earlier signature members may be
        prior = members[:members.index(m)]
        have = {x["name"]: [x["md5"], x["sha1"], str(x["size"]), x["name"]] for x in prior}
        S["listed"] = listed
        S["want"] = [have[n] for n in sorted(have)]
        names = [f[3] for f in listed]
        if len(set(names)) != len(names):
            S["problems"].append("duplicate-files-line")
        for f in listed:
            if f[3] not in have:
                S["problems"].append("listed-member-missing")
            elif have[f[3]] != f:
                S["problems"].append("files-lines-differ")
        for x in prior:
            if not x["name"].startswith("_gpg") and x["name"] not in names:
                S["problems"].append("package-member-not-listed")
        res["sigs"].append(S)
    return res


# ----------------------------------------------------------------------------
def op_ping(req):
    return {"pong": True}


OPS = {"pe": op_pe, "apk": op_apk, "msi": op_msi, "cab": op_cab, "ps": op_ps, "rpm": op_rpm, "deb": op_deb, "ping": op_ping}


def main():
    out = sys.stdout
    for line in sys.stdin:
        line = line.strip()
        if not line:
            continue
        req = None
        try:
            req = json.loads(line)
            res = OPS[req["op"]](req)
            res["ok"] = True
        except RefError as e:
            res = {"ok": False, "err": str(e)}
        except Exception as e:  # malformed input the reference cannot read
            res = {"ok": False, "err": "%s: %s" % (type(e).__name__, e)}
        if isinstance(req, dict) and "id" in req:
            res["id"] = req["id"]
        out.write(json.dumps(res) + "\n")
        out.flush()


if __name__ == "__main__":
    main()

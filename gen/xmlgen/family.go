package xmlgen

import (
	"bytes"
	"fmt"
	"strings"
)

// ---------- a tiny document model for the generated family ----------

type NsDecl struct{ Prefix, URI string } // Prefix "" is the default namespace

type GAttr struct {
	Prefix, Local string
	Raw           string // as written between the quotes
	Quote         byte   // 0 = double quote
}

// Elem is a generated element. Kids are *Elem or Raw (text, CDATA, comment, PI as written).
type Elem struct {
	Prefix, Local string
	Decls         []NsDecl
	Attrs         []GAttr
	Kids          []any
	StartEnd      bool   // write <a></a> instead of <a/> when there are no kids
	TagSpace      string // white space before the tag close
}

type Raw string

type Doc struct {
	Prolog string
	Root   *Elem
	Epilog string
}

func (e *Elem) qname() string {
	if e.Prefix == "" {
		return e.Local
	}
	return e.Prefix + ":" + e.Local
}

func (e *Elem) write(b *bytes.Buffer) {
	b.WriteByte('<')
	b.WriteString(e.qname())
	for _, d := range e.Decls {
		if d.Prefix == "" {
			fmt.Fprintf(b, ` xmlns="%s"`, d.URI)
		} else {
			fmt.Fprintf(b, ` xmlns:%s="%s"`, d.Prefix, d.URI)
		}
	}
	for _, a := range e.Attrs {
		q := a.Quote
		if q == 0 {
			q = '"'
		}
		b.WriteByte(' ')
		if a.Prefix != "" {
			b.WriteString(a.Prefix + ":")
		}
		b.WriteString(a.Local)
		b.WriteByte('=')
		b.WriteByte(q)
		b.WriteString(a.Raw)
		b.WriteByte(q)
	}
	b.WriteString(e.TagSpace)
	if len(e.Kids) == 0 && !e.StartEnd {
		b.WriteString("/>")
		return
	}
	b.WriteByte('>')
	for _, k := range e.Kids {
		switch v := k.(type) {
		case *Elem:
			v.write(b)
		case Raw:
			b.WriteString(string(v))
		}
	}
	b.WriteString("</" + e.qname() + e.TagSpace + ">")
}

func (d Doc) Bytes() []byte {
	var b bytes.Buffer
	b.WriteString(d.Prolog)
	d.Root.write(&b)
	b.WriteString(d.Epilog)
	return b.Bytes()
}

// wellFormed checks the namespace constraints the generator could break:
// every prefix in scope, no attribute twice by expanded name, no xmlns:p="".
func wellFormed(e *Elem, scope map[string]string) bool {
	sc := map[string]string{}
	for k, v := range scope {
		sc[k] = v
	}
	seen := map[string]bool{}
	for _, d := range e.Decls {
		if seen[d.Prefix] {
			return false
		}
		seen[d.Prefix] = true
		if d.Prefix != "" && d.URI == "" {
			return false
		}
		sc[d.Prefix] = d.URI
	}
	if e.Prefix != "" {
		if _, ok := sc[e.Prefix]; !ok {
			return false
		}
	}
	names := map[string]bool{}
	for _, a := range e.Attrs {
		key := a.Local
		if a.Prefix == "xml" {
			key = "{xml}" + a.Local
		} else if a.Prefix != "" {
			u, ok := sc[a.Prefix]
			if !ok {
				return false
			}
			key = "{" + u + "}" + a.Local
		}
		if names[key] {
			return false
		}
		names[key] = true
	}
	for _, k := range e.Kids {
		if c, ok := k.(*Elem); ok && !wellFormed(c, sc) {
			return false
		}
	}
	return true
}

// Case is one generated document.
type Case struct {
	Family string
	Index  int
	Doc    []byte
	Desc   string
}

// Family is a finite, indexable set of documents. At returns ok=false for index
// values whose option combination is not namespace-well-formed (those are not
// documents and are not counted).
type Family struct {
	Name string
	N    int
	At   func(i int) (Case, bool)
}

// mixed-radix decode, least significant digit first
func digits(i int, radix []int) []int {
	d := make([]int, len(radix))
	for k, r := range radix {
		d[k] = i % r
		i /= r
	}
	return d
}

func product(radix []int) int {
	n := 1
	for _, r := range radix {
		n *= r
	}
	return n
}

// ---------- namespace family ----------

// prefix p is bound to urn:z and q to urn:a, so that prefix order and URI order disagree
var declMenu = [][]NsDecl{
	{},
	{{"", "urn:d"}},
	{{"p", "urn:z"}},
	{{"p", "urn:z"}, {"q", "urn:a"}},
	{{"p", "urn:a"}}, // p bound to q's URI: redeclaration, or one URI under two prefixes
	{{"", ""}},
	{{"q", "urn:a"}},
	{{"q", "urn:a"}, {"p", "urn:z"}},
	{{"", "urn:e"}},
	{{"", "urn:d"}, {"p", "urn:z"}},
}
var declNames = []string{"-", "xmlns=d", "p=z", "p=z,q=a", "p=a", `xmlns=""`, "q=a", "q=a,p=z", "xmlns=e", "xmlns=d,p=z"}
var prefixMenu = []string{"", "p", "q"}
var nsAttrMenu = [][]GAttr{
	{},
	{{Prefix: "p", Local: "x", Raw: "1"}},
	{{Local: "x", Raw: "1"}},
	{{Prefix: "q", Local: "y", Raw: "2"}, {Prefix: "p", Local: "x", Raw: "1"}},
}

// Shapes: every tree of depth <= 3 with <= 2 children per node (13 shapes) plus
// the 3-children root, as parent index lists
// (element 0 is the root; names r,a,b,c,...). Simplest first.
type Shape struct {
	Name    string
	Parents []int
}

var Shapes = []Shape{
	{"r", []int{-1}},
	{"r(a)", []int{-1, 0}},
	{"r(a(c))", []int{-1, 0, 1}},
	{"r(a,b)", []int{-1, 0, 0}},
	{"r(a,b,c)", []int{-1, 0, 0, 0}},
	{"r(a(c),b)", []int{-1, 0, 1, 0}},
	{"r(a,b(c))", []int{-1, 0, 0, 2}},
	{"r(a(c,d))", []int{-1, 0, 1, 1}},
	{"r(a(c),b(d))", []int{-1, 0, 1, 0, 3}},
	{"r(a(c,d),b)", []int{-1, 0, 1, 1, 0}},
	{"r(a,b(c,d))", []int{-1, 0, 0, 2, 2}},
	{"r(a(c,d),b(e))", []int{-1, 0, 1, 1, 0, 4}},
	{"r(a(c),b(d,e))", []int{-1, 0, 1, 0, 3, 3}},
	{"r(a(c,d),b(e,f))", []int{-1, 0, 1, 1, 0, 4, 4}},
}

var elemNames = []string{"r", "a", "b", "c", "d", "e", "f"}

func nsFamily(shape Shape, nDecl, nPrefix, nAttr int) Family {
	ne := len(shape.Parents)
	var radix []int
	for i := 0; i < ne; i++ {
		radix = append(radix, nDecl, nPrefix, nAttr)
	}
	name := fmt.Sprintf("ns/%s/decl%d.prefix%d.attr%d", shape.Name, nDecl, nPrefix, nAttr)
	return Family{Name: name, N: product(radix), At: func(i int) (Case, bool) {
		d := digits(i, radix)
		els := make([]*Elem, ne)
		var desc []string
		for k := 0; k < ne; k++ {
			di, pi, ai := d[3*k], d[3*k+1], d[3*k+2]
			els[k] = &Elem{Prefix: prefixMenu[pi], Local: elemNames[k], Decls: declMenu[di], Attrs: nsAttrMenu[ai]}
			desc = append(desc, fmt.Sprintf("%s[%s;%s;attrs%d]", elemNames[k], prefixMenu[pi], declNames[di], ai))
		}
		for k := 1; k < ne; k++ {
			p := els[shape.Parents[k]]
			p.Kids = append(p.Kids, els[k])
		}
		if !wellFormed(els[0], map[string]string{}) {
			return Case{}, false
		}
		return Case{Family: name, Index: i, Doc: Doc{Root: els[0]}.Bytes(), Desc: strings.Join(desc, " ")}, true
	}}
}

// ---------- attribute order family ----------

var attrPool = []GAttr{
	{Local: "a", Raw: "1"}, {Local: "b", Raw: "2"},
	{Prefix: "p", Local: "a", Raw: "3"}, {Prefix: "p", Local: "b", Raw: "4"},
	{Prefix: "q", Local: "a", Raw: "5"}, {Prefix: "q", Local: "c", Raw: "6"},
	{Prefix: "xml", Local: "lang", Raw: "en"}, {Prefix: "xml", Local: "space", Raw: "preserve"},
}

type binding struct {
	name  string
	decls []NsDecl
	extra []GAttr // attributes on the parent
}

var bindings = []binding{
	{"p=z,q=a", []NsDecl{{"p", "urn:z"}, {"q", "urn:a"}}, nil},
	{"p=a,q=z", []NsDecl{{"p", "urn:a"}, {"q", "urn:z"}}, nil},
	{"p=a,q=a", []NsDecl{{"p", "urn:a"}, {"q", "urn:a"}}, nil},
	{"d,p=z,q=a", []NsDecl{{"", "urn:d"}, {"p", "urn:z"}, {"q", "urn:a"}}, nil},
	{"p=z,q=a,parent-xml:lang", []NsDecl{{"p", "urn:z"}, {"q", "urn:a"}}, []GAttr{{Prefix: "xml", Local: "lang", Raw: "de"}}},
}

// ordered selections of k distinct items from n
func selections(n, k int) [][]int {
	var out [][]int
	var cur []int
	used := make([]bool, n)
	var rec func()
	rec = func() {
		if len(cur) == k {
			out = append(out, append([]int(nil), cur...))
			return
		}
		for i := 0; i < n; i++ {
			if !used[i] {
				used[i] = true
				cur = append(cur, i)
				rec()
				cur = cur[:len(cur)-1]
				used[i] = false
			}
		}
	}
	rec()
	return out
}

func attrFamily(pool, maxAttrs int) Family {
	var sels [][]int
	for k := 0; k <= maxAttrs; k++ {
		sels = append(sels, selections(pool, k)...)
	}
	radix := []int{len(sels), len(bindings), 2}
	name := fmt.Sprintf("attr-order/pool%d.max%d", pool, maxAttrs)
	return Family{Name: name, N: product(radix), At: func(i int) (Case, bool) {
		d := digits(i, radix)
		b := bindings[d[1]]
		e := &Elem{Local: "e"}
		for _, k := range sels[d[0]] {
			e.Attrs = append(e.Attrs, attrPool[k])
		}
		r := &Elem{Local: "r", Kids: []any{e}, Attrs: b.extra}
		where := "parent"
		if d[2] == 0 {
			r.Decls = b.decls
		} else {
			e.Decls = b.decls
			where = "self"
		}
		if !wellFormed(r, map[string]string{}) {
			return Case{}, false
		}
		return Case{Family: name, Index: i, Doc: Doc{Root: r}.Bytes(), Desc: fmt.Sprintf("attrs=%v bindings=%s declared-at=%s", sels[d[0]], b.name, where)}, true
	}}
}

// ---------- attribute value family ----------

type piece struct {
	name string
	raw  string
	dq   bool // legal inside double quotes
	sq   bool // legal inside single quotes
}

var attrPieces = []piece{
	{"plain", "v", true, true},
	{"lt-entity", "&lt;", true, true}, {"lt-charref", "&#60;", true, true},
	{"gt-literal", ">", true, true}, {"gt-entity", "&gt;", true, true},
	{"amp-entity", "&amp;", true, true}, {"amp-charref", "&#38;", true, true},
	{"dquote-entity", "&quot;", true, true}, {"dquote-literal", `"`, false, true}, {"dquote-charref", "&#34;", true, true},
	{"squote-literal", "'", true, false}, {"squote-entity", "&apos;", true, true}, {"squote-charref", "&#39;", true, true},
	{"tab-literal", "\t", true, true}, {"tab-charref", "&#9;", true, true},
	{"lf-literal", "\n", true, true}, {"lf-charref", "&#10;", true, true}, {"lf-hexref", "&#xA;", true, true},
	{"cr-literal", "\r", true, true}, {"cr-charref", "&#13;", true, true}, {"crlf-literal", "\r\n", true, true},
	{"nonascii-literal", "é", true, true}, {"nonascii-charref", "&#233;", true, true},
	{"astral-literal", "\U0001F600", true, true}, {"astral-charref", "&#x1F600;", true, true},
	{"blank", " ", true, true}, {"two-blanks", "  ", true, true},
}

func attrValueFamily(maxPieces int) Family {
	np := len(attrPieces)
	radix := []int{2}
	for k := 0; k < maxPieces; k++ {
		radix = append(radix, np+1) // 0 = no piece
	}
	name := fmt.Sprintf("attr-value/pieces%d", maxPieces)
	return Family{Name: name, N: product(radix), At: func(i int) (Case, bool) {
		d := digits(i, radix)
		q := byte('"')
		if d[0] == 1 {
			q = '\''
		}
		var raw strings.Builder
		var names []string
		gap := false
		for k := 1; k <= maxPieces; k++ {
			if d[k] == 0 {
				gap = true
				continue
			}
			if gap {
				return Case{}, false // pieces are left-aligned: one encoding per sequence
			}
			p := attrPieces[d[k]-1]
			if (q == '"' && !p.dq) || (q == '\'' && !p.sq) {
				return Case{}, false
			}
			raw.WriteString(p.raw)
			names = append(names, p.name)
		}
		r := &Elem{Local: "r", Attrs: []GAttr{{Local: "a", Raw: raw.String(), Quote: q}}}
		return Case{Family: name, Index: i, Doc: Doc{Root: r}.Bytes(), Desc: fmt.Sprintf("quote=%c value=%v", q, names)}, true
	}}
}

// ---------- text family ----------

var textPieces = []struct{ name, raw string }{
	{"plain", "t"}, {"blank", " "}, {"lf", "\n"}, {"tab", "\t"},
	{"amp-entity", "&amp;"}, {"lt-entity", "&lt;"}, {"gt-entity", "&gt;"}, {"gt-literal", ">"},
	{"dquote", `"`}, {"squote", "'"}, {"amp-charref", "&#38;"}, {"lt-charref", "&#60;"},
	{"cr-charref", "&#13;"}, {"cr-literal", "\r"}, {"crlf-literal", "\r\n"},
	{"nonascii-literal", "é"}, {"nonascii-charref", "&#233;"},
	{"cdata-plain", "<![CDATA[c]]>"}, {"cdata-markup", "<![CDATA[<&>]]>"}, {"cdata-empty", "<![CDATA[]]>"}, {"cdata-blank", "<![CDATA[ ]]>"},
	{"cdata-end-escaped", "]]&gt;"}, {"cdata-end-split", "<![CDATA[]]]]><![CDATA[>]]>"},
	{"child", "<e/>"}, {"comment", "<!--c-->"}, {"pi", "<?pi d?>"},
}

func textFamily(maxPieces int) Family {
	np := len(textPieces)
	var radix []int
	for k := 0; k < maxPieces; k++ {
		radix = append(radix, np+1)
	}
	name := fmt.Sprintf("text/pieces%d", maxPieces)
	return Family{Name: name, N: product(radix), At: func(i int) (Case, bool) {
		d := digits(i, radix)
		var kids []any
		var names []string
		gap := false
		for k := 0; k < maxPieces; k++ {
			if d[k] == 0 {
				gap = true
				continue
			}
			if gap {
				return Case{}, false
			}
			kids = append(kids, Raw(textPieces[d[k]-1].raw))
			names = append(names, textPieces[d[k]-1].name)
		}
		r := &Elem{Local: "r", Kids: kids, StartEnd: true}
		return Case{Family: name, Index: i, Doc: Doc{Root: r}.Bytes(), Desc: fmt.Sprintf("content=%v", names)}, true
	}}
}

// ---------- prolog / comments / PIs / tag forms ----------

var prologs = []string{
	"",
	`<?xml version="1.0"?>`,
	"<?xml version=\"1.0\" encoding=\"UTF-8\"?>\n",
	"\xef\xbb\xbf<?xml version=\"1.0\" encoding=\"utf-8\"?>\r\n",
	`<?xml version='1.0' encoding='UTF-8' standalone='yes'?>`,
	"<!--c-->",
	"<?pi d?>",
	"<?xml version=\"1.0\"?>\n<?pi d?>\n<!--c-->\n",
	"\n ",
	"\xef\xbb\xbf",
}
var epilogs = []string{"", "\n", "<!--c-->", "<?pi d?>", "\n<?pi?>\n<!--c-->\n"}
var bodies = []string{
	"<r/>", "<r></r>", "<r />", "<r\n></r\n>",
	"<r><e/></r>", "<r><e></e></r>", "<r> <e/> </r>",
	"<r><!--c--><e/></r>", "<r><e/><?pi d?></r>", "<r><e><!--c--></e></r>", "<r><e><?pi?></e></r>",
	"<r a = \"1\"\n\tb='2'/>", "<r><?pi   spaced  data ?></r>", "<r><!-- <&> --></r>", "<r>a<!--c-->b</r>",
}

func miscFamily() Family {
	radix := []int{len(bodies), len(prologs), len(epilogs)}
	name := "prolog-comments-pis-forms"
	return Family{Name: name, N: product(radix), At: func(i int) (Case, bool) {
		d := digits(i, radix)
		doc := prologs[d[1]] + bodies[d[0]] + epilogs[d[2]]
		return Case{Family: name, Index: i, Doc: []byte(doc), Desc: fmt.Sprintf("prolog=%q body=%q epilog=%q", prologs[d[1]], bodies[d[0]], epilogs[d[2]])}, true
	}}
}

// ---------- cross family: namespaces x attribute value x text under r(a) ----------

func crossFamily() Family {
	decl := []int{0, 1, 2, 3, 4, 5}
	vals := []string{"v", "&lt;", "&#9;", "&#13;", "&quot;", "é"}
	texts := []string{"", "t", "&amp;", "<![CDATA[<]]>", "&#13;", " \n"}
	radix := []int{len(decl), 3, len(decl), 3, len(vals), len(texts), 2}
	name := "cross/r(a)"
	return Family{Name: name, N: product(radix), At: func(i int) (Case, bool) {
		d := digits(i, radix)
		a := &Elem{Prefix: prefixMenu[d[3]], Local: "a", Decls: declMenu[decl[d[2]]], Attrs: []GAttr{{Local: "k", Raw: vals[d[4]]}}, StartEnd: d[6] == 1}
		if texts[d[5]] != "" {
			a.Kids = []any{Raw(texts[d[5]])}
		}
		r := &Elem{Prefix: prefixMenu[d[1]], Local: "r", Decls: declMenu[decl[d[0]]], Kids: []any{Raw("\n"), a, Raw("<!--c-->")}}
		if !wellFormed(r, map[string]string{}) {
			return Case{}, false
		}
		return Case{Family: name, Index: i, Doc: Doc{Root: r}.Bytes(), Desc: fmt.Sprintf("digits=%v", d)}, true
	}}
}

// Families returns the generated general family, simplest members first.
func Families(thorough bool) []Family {
	var f []Family
	f = append(f, miscFamily())
	f = append(f, textFamily(1), attrValueFamily(1))
	f = append(f, nsFamily(Shapes[0], 10, 3, 4))
	f = append(f, nsFamily(Shapes[1], 10, 3, 2))
	if !thorough {
		f = append(f, attrFamily(6, 3))
		f = append(f, textFamily(2), attrValueFamily(2))
		f = append(f, nsFamily(Shapes[2], 6, 3, 1), nsFamily(Shapes[3], 6, 3, 1))
		for _, s := range Shapes[4:8] {
			f = append(f, nsFamily(s, 3, 2, 1))
		}
		f = append(f, nsFamily(Shapes[8], 3, 2, 1))
		return f
	}
	f = append(f, attrFamily(8, 3), attrFamily(6, 4))
	f = append(f, textFamily(2), attrValueFamily(2), textFamily(3))
	f = append(f, nsFamily(Shapes[1], 10, 3, 4))
	f = append(f, nsFamily(Shapes[2], 10, 3, 2), nsFamily(Shapes[3], 10, 3, 2))
	for _, s := range Shapes[4:8] {
		f = append(f, nsFamily(s, 6, 3, 1))
	}
	for _, s := range Shapes[8:11] {
		f = append(f, nsFamily(s, 4, 2, 1))
	}
	for _, s := range Shapes[11:] {
		f = append(f, nsFamily(s, 3, 2, 1))
	}
	f = append(f, crossFamily())
	return f
}

// ---------- extension subtrees for a host document ----------

// Extension is a two-level subtree x(y) to be placed below a host element,
// together with the declarations the host element gains. The prefix is one the
// host does not know, so that every binding in play is one of the three made
// here: on the host (outer), on x, on y.
type Extension struct {
	Desc      string
	HostDecls []NsDecl
	Subtree   []byte
	// Redundant: some element declares the prefix with the name it is already bound to
	Redundant bool
}

// Embed places the extension as last child of the root element of src.
func (e Extension) Embed(src []byte) ([]byte, error) {
	toks, err := Lex(src)
	if err != nil {
		return nil, err
	}
	root := -1
	for i, t := range toks {
		if t.Kind == Start {
			root = i
			break
		}
	}
	if root < 0 || toks[root].SelfClose {
		return nil, fmt.Errorf("no root element with content")
	}
	rootEnd := Match(toks)[root]
	c := make([]Token, 0, len(toks)+1)
	c = append(c, toks[:rootEnd]...)
	c = append(c, Token{Kind: Text, Raw: string(e.Subtree)})
	c = append(c, toks[rootEnd:]...)
	nt := toks[root]
	nt.Attrs = append([]Attr(nil), nt.Attrs...)
	for _, d := range e.HostDecls {
		nt.Attrs = append(nt.Attrs, Attr{Pre: " ", Name: "xmlns:" + d.Prefix, Quote: '"', Raw: d.URI})
	}
	c[root] = nt
	return Serialize(c), nil
}

var extDeclMenu = [][]NsDecl{{}, {{"c19p", "urn:c19:z"}}, {{"c19p", "urn:c19:a"}}}
var extDeclNames = []string{"-", "c19p=z", "c19p=a"}
var extPrefixMenu = []string{"", "c19p"}
var extAttrMenu = [][]GAttr{{}, {{Prefix: "c19p", Local: "x", Raw: "1"}}}

// Extensions enumerates (host declaration) x (declaration, element prefix,
// qualified attribute on x) x (the same on y), keeping the namespace-well-formed
// combinations in which the prefix is used somewhere.
func Extensions(visit func(Extension)) int {
	n := 0
	for hd := range extDeclMenu {
		for xi := 0; xi < 12; xi++ {
			for yi := 0; yi < 12; yi++ {
				mk := func(name string, i int) *Elem {
					return &Elem{Prefix: extPrefixMenu[i/2%2], Local: name, Decls: extDeclMenu[i/4], Attrs: extAttrMenu[i%2]}
				}
				x, y := mk("c19x", xi), mk("c19y", yi)
				x.Kids = []any{y}
				used := x.Prefix != "" || y.Prefix != "" || len(x.Attrs) > 0 || len(y.Attrs) > 0
				scope := map[string]string{}
				for _, d := range extDeclMenu[hd] {
					scope[d.Prefix] = d.URI
				}
				if !used || !wellFormed(x, scope) {
					continue
				}
				var b bytes.Buffer
				x.write(&b)
				n++
				red, cur := false, scope["c19p"]
				for _, el := range []*Elem{x, y} {
					for _, d := range el.Decls {
						if d.URI == cur {
							red = true
						}
						cur = d.URI
					}
				}
				visit(Extension{
					Redundant: red,
					Desc:      fmt.Sprintf("host[%s] x[%s;%s;attrs%d] y[%s;%s;attrs%d]", extDeclNames[hd], x.Prefix, extDeclNames[xi/4], xi%2, y.Prefix, extDeclNames[yi/4], yi%2),
					HostDecls: extDeclMenu[hd], Subtree: b.Bytes(),
				})
			}
		}
	}
	return n
}

// Package xmlgen is the XML side of the C19 harness: a lossless lexical model of
// an XML document (every byte of the source is kept, so single re-serialisation
// edits can be applied at every site), enumerators of single edits, and a
// bounded-exhaustive generator of small documents. It is written from the XML
// 1.0 grammar and does not import relic or any XML library.
package xmlgen

import (
	"bytes"
	"fmt"
	"strings"
)

type Kind int

const (
	BOM Kind = iota
	XMLDecl
	PI
	Comment
	Text
	CData
	Start // start tag or empty-element tag (SelfClose)
	End
)

func (k Kind) String() string {
	return [...]string{"bom", "xmldecl", "pi", "comment", "text", "cdata", "start", "end"}[k]
}

// Attr is one attribute as written: ` name = "raw"`.
type Attr struct {
	Pre    string // white space before the name (at least one character)
	Name   string
	EqPre  string // white space between name and '='
	EqPost string // white space between '=' and the quote
	Quote  byte
	Raw    string // between the quotes, references not expanded
}

func (a Attr) IsNsDecl() bool { return a.Name == "xmlns" || strings.HasPrefix(a.Name, "xmlns:") }

// Token is one lexical item. For BOM, XMLDecl, PI, Comment, Text and CData the
// complete source text is Raw. Tags are kept in parts.
type Token struct {
	Kind      Kind
	Raw       string
	Name      string // tags: qualified name
	Attrs     []Attr
	Tail      string // tags: white space before '>' or '/>'
	SelfClose bool
	Depth     int // number of elements open before this token
}

// Lex splits a document. DOCTYPE declarations are not supported (none of the
// documents of the property carry one).
func Lex(src []byte) ([]Token, error) {
	var toks []Token
	s := string(src)
	i := 0
	depth := 0
	if strings.HasPrefix(s, "\xef\xbb\xbf") {
		toks = append(toks, Token{Kind: BOM, Raw: s[:3]})
		i = 3
	}
	var open []string
	for i < len(s) {
		if s[i] != '<' {
			j := strings.IndexByte(s[i:], '<')
			if j < 0 {
				j = len(s) - i
			}
			toks = append(toks, Token{Kind: Text, Raw: s[i : i+j], Depth: depth})
			i += j
			continue
		}
		rest := s[i:]
		switch {
		case strings.HasPrefix(rest, "<?"):
			j := strings.Index(rest, "?>")
			if j < 0 {
				return nil, fmt.Errorf("unterminated PI at %d", i)
			}
			k := PI
			if strings.HasPrefix(rest, "<?xml") && len(rest) > 5 && isSpace(rest[5]) {
				k = XMLDecl
			}
			toks = append(toks, Token{Kind: k, Raw: rest[:j+2], Depth: depth})
			i += j + 2
		case strings.HasPrefix(rest, "<!--"):
			j := strings.Index(rest[4:], "-->")
			if j < 0 {
				return nil, fmt.Errorf("unterminated comment at %d", i)
			}
			toks = append(toks, Token{Kind: Comment, Raw: rest[:4+j+3], Depth: depth})
			i += 4 + j + 3
		case strings.HasPrefix(rest, "<![CDATA["):
			j := strings.Index(rest, "]]>")
			if j < 0 {
				return nil, fmt.Errorf("unterminated CDATA at %d", i)
			}
			toks = append(toks, Token{Kind: CData, Raw: rest[:j+3], Depth: depth})
			i += j + 3
		case strings.HasPrefix(rest, "<!"):
			return nil, fmt.Errorf("markup declaration not supported at %d", i)
		case strings.HasPrefix(rest, "</"):
			j := strings.IndexByte(rest, '>')
			if j < 0 {
				return nil, fmt.Errorf("unterminated end tag at %d", i)
			}
			body := rest[2:j]
			name := strings.TrimRight(body, " \t\r\n")
			if len(open) == 0 || open[len(open)-1] != name {
				return nil, fmt.Errorf("mismatched end tag %q at %d", name, i)
			}
			open = open[:len(open)-1]
			depth--
			toks = append(toks, Token{Kind: End, Name: name, Tail: body[len(name):], Depth: depth})
			i += j + 1
		default:
			t, n, err := lexStart(rest)
			if err != nil {
				return nil, fmt.Errorf("%v at %d", err, i)
			}
			t.Depth = depth
			if !t.SelfClose {
				open = append(open, t.Name)
				depth++
			}
			toks = append(toks, t)
			i += n
		}
	}
	if len(open) != 0 {
		return nil, fmt.Errorf("unclosed element %q", open[len(open)-1])
	}
	return toks, nil
}

func isSpace(c byte) bool { return c == ' ' || c == '\t' || c == '\r' || c == '\n' }

func isNameEnd(c byte) bool { return isSpace(c) || c == '/' || c == '>' || c == '=' }

func lexStart(s string) (Token, int, error) {
	t := Token{Kind: Start}
	i := 1
	j := i
	for j < len(s) && !isNameEnd(s[j]) {
		j++
	}
	if j == i {
		return t, 0, fmt.Errorf("empty tag name")
	}
	t.Name = s[i:j]
	i = j
	for {
		ws := i
		for i < len(s) && isSpace(s[i]) {
			i++
		}
		if i >= len(s) {
			return t, 0, fmt.Errorf("unterminated start tag")
		}
		if s[i] == '>' {
			t.Tail = s[ws:i]
			return t, i + 1, nil
		}
		if s[i] == '/' {
			if i+1 >= len(s) || s[i+1] != '>' {
				return t, 0, fmt.Errorf("bad empty-element tag")
			}
			t.Tail = s[ws:i]
			t.SelfClose = true
			return t, i + 2, nil
		}
		if ws == i {
			return t, 0, fmt.Errorf("missing white space before attribute")
		}
		a := Attr{Pre: s[ws:i]}
		j = i
		for j < len(s) && !isNameEnd(s[j]) {
			j++
		}
		a.Name = s[i:j]
		i = j
		ws = i
		for i < len(s) && isSpace(s[i]) {
			i++
		}
		a.EqPre = s[ws:i]
		if i >= len(s) || s[i] != '=' {
			return t, 0, fmt.Errorf("attribute without value")
		}
		i++
		ws = i
		for i < len(s) && isSpace(s[i]) {
			i++
		}
		a.EqPost = s[ws:i]
		if i >= len(s) || (s[i] != '"' && s[i] != '\'') {
			return t, 0, fmt.Errorf("unquoted attribute value")
		}
		a.Quote = s[i]
		i++
		j = strings.IndexByte(s[i:], a.Quote)
		if j < 0 {
			return t, 0, fmt.Errorf("unterminated attribute value")
		}
		a.Raw = s[i : i+j]
		i += j + 1
		t.Attrs = append(t.Attrs, a)
	}
}

func (t Token) write(b *bytes.Buffer) {
	switch t.Kind {
	case Start:
		b.WriteByte('<')
		b.WriteString(t.Name)
		for _, a := range t.Attrs {
			b.WriteString(a.Pre)
			b.WriteString(a.Name)
			b.WriteString(a.EqPre)
			b.WriteByte('=')
			b.WriteString(a.EqPost)
			b.WriteByte(a.Quote)
			b.WriteString(a.Raw)
			b.WriteByte(a.Quote)
		}
		b.WriteString(t.Tail)
		if t.SelfClose {
			b.WriteString("/>")
		} else {
			b.WriteByte('>')
		}
	case End:
		b.WriteString("</")
		b.WriteString(t.Name)
		b.WriteString(t.Tail)
		b.WriteByte('>')
	default:
		b.WriteString(t.Raw)
	}
}

// Serialize writes the tokens back; Serialize(Lex(x)) == x.
func Serialize(toks []Token) []byte {
	var b bytes.Buffer
	for _, t := range toks {
		t.write(&b)
	}
	return b.Bytes()
}

// Match returns, for every Start token index, the index of its End token (the
// index itself for empty-element tags) and -1 elsewhere.
func Match(toks []Token) []int {
	m := make([]int, len(toks))
	var stack []int
	for i, t := range toks {
		m[i] = -1
		switch t.Kind {
		case Start:
			if t.SelfClose {
				m[i] = i
			} else {
				stack = append(stack, i)
			}
		case End:
			m[stack[len(stack)-1]] = i
			stack = stack[:len(stack)-1]
		}
	}
	return m
}

// Path names the element a token belongs to, e.g. /assembly[1]/Signature[1].
// Local names only; index among same-named siblings.
func Paths(toks []Token) []string {
	p := make([]string, len(toks))
	type frame struct {
		path   string
		counts map[string]int
	}
	stack := []frame{{"", map[string]int{}}}
	for i, t := range toks {
		top := &stack[len(stack)-1]
		switch t.Kind {
		case Start:
			top.counts[t.Name]++
			path := fmt.Sprintf("%s/%s[%d]", top.path, t.Name, top.counts[t.Name])
			p[i] = path
			if !t.SelfClose {
				stack = append(stack, frame{path, map[string]int{}})
			}
		case End:
			p[i] = top.path
			stack = stack[:len(stack)-1]
		default:
			p[i] = top.path
		}
	}
	return p
}

func cloneToks(toks []Token) []Token {
	out := make([]Token, len(toks))
	copy(out, toks)
	return out
}

func cloneAttrs(a []Attr) []Attr {
	out := make([]Attr, len(a))
	copy(out, a)
	return out
}

// Unescape expands the predefined entities and character references of a text
// or attribute value as written. ok=false if it contains anything else.
func Unescape(raw string) (string, bool) {
	if !strings.Contains(raw, "&") {
		return raw, true
	}
	var b strings.Builder
	for i := 0; i < len(raw); {
		if raw[i] != '&' {
			b.WriteByte(raw[i])
			i++
			continue
		}
		j := strings.IndexByte(raw[i:], ';')
		if j < 0 {
			return "", false
		}
		ref := raw[i+1 : i+j]
		i += j + 1
		switch ref {
		case "lt":
			b.WriteByte('<')
		case "gt":
			b.WriteByte('>')
		case "amp":
			b.WriteByte('&')
		case "quot":
			b.WriteByte('"')
		case "apos":
			b.WriteByte('\'')
		default:
			var n int
			var err error
			if strings.HasPrefix(ref, "#x") {
				_, err = fmt.Sscanf(ref[2:], "%x", &n)
			} else if strings.HasPrefix(ref, "#") {
				_, err = fmt.Sscanf(ref[1:], "%d", &n)
			} else {
				return "", false
			}
			if err != nil {
				return "", false
			}
			b.WriteRune(rune(n))
		}
	}
	return b.String(), true
}

// EscapeText writes character data with the minimum escaping.
func EscapeText(s string) string {
	r := strings.NewReplacer("&", "&amp;", "<", "&lt;", ">", "&gt;", "\r", "&#13;")
	return r.Replace(s)
}

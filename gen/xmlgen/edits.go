package xmlgen

import (
	"fmt"
	"strings"
	"unicode/utf8"
)

// Edit is one single-site change of a document.
//
// Reser=true: the edit is a re-serialisation — it leaves the XML infoset of the
// document unchanged except for items a canonicaliser MAY ignore (comments,
// PIs, namespace declarations, prolog). Whether the canonical form in force
// really ignores it is decided by the caller with a conforming canonicaliser.
// Reser=false: the edit alters the infoset (text, names, values, order).
type Edit struct {
	Kind  string
	Reser bool
	Site  string
	Doc   []byte
}

// EditKinds lists every kind EnumerateEdits can emit, in emission order.
var EditKinds = []string{
	"attr-permute", "quote-style", "empty-form", "tag-space", "comment-insert", "comment-split-text",
	"pi-insert", "nsdecl-unused", "nsdecl-redundant", "nsdecl-hoist", "nsdecl-shadowed-outer", "prolog", "cdata-wrap", "cdata-unwrap", "charref-text", "charref-attr",
	"entity-numeric", "attr-ws-literal", "line-endings",
	"text-change", "ws-text-change", "attr-value-change", "nsuri-change", "elem-rename", "attr-rename", "attr-delete",
	"child-reorder", "elem-delete", "elem-duplicate", "b64-linebreak",
}

const (
	insComment = "<!-- c19 -->"
	insPI      = "<?c19 x?>"
	unusedDecl = `xmlns:c19u="urn:c19:unused"`
)

func perms(n int) [][]int {
	var out [][]int
	idx := make([]int, n)
	for i := range idx {
		idx[i] = i
	}
	var rec func(k int)
	rec = func(k int) {
		if k == n {
			out = append(out, append([]int(nil), idx...))
			return
		}
		for j := k; j < n; j++ {
			idx[k], idx[j] = idx[j], idx[k]
			rec(k + 1)
			idx[k], idx[j] = idx[j], idx[k]
		}
	}
	rec(0)
	return out
}

// attrOrders: all non-identity permutations for <=3 attributes, otherwise every
// adjacent transposition, the reversal and the rotation by one.
func attrOrders(n int) [][]int {
	var out [][]int
	if n <= 3 {
		for _, p := range perms(n) {
			id := true
			for i, v := range p {
				if i != v {
					id = false
				}
			}
			if !id {
				out = append(out, p)
			}
		}
		return out
	}
	base := func() []int {
		p := make([]int, n)
		for i := range p {
			p[i] = i
		}
		return p
	}
	for i := 0; i+1 < n; i++ {
		p := base()
		p[i], p[i+1] = p[i+1], p[i]
		out = append(out, p)
	}
	r := base()
	for i, j := 0, n-1; i < j; i, j = i+1, j-1 {
		r[i], r[j] = r[j], r[i]
	}
	out = append(out, r)
	rot := base()
	rot = append(rot[1:], rot[0])
	out = append(out, rot)
	return out
}

func safeSplit(raw string) int {
	p := len(raw) / 2
	for p > 0 && !utf8.RuneStart(raw[p]) {
		p--
	}
	if amp := strings.LastIndexByte(raw[:p], '&'); amp >= 0 && !strings.Contains(raw[amp:p], ";") {
		p = amp
	}
	return p
}

func charRef(raw string, hex bool) (string, bool) {
	if raw == "" || raw[0] == '&' {
		return "", false
	}
	r, w := utf8.DecodeRuneInString(raw)
	if r == utf8.RuneError {
		return "", false
	}
	if hex {
		return fmt.Sprintf("&#x%X;%s", r, raw[w:]), true
	}
	return fmt.Sprintf("&#%d;%s", r, raw[w:]), true
}

func isWS(s string) bool { return strings.Trim(s, " \t\r\n") == "" }

// EnumerateEdits visits every single edit of every kind at every applicable
// site of src, in a fixed order. It returns the number of edits visited.
func EnumerateEdits(src []byte, visit func(Edit)) (int, error) {
	toks, err := Lex(src)
	if err != nil {
		return 0, err
	}
	match := Match(toks)
	paths := Paths(toks)
	n := 0
	emit := func(kind string, reser bool, site string, t []Token) {
		n++
		visit(Edit{Kind: kind, Reser: reser, Site: site, Doc: Serialize(t)})
	}
	withTok := func(i int, nt Token) []Token {
		c := cloneToks(toks)
		c[i] = nt
		return c
	}
	insertAt := func(i int, nt ...Token) []Token {
		c := make([]Token, 0, len(toks)+len(nt))
		c = append(c, toks[:i]...)
		c = append(c, nt...)
		c = append(c, toks[i:]...)
		return c
	}
	rootIdx := -1
	for i, t := range toks {
		if t.Kind == Start {
			rootIdx = i
			break
		}
	}
	if rootIdx < 0 {
		return 0, fmt.Errorf("no root element")
	}
	rootEnd := match[rootIdx]
	firstGap := 0
	for i, t := range toks {
		if t.Kind == BOM || t.Kind == XMLDecl {
			firstGap = i + 1
		}
	}

	// ---------- re-serialisations ----------
	for i, t := range toks {
		if t.Kind != Start || len(t.Attrs) < 2 {
			continue
		}
		for _, p := range attrOrders(len(t.Attrs)) {
			nt := t
			nt.Attrs = make([]Attr, len(t.Attrs))
			for k, v := range p {
				nt.Attrs[k] = t.Attrs[v]
				nt.Attrs[k].Pre = t.Attrs[k].Pre
			}
			emit("attr-permute", true, fmt.Sprintf("%s order=%v", paths[i], p), withTok(i, nt))
		}
	}
	for i, t := range toks {
		if t.Kind != Start {
			continue
		}
		for k, a := range t.Attrs {
			nt := t
			nt.Attrs = cloneAttrs(t.Attrs)
			na := a
			if a.Quote == '"' {
				na.Quote = '\''
				na.Raw = strings.ReplaceAll(a.Raw, "'", "&apos;")
			} else {
				na.Quote = '"'
				na.Raw = strings.ReplaceAll(a.Raw, `"`, "&quot;")
			}
			nt.Attrs[k] = na
			emit("quote-style", true, fmt.Sprintf("%s/@%s", paths[i], a.Name), withTok(i, nt))
		}
	}
	for i, t := range toks {
		if t.Kind != Start {
			continue
		}
		if t.SelfClose {
			nt := t
			nt.SelfClose = false
			c := insertAt(i+1, Token{Kind: End, Name: t.Name})
			c[i] = nt
			emit("empty-form", true, paths[i]+" to start/end pair", c)
		} else if match[i] == i+1 {
			nt := t
			nt.SelfClose = true
			c := cloneToks(toks)
			c[i] = nt
			c = append(c[:i+1], c[i+2:]...)
			emit("empty-form", true, paths[i]+" to empty-element tag", c)
		}
	}
	for i, t := range toks {
		switch t.Kind {
		case Start:
			nt := t
			nt.Tail = t.Tail + " "
			emit("tag-space", true, paths[i]+" space before tag close", withTok(i, nt))
			for k, a := range t.Attrs {
				nt := t
				nt.Attrs = cloneAttrs(t.Attrs)
				na := a
				na.EqPre, na.EqPost = " ", "\n"
				na.Pre = "\n\t"
				nt.Attrs[k] = na
				emit("tag-space", true, fmt.Sprintf("%s/@%s space around '=' and newline before", paths[i], a.Name), withTok(i, nt))
			}
		case End:
			nt := t
			nt.Tail = t.Tail + "\n"
			emit("tag-space", true, paths[i]+" newline in end tag", withTok(i, nt))
		}
	}
	for i := firstGap; i <= len(toks); i++ {
		where := "end of document"
		if i < len(toks) {
			where = fmt.Sprintf("before %s token in %s", toks[i].Kind, paths[i])
			if i <= rootIdx {
				where = "prolog, " + where
			} else if i > rootEnd {
				where = "after root, " + where
			}
		} else {
			where = "after root, " + where
		}
		emit("comment-insert", true, where, insertAt(i, Token{Kind: Comment, Raw: insComment}))
	}
	for i, t := range toks {
		if t.Kind != Text || t.Depth < 1 || len(t.Raw) < 2 {
			continue
		}
		p := safeSplit(t.Raw)
		if p <= 0 {
			continue
		}
		c := insertAt(i+1, Token{Kind: Comment, Raw: insComment}, Token{Kind: Text, Raw: t.Raw[p:]})
		c[i] = Token{Kind: Text, Raw: t.Raw[:p]}
		emit("comment-split-text", true, "inside text of "+paths[i], c)
	}
	for i := firstGap; i <= len(toks); i++ {
		where := "after root, end of document"
		if i < len(toks) {
			where = fmt.Sprintf("before %s token in %s", toks[i].Kind, paths[i])
			if i <= rootIdx {
				where = "prolog, " + where
			} else if i > rootEnd {
				where = "after root, " + where
			}
		}
		emit("pi-insert", true, where, insertAt(i, Token{Kind: PI, Raw: insPI}))
	}
	for i, t := range toks {
		if t.Kind != Start {
			continue
		}
		nt := t
		nt.Attrs = append(cloneAttrs(t.Attrs), Attr{Pre: " ", Name: "xmlns:c19u", Quote: '"', Raw: "urn:c19:unused"})
		emit("nsdecl-unused", true, paths[i], withTok(i, nt))
	}
	// namespace declarations in scope at every start tag
	{
		type scope map[string]string
		var stack []scope
		inScope := func(p string) (string, bool) {
			for k := len(stack) - 1; k >= 0; k-- {
				if v, ok := stack[k][p]; ok {
					return v, true
				}
			}
			return "", false
		}
		parentStart := []int{}
		for i, t := range toks {
			switch t.Kind {
			case Start:
				own := scope{}
				for _, a := range t.Attrs {
					if a.Name == "xmlns" {
						own[""] = a.Raw
					} else if strings.HasPrefix(a.Name, "xmlns:") {
						own[a.Name[6:]] = a.Raw
					}
				}
				// redundant redeclaration of the binding the element's own name uses
				pfx := ""
				if k := strings.IndexByte(t.Name, ':'); k >= 0 {
					pfx = t.Name[:k]
				}
				if _, declared := own[pfx]; !declared {
					if uri, ok := inScope(pfx); ok {
						name := "xmlns"
						if pfx != "" {
							name = "xmlns:" + pfx
						}
						nt := t
						nt.Attrs = append(cloneAttrs(t.Attrs), Attr{Pre: " ", Name: name, Quote: '"', Raw: uri})
						emit("nsdecl-redundant", true, fmt.Sprintf("%s repeats %s=%q of an ancestor", paths[i], name, uri), withTok(i, nt))
					}
				}
				// prefixed declaration moved to the parent when no ancestor binds that prefix
				if len(parentStart) > 0 {
					for k, a := range t.Attrs {
						if !strings.HasPrefix(a.Name, "xmlns:") {
							continue
						}
						if _, ok := inScope(a.Name[6:]); ok {
							continue
						}
						pi := parentStart[len(parentStart)-1]
						c := cloneToks(toks)
						nt := t
						nt.Attrs = append(cloneAttrs(t.Attrs[:k]), t.Attrs[k+1:]...)
						c[i] = nt
						np := toks[pi]
						np.Attrs = append(cloneAttrs(np.Attrs), Attr{Pre: " ", Name: a.Name, Quote: a.Quote, Raw: a.Raw})
						c[pi] = np
						emit("nsdecl-hoist", true, fmt.Sprintf("%s/@%s moved to the parent element", paths[i], a.Name), c)
					}
					// an OUTER binding of a prefix that this element (re)binds: the parent
					// (and the root) get xmlns:p="urn:c19:outer" when p is not in scope
					// there. Nothing between can use p, the inner binding governs
					// everything below as before: meaning and canonical form are unchanged.
					for _, a := range t.Attrs {
						if !strings.HasPrefix(a.Name, "xmlns:") {
							continue
						}
						if _, ok := inScope(a.Name[6:]); ok {
							continue
						}
						targets := []int{parentStart[len(parentStart)-1]}
						if parentStart[0] != targets[0] {
							targets = append(targets, parentStart[0])
						}
						for _, pi := range targets {
							c := cloneToks(toks)
							np := toks[pi]
							np.Attrs = append(cloneAttrs(np.Attrs), Attr{Pre: " ", Name: a.Name, Quote: '"', Raw: "urn:c19:outer"})
							c[pi] = np
							emit("nsdecl-shadowed-outer", true, fmt.Sprintf("%s gets %s=\"urn:c19:outer\", re-bound below at %s", paths[pi], a.Name, paths[i]), c)
						}
					}
					// default-namespace declaration moved to the parent when that
					// changes no name: the parent's own name is prefixed, it declares
					// no default namespace itself and no other element below it is
					// unprefixed
					for k, a := range t.Attrs {
						if a.Name != "xmlns" {
							continue
						}
						pi := parentStart[len(parentStart)-1]
						par := toks[pi]
						if !strings.Contains(par.Name, ":") {
							continue
						}
						clash := false
						for _, pa := range par.Attrs {
							if pa.Name == "xmlns" {
								clash = true
							}
						}
						ends := Match(toks)
						for j := pi + 1; j < ends[pi] && !clash; j++ {
							if j >= i && j <= ends[i] {
								continue
							}
							if toks[j].Kind == Start && !strings.Contains(toks[j].Name, ":") {
								clash = true
							}
						}
						if clash {
							continue
						}
						c := cloneToks(toks)
						nt := t
						nt.Attrs = append(cloneAttrs(t.Attrs[:k]), t.Attrs[k+1:]...)
						c[i] = nt
						np := par
						np.Attrs = append(cloneAttrs(np.Attrs), Attr{Pre: " ", Name: a.Name, Quote: a.Quote, Raw: a.Raw})
						c[pi] = np
						emit("nsdecl-hoist", true, fmt.Sprintf("%s/@xmlns (default namespace) moved to the parent element %s", paths[i], par.Name), c)
					}
				}
				if !t.SelfClose {
					stack = append(stack, own)
					parentStart = append(parentStart, i)
				}
			case End:
				stack = stack[:len(stack)-1]
				parentStart = parentStart[:len(parentStart)-1]
			}
		}
	}
	// prolog / epilog variants
	{
		declIdx := -1
		bom := false
		for i, t := range toks[:rootIdx] {
			if t.Kind == XMLDecl {
				declIdx = i
			}
			if t.Kind == BOM {
				bom = true
			}
		}
		decls := []string{
			`<?xml version="1.0"?>`,
			`<?xml version="1.0" encoding="UTF-8"?>`,
			`<?xml version='1.0' encoding='utf-8' standalone='yes'?>`,
			`<?xml version="1.0" encoding="utf-8" standalone="no" ?>`,
		}
		for _, d := range decls {
			if declIdx >= 0 {
				if toks[declIdx].Raw == d {
					continue
				}
				emit("prolog", true, "XML declaration := "+d, withTok(declIdx, Token{Kind: XMLDecl, Raw: d}))
			} else {
				at := 0
				if bom {
					at = 1
				}
				emit("prolog", true, "XML declaration added "+d, insertAt(at, Token{Kind: XMLDecl, Raw: d}))
			}
		}
		if declIdx >= 0 {
			c := cloneToks(toks)
			c = append(c[:declIdx], c[declIdx+1:]...)
			// white space may not precede the root without a declaration being
			// absent is fine; leading white space before the root is legal Misc
			emit("prolog", true, "XML declaration removed", c)
		}
		if bom {
			emit("prolog", true, "BOM removed", cloneToks(toks)[1:])
		} else {
			emit("prolog", true, "BOM added", insertAt(0, Token{Kind: BOM, Raw: "\xef\xbb\xbf"}))
		}
		emit("prolog", true, "newlines before root", insertAt(rootIdx, Token{Kind: Text, Raw: "\n\n  "}))
		emit("prolog", true, "newline at end of document", insertAt(len(toks), Token{Kind: Text, Raw: "\n"}))
		emit("prolog", true, "blank and tab at end of document", insertAt(len(toks), Token{Kind: Text, Raw: " \t\r\n"}))
	}
	for i, t := range toks {
		if t.Depth < 1 {
			continue
		}
		switch t.Kind {
		case Text:
			if u, ok := Unescape(t.Raw); ok && !strings.Contains(u, "]]>") && t.Raw != "" {
				emit("cdata-wrap", true, "text of "+paths[i], withTok(i, Token{Kind: CData, Raw: "<![CDATA[" + u + "]]>"}))
			}
			if r, ok := charRef(t.Raw, true); ok {
				emit("charref-text", true, "first character of text of "+paths[i], withTok(i, Token{Kind: Text, Raw: r}))
			}
		case CData:
			body := t.Raw[len("<![CDATA[") : len(t.Raw)-3]
			emit("cdata-unwrap", true, "CDATA of "+paths[i], withTok(i, Token{Kind: Text, Raw: EscapeText(body)}))
		}
	}
	for i, t := range toks {
		if t.Kind != Start {
			continue
		}
		for k, a := range t.Attrs {
			for _, hex := range []bool{true, false} {
				if r, ok := charRef(a.Raw, hex); ok {
					nt := t
					nt.Attrs = cloneAttrs(t.Attrs)
					nt.Attrs[k].Raw = r
					emit("charref-attr", true, fmt.Sprintf("first character of %s/@%s hex=%v", paths[i], a.Name, hex), withTok(i, nt))
				}
			}
		}
	}
	numeric := strings.NewReplacer("&lt;", "&#60;", "&gt;", "&#x3E;", "&amp;", "&#38;", "&quot;", "&#34;", "&apos;", "&#39;")
	for i, t := range toks {
		switch t.Kind {
		case Text:
			if r := numeric.Replace(t.Raw); r != t.Raw && t.Depth >= 1 {
				emit("entity-numeric", true, "text of "+paths[i], withTok(i, Token{Kind: Text, Raw: r}))
			}
		case Start:
			for k, a := range t.Attrs {
				if r := numeric.Replace(a.Raw); r != a.Raw {
					nt := t
					nt.Attrs = cloneAttrs(t.Attrs)
					nt.Attrs[k].Raw = r
					emit("entity-numeric", true, fmt.Sprintf("%s/@%s", paths[i], a.Name), withTok(i, nt))
				}
			}
		}
	}
	for i, t := range toks {
		if t.Kind != Start {
			continue
		}
		for k, a := range t.Attrs {
			if a.IsNsDecl() {
				continue
			}
			sp := strings.IndexByte(a.Raw, ' ')
			if sp < 0 {
				continue
			}
			for _, ws := range []string{"\n", "\t", "\r\n"} {
				nt := t
				nt.Attrs = cloneAttrs(t.Attrs)
				nt.Attrs[k].Raw = a.Raw[:sp] + ws + a.Raw[sp+1:]
				emit("attr-ws-literal", true, fmt.Sprintf("%s/@%s blank written as %q", paths[i], a.Name, ws), withTok(i, nt))
			}
		}
	}
	if !strings.Contains(string(src), "\r") {
		c := cloneToks(toks)
		for i := range c {
			switch c[i].Kind {
			case Text, Comment, PI, CData, XMLDecl:
				c[i].Raw = strings.ReplaceAll(c[i].Raw, "\n", "\r\n")
			case Start:
				c[i].Attrs = cloneAttrs(c[i].Attrs)
				for k := range c[i].Attrs {
					c[i].Attrs[k].Pre = strings.ReplaceAll(c[i].Attrs[k].Pre, "\n", "\r\n")
				}
			}
		}
		emit("line-endings", true, "every LF written as CRLF", c)
	}

	// ---------- alterations ----------
	for i, t := range toks {
		if t.Depth < 1 {
			continue
		}
		switch t.Kind {
		case Text:
			if isWS(t.Raw) {
				emit("ws-text-change", false, "white space text in "+paths[i]+" gains a blank", withTok(i, Token{Kind: Text, Raw: t.Raw + " "}))
				continue
			}
			k := 0
			for k < len(t.Raw) && (isSpace(t.Raw[k]) || t.Raw[k] == '&') {
				if t.Raw[k] == '&' {
					break
				}
				k++
			}
			var r string
			if k < len(t.Raw) && t.Raw[k] != '&' && t.Raw[k] < 0x80 {
				c := byte('a')
				if t.Raw[k] == 'a' {
					c = 'b'
				}
				r = t.Raw[:k] + string(c) + t.Raw[k+1:]
			} else {
				r = "a" + t.Raw
			}
			emit("text-change", false, "text of "+paths[i], withTok(i, Token{Kind: Text, Raw: r}))
		case CData:
			emit("text-change", false, "CDATA of "+paths[i], withTok(i, Token{Kind: CData, Raw: "<![CDATA[a" + t.Raw[len("<![CDATA["):]}))
		}
	}
	for i, t := range toks {
		if t.Kind != Start {
			continue
		}
		for k, a := range t.Attrs {
			nt := t
			nt.Attrs = cloneAttrs(t.Attrs)
			nt.Attrs[k].Raw = a.Raw + "x"
			kind := "attr-value-change"
			if a.IsNsDecl() {
				kind = "nsuri-change"
			}
			emit(kind, false, fmt.Sprintf("%s/@%s", paths[i], a.Name), withTok(i, nt))
			if a.IsNsDecl() {
				continue
			}
			nt = t
			nt.Attrs = cloneAttrs(t.Attrs)
			nt.Attrs[k].Name = a.Name + "x"
			emit("attr-rename", false, fmt.Sprintf("%s/@%s", paths[i], a.Name), withTok(i, nt))
			nt = t
			nt.Attrs = append(cloneAttrs(t.Attrs[:k]), t.Attrs[k+1:]...)
			emit("attr-delete", false, fmt.Sprintf("%s/@%s", paths[i], a.Name), withTok(i, nt))
		}
	}
	for i, t := range toks {
		if t.Kind != Start {
			continue
		}
		c := cloneToks(toks)
		c[i].Name = t.Name + "x"
		if !t.SelfClose {
			c[match[i]].Name = t.Name + "x"
		}
		emit("elem-rename", false, paths[i], c)
	}
	// adjacent sibling elements swapped
	for i, t := range toks {
		if t.Kind != Start || t.SelfClose {
			continue
		}
		var kids [][2]int
		for j := i + 1; j < match[i]; j++ {
			if toks[j].Kind == Start {
				kids = append(kids, [2]int{j, match[j]})
				j = match[j]
			}
		}
		for k := 0; k+1 < len(kids); k++ {
			a, b := kids[k], kids[k+1]
			if string(Serialize(toks[a[0]:a[1]+1])) == string(Serialize(toks[b[0]:b[1]+1])) {
				continue
			}
			c := make([]Token, 0, len(toks))
			c = append(c, toks[:a[0]]...)
			c = append(c, toks[b[0]:b[1]+1]...)
			c = append(c, toks[a[1]+1:b[0]]...)
			c = append(c, toks[a[0]:a[1]+1]...)
			c = append(c, toks[b[1]+1:]...)
			emit("child-reorder", false, fmt.Sprintf("%s <-> %s", paths[a[0]], paths[b[0]]), c)
		}
	}
	for i, t := range toks {
		if t.Kind != Start || i == rootIdx {
			continue
		}
		c := make([]Token, 0, len(toks))
		c = append(c, toks[:i]...)
		c = append(c, toks[match[i]+1:]...)
		emit("elem-delete", false, paths[i], c)
		c = make([]Token, 0, len(toks)+match[i]-i+1)
		c = append(c, toks[:match[i]+1]...)
		c = append(c, toks[i:match[i]+1]...)
		c = append(c, toks[match[i]+1:]...)
		emit("elem-duplicate", false, paths[i], c)
	}
	for i, t := range toks {
		if t.Kind != Text || i == 0 || toks[i-1].Kind != Start {
			continue
		}
		switch local(toks[i-1].Name) {
		case "DigestValue", "SignatureValue", "X509Certificate", "Modulus":
			p := safeSplit(t.Raw)
			if p <= 0 {
				continue
			}
			emit("b64-linebreak", false, "line break inside base64 text of "+paths[i], withTok(i, Token{Kind: Text, Raw: t.Raw[:p] + "\n" + t.Raw[p:]}))
		}
	}
	return n, nil
}

func local(q string) string {
	if i := strings.IndexByte(q, ':'); i >= 0 {
		return q[i+1:]
	}
	return q
}

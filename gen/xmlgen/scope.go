package xmlgen

import (
	"bytes"
	"fmt"
	"strings"
)

// ---------- scope forests for a host document ----------
//
// Namespace scoping has a dimension that a single chain of elements (Extensions)
// cannot show: ONE binding, declared on an element that does not use it itself,
// reaches SEVERAL sibling branches, and each branch may use the binding directly,
// use it further down, or re-declare it (to another name, to the same name, or,
// for the default namespace, to none). Exclusive canonicalisation has to render
// the binding at the first user on every branch and nowhere else, whatever the
// other branches do and in whatever order they come.
//
// A ScopeForest is a host document with such a sequence of sibling subtrees
// ("items") placed below the element that carries the binding.
//
//	binding  : prefix  - the prefix c19p (unknown to the host), bound to urn:c19:z
//	           default - the default namespace
//	site     : root    - the binding is on the host's root element (prefix: the root
//	                     gains xmlns:c19p; default: the host's own xmlns=, which the
//	                     prefixed root does not use); the items become the first or
//	                     the last children of the root
//	           group   - the binding is on a new element c19g:g (own prefix, does
//	                     not use the binding) that becomes the last child of the
//	                     root; the items are its children
//	item     : leaf x wrap
//	  leaf   : U  element in the binding's namespace
//	           A  element outside it with an attribute in it (prefix binding only)
//	           R  element that re-declares the binding to another name and uses that
//	           S  element that re-declares the binding to the same name and uses it
//	           E  element that un-declares it, xmlns="" (default binding only)
//	  wrap   : the leaf stands below 0..maxWrap elements that neither use nor declare
//	           the binding (each in a namespace of its own, declared on itself)
//	sequence : every ordered sequence (with repetition) of 1..maxLen items
type ScopeForest struct {
	Desc string
	Doc  []byte
}

const (
	scopeZ = "urn:c19:z" // the binding under test (prefix binding / group default)
	scopeA = "urn:c19:a" // what a re-declaration binds instead
)

type scopeItem struct {
	leaf string
	wrap int
}

func (it scopeItem) String() string {
	s := it.leaf
	for i := 0; i < it.wrap; i++ {
		s = "N(" + s + ")"
	}
	return s
}

// build writes the item for a binding; uri is the name the binding is bound to
// at the site (needed for the same-name re-declaration).
func (it scopeItem) build(binding, uri string, n int) *Elem {
	pfx := ""
	if binding == "prefix" {
		pfx = "c19p"
	}
	var e *Elem
	switch it.leaf {
	case "U":
		e = &Elem{Prefix: pfx, Local: "c19u"}
	case "A":
		e = &Elem{Prefix: "c19l", Local: "c19a", Decls: []NsDecl{{"c19l", "urn:c19:l"}}, Attrs: []GAttr{{Prefix: pfx, Local: "x", Raw: "1"}}}
	case "R":
		e = &Elem{Prefix: pfx, Local: "c19r", Decls: []NsDecl{{pfx, scopeA}}}
	case "S":
		e = &Elem{Prefix: pfx, Local: "c19s", Decls: []NsDecl{{pfx, uri}}}
	case "E":
		e = &Elem{Local: "c19e", Decls: []NsDecl{{"", ""}}}
	}
	e.Attrs = append(e.Attrs, GAttr{Local: "n", Raw: fmt.Sprint(n)})
	for w := it.wrap; w >= 1; w-- {
		p := fmt.Sprintf("c19n%d", w)
		e = &Elem{Prefix: p, Local: "c19w", Decls: []NsDecl{{p, "urn:c19:n" + fmt.Sprint(w)}}, Kids: []any{e}}
	}
	return e
}

func scopeItems(binding string, maxWrap int, undeclare bool) []scopeItem {
	leaves := []string{"U", "A", "R", "S"}
	if binding == "default" {
		leaves = []string{"U", "R", "S"}
		if undeclare {
			leaves = append(leaves, "E")
		}
	}
	var out []scopeItem
	for w := 0; w <= maxWrap; w++ {
		for _, l := range leaves {
			out = append(out, scopeItem{l, w})
		}
	}
	return out
}

// ScopeForests enumerates the family over host: sequences of 1..maxLen items,
// leaves wrapped 0..maxWrap deep. undeclare adds the leaf E.
// Combinations the host cannot carry (default binding at the root of a host whose
// root is unprefixed or declares no default namespace) are left out.
func ScopeForests(host []byte, maxLen, maxWrap int, undeclare bool, visit func(ScopeForest)) (int, error) {
	toks, err := Lex(host)
	if err != nil {
		return 0, err
	}
	root := -1
	for i, t := range toks {
		if t.Kind == Start {
			root = i
			break
		}
	}
	if root < 0 || toks[root].SelfClose {
		return 0, fmt.Errorf("no root element with content")
	}
	rootEnd := Match(toks)[root]
	hostDefault := ""
	for _, a := range toks[root].Attrs {
		if a.Name == "xmlns" {
			hostDefault, _ = Unescape(a.Raw)
		}
	}
	rootPrefixed := strings.Contains(toks[root].Name, ":")
	embed := func(rootDecls []NsDecl, first bool, sub []byte) []byte {
		c := make([]Token, 0, len(toks)+1)
		at := rootEnd
		if first {
			at = root + 1
		}
		c = append(c, toks[:at]...)
		c = append(c, Token{Kind: Text, Raw: string(sub)})
		c = append(c, toks[at:]...)
		nt := toks[root]
		nt.Attrs = append([]Attr(nil), nt.Attrs...)
		for _, d := range rootDecls {
			nt.Attrs = append(nt.Attrs, Attr{Pre: " ", Name: "xmlns:" + d.Prefix, Quote: '"', Raw: d.URI})
		}
		c[root] = nt
		return Serialize(c)
	}
	n := 0
	for _, binding := range []string{"prefix", "default"} {
		items := scopeItems(binding, maxWrap, undeclare)
		for _, place := range []string{"root/last", "root/first", "group"} {
			uri := scopeZ
			if binding == "default" && place != "group" {
				if hostDefault == "" || !rootPrefixed {
					continue
				}
				uri = hostDefault
			}
			var seq []int
			var rec func()
			emit := func() {
				var b bytes.Buffer
				var names []string
				var els []*Elem
				for k, ix := range seq {
					els = append(els, items[ix].build(binding, uri, k))
					names = append(names, items[ix].String())
				}
				var rootDecls []NsDecl
				if place == "group" {
					g := &Elem{Prefix: "c19g", Local: "c19g", Decls: []NsDecl{{"c19g", "urn:c19:g"}}}
					if binding == "prefix" {
						g.Decls = append(g.Decls, NsDecl{"c19p", scopeZ})
					} else {
						g.Decls = append(g.Decls, NsDecl{"", scopeZ})
					}
					for _, e := range els {
						g.Kids = append(g.Kids, e)
					}
					g.write(&b)
				} else {
					if binding == "prefix" {
						rootDecls = []NsDecl{{"c19p", scopeZ}}
					}
					for _, e := range els {
						e.write(&b)
					}
				}
				n++
				visit(ScopeForest{
					Desc: fmt.Sprintf("binding=%s declared-at=%s items=[%s]", binding, place, strings.Join(names, " ")),
					Doc:  embed(rootDecls, place == "root/first", b.Bytes()),
				})
			}
			rec = func() {
				if len(seq) > 0 {
					emit()
				}
				if len(seq) == maxLen {
					return
				}
				for ix := range items {
					seq = append(seq, ix)
					rec()
					seq = seq[:len(seq)-1]
				}
			}
			rec()
		}
	}
	return n, nil
}

// Package datagen generates arbitrary payloads for the OpenPGP signer (which
// signs any byte string): binary data over the size ladder and text with the
// features RFC 4880 treats specially in cleartext / text-mode signatures
// (line ends, trailing white space, lines starting with "-" or "From ",
// missing final line end, non-ASCII). It does not import relic.
package datagen

import (
	"fmt"
	"strings"

	"verif/gen/shape"
)

var Ladder = []int{0, 1, 511, 512, 513, 4095, 4096, 4097, 65535, 65536, 65537, 1<<20 - 1, 1 << 20, 1<<20 + 1}

func binary(n int) []byte {
	b := make([]byte, n)
	for i := range b {
		b[i] = byte(i*131 + i>>8 + 7)
	}
	return b
}

func mk(name, class string, data []byte) shape.Shape {
	return shape.Shape{Name: "data/" + name, Class: class, File: "data.bin", Strict: true, Source: "generated",
		Build: func() ([]byte, error) { return data, nil }, Check: func([]byte) error { return nil }}
}

// Texts are the text payloads by class.
var Texts = []struct{ Class, Text string }{
	{"text-lf", "hello\nworld\n"},
	{"text-crlf", "hello\r\nworld\r\n"},
	{"text-no-final-eol", "hello\nworld"},
	{"text-trailing-whitespace", "hello \t \nworld\t\n  \n"},
	{"text-dash-lines", "- item\n-----BEGIN something\n--\nplain\n"},
	{"text-from-line", "From here\nFrom: x\n"},
	{"text-empty-lines", "\n\n\na\n\n"},
	{"text-only-newline", "\n"},
	{"text-lone-cr", "a\rb\r\nc\n"},
	{"text-utf8", "héllo wörld ✓\n日本語\n"},
	{"text-long-line", strings.Repeat("x", 20000) + "\n"},
	{"text-line-over-64KiB", "first\n" + strings.Repeat("z", 70000) + "\nlast\n"},
}

// Shapes: canonical (a two-line LF text) first. quick: every text class, empty
// input, and binary data of 1 / 4096 / 64 KiB+1 / 1 MiB+1 bytes. thorough: the
// whole ladder as binary and as text (lines of 61 characters).
func Shapes(thorough bool) []shape.Shape {
	var out []shape.Shape
	out = append(out, mk("text-lf", "canonical", []byte(Texts[0].Text)))
	for _, t := range Texts[1:] {
		out = append(out, mk(t.Class, t.Class, []byte(t.Text)))
	}
	out = append(out, mk("empty", "empty", nil))
	for _, n := range []int{1, 4096, 65537, 1<<20 + 1} {
		out = append(out, mk(fmt.Sprintf("binary-%d", n), fmt.Sprintf("binary-%d", n), binary(n)))
	}
	if !thorough {
		return out
	}
	seen := map[string]bool{}
	for _, s := range out {
		seen[s.Name] = true
	}
	for _, n := range Ladder {
		name := fmt.Sprintf("binary-%d", n)
		if !seen["data/"+name] {
			out = append(out, mk(name, name, binary(n)))
		}
		var sb strings.Builder
		for sb.Len() < n {
			sb.WriteString(strings.Repeat("t", 61) + "\n")
		}
		out = append(out, mk(fmt.Sprintf("text-%d", n), fmt.Sprintf("text-%d", n), []byte(sb.String()[:n])))
	}
	return out
}

// ---- OpenPGP packet length boundaries ----

// A LengthBoundary is one place where the encoding of an OpenPGP packet body
// length changes form (RFC 4880 §4.2): Last is the largest body length that
// still takes the form named first.
type LengthBoundary struct {
	Last int
	What string
}

// LengthBoundaries lists every such place up to 64 KiB: the new-format forms of
// §4.2.2 (one octet up to 191, two octets up to 8383, five octets beyond; a
// partial body length is a power of two and the first partial chunk has at
// least 512 octets) and the old-format forms of §4.2.1 (one octet up to 255,
// two octets up to 65535, four octets beyond).
func LengthBoundaries() []LengthBoundary {
	out := []LengthBoundary{
		{191, "new-format one-octet | two-octet length (RFC 4880 4.2.2.1/4.2.2.2)"},
		{255, "old-format one-octet | two-octet length (RFC 4880 4.2.1)"},
		{8383, "new-format two-octet | five-octet length (RFC 4880 4.2.2.2/4.2.2.3)"},
		{65535, "old-format two-octet | four-octet length (RFC 4880 4.2.1)"},
	}
	for k := 9; k <= 16; k++ {
		out = append(out, LengthBoundary{1<<k - 1, fmt.Sprintf("partial body length chunk of 2^%d octets (RFC 4880 4.2.2.4)", k)})
	}
	return out
}

// BoundaryBodyLengths returns, in ascending order and without duplicates, the
// packet body lengths Last-1, Last, Last+1, Last+2 of every LengthBoundary: two
// lengths on either side of each change of form (for a power of two 2^k: 2^k-2
// … 2^k+1).
func BoundaryBodyLengths() []int {
	seen := map[int]bool{}
	var out []int
	for _, b := range LengthBoundaries() {
		for d := -1; d <= 2; d++ {
			if n := b.Last + d; !seen[n] {
				seen[n] = true
				out = append(out, n)
			}
		}
	}
	for i := 1; i < len(out); i++ { // insertion sort: the list is short
		for j := i; j > 0 && out[j] < out[j-1]; j-- {
			out[j], out[j-1] = out[j-1], out[j]
		}
	}
	return out
}

// LiteralOverhead is the number of octets a literal data packet body holds
// besides the data (RFC 4880 §5.9): format octet, file name length octet, the
// file name, four date octets.
func LiteralOverhead(fileName string) int { return 6 + len(fileName) }

// BoundaryDocument returns a text document (lines of 60 characters, LF) of the
// length that makes the literal data packet of an inline signed message,
// which carries the document under the file name fileName, have a body of
// exactly bodyLen octets; ok is false when no such document exists.
func BoundaryDocument(bodyLen int, fileName string) (doc []byte, ok bool) {
	n := bodyLen - LiteralOverhead(fileName)
	if n < 0 {
		return nil, false
	}
	b := make([]byte, n)
	for i := range b {
		b[i] = byte('a' + (i/61+i%61+bodyLen)%26)
		if i%61 == 60 {
			b[i] = '\n'
		}
	}
	return b, true
}

// LengthBoundaryShapes: one document per BoundaryBodyLengths entry, stored
// under the base name file.
func LengthBoundaryShapes(file string) []shape.Shape {
	var out []shape.Shape
	for _, n := range BoundaryBodyLengths() {
		doc, ok := BoundaryDocument(n, file)
		if !ok {
			continue
		}
		s := mk(fmt.Sprintf("literal-body-%d", n), fmt.Sprintf("literal-packet-body-of-%d-octets", n), doc)
		s.File = file
		out = append(out, s)
	}
	return out
}

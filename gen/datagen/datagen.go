// Package datagen generates arbitrary payloads for the OpenPGP signer (which
// signs any byte string): binary data over the size ladder and text with the
// features RFC 4880 treats specially in cleartext / text-mode signatures
// (line ends, trailing white space, lines starting with "-" or "From ",
// missing final line end, non-ASCII). It does not import relic.
package datagen

import (
	"fmt"
	"strings"

	"verif/gen/shape"
)

var Ladder = []int{0, 1, 511, 512, 513, 4095, 4096, 4097, 65535, 65536, 65537, 1<<20 - 1, 1 << 20, 1<<20 + 1}

func binary(n int) []byte {
	b := make([]byte, n)
	for i := range b {
		b[i] = byte(i*131 + i>>8 + 7)
	}
	return b
}

func mk(name, class string, data []byte) shape.Shape {
	return shape.Shape{Name: "data/" + name, Class: class, File: "data.bin", Strict: true, Source: "generated",
		Build: func() ([]byte, error) { return data, nil }, Check: func([]byte) error { return nil }}
}

// Texts are the text payloads by class.
var Texts = []struct{ Class, Text string }{
	{"text-lf", "hello\nworld\n"},
	{"text-crlf", "hello\r\nworld\r\n"},
	{"text-no-final-eol", "hello\nworld"},
	{"text-trailing-whitespace", "hello \t \nworld\t\n  \n"},
	{"text-dash-lines", "- item\n-----BEGIN something\n--\nplain\n"},
	{"text-from-line", "From here\nFrom: x\n"},
	{"text-empty-lines", "\n\n\na\n\n"},
	{"text-only-newline", "\n"},
	{"text-lone-cr", "a\rb\r\nc\n"},
	{"text-utf8", "héllo wörld ✓\n日本語\n"},
	{"text-long-line", strings.Repeat("x", 20000) + "\n"},
	{"text-line-over-64KiB", "first\n" + strings.Repeat("z", 70000) + "\nlast\n"},
}

// Shapes: canonical (a two-line LF text) first. quick: every text class, empty
// input, and binary data of 1 / 4096 / 64 KiB+1 / 1 MiB+1 bytes. thorough: the
// whole ladder as binary and as text (lines of 61 characters).
func Shapes(thorough bool) []shape.Shape {
	var out []shape.Shape
	out = append(out, mk("text-lf", "canonical", []byte(Texts[0].Text)))
	for _, t := range Texts[1:] {
		out = append(out, mk(t.Class, t.Class, []byte(t.Text)))
	}
	out = append(out, mk("empty", "empty", nil))
	for _, n := range []int{1, 4096, 65537, 1<<20 + 1} {
		out = append(out, mk(fmt.Sprintf("binary-%d", n), fmt.Sprintf("binary-%d", n), binary(n)))
	}
	if !thorough {
		return out
	}
	seen := map[string]bool{}
	for _, s := range out {
		seen[s.Name] = true
	}
	for _, n := range Ladder {
		name := fmt.Sprintf("binary-%d", n)
		if !seen["data/"+name] {
			out = append(out, mk(name, name, binary(n)))
		}
		var sb strings.Builder
		for sb.Len() < n {
			sb.WriteString(strings.Repeat("t", 61) + "\n")
		}
		out = append(out, mk(fmt.Sprintf("text-%d", n), fmt.Sprintf("text-%d", n), []byte(sb.String()[:n])))
	}
	return out
}

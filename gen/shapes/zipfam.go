package shapes

import (
	"fmt"
	"strings"
)

// ZipBase returns the canonical unsigned archive of a zip-based package type
// (jar, apk, xap, vsix): the members the format needs plus ordinary payload.
func ZipBase(typ string) ZArchive {
	switch typ {
	case "jar":
		return ZArchive{Members: []ZMember{
			{Name: "META-INF/MANIFEST.MF", Data: []byte(JarManifest("\r\n"))},
			{Name: "hello.txt", Data: []byte("hello world\n")},
			{Name: "org/", Dir: true},
			{Name: "org/App.class", Data: Text(1, 700), Deflate: true},
		}}
	case "apk":
		return ZArchive{Members: []ZMember{
			{Name: "AndroidManifest.xml", Data: Text(2, 300), Deflate: true},
			{Name: "META-INF/MANIFEST.MF", Data: []byte("Manifest-Version: 1.0\r\nCreated-By: verif\r\n\r\n")},
			{Name: "classes.dex", Data: Text(3, 5000), Deflate: true},
			{Name: "res/raw/blob.bin", Data: Text(4, 64)},
		}}
	case "xap":
		return ZArchive{Members: []ZMember{
			{Name: "AppManifest.xaml", Data: []byte("<Deployment xmlns=\"http://schemas.microsoft.com/client/2007/deployment\"/>")},
			{Name: "App.dll", Data: Text(5, 3000), Deflate: true},
		}}
	case "vsix":
		return ZArchive{Members: []ZMember{
			{Name: "extension.vsixmanifest", Data: []byte("<PackageManifest Version=\"2.0.0\" xmlns=\"http://schemas.microsoft.com/developer/vsx-schema/2011\"/>"), Deflate: true},
			{Name: "lib/Extension.dll", Data: Text(6, 4000), Deflate: true},
			{Name: "readme.txt", Data: []byte("read me\r\n")},
			{Name: "[Content_Types].xml", Data: []byte(VsixContentTypes), Deflate: true},
		}}
	}
	panic("ZipBase: " + typ)
}

const VsixContentTypes = `<?xml version="1.0" encoding="utf-8"?><Types xmlns="http://schemas.openxmlformats.org/package/2006/content-types"><Default Extension="vsixmanifest" ContentType="text/xml" /><Default Extension="dll" ContentType="application/octet-stream" /><Default Extension="txt" ContentType="text/plain" /><Default Extension="xml" ContentType="text/xml" /><Default Extension="bin" ContentType="application/octet-stream" /><Default Extension="class" ContentType="application/octet-stream" /><Override PartName="/readme.txt" ContentType="text/plain" /></Types>`

// JarManifest: main attributes (one of mixed case, one longer than 72 bytes
// and therefore continued) and a per-entry section carrying a non-digest attribute.
func JarManifest(eol string) string {
	long := "Export-Package: " + strings.Repeat("org.example.pkg,", 5)
	first := long[:70]
	rest := long[70:]
	lines := []string{"Manifest-Version: 1.0", "Created-By: verif", "Bundle-SymbolicName: org.example", first, " " + rest, "",
		"Name: hello.txt", "Content-Type: text/plain", "", ""}
	return strings.Join(lines, eol)
}

// ZipHazard is one rewriting hazard applied to a base archive.
type ZipHazard struct {
	Name  string
	Apply func(a *ZArchive)
	Only  string // "" = every zip-based type
}

var launcher = []byte("#!/bin/sh\nexec java -jar \"$0\" \"$@\"\nexit 1\n")

func addMember(a *ZArchive, m ZMember) {
	// keep [Content_Types].xml last where present (OPC does not care, but it keeps the base recognisable)
	a.Members = append(a.Members, m)
}

// ZipHazards lists the single hazards. Every one keeps the archive
// well-formed for Go archive/zip and python3 zipfile (checked by the harness
// before relic sees it).
func ZipHazards() []ZipHazard {
	nameOf := func(n int) string { return strings.Repeat("n", n-4) + ".bin" }
	out := []ZipHazard{
		{Name: "canonical", Apply: func(a *ZArchive) {}},
		{Name: "all-deflated", Apply: func(a *ZArchive) {
			for i := range a.Members {
				a.Members[i].Deflate = !a.Members[i].Dir
			}
		}},
		{Name: "all-stored", Apply: func(a *ZArchive) {
			for i := range a.Members {
				a.Members[i].Deflate = false
			}
		}},
		{Name: "data-descriptors", Apply: func(a *ZArchive) {
			for i := range a.Members {
				a.Members[i].Desc = true
			}
		}},
		{Name: "prefixed-zip-offsets-adjusted", Apply: func(a *ZArchive) { a.Prefix, a.AdjustOffsets = launcher, true }},
		{Name: "prefixed-zip-offsets-not-adjusted", Apply: func(a *ZArchive) { a.Prefix, a.AdjustOffsets = launcher, false }},
		{Name: "data-between-members", Apply: func(a *ZArchive) { a.GapBetween = []byte{0xaa, 0x55, 0xaa, 0x55, 0xaa, 0x55, 0xaa} }},
		{Name: "data-before-central-directory", Apply: func(a *ZArchive) { a.GapBeforeCD = []byte{0xaa, 0x55, 0xaa, 0x55, 0xaa, 0x55, 0xaa} }},
		{Name: "empty-member-stored", Apply: func(a *ZArchive) { addMember(a, ZMember{Name: "empty.bin"}) }},
		{Name: "empty-member-deflated", Apply: func(a *ZArchive) { addMember(a, ZMember{Name: "empty.bin", Deflate: true}) }},
		{Name: "empty-member-stored-descriptor", Apply: func(a *ZArchive) { addMember(a, ZMember{Name: "empty.bin", Desc: true}) }},
		{Name: "empty-member-deflated-descriptor", Apply: func(a *ZArchive) { addMember(a, ZMember{Name: "empty.bin", Deflate: true, Desc: true}) }},
		{Name: "empty-member-first", Apply: func(a *ZArchive) {
			a.Members = append([]ZMember{{Name: "empty.bin", Desc: true}}, a.Members...)
		}},
		{Name: "name-1-byte", Apply: func(a *ZArchive) { addMember(a, ZMember{Name: "x", Data: []byte("one")}) }, Only: "jar,apk,xap"},
		{Name: "name-255-bytes", Apply: func(a *ZArchive) { addMember(a, ZMember{Name: nameOf(255), Data: []byte("n255")}) }},
		{Name: "name-300-bytes", Apply: func(a *ZArchive) { addMember(a, ZMember{Name: nameOf(300), Data: []byte("n300")}) }},
		{Name: "duplicate-names", Apply: func(a *ZArchive) {
			addMember(a, ZMember{Name: "dup.bin", Data: []byte("first copy")})
			addMember(a, ZMember{Name: "dup.bin", Data: []byte("second, different copy")})
		}},
		// payload members BELOW META-INF/ whose base names look like signature
		// material (only the immediate children of META-INF/ are signature files)
		{Name: "signature-like-names-below-meta-inf-subdirectories", Apply: func(a *ZArchive) {
			addMember(a, ZMember{Name: "META-INF/versions/11/OSGI-INF/MANIFEST.MF", Data: []byte("Manifest-Version: 1.0\r\nBundle-Name: nested\r\n\r\n")})
			addMember(a, ZMember{Name: "META-INF/licenses/bc/BC.SF", Data: []byte("not a signature file")})
			addMember(a, ZMember{Name: "META-INF/licenses/bc/BC.RSA", Data: []byte("not a signature block")})
			addMember(a, ZMember{Name: "META-INF/native/linux/SIG-check.so", Data: []byte("\x7fELF payload")})
			addMember(a, ZMember{Name: "META-INF/services/x.EC", Data: []byte("service entry")})
			addMember(a, ZMember{Name: "META-INF/maven/g/a/x.DSA", Data: []byte("maven metadata")})
		}, Only: "jar,apk"},
		{Name: "directory-entries", Apply: func(a *ZArchive) {
			addMember(a, ZMember{Name: "d1/", Dir: true})
			addMember(a, ZMember{Name: "d1/d2/", Dir: true})
			addMember(a, ZMember{Name: "d1/d2/leaf.bin", Data: []byte("leaf")})
		}},
		{Name: "central-directory-reversed", Apply: func(a *ZArchive) {
			for i := len(a.Members) - 1; i >= 0; i-- {
				a.CDOrder = append(a.CDOrder, i)
			}
		}},
		{Name: "archive-comment", Apply: func(a *ZArchive) { a.Comment = "zip comment" }},
		{Name: "member-comment-and-extra", Apply: func(a *ZArchive) {
			addMember(a, ZMember{Name: "meta.bin", Data: []byte("with metadata"), Comment: "member comment", Extra: []byte{0x77, 0x77, 4, 0, 1, 2, 3, 4}})
		}},
		// JAR-specific
		{Name: "meta-inf-other-files", Only: "jar", Apply: func(a *ZArchive) {
			addMember(a, ZMember{Name: "META-INF/services/org.example.Spi", Data: []byte("org.example.Impl\n")})
			addMember(a, ZMember{Name: "META-INF/LICENSE", Data: []byte("license text\n")})
			addMember(a, ZMember{Name: "META-INF/maven/pom.xml", Data: []byte("<project/>")})
		}},
		{Name: "meta-inf-file-with-sig-extension", Only: "jar", Apply: func(a *ZArchive) {
			addMember(a, ZMember{Name: "META-INF/NOTES.SIG", Data: []byte("not a signature: JAR spec reserves SIG-* names, not *.SIG\n")})
		}},
		{Name: "manifest-lf", Only: "jar", Apply: func(a *ZArchive) { a.Members[manifestIndex(a)].Data = []byte(JarManifest("\n")) }},
		{Name: "manifest-cr", Only: "jar", Apply: func(a *ZArchive) { a.Members[manifestIndex(a)].Data = []byte(JarManifest("\r")) }},
		{Name: "manifest-without-final-newline", Only: "jar", Apply: func(a *ZArchive) {
			a.Members[manifestIndex(a)].Data = []byte(strings.TrimRight(JarManifest("\r\n"), "\r\n"))
		}},
		{Name: "manifest-deflated", Only: "jar", Apply: func(a *ZArchive) { a.Members[manifestIndex(a)].Deflate = true }},
		{Name: "manifest-not-first", Only: "jar", Apply: func(a *ZArchive) {
			i := manifestIndex(a)
			m := a.Members[i]
			a.Members = append(append(append([]ZMember(nil), a.Members[:i]...), a.Members[i+1:]...), m)
		}},
		{Name: "manifest-entry-for-absent-file", Only: "jar", Apply: func(a *ZArchive) {
			// same line-end style as the rest of the manifest
			i := manifestIndex(a)
			eol := "\r\n"
			switch d := string(a.Members[i].Data); {
			case strings.Contains(d, "\r\n"):
			case strings.Contains(d, "\n"):
				eol = "\n"
			case strings.Contains(d, "\r"):
				eol = "\r"
			}
			d := strings.TrimRight(string(a.Members[i].Data), "\r\n") + eol + eol
			a.Members[i].Data = []byte(d + "Name: gone.txt" + eol + "X-Note: kept" + eol + eol)
		}},
		{Name: "manifest-mixed-line-ends", Only: "jar", Apply: func(a *ZArchive) {
			// JAR spec: newline = CR LF | LF | CR, chosen per line. Main section LF, per-entry section CR LF.
			i := manifestIndex(a)
			a.Members[i].Data = []byte("Manifest-Version: 1.0\nCreated-By: verif\n\nName: hello.txt\r\nContent-Type: text/plain\r\n\r\n")
		}},
		// VSIX / OPC-specific
		{Name: "existing-root-relationships", Only: "vsix", Apply: func(a *ZArchive) {
			addMember(a, ZMember{Name: "_rels/.rels", Data: []byte(`<?xml version="1.0" encoding="utf-8"?><Relationships xmlns="http://schemas.openxmlformats.org/package/2006/relationships"><Relationship Type="http://schemas.microsoft.com/developer/vsx-schema-design/2011/thumbnail" Target="/readme.txt" Id="R1" /></Relationships>`)})
		}},
		{Name: "part-relationships-of-payload-part", Only: "vsix", Apply: func(a *ZArchive) {
			addMember(a, ZMember{Name: "lib/_rels/Extension.dll.rels", Data: []byte(`<?xml version="1.0" encoding="utf-8"?><Relationships xmlns="http://schemas.openxmlformats.org/package/2006/relationships"><Relationship Type="http://example.com/rel/doc" Target="/readme.txt" Id="R9" /></Relationships>`)})
		}},
		{Name: "content-types-not-last", Only: "vsix", Apply: func(a *ZArchive) {
			n := len(a.Members)
			a.Members = append([]ZMember{a.Members[n-1]}, a.Members[:n-1]...)
		}},
	}
	// JAR manifest line-length boundaries: "No line may be longer than 72 bytes"
	// (JAR File Specification, Name-Value pairs and Sections), read with or
	// without the two-byte line end: a writer breaks a header line after 70 or
	// after 72 bytes and every continuation line (one leading space) after 69 or
	// 71 more. Header lines ("Name: value") of every length from one below the
	// first of these places to one above the last, for the first and for the
	// second break, once as a main attribute and once as the Name of a
	// per-entry section that carries a non-digest attribute.
	for _, h := range ManifestLineLengths() {
		h := h
		out = append(out,
			ZipHazard{Name: fmt.Sprintf("manifest-main-attribute-line-of-%d-bytes", h), Only: "jar", Apply: func(a *ZArchive) {
				i := manifestIndex(a)
				key := fmt.Sprintf("X-Line-Of-%d-Bytes: ", h)
				d := string(a.Members[i].Data)
				eol := firstLineEnd(d)
				line := FoldManifestLine(key+positional(h-len(key)), eol)
				if k := strings.Index(d, eol+eol); k >= 0 { // end of the main section
					a.Members[i].Data = []byte(d[:k+len(eol)] + line + d[k+len(eol):])
				} else {
					a.Members[i].Data = []byte(strings.TrimRight(d, "\r\n") + eol + line + eol)
				}
			}},
			ZipHazard{Name: fmt.Sprintf("manifest-entry-name-line-of-%d-bytes", h), Only: "jar", Apply: func(a *ZArchive) {
				name := "d/" + positional(h-len("Name: ")-2)
				addMember(a, ZMember{Name: name, Data: []byte("member with a long name")})
				i := manifestIndex(a)
				d := string(a.Members[i].Data)
				eol := firstLineEnd(d)
				a.Members[i].Data = []byte(strings.TrimRight(d, "\r\n") + eol + eol + FoldManifestLine("Name: "+name, eol) + "Content-Type: text/plain" + eol + eol)
			}})
	}
	return out
}

// ManifestLineLengths: the header line lengths around the first (70 | 72) and
// second (70+69 | 72+71) line break of a JAR manifest writer.
func ManifestLineLengths() []int {
	var out []int
	for h := 69; h <= 73; h++ {
		out = append(out, h)
	}
	for h := 138; h <= 144; h++ {
		out = append(out, h)
	}
	return out
}

// firstLineEnd returns the line end (CR LF, LF or CR) of the first line of d.
func firstLineEnd(d string) string {
	switch i := strings.IndexAny(d, "\r\n"); {
	case i < 0:
		return "\r\n"
	case d[i] == '\n':
		return "\n"
	case i+1 < len(d) && d[i+1] == '\n':
		return "\r\n"
	}
	return "\r"
}

// positional returns n bytes in which every position is recognisable (a
// dropped, doubled or moved byte changes the string).
func positional(n int) string {
	b := make([]byte, n)
	for i := range b {
		b[i] = "abcdefghijklmnopqrstuvwxyz0123456789"[(i+i/36)%36]
	}
	return string(b)
}

// FoldManifestLine writes one header line the way the specification allows it
// in every reading: at most 70 bytes before the line end, continuation lines
// start with one space.
func FoldManifestLine(line, eol string) string {
	var sb strings.Builder
	for i := 0; i < len(line); {
		n := 70
		if i > 0 {
			sb.WriteByte(' ')
			n = 69
		}
		j := i + n
		if j > len(line) {
			j = len(line)
		}
		sb.WriteString(line[i:j])
		sb.WriteString(eol)
		i = j
	}
	return sb.String()
}

func manifestIndex(a *ZArchive) int {
	for i, m := range a.Members {
		if m.Name == "META-INF/MANIFEST.MF" {
			return i
		}
	}
	return 0
}

// AppliesTo reports whether the hazard is enumerated for the type.
func (h ZipHazard) AppliesTo(typ string) bool {
	if h.Only == "" {
		return true
	}
	for _, t := range strings.Split(h.Only, ",") {
		if t == typ {
			return true
		}
	}
	return false
}

// ManifestLineEndStyles are the ways a JAR manifest may end its lines (JAR File
// Specification: newline is CR LF, LF or CR, chosen line by line): one style
// throughout, or a different one in every section ("mixed": the sections take
// CR, LF, CR LF in turn, starting with the main section).
var ManifestLineEndStyles = []string{"lf", "crlf", "cr", "mixed"}

// ManifestWrapPeriod lists the header line lengths from one byte below the
// first place a manifest writer breaks a line (70) to the second (70+69 = 139):
// one full period of the wrap, so that every later byte of the manifest, and
// with it every original line end, takes every position relative to a break.
func ManifestWrapPeriod() []int {
	var out []int
	for h := 69; h <= 139; h++ {
		out = append(out, h)
	}
	return out
}

// StyledJar returns the canonical JAR whose manifest is written in the given
// line-end style and carries one header line of h bytes: kind "main" = a main
// attribute, kind "entry" = the Name of an added per-entry section (with a
// non-digest attribute) for an added member of that name. Input lines are
// folded at 70 bytes.
func StyledJar(style, kind string, h int) ZArchive {
	a := ZipBase("jar")
	eolOf := func(section int) string {
		switch style {
		case "lf":
			return "\n"
		case "crlf":
			return "\r\n"
		case "cr":
			return "\r"
		}
		return []string{"\r", "\n", "\r\n"}[section%3]
	}
	var sb strings.Builder
	section := func(i int, lines ...string) {
		eol := eolOf(i)
		for _, l := range lines {
			sb.WriteString(FoldManifestLine(l, eol))
		}
		sb.WriteString(eol)
	}
	main := []string{"Manifest-Version: 1.0", "Created-By: verif", "Bundle-SymbolicName: org.example", "Export-Package: " + strings.Repeat("org.example.pkg,", 5)}
	if kind == "main" {
		key := fmt.Sprintf("X-Line-Of-%d-Bytes: ", h)
		main = append(main, key+positional(h-len(key)))
	}
	section(0, main...)
	section(1, "Name: hello.txt", "Content-Type: text/plain")
	if kind == "entry" {
		name := "d/" + positional(h-len("Name: ")-2)
		addMember(&a, ZMember{Name: name, Data: []byte("member with a long name")})
		section(2, "Name: "+name, "Content-Type: text/plain")
	}
	a.Members[manifestIndex(&a)].Data = []byte(sb.String())
	return a
}

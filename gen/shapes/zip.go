// Package shapes builds bounded families of well-formed input artifacts for
// the payload-preservation (C03) and re-signing (C08) harnesses. Builders are
// written from the format specifications and do not import relic. Fixture-
// derived shapes (Mach-O, DMG, xar, RPM, APPX) are structure-preserving edits
// of /repo/functest/packages files.
package shapes

import (
	"bytes"
	"compress/flate"
	"encoding/binary"
	"hash/crc32"
)

// ZMember is one ZIP member to write.
type ZMember struct {
	Name    string
	Data    []byte
	Deflate bool
	Desc    bool // bit 3 + 16-byte data descriptor with signature
	Extra   []byte
	Comment string
	Dir     bool // external attributes of a directory
}

// ZArchive describes a ZIP file (APPNOTE 6.3: local headers, central
// directory, end record) plus the rewriting hazards the harness enumerates.
type ZArchive struct {
	Members []ZMember
	// Prefix is non-ZIP data before the first local header (self-extractor
	// stub / launcher script). AdjustOffsets: offsets in the directory and end
	// record count from the start of the file (as `zip -A` leaves them);
	// otherwise from the start of the ZIP data (as `cat stub app.jar` leaves them).
	Prefix        []byte
	AdjustOffsets bool
	GapBetween    []byte // unrelated bytes between consecutive members
	GapBeforeCD   []byte // unrelated bytes between the last member and the directory
	CDOrder       []int  // central directory order as body indices (nil = body order)
	Comment       string // archive comment
}

func le16(b *bytes.Buffer, v int) { _ = binary.Write(b, binary.LittleEndian, uint16(v)) }
func le32(b *bytes.Buffer, v int64) {
	_ = binary.Write(b, binary.LittleEndian, uint32(v))
}

// Build serialises the archive.
func (a ZArchive) Build() []byte {
	var out bytes.Buffer
	out.Write(a.Prefix)
	base := int64(0)
	if !a.AdjustOffsets {
		base = int64(len(a.Prefix))
	}
	type rec struct {
		off          int64
		crc          uint32
		csize, usize int
		method       int
		flags        int
	}
	recs := make([]rec, len(a.Members))
	for i, m := range a.Members {
		data := m.Data
		method := 0
		if m.Deflate {
			var fb bytes.Buffer
			w, _ := flate.NewWriter(&fb, 6)
			w.Write(m.Data)
			w.Close()
			data = fb.Bytes()
			method = 8
		}
		crc := crc32.ChecksumIEEE(m.Data)
		flags := 0
		if m.Desc {
			flags |= 8
		}
		recs[i] = rec{int64(out.Len()) - base, crc, len(data), len(m.Data), method, flags}
		le32(&out, 0x04034b50)
		le16(&out, 20)
		le16(&out, flags)
		le16(&out, method)
		le16(&out, 0x6000)
		le16(&out, 0x5821)
		if m.Desc {
			le32(&out, 0)
			le32(&out, 0)
			le32(&out, 0)
		} else {
			le32(&out, int64(crc))
			le32(&out, int64(len(data)))
			le32(&out, int64(len(m.Data)))
		}
		le16(&out, len(m.Name))
		le16(&out, len(m.Extra))
		out.WriteString(m.Name)
		out.Write(m.Extra)
		out.Write(data)
		if m.Desc {
			le32(&out, 0x08074b50)
			le32(&out, int64(crc))
			le32(&out, int64(len(data)))
			le32(&out, int64(len(m.Data)))
		}
		if i < len(a.Members)-1 {
			out.Write(a.GapBetween)
		} else {
			out.Write(a.GapBeforeCD)
		}
	}
	order := a.CDOrder
	if order == nil {
		for i := range a.Members {
			order = append(order, i)
		}
	}
	cdStart := int64(out.Len())
	for _, i := range order {
		m, r := a.Members[i], recs[i]
		le32(&out, 0x02014b50)
		le16(&out, 0x031e)
		le16(&out, 20)
		le16(&out, r.flags)
		le16(&out, r.method)
		le16(&out, 0x6000)
		le16(&out, 0x5821)
		le32(&out, int64(r.crc))
		le32(&out, int64(r.csize))
		le32(&out, int64(r.usize))
		le16(&out, len(m.Name))
		le16(&out, len(m.Extra))
		le16(&out, len(m.Comment))
		le16(&out, 0)
		le16(&out, 0)
		if m.Dir {
			le32(&out, 0x41ed0010)
		} else {
			le32(&out, 0x81a40000)
		}
		le32(&out, r.off)
		out.WriteString(m.Name)
		out.Write(m.Extra)
		out.WriteString(m.Comment)
	}
	cdSize := int64(out.Len()) - cdStart
	le32(&out, 0x06054b50)
	le16(&out, 0)
	le16(&out, 0)
	le16(&out, len(order))
	le16(&out, len(order))
	le32(&out, cdSize)
	le32(&out, cdStart-base)
	le16(&out, len(a.Comment))
	out.WriteString(a.Comment)
	return out.Bytes()
}

// Text returns n bytes of compressible, position-dependent text.
func Text(seed, n int) []byte {
	b := make([]byte, n)
	for i := range b {
		b[i] = byte('a' + (i/7+seed*3+i%5)%26)
		if i%61 == 60 {
			b[i] = '\n'
		}
	}
	return b
}

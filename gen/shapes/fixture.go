package shapes

import (
	"bytes"
	"debug/macho"
	"encoding/binary"
	"fmt"
	"os"
	"path/filepath"
)

const Packages = "/repo/functest/packages"

// Fixture reads a functest package.
func Fixture(name string) []byte {
	b, err := os.ReadFile(filepath.Join(Packages, name))
	if err != nil {
		panic(err)
	}
	return b
}

// MachOThinSlices extracts every architecture of a fat file as a thin image.
func MachOThinSlices(fat []byte) ([][]byte, error) {
	ff, err := macho.NewFatFile(bytes.NewReader(fat))
	if err != nil {
		return nil, err
	}
	var out [][]byte
	for _, a := range ff.Arches {
		out = append(out, append([]byte(nil), fat[a.Offset:a.Offset+a.Size]...))
	}
	return out, nil
}

// MachOStrip removes the code signature from a thin image the way
// `codesign --remove-signature` does: drop the LC_CODE_SIGNATURE command
// (last command), shrink ncmds/sizeofcmds, cut the file at the signature
// offset and shrink __LINKEDIT accordingly.
func MachOStrip(img []byte) ([]byte, error) {
	f, err := macho.NewFile(bytes.NewReader(img))
	if err != nil {
		return nil, err
	}
	bo := f.ByteOrder
	hdr := 28
	if f.Magic == macho.Magic64 {
		hdr = 32
	}
	out := append([]byte(nil), img...)
	pos := hdr
	for i, l := range f.Loads {
		raw := l.Raw()
		cmd := bo.Uint32(raw)
		if cmd == 0x1d {
			if i != len(f.Loads)-1 {
				return nil, fmt.Errorf("LC_CODE_SIGNATURE is not the last load command")
			}
			sigOff := int(bo.Uint32(raw[8:]))
			for k := pos; k < pos+len(raw); k++ {
				out[k] = 0
			}
			bo.PutUint32(out[16:], f.Ncmd-1)
			bo.PutUint32(out[20:], f.Cmdsz-uint32(len(raw)))
			out = out[:sigOff]
			// shrink __LINKEDIT
			p2 := hdr
			for _, l2 := range f.Loads {
				r2 := l2.Raw()
				c2 := bo.Uint32(r2)
				name := ""
				if len(r2) >= 24 {
					name = string(bytes.TrimRight(r2[8:24], "\x00"))
				}
				if c2 == uint32(macho.LoadCmdSegment64) && name == "__LINKEDIT" {
					off := bo.Uint64(r2[40:])
					bo.PutUint64(out[p2+48:], uint64(sigOff)-off)
					bo.PutUint64(out[p2+32:], (uint64(sigOff)-off+0xfff)&^0xfff)
				} else if c2 == uint32(macho.LoadCmdSegment) && name == "__LINKEDIT" {
					off := bo.Uint32(r2[32:])
					bo.PutUint32(out[p2+36:], uint32(sigOff)-off)
					bo.PutUint32(out[p2+28:], (uint32(sigOff)-off+0xfff)&^0xfff)
				}
				p2 += len(r2)
			}
			return out, nil
		}
		pos += len(raw)
	}
	return out, nil // was not signed
}

var _ = binary.LittleEndian

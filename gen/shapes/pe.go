package shapes

import (
	"bytes"
	"encoding/binary"
	"fmt"
)

// PESpec describes a minimal PE image (PE/COFF specification §2-§4): DOS
// header, PE signature, COFF header, optional header with 16 data
// directories, section table, section data laid out contiguously from
// SizeOfHeaders, then an overlay.
type PESpec struct {
	PE64          bool
	Bss           bool // a middle section with SizeOfRawData 0 / PointerToRawData 0
	UnalignedLast bool // last section's SizeOfRawData is not a multiple of FileAlignment
	Overlay       int  // bytes appended after the last section
	HeaderGap     int  // whole FileAlignment units between SizeOfHeaders and the first section
	Dirs          int  // NumberOfRvaAndSizes (0 = 16)
}

func (s PESpec) ID() string {
	bits := 32
	if s.PE64 {
		bits = 64
	}
	return fmt.Sprintf("pe%d/bss=%v/unaligned-last=%v/overlay=%d/hdrgap=%d", bits, s.Bss, s.UnalignedLast, s.Overlay, s.HeaderGap)
}

// Build serialises the image.
func (s PESpec) Build() []byte {
	const fileAlign, sectAlign = 0x200, 0x1000
	type sec struct {
		name             string
		raw, virt, chars uint32
	}
	secs := []sec{{".text", 0x400, 0x3f0, 0x60000020}}
	if s.Bss {
		secs = append(secs, sec{".bss", 0, 0x1234, 0xC0000080})
	}
	last := sec{".rsrc", 0x200, 0x1f0, 0x40000040}
	if s.UnalignedLast {
		last.raw = 0x1e5
		last.virt = 0x1e5
	}
	secs = append(secs, last)
	optSize := 224
	magic := uint16(0x10b)
	machine := uint16(0x14c)
	chars := uint16(0x0102)
	if s.PE64 {
		optSize, magic, machine, chars = 240, 0x20b, 0x8664, 0x0022
	}
	ndirs := 16
	if s.Dirs != 0 {
		ndirs = s.Dirs
		optSize -= (16 - ndirs) * 8
	}
	const peOff = 0x80
	hdrEnd := peOff + 4 + 20 + optSize + 40*len(secs)
	sizeOfHeaders := (hdrEnd + fileAlign - 1) / fileAlign * fileAlign
	le := binary.LittleEndian
	var b bytes.Buffer
	dos := make([]byte, peOff)
	copy(dos, "MZ")
	le.PutUint32(dos[0x3c:], peOff)
	copy(dos[0x40:], "This program cannot be run in DOS mode.\r\n$")
	b.Write(dos)
	b.WriteString("PE\x00\x00")
	w16 := func(v uint16) { _ = binary.Write(&b, le, v) }
	w32 := func(v uint32) { _ = binary.Write(&b, le, v) }
	w64 := func(v uint64) { _ = binary.Write(&b, le, v) }
	w16(machine)
	w16(uint16(len(secs)))
	w32(0x5f000000) // timestamp
	w32(0)
	w32(0)
	w16(uint16(optSize))
	w16(chars)
	// optional header
	rawStart := uint32(sizeOfHeaders + s.HeaderGap*fileAlign)
	va := uint32(sectAlign)
	type placed struct{ ptr, va uint32 }
	var pl []placed
	ptr := rawStart
	for _, x := range secs {
		p := placed{ptr, va}
		if x.raw == 0 {
			p.ptr = 0
		}
		pl = append(pl, p)
		ptr += x.raw
		span := x.virt
		if x.raw > span {
			span = x.raw
		}
		va += (span + sectAlign - 1) / sectAlign * sectAlign
	}
	sizeOfImage := va
	w16(magic)
	b.Write([]byte{14, 0}) // linker version
	w32(0x400)             // SizeOfCode
	w32(0x200)             // SizeOfInitializedData
	w32(0)                 // SizeOfUninitializedData
	w32(0x1000)            // AddressOfEntryPoint
	w32(0x1000)            // BaseOfCode
	if s.PE64 {
		w64(0x140000000)
	} else {
		w32(0x2000) // BaseOfData
		w32(0x400000)
	}
	w32(sectAlign)
	w32(fileAlign)
	w16(6)
	w16(0)
	w16(0)
	w16(0)
	w16(6)
	w16(0)
	w32(0) // Win32VersionValue
	w32(sizeOfImage)
	w32(uint32(sizeOfHeaders))
	w32(0)      // CheckSum
	w16(3)      // console subsystem
	w16(0x8540) // DllCharacteristics
	if s.PE64 {
		w64(0x100000)
		w64(0x1000)
		w64(0x100000)
		w64(0x1000)
	} else {
		w32(0x100000)
		w32(0x1000)
		w32(0x100000)
		w32(0x1000)
	}
	w32(0) // LoaderFlags
	w32(uint32(ndirs))
	for i := 0; i < ndirs; i++ {
		w32(0)
		w32(0)
	}
	for i, x := range secs {
		name := make([]byte, 8)
		copy(name, x.name)
		b.Write(name)
		w32(x.virt)
		w32(pl[i].va)
		w32(x.raw)
		w32(pl[i].ptr)
		w32(0)
		w32(0)
		w16(0)
		w16(0)
		w32(x.chars)
	}
	b.Write(make([]byte, sizeOfHeaders-b.Len()))
	for i := 0; i < s.HeaderGap*fileAlign; i++ {
		b.WriteByte(byte(0xE0 + i%7))
	}
	for i, x := range secs {
		for k := uint32(0); k < x.raw; k++ {
			b.WriteByte(byte(1 + (int(k)*7+i*31)%250))
		}
	}
	for i := 0; i < s.Overlay; i++ {
		b.WriteByte(byte(0xA1 + i))
	}
	return b.Bytes()
}

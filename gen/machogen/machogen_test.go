package machogen

import (
	"bytes"
	"debug/macho"
	"encoding/xml"
	"io"
	"testing"
)

func TestShapes(t *testing.T) {
	for _, thorough := range []bool{false, true} {
		shapes := Shapes(thorough)
		if shapes[0].Class != "canonical" {
			t.Fatalf("first shape is %q", shapes[0].Class)
		}
		names := map[string]bool{}
		nStrict := 0
		for _, s := range shapes {
			if names[s.Name] {
				t.Errorf("duplicate name %q", s.Name)
			}
			names[s.Name] = true
			if s.File != FileName || s.Class == "" || s.Source == "" || s.Class == "fixture-unreadable" {
				t.Errorf("%s: incomplete shape", s.Name)
			}
			b, err := s.Build()
			if err != nil {
				t.Errorf("%s: build: %v", s.Name, err)
				continue
			}
			if err := s.Check(b); err != nil {
				t.Errorf("%s: check: %v", s.Name, err)
			}
			b2, _ := s.Build()
			if !bytes.Equal(b, b2) {
				t.Errorf("%s: not deterministic", s.Name)
			}
			if s.Strict {
				nStrict++
				if len(b)%8 != 0 {
					t.Errorf("%s: strict shape of %d bytes", s.Name, len(b))
				}
			}
			t.Logf("%-75s %-34s strict=%-5v %d", s.Name, s.Class, s.Strict, len(b))
		}
		t.Logf("thorough=%v: %d shapes, %d strict", thorough, len(shapes), nStrict)
	}
}

// strip must only touch the header fields it names, the removed command and
// the cut-off tail.
func TestStripIsStructurePreserving(t *testing.T) {
	for _, s := range slices[1:] {
		orig, err := s.read()
		if err != nil {
			t.Fatal(err)
		}
		st, err := strip(orig)
		if err != nil {
			t.Fatal(err)
		}
		of, _ := macho.NewFile(bytes.NewReader(orig))
		sf, err := macho.NewFile(bytes.NewReader(st))
		if err != nil {
			t.Fatal(err)
		}
		if len(sf.Loads) != len(of.Loads)-1 || sf.Cmdsz != of.Cmdsz-16 {
			t.Errorf("%s: ncmds/sizeofcmds wrong", s.label)
		}
		// all sections keep their bytes
		for i, sec := range of.Sections {
			if sec.Offset == 0 {
				continue
			}
			a, _ := io.ReadAll(sec.Open())
			b, _ := io.ReadAll(sf.Sections[i].Open())
			if !bytes.Equal(a, b) {
				t.Errorf("%s: section %s changed", s.label, sec.Name)
			}
		}
		// differing bytes in the common prefix are confined to the header
		// and load commands
		for i := range st {
			if st[i] != orig[i] && i >= 32+int(of.Cmdsz) {
				t.Fatalf("%s: byte %d behind the load commands changed", s.label, i)
			}
		}
		// growing by 0 bytes is the identity
		g, err := grow(st, 0)
		if err != nil || !bytes.Equal(g, st) {
			t.Errorf("%s: grow(0) is not the identity (%v)", s.label, err)
		}
	}
}

func TestCheckRejects(t *testing.T) {
	b, _ := Shapes(false)[0].Build()
	if CheckSigned(b) == nil {
		t.Error("unsigned image passes CheckSigned")
	}
	if CheckUnsigned(append(append([]byte(nil), b...), 0)) == nil {
		t.Error("trailing byte behind __LINKEDIT not noticed")
	}
	if CheckUnsigned(b[:len(b)-1]) == nil {
		t.Error("truncation not noticed")
	}
	sb, _ := slices[1].read()
	if CheckUnsigned(sb) == nil {
		t.Error("signed image passes CheckUnsigned")
	}
	if err := CheckSigned(sb); err != nil {
		t.Error(err)
	}
}

func TestPlists(t *testing.T) {
	for name, b := range map[string][]byte{"info": InfoPlist(), "ent": Entitlements(), "res": Resources()} {
		d := xml.NewDecoder(bytes.NewReader(b))
		for {
			_, err := d.Token()
			if err == io.EOF {
				break
			}
			if err != nil {
				t.Fatalf("%s: %v", name, err)
			}
		}
		if !bytes.Contains(b, []byte("<plist version=\"1.0\">")) {
			t.Errorf("%s: no plist element", name)
		}
	}
	if !bytes.Contains(InfoPlist(), []byte(BundleID)) {
		t.Error("bundle id missing")
	}
}

// Package machogen is a bounded-exhaustive shape generator for thin Mach-O
// executables. It does not import relic: fixture slices are taken apart and
// edited with debug/macho offsets, the from-scratch images are written from
// the Mach-O file format reference (<mach-o/loader.h>).
//
// What a code signer needs from its input (and what Check asserts):
//
//   - __LINKEDIT is the last segment and ends exactly at the end of the file
//     (the signature blob is appended to it);
//   - there are 16 spare bytes between the end of the load commands and the
//     first section's file data for a new LC_CODE_SIGNATURE command;
//   - an existing LC_CODE_SIGNATURE names a blob that ends with __LINKEDIT.
package machogen

import (
	"bytes"
	"crypto/sha1"
	"crypto/sha256"
	"debug/macho"
	"encoding/base64"
	"encoding/binary"
	"errors"
	"fmt"
	"io"
	"os"

	"verif/gen/shape"
)

const (
	// FileName is the base name the shapes must be stored under (no
	// extension: Mach-O is detected by magic).
	FileName = "m"

	fixtureSlim = "/repo/functest/packages/slimfile.app/dummyapp"
	fixtureFat  = "/repo/functest/packages/fatfile.app/Contents/MacOS/dummy"

	lcSegment       = 0x1
	lcSymtab        = 0x2
	lcUnixThread    = 0x5
	lcDysymtab      = 0xb
	lcSegment64     = 0x19
	lcCodeSignature = 0x1d
	lcDyldInfo      = 0x22
	lcDyldInfoOnly  = 0x80000022

	sigMagic = 0xfade0cc0 // embedded signature superblob
)

// BundleID is the identifier carried by InfoPlist and expected as the
// signer's bundle-id flag.
const BundleID = "com.example.verif"

// ---- reading ----

type loadCmd struct {
	cmd uint32
	off int // file offset of the command
	raw []byte
}

type image struct {
	f     *macho.File
	bo    binary.ByteOrder
	is64  bool
	hdrSz int
	cmds  []loadCmd
}

func parse(b []byte) (*image, error) {
	f, err := macho.NewFile(bytes.NewReader(b))
	if err != nil {
		return nil, err
	}
	im := &image{f: f, bo: f.ByteOrder, is64: f.Magic == macho.Magic64, hdrSz: 28}
	if im.is64 {
		im.hdrSz = 32
	}
	off := im.hdrSz
	for _, l := range f.Loads {
		raw := l.Raw()
		if len(raw) < 8 {
			return nil, errors.New("macho: load command shorter than 8 bytes")
		}
		im.cmds = append(im.cmds, loadCmd{cmd: im.bo.Uint32(raw), off: off, raw: raw})
		off += len(raw)
	}
	if off != im.hdrSz+int(f.Cmdsz) {
		return nil, fmt.Errorf("macho: load commands take %d bytes, header says %d", off-im.hdrSz, f.Cmdsz)
	}
	if len(im.cmds) != int(f.Ncmd) {
		return nil, fmt.Errorf("macho: %d load commands, header says %d", len(im.cmds), f.Ncmd)
	}
	return im, nil
}

func (im *image) find(cmd uint32) *loadCmd {
	for i := range im.cmds {
		if im.cmds[i].cmd == cmd {
			return &im.cmds[i]
		}
	}
	return nil
}

// segment returns the load command of the named segment.
func (im *image) segment(name string) *loadCmd {
	for i := range im.cmds {
		c := &im.cmds[i]
		if (c.cmd == lcSegment || c.cmd == lcSegment64) && cstr(c.raw[8:24]) == name {
			return c
		}
	}
	return nil
}

func cstr(b []byte) string {
	if i := bytes.IndexByte(b, 0); i >= 0 {
		b = b[:i]
	}
	return string(b)
}

// segment command field offsets: vmsize, fileoff, filesize
func (im *image) segFields(c *loadCmd) (vmsize, fileoff, filesize uint64) {
	if c.cmd == lcSegment64 {
		return im.bo.Uint64(c.raw[32:]), im.bo.Uint64(c.raw[40:]), im.bo.Uint64(c.raw[48:])
	}
	return uint64(im.bo.Uint32(c.raw[28:])), uint64(im.bo.Uint32(c.raw[32:])), uint64(im.bo.Uint32(c.raw[36:]))
}

// ---- structure-preserving edits ----

func roundUp(n, a uint64) uint64 { return (n + a - 1) / a * a }

// setLinkedit rewrites filesize and vmsize of __LINKEDIT in b so that the
// segment ends at fileEnd.
func setLinkedit(b []byte, im *image, fileEnd uint64) error {
	le := im.segment("__LINKEDIT")
	if le == nil {
		return errors.New("macho: no __LINKEDIT")
	}
	vmsize, fileoff, _ := im.segFields(le)
	if fileEnd < fileoff {
		return errors.New("macho: __LINKEDIT would end before it starts")
	}
	page := uint64(0x1000)
	if vmsize%0x4000 == 0 {
		page = 0x4000
	}
	newSize := fileEnd - fileoff
	newVM := roundUp(newSize, page)
	if newVM == 0 {
		newVM = page
	}
	if le.cmd == lcSegment64 {
		im.bo.PutUint64(b[le.off+32:], newVM)
		im.bo.PutUint64(b[le.off+48:], newSize)
	} else {
		im.bo.PutUint32(b[le.off+28:], uint32(newVM))
		im.bo.PutUint32(b[le.off+36:], uint32(newSize))
	}
	return nil
}

// strip removes an embedded code signature: the LC_CODE_SIGNATURE command is
// deleted (later commands move down, the freed bytes are zeroed, ncmds and
// sizeofcmds shrink), the file is cut at the signature's dataoff and
// __LINKEDIT shrinks to the new end of file. An image without a signature is
// returned unchanged.
func strip(orig []byte) ([]byte, error) {
	im, err := parse(orig)
	if err != nil {
		return nil, err
	}
	cs := im.find(lcCodeSignature)
	if cs == nil {
		return append([]byte(nil), orig...), nil
	}
	if len(cs.raw) != 16 {
		return nil, errors.New("macho: LC_CODE_SIGNATURE is not 16 bytes")
	}
	dataoff := uint64(im.bo.Uint32(cs.raw[8:]))
	datasize := uint64(im.bo.Uint32(cs.raw[12:]))
	if dataoff+datasize != uint64(len(orig)) {
		return nil, errors.New("macho: signature does not end at end of file")
	}
	b := append([]byte(nil), orig[:dataoff]...)
	end := im.hdrSz + int(im.f.Cmdsz)
	copy(b[cs.off:], b[cs.off+16:end])
	for i := end - 16; i < end; i++ {
		b[i] = 0
	}
	im.bo.PutUint32(b[16:], im.f.Ncmd-1)
	im.bo.PutUint32(b[20:], im.f.Cmdsz-16)
	// offsets of the commands behind the removed one changed: re-read
	im2, err := parse(b)
	if err != nil {
		return nil, fmt.Errorf("after removing LC_CODE_SIGNATURE: %w", err)
	}
	if err := setLinkedit(b, im2, dataoff); err != nil {
		return nil, err
	}
	return b, nil
}

// grow appends k zero bytes to an unsigned image and extends __LINKEDIT over
// them (unreferenced padding at the end of __LINKEDIT, like the alignment
// padding codesign itself inserts in front of a signature).
func grow(unsigned []byte, k int) ([]byte, error) {
	im, err := parse(unsigned)
	if err != nil {
		return nil, err
	}
	if im.find(lcCodeSignature) != nil {
		return nil, errors.New("macho: cannot grow a signed image")
	}
	b := append(append([]byte(nil), unsigned...), make([]byte, k)...)
	if err := setLinkedit(b, im, uint64(len(b))); err != nil {
		return nil, err
	}
	return b, nil
}

// ---- fixtures ----

type slice struct {
	label string // stable name
	path  string
	cpu   macho.Cpu // 0: the file is thin
}

var slices = []slice{
	{"slim-arm64", fixtureSlim, 0},
	{"fat-amd64", fixtureFat, macho.CpuAmd64},
	{"fat-arm64", fixtureFat, macho.CpuArm64},
}

func (s slice) read() ([]byte, error) {
	b, err := os.ReadFile(s.path)
	if err != nil {
		return nil, err
	}
	if s.cpu == 0 {
		return b, nil
	}
	ff, err := macho.NewFatFile(bytes.NewReader(b))
	if err != nil {
		return nil, err
	}
	for _, a := range ff.Arches {
		if a.Cpu == s.cpu {
			return io.ReadAll(io.NewSectionReader(bytes.NewReader(b), int64(a.Offset), int64(a.Size)))
		}
	}
	return nil, fmt.Errorf("macho: no %v slice in %s", s.cpu, s.path)
}

// ---- from-scratch images ----

// scratch describes a minimal static executable: header, __PAGEZERO, __TEXT
// with one __text section, __LINKEDIT holding an (empty) symbol table and a
// string table of linkedit bytes, LC_SYMTAB, LC_UNIXTHREAD.
type scratch struct {
	bits      int // 64: x86_64, 32: i386
	textPages int
	linkedit  int // bytes in __LINKEDIT
}

func (s scratch) build() ([]byte, error) {
	le := binary.LittleEndian
	var cmds bytes.Buffer
	ncmds := 0
	w32 := func(v uint32) { binary.Write(&cmds, le, v) }
	w64 := func(v uint64) { binary.Write(&cmds, le, v) }
	name16 := func(n string) {
		var b [16]byte
		copy(b[:], n)
		cmds.Write(b[:])
	}
	textSize := uint64(s.textPages) * 4096
	code := []byte{0xb8, 0x01, 0x00, 0x00, 0x02, 0x31, 0xff, 0x0f, 0x05, 0x90, 0x90, 0x90, 0x90, 0x90, 0x90, 0x90} // exit(0)
	base := uint64(0x100000000)
	if s.bits == 32 {
		base = 0x1000
		code = []byte{0x31, 0xc0, 0x40, 0x31, 0xdb, 0x53, 0x53, 0xcd, 0x80, 0x90, 0x90, 0x90, 0x90, 0x90, 0x90, 0x90}
	}
	codeOff := textSize - uint64(len(code))
	seg := func(name string, vmaddr, vmsize, fileoff, filesize uint64, prot uint32, nsects uint32) {
		ncmds++
		if s.bits == 64 {
			w32(lcSegment64)
			w32(72 + 80*nsects)
			name16(name)
			w64(vmaddr)
			w64(vmsize)
			w64(fileoff)
			w64(filesize)
		} else {
			w32(lcSegment)
			w32(56 + 68*nsects)
			name16(name)
			w32(uint32(vmaddr))
			w32(uint32(vmsize))
			w32(uint32(fileoff))
			w32(uint32(filesize))
		}
		w32(prot)
		w32(prot)
		w32(nsects)
		w32(0)
	}
	seg("__PAGEZERO", 0, base, 0, 0, 0, 0)
	seg("__TEXT", base, textSize, 0, textSize, 5, 1)
	name16("__text")
	name16("__TEXT")
	if s.bits == 64 {
		w64(base + codeOff)
		w64(uint64(len(code)))
	} else {
		w32(uint32(base + codeOff))
		w32(uint32(len(code)))
	}
	w32(uint32(codeOff)) // offset
	w32(4)               // align 2^4
	w32(0)               // reloff
	w32(0)               // nreloc
	w32(0x80000400)      // S_ATTR_PURE_INSTRUCTIONS | S_ATTR_SOME_INSTRUCTIONS
	w32(0)               // reserved1
	w32(0)               // reserved2
	if s.bits == 64 {
		w32(0) // reserved3
	}
	leVM := roundUp(uint64(s.linkedit), 4096)
	if leVM == 0 {
		leVM = 4096
	}
	seg("__LINKEDIT", base+textSize, leVM, textSize, uint64(s.linkedit), 1, 0)
	ncmds++
	w32(lcSymtab)
	w32(24)
	w32(uint32(textSize)) // symoff
	w32(0)                // nsyms
	w32(uint32(textSize)) // stroff
	w32(uint32(s.linkedit))
	ncmds++
	w32(lcUnixThread)
	if s.bits == 64 {
		w32(8 + 8 + 21*8)
		w32(4)  // x86_THREAD_STATE64
		w32(42) // count in uint32s
		for i := 0; i < 21; i++ {
			if i == 16 { // rip
				w64(base + codeOff)
			} else {
				w64(0)
			}
		}
	} else {
		w32(8 + 8 + 16*4)
		w32(1)  // i386_THREAD_STATE
		w32(16) // count
		for i := 0; i < 16; i++ {
			if i == 10 { // eip
				w32(uint32(base + codeOff))
			} else {
				w32(0)
			}
		}
	}
	var out bytes.Buffer
	h := func(v uint32) { binary.Write(&out, le, v) }
	if s.bits == 64 {
		h(0xfeedfacf)
		h(0x01000007) // CPU_TYPE_X86_64
		h(3)          // CPU_SUBTYPE_X86_64_ALL
	} else {
		h(0xfeedface)
		h(7) // CPU_TYPE_I386
		h(3) // CPU_SUBTYPE_I386_ALL
	}
	h(2) // MH_EXECUTE
	h(uint32(ncmds))
	h(uint32(cmds.Len()))
	h(1) // MH_NOUNDEFS
	if s.bits == 64 {
		h(0)
	}
	out.Write(cmds.Bytes())
	if uint64(out.Len())+16 > codeOff {
		return nil, errors.New("macho: load commands collide with __text")
	}
	out.Write(make([]byte, int(codeOff)-out.Len()))
	out.Write(code)
	// string table: a space and NULs, like ld writes for an empty table
	st := make([]byte, s.linkedit)
	if len(st) > 0 {
		st[0] = ' '
	}
	out.Write(st)
	return out.Bytes(), nil
}

// ---- checks ----

// CheckUnsigned asserts that b is a well-formed thin Mach-O image without a
// code signature that a signer can extend.
func CheckUnsigned(b []byte) error { return check(b, false) }

// CheckSigned asserts that b is a well-formed thin Mach-O image carrying an
// embedded signature blob that ends with __LINKEDIT at the end of the file.
func CheckSigned(b []byte) error { return check(b, true) }

func check(b []byte, wantSig bool) error {
	im, err := parse(b)
	if err != nil {
		return err
	}
	size := uint64(len(b))
	// segments: inside the file, non-overlapping, __LINKEDIT last
	type ext struct {
		name   string
		lo, hi uint64
	}
	var segs []ext
	var lastSeg string
	for i := range im.cmds {
		c := &im.cmds[i]
		if c.cmd != lcSegment && c.cmd != lcSegment64 {
			continue
		}
		vmsize, off, fsz := im.segFields(c)
		name := cstr(c.raw[8:24])
		if off+fsz > size {
			return fmt.Errorf("macho: segment %s runs past end of file", name)
		}
		if fsz > vmsize {
			return fmt.Errorf("macho: segment %s filesize %d > vmsize %d", name, fsz, vmsize)
		}
		for _, e := range segs {
			if fsz != 0 && e.hi > e.lo && off < e.hi && e.lo < off+fsz {
				return fmt.Errorf("macho: segments %s and %s overlap in the file", e.name, name)
			}
		}
		segs = append(segs, ext{name, off, off + fsz})
		lastSeg = name
	}
	if lastSeg != "__LINKEDIT" {
		return fmt.Errorf("macho: last segment is %q, not __LINKEDIT", lastSeg)
	}
	le := segs[len(segs)-1]
	for _, e := range segs[:len(segs)-1] {
		if e.hi > le.lo {
			return fmt.Errorf("macho: segment %s lies behind the start of __LINKEDIT", e.name)
		}
	}
	if le.hi != size {
		return fmt.Errorf("macho: __LINKEDIT ends at %d, file at %d", le.hi, size)
	}
	// link-edit tables lie inside __LINKEDIT
	inLE := func(what string, off, n uint64) error {
		if n == 0 {
			return nil
		}
		if off < le.lo || off+n > le.hi {
			return fmt.Errorf("macho: %s [%d,+%d) outside __LINKEDIT [%d,%d)", what, off, n, le.lo, le.hi)
		}
		return nil
	}
	var sigOff, sigLen uint64
	haveSig := false
	for i := range im.cmds {
		c := &im.cmds[i]
		u32 := func(o int) uint64 { return uint64(im.bo.Uint32(c.raw[o:])) }
		switch c.cmd {
		case lcCodeSignature:
			if haveSig {
				return errors.New("macho: two LC_CODE_SIGNATURE commands")
			}
			if len(c.raw) != 16 {
				return errors.New("macho: LC_CODE_SIGNATURE is not 16 bytes")
			}
			haveSig, sigOff, sigLen = true, u32(8), u32(12)
			if err := inLE("signature", sigOff, sigLen); err != nil {
				return err
			}
		case 0x1e, 0x26, 0x29, 0x2b, 0x2e, 0x80000033, 0x80000034: // linkedit_data_command
			if len(c.raw) != 16 {
				return fmt.Errorf("macho: linkedit data command %#x is not 16 bytes", c.cmd)
			}
			if err := inLE(fmt.Sprintf("linkedit data %#x", c.cmd), u32(8), u32(12)); err != nil {
				return err
			}
		case lcSymtab:
			if len(c.raw) != 24 {
				return errors.New("macho: LC_SYMTAB is not 24 bytes")
			}
			entry := uint64(12)
			if im.is64 {
				entry = 16
			}
			if err := inLE("symbol table", u32(8), u32(12)*entry); err != nil {
				return err
			}
			if err := inLE("string table", u32(16), u32(20)); err != nil {
				return err
			}
		case lcDyldInfo, lcDyldInfoOnly:
			if len(c.raw) != 48 {
				return errors.New("macho: LC_DYLD_INFO is not 48 bytes")
			}
			for o := 8; o < 48; o += 8 {
				if err := inLE("dyld info", u32(o), u32(o+4)); err != nil {
					return err
				}
			}
		}
	}
	if wantSig {
		if !haveSig {
			return errors.New("macho: no LC_CODE_SIGNATURE")
		}
		if sigOff+sigLen != size {
			return errors.New("macho: signature does not end at end of file")
		}
		if sigLen < 12 || binary.BigEndian.Uint32(b[sigOff:]) != sigMagic {
			return errors.New("macho: signature is not an embedded-signature superblob")
		}
		if uint64(binary.BigEndian.Uint32(b[sigOff+4:])) > sigLen {
			return errors.New("macho: signature superblob longer than its slot")
		}
	} else {
		if haveSig {
			return errors.New("macho: unexpected LC_CODE_SIGNATURE")
		}
		// room for one more 16-byte load command in front of the first section
		first := size
		for _, s := range im.f.Sections {
			if s.Size != 0 && s.Offset != 0 && uint64(s.Offset) < first {
				first = uint64(s.Offset)
			}
		}
		endCmds := uint64(im.hdrSz) + uint64(im.f.Cmdsz)
		if endCmds+16 > first {
			return fmt.Errorf("macho: no room for LC_CODE_SIGNATURE: commands end at %d, first section at %d", endCmds, first)
		}
		for _, c := range b[endCmds : endCmds+16] {
			if c != 0 {
				return errors.New("macho: bytes behind the load commands are not zero")
			}
		}
	}
	return nil
}

// ---- shape family ----

// pagePads returns the k for which size+k is the next multiple of 4096 minus
// one, that multiple, and that multiple plus one (so size%4096 is 4095, 0, 1
// and size%16 is 15, 0, 1).
func pagePads(size int) []int {
	next := (size/4096 + 1) * 4096
	return []int{next - 1 - size, next - size, next + 1 - size}
}

func modClass(size int) string {
	switch size % 4096 {
	case 0:
		return "size-page-multiple"
	case 1:
		return "size-page-multiple+1"
	case 4095:
		return "size-page-multiple-1"
	}
	return fmt.Sprintf("size-mod16-%d", size%16)
}

// Shapes returns the Mach-O shape family. The canonical shape is the
// unsigned thin arm64 executable of slimfile.app.
func Shapes(thorough bool) []shape.Shape {
	var out []shape.Shape
	add := func(name, class, source string, strict bool, build func() ([]byte, error), chk func([]byte) error) {
		out = append(out, shape.Shape{Name: "macho/" + name, Class: class, File: FileName, Strict: strict, Source: source, Build: build, Check: chk})
	}
	// sizes of the stripped slices, needed for names: computed once
	type base struct {
		slice
		signed   bool
		stripped func() ([]byte, error)
		size     int
		err      error
	}
	var bases []base
	for _, s := range slices {
		s := s
		bs := base{slice: s}
		bs.stripped = func() ([]byte, error) {
			b, err := s.read()
			if err != nil {
				return nil, err
			}
			return strip(b)
		}
		if b, err := s.read(); err != nil {
			bs.err = err
		} else if im, err := parse(b); err != nil {
			bs.err = err
		} else {
			bs.signed = im.find(lcCodeSignature) != nil
			sb, err := strip(b)
			bs.err = err
			bs.size = len(sb)
		}
		bases = append(bases, bs)
	}
	fail := func(err error) func() ([]byte, error) { return func() ([]byte, error) { return nil, err } }

	// (a) verbatim; the first one (unsigned thin arm64) is the canonical shape
	for i, bs := range bases {
		bs := bs
		if bs.err != nil {
			add("fixture="+bs.label, "fixture-unreadable", "fixture", false, fail(bs.err), CheckUnsigned)
			continue
		}
		switch {
		case i == 0 && !bs.signed:
			add("fixture="+bs.label+"/verbatim", "canonical", "fixture", true, bs.read, CheckUnsigned)
		case bs.signed:
			if thorough || bs.label == "fat-amd64" {
				add("fixture="+bs.label+"/verbatim-signed", "already-signed-"+bs.label, "fixture", true, bs.read, CheckSigned)
			}
		default:
			add("fixture="+bs.label+"/verbatim", "unsigned-"+bs.label, "fixture", true, bs.read, CheckUnsigned)
		}
	}
	// (b) signature stripped
	for _, bs := range bases {
		bs := bs
		if bs.err != nil || !bs.signed {
			continue
		}
		add(fmt.Sprintf("fixture=%s/stripped/size=%d", bs.label, bs.size), "stripped-"+bs.label, "fixture-edit", true, bs.stripped, CheckUnsigned)
	}
	// (c) stripped and __LINKEDIT grown by k zero bytes
	for i, bs := range bases {
		bs := bs
		if bs.err != nil {
			continue
		}
		ks := pagePads(bs.size)
		if thorough {
			ks = append([]int{1, 7, 8, 9, 15, 16}, ks...)
			for _, k := range pagePads(bs.size) {
				ks = append(ks, k+4096) // the same residues one page further
			}
		} else if i != 1 {
			// quick: the full page ladder on one slice, the exact page
			// multiple on the others
			ks = ks[1:2]
		}
		for _, k := range ks {
			k := k
			size := bs.size + k
			add(fmt.Sprintf("fixture=%s/stripped/linkedit+%d/size=%d", bs.label, k, size),
				modClass(size)+"-"+bs.label, "fixture-edit",
				size%8 == 0, // linkers and codesign keep the end of __LINKEDIT pointer-aligned
				func() ([]byte, error) {
					b, err := bs.stripped()
					if err != nil {
						return nil, err
					}
					return grow(b, k)
				}, CheckUnsigned)
		}
	}
	// (d) from scratch
	if thorough {
		for _, bits := range []int{64, 32} {
			for pages := 1; pages <= 3; pages++ {
				s := scratch{bits: bits, textPages: pages, linkedit: 8}
				add(fmt.Sprintf("scratch/bits=%d/text-pages=%d/linkedit=%d", bits, pages, 8),
					fmt.Sprintf("scratch-%d-text-%dp", bits, pages), "generated", true, s.build, CheckUnsigned)
			}
		}
		for _, l := range []int{0, 1, 4095, 4096, 4097} {
			s := scratch{bits: 64, textPages: 1, linkedit: l}
			add(fmt.Sprintf("scratch/bits=64/text-pages=1/linkedit=%d", l),
				fmt.Sprintf("scratch-64-linkedit-%d", l), "generated", l%8 == 0 && l != 0, s.build, CheckUnsigned)
		}
	}
	return out
}

// ---- bundle files ----

const plistHead = "<?xml version=\"1.0\" encoding=\"UTF-8\"?>\n" +
	"<!DOCTYPE plist PUBLIC \"-//Apple//DTD PLIST 1.0//EN\" \"http://www.apple.com/DTDs/PropertyList-1.0.dtd\">\n" +
	"<plist version=\"1.0\">\n"

// InfoPlist returns a small XML Info.plist for the bundle BundleID whose
// executable is FileName.
func InfoPlist() []byte {
	return []byte(plistHead + "<dict>\n" +
		"\t<key>CFBundleDevelopmentRegion</key>\n\t<string>en</string>\n" +
		"\t<key>CFBundleExecutable</key>\n\t<string>" + FileName + "</string>\n" +
		"\t<key>CFBundleIdentifier</key>\n\t<string>" + BundleID + "</string>\n" +
		"\t<key>CFBundleInfoDictionaryVersion</key>\n\t<string>6.0</string>\n" +
		"\t<key>CFBundleName</key>\n\t<string>verif</string>\n" +
		"\t<key>CFBundlePackageType</key>\n\t<string>APPL</string>\n" +
		"\t<key>CFBundleShortVersionString</key>\n\t<string>1.0</string>\n" +
		"\t<key>CFBundleVersion</key>\n\t<string>1</string>\n" +
		"</dict>\n</plist>\n")
}

// Entitlements returns a small XML entitlements property list.
func Entitlements() []byte {
	return []byte(plistHead + "<dict>\n" +
		"\t<key>com.apple.security.app-sandbox</key>\n\t<true/>\n" +
		"\t<key>com.apple.security.network.client</key>\n\t<true/>\n" +
		"\t<key>com.apple.application-identifier</key>\n\t<string>TEAMID0000." + BundleID + "</string>\n" +
		"</dict>\n</plist>\n")
}

// Resources returns a CodeResources-style resource manifest sealing
// InfoPlist() as Info.plist, an 8-byte PkgInfo and one resource file.
func Resources() []byte {
	type res struct {
		name string
		data []byte
	}
	files := []res{{"Info.plist", InfoPlist()}, {"PkgInfo", []byte("APPL????")}, {"res.txt", []byte("verif resource\n")}}
	b64 := base64.StdEncoding.EncodeToString
	var s bytes.Buffer
	s.WriteString(plistHead + "<dict>\n\t<key>files</key>\n\t<dict>\n")
	for _, f := range files {
		h := sha1.Sum(f.data)
		fmt.Fprintf(&s, "\t\t<key>%s</key>\n\t\t<data>\n\t\t%s\n\t\t</data>\n", f.name, b64(h[:]))
	}
	s.WriteString("\t</dict>\n\t<key>files2</key>\n\t<dict>\n")
	for _, f := range files[2:] { // the default rules2 omit Info.plist and PkgInfo
		h1 := sha1.Sum(f.data)
		h2 := sha256.Sum256(f.data)
		fmt.Fprintf(&s, "\t\t<key>%s</key>\n\t\t<dict>\n\t\t\t<key>hash</key>\n\t\t\t<data>\n\t\t\t%s\n\t\t\t</data>\n\t\t\t<key>hash2</key>\n\t\t\t<data>\n\t\t\t%s\n\t\t\t</data>\n\t\t</dict>\n", f.name, b64(h1[:]), b64(h2[:]))
	}
	s.WriteString("\t</dict>\n\t<key>rules</key>\n\t<dict>\n" +
		"\t\t<key>^.*</key>\n\t\t<true/>\n" +
		"\t\t<key>^version.plist$</key>\n\t\t<true/>\n" +
		"\t</dict>\n\t<key>rules2</key>\n\t<dict>\n" +
		"\t\t<key>^.*</key>\n\t\t<true/>\n" +
		"\t\t<key>^Info\\.plist$</key>\n\t\t<dict>\n\t\t\t<key>omit</key>\n\t\t\t<true/>\n\t\t\t<key>weight</key>\n\t\t\t<real>20</real>\n\t\t</dict>\n" +
		"\t\t<key>^PkgInfo$</key>\n\t\t<dict>\n\t\t\t<key>omit</key>\n\t\t\t<true/>\n\t\t\t<key>weight</key>\n\t\t\t<real>20</real>\n\t\t</dict>\n" +
		"\t</dict>\n</dict>\n</plist>\n")
	return s.Bytes()
}

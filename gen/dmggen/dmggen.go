// Package dmggen is a bounded-exhaustive shape generator for Apple UDIF disk
// images (.dmg). It is written from the UDIF layout and does not import
// relic.
//
// A flattened UDIF image is
//
//	data fork   the (possibly compressed) sector data, addressed by chunks
//	XML         a property list: resource-fork > blkx > [ {Attributes, CFName,
//	            Data (a base64 'mish' block table), ID, Name} ... ]
//	[signature] an optional embedded code signature superblob
//	koly        512-byte big-endian trailer
//
// koly trailer (offset, size):
//
//	  0  4 signature 'koly'      4  4 version 4        8  4 header size 512
//	 12  4 flags                16  8 running data fork offset
//	 24  8 data fork offset     32  8 data fork length
//	 40  8 rsrc fork offset     48  8 rsrc fork length
//	 56  4 segment number       60  4 segment count    64 16 segment id
//	 80  4 data checksum type   84  4 data checksum bits   88 128 data checksum
//	216  8 XML offset          224  8 XML length
//	232 64 reserved
//	296  8 code signature offset   304  8 code signature length
//	312 40 reserved
//	352  4 master checksum type   356  4 master checksum bits   360 128 master checksum
//	488  4 image variant       492  8 sector count
//	500 12 reserved
//
// 'mish' block table (big endian): 'mish', u32 version 1, u64 first sector,
// u64 sector count, u64 data offset, u32 buffers needed, u32 block descriptors,
// 24 reserved, checksum (type, bits, 128 bytes), u32 chunk count, then 40-byte
// chunks {u32 type, u32 comment, u64 sector, u64 sectors, u64 offset, u64 length}.
// Chunk types used here: 1 raw, 2 ignore (free space), 0xffffffff terminator.
package dmggen

import (
	"bytes"
	"encoding/base64"
	"encoding/binary"
	"fmt"
	"hash/crc32"
	"os"
	"strings"

	"verif/gen/shape"
)

const (
	// FileName is the base name the shapes must be stored under.
	FileName = "d.dmg"

	fixtureDmg = "/repo/functest/packages/dummy.dmg"

	kolySize = 512
	sector   = 512

	ckNone  = 0
	ckCRC32 = 2

	chunkZero   = 0x00000000
	chunkRaw    = 0x00000001
	chunkIgnore = 0x00000002
	chunkEnd    = 0xffffffff
)

// Koly is the decoded trailer.
type Koly struct {
	Version, HeaderSize, Flags     uint32
	RunningDataForkOffset          uint64
	DataForkOffset, DataForkLength uint64
	RsrcForkOffset, RsrcForkLength uint64
	SegmentNumber, SegmentCount    uint32
	SegmentID                      [16]byte
	DataCkType, DataCkBits         uint32
	DataCk                         [128]byte
	XMLOffset, XMLLength           uint64
	Reserved1                      [64]byte
	CodeSigOffset, CodeSigLength   uint64
	Reserved2                      [40]byte
	MasterCkType, MasterCkBits     uint32
	MasterCk                       [128]byte
	ImageVariant                   uint32
	SectorCount                    uint64
	Reserved3                      [12]byte
}

func (k *Koly) marshal() []byte {
	var b bytes.Buffer
	b.WriteString("koly")
	binary.Write(&b, binary.BigEndian, k)
	if b.Len() != kolySize {
		panic(fmt.Sprintf("koly is %d bytes", b.Len()))
	}
	return b.Bytes()
}

// ParseKoly decodes the last 512 bytes of an image.
func ParseKoly(b []byte) (*Koly, error) {
	if len(b) < kolySize {
		return nil, fmt.Errorf("dmg: %d bytes is shorter than a koly trailer", len(b))
	}
	t := b[len(b)-kolySize:]
	if string(t[:4]) != "koly" {
		return nil, fmt.Errorf("dmg: trailer magic %q", t[:4])
	}
	k := new(Koly)
	if err := binary.Read(bytes.NewReader(t[4:]), binary.BigEndian, k); err != nil {
		return nil, err
	}
	return k, nil
}

type spec struct {
	name    string
	class   string
	strict  bool
	dataLen int  // data fork length in bytes
	parts   int  // number of blkx partitions wanted (controls plist size)
	gap     int  // zero bytes between data fork and XML
	tailGap int  // zero bytes between XML and koly
	noCk    bool // checksum type 0 everywhere
}

func payload(n int) []byte {
	var b bytes.Buffer
	b.Grow(n + 64)
	x := uint32(0x5eed)
	for i := 0; b.Len() < n; i++ {
		x = x*1664525 + 1013904223
		fmt.Fprintf(&b, "sector filler %07d %08x\n", i, x)
	}
	return b.Bytes()[:n]
}

type chunk struct {
	typ            uint32
	sector, count  uint64
	offset, length uint64
}

func mish(first, count uint64, part int, data []byte, chunks []chunk, withCk bool) []byte {
	var b bytes.Buffer
	w := func(v any) { binary.Write(&b, binary.BigEndian, v) }
	b.WriteString("mish")
	w(uint32(1))
	w(first)
	w(count)
	w(uint64(0))     // data offset
	w(uint32(0x208)) // buffers needed
	w(uint32(part))  // block descriptors (partition index)
	b.Write(make([]byte, 24))
	var ck [128]byte
	if withCk {
		w(uint32(ckCRC32))
		w(uint32(32))
		binary.BigEndian.PutUint32(ck[:], crc32.ChecksumIEEE(data))
	} else {
		w(uint32(ckNone))
		w(uint32(0))
	}
	b.Write(ck[:])
	w(uint32(len(chunks)))
	for _, c := range chunks {
		w(c.typ)
		w(uint32(0))
		w(c.sector)
		w(c.count)
		w(c.offset)
		w(c.length)
	}
	return b.Bytes()
}

func b64lines(b []byte, indent string) string {
	enc := base64.StdEncoding.EncodeToString(b)
	var s strings.Builder
	for len(enc) > 0 {
		n := 44
		if n > len(enc) {
			n = len(enc)
		}
		s.WriteString(indent)
		s.WriteString(enc[:n])
		s.WriteByte('\n')
		enc = enc[n:]
	}
	return s.String()
}

func (s *spec) build() ([]byte, error) {
	fork := payload(s.dataLen)
	total := uint64(s.dataLen / sector) // sectors backed by raw data
	type part struct {
		first, count uint64
		chunks       []chunk
		data         []byte
	}
	var parts []part
	if total == 0 {
		// nothing to back a sector: a one-sector image that is one "ignore"
		// chunk (free space). As in dummy.dmg's Apple_Free tables such a
		// chunk contributes no bytes to the table checksum.
		parts = []part{{0, 1, []chunk{{chunkIgnore, 0, 1, 0, 0}, {chunkEnd, 1, 0, 0, 0}}, nil}}
	} else {
		n := uint64(s.parts)
		if n < 1 {
			n = 1
		}
		if n > total {
			n = total
		}
		for i := uint64(0); i < n; i++ {
			lo, hi := total*i/n, total*(i+1)/n
			parts = append(parts, part{lo, hi - lo,
				[]chunk{{chunkRaw, 0, hi - lo, lo * sector, (hi - lo) * sector}, {chunkEnd, hi - lo, 0, hi * sector, 0}},
				fork[lo*sector : hi*sector]})
		}
	}
	var imageSectors uint64
	var x strings.Builder
	x.WriteString("<?xml version=\"1.0\" encoding=\"UTF-8\"?>\n")
	x.WriteString("<!DOCTYPE plist PUBLIC \"-//Apple//DTD PLIST 1.0//EN\" \"http://www.apple.com/DTDs/PropertyList-1.0.dtd\">\n")
	x.WriteString("<plist version=\"1.0\">\n<dict>\n\t<key>resource-fork</key>\n\t<dict>\n\t\t<key>blkx</key>\n\t\t<array>\n")
	var master bytes.Buffer
	for i, p := range parts {
		m := mish(p.first, p.count, i, p.data, p.chunks, !s.noCk)
		var c [4]byte
		binary.BigEndian.PutUint32(c[:], crc32.ChecksumIEEE(p.data))
		master.Write(c[:])
		imageSectors += p.count
		name := fmt.Sprintf("partition %d (Apple_HFS : %d)", i, i)
		x.WriteString("\t\t\t<dict>\n")
		x.WriteString("\t\t\t\t<key>Attributes</key>\n\t\t\t\t<string>0x0050</string>\n")
		fmt.Fprintf(&x, "\t\t\t\t<key>CFName</key>\n\t\t\t\t<string>%s</string>\n", name)
		x.WriteString("\t\t\t\t<key>Data</key>\n\t\t\t\t<data>\n")
		x.WriteString(b64lines(m, "\t\t\t\t"))
		x.WriteString("\t\t\t\t</data>\n")
		fmt.Fprintf(&x, "\t\t\t\t<key>ID</key>\n\t\t\t\t<string>%d</string>\n", i)
		fmt.Fprintf(&x, "\t\t\t\t<key>Name</key>\n\t\t\t\t<string>%s</string>\n", name)
		x.WriteString("\t\t\t</dict>\n")
	}
	x.WriteString("\t\t</array>\n\t</dict>\n</dict>\n</plist>\n")
	xmlBytes := []byte(x.String())

	k := &Koly{
		Version: 4, HeaderSize: kolySize, Flags: 1,
		DataForkOffset: 0, DataForkLength: uint64(len(fork)),
		SegmentNumber: 1, SegmentCount: 1,
		XMLOffset: uint64(len(fork) + s.gap), XMLLength: uint64(len(xmlBytes)),
		ImageVariant: 1, SectorCount: imageSectors,
	}
	copy(k.SegmentID[:], "verif-dmggen-seg")
	if !s.noCk {
		k.DataCkType, k.DataCkBits = ckCRC32, 32
		binary.BigEndian.PutUint32(k.DataCk[:], crc32.ChecksumIEEE(fork))
		k.MasterCkType, k.MasterCkBits = ckCRC32, 32
		binary.BigEndian.PutUint32(k.MasterCk[:], crc32.ChecksumIEEE(master.Bytes()))
	}
	out := make([]byte, 0, len(fork)+s.gap+len(xmlBytes)+s.tailGap+kolySize)
	out = append(out, fork...)
	out = append(out, make([]byte, s.gap)...)
	out = append(out, xmlBytes...)
	out = append(out, make([]byte, s.tailGap)...)
	out = append(out, k.marshal()...)
	return out, nil
}

// Ladder is the data fork size ladder straddling 512 B, 4 KiB, 64 KiB, 1 MiB.
var Ladder = []int{0, 1, 511, 512, 513, 4095, 4096, 4097, 65535, 65536, 65537, 1048575, 1048576, 1048577}

func sizeClass(n int) string {
	d := func(d int) string {
		switch {
		case d < 0:
			return fmt.Sprint(d)
		case d > 0:
			return fmt.Sprintf("+%d", d)
		}
		return ""
	}
	switch {
	case n >= (1<<20)-1 && n <= (1<<20)+1:
		return "fork-1MiB" + d(n-(1<<20))
	case n >= (1<<16)-1 && n <= (1<<16)+1:
		return "fork-64KiB" + d(n-(1<<16))
	case n >= 4095 && n <= 4097:
		return "fork-4KiB" + d(n-4096)
	case n >= 511 && n <= 513:
		return "fork-512" + d(n-512)
	}
	return fmt.Sprintf("fork-%d", n)
}

func specs(thorough bool) []*spec {
	var out []*spec
	add := func(s *spec) {
		if s.parts == 0 {
			s.parts = 1
		}
		s.name = fmt.Sprintf("fork=%d/parts=%d/gap=%d/tailgap=%d/ck=%v", s.dataLen, s.parts, s.gap, s.tailGap, !s.noCk)
		out = append(out, s)
	}
	add(&spec{class: "canonical", strict: true, dataLen: 32768, parts: 3})
	sizes := []int{0, 1, 512, 4096, 65537, 1048576}
	if thorough {
		sizes = Ladder
	}
	for _, n := range sizes {
		add(&spec{class: sizeClass(n), strict: true, dataLen: n})
	}
	// plist length: one partition (all ladder shapes) gives < 1 KiB, eight give > 4 KiB
	add(&spec{class: "plist-gt-4096", strict: true, dataLen: 65536, parts: 8})
	if thorough {
		add(&spec{class: "plist-gt-64KiB", strict: true, dataLen: 131072, parts: 128})
		for _, n := range []int{4097, 1048577} {
			add(&spec{class: sizeClass(n) + "-plist-gt-4096", strict: true, dataLen: n, parts: 8})
		}
	}
	// checksum type 0 (what dummy.dmg has in its data fork checksum)
	add(&spec{class: "no-checksums", strict: true, dataLen: 32768, parts: 3, noCk: true})
	// lenient: the XML does not start where the data fork ends / the trailer
	// does not start where the XML ends
	add(&spec{class: "gap-before-xml", dataLen: 32768, parts: 3, gap: 7})
	add(&spec{class: "gap-before-koly", dataLen: 32768, parts: 3, tailGap: 9})
	if thorough {
		add(&spec{class: "gap-before-xml-512", dataLen: 32768, parts: 3, gap: 512})
		add(&spec{class: "gap-before-koly-512", dataLen: 32768, parts: 3, tailGap: 512})
	}
	return out
}

// fixtureEdit returns dummy.dmg with n zero bytes inserted at the end of the
// data fork and all koly offsets behind the insertion point fixed up. The
// inserted bytes are not referenced by any chunk; dummy.dmg has no data fork
// checksum (type 0), so nothing else changes.
func fixtureEdit(n int) ([]byte, error) {
	b, err := os.ReadFile(fixtureDmg)
	if err != nil {
		return nil, err
	}
	k, err := ParseKoly(b)
	if err != nil {
		return nil, err
	}
	if k.DataCkType != ckNone {
		return nil, fmt.Errorf("fixture has a data fork checksum of type %d", k.DataCkType)
	}
	cut := k.DataForkOffset + k.DataForkLength
	if cut != k.XMLOffset || k.CodeSigOffset != 0 || k.RsrcForkLength != 0 {
		return nil, fmt.Errorf("fixture layout changed")
	}
	k.DataForkLength += uint64(n)
	k.XMLOffset += uint64(n)
	out := make([]byte, 0, len(b)+n)
	out = append(out, b[:cut]...)
	out = append(out, make([]byte, n)...)
	out = append(out, b[cut:len(b)-kolySize]...)
	out = append(out, k.marshal()...)
	return out, nil
}

// Shapes returns the UDIF shape family: canonical first, then the generated
// shapes simplest first, then the fixture and its edits.
func Shapes(thorough bool) []shape.Shape {
	var out []shape.Shape
	for _, s := range specs(thorough) {
		s := s
		out = append(out, shape.Shape{
			Name: "dmg/" + s.name, Class: s.class, File: FileName, Strict: s.strict,
			Source: "generated", Build: s.build, Check: Check,
		})
	}
	out = append(out, shape.Shape{
		Name: "dmg/fixture=dummy.dmg", Class: "fixture-dummy-dmg", File: FileName, Strict: true,
		Source: "fixture", Build: func() ([]byte, error) { return os.ReadFile(fixtureDmg) }, Check: Check,
	})
	// dummy.dmg: data fork 23741, XML 8264, so the signed range ends at 32005;
	// 762..764 move that end across the 32768 page boundary.
	edits := []int{1, 512}
	if thorough {
		edits = []int{1, 511, 512, 513, 762, 763, 764, 4095, 4096, 4097, 65537}
	}
	for _, n := range edits {
		n := n
		out = append(out, shape.Shape{
			Name: fmt.Sprintf("dmg/fixture=dummy.dmg/fork+%d", n), Class: fmt.Sprintf("fixture-fork-grown-%d", n),
			File: FileName, Strict: true, Source: "fixture-edit",
			Build: func() ([]byte, error) { return fixtureEdit(n) }, Check: Check,
		})
	}
	return out
}

package dmggen

import (
	"bytes"
	"encoding/base64"
	"encoding/binary"
	"encoding/xml"
	"errors"
	"fmt"
	"hash/crc32"
	"io"
	"strings"
)

// A small property-list reader on top of encoding/xml (independent of relic
// and of howett.net/plist). Values: map[string]any, []any, string, []byte.

func parsePlist(b []byte) (any, error) {
	d := xml.NewDecoder(bytes.NewReader(b))
	d.Strict = true
	for {
		tok, err := d.Token()
		if err != nil {
			return nil, fmt.Errorf("plist: %w", err)
		}
		if se, ok := tok.(xml.StartElement); ok {
			if se.Name.Local != "plist" {
				return nil, fmt.Errorf("plist: root element %q", se.Name.Local)
			}
			break
		}
	}
	var root any
	seen := false
	for {
		tok, err := d.Token()
		if err != nil {
			return nil, fmt.Errorf("plist: %w", err)
		}
		switch t := tok.(type) {
		case xml.StartElement:
			if seen {
				return nil, errors.New("plist: more than one root value")
			}
			root, err = plistValue(d, t)
			if err != nil {
				return nil, err
			}
			seen = true
		case xml.EndElement:
			if !seen {
				return nil, errors.New("plist: empty")
			}
			// nothing but white space may follow
			for {
				tok, err := d.Token()
				if err == io.EOF {
					return root, nil
				}
				if err != nil {
					return nil, fmt.Errorf("plist: %w", err)
				}
				if cd, ok := tok.(xml.CharData); !ok || strings.TrimSpace(string(cd)) != "" {
					return nil, errors.New("plist: content after </plist>")
				}
			}
		}
	}
}

func plistText(d *xml.Decoder) (string, error) {
	var s strings.Builder
	for {
		tok, err := d.Token()
		if err != nil {
			return "", fmt.Errorf("plist: %w", err)
		}
		switch t := tok.(type) {
		case xml.CharData:
			s.Write(t)
		case xml.EndElement:
			return s.String(), nil
		case xml.StartElement:
			return "", fmt.Errorf("plist: element %q inside a scalar", t.Name.Local)
		}
	}
}

func plistValue(d *xml.Decoder, se xml.StartElement) (any, error) {
	switch se.Name.Local {
	case "dict":
		m := map[string]any{}
		key, haveKey := "", false
		for {
			tok, err := d.Token()
			if err != nil {
				return nil, fmt.Errorf("plist: %w", err)
			}
			switch t := tok.(type) {
			case xml.StartElement:
				if t.Name.Local == "key" {
					if haveKey {
						return nil, errors.New("plist: two keys in a row")
					}
					key, err = plistText(d)
					if err != nil {
						return nil, err
					}
					haveKey = true
					continue
				}
				if !haveKey {
					return nil, errors.New("plist: dict value without key")
				}
				v, err := plistValue(d, t)
				if err != nil {
					return nil, err
				}
				if _, dup := m[key]; dup {
					return nil, fmt.Errorf("plist: duplicate key %q", key)
				}
				m[key] = v
				haveKey = false
			case xml.EndElement:
				if haveKey {
					return nil, errors.New("plist: key without value")
				}
				return m, nil
			}
		}
	case "array":
		a := []any{}
		for {
			tok, err := d.Token()
			if err != nil {
				return nil, fmt.Errorf("plist: %w", err)
			}
			switch t := tok.(type) {
			case xml.StartElement:
				v, err := plistValue(d, t)
				if err != nil {
					return nil, err
				}
				a = append(a, v)
			case xml.EndElement:
				return a, nil
			}
		}
	case "string", "integer", "real", "date":
		return plistText(d)
	case "true", "false":
		if _, err := plistText(d); err != nil {
			return nil, err
		}
		return se.Name.Local == "true", nil
	case "data":
		s, err := plistText(d)
		if err != nil {
			return nil, err
		}
		raw, err := base64.StdEncoding.DecodeString(strings.Join(strings.Fields(s), ""))
		if err != nil {
			return nil, fmt.Errorf("plist: data: %w", err)
		}
		return raw, nil
	}
	return nil, fmt.Errorf("plist: unknown element %q", se.Name.Local)
}

// Check re-reads a UDIF image: trailer fields, region layout (data fork, XML,
// optional signature, trailer in that order without overlap), the property
// list, every 'mish' block table and its chunks, and the CRC32 checksums when
// present.
func Check(b []byte) error {
	k, err := ParseKoly(b)
	if err != nil {
		return err
	}
	if k.Version != 4 || k.HeaderSize != kolySize {
		return fmt.Errorf("dmg: version %d header size %d", k.Version, k.HeaderSize)
	}
	body := uint64(len(b) - kolySize)
	forkEnd := k.DataForkOffset + k.DataForkLength
	if forkEnd < k.DataForkOffset || forkEnd > body {
		return errors.New("dmg: data fork outside file")
	}
	if k.RunningDataForkOffset != 0 || k.RsrcForkLength != 0 {
		return errors.New("dmg: segmented images and resource forks are not generated")
	}
	xmlEnd := k.XMLOffset + k.XMLLength
	if k.XMLLength == 0 || k.XMLOffset < forkEnd || xmlEnd < k.XMLOffset || xmlEnd > body {
		return errors.New("dmg: XML region outside file or overlapping the data fork")
	}
	if k.CodeSigLength != 0 || k.CodeSigOffset != 0 {
		sigEnd := k.CodeSigOffset + k.CodeSigLength
		if k.CodeSigOffset < xmlEnd || sigEnd < k.CodeSigOffset || sigEnd > body {
			return errors.New("dmg: code signature outside file or overlapping the XML")
		}
		// embedded signature superblob magic
		if k.CodeSigLength < 12 || binary.BigEndian.Uint32(b[k.CodeSigOffset:]) != 0xfade0cc0 {
			return errors.New("dmg: code signature is not an embedded-signature superblob")
		}
		if uint64(binary.BigEndian.Uint32(b[k.CodeSigOffset+4:])) > k.CodeSigLength {
			return errors.New("dmg: code signature superblob longer than its slot")
		}
	}
	if k.Reserved1 != [64]byte{} || k.Reserved2 != [40]byte{} || k.Reserved3 != [12]byte{} {
		return errors.New("dmg: reserved trailer bytes are not zero")
	}
	fork := b[k.DataForkOffset:forkEnd]
	switch k.DataCkType {
	case ckNone:
	case ckCRC32:
		if k.DataCkBits != 32 || binary.BigEndian.Uint32(k.DataCk[:]) != crc32.ChecksumIEEE(fork) {
			return errors.New("dmg: data fork CRC32 mismatch")
		}
	default:
		return fmt.Errorf("dmg: data fork checksum type %d", k.DataCkType)
	}
	// property list
	root, err := parsePlist(b[k.XMLOffset:xmlEnd])
	if err != nil {
		return fmt.Errorf("dmg: %w", err)
	}
	top, ok := root.(map[string]any)
	if !ok {
		return errors.New("dmg: plist root is not a dict")
	}
	rf, ok := top["resource-fork"].(map[string]any)
	if !ok {
		return errors.New("dmg: plist has no resource-fork dict")
	}
	blkx, ok := rf["blkx"].([]any)
	if !ok || len(blkx) == 0 {
		return errors.New("dmg: plist has no blkx array")
	}
	var sectors uint64
	var master bytes.Buffer
	allCRC := true
	for i, e := range blkx {
		ent, ok := e.(map[string]any)
		if !ok {
			return fmt.Errorf("dmg: blkx[%d] is not a dict", i)
		}
		data, ok := ent["Data"].([]byte)
		if !ok {
			return fmt.Errorf("dmg: blkx[%d] has no Data", i)
		}
		n, ck, err := checkMish(data, fork)
		if err != nil {
			return fmt.Errorf("dmg: blkx[%d]: %w", i, err)
		}
		sectors += n
		if ck == nil {
			allCRC = false
		} else {
			master.Write(ck)
		}
	}
	if k.SectorCount != sectors {
		return fmt.Errorf("dmg: trailer sector count %d, block tables cover %d", k.SectorCount, sectors)
	}
	switch k.MasterCkType {
	case ckNone:
	case ckCRC32:
		if k.MasterCkBits != 32 {
			return errors.New("dmg: master checksum width")
		}
		// the master checksum is the CRC32 of the concatenated block table
		// checksums; it can only be recomputed when all of them are CRC32
		if allCRC && binary.BigEndian.Uint32(k.MasterCk[:]) != crc32.ChecksumIEEE(master.Bytes()) {
			return errors.New("dmg: master CRC32 mismatch")
		}
	default:
		return fmt.Errorf("dmg: master checksum type %d", k.MasterCkType)
	}
	return nil
}

// checkMish validates one block table against the data fork and returns its
// sector count and, if it carries a CRC32 that could be recomputed from raw /
// zero-fill chunks, the four checksum bytes.
func checkMish(m []byte, fork []byte) (uint64, []byte, error) {
	const hdr = 204
	if len(m) < hdr || string(m[:4]) != "mish" {
		return 0, nil, errors.New("not a mish block table")
	}
	be := binary.BigEndian
	if v := be.Uint32(m[4:]); v != 1 {
		return 0, nil, fmt.Errorf("mish version %d", v)
	}
	count := be.Uint64(m[16:])
	dataOff := be.Uint64(m[24:])
	ckType, ckBits := be.Uint32(m[64:]), be.Uint32(m[68:])
	nchunks := int(be.Uint32(m[200:]))
	if len(m) != hdr+40*nchunks {
		return 0, nil, fmt.Errorf("mish is %d bytes for %d chunks", len(m), nchunks)
	}
	var next uint64
	var plain bytes.Buffer
	recomputable := true
	terminated := false
	for i := 0; i < nchunks; i++ {
		c := m[hdr+40*i:]
		typ := be.Uint32(c[0:])
		sec, cnt := be.Uint64(c[8:]), be.Uint64(c[16:])
		off, ln := be.Uint64(c[24:])+dataOff, be.Uint64(c[32:])
		if terminated {
			return 0, nil, errors.New("chunk after terminator")
		}
		if typ == 0x7ffffffe { // comment chunk: covers no sectors
			continue
		}
		if sec != next {
			return 0, nil, fmt.Errorf("chunk %d starts at sector %d, expected %d", i, sec, next)
		}
		if off+ln < off || off+ln > uint64(len(fork)) {
			return 0, nil, fmt.Errorf("chunk %d data outside the data fork", i)
		}
		switch typ {
		case chunkEnd:
			if cnt != 0 {
				return 0, nil, errors.New("terminator covers sectors")
			}
			terminated = true
		case chunkIgnore:
			// free space: contributes nothing to the checksum (dummy.dmg's
			// Apple_Free tables carry CRC32 0, the CRC of no bytes)
		case chunkZero:
			recomputable = false
		case chunkRaw:
			if ln != cnt*sector {
				return 0, nil, fmt.Errorf("raw chunk %d: %d bytes for %d sectors", i, ln, cnt)
			}
			plain.Write(fork[off : off+ln])
		case 0x80000004, 0x80000005, 0x80000006, 0x80000007, 0x80000008:
			recomputable = false // compressed chunk kinds (only in fixtures)
		default:
			return 0, nil, fmt.Errorf("chunk %d type %#x", i, typ)
		}
		next += cnt
	}
	if !terminated {
		return 0, nil, errors.New("no terminator chunk")
	}
	if next != count {
		return 0, nil, fmt.Errorf("chunks cover %d sectors, table says %d", next, count)
	}
	switch ckType {
	case ckNone:
		return count, nil, nil
	case ckCRC32:
		if ckBits != 32 {
			return 0, nil, errors.New("mish checksum width")
		}
		if recomputable && be.Uint32(m[72:]) != crc32.ChecksumIEEE(plain.Bytes()) {
			return 0, nil, errors.New("mish CRC32 mismatch")
		}
		return count, m[72:76], nil
	}
	return 0, nil, fmt.Errorf("mish checksum type %d", ckType)
}

package dmggen

import (
	"bytes"
	"testing"
)

func TestShapes(t *testing.T) {
	for _, thorough := range []bool{false, true} {
		shapes := Shapes(thorough)
		if shapes[0].Class != "canonical" {
			t.Fatalf("first shape is %q", shapes[0].Class)
		}
		names := map[string]bool{}
		nStrict := 0
		for _, s := range shapes {
			if names[s.Name] {
				t.Errorf("duplicate name %q", s.Name)
			}
			names[s.Name] = true
			if s.File != FileName || s.Class == "" || s.Source == "" {
				t.Errorf("%s: incomplete shape", s.Name)
			}
			b, err := s.Build()
			if err != nil {
				t.Errorf("%s: build: %v", s.Name, err)
				continue
			}
			if err := s.Check(b); err != nil {
				t.Errorf("%s: check: %v", s.Name, err)
			}
			b2, _ := s.Build()
			if !bytes.Equal(b, b2) {
				t.Errorf("%s: not deterministic", s.Name)
			}
			k, _ := ParseKoly(b)
			if s.Strict && (k.DataForkOffset+k.DataForkLength != k.XMLOffset || int(k.XMLOffset+k.XMLLength) != len(b)-512) {
				t.Errorf("%s: strict shape with gaps", s.Name)
			}
			if s.Strict {
				nStrict++
			}
		}
		t.Logf("thorough=%v: %d shapes, %d strict", thorough, len(shapes), nStrict)
	}
}

func TestPlistSizes(t *testing.T) {
	for _, s := range Shapes(true) {
		b, _ := s.Build()
		k, _ := ParseKoly(b)
		switch s.Class {
		case "fork-64KiB":
			if k.XMLLength >= 4096 {
				t.Errorf("%s: XML is %d bytes", s.Name, k.XMLLength)
			}
		case "plist-gt-4096":
			if k.XMLLength <= 4096 {
				t.Errorf("%s: XML is %d bytes", s.Name, k.XMLLength)
			}
		case "plist-gt-64KiB":
			if k.XMLLength <= 65536 {
				t.Errorf("%s: XML is %d bytes", s.Name, k.XMLLength)
			}
		}
	}
}

// The reader must notice damage to the trailer, the block tables and the
// data fork.
func TestCheckRejectsDamage(t *testing.T) {
	b, err := Shapes(false)[0].Build()
	if err != nil {
		t.Fatal(err)
	}
	k, _ := ParseKoly(b)
	tr := len(b) - 512
	for _, off := range []int{100, int(k.XMLOffset) + 700, tr + 0, tr + 7, tr + 39, tr + 91, tr + 223, tr + 231, tr + 250, tr + 363, tr + 499, tr + 505} {
		c := append([]byte(nil), b...)
		c[off] ^= 0x04
		if Check(c) == nil {
			t.Errorf("flip at %d (trailer%+d) not noticed", off, off-tr)
		}
	}
}

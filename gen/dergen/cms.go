package dergen

import (
	"crypto"
	"crypto/ecdsa"
	"crypto/rand"
	"crypto/rsa"
	"crypto/sha256"
	"crypto/x509"
	"encoding/hex"
	"fmt"
	"math/big"
	"strings"
	"sync"
	"time"
)

// ---- the enumerated family -------------------------------------------------------

// Dim is one structural choice; Values[0] is the base (simplest) value.
type Dim struct {
	Name   string
	Values []string
}

// Dims spans the generator family. The product of all dimensions is the full
// family; see Params for the meaning of each value.
var Dims = []Dim{
	{"Version", []string{"1", "3"}},
	{"DigAlgs", []string{"1n", "1x", "2sn", "2un", "2sx", "2ux"}},
	{"EContent", []string{"data", "absent", "spc"}},
	{"Certs", []string{"leaf", "none", "3s", "3u", "3x"}},
	{"CRLs", []string{"no", "yes", "gentime", "critfalse"}},
	{"Signers", []string{"1", "2s", "2u"}},
	{"SID", []string{"ias", "ski"}},
	{"Attrs", []string{"sorted", "absent", "unsorted", "dup", "gentime", "frac"}},
	{"SigAlg", []string{"rsa", "sha256rsa", "pss", "ec256", "ec384"}},
	{"Unsigned", []string{"none", "tst", "mstst", "counter", "nested"}},
	{"Trailing", []string{"0", "3"}},
}

func DimIndex(name string) int {
	for i, d := range Dims {
		if d.Name == name {
			return i
		}
	}
	panic("no dimension " + name)
}

// Params selects one member of the family.
type Params struct {
	Version  string // SignedData.version: 1 | 3
	DigAlgs  string // digestAlgorithms: count 1|2, s=DER-sorted u=unsorted, n=NULL parameters x=parameters absent
	EContent string // data = OCTET STRING under id-data; absent = detached; spc = SEQUENCE under SPC_INDIRECT_DATA (non-octet ANY); ctl = SEQUENCE under szOID_CTL; tst = OCTET STRING TSTInfo
	Certs    string // leaf = signer leaves; none = field absent; 3s/3u = leaves+intermediate+root DER-sorted / reverse; 3x = 3u plus an other[3] CertificateChoices member that is not an X.509 certificate
	CRLs     string // no | yes (one CRL issued by the fixture root) | gentime | critfalse (the same list in encodings Go would not choose)
	Signers  string // 1 | 2s | 2u (second signer rsaB; SET DER-sorted / reverse)
	SID      string // ias = issuerAndSerialNumber (v1) ; ski = [0] subjectKeyIdentifier (SignerInfo v3)
	Attrs    string // sorted | absent | unsorted (reverse DER order) | dup (two extra attributes of the same type) | gentime | frac (GeneralizedTime with fraction)
	SigAlg   string // rsa (rsaEncryption) | sha256rsa | pss (explicit parameters) | ec256 | ec384
	Unsigned string // none | tst (id-aa-timeStampToken) | mstst (1.3.6.1.4.1.311.3.3.1) | counter (legacy counterSignature) | nested (token carrying a token)
	Trailing string // number of zero octets after the structure

	// not enumerated (used for tokens)
	Key         string `json:",omitempty"` // signer key override
	ImprintHex  string `json:",omitempty"` // tst: hashedMessage
	ImprintHash string `json:",omitempty"` // tst: sha256 (default) | sha1 | sha384 | sha512
	NonceHex    string `json:",omitempty"`
	ESS         string `json:",omitempty"` // tst: v2 (default) | v1 | none
	// WrapTST (tst only): "" = eContent is OCTET STRING { TSTInfo } | "octet" = the TSTInfo sits in a
	// second, dummy OCTET STRING (eContent octets are 04 LL TSTInfo, and those octets are what the
	// authority digests and signs), as some authorities emit
	WrapTST string `json:",omitempty"`
	// Quirk: encodings DER discourages but Go's parser accepts.
	// empty-certs: certificates [0] present with no members (needs Certs=none);
	// empty-crls: crls [1] present with no members (needs CRLs=no);
	// empty-unsigned: unsignedAttrs [1] present with no members (needs Unsigned=none)
	Quirk string `json:",omitempty"`
}

var Quirks = []string{"empty-certs", "empty-crls", "empty-unsigned"}

func ParamsAt(idx []int) Params {
	v := func(i int) string { return Dims[i].Values[idx[i]] }
	return Params{Version: v(0), DigAlgs: v(1), EContent: v(2), Certs: v(3), CRLs: v(4), Signers: v(5),
		SID: v(6), Attrs: v(7), SigAlg: v(8), Unsigned: v(9), Trailing: v(10)}
}

func (p Params) String() string {
	s := fmt.Sprintf("v%s dig=%s econtent=%s certs=%s crls=%s signers=%s sid=%s attrs=%s sig=%s unsigned=%s trail=%s",
		p.Version, p.DigAlgs, p.EContent, p.Certs, p.CRLs, p.Signers, p.SID, p.Attrs, p.SigAlg, p.Unsigned, p.Trailing)
	if p.Key != "" {
		s += " key=" + p.Key
	}
	if p.ESS != "" {
		s += " ess=" + p.ESS
	}
	if p.WrapTST != "" {
		s += " wraptst=" + p.WrapTST
	}
	if p.Quirk != "" {
		s += " quirk=" + p.Quirk
	}
	if p.ImprintHash != "" {
		s += " imprint=" + p.ImprintHash
	}
	return s
}

// NonBase lists "Dim=value" for every dimension not at its base value.
func NonBase(idx []int) []string {
	var out []string
	for i, x := range idx {
		if x != 0 {
			out = append(out, Dims[i].Name+"="+Dims[i].Values[x])
		}
	}
	return out
}

func BaseIndex() []int { return make([]int, len(Dims)) }

// Singles: the base plus every vector that differs from it in one dimension.
func Singles() [][]int {
	out := [][]int{BaseIndex()}
	for d := range Dims {
		for v := 1; v < len(Dims[d].Values); v++ {
			x := BaseIndex()
			x[d] = v
			out = append(out, x)
		}
	}
	return out
}

// Pairs: every vector that differs from the base in exactly two dimensions.
func Pairs() [][]int {
	var out [][]int
	for d1 := range Dims {
		for d2 := d1 + 1; d2 < len(Dims); d2++ {
			for v1 := 1; v1 < len(Dims[d1].Values); v1++ {
				for v2 := 1; v2 < len(Dims[d2].Values); v2++ {
					x := BaseIndex()
					x[d1], x[d2] = v1, v2
					out = append(out, x)
				}
			}
		}
	}
	return out
}

// Product: the complete product over the named dimensions, others at base,
// ordered simplest first (by number of non-base coordinates, then lexicographic).
func Product(names ...string) [][]int {
	var dims []int
	for _, n := range names {
		dims = append(dims, DimIndex(n))
	}
	var out [][]int
	var rec func(k int, cur []int)
	rec = func(k int, cur []int) {
		if k == len(dims) {
			out = append(out, append([]int{}, cur...))
			return
		}
		for v := range Dims[dims[k]].Values {
			cur[dims[k]] = v
			rec(k+1, cur)
		}
		cur[dims[k]] = 0
	}
	rec(0, BaseIndex())
	return out
}

func AllDimNames() []string {
	var n []string
	for _, d := range Dims {
		n = append(n, d.Name)
	}
	return n
}

func Weight(idx []int) int {
	w := 0
	for _, x := range idx {
		if x != 0 {
			w++
		}
	}
	return w
}

func IndexKey(idx []int) string {
	var sb strings.Builder
	for _, x := range idx {
		sb.WriteByte(byte('0' + x))
	}
	return sb.String()
}

// ---- builder ---------------------------------------------------------------------

var (
	oidData         = OID(1, 2, 840, 113549, 1, 7, 1)
	oidSignedData   = OID(1, 2, 840, 113549, 1, 7, 2)
	oidContentType  = OID(1, 2, 840, 113549, 1, 9, 3)
	oidMessageDig   = OID(1, 2, 840, 113549, 1, 9, 4)
	oidSigningTime  = OID(1, 2, 840, 113549, 1, 9, 5)
	oidCounterSign  = OID(1, 2, 840, 113549, 1, 9, 6)
	oidTSTInfo      = OID(1, 2, 840, 113549, 1, 9, 16, 1, 4)
	oidTSToken      = OID(1, 2, 840, 113549, 1, 9, 16, 2, 14)
	oidMSTSToken    = OID(1, 3, 6, 1, 4, 1, 311, 3, 3, 1)
	oidSigningCert1 = OID(1, 2, 840, 113549, 1, 9, 16, 2, 12)
	oidSigningCert2 = OID(1, 2, 840, 113549, 1, 9, 16, 2, 47)
	oidSpcIndirect  = OID(1, 3, 6, 1, 4, 1, 311, 2, 1, 4)
	oidSpcPEImage   = OID(1, 3, 6, 1, 4, 1, 311, 2, 1, 15)
	oidCTL          = OID(1, 3, 6, 1, 4, 1, 311, 10, 1)
	oidCatList      = OID(1, 3, 6, 1, 4, 1, 311, 12, 1, 1)
	oidCatMember    = OID(1, 3, 6, 1, 4, 1, 311, 12, 1, 2)
	oidExtraAttr    = OID(1, 3, 6, 1, 4, 1, 57264, 99, 1)
	oidRSA          = OID(1, 2, 840, 113549, 1, 1, 1)
	oidSHA256RSA    = OID(1, 2, 840, 113549, 1, 1, 11)
	oidPSS          = OID(1, 2, 840, 113549, 1, 1, 10)
	oidMGF1         = OID(1, 2, 840, 113549, 1, 1, 8)
	oidECDSA256     = OID(1, 2, 840, 10045, 4, 3, 2)
	oidECDSA384     = OID(1, 2, 840, 10045, 4, 3, 3)
	oidSHA1         = OID(1, 3, 14, 3, 2, 26)
	oidSHA256       = OID(2, 16, 840, 1, 101, 3, 4, 2, 1)
	oidSHA384       = OID(2, 16, 840, 1, 101, 3, 4, 2, 2)
	oidSHA512       = OID(2, 16, 840, 1, 101, 3, 4, 2, 3)
	oidTSAPolicy    = OID(1, 2, 3, 4, 1)
)

func hashOID(h crypto.Hash) []byte {
	switch h {
	case crypto.SHA1:
		return oidSHA1
	case crypto.SHA256:
		return oidSHA256
	case crypto.SHA384:
		return oidSHA384
	case crypto.SHA512:
		return oidSHA512
	}
	panic("hash")
}

func hashByName(n string) crypto.Hash {
	switch n {
	case "sha1":
		return crypto.SHA1
	case "", "sha256":
		return crypto.SHA256
	case "sha384":
		return crypto.SHA384
	case "sha512":
		return crypto.SHA512
	}
	panic("hash name " + n)
}

func algID(oid []byte, null bool) []byte {
	if null {
		return Seq(oid, Null())
	}
	return Seq(oid)
}

// Gen builds members of the family, caching signatures and tokens (a signature
// depends only on key, algorithm and the bytes signed).
type Gen struct {
	F    *Fixtures
	Time time.Time
	sigs sync.Map
	toks sync.Map
}

func NewGen(f *Fixtures) *Gen {
	return &Gen{F: f, Time: time.Date(2026, 6, 1, 12, 0, 0, 0, time.UTC)}
}

// Built is a generated structure plus what the oracle needs to know about it.
type Built struct {
	DER      []byte
	External []byte // content octets when the structure is detached (nil otherwise)
	Content  []byte // content octets in every case
}

var DataContent = []byte("C16 payload: the quick brown fox jumps over the lazy dog\n")

func (g *Gen) sign(key *Key, alg string, h crypto.Hash, tbs []byte) []byte {
	d := Digest(h, tbs)
	ck := key.Name + "|" + alg + "|" + hex.EncodeToString(d)
	if v, ok := g.sigs.Load(ck); ok {
		return v.([]byte)
	}
	var sig []byte
	var err error
	switch alg {
	case "rsa", "sha256rsa":
		sig, err = rsa.SignPKCS1v15(nil, key.Signer.(*rsa.PrivateKey), h, d)
	case "pss":
		sig, err = rsa.SignPSS(rand.Reader, key.Signer.(*rsa.PrivateKey), h, d, &rsa.PSSOptions{SaltLength: 32, Hash: h})
	case "ec256", "ec384":
		sig, err = ecdsa.SignASN1(rand.Reader, key.Signer.(*ecdsa.PrivateKey), d)
	default:
		panic("sig alg " + alg)
	}
	if err != nil {
		panic(err)
	}
	v, _ := g.sigs.LoadOrStore(ck, sig)
	return v.([]byte)
}

func sigAlgID(alg string) []byte {
	switch alg {
	case "rsa":
		return Seq(oidRSA, Null())
	case "sha256rsa":
		return Seq(oidSHA256RSA, Null())
	case "pss":
		return Seq(oidPSS, Seq(
			Ctx(0, true, Seq(oidSHA256, Null())),
			Ctx(1, true, Seq(oidMGF1, Seq(oidSHA256, Null()))),
			Ctx(2, true, Int(32))))
	case "ec256":
		return Seq(oidECDSA256)
	case "ec384":
		return Seq(oidECDSA384)
	}
	panic("sig alg " + alg)
}

func attr(oid []byte, values ...[]byte) []byte { return Seq(oid, SetAsGiven(values...)) }

func sid(kind string, k *Key) []byte {
	if kind == "ski" {
		return Ctx(0, false, k.SKI)
	}
	return Seq(k.Leaf.RawIssuer, BigInt(k.Leaf.SerialNumber))
}

type signerSpec struct {
	key  *Key
	alg  string
	hash crypto.Hash
}

func (g *Gen) contentOf(p Params) (ctype, inner, content []byte) {
	switch p.EContent {
	case "data":
		return oidData, Octets(DataContent), DataContent
	case "absent":
		return oidData, nil, DataContent
	case "spc":
		dg := sha256.Sum256([]byte("pretend image"))
		v := Seq(
			Seq(oidSpcPEImage, Seq(BitString(nil), Ctx(0, true, Ctx(2, true, Ctx(0, false, []byte{}))))),
			Seq(Seq(oidSHA256, Null()), Octets(dg[:])))
		n, _ := Parse(v)
		return oidSpcIndirect, v, n.Content().Of(v)
	case "ctl":
		v := Seq(
			Seq(oidCatList),
			Octets([]byte("0123456789abcdef")),
			UTCTime(g.Time),
			Seq(oidCatMember, Null()),
			Seq(Seq(Octets([]byte("member-1")), SetAsGiven())))
		n, _ := Parse(v)
		return oidCTL, v, n.Content().Of(v)
	case "tst":
		ih := hashByName(p.ImprintHash)
		imp, _ := hex.DecodeString(p.ImprintHex)
		items := [][]byte{
			Int(1), oidTSAPolicy,
			Seq(Seq(hashOID(ih), Null()), Octets(imp)),
			Int(0x5eed), GenTime(g.Time, ""),
			Seq(Int(1)),
		}
		if p.NonceHex != "" {
			n := new(big.Int)
			n.SetString(p.NonceHex, 16)
			items = append(items, BigInt(n))
		}
		info := Seq(items...)
		if p.WrapTST == "octet" {
			return oidTSTInfo, Octets(Octets(info)), Octets(info)
		}
		return oidTSTInfo, Octets(info), info
	}
	panic("econtent " + p.EContent)
}

func (g *Gen) signedAttrs(p Params, ctype, content []byte, s signerSpec) [][]byte {
	if p.Attrs == "absent" {
		return nil
	}
	st := UTCTime(g.Time)
	switch p.Attrs {
	case "gentime":
		st = GenTime(g.Time, "")
	case "frac":
		st = GenTime(g.Time, "5")
	}
	list := [][]byte{
		attr(oidContentType, ctype),
		attr(oidSigningTime, st),
		attr(oidMessageDig, Octets(Digest(s.hash, content))),
	}
	if p.EContent == "tst" {
		switch p.ESS {
		case "", "v2":
			list = append(list, attr(oidSigningCert2, Seq(Seq(Seq(Octets(Digest(crypto.SHA256, s.key.Leaf.Raw)))))))
		case "v1":
			list = append(list, attr(oidSigningCert1, Seq(Seq(Seq(Octets(Digest(crypto.SHA1, s.key.Leaf.Raw)))))))
		}
	}
	switch p.Attrs {
	case "unsorted":
		return ReverseDER(list)
	case "dup":
		list = append(list, attr(oidExtraAttr, UTF8String("first")), attr(oidExtraAttr, UTF8String("second")))
	}
	return SortDER(list)
}

// Token builds an RFC 3161 token (by the fixture TSA, with dergen) over sig.
// nested>0 gives the token's own SignerInfo a token over its signature.
func (g *Gen) Token(sig []byte, nested int, tp *Params) []byte {
	p := Params{Version: "3", DigAlgs: "1n", EContent: "tst", Certs: "leaf", CRLs: "no", Signers: "1", SID: "ias",
		Attrs: "sorted", SigAlg: "rsa", Unsigned: "none", Trailing: "0", Key: "tsa"}
	if tp != nil {
		p = *tp
		p.EContent = "tst"
		if p.Key == "" {
			p.Key = "tsa"
		}
	}
	if nested > 0 {
		p.Unsigned = "tst"
	}
	h := hashByName(p.ImprintHash)
	p.ImprintHex = hex.EncodeToString(Digest(h, sig))
	return g.TokenFor(p)
}

// TokenFor builds (and caches) the token selected by p, whose ImprintHex /
// ImprintHash / NonceHex are already set (a TSA answering a query).
func (g *Gen) TokenFor(p Params) []byte {
	p.EContent = "tst"
	if p.Key == "" {
		p.Key = "tsa"
	}
	ck := p.String() + "|" + p.ImprintHex + "|" + p.NonceHex
	if v, ok := g.toks.Load(ck); ok {
		return v.([]byte)
	}
	b := g.Build(p)
	g.toks.Store(ck, b.DER)
	return b.DER
}

func (g *Gen) counterSig(sig []byte) []byte {
	k := g.F.Keys["tsa"]
	attrs := SortDER([][]byte{
		attr(oidContentType, oidData),
		attr(oidSigningTime, UTCTime(g.Time)),
		attr(oidMessageDig, Octets(Digest(crypto.SHA256, sig))),
	})
	tbs := SetAsGiven(attrs...)
	s := g.sign(k, "rsa", crypto.SHA256, tbs)
	return Seq(Int(1), sid("ias", k), Seq(oidSHA256, Null()), Retag(0xa0, tbs), Seq(oidRSA, Null()), Octets(s))
}

// Build assembles the structure selected by p. Every SignerInfo is correctly
// signed.
func (g *Gen) Build(p Params) *Built {
	// signers
	var specs []signerSpec
	first := signerSpec{alg: p.SigAlg, hash: crypto.SHA256}
	switch p.SigAlg {
	case "rsa", "sha256rsa", "pss":
		first.key = g.F.Keys["rsaA"]
	case "ec256":
		first.key = g.F.Keys["p256A"]
	case "ec384":
		first.key = g.F.Keys["p384"]
		first.hash = crypto.SHA384
	default:
		panic("sig alg " + p.SigAlg)
	}
	if p.Key != "" {
		first.key = g.F.Keys[p.Key]
	}
	specs = append(specs, first)
	if p.Signers != "1" {
		specs = append(specs, signerSpec{key: g.F.Keys["rsaB"], alg: "rsa", hash: first.hash})
	}
	null := strings.HasSuffix(p.DigAlgs, "n")
	ctype, inner, content := g.contentOf(p)

	var infos [][]byte
	for i, s := range specs {
		attrs := g.signedAttrs(p, ctype, content, s)
		var tbs, enc []byte
		if attrs != nil {
			tbs = SetAsGiven(attrs...)
			enc = Retag(0xa0, tbs)
		} else {
			tbs = content
		}
		sig := g.sign(s.key, s.alg, s.hash, tbs)
		ver := int64(1)
		if p.SID == "ski" {
			ver = 3
		}
		items := [][]byte{Int(ver), sid(p.SID, s.key), algID(hashOID(s.hash), null)}
		if enc != nil {
			items = append(items, enc)
		}
		items = append(items, sigAlgID(s.alg), Octets(sig))
		if i == 0 {
			switch p.Unsigned {
			case "tst":
				items = append(items, Ctx(1, true, attr(oidTSToken, g.Token(sig, 0, nil))))
			case "mstst":
				items = append(items, Ctx(1, true, attr(oidMSTSToken, g.Token(sig, 0, nil))))
			case "nested":
				items = append(items, Ctx(1, true, attr(oidTSToken, g.Token(sig, 1, nil))))
			case "counter":
				items = append(items, Ctx(1, true, attr(oidCounterSign, g.counterSig(sig))))
			case "none":
				if p.Quirk == "empty-unsigned" {
					items = append(items, Ctx(1, true))
				}
			}
		}
		infos = append(infos, Seq(items...))
	}
	switch p.Signers {
	case "2s":
		infos = SortDER(infos)
	case "2u":
		infos = ReverseDER(infos)
	}

	// digestAlgorithms
	digs := [][]byte{algID(hashOID(first.hash), null)}
	if strings.HasPrefix(p.DigAlgs, "2") {
		other := crypto.SHA1
		digs = append(digs, algID(hashOID(other), null))
		if p.DigAlgs[1] == 's' {
			digs = SortDER(digs)
		} else {
			digs = ReverseDER(digs)
		}
	}

	// certificates
	var certs [][]byte
	for _, s := range specs {
		certs = append(certs, s.key.Leaf.Raw)
	}
	hasCerts := true
	switch p.Certs {
	case "none":
		hasCerts = false
		if p.Quirk == "empty-certs" {
			hasCerts, certs = true, nil
		}
	case "leaf":
	case "3s", "3u", "3x":
		certs = append(certs, g.F.Inter.Raw, g.F.Root.Raw)
		if p.Certs == "3s" {
			certs = SortDER(certs)
		} else {
			certs = ReverseDER(certs)
		}
		if p.Certs == "3x" {
			// other [3] IMPLICIT OtherCertificateFormat: valid CMS, not an X.509 certificate
			junk := Ctx(3, true, OID(1, 3, 6, 1, 4, 1, 57264, 99, 2), Octets([]byte("not a certificate")))
			certs = append(certs[:1], append([][]byte{junk}, certs[1:]...)...)
		}
	default:
		panic("certs " + p.Certs)
	}

	eci := [][]byte{ctype}
	if inner != nil {
		eci = append(eci, Ctx(0, true, inner))
	}
	ver := int64(1)
	if p.Version == "3" {
		ver = 3
	}
	sd := [][]byte{Int(ver), SetAsGiven(digs...), Seq(eci...)}
	if hasCerts {
		sd = append(sd, Ctx(0, true, certs...))
	}
	if p.CRLs == "yes" {
		sd = append(sd, Ctx(1, true, g.F.CRL))
	} else if p.CRLs == "gentime" && g.F.CRLGenTime != nil {
		sd = append(sd, Ctx(1, true, g.F.CRLGenTime))
	} else if p.CRLs == "critfalse" && g.F.CRLCritFalse != nil {
		sd = append(sd, Ctx(1, true, g.F.CRLCritFalse))
	} else if p.Quirk == "empty-crls" {
		sd = append(sd, Ctx(1, true))
	}
	sd = append(sd, SetAsGiven(infos...))
	out := Seq(oidSignedData, Ctx(0, true, Seq(sd...)))
	switch p.Trailing {
	case "", "0":
	default:
		var n int
		fmt.Sscan(p.Trailing, &n)
		out = append(out, make([]byte, n)...)
	}
	b := &Built{DER: out, Content: content}
	if inner == nil {
		b.External = content
	}
	return b
}

// TimeStampResp wraps a token into a granted RFC 3161 response.
func TimeStampResp(token []byte) []byte {
	return Seq(Seq(Int(0)), token)
}

// TSQuery is what the walker reads out of an RFC 3161 TimeStampReq.
type TSQuery struct {
	HashOID  string
	Imprint  []byte
	NonceHex string
	CertReq  bool
}

func ParseTSQuery(b []byte) (*TSQuery, error) {
	n, err := Parse(b)
	if err != nil {
		return nil, err
	}
	if !n.Is(0, 16) || len(n.Kids) < 2 {
		return nil, fmt.Errorf("TimeStampReq: short")
	}
	mi := n.Kids[1]
	if !mi.Is(0, 16) || len(mi.Kids) != 2 || len(mi.Kids[0].Kids) < 1 {
		return nil, fmt.Errorf("TimeStampReq: bad messageImprint")
	}
	q := &TSQuery{}
	if q.HashOID, err = nodeOID(b, mi.Kids[0].Kids[0]); err != nil {
		return nil, err
	}
	q.Imprint = mi.Kids[1].Content().Of(b)
	for _, k := range n.Kids[2:] {
		switch {
		case k.Is(0, 2):
			q.NonceHex = new(big.Int).SetBytes(k.Content().Of(b)).Text(16)
		case k.Is(0, 1):
			q.CertReq = k.Content().Of(b)[0] != 0
		}
	}
	return q, nil
}

var _ = x509.Certificate{}

package dergen

import (
	"bytes"
	"os"
	"os/exec"
	"path/filepath"
	"testing"
)

// Self-check of the generator against the walker, the independent verifier
// and OpenSSL: every single-feature member must locate, verify, and (where
// OpenSSL's CMS code applies) verify under `openssl cms -verify`.
func TestSinglesVerify(t *testing.T) {
	f, err := LoadFixtures()
	if err != nil {
		t.Fatal(err)
	}
	g := NewGen(f)
	dir := t.TempDir()
	all := append(Singles(), Pairs()...)
	for _, idx := range all {
		p := ParamsAt(idx)
		b := g.Build(p)
		lay, err := Locate(b.DER)
		if err != nil {
			t.Fatalf("%s: locate: %v", p, err)
		}
		if fails := VerifyAll(lay, b.External, f.Pool); len(fails) != 0 {
			t.Fatalf("%s: %v", p, fails)
		}
		if Weight(idx) > 1 {
			continue
		}
		if p.EContent == "spc" || p.SID == "ski" {
			continue
		}
		in := filepath.Join(dir, "x.der")
		os.WriteFile(in, bytes.TrimRight(b.DER, "\x00"), 0o644)
		args := []string{"cms", "-verify", "-binary", "-noverify", "-inform", "DER", "-in", in, "-out", os.DevNull}
		if b.External != nil {
			c := filepath.Join(dir, "content")
			os.WriteFile(c, b.External, 0o644)
			args = append(args, "-content", c)
		}
		if p.Certs == "none" {
			args = append(args, "-certfile", filepath.Join(KeyDir, "rsaA.leaf.crt"))
		}
		out, err := exec.Command("openssl", args...).CombinedOutput()
		if err != nil {
			t.Errorf("%s: openssl cms -verify: %v\n%s", p, err, out)
		}
		for _, ft := range lay.AllTokens() {
			tok := filepath.Join(dir, "tok.der")
			os.WriteFile(tok, ft.Ref.Value.Of(b.DER), 0o644)
			dg := filepath.Join(dir, "sig.bin")
			os.WriteFile(dg, ft.Over.Of(b.DER), 0o644)
			if ft.Path != "si0.tok0" {
				// nested token stamps the outer token's signature
				continue
			}
			out, err := exec.Command("openssl", "ts", "-verify", "-data", dg, "-in", tok, "-token_in",
				"-CAfile", filepath.Join(KeyDir, "root.crt"), "-untrusted", filepath.Join(KeyDir, "tsa.chain.crt")).CombinedOutput()
			if err != nil {
				t.Errorf("%s: openssl ts -verify: %v\n%s", p, err, out)
			}
		}
	}
}

func TestIndefinite(t *testing.T) {
	f, err := LoadFixtures()
	if err != nil {
		t.Fatal(err)
	}
	g := NewGen(f)
	b := g.Build(ParamsAt(BaseIndex()))
	x, err := ToIndefinite(b.DER, 3)
	if err != nil {
		t.Fatal(err)
	}
	if _, err := Parse(x); err != ErrIndefinite {
		t.Fatalf("walker must flag indefinite lengths, got %v", err)
	}
	y, _ := NonMinimalLength(b.DER)
	if _, err := Parse(y); err != ErrNonMinimal {
		t.Fatalf("walker must flag non-minimal lengths, got %v", err)
	}
	if rs := FindCMSBlobs(append([]byte("junk junk"), b.DER...)); len(rs) != 1 || rs[0].Start != 9 {
		t.Fatalf("FindCMSBlobs: %v", rs)
	}
}

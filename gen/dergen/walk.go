package dergen

import (
	"bytes"
	"errors"
	"fmt"
)

// ---- generic TLV walker -------------------------------------------------------

// Node is one TLV with absolute offsets into the buffer it was parsed from.
type Node struct {
	Class       int // 0 universal, 1 application, 2 context, 3 private
	Tag         int
	Constructed bool
	Start       int // offset of the identifier octet
	HdrLen      int
	End         int // one past the last content octet
	Kids        []*Node
}

func (n *Node) ContentStart() int { return n.Start + n.HdrLen }
func (n *Node) Range() Range      { return Range{n.Start, n.End} }
func (n *Node) Content() Range    { return Range{n.Start + n.HdrLen, n.End} }
func (n *Node) Is(class, tag int) bool {
	return n != nil && n.Class == class && n.Tag == tag
}

type Range struct{ Start, End int }

func (r Range) Len() int           { return r.End - r.Start }
func (r Range) Of(b []byte) []byte { return b[r.Start:r.End] }
func (r Range) Empty() bool        { return r.End <= r.Start }
func (r Range) String() string     { return fmt.Sprintf("[%d,%d)", r.Start, r.End) }

var (
	ErrIndefinite = errors.New("dergen: indefinite length (BER)")
	ErrNonMinimal = errors.New("dergen: non-minimal length (BER)")
	ErrTruncated  = errors.New("dergen: truncated TLV")
)

// Parse reads exactly one definite-length TLV at the start of b and,
// recursively, the members of every constructed value. Trailing bytes after
// the TLV are allowed (the caller looks at Node.End).
func Parse(b []byte) (*Node, error) { return parseAt(b, 0, len(b), 0) }

func parseAt(b []byte, off, limit, depth int) (*Node, error) {
	if depth > 64 {
		return nil, errors.New("dergen: nesting too deep")
	}
	if off+2 > limit {
		return nil, ErrTruncated
	}
	n := &Node{Start: off}
	id := b[off]
	n.Class = int(id >> 6)
	n.Constructed = id&0x20 != 0
	n.Tag = int(id & 0x1f)
	p := off + 1
	if n.Tag == 0x1f {
		n.Tag = 0
		for {
			if p >= limit {
				return nil, ErrTruncated
			}
			c := b[p]
			p++
			n.Tag = n.Tag<<7 | int(c&0x7f)
			if c&0x80 == 0 {
				break
			}
		}
	}
	if p >= limit {
		return nil, ErrTruncated
	}
	l := int(b[p])
	p++
	if l == 0x80 {
		return nil, ErrIndefinite
	}
	if l > 0x80 {
		k := l & 0x7f
		if k > 4 || p+k > limit {
			return nil, ErrTruncated
		}
		l = 0
		for i := 0; i < k; i++ {
			l = l<<8 | int(b[p+i])
		}
		if b[p] == 0 || l < 0x80 {
			return nil, ErrNonMinimal
		}
		p += k
	}
	n.HdrLen = p - off
	n.End = p + l
	if n.End > limit || l < 0 {
		return nil, ErrTruncated
	}
	if n.Constructed {
		q := p
		for q < n.End {
			k, err := parseAt(b, q, n.End, depth+1)
			if err != nil {
				return nil, err
			}
			n.Kids = append(n.Kids, k)
			q = k.End
		}
	}
	return n, nil
}

// ---- CMS SignedData layout -----------------------------------------------------

const (
	OIDData           = "1.2.840.113549.1.7.1"
	OIDSignedData     = "1.2.840.113549.1.7.2"
	OIDContentType    = "1.2.840.113549.1.9.3"
	OIDMessageDigest  = "1.2.840.113549.1.9.4"
	OIDSigningTime    = "1.2.840.113549.1.9.5"
	OIDCounterSign    = "1.2.840.113549.1.9.6"
	OIDTSTInfo        = "1.2.840.113549.1.9.16.1.4"
	OIDTimeStampToken = "1.2.840.113549.1.9.16.2.14"
	OIDMSTimeStamp    = "1.3.6.1.4.1.311.3.3.1"
	OIDSigningCertV1  = "1.2.840.113549.1.9.16.2.12"
	OIDSigningCertV2  = "1.2.840.113549.1.9.16.2.47"
	OIDSpcIndirect    = "1.3.6.1.4.1.311.2.1.4"
	OIDCTL            = "1.3.6.1.4.1.311.10.1"
	OIDMSNested       = "1.3.6.1.4.1.311.2.4.1"
)

type AttrLayout struct {
	OID    string
	Full   Range   // the Attribute SEQUENCE
	Set    Range   // the SET OF values TLV
	Values []Range // each value TLV
}

type TokenRef struct {
	AttrOID string
	Value   Range // the token ContentInfo TLV inside the attribute value set
	Layout  *CMS  // located relative to the same buffer
}

type SignerInfo struct {
	Full          Range
	Version       int
	SID           Range
	SIDKind       string // "ias" or "ski"
	Issuer        Range  // ias: Name TLV
	Serial        Range  // ias: INTEGER content octets
	SKI           Range  // ski: key identifier octets
	DigestAlg     Range
	DigestOID     string
	HasSigned     bool
	SignedAttrs   Range // the [0] IMPLICIT TLV exactly as encoded
	Attrs         []AttrLayout
	SigAlg        Range
	SigOID        string
	SigParams     Range
	Signature     Range // content octets of the OCTET STRING
	SignatureTLV  Range
	HasUnsigned   bool
	UnsignedAttrs Range
	UAttrs        []AttrLayout
	Tokens        []TokenRef
	CounterSigs   []*SignerInfo
}

type CMS struct {
	B             []byte
	Full          Range
	Trailing      Range
	Version       int
	VersionTLV    Range
	DigestAlgs    Range
	DigestAlgList []Range
	EncapCI       Range
	EContentType  string
	HasEContent   bool
	EContent      Range // the value TLV inside [0] EXPLICIT
	EContentBody  Range // its content octets (what CMS / PKCS#7 digests)
	EContentTag   int
	HasCerts      bool
	Certs         Range
	CertList      []Range
	HasCRLs       bool
	CRLs          Range
	CRLList       []Range
	SignerInfoSet Range
	Signers       []*SignerInfo
}

func childInt(b []byte, n *Node) (int, error) {
	if !n.Is(0, 2) || n.Constructed {
		return 0, fmt.Errorf("expected INTEGER at %d", n.Start)
	}
	c := n.Content().Of(b)
	if len(c) == 0 || len(c) > 4 {
		return 0, fmt.Errorf("INTEGER size %d at %d", len(c), n.Start)
	}
	v := 0
	for _, x := range c {
		v = v<<8 | int(x)
	}
	return v, nil
}

func nodeOID(b []byte, n *Node) (string, error) {
	if !n.Is(0, 6) || n.Constructed {
		return "", fmt.Errorf("expected OID at %d", n.Start)
	}
	return oidString(n.Content().Of(b)), nil
}

// Locate finds the named byte ranges of a ContentInfo{signedData} encoded with
// definite lengths. Zero padding after the outer TLV is reported as Trailing.
func Locate(b []byte) (*CMS, error) {
	root, err := Parse(b)
	if err != nil {
		return nil, err
	}
	c, err := locateFrom(b, root)
	if err != nil {
		return nil, err
	}
	c.Trailing = Range{root.End, len(b)}
	return c, nil
}

func locateFrom(b []byte, root *Node) (*CMS, error) {
	c := &CMS{B: b, Full: root.Range()}
	if !root.Is(0, 16) || len(root.Kids) != 2 {
		return nil, errors.New("ContentInfo: expected SEQUENCE of 2")
	}
	oid, err := nodeOID(b, root.Kids[0])
	if err != nil || oid != OIDSignedData {
		return nil, fmt.Errorf("ContentInfo: contentType %q is not signedData", oid)
	}
	ex := root.Kids[1]
	if !ex.Is(2, 0) || !ex.Constructed || len(ex.Kids) != 1 {
		return nil, errors.New("ContentInfo: expected [0] EXPLICIT with one member")
	}
	sd := ex.Kids[0]
	if !sd.Is(0, 16) || len(sd.Kids) < 4 {
		return nil, errors.New("SignedData: expected SEQUENCE of >=4")
	}
	k := sd.Kids
	if c.Version, err = childInt(b, k[0]); err != nil {
		return nil, err
	}
	c.VersionTLV = k[0].Range()
	if !k[1].Is(0, 17) {
		return nil, errors.New("SignedData: digestAlgorithms is not a SET")
	}
	c.DigestAlgs = k[1].Range()
	for _, a := range k[1].Kids {
		c.DigestAlgList = append(c.DigestAlgList, a.Range())
	}
	eci := k[2]
	if !eci.Is(0, 16) || len(eci.Kids) < 1 || len(eci.Kids) > 2 {
		return nil, errors.New("SignedData: bad encapContentInfo")
	}
	c.EncapCI = eci.Range()
	if c.EContentType, err = nodeOID(b, eci.Kids[0]); err != nil {
		return nil, err
	}
	if len(eci.Kids) == 2 {
		e := eci.Kids[1]
		if !e.Is(2, 0) || !e.Constructed || len(e.Kids) != 1 {
			return nil, errors.New("encapContentInfo: expected [0] EXPLICIT with one member")
		}
		c.HasEContent = true
		c.EContent = e.Kids[0].Range()
		c.EContentBody = e.Kids[0].Content()
		c.EContentTag = e.Kids[0].Tag
	}
	i := 3
	if i < len(k) && k[i].Is(2, 0) {
		c.HasCerts = true
		c.Certs = k[i].Range()
		for _, x := range k[i].Kids {
			c.CertList = append(c.CertList, x.Range())
		}
		i++
	}
	if i < len(k) && k[i].Is(2, 1) {
		c.HasCRLs = true
		c.CRLs = k[i].Range()
		for _, x := range k[i].Kids {
			c.CRLList = append(c.CRLList, x.Range())
		}
		i++
	}
	if i != len(k)-1 || !k[i].Is(0, 17) {
		return nil, errors.New("SignedData: signerInfos SET not found where expected")
	}
	c.SignerInfoSet = k[i].Range()
	for _, s := range k[i].Kids {
		si, err := locateSigner(b, s)
		if err != nil {
			return nil, err
		}
		c.Signers = append(c.Signers, si)
	}
	return c, nil
}

func locateAttrs(b []byte, set *Node) ([]AttrLayout, error) {
	var out []AttrLayout
	for _, a := range set.Kids {
		if !a.Is(0, 16) || len(a.Kids) != 2 || !a.Kids[1].Is(0, 17) {
			return nil, fmt.Errorf("attribute at %d: expected SEQUENCE{OID, SET}", a.Start)
		}
		oid, err := nodeOID(b, a.Kids[0])
		if err != nil {
			return nil, err
		}
		al := AttrLayout{OID: oid, Full: a.Range(), Set: a.Kids[1].Range()}
		for _, v := range a.Kids[1].Kids {
			al.Values = append(al.Values, v.Range())
		}
		out = append(out, al)
	}
	return out, nil
}

func locateSigner(b []byte, s *Node) (*SignerInfo, error) {
	if !s.Is(0, 16) || len(s.Kids) < 5 {
		return nil, fmt.Errorf("SignerInfo at %d: expected SEQUENCE of >=5", s.Start)
	}
	si := &SignerInfo{Full: s.Range()}
	k := s.Kids
	var err error
	if si.Version, err = childInt(b, k[0]); err != nil {
		return nil, err
	}
	sid := k[1]
	si.SID = sid.Range()
	switch {
	case sid.Is(0, 16) && len(sid.Kids) == 2 && sid.Kids[1].Is(0, 2):
		si.SIDKind = "ias"
		si.Issuer = sid.Kids[0].Range()
		si.Serial = sid.Kids[1].Content()
	case sid.Is(2, 0):
		si.SIDKind = "ski"
		si.SKI = sid.Content()
	default:
		return nil, fmt.Errorf("SignerInfo at %d: unknown sid form", s.Start)
	}
	if !k[2].Is(0, 16) || len(k[2].Kids) < 1 {
		return nil, errors.New("SignerInfo: bad digestAlgorithm")
	}
	si.DigestAlg = k[2].Range()
	if si.DigestOID, err = nodeOID(b, k[2].Kids[0]); err != nil {
		return nil, err
	}
	i := 3
	if k[i].Is(2, 0) {
		si.HasSigned = true
		si.SignedAttrs = k[i].Range()
		if si.Attrs, err = locateAttrs(b, k[i]); err != nil {
			return nil, err
		}
		i++
	}
	if i+1 >= len(k) || !k[i].Is(0, 16) || len(k[i].Kids) < 1 {
		return nil, errors.New("SignerInfo: bad signatureAlgorithm")
	}
	si.SigAlg = k[i].Range()
	if si.SigOID, err = nodeOID(b, k[i].Kids[0]); err != nil {
		return nil, err
	}
	if len(k[i].Kids) > 1 {
		si.SigParams = k[i].Kids[1].Range()
	}
	i++
	if !k[i].Is(0, 4) || k[i].Constructed {
		return nil, errors.New("SignerInfo: signature is not a primitive OCTET STRING")
	}
	si.Signature = k[i].Content()
	si.SignatureTLV = k[i].Range()
	i++
	if i < len(k) {
		if !k[i].Is(2, 1) || i != len(k)-1 {
			return nil, errors.New("SignerInfo: unexpected member after signature")
		}
		si.HasUnsigned = true
		si.UnsignedAttrs = k[i].Range()
		if si.UAttrs, err = locateAttrs(b, k[i]); err != nil {
			return nil, err
		}
		for idx, ua := range si.UAttrs {
			setNode := k[i].Kids[idx].Kids[1]
			switch ua.OID {
			case OIDTimeStampToken, OIDMSTimeStamp, OIDMSNested:
				for _, v := range setNode.Kids {
					lay, err := locateFrom(b, v)
					if err != nil {
						return nil, fmt.Errorf("embedded token at %d: %w", v.Start, err)
					}
					si.Tokens = append(si.Tokens, TokenRef{AttrOID: ua.OID, Value: v.Range(), Layout: lay})
				}
			case OIDCounterSign:
				for _, v := range setNode.Kids {
					cs, err := locateSigner(b, v)
					if err != nil {
						return nil, fmt.Errorf("counterSignature at %d: %w", v.Start, err)
					}
					si.CounterSigs = append(si.CounterSigs, cs)
				}
			}
		}
	}
	return si, nil
}

// Attr returns the layouts of all attributes of the given type.
func FindAttrs(list []AttrLayout, oid string) []AttrLayout {
	var out []AttrLayout
	for _, a := range list {
		if a.OID == oid {
			out = append(out, a)
		}
	}
	return out
}

// AllTokens lists every embedded token (and tokens nested in tokens) with the
// path that leads to it.
type FoundToken struct {
	Path string
	Ref  TokenRef
	Over Range // signature value (content octets) the token is expected to stamp
}

func (c *CMS) AllTokens() []FoundToken {
	var out []FoundToken
	var rec func(path string, l *CMS)
	rec = func(path string, l *CMS) {
		for i, s := range l.Signers {
			for j, t := range s.Tokens {
				p := fmt.Sprintf("%ssi%d.tok%d", path, i, j)
				out = append(out, FoundToken{Path: p, Ref: t, Over: s.Signature})
				rec(p+"/", t.Layout)
			}
		}
	}
	rec("", c)
	return out
}

// TSTInfo fields needed to check a token against the signature it stamps.
type TSTInfo struct {
	ImprintOID string
	Imprint    []byte
	GenTime    string
}

func (c *CMS) TSTInfo() (*TSTInfo, error) {
	if c.EContentType != OIDTSTInfo || !c.HasEContent || c.EContentTag != 4 {
		return nil, errors.New("not a timestamp token")
	}
	body := c.EContentBody.Of(c.B)
	n, err := Parse(body)
	if err != nil {
		return nil, err
	}
	if !n.Is(0, 16) || len(n.Kids) < 5 {
		return nil, errors.New("TSTInfo: short")
	}
	mi := n.Kids[2]
	if !mi.Is(0, 16) || len(mi.Kids) != 2 || len(mi.Kids[0].Kids) < 1 {
		return nil, errors.New("TSTInfo: bad messageImprint")
	}
	oid, err := nodeOID(body, mi.Kids[0].Kids[0])
	if err != nil {
		return nil, err
	}
	return &TSTInfo{ImprintOID: oid, Imprint: mi.Kids[1].Content().Of(body), GenTime: string(n.Kids[4].Content().Of(body))}, nil
}

// FindCMSBlobs scans arbitrary container bytes for top-level definite-length
// ContentInfo{signedData} values (SEQUENCE header immediately followed by the
// signedData OID) that the walker can locate completely. Matches nested inside
// an earlier match are skipped.
func FindCMSBlobs(data []byte) []Range {
	pat := []byte{0x06, 0x09, 0x2a, 0x86, 0x48, 0x86, 0xf7, 0x0d, 0x01, 0x07, 0x02}
	var out []Range
	skipTo := 0
	for off := 0; ; {
		i := bytes.Index(data[off:], pat)
		if i < 0 {
			break
		}
		p := off + i
		off = p + 1
		for _, hdr := range []int{2, 3, 4, 5} {
			s := p - hdr
			if s < skipTo || s < 0 || data[s] != 0x30 {
				continue
			}
			n, err := parseAt(data, s, len(data), 0)
			if err != nil || n.HdrLen != hdr {
				continue
			}
			if _, err := locateFrom(data, n); err != nil {
				continue
			}
			out = append(out, n.Range())
			skipTo = n.End
			off = n.End
			break
		}
		if off >= len(data) {
			break
		}
	}
	return out
}

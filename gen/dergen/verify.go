package dergen

import (
	"bytes"
	"crypto"
	"crypto/ecdsa"
	_ "crypto/md5"
	"crypto/rsa"
	_ "crypto/sha1"
	"crypto/sha256"
	_ "crypto/sha512"
	"crypto/x509"
	"errors"
	"fmt"
	"sync"
)

// Independent signature verification on walker layouts: Go crypto only.

var HashByOID = map[string]crypto.Hash{
	"1.2.840.113549.2.5":     crypto.MD5,
	"1.3.14.3.2.26":          crypto.SHA1,
	"2.16.840.1.101.3.4.2.1": crypto.SHA256,
	"2.16.840.1.101.3.4.2.2": crypto.SHA384,
	"2.16.840.1.101.3.4.2.3": crypto.SHA512,
}

const (
	OIDRSA       = "1.2.840.113549.1.1.1"
	OIDSHA1RSA   = "1.2.840.113549.1.1.5"
	OIDSHA256RSA = "1.2.840.113549.1.1.11"
	OIDSHA384RSA = "1.2.840.113549.1.1.12"
	OIDSHA512RSA = "1.2.840.113549.1.1.13"
	OIDRSAPSS    = "1.2.840.113549.1.1.10"
	OIDECPubKey  = "1.2.840.10045.2.1"
	OIDECDSASHA1 = "1.2.840.10045.4.1"
	OIDECDSA256  = "1.2.840.10045.4.3.2"
	OIDECDSA384  = "1.2.840.10045.4.3.3"
	OIDECDSA512  = "1.2.840.10045.4.3.4"
	OIDMGF1      = "1.2.840.113549.1.1.8"
)

func Digest(h crypto.Hash, parts ...[]byte) []byte {
	w := h.New()
	for _, p := range parts {
		w.Write(p)
	}
	return w.Sum(nil)
}

// EmbeddedCerts parses the certificates of a layout with crypto/x509,
// silently skipping members that are not certificates.
func (c *CMS) EmbeddedCerts() []*x509.Certificate {
	var out []*x509.Certificate
	for _, r := range c.CertList {
		if cert, err := certCache(r.Of(c.B)); err == nil {
			out = append(out, cert)
		}
	}
	return out
}

var certMemo sync.Map

func certCache(der []byte) (*x509.Certificate, error) {
	k := sha256.Sum256(der)
	if v, ok := certMemo.Load(k); ok {
		if c, ok := v.(*x509.Certificate); ok {
			return c, nil
		}
		return nil, v.(error)
	}
	c, err := x509.ParseCertificate(append([]byte{}, der...))
	if err != nil {
		certMemo.Store(k, err)
		return nil, err
	}
	certMemo.Store(k, c)
	return c, nil
}

func findCert(b []byte, si *SignerInfo, pool []*x509.Certificate) *x509.Certificate {
	for _, c := range pool {
		switch si.SIDKind {
		case "ias":
			if !bytes.Equal(c.RawIssuer, si.Issuer.Of(b)) {
				continue
			}
			ser := c.SerialNumber.Bytes()
			got := bytes.TrimLeft(si.Serial.Of(b), "\x00")
			if bytes.Equal(ser, got) {
				return c
			}
		case "ski":
			if bytes.Equal(KeyID(c), si.SKI.Of(b)) {
				return c
			}
		}
	}
	return nil
}

type pssParams struct {
	hash crypto.Hash
	salt int
}

func parsePSS(p []byte) (pssParams, error) {
	out := pssParams{hash: crypto.SHA1, salt: 20}
	n, err := Parse(p)
	if err != nil || !n.Is(0, 16) {
		return out, errors.New("RSASSA-PSS parameters: not a SEQUENCE")
	}
	for _, k := range n.Kids {
		if k.Class != 2 || len(k.Kids) != 1 {
			return out, errors.New("RSASSA-PSS parameters: bad member")
		}
		switch k.Tag {
		case 0:
			oid, err := nodeOID(p, k.Kids[0].Kids[0])
			if err != nil {
				return out, err
			}
			h, ok := HashByOID[oid]
			if !ok {
				return out, fmt.Errorf("RSASSA-PSS hash %s unknown", oid)
			}
			out.hash = h
		case 1:
			// mask generation function: MGF1 with the same hash is the only
			// combination crypto/rsa implements
			mg := k.Kids[0]
			oid, err := nodeOID(p, mg.Kids[0])
			if err != nil || oid != OIDMGF1 {
				return out, errors.New("RSASSA-PSS: unsupported MGF")
			}
		case 2:
			v, err := childInt(p, k.Kids[0])
			if err != nil {
				return out, err
			}
			out.salt = v
		}
	}
	return out, nil
}

var verifyMemo sync.Map

func rawVerify(pub crypto.PublicKey, pubDER []byte, sigOID string, sigParams []byte, h crypto.Hash, tbs, sig []byte) error {
	w := sha256.New()
	w.Write(pubDER)
	w.Write([]byte(sigOID))
	w.Write(sigParams)
	w.Write([]byte{byte(h)})
	w.Write(Digest(crypto.SHA256, tbs))
	w.Write(sig)
	var key [32]byte
	copy(key[:], w.Sum(nil))
	if v, ok := verifyMemo.Load(key); ok {
		if v == nil {
			return nil
		}
		return v.(error)
	}
	err := rawVerify1(pub, sigOID, sigParams, h, tbs, sig)
	if err == nil {
		verifyMemo.Store(key, nil)
	} else {
		verifyMemo.Store(key, err)
	}
	return err
}

func rawVerify1(pub crypto.PublicKey, sigOID string, sigParams []byte, h crypto.Hash, tbs, sig []byte) error {
	switch sigOID {
	case OIDRSA, OIDSHA1RSA, OIDSHA256RSA, OIDSHA384RSA, OIDSHA512RSA:
		rp, ok := pub.(*rsa.PublicKey)
		if !ok {
			return errors.New("RSA signature algorithm with a non-RSA certificate key")
		}
		return rsa.VerifyPKCS1v15(rp, h, Digest(h, tbs), sig)
	case OIDRSAPSS:
		rp, ok := pub.(*rsa.PublicKey)
		if !ok {
			return errors.New("RSASSA-PSS with a non-RSA certificate key")
		}
		pp, err := parsePSS(sigParams)
		if err != nil {
			return err
		}
		return rsa.VerifyPSS(rp, pp.hash, Digest(pp.hash, tbs), sig, &rsa.PSSOptions{SaltLength: pp.salt, Hash: pp.hash})
	case OIDECPubKey, OIDECDSASHA1, OIDECDSA256, OIDECDSA384, OIDECDSA512:
		ep, ok := pub.(*ecdsa.PublicKey)
		if !ok {
			return errors.New("ECDSA signature algorithm with a non-EC certificate key")
		}
		if !ecdsa.VerifyASN1(ep, Digest(h, tbs), sig) {
			return errors.New("ECDSA verification failed")
		}
		return nil
	}
	return fmt.Errorf("signature algorithm %s not implemented by the independent verifier", sigOID)
}

// ErrNoCert is returned when the signer certificate is neither embedded nor in
// the extra pool: the signature can then not be judged.
var ErrNoCert = errors.New("signer certificate not available")

// VerifySigner checks one SignerInfo. content is the (possibly external)
// content octets; nil means "unknown" and skips the messageDigest comparison
// (allowed only when signed attributes are present).
func VerifySigner(b []byte, si *SignerInfo, content []byte, pool []*x509.Certificate) error {
	h, ok := HashByOID[si.DigestOID]
	if !ok {
		return fmt.Errorf("digest algorithm %s unknown", si.DigestOID)
	}
	var tbs []byte
	if si.HasSigned {
		mds := FindAttrs(si.Attrs, OIDMessageDigest)
		if len(mds) == 0 || len(mds[0].Values) == 0 {
			return errors.New("signed attributes without messageDigest")
		}
		if content != nil {
			v := mds[0].Values[0].Of(b)
			n, err := Parse(v)
			if err != nil || !n.Is(0, 4) {
				return errors.New("messageDigest value is not an OCTET STRING")
			}
			if !bytes.Equal(n.Content().Of(v), Digest(h, content)) {
				return errors.New("messageDigest does not equal the digest of the content")
			}
		}
		enc := si.SignedAttrs.Of(b)
		tbs = append([]byte{0x31}, enc[1:]...)
	} else {
		if content == nil {
			return errors.New("no signed attributes and no content to verify against")
		}
		tbs = content
	}
	cert := findCert(b, si, pool)
	if cert == nil {
		return ErrNoCert
	}
	var params []byte
	if !si.SigParams.Empty() {
		params = si.SigParams.Of(b)
	}
	return rawVerify(cert.PublicKey, cert.RawSubjectPublicKeyInfo, si.SigOID, params, h, tbs, si.Signature.Of(b))
}

// Failure is one independently established verification failure.
type Failure struct {
	Path string
	Err  error
}

// VerifyAll verifies every SignerInfo, every embedded token (signature +
// message imprint over the enclosing signature value) and every legacy
// counterSignature, recursively. content: external content for detached
// structures (nil = unknown).
func VerifyAll(c *CMS, content []byte, extra []*x509.Certificate) []Failure {
	var out []Failure
	verifyRec(c, "", content, extra, &out)
	return out
}

func verifyRec(c *CMS, path string, content []byte, extra []*x509.Certificate, out *[]Failure) {
	pool := append(c.EmbeddedCerts(), extra...)
	if c.HasEContent {
		content = c.EContentBody.Of(c.B)
	}
	for i, si := range c.Signers {
		p := fmt.Sprintf("%ssi%d", path, i)
		if err := VerifySigner(c.B, si, content, pool); err != nil {
			*out = append(*out, Failure{p, err})
		}
		sig := si.Signature.Of(c.B)
		for j, t := range si.Tokens {
			tp := fmt.Sprintf("%s.tok%d", p, j)
			if t.Layout.EContentType == OIDTSTInfo {
				info, err := t.Layout.TSTInfo()
				if err != nil {
					*out = append(*out, Failure{tp, err})
				} else if h, ok := HashByOID[info.ImprintOID]; !ok {
					*out = append(*out, Failure{tp, fmt.Errorf("imprint hash %s unknown", info.ImprintOID)})
				} else if !bytes.Equal(info.Imprint, Digest(h, sig)) {
					*out = append(*out, Failure{tp, errors.New("token imprint does not match the enclosing signature value")})
				}
			}
			verifyRec(t.Layout, tp+"/", nil, pool, out)
		}
		for j, cs := range si.CounterSigs {
			cp := fmt.Sprintf("%s.cs%d", p, j)
			if err := VerifySigner(c.B, cs, sig, pool); err != nil {
				*out = append(*out, Failure{cp, err})
			}
		}
	}
}

// Package dergen is a from-scratch DER writer, an independent DER range walker
// and a bounded-exhaustive generator of CMS SignedData structures (RFC 5652,
// RFC 3161, Authenticode flavours). It does not import relic and does not use
// encoding/asn1: the writer concatenates TLVs, the walker reads them back and
// reports byte ranges, so both sides of the C16 oracle are independent of the
// code under test.
package dergen

import (
	"bytes"
	"fmt"
	"math/big"
	"sort"
	"time"
)

// ---- writer ----------------------------------------------------------------

func encLen(n int) []byte {
	switch {
	case n < 0x80:
		return []byte{byte(n)}
	case n < 0x100:
		return []byte{0x81, byte(n)}
	case n < 0x10000:
		return []byte{0x82, byte(n >> 8), byte(n)}
	case n < 0x1000000:
		return []byte{0x83, byte(n >> 16), byte(n >> 8), byte(n)}
	default:
		return []byte{0x84, byte(n >> 24), byte(n >> 16), byte(n >> 8), byte(n)}
	}
}

// TLV writes identifier octet tag, a minimal definite length and the
// concatenated content.
func TLV(tag byte, content ...[]byte) []byte {
	n := 0
	for _, c := range content {
		n += len(c)
	}
	out := make([]byte, 0, n+6)
	out = append(out, tag)
	out = append(out, encLen(n)...)
	for _, c := range content {
		out = append(out, c...)
	}
	return out
}

func Seq(items ...[]byte) []byte { return TLV(0x30, items...) }

// SetAsGiven writes a SET with the members in the order given.
func SetAsGiven(items ...[]byte) []byte { return TLV(0x31, items...) }

// SortDER returns the items in DER SET OF order (ascending by encoding).
func SortDER(items [][]byte) [][]byte {
	out := append([][]byte{}, items...)
	sort.SliceStable(out, func(i, j int) bool { return bytes.Compare(out[i], out[j]) < 0 })
	return out
}

// ReverseDER returns the items in descending encoding order (never DER order
// when there are two distinct members).
func ReverseDER(items [][]byte) [][]byte {
	out := SortDER(items)
	for i, j := 0, len(out)-1; i < j; i, j = i+1, j-1 {
		out[i], out[j] = out[j], out[i]
	}
	return out
}

func IsSortedDER(items [][]byte) bool {
	for i := 1; i < len(items); i++ {
		if bytes.Compare(items[i-1], items[i]) > 0 {
			return false
		}
	}
	return true
}

// Ctx writes a context-specific tag n (<31).
func Ctx(n int, constructed bool, content ...[]byte) []byte {
	t := byte(0x80 | n)
	if constructed {
		t |= 0x20
	}
	return TLV(t, content...)
}

// Retag replaces the identifier octet of an encoded TLV (IMPLICIT tagging).
func Retag(tag byte, tlv []byte) []byte {
	out := append([]byte{}, tlv...)
	out[0] = tag
	return out
}

func OID(arcs ...int) []byte {
	var c []byte
	c = append(c, byte(arcs[0]*40+arcs[1]))
	for _, a := range arcs[2:] {
		var tmp []byte
		tmp = append(tmp, byte(a&0x7f))
		a >>= 7
		for a > 0 {
			tmp = append([]byte{byte(a&0x7f) | 0x80}, tmp...)
			a >>= 7
		}
		c = append(c, tmp...)
	}
	return TLV(0x06, c)
}

func BigInt(n *big.Int) []byte {
	if n.Sign() < 0 {
		panic("negative integers not needed")
	}
	b := n.Bytes()
	if len(b) == 0 {
		b = []byte{0}
	}
	if b[0]&0x80 != 0 {
		b = append([]byte{0}, b...)
	}
	return TLV(0x02, b)
}

func Int(n int64) []byte              { return BigInt(big.NewInt(n)) }
func Octets(b []byte) []byte          { return TLV(0x04, b) }
func Null() []byte                    { return []byte{0x05, 0x00} }
func BitString(b []byte) []byte       { return TLV(0x03, []byte{0}, b) }
func PrintableString(s string) []byte { return TLV(0x13, []byte(s)) }
func UTF8String(s string) []byte      { return TLV(0x0c, []byte(s)) }

func Bool(v bool) []byte {
	if v {
		return []byte{0x01, 0x01, 0xff}
	}
	return []byte{0x01, 0x01, 0x00}
}

func UTCTime(t time.Time) []byte { return TLV(0x17, []byte(t.UTC().Format("060102150405Z"))) }

// GenTime writes a GeneralizedTime; frac (e.g. "5" or "123") is appended after
// a dot when non-empty.
func GenTime(t time.Time, frac string) []byte {
	s := t.UTC().Format("20060102150405")
	if frac != "" {
		s += "." + frac
	}
	return TLV(0x18, []byte(s+"Z"))
}

// ---- indefinite-length re-encoding (BER, the shape Apple tooling emits) ------

// ToIndefinite re-encodes the outer `depth` constructed layers of a DER value
// with indefinite lengths (0x80 ... 00 00), leaving everything below untouched.
func ToIndefinite(der []byte, depth int) ([]byte, error) {
	n, err := Parse(der)
	if err != nil {
		return nil, err
	}
	return toIndef(der, n, depth), nil
}

func toIndef(b []byte, n *Node, depth int) []byte {
	if depth <= 0 || !n.Constructed {
		return b[n.Start:n.End]
	}
	out := []byte{b[n.Start], 0x80}
	for _, k := range n.Kids {
		out = append(out, toIndef(b, k, depth-1)...)
	}
	return append(out, 0, 0)
}

// ToIndefiniteLevels re-encodes the constructed layers at depths [from, to)
// (the outermost value is depth 0) with indefinite lengths; layers above them
// keep definite lengths, recomputed for the longer content. from=1 gives the
// BER shape "definite outside, indefinite inside".
func ToIndefiniteLevels(der []byte, from, to int) ([]byte, error) {
	n, err := Parse(der)
	if err != nil {
		return nil, err
	}
	return toIndefLevels(der, n, 0, from, to), nil
}

func toIndefLevels(b []byte, n *Node, depth, from, to int) []byte {
	if depth >= to || !n.Constructed {
		return b[n.Start:n.End]
	}
	var content []byte
	for _, k := range n.Kids {
		content = append(content, toIndefLevels(b, k, depth+1, from, to)...)
	}
	idLen := n.HdrLen - len(encLen(n.End-n.Start-n.HdrLen))
	if idLen < 1 {
		idLen = 1
	}
	out := append([]byte{}, b[n.Start:n.Start+idLen]...)
	if depth >= from {
		out = append(out, 0x80)
		out = append(out, content...)
		return append(out, 0, 0)
	}
	out = append(out, encLen(len(content))...)
	return append(out, content...)
}

// NonMinimalLength re-encodes the outermost length in long form with one
// superfluous leading zero octet (valid BER, invalid DER).
func NonMinimalLength(der []byte) ([]byte, error) {
	n, err := Parse(der)
	if err != nil {
		return nil, err
	}
	l := n.End - n.Start - n.HdrLen
	lb := encLen(l)
	var nl []byte
	if lb[0] < 0x80 {
		nl = []byte{0x81, lb[0]}
	} else {
		nl = append([]byte{lb[0] + 1, 0}, lb[1:]...)
	}
	out := []byte{der[0]}
	out = append(out, nl...)
	return append(out, der[n.Start+n.HdrLen:n.End]...), nil
}

// OIDString renders the content octets of an OBJECT IDENTIFIER in dotted form.
func OIDString(content []byte) string { return oidString(content) }

func oidString(content []byte) string {
	if len(content) == 0 {
		return ""
	}
	var arcs []uint64
	var v uint64
	first := true
	for _, c := range content {
		v = v<<7 | uint64(c&0x7f)
		if c&0x80 == 0 {
			if first {
				switch {
				case v < 40:
					arcs = append(arcs, 0, v)
				case v < 80:
					arcs = append(arcs, 1, v-40)
				default:
					arcs = append(arcs, 2, v-80)
				}
				first = false
			} else {
				arcs = append(arcs, v)
			}
			v = 0
		}
	}
	s := ""
	for i, a := range arcs {
		if i > 0 {
			s += "."
		}
		s += fmt.Sprint(a)
	}
	return s
}

package dergen

import (
	"errors"
)

// oidPadAttr is the (harness-private) type of the unsigned attribute that
// WithUnsignedAttr / PadToken add.
var oidPadAttr = OID(1, 3, 6, 1, 4, 1, 57264, 99, 3)

// WithUnsignedAttr returns cms (a definite-length ContentInfo{signedData})
// with one more Attribute in the unsignedAttrs of its FIRST SignerInfo (the
// field is created when absent). Unsigned attributes are outside every
// signature, so each signature of the structure stays valid; every enclosing
// length is rewritten. Trailing bytes after the structure are dropped.
func WithUnsignedAttr(cms, attribute []byte) ([]byte, error) {
	root, err := Parse(cms)
	if err != nil {
		return nil, err
	}
	if !root.Is(0, 16) || len(root.Kids) != 2 || !root.Kids[1].Is(2, 0) || len(root.Kids[1].Kids) != 1 {
		return nil, errors.New("WithUnsignedAttr: not a ContentInfo")
	}
	sd := root.Kids[1].Kids[0]
	if !sd.Is(0, 16) || len(sd.Kids) < 4 {
		return nil, errors.New("WithUnsignedAttr: not a SignedData")
	}
	set := sd.Kids[len(sd.Kids)-1]
	if !set.Is(0, 17) || len(set.Kids) == 0 {
		return nil, errors.New("WithUnsignedAttr: no SignerInfo")
	}
	si := set.Kids[0]
	if !si.Is(0, 16) || len(si.Kids) < 5 {
		return nil, errors.New("WithUnsignedAttr: bad SignerInfo")
	}
	last := si.Kids[len(si.Kids)-1]
	var body [][]byte
	if last.Is(2, 1) {
		body = [][]byte{cms[si.ContentStart():last.Start], Ctx(1, true, last.Content().Of(cms), attribute)}
	} else {
		body = [][]byte{si.Content().Of(cms), Ctx(1, true, attribute)}
	}
	newSI := TLV(0x30, body...)
	newSet := TLV(0x31, newSI, cms[si.End:set.End])
	newSD := TLV(0x30, cms[sd.ContentStart():set.Start], newSet)
	return Seq(root.Kids[0].Range().Of(cms), Ctx(0, true, newSD)), nil
}

// PadToken returns token with an unsigned attribute (private OID, one OCTET
// STRING value of n octets) added to its first SignerInfo: an authority whose
// tokens are that much longer (longer chains, archive time-stamp attributes,
// longer serial numbers and policy identifiers all have this effect on the
// length; the unsigned attribute is the one that keeps the signature intact).
func PadToken(token []byte, n int) ([]byte, error) {
	fill := make([]byte, n)
	for i := range fill {
		fill[i] = byte('a' + i%23)
	}
	return WithUnsignedAttr(token, attr(oidPadAttr, Octets(fill)))
}

package dergen

import (
	"bytes"
	"crypto"
	"crypto/ecdsa"
	"crypto/rand"
	"crypto/rsa"
	"crypto/sha1"
	"crypto/sha256"
	"crypto/x509"
	"crypto/x509/pkix"
	"encoding/pem"
	"fmt"
	"math/big"
	"os"
	"path/filepath"
	"time"
)

const KeyDir = "/verif/fixtures/keys"

// Key is one fixture key with its leaf certificate (Go stdlib parsing only).
type Key struct {
	Name   string
	Signer crypto.Signer
	Leaf   *x509.Certificate
	SKI    []byte // RFC 5280 4.2.1.2 method (1): SHA-1 of the subjectPublicKey bits
}

type Fixtures struct {
	Keys  map[string]*Key
	Inter *x509.Certificate
	Root  *x509.Certificate
	Pool  []*x509.Certificate // every fixture certificate
	CRL   []byte              // a CRL issued by the fixture root (DER)
	// CRLGenTime, CRLCritFalse: the same revocation list, correctly signed by
	// the fixture root, in encodings a decoder accepts but Go's encoder would
	// not choose: thisUpdate as GeneralizedTime (RFC 5280 asks for UTCTime before
	// 2050), and an extension with an explicit `critical FALSE` (DER omits
	// default values). An emitter that re-encodes a CRL instead of copying it
	// changes them and breaks the issuer's signature.
	CRLGenTime, CRLCritFalse []byte
}

func readPEMCerts(path string) ([]*x509.Certificate, error) {
	blob, err := os.ReadFile(path)
	if err != nil {
		return nil, err
	}
	var out []*x509.Certificate
	for {
		var b *pem.Block
		b, blob = pem.Decode(blob)
		if b == nil {
			break
		}
		if b.Type != "CERTIFICATE" {
			continue
		}
		c, err := x509.ParseCertificate(b.Bytes)
		if err != nil {
			return nil, err
		}
		out = append(out, c)
	}
	if len(out) == 0 {
		return nil, fmt.Errorf("%s: no certificates", path)
	}
	return out, nil
}

func readKey(path string) (crypto.Signer, error) {
	blob, err := os.ReadFile(path)
	if err != nil {
		return nil, err
	}
	b, _ := pem.Decode(blob)
	if b == nil {
		return nil, fmt.Errorf("%s: no PEM", path)
	}
	k, err := x509.ParsePKCS8PrivateKey(b.Bytes)
	if err != nil {
		return nil, err
	}
	s, ok := k.(crypto.Signer)
	if !ok {
		return nil, fmt.Errorf("%s: not a signer", path)
	}
	return s, nil
}

func spkiBits(c *x509.Certificate) []byte {
	n, err := Parse(c.RawSubjectPublicKeyInfo)
	if err != nil || len(n.Kids) != 2 {
		return nil
	}
	bits := n.Kids[1].Content().Of(c.RawSubjectPublicKeyInfo)
	if len(bits) < 1 {
		return nil
	}
	return bits[1:]
}

// KeyID returns the subjectKeyIdentifier extension value, or the SHA-1 of the
// public key bits when the certificate carries none.
func KeyID(c *x509.Certificate) []byte {
	if len(c.SubjectKeyId) > 0 {
		return c.SubjectKeyId
	}
	h := sha1.Sum(spkiBits(c))
	return h[:]
}

func LoadFixtures() (*Fixtures, error) {
	f := &Fixtures{Keys: map[string]*Key{}}
	for _, name := range []string{"rsaA", "rsaB", "p256A", "p256B", "p384", "p521"} {
		s, err := readKey(filepath.Join(KeyDir, name+".key"))
		if err != nil {
			return nil, err
		}
		cs, err := readPEMCerts(filepath.Join(KeyDir, name+".leaf.crt"))
		if err != nil {
			return nil, err
		}
		f.Keys[name] = &Key{Name: name, Signer: s, Leaf: cs[0], SKI: KeyID(cs[0])}
		f.Pool = append(f.Pool, cs[0])
	}
	s, err := readKey(filepath.Join(KeyDir, "tsa.key"))
	if err != nil {
		return nil, err
	}
	cs, err := readPEMCerts(filepath.Join(KeyDir, "tsa.crt"))
	if err != nil {
		return nil, err
	}
	f.Keys["tsa"] = &Key{Name: "tsa", Signer: s, Leaf: cs[0], SKI: KeyID(cs[0])}
	f.Pool = append(f.Pool, cs[0])
	if cs, err = readPEMCerts(filepath.Join(KeyDir, "inter.crt")); err != nil {
		return nil, err
	}
	f.Inter = cs[0]
	if cs, err = readPEMCerts(filepath.Join(KeyDir, "root.crt")); err != nil {
		return nil, err
	}
	f.Root = cs[0]
	f.Pool = append(f.Pool, f.Inter, f.Root)
	rk, err := readKey(filepath.Join(KeyDir, "root.key"))
	if err != nil {
		return nil, err
	}
	// The CRL is produced by the Go standard library (it is input material,
	// not part of the oracle).
	f.CRL, err = x509.CreateRevocationList(rand.Reader, &x509.RevocationList{
		Number:     big.NewInt(7),
		ThisUpdate: time.Date(2026, 1, 1, 0, 0, 0, 0, time.UTC),
		NextUpdate: time.Date(2040, 1, 1, 0, 0, 0, 0, time.UTC),
		RevokedCertificateEntries: []x509.RevocationListEntry{
			{SerialNumber: big.NewInt(0x1234), RevocationTime: time.Date(2025, 6, 1, 0, 0, 0, 0, time.UTC)},
		},
	}, f.Root, rk)
	if err != nil {
		return nil, fmt.Errorf("making CRL: %w", err)
	}
	rsaKey, ok := rk.(*rsa.PrivateKey)
	if ok {
		if f.CRLGenTime, err = crlVariant(f.CRL, rsaKey, "gentime"); err != nil {
			return nil, err
		}
		if f.CRLCritFalse, err = crlVariant(f.CRL, rsaKey, "critfalse"); err != nil {
			return nil, err
		}
	}
	return f, nil
}

// crlVariant rebuilds the to-be-signed part of a CRL with one encoding changed
// and signs it again (sha256WithRSAEncryption, as the original).
func crlVariant(crl []byte, key *rsa.PrivateKey, kind string) ([]byte, error) {
	n, err := Parse(crl)
	if err != nil || len(n.Kids) != 3 {
		return nil, fmt.Errorf("CRL variant: unexpected CRL structure")
	}
	tbs := n.Kids[0]
	var parts [][]byte
	timesSeen := 0
	for _, k := range tbs.Kids {
		raw := k.Range().Of(crl)
		switch {
		case kind == "gentime" && k.Class == 0 && k.Tag == 0x17 && timesSeen == 0:
			t, err := time.Parse("060102150405Z", string(k.Content().Of(crl)))
			if err != nil {
				return nil, err
			}
			parts = append(parts, GenTime(t, ""))
			timesSeen++
			continue
		case kind == "critfalse" && k.Class == 2 && k.Tag == 0 && len(k.Kids) == 1:
			// [0] EXPLICIT Extensions: give the first extension an explicit critical FALSE
			exts := k.Kids[0]
			var es [][]byte
			for i, e := range exts.Kids {
				if i == 0 && len(e.Kids) == 2 {
					es = append(es, Seq(e.Kids[0].Range().Of(crl), []byte{0x01, 0x01, 0x00}, e.Kids[1].Range().Of(crl)))
				} else {
					es = append(es, e.Range().Of(crl))
				}
			}
			parts = append(parts, Ctx(0, true, Seq(es...)))
			continue
		}
		if k.Class == 0 && k.Tag == 0x17 {
			timesSeen++
		}
		parts = append(parts, raw)
	}
	newTBS := Seq(parts...)
	d := sha256.Sum256(newTBS)
	sig, err := rsa.SignPKCS1v15(rand.Reader, key, crypto.SHA256, d[:])
	if err != nil {
		return nil, err
	}
	out := Seq(newTBS, n.Kids[1].Range().Of(crl), BitString(sig))
	if bytes.Equal(out, crl) {
		return nil, fmt.Errorf("CRL variant %s: nothing changed", kind)
	}
	// self-check: a decoder reads it and the issuer's signature holds
	rl, err := x509.ParseRevocationList(out)
	if err != nil {
		return nil, fmt.Errorf("CRL variant %s does not parse: %w", kind, err)
	}
	if err := rsa.VerifyPKCS1v15(&key.PublicKey, crypto.SHA256, d[:], rl.Signature); err != nil {
		return nil, fmt.Errorf("CRL variant %s: signature: %w", kind, err)
	}
	return out, nil
}

var _ = pkix.Name{}
var _ = rsa.PublicKey{}
var _ = ecdsa.PublicKey{}

// Package ocigen generates OCI / Docker image manifests and indexes (JSON) as
// inputs for container-signature signing, following the OCI image-spec
// (manifest.md, image-index.md) and Docker's schema 2. It does not import
// relic; Check re-parses with encoding/json.
package ocigen

import (
	"crypto/sha256"
	"encoding/hex"
	"encoding/json"
	"fmt"
	"strings"

	"verif/gen/shape"
)

const (
	OCIManifest = "application/vnd.oci.image.manifest.v1+json"
	OCIIndex    = "application/vnd.oci.image.index.v1+json"
	DockerV2    = "application/vnd.docker.distribution.manifest.v2+json"
	DockerList  = "application/vnd.docker.distribution.manifest.list.v2+json"
)

type Spec struct {
	MediaType string
	Items     int  // layers (manifest) or manifests (index)
	Pretty    bool // indented JSON
	Pad       int  // an annotation value of this many bytes (size ladder)
	NoField   bool // OCI allows omitting the top-level mediaType member
}

func (s Spec) Name() string {
	n := fmt.Sprintf("oci/%s/items=%d", s.MediaType[strings.LastIndex(s.MediaType, "/")+1:], s.Items)
	if s.Pretty {
		n += "/pretty"
	}
	if s.Pad > 0 {
		n += fmt.Sprintf("/pad=%d", s.Pad)
	}
	if s.NoField {
		n += "/no-mediatype-member"
	}
	return n
}

func dig(i int) string {
	d := sha256.Sum256([]byte(fmt.Sprint("blob", i)))
	return "sha256:" + hex.EncodeToString(d[:])
}

func Build(s Spec) []byte {
	m := map[string]any{"schemaVersion": 2}
	if !s.NoField {
		m["mediaType"] = s.MediaType
	}
	docker := s.MediaType == DockerV2 || s.MediaType == DockerList
	switch s.MediaType {
	case OCIManifest, DockerV2:
		cfgType, layerType := "application/vnd.oci.image.config.v1+json", "application/vnd.oci.image.layer.v1.tar+gzip"
		if docker {
			cfgType, layerType = "application/vnd.docker.container.image.v1+json", "application/vnd.docker.image.rootfs.diff.tar.gzip"
		}
		m["config"] = map[string]any{"mediaType": cfgType, "digest": dig(0), "size": 1469}
		layers := []any{}
		for i := 0; i < s.Items; i++ {
			layers = append(layers, map[string]any{"mediaType": layerType, "digest": dig(i + 1), "size": 1000 + i})
		}
		m["layers"] = layers
	default:
		mt := OCIManifest
		if docker {
			mt = DockerV2
		}
		ms := []any{}
		for i := 0; i < s.Items; i++ {
			ms = append(ms, map[string]any{"mediaType": mt, "digest": dig(i + 1), "size": 500 + i,
				"platform": map[string]any{"architecture": []string{"amd64", "arm64", "ppc64le"}[i%3], "os": "linux"}})
		}
		m["manifests"] = ms
	}
	if s.Pad > 0 {
		m["annotations"] = map[string]string{"org.example.pad": strings.Repeat("x", s.Pad)}
	}
	var b []byte
	if s.Pretty {
		b, _ = json.MarshalIndent(m, "", "   ")
		b = append(b, '\n')
	} else {
		b, _ = json.Marshal(m)
	}
	return b
}

func Check(b []byte) error {
	var m map[string]any
	if err := json.Unmarshal(b, &m); err != nil {
		return err
	}
	if v, _ := m["schemaVersion"].(float64); v != 2 {
		return fmt.Errorf("schemaVersion")
	}
	return nil
}

func mk(s Spec, class string, strict bool) shape.Shape {
	return shape.Shape{Name: s.Name(), Class: class, File: "manifest.json", Strict: strict, Source: "generated",
		Build: func() ([]byte, error) { return Build(s), nil }, Check: Check}
}

// Shapes: canonical (OCI image manifest, one layer) first. quick: the four
// media types, 0/3 items, pretty-printed, annotation padding to 64 KiB+1 /
// 1 MiB+1 / just under the 4 MiB manifest limit; lenient: exactly 4 MiB + 1
// (registries may refuse), no top-level mediaType member.
// thorough: media type x items{0,1,2,3} x pretty x pad ladder.
func Shapes(thorough bool) []shape.Shape {
	out := []shape.Shape{
		mk(Spec{MediaType: OCIManifest, Items: 1}, "canonical", true),
		mk(Spec{MediaType: OCIIndex, Items: 2}, "oci-index", true),
		mk(Spec{MediaType: DockerV2, Items: 1}, "docker-v2-manifest", true),
		mk(Spec{MediaType: DockerList, Items: 2}, "docker-manifest-list", true),
		mk(Spec{MediaType: OCIManifest, Items: 0}, "layers-0", true),
		mk(Spec{MediaType: OCIManifest, Items: 3, Pretty: true}, "layers-3-pretty", true),
		mk(Spec{MediaType: OCIManifest, Items: 1, Pad: 65537}, "size-64KiB+1", true),
		mk(Spec{MediaType: OCIManifest, Items: 1, Pad: 1<<20 + 1}, "size-1MiB+1", true),
		mk(Spec{MediaType: OCIManifest, Items: 1, Pad: 4<<20 - 600}, "size-just-under-4MiB", true),
		mk(Spec{MediaType: OCIManifest, Items: 1, Pad: 4 << 20}, "size-over-4MiB", false),
		mk(Spec{MediaType: OCIManifest, Items: 1, NoField: true}, "no-mediatype-member", false),
	}
	if !thorough {
		return out
	}
	seen := map[string]bool{}
	for _, s := range out {
		seen[s.Name] = true
	}
	for _, mt := range []string{OCIManifest, OCIIndex, DockerV2, DockerList} {
		for _, items := range []int{0, 1, 2, 3} {
			for _, pretty := range []bool{false, true} {
				for _, pad := range []int{0, 1, 511, 4096, 65536, 1 << 20} {
					s := Spec{MediaType: mt, Items: items, Pretty: pretty, Pad: pad}
					if !seen[s.Name()] {
						seen[s.Name()] = true
						out = append(out, mk(s, "grid-"+mt[strings.LastIndex(mt, "/")+1:], true))
					}
				}
			}
		}
	}
	return out
}

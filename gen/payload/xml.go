package payload

import (
	"bytes"
	"encoding/xml"
	"fmt"
	"io"
	"sort"
	"strings"
)

// xmlCanon renders an XML document as a token list that is independent of
// serialisation choices that do not change the information set: attribute
// order, namespace prefixes (names are written as {uri}local), quoting,
// line-end form (the XML parser normalises CRLF to LF), the XML declaration
// and whitespace-only text directly inside element-only content are NOT
// dropped: whitespace text is kept. maskAttr(stack, "{uri}local") = true hides
// one attribute; dropElem(stack) = true hides a whole subtree (stack includes
// the element itself, entries are "{uri}local").
func xmlCanon(data []byte, maskAttr func(stack []string, attr string) bool, dropElem func(stack []string) bool) (string, error) {
	dec := xml.NewDecoder(bytes.NewReader(data))
	dec.Strict = true
	var out strings.Builder
	var stack []string
	skipDepth := 0
	var text strings.Builder
	flush := func() {
		if text.Len() > 0 {
			fmt.Fprintf(&out, "T %q\n", text.String())
			text.Reset()
		}
	}
	for {
		tok, err := dec.Token()
		if err == io.EOF {
			break
		}
		if err != nil {
			return "", fmt.Errorf("encoding/xml: %w", err)
		}
		switch t := tok.(type) {
		case xml.StartElement:
			name := "{" + t.Name.Space + "}" + t.Name.Local
			stack = append(stack, name)
			if skipDepth > 0 {
				skipDepth++
				continue
			}
			if dropElem != nil && dropElem(stack) {
				skipDepth = 1
				continue
			}
			flush()
			var attrs []string
			for _, a := range t.Attr {
				if a.Name.Space == "xmlns" || (a.Name.Space == "" && a.Name.Local == "xmlns") {
					continue // namespace declarations are reflected in the expanded names
				}
				an := a.Name.Local
				if a.Name.Space != "" {
					an = "{" + a.Name.Space + "}" + a.Name.Local
				}
				if maskAttr != nil && maskAttr(stack, an) {
					continue
				}
				attrs = append(attrs, fmt.Sprintf("%s=%q", an, a.Value))
			}
			sort.Strings(attrs)
			fmt.Fprintf(&out, "S %s %s\n", name, strings.Join(attrs, " "))
		case xml.EndElement:
			if skipDepth > 0 {
				skipDepth--
				stack = stack[:len(stack)-1]
				continue
			}
			flush()
			fmt.Fprintf(&out, "E %s\n", stack[len(stack)-1])
			stack = stack[:len(stack)-1]
		case xml.CharData:
			if skipDepth == 0 && len(stack) > 0 {
				text.Write(t)
			}
		case xml.Comment:
			if skipDepth == 0 {
				flush()
				fmt.Fprintf(&out, "C %q\n", string(t))
			}
		case xml.ProcInst:
			if t.Target == "xml" {
				continue
			}
			if skipDepth == 0 {
				flush()
				fmt.Fprintf(&out, "P %s %q\n", t.Target, string(t.Inst))
			}
		case xml.Directive:
			if skipDepth == 0 {
				flush()
				fmt.Fprintf(&out, "D %q\n", string(t))
			}
		}
	}
	if len(stack) != 0 {
		return "", fmt.Errorf("encoding/xml: unbalanced document")
	}
	return out.String(), nil
}

// relsCanon returns the relationships of an OPC relationships part other than
// the digital-signature origin, one per line sorted (Id values are not
// compared: they are local identifiers that only need to be unique), and the
// number of signature-origin relationships.
func relsCanon(data []byte) (string, int, error) {
	type rel struct {
		Target     string `xml:",attr"`
		Id         string `xml:",attr"`
		Type       string `xml:",attr"`
		TargetMode string `xml:",attr"`
	}
	var doc struct {
		XMLName xml.Name `xml:"http://schemas.openxmlformats.org/package/2006/relationships Relationships"`
		Rel     []rel    `xml:"Relationship"`
	}
	if err := xml.Unmarshal(data, &doc); err != nil {
		return "", 0, err
	}
	var lines []string
	nsig := 0
	for _, r := range doc.Rel {
		if r.Type == relTypeSigOrigin {
			nsig++
			continue
		}
		lines = append(lines, fmt.Sprintf("type=%q target=%q mode=%q", r.Type, r.Target, r.TargetMode))
	}
	sort.Strings(lines)
	return strings.Join(lines, "\n"), nsig, nil
}

// contentTypesCanon lists the Default and Override entries of an OPC
// [Content_Types].xml, sorted, leaving out Default entries for sigExts.
func contentTypesCanon(data []byte, sigExts map[string]bool) (string, error) {
	var doc struct {
		XMLName xml.Name `xml:"http://schemas.openxmlformats.org/package/2006/content-types Types"`
		Default []struct {
			Extension   string `xml:",attr"`
			ContentType string `xml:",attr"`
		}
		Override []struct {
			PartName    string `xml:",attr"`
			ContentType string `xml:",attr"`
		}
	}
	if err := xml.Unmarshal(data, &doc); err != nil {
		return "", err
	}
	var lines []string
	for _, d := range doc.Default {
		if sigExts[strings.ToLower(d.Extension)] {
			continue
		}
		lines = append(lines, fmt.Sprintf("default %q %q", strings.ToLower(d.Extension), d.ContentType))
	}
	for _, o := range doc.Override {
		if strings.HasPrefix(strings.TrimPrefix(o.PartName, "/"), vsixDigSig) {
			continue
		}
		lines = append(lines, fmt.Sprintf("override %q %q", o.PartName, o.ContentType))
	}
	sort.Strings(lines)
	return strings.Join(lines, "\n"), nil
}

// ---- ClickOnce / application manifest ----
//
// Signature metadata (ClickOnce manifest signing, [MS-XMLDSIG] usage in
// mage.exe): the enveloped ds:Signature child of the root, the
// publisherIdentity child of the root and the publicKeyToken attribute of the
// root's own assemblyIdentity. Everything else is payload.

const nsDsig = "http://www.w3.org/2000/09/xmldsig#"

func readAppManifest(data []byte) (*Payload, error) {
	p := &Payload{Type: "appmanifest"}
	nsig := 0
	s, err := xmlCanon(data, func(stack []string, attr string) bool {
		return len(stack) == 2 && strings.HasSuffix(stack[1], "}assemblyIdentity") && attr == "publicKeyToken"
	}, func(stack []string) bool {
		if len(stack) != 2 {
			return false
		}
		if stack[1] == "{"+nsDsig+"}Signature" {
			nsig++
			return true
		}
		return strings.HasSuffix(stack[1], "}publisherIdentity")
	})
	if err != nil {
		return nil, err
	}
	for i := 0; i < nsig; i++ {
		p.SigItems = append(p.SigItems, "Signature")
	}
	// whitespace-only text between the root's children moves when the
	// signature element is inserted/removed: compare the document with
	// inter-element whitespace at depth 1 collapsed
	p.add("document", "", []byte(collapseTopLevelWhitespace(s)))
	return p, nil
}

// collapseTopLevelWhitespace removes whitespace-only text tokens (they are
// `T "..."` lines) — at any depth — that sit between two tags; text inside
// mixed or leaf content is kept because it is adjacent to non-whitespace.
func collapseTopLevelWhitespace(canon string) string {
	var out []string
	for _, line := range strings.Split(canon, "\n") {
		if strings.HasPrefix(line, "T ") {
			var s string
			if _, err := fmt.Sscanf(line[2:], "%q", &s); err == nil && strings.TrimSpace(s) == "" {
				continue
			}
		}
		out = append(out, line)
	}
	return strings.Join(out, "\n")
}

package payload

import (
	"bytes"
	"compress/zlib"
	"encoding/binary"
	"encoding/xml"
	"fmt"
	"io"
	"strconv"
	"strings"
)

// xar archive (xar file format: header, zlib-compressed XML table of contents,
// heap). Signature metadata: the toc elements <checksum>, <signature> and
// <x-signature> and the heap space they address; because that space sits at
// the start of the heap, every file's <data><offset> moves too. Payload: every
// other toc element (the <file> trees with all their properties except
// data/offset) and, for every file, its archived bytes in the heap.
type xnode struct {
	Name     string
	Attrs    []xml.Attr
	Text     string
	Children []*xnode
}

func parseXMLTree(data []byte) (*xnode, error) {
	dec := xml.NewDecoder(bytes.NewReader(data))
	var stack []*xnode
	var root *xnode
	for {
		tok, err := dec.Token()
		if err == io.EOF {
			break
		}
		if err != nil {
			return nil, err
		}
		switch t := tok.(type) {
		case xml.StartElement:
			n := &xnode{Name: t.Name.Local, Attrs: t.Attr}
			if len(stack) > 0 {
				top := stack[len(stack)-1]
				top.Children = append(top.Children, n)
			} else {
				root = n
			}
			stack = append(stack, n)
		case xml.EndElement:
			stack = stack[:len(stack)-1]
		case xml.CharData:
			if len(stack) > 0 {
				stack[len(stack)-1].Text += string(t)
			}
		}
	}
	if root == nil {
		return nil, fmt.Errorf("empty document")
	}
	return root, nil
}

func (n *xnode) child(name string) *xnode {
	for _, c := range n.Children {
		if c.Name == name {
			return c
		}
	}
	return nil
}

func (n *xnode) render(b *strings.Builder, skip func(*xnode) bool, depth int) {
	if skip != nil && skip(n) {
		return
	}
	fmt.Fprintf(b, "%s<%s", strings.Repeat(" ", depth), n.Name)
	for _, a := range n.Attrs {
		fmt.Fprintf(b, " %s=%q", a.Name.Local, a.Value)
	}
	fmt.Fprintf(b, "> %q\n", strings.TrimSpace(n.Text))
	for _, c := range n.Children {
		c.render(b, skip, depth+1)
	}
}

// XarTOC returns the decompressed table of contents and the heap offset.
func XarTOC(data []byte) (toc []byte, heapStart int64, err error) {
	if len(data) < 28 || string(data[:4]) != "xar!" {
		return nil, 0, fmt.Errorf("xar: no header")
	}
	be := binary.BigEndian
	hsize := int64(be.Uint16(data[4:]))
	clen := int64(be.Uint64(data[8:]))
	ulen := int64(be.Uint64(data[16:]))
	if hsize < 28 || hsize+clen > int64(len(data)) {
		return nil, 0, fmt.Errorf("xar: header/toc sizes outside the file")
	}
	zr, err := zlib.NewReader(bytes.NewReader(data[hsize : hsize+clen]))
	if err != nil {
		return nil, 0, fmt.Errorf("xar: toc: %w", err)
	}
	toc, err = io.ReadAll(zr)
	if err != nil {
		return nil, 0, fmt.Errorf("xar: toc: %w", err)
	}
	if int64(len(toc)) != ulen {
		return nil, 0, fmt.Errorf("xar: toc is %d bytes uncompressed, header says %d", len(toc), ulen)
	}
	return toc, hsize + clen, nil
}

func readXAR(data []byte) (*Payload, error) {
	tocBytes, heap, err := XarTOC(data)
	if err != nil {
		return nil, err
	}
	root, err := parseXMLTree(tocBytes)
	if err != nil {
		return nil, fmt.Errorf("xar: toc xml: %w", err)
	}
	toc := root.child("toc")
	if root.Name != "xar" || toc == nil {
		return nil, fmt.Errorf("xar: toc has no <xar><toc>")
	}
	p := &Payload{Type: "xar"}
	hdr := append([]byte(nil), data[:28]...)
	for i := 8; i < 28; i++ { // toc lengths change with the toc; cksum_alg belongs to the toc <checksum>
		hdr[i] = 0
	}
	p.add("header", "", hdr)
	type ext struct{ off, n int64 }
	var used []ext
	heapRange := func(n *xnode, what string) ([]byte, error) {
		o, l := n.child("offset"), n.child("size")
		if what == "file" {
			l = n.child("length")
		}
		if o == nil || l == nil {
			return nil, fmt.Errorf("xar: %s without offset/size", what)
		}
		off, err1 := strconv.ParseInt(strings.TrimSpace(o.Text), 10, 64)
		ln, err2 := strconv.ParseInt(strings.TrimSpace(l.Text), 10, 64)
		if err1 != nil || err2 != nil || off < 0 || ln < 0 || heap+off+ln > int64(len(data)) {
			return nil, fmt.Errorf("xar: %s heap range {%s,+%s} outside the file", what, o.Text, l.Text)
		}
		for _, u := range used {
			if ln > 0 && u.n > 0 && off < u.off+u.n && u.off < off+ln {
				return nil, fmt.Errorf("xar: %s heap range {%d,+%d} overlaps {%d,+%d}", what, off, ln, u.off, u.n)
			}
		}
		used = append(used, ext{off, ln})
		return data[heap+off : heap+off+ln], nil
	}
	var general strings.Builder
	for _, c := range toc.Children {
		switch c.Name {
		case "checksum", "signature", "x-signature":
			if _, err := heapRange(c, c.Name); err != nil {
				return nil, err
			}
			if c.Name != "checksum" {
				p.SigItems = append(p.SigItems, c.Name)
			}
		case "file":
		default:
			c.render(&general, nil, 0)
		}
	}
	p.add("toc-properties", "", []byte(general.String()))
	var walk func(n *xnode, prefix string) error
	walk = func(n *xnode, prefix string) error {
		name := ""
		if nn := n.child("name"); nn != nil {
			name = nn.Text
		}
		full := prefix + name
		var props strings.Builder
		n.render(&props, func(x *xnode) bool {
			return x != n && x.Name == "file" || x.Name == "offset"
		}, 0)
		var body []byte
		if d := n.child("data"); d != nil {
			b, err := heapRange(d, "file")
			if err != nil {
				return err
			}
			body = b
		}
		p.add("file "+full, props.String(), body)
		for _, c := range n.Children {
			if c.Name == "file" {
				if err := walk(c, full+"/"); err != nil {
					return err
				}
			}
		}
		return nil
	}
	for _, c := range toc.Children {
		if c.Name == "file" {
			if err := walk(c, ""); err != nil {
				return nil, err
			}
		}
	}
	return p, nil
}

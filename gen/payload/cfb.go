package payload

import (
	"fmt"
	"sort"
	"strings"

	"verif/gen/cfbgen"
)

// MSI / compound file ([MS-CFB]; MSI digital signatures: the two streams
// "\x05DigitalSignature" and "\x05MsiDigitalSignatureEx" in the root storage
// are the signature, see "Windows Installer: Digital Signatures and
// Windows Installer"). Payload: every other stream and storage with its name,
// CLSID, state bits, timestamps and bytes. The sector/FAT/directory layout is
// not payload. The independent reader is verif/gen/cfbgen.Validate (written
// from [MS-CFB], shares nothing with relic's lib/comdoc); the file must pass
// its structural validation too.

const (
	cfbSig   = "\x05DigitalSignature"
	cfbSigEx = "\x05MsiDigitalSignatureEx"
)

// CFBProblemsAllowed lists validator problem keys a caller wants tolerated
// (problems already present in an input that the harness did not generate).
func readCFBAllow(data []byte, allowed map[string]bool) (*Payload, error) {
	parsed := cfbgen.Validate(data)
	var bad []string
	for _, k := range parsed.Keys() {
		if !allowed[k] {
			bad = append(bad, k)
		}
	}
	if len(bad) > 0 {
		detail := ""
		for _, pr := range parsed.Problems {
			if pr.Key == bad[0] {
				detail = pr.Detail
				break
			}
		}
		return nil, fmt.Errorf("cfb validator: %s (%s)", strings.Join(bad, ","), detail)
	}
	p := &Payload{Type: "msi", Unordered: true}
	var ents []*cfbgen.Entry
	for _, e := range parsed.Entries {
		if e.Type == cfbgen.TypeUnused || (e.Parent < 0 && e.Type != cfbgen.TypeRoot) {
			continue
		}
		ents = append(ents, e)
	}
	sort.SliceStable(ents, func(i, j int) bool { return ents[i].Path < ents[j].Path })
	for _, e := range ents {
		if e.Type == cfbgen.TypeStream && (e.Path == cfbSig || e.Path == cfbSigEx) {
			p.SigItems = append(p.SigItems, e.Path)
			continue
		}
		name := e.Path
		if e.Type == cfbgen.TypeRoot {
			name = "<root>"
		}
		meta := fmt.Sprintf("type=%d clsid=%x state=%#x ctime=%#x mtime=%#x", e.Type, e.CLSID, e.State, e.CTime, e.MTime)
		var body []byte
		if e.Type == cfbgen.TypeStream {
			if e.Data == nil && e.Size > 0 {
				return nil, fmt.Errorf("cfb validator: stream %q unreadable", e.Path)
			}
			body = e.Data
		}
		p.add(name, meta, body)
	}
	return p, nil
}

func readCFB(data []byte) (*Payload, error) { return readCFBAllow(data, nil) }

// ReadCFBAllow is readCFB tolerating the given validator problem classes.
func ReadCFBAllow(data []byte, allowed []string) (*Payload, error) {
	m := map[string]bool{}
	for _, k := range allowed {
		m[k] = true
	}
	return readCFBAllow(data, m)
}

// CFBProblemKeys returns the validator's problem classes for a file.
func CFBProblemKeys(data []byte) []string { return cfbgen.Validate(data).Keys() }

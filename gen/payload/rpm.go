package payload

import (
	"encoding/binary"
	"fmt"
)

// RPM v3/v4 package file (rpm.org "RPM Package format"): 96-byte lead, the
// signature header structure (8-byte aligned), the main header structure, the
// payload. The signature header holds the signatures and the digests/sizes
// that go with them and is rewritten by signing tools. Payload: the lead and
// every byte from the start of the main header to the end of the file.
func rpmHeaderLen(b []byte, at int) (int, error) {
	if at+16 > len(b) {
		return 0, fmt.Errorf("rpm: truncated header structure at %d", at)
	}
	if b[at] != 0x8e || b[at+1] != 0xad || b[at+2] != 0xe8 || b[at+3] != 1 {
		return 0, fmt.Errorf("rpm: bad header magic at %d", at)
	}
	il := int(binary.BigEndian.Uint32(b[at+8:]))
	dl := int(binary.BigEndian.Uint32(b[at+12:]))
	n := 16 + 16*il + dl
	if il < 0 || dl < 0 || at+n > len(b) {
		return 0, fmt.Errorf("rpm: header structure at %d (il=%d dl=%d) does not fit the file", at, il, dl)
	}
	return n, nil
}

// RPMSplit returns the offsets of the signature header and of the main header.
func RPMSplit(data []byte) (sigStart, hdrStart int, err error) {
	if len(data) < 96 || data[0] != 0xed || data[1] != 0xab || data[2] != 0xee || data[3] != 0xdb {
		return 0, 0, fmt.Errorf("rpm: no lead")
	}
	n, err := rpmHeaderLen(data, 96)
	if err != nil {
		return 0, 0, err
	}
	h := 96 + n
	h = (h + 7) &^ 7
	if _, err := rpmHeaderLen(data, h); err != nil {
		return 0, 0, err
	}
	return 96, h, nil
}

func readRPM(data []byte) (*Payload, error) {
	_, h, err := RPMSplit(data)
	if err != nil {
		return nil, err
	}
	p := &Payload{Type: "rpm"}
	p.SigItems = append(p.SigItems, "signature-header")
	p.add("lead", "", data[:96])
	p.add("header+payload", "", data[h:])
	return p, nil
}

// RPMSigTags lists the tags of the signature header (C08 counts signatures).
func RPMSigTags(data []byte) ([]int, error) {
	if _, _, err := RPMSplit(data); err != nil {
		return nil, err
	}
	il := int(binary.BigEndian.Uint32(data[96+8:]))
	var tags []int
	for i := 0; i < il; i++ {
		tags = append(tags, int(binary.BigEndian.Uint32(data[96+16+16*i:])))
	}
	return tags, nil
}

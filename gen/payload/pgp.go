package payload

import (
	"bytes"
	"compress/flate"
	"compress/zlib"
	"encoding/base64"
	"fmt"
	"io"
	"os"
	"os/exec"
	"path/filepath"
	"strings"
)

// OpenPGP (RFC 4880). Cleartext signature framework (§7): header line, Hash
// armor headers, empty line, dash-escaped text, then the armored signature;
// the line ending before "-----BEGIN PGP SIGNATURE-----" is not part of the
// text. Inline signed message (§11.3): one-pass signature packet(s), literal
// data packet (possibly inside a compressed data packet), signature
// packet(s). Payload: the recovered message text / literal data body.
// Signature metadata: everything else. Second opinion: `gpgv --output`.

// GPGKeyring, when set, is a binary keyring file handed to gpgv; gpgv must
// then also report a good signature. When empty gpgv only recovers the text.
var GPGKeyring string

func gpgvRecover(path string) ([]byte, error) {
	dir, err := os.MkdirTemp("/dev/shm", "gpgv-")
	if err != nil {
		dir, err = os.MkdirTemp("", "gpgv-")
		if err != nil {
			return nil, err
		}
	}
	defer os.RemoveAll(dir)
	out := filepath.Join(dir, "out")
	args := []string{"--homedir", dir, "--quiet"}
	if GPGKeyring != "" {
		args = append(args, "--keyring", GPGKeyring)
	}
	args = append(args, "--output", out, path)
	msg, rerr := exec.Command("gpgv", args...).CombinedOutput()
	text, err := os.ReadFile(out)
	if err != nil {
		return nil, fmt.Errorf("gpgv: no message recovered: %v: %s", rerr, clip(string(msg)))
	}
	if GPGKeyring != "" && rerr != nil {
		return nil, fmt.Errorf("gpgv: %v: %s", rerr, clip(string(msg)))
	}
	return text, nil
}

// ClearsignSplit parses the cleartext framework and returns the recovered
// text (dash-unescaped, line ends as found) and the armored signature part.
func ClearsignSplit(data []byte) (text, sig []byte, err error) {
	const head = "-----BEGIN PGP SIGNED MESSAGE-----"
	const sigHead = "-----BEGIN PGP SIGNATURE-----"
	if !bytes.HasPrefix(data, []byte(head)) {
		return nil, nil, fmt.Errorf("clearsign: no header line")
	}
	lines := bytes.SplitAfter(data, []byte("\n"))
	i := 1
	for ; i < len(lines); i++ { // armor headers until the empty line
		l := bytes.TrimRight(lines[i], "\r\n")
		if len(l) == 0 {
			i++
			break
		}
		if !bytes.HasPrefix(l, []byte("Hash:")) && !bytes.Contains(l, []byte(": ")) {
			return nil, nil, fmt.Errorf("clearsign: malformed armor header %q", clip(string(l)))
		}
	}
	var body bytes.Buffer
	found := false
	for ; i < len(lines); i++ {
		l := lines[i]
		if bytes.HasPrefix(l, []byte(sigHead)) {
			found = true
			break
		}
		if bytes.HasPrefix(l, []byte("- ")) {
			l = l[2:]
		} else if bytes.HasPrefix(l, []byte("-")) {
			return nil, nil, fmt.Errorf("clearsign: line starting with a dash is not dash-escaped")
		}
		body.Write(l)
	}
	if !found {
		return nil, nil, fmt.Errorf("clearsign: no signature armor")
	}
	// NB: the line ending that precedes the signature armor belongs to the
	// framework (RFC 4880 §7.1); it is still included here and removed by CanonText
	t := body.Bytes()
	var rest []byte
	for ; i < len(lines); i++ {
		rest = append(rest, lines[i]...)
	}
	if !bytes.Contains(rest, []byte("-----END PGP SIGNATURE-----")) {
		return nil, nil, fmt.Errorf("clearsign: signature armor not terminated")
	}
	return t, rest, nil
}

// CanonText is the form in which cleartext is compared: RFC 4880 §7.1 says
// trailing whitespace (space, tab) of every line is not covered by the
// signature and line endings are canonicalised to CRLF, and the final line
// ending is owned by the framework; a clearsigned rendering can therefore not
// be expected to keep those. Lines are split on LF, trailing SP/TAB/CR removed,
// and one trailing empty line dropped.
func CanonText(b []byte) []byte {
	lines := strings.Split(string(b), "\n")
	for i := range lines {
		lines[i] = strings.TrimRight(lines[i], " \t\r")
	}
	if n := len(lines); n > 0 && lines[n-1] == "" {
		lines = lines[:n-1]
	}
	return []byte(strings.Join(lines, "\n"))
}

func readClearsignPath(path string, data []byte) (*Payload, error) {
	text, sig, err := ClearsignSplit(data)
	if err != nil {
		return nil, err
	}
	p := &Payload{Type: "pgp-clearsign"}
	p.SigItems = append(p.SigItems, fmt.Sprintf("signature-armor(%d)", bytes.Count(sig, []byte("-----BEGIN PGP SIGNATURE-----"))))
	if path != "" {
		g, err := gpgvRecover(path)
		if err != nil {
			return nil, err
		}
		if !bytes.Equal(CanonText(g), CanonText(text)) {
			return nil, fmt.Errorf("readers disagree: gpgv recovers %s, RFC 4880 §7 parser %s", short(CanonText(g)), short(CanonText(text)))
		}
	}
	p.add("text(canonical)", "", CanonText(text))
	return p, nil
}

func readClearsign(data []byte) (*Payload, error) { return readClearsignPath("", data) }

// ---- packets ----

type pgpPacket struct {
	Tag  int
	Body []byte
}

// Dearmor removes ASCII armor (RFC 4880 §6.2); binary input is returned as is.
func Dearmor(data []byte) ([]byte, error) { return dearmor(data) }

func dearmor(data []byte) ([]byte, error) {
	if !bytes.HasPrefix(bytes.TrimLeft(data, " \t\r\n"), []byte("-----BEGIN PGP")) {
		return data, nil
	}
	text := strings.ReplaceAll(string(data), "\r\n", "\n")
	i := strings.Index(text, "\n\n")
	if i < 0 {
		return nil, fmt.Errorf("armor: no blank line after the headers")
	}
	body := text[i+2:]
	j := strings.Index(body, "-----END PGP")
	if j < 0 {
		return nil, fmt.Errorf("armor: not terminated")
	}
	body = body[:j]
	var b64 strings.Builder
	for _, l := range strings.Split(body, "\n") {
		if strings.HasPrefix(l, "=") { // CRC-24 line
			continue
		}
		b64.WriteString(strings.TrimSpace(l))
	}
	return base64.StdEncoding.DecodeString(b64.String())
}

func parsePackets(b []byte) ([]pgpPacket, error) {
	var out []pgpPacket
	for len(b) > 0 {
		c := b[0]
		if c&0x80 == 0 {
			return nil, fmt.Errorf("pgp: packet tag byte %#x without bit 7", c)
		}
		var tag int
		var body []byte
		if c&0x40 != 0 { // new format
			tag = int(c & 0x3f)
			b = b[1:]
			for {
				if len(b) == 0 {
					return nil, fmt.Errorf("pgp: truncated length")
				}
				l0 := int(b[0])
				var n int
				partial := false
				switch {
				case l0 < 192:
					n, b = l0, b[1:]
				case l0 < 224:
					if len(b) < 2 {
						return nil, fmt.Errorf("pgp: truncated length")
					}
					n, b = (l0-192)<<8+int(b[1])+192, b[2:]
				case l0 == 255:
					if len(b) < 5 {
						return nil, fmt.Errorf("pgp: truncated length")
					}
					n, b = int(b[1])<<24|int(b[2])<<16|int(b[3])<<8|int(b[4]), b[5:]
				default:
					n, b = 1<<(l0&0x1f), b[1:]
					partial = true
				}
				if n > len(b) {
					return nil, fmt.Errorf("pgp: packet body of %d bytes exceeds the data", n)
				}
				body = append(body, b[:n]...)
				b = b[n:]
				if !partial {
					break
				}
			}
		} else {
			tag = int(c>>2) & 0xf
			lt := c & 3
			b = b[1:]
			var n int
			switch lt {
			case 0:
				if len(b) < 1 {
					return nil, fmt.Errorf("pgp: truncated length")
				}
				n, b = int(b[0]), b[1:]
			case 1:
				if len(b) < 2 {
					return nil, fmt.Errorf("pgp: truncated length")
				}
				n, b = int(b[0])<<8|int(b[1]), b[2:]
			case 2:
				if len(b) < 4 {
					return nil, fmt.Errorf("pgp: truncated length")
				}
				n, b = int(b[0])<<24|int(b[1])<<16|int(b[2])<<8|int(b[3]), b[4:]
			default:
				n = len(b)
			}
			if n > len(b) {
				return nil, fmt.Errorf("pgp: packet body of %d bytes exceeds the data", n)
			}
			body, b = b[:n], b[n:]
		}
		out = append(out, pgpPacket{tag, body})
	}
	return out, nil
}

// InlineSplit returns the literal data body, the literal packet's format
// octet and file name, and the numbers of one-pass and signature packets.
func InlineSplit(data []byte) (body []byte, format byte, name string, onepass, sigs int, err error) {
	raw, err := dearmor(data)
	if err != nil {
		return nil, 0, "", 0, 0, err
	}
	pkts, err := parsePackets(raw)
	if err != nil {
		return nil, 0, "", 0, 0, err
	}
	if len(pkts) == 1 && pkts[0].Tag == 8 { // compressed data
		c := pkts[0].Body
		if len(c) < 1 {
			return nil, 0, "", 0, 0, fmt.Errorf("pgp: empty compressed packet")
		}
		var r io.Reader
		switch c[0] {
		case 0:
			r = bytes.NewReader(c[1:])
		case 1:
			r = flate.NewReader(bytes.NewReader(c[1:]))
		case 2:
			zr, err := zlib.NewReader(bytes.NewReader(c[1:]))
			if err != nil {
				return nil, 0, "", 0, 0, err
			}
			r = zr
		default:
			return nil, 0, "", 0, 0, fmt.Errorf("pgp: compression algorithm %d", c[0])
		}
		inner, err := io.ReadAll(r)
		if err != nil {
			return nil, 0, "", 0, 0, err
		}
		pkts, err = parsePackets(inner)
		if err != nil {
			return nil, 0, "", 0, 0, err
		}
	}
	lit := -1
	for i, p := range pkts {
		switch p.Tag {
		case 4:
			if lit >= 0 {
				return nil, 0, "", 0, 0, fmt.Errorf("pgp: one-pass signature packet after the literal data")
			}
			onepass++
		case 11:
			if lit >= 0 {
				return nil, 0, "", 0, 0, fmt.Errorf("pgp: two literal data packets")
			}
			lit = i
		case 2:
			if lit < 0 && onepass > 0 {
				return nil, 0, "", 0, 0, fmt.Errorf("pgp: signature packet between one-pass header and literal data")
			}
			sigs++
		default:
			return nil, 0, "", 0, 0, fmt.Errorf("pgp: unexpected packet tag %d in a signed message", p.Tag)
		}
	}
	if lit < 0 {
		return nil, 0, "", 0, 0, fmt.Errorf("pgp: no literal data packet")
	}
	l := pkts[lit].Body
	if len(l) < 6 || len(l) < 6+int(l[1]) {
		return nil, 0, "", 0, 0, fmt.Errorf("pgp: short literal data packet")
	}
	return l[6+int(l[1]):], l[0], string(l[2 : 2+int(l[1])]), onepass, sigs, nil
}

func readInlinePath(path string, data []byte) (*Payload, error) {
	body, format, _, onepass, sigs, err := InlineSplit(data)
	if err != nil {
		return nil, err
	}
	if onepass != sigs {
		return nil, fmt.Errorf("pgp: %d one-pass packets but %d signature packets", onepass, sigs)
	}
	p := &Payload{Type: "pgp-inline"}
	for i := 0; i < sigs; i++ {
		p.SigItems = append(p.SigItems, "signature-packet")
	}
	if path != "" {
		g, err := gpgvRecover(path)
		if err != nil {
			return nil, err
		}
		if !bytes.Equal(g, body) {
			return nil, fmt.Errorf("readers disagree: gpgv recovers %s, packet parser %s", short(g), short(body))
		}
	}
	p.add("literal-data", fmt.Sprintf("format=%c", format), body)
	return p, nil
}

func readInline(data []byte) (*Payload, error) { return readInlinePath("", data) }

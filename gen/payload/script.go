package payload

import (
	"bytes"
	"fmt"
	"path/filepath"
	"strings"
	"unicode/utf16"
)

// PowerShell-family scripts (about_Signing; the SIP appends the block): the
// signature block is the LAST thing in the file and starts with a line
// "<open>SIG # Begin signature block<close>" preceded by CRLF, where
// open/close are "# "/"" (.ps1 .psd1 .psm1), "<!-- "/" -->" (.ps1xml .psc1
// .cdxml), "/* "/" */" (.mof); in a UTF-16-LE file (BOM FF FE) the block is
// UTF-16-LE too. Payload: the script text before that CRLF, byte for byte
// (including a byte-order mark and whatever line-end style it uses).
func scriptStyle(path string) (open, close string, ok bool) {
	switch strings.ToLower(filepath.Ext(path)) {
	case ".ps1", ".psd1", ".psm1":
		return "# ", "", true
	case ".ps1xml", ".psc1", ".cdxml":
		return "<!-- ", " -->", true
	case ".mof":
		return "/* ", " */", true
	}
	return "", "", false
}

func u16(s string) []byte {
	var b []byte
	for _, u := range utf16.Encode([]rune(s)) {
		b = append(b, byte(u), byte(u>>8))
	}
	return b
}

// ScriptSplit returns the length of the script text and whether a signature block follows.
func ScriptSplit(path string, data []byte) (textLen int, signed bool, err error) {
	open, close, ok := scriptStyle(path)
	if !ok {
		return 0, false, fmt.Errorf("script: unknown extension %q", filepath.Ext(path))
	}
	begin := []byte("\r\n" + open + "SIG # Begin signature block" + close + "\r\n")
	end := []byte(open + "SIG # End signature block" + close + "\r\n")
	if len(data) >= 2 && data[0] == 0xff && data[1] == 0xfe {
		begin, end = u16(string(begin)), u16(string(end))
	}
	i := bytes.LastIndex(data, begin)
	if i < 0 {
		return len(data), false, nil
	}
	if !bytes.HasSuffix(data, end) {
		return 0, true, fmt.Errorf("script: signature block is not terminated by the end marker at the end of the file")
	}
	return i, true, nil
}

func readScript(path string, data []byte) (*Payload, error) {
	n, signed, err := ScriptSplit(path, data)
	if err != nil {
		return nil, err
	}
	p := &Payload{Type: "ps"}
	if signed {
		p.SigItems = append(p.SigItems, "signature-block")
	}
	p.add("text", "", data[:n])
	return p, nil
}

package payload

import (
	"bytes"
	"debug/macho"
	"encoding/binary"
	"fmt"
)

// Thin Mach-O image (Mach-O file format reference; Apple TN3126 "Inside Code
// Signing"): the signature is the blob addressed by the LC_CODE_SIGNATURE load
// command at the end of __LINKEDIT. Signature metadata: that load command,
// therefore mach_header.ncmds/sizeofcmds, the vmsize/filesize of the
// __LINKEDIT segment command, the blob itself and the zero padding (< 16
// bytes) that aligns it. Payload: the other header fields, every other load
// command byte for byte, the zero-filled slack after the load commands, and
// every file byte from the first section to the code limit.
const lcCodeSignature = 0x1d

func readMachO(data []byte) (*Payload, error) {
	f, err := macho.NewFile(bytes.NewReader(data))
	if err != nil {
		return nil, fmt.Errorf("debug/macho: %w", err)
	}
	bo := f.ByteOrder
	hdrLen := 28
	if f.Magic == macho.Magic64 {
		hdrLen = 32
	}
	p := &Payload{Type: "macho"}
	p.add("mach_header", fmt.Sprintf("magic=%#x cpu=%#x sub=%#x type=%d flags=%#x", f.Magic, uint32(f.Cpu), f.SubCpu, uint32(f.Type), f.Flags), nil)
	pos := hdrLen
	var sigOff, sigLen int64
	var linkEnd, firstSect int64 = 0, int64(len(data))
	idx := 0
	for _, l := range f.Loads {
		raw := append([]byte(nil), l.Raw()...)
		cmd := bo.Uint32(raw)
		switch {
		case cmd == lcCodeSignature:
			sigOff, sigLen = int64(bo.Uint32(raw[8:])), int64(bo.Uint32(raw[12:]))
			p.SigItems = append(p.SigItems, "LC_CODE_SIGNATURE")
			pos += len(raw)
			continue
		case cmd == uint32(macho.LoadCmdSegment64) && len(raw) >= 72 && cstr(raw[8:24]) == "__LINKEDIT":
			off, sz := int64(bo.Uint64(raw[40:])), int64(bo.Uint64(raw[48:]))
			linkEnd = off + sz
			for i := 32; i < 40; i++ { // vmsize
				raw[i] = 0
			}
			for i := 48; i < 56; i++ { // filesize
				raw[i] = 0
			}
		case cmd == uint32(macho.LoadCmdSegment) && len(raw) >= 56 && cstr(raw[8:24]) == "__LINKEDIT":
			off, sz := int64(bo.Uint32(raw[32:])), int64(bo.Uint32(raw[36:]))
			linkEnd = off + sz
			for i := 28; i < 32; i++ {
				raw[i] = 0
			}
			for i := 36; i < 40; i++ {
				raw[i] = 0
			}
		}
		p.add(fmt.Sprintf("loadcmd[%d] %#x", idx, cmd), "", raw)
		idx++
		pos += len(raw)
	}
	for _, s := range f.Sections {
		if s.Offset != 0 && s.Size != 0 && s.Flags&0xff != 1 /* S_ZEROFILL */ && int64(s.Offset) < firstSect {
			firstSect = int64(s.Offset)
		}
	}
	if firstSect < int64(pos) || firstSect > int64(len(data)) {
		return nil, fmt.Errorf("macho: first section at %d overlaps the load commands (end %d)", firstSect, pos)
	}
	p.add("load-command-slack", "", bytes.TrimLeft(data[pos:firstSect], "\x00"))
	limit := linkEnd
	if limit == 0 {
		limit = int64(len(data))
	}
	if sigLen != 0 {
		if sigOff+sigLen > int64(len(data)) || sigOff < firstSect {
			return nil, fmt.Errorf("macho: code signature {%d,+%d} outside the file (%d)", sigOff, sigLen, len(data))
		}
		if linkEnd != 0 && (sigOff+sigLen > linkEnd) {
			return nil, fmt.Errorf("macho: code signature {%d,+%d} not inside __LINKEDIT (ends %d)", sigOff, sigLen, linkEnd)
		}
		if string(data[sigOff:sigOff+4]) != "\xfa\xde\x0c\xc0" {
			return nil, fmt.Errorf("macho: no embedded-signature superblob at the LC_CODE_SIGNATURE offset")
		}
		limit = sigOff
	}
	if limit > int64(len(data)) {
		return nil, fmt.Errorf("macho: __LINKEDIT extends past the end of the file")
	}
	p.Items = append(p.Items, Item{Name: "image[first-section:code-limit]", Data: data[firstSect:limit], ZeroPad: 16})
	end := linkEnd
	if sigLen != 0 && sigOff+sigLen > end {
		end = sigOff + sigLen
	}
	if end != 0 && end < int64(len(data)) {
		p.add("after-linkedit", "", data[end:])
	}
	return p, nil
}

func cstr(b []byte) string {
	if i := bytes.IndexByte(b, 0); i >= 0 {
		b = b[:i]
	}
	return string(b)
}

// MachOSignature returns the embedded signature superblob, or nil.
func MachOSignature(data []byte) []byte {
	f, err := macho.NewFile(bytes.NewReader(data))
	if err != nil {
		return nil
	}
	for _, l := range f.Loads {
		raw := l.Raw()
		if f.ByteOrder.Uint32(raw) == lcCodeSignature {
			off, n := int64(f.ByteOrder.Uint32(raw[8:])), int64(f.ByteOrder.Uint32(raw[12:]))
			if off+n <= int64(len(data)) {
				return data[off : off+n]
			}
		}
	}
	return nil
}

// ---- UDIF disk image ----
//
// The 512-byte "koly" trailer (big-endian) ends the file; the signature is the
// blob addressed by CodeSignatureOffset/Length (trailer bytes 296..311) placed
// after the XML property list. Payload: file bytes [0, XMLOffset+XMLLength)
// (data fork + plist) and every trailer field except those two.
func readDMG(data []byte) (*Payload, error) {
	if len(data) < 512 || string(data[len(data)-512:len(data)-508]) != "koly" {
		return nil, fmt.Errorf("dmg: no koly trailer")
	}
	t := append([]byte(nil), data[len(data)-512:]...)
	be := binary.BigEndian
	xmlOff, xmlLen := int64(be.Uint64(t[216:])), int64(be.Uint64(t[224:]))
	sigOff, sigLen := int64(be.Uint64(t[296:])), int64(be.Uint64(t[304:]))
	if xmlOff < 0 || xmlLen < 0 || xmlOff+xmlLen > int64(len(data)-512) {
		return nil, fmt.Errorf("dmg: XML plist {%d,+%d} outside the file", xmlOff, xmlLen)
	}
	if !bytes.Contains(data[xmlOff:xmlOff+xmlLen], []byte("<plist")) {
		return nil, fmt.Errorf("dmg: no property list at XMLOffset")
	}
	p := &Payload{Type: "dmg"}
	if sigLen != 0 {
		if sigOff < xmlOff+xmlLen || sigOff+sigLen > int64(len(data)-512) {
			return nil, fmt.Errorf("dmg: code signature {%d,+%d} outside [plist end %d, trailer %d)", sigOff, sigLen, xmlOff+xmlLen, len(data)-512)
		}
		if string(data[sigOff:sigOff+4]) != "\xfa\xde\x0c\xc0" {
			return nil, fmt.Errorf("dmg: no embedded-signature superblob at CodeSignatureOffset")
		}
		p.SigItems = append(p.SigItems, "code-signature")
	}
	for i := 296; i < 312; i++ {
		t[i] = 0
	}
	p.add("data+plist", "", data[:xmlOff+xmlLen])
	p.add("koly", "", t)
	return p, nil
}

// DMGSignature returns the signature blob, or nil.
func DMGSignature(data []byte) []byte {
	if len(data) < 512 {
		return nil
	}
	t := data[len(data)-512:]
	off, n := int64(binary.BigEndian.Uint64(t[296:])), int64(binary.BigEndian.Uint64(t[304:]))
	if n == 0 || off < 0 || off+n > int64(len(data)) {
		return nil
	}
	return data[off : off+n]
}

package payload

import (
	"bytes"
	"fmt"
	"os/exec"
	"strconv"
	"strings"
)

// Debian binary package (deb(5), ar(5)): common ar archive; members whose
// name starts with "_gpg" are signatures (debsigs / dpkg-sig: _gpgbuilder,
// _gpgorigin, _gpgmaint, _gpgarchive ...). Payload: every other member with its
// header fields and bytes, in order. Second opinion: `dpkg-deb -c` and
// `dpkg-deb -I` must accept the file; their listings are payload items too.

// ArMember is one member of an ar archive.
type ArMember struct {
	Name                  string
	MTime, UID, GID, Mode string
	Data                  []byte
}

func ParseAr(data []byte) ([]ArMember, error) {
	if !bytes.HasPrefix(data, []byte("!<arch>\n")) {
		return nil, fmt.Errorf("ar: no global header")
	}
	pos := 8
	var out []ArMember
	for pos < len(data) {
		if pos+60 > len(data) {
			return nil, fmt.Errorf("ar: truncated member header at %d", pos)
		}
		h := data[pos : pos+60]
		if h[58] != '`' || h[59] != '\n' {
			return nil, fmt.Errorf("ar: bad header terminator at %d", pos)
		}
		size, err := strconv.Atoi(strings.TrimSpace(string(h[48:58])))
		if err != nil || size < 0 {
			return nil, fmt.Errorf("ar: bad size field at %d", pos)
		}
		if pos+60+size > len(data) {
			return nil, fmt.Errorf("ar: member at %d extends past the end of the file", pos)
		}
		name := strings.TrimRight(string(h[:16]), " ")
		name = strings.TrimSuffix(name, "/")
		out = append(out, ArMember{Name: name, MTime: strings.TrimSpace(string(h[16:28])), UID: strings.TrimSpace(string(h[28:34])),
			GID: strings.TrimSpace(string(h[34:40])), Mode: strings.TrimSpace(string(h[40:48])), Data: data[pos+60 : pos+60+size]})
		pos += 60 + size
		if size%2 == 1 {
			if pos < len(data) {
				if data[pos] != '\n' {
					return nil, fmt.Errorf("ar: odd-sized member %q is not followed by a newline pad", name)
				}
				pos++
			} else {
				return nil, fmt.Errorf("ar: odd-sized last member %q lacks its pad byte", name)
			}
		}
	}
	return out, nil
}

func readDeb(path string, data []byte) (*Payload, error) {
	ms, err := ParseAr(data)
	if err != nil {
		return nil, err
	}
	p := &Payload{Type: "deb"}
	for _, m := range ms {
		if strings.HasPrefix(m.Name, "_gpg") {
			p.SigItems = append(p.SigItems, m.Name)
			continue
		}
		p.add(m.Name, fmt.Sprintf("mtime=%s uid=%s gid=%s mode=%s", m.MTime, m.UID, m.GID, m.Mode), m.Data)
	}
	if path != "" {
		for _, flag := range []string{"-c", "-I"} {
			out, err := exec.Command("dpkg-deb", flag, path).CombinedOutput()
			if err != nil {
				return nil, fmt.Errorf("dpkg-deb %s: %v: %s", flag, err, clip(string(out)))
			}
			// "dpkg-deb -I" starts with the total file size: not payload
			var keep [][]byte
			for _, l := range bytes.SplitAfter(out, []byte("\n")) {
				if flag == "-I" && bytes.HasPrefix(l, []byte(" size ")) {
					continue
				}
				keep = append(keep, l)
			}
			p.add("dpkg-deb "+flag, "", bytes.Join(keep, nil))
		}
	}
	return p, nil
}

package payload

import (
	"bufio"
	"encoding/json"
	"fmt"
	"io"
	"os/exec"
	"sync"
)

// Py is one long-lived python3 process (one per harness process) that answers
// zipfile questions: the Python standard library as a second, independent ZIP
// reader. Requests and answers are JSON lines.
type Py struct {
	mu  sync.Mutex
	cmd *exec.Cmd
	in  io.WriteCloser
	out *bufio.Reader
	N   int // requests answered
}

const pyScript = `
import sys, json, zipfile, hashlib, io
for line in sys.stdin:
    req = json.loads(line)
    res = {}
    try:
        with open(req["path"], "rb") as f:
            data = f.read()
        if req.get("size", -1) >= 0:
            data = data[:req["size"]]
        z = zipfile.ZipFile(io.BytesIO(data))
        bad = z.testzip()
        if bad is not None:
            raise Exception("testzip: bad member %r" % bad)
        ents = []
        for i in z.infolist():
            body = z.read(i)
            ents.append({"name": i.filename, "orig": i.orig_filename, "method": i.compress_type, "size": i.file_size,
                         "sha256": hashlib.sha256(body).hexdigest(), "flags": i.flag_bits, "offset": i.header_offset,
                         "comment_len": len(i.comment)})
        res = {"ok": True, "entries": ents, "comment_len": len(z.comment)}
    except Exception as e:
        res = {"ok": False, "error": "%s: %s" % (type(e).__name__, e)}
    sys.stdout.write(json.dumps(res) + "\n")
    sys.stdout.flush()
`

// PyEntry is one member as python3 zipfile sees it.
type PyEntry struct {
	Name       string `json:"name"`
	Orig       string `json:"orig"`
	Method     int    `json:"method"`
	Size       int64  `json:"size"`
	SHA256     string `json:"sha256"`
	Flags      int    `json:"flags"`
	Offset     int64  `json:"offset"`
	CommentLen int    `json:"comment_len"`
}

type pyAnswer struct {
	OK         bool      `json:"ok"`
	Error      string    `json:"error"`
	Entries    []PyEntry `json:"entries"`
	CommentLen int       `json:"comment_len"`
}

// NewPy starts the python3 helper.
func NewPy() (*Py, error) {
	cmd := exec.Command("python3", "-u", "-c", pyScript)
	in, err := cmd.StdinPipe()
	if err != nil {
		return nil, err
	}
	out, err := cmd.StdoutPipe()
	if err != nil {
		return nil, err
	}
	if err := cmd.Start(); err != nil {
		return nil, err
	}
	return &Py{cmd: cmd, in: in, out: bufio.NewReaderSize(out, 1<<20)}, nil
}

func (p *Py) Close() {
	if p == nil {
		return
	}
	p.in.Close()
	_ = p.cmd.Wait()
}

// Zip lists the archive at path (only its first size bytes when size >= 0)
// with python3 zipfile, reading and CRC-checking every member.
func (p *Py) Zip(path string, size int64) ([]PyEntry, error) {
	p.mu.Lock()
	defer p.mu.Unlock()
	req, _ := json.Marshal(map[string]any{"path": path, "size": size})
	if _, err := p.in.Write(append(req, '\n')); err != nil {
		return nil, fmt.Errorf("python helper: %w", err)
	}
	line, err := p.out.ReadBytes('\n')
	if err != nil {
		return nil, fmt.Errorf("python helper: %w", err)
	}
	p.N++
	var a pyAnswer
	if err := json.Unmarshal(line, &a); err != nil {
		return nil, fmt.Errorf("python helper: %w", err)
	}
	if !a.OK {
		return nil, fmt.Errorf("python zipfile: %s", a.Error)
	}
	return a.Entries, nil
}

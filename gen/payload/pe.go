package payload

import (
	"bytes"
	"debug/pe"
	"encoding/binary"
	"fmt"
	"sort"
)

// PE/COFF ("Microsoft Portable Executable and Common Object File Format
// Specification", Authenticode_PE.docx "Calculating the PE Image Hash"):
// signature metadata are the optional header CheckSum field, the Certificate
// Table entry of the data directory (index 4), the attribute certificate
// table at the end of the file and the zero padding that aligns it to 8
// bytes. Everything else is payload: the header block [0, SizeOfHeaders), every
// section's raw data and whatever follows the last section (overlay / debug
// data / appended installers).

// PEInfo is what the reader learned about the layout (used by shape builders
// and by C08's signature counting).
type PEInfo struct {
	CheckSumOff int
	CertDirOff  int
	CertOff     int64
	CertSize    int64
	EndOfImage  int64 // end of the last section's raw data (or of the headers)
}

func peLayout(data []byte) (*pe.File, *PEInfo, error) {
	f, err := pe.NewFile(bytes.NewReader(data))
	if err != nil {
		return nil, nil, fmt.Errorf("debug/pe: %w", err)
	}
	if len(data) < 0x40 {
		return nil, nil, fmt.Errorf("pe: short file")
	}
	peOff := int(binary.LittleEndian.Uint32(data[0x3c:]))
	optOff := peOff + 4 + 20
	info := &PEInfo{CheckSumOff: optOff + 64}
	var ndirs uint32
	var sizeOfHeaders uint32
	switch oh := f.OptionalHeader.(type) {
	case *pe.OptionalHeader32:
		info.CertDirOff = optOff + 96 + 4*8
		ndirs = oh.NumberOfRvaAndSizes
		sizeOfHeaders = oh.SizeOfHeaders
		if ndirs > 4 {
			info.CertOff, info.CertSize = int64(oh.DataDirectory[4].VirtualAddress), int64(oh.DataDirectory[4].Size)
		}
	case *pe.OptionalHeader64:
		info.CertDirOff = optOff + 112 + 4*8
		ndirs = oh.NumberOfRvaAndSizes
		sizeOfHeaders = oh.SizeOfHeaders
		if ndirs > 4 {
			info.CertOff, info.CertSize = int64(oh.DataDirectory[4].VirtualAddress), int64(oh.DataDirectory[4].Size)
		}
	default:
		return nil, nil, fmt.Errorf("pe: no optional header")
	}
	if ndirs <= 4 {
		info.CertDirOff = -1
	}
	info.EndOfImage = int64(sizeOfHeaders)
	for _, s := range f.Sections {
		if s.Size == 0 {
			continue
		}
		if end := int64(s.Offset) + int64(s.Size); end > info.EndOfImage {
			info.EndOfImage = end
		}
	}
	if info.EndOfImage > int64(len(data)) {
		return nil, nil, fmt.Errorf("pe: sections extend past the end of the file")
	}
	if info.CertOff != 0 {
		if info.CertOff < info.EndOfImage || info.CertOff+info.CertSize > int64(len(data)) {
			return nil, nil, fmt.Errorf("pe: certificate table [%d,+%d) outside the file tail (image ends %d, file %d)", info.CertOff, info.CertSize, info.EndOfImage, len(data))
		}
		if info.CertOff%8 != 0 {
			return nil, nil, fmt.Errorf("pe: certificate table offset %d is not 8-aligned", info.CertOff)
		}
		// walk the WIN_CERTIFICATE entries
		pos := info.CertOff
		for pos < info.CertOff+info.CertSize {
			if pos+8 > int64(len(data)) {
				return nil, nil, fmt.Errorf("pe: truncated WIN_CERTIFICATE header")
			}
			l := int64(binary.LittleEndian.Uint32(data[pos:]))
			if l < 8 || pos+l > info.CertOff+info.CertSize {
				return nil, nil, fmt.Errorf("pe: WIN_CERTIFICATE length %d does not fit the table", l)
			}
			pos += (l + 7) &^ 7
		}
	}
	return f, info, nil
}

// PELayout exposes the layout calculation.
func PELayout(data []byte) (*PEInfo, error) {
	_, info, err := peLayout(data)
	return info, err
}

func readPE(data []byte) (*Payload, error) {
	f, info, err := peLayout(data)
	if err != nil {
		return nil, err
	}
	p := &Payload{Type: "pe-coff"}
	// header block with the two signature-owned fields blanked
	var hdrLen int64
	switch oh := f.OptionalHeader.(type) {
	case *pe.OptionalHeader32:
		hdrLen = int64(oh.SizeOfHeaders)
	case *pe.OptionalHeader64:
		hdrLen = int64(oh.SizeOfHeaders)
	}
	// the section table may extend past SizeOfHeaders in odd files: cover it
	peOff := int64(binary.LittleEndian.Uint32(data[0x3c:]))
	tblEnd := peOff + 4 + 20 + int64(f.FileHeader.SizeOfOptionalHeader) + 40*int64(f.FileHeader.NumberOfSections)
	if tblEnd > hdrLen {
		hdrLen = tblEnd
	}
	if hdrLen > int64(len(data)) {
		hdrLen = int64(len(data))
	}
	hdr := append([]byte(nil), data[:hdrLen]...)
	zero := func(off, n int) {
		for i := off; i < off+n && i < len(hdr); i++ {
			if i >= 0 {
				hdr[i] = 0
			}
		}
	}
	zero(info.CheckSumOff, 4)
	if info.CertDirOff >= 0 {
		zero(info.CertDirOff, 8)
	}
	p.add("headers", "", hdr)
	for i, s := range f.Sections {
		var body []byte
		if s.Size > 0 {
			if int64(s.Offset)+int64(s.Size) > int64(len(data)) {
				return nil, fmt.Errorf("pe: section %d outside the file", i)
			}
			body = data[s.Offset : s.Offset+s.Size]
		}
		p.add(fmt.Sprintf("section[%d] %s", i, s.Name), fmt.Sprintf("ptr=%#x size=%#x va=%#x vsize=%#x chars=%#x", s.Offset, s.Size, s.VirtualAddress, s.VirtualSize, s.Characteristics), body)
	}
	// bytes inside the image that belong to no section (gap after the headers, gaps between sections)
	type iv struct{ a, b int64 }
	var ivs []iv
	for _, s := range f.Sections {
		if s.Size > 0 {
			ivs = append(ivs, iv{int64(s.Offset), int64(s.Offset) + int64(s.Size)})
		}
	}
	sort.Slice(ivs, func(i, j int) bool { return ivs[i].a < ivs[j].a })
	pos := hdrLen
	for _, v := range ivs {
		if v.a > pos {
			p.add(fmt.Sprintf("gap@%#x", pos), "", data[pos:v.a])
		}
		if v.b > pos {
			pos = v.b
		}
	}
	end := int64(len(data))
	pad := 0
	if info.CertOff != 0 {
		end = info.CertOff
		pad = 8
		p.SigItems = append(p.SigItems, "certificate-table")
		if tail := data[info.CertOff+info.CertSize:]; len(tail) > 0 {
			// bytes after the certificate table (allowed only as zero padding up to 8)
			p.add("after-certificate-table", "", tail)
		}
	}
	p.Items = append(p.Items, Item{Name: "overlay", Data: data[info.EndOfImage:end], ZeroPad: pad})
	return p, nil
}

// PECertificates returns the raw bCertificate blobs of the attribute
// certificate table (C08 counts them).
func PECertificates(data []byte) ([][]byte, error) {
	_, info, err := peLayout(data)
	if err != nil {
		return nil, err
	}
	var out [][]byte
	pos := info.CertOff
	for info.CertOff != 0 && pos < info.CertOff+info.CertSize {
		l := int64(binary.LittleEndian.Uint32(data[pos:]))
		out = append(out, data[pos+8:pos+l])
		pos += (l + 7) &^ 7
	}
	return out, nil
}

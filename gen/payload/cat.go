package payload

import (
	"encoding/asn1"
	"fmt"
)

// Security catalog (.cat): a PKCS#7 / CMS SignedData (RFC 2315 §9.1) whose
// encapsulated content is a Microsoft certificate trust list. Everything of
// the SignedData wrapper except the encapsulated ContentInfo is signature
// metadata (digest algorithms, certificates, CRLs, signer infos). Payload: the
// content type OID and the DER bytes of the encapsulated content.
type catContentInfo struct {
	Type    asn1.ObjectIdentifier
	Content asn1.RawValue `asn1:"explicit,tag:0,optional"`
}

type catSignedData struct {
	Version     int
	DigestAlgs  asn1.RawValue
	ContentInfo catContentInfo
	Rest        []asn1.RawValue `asn1:"optional"`
}

func readCAT(data []byte) (*Payload, error) {
	var outer catContentInfo
	rest, err := asn1.Unmarshal(data, &outer)
	if err != nil {
		return nil, fmt.Errorf("cat: outer ContentInfo: %w", err)
	}
	if !outer.Type.Equal(asn1.ObjectIdentifier{1, 2, 840, 113549, 1, 7, 2}) {
		return nil, fmt.Errorf("cat: content type %v is not signedData", outer.Type)
	}
	// SignedData ::= SEQUENCE { version, digestAlgorithms, contentInfo, [0] certs, [1] crls, signerInfos }
	var seq asn1.RawValue
	if _, err := asn1.Unmarshal(outer.Content.Bytes, &seq); err != nil {
		return nil, fmt.Errorf("cat: SignedData: %w", err)
	}
	body := seq.Bytes
	var fields []asn1.RawValue
	for len(body) > 0 {
		var f asn1.RawValue
		body, err = asn1.Unmarshal(body, &f)
		if err != nil {
			return nil, fmt.Errorf("cat: SignedData field %d: %w", len(fields), err)
		}
		fields = append(fields, f)
	}
	if len(fields) < 4 {
		return nil, fmt.Errorf("cat: SignedData has %d fields", len(fields))
	}
	var inner catContentInfo
	if _, err := asn1.Unmarshal(fields[2].FullBytes, &inner); err != nil {
		return nil, fmt.Errorf("cat: encapsulated ContentInfo: %w", err)
	}
	p := &Payload{Type: "cat"}
	last := fields[len(fields)-1]
	// signerInfos SET: count members
	sis := last.Bytes
	for len(sis) > 0 {
		var si asn1.RawValue
		sis, err = asn1.Unmarshal(sis, &si)
		if err != nil {
			return nil, fmt.Errorf("cat: signerInfos: %w", err)
		}
		p.SigItems = append(p.SigItems, "signerInfo")
	}
	p.add("content", "type="+inner.Type.String(), inner.Content.Bytes)
	if len(rest) > 0 {
		p.add("trailing-bytes", "", rest)
	}
	return p, nil
}

package payload

import (
	"archive/zip"
	"bytes"
	"crypto/sha256"
	"encoding/binary"
	"encoding/hex"
	"fmt"
	"io"
	"path"
	"sort"
	"strings"
)

// ---- which members are signature metadata (written from the specifications) ----
//
// JAR (JAR File Specification, "Signed JAR File"): the signature-related files
// are META-INF/MANIFEST.MF, META-INF/*.SF, META-INF/*.DSA, META-INF/*.RSA,
// META-INF/*.EC and META-INF/SIG-* (names compared case-insensitively, only
// directly inside META-INF/). The manifest is payload in part: its main
// attributes and every non-digest per-entry attribute must survive; digest
// attributes ("<alg>-Digest", "<alg>-Digest-<lang>") and the "META-INF/"
// directory entry belong to the signing tool.
// APK (APK Signature Scheme v2): additionally the "APK Signing Block" between
// the last member and the central directory (not a member at all).
// XAP: the signature is a trailer after the end-of-central-directory record:
// {u16,u16,u32 size} PKCS#7 {u32 magic "XapS", u16, u32 trailerSize}; every
// member and every byte of the ZIP before the trailer is payload.
// VSIX (ECMA-376 part 2, Open Packaging Conventions, "Digital Signatures"):
// the Digital Signature Origin part, XML Signature parts and Certificate parts
// under /package/services/digital-signature/ and their relationship parts; in
// /_rels/.rels only the relationship of type .../digital-signature/origin; in
// [Content_Types].xml only the Default entries for the signature part
// extensions (psdor, psdsxs, cer) and for "rels".
// APPX (App packaging: "signing an app package"): AppxSignature.p7x,
// AppxBlockMap.xml, AppxMetadata/CodeIntegrity.cat, [Content_Types].xml; in
// AppxManifest.xml / AppxMetadata/AppxBundleManifest.xml only Identity/@Publisher.

const (
	relTypeSigOrigin = "http://schemas.openxmlformats.org/package/2006/relationships/digital-signature/origin"
	vsixDigSig       = "package/services/digital-signature/"
)

func jarSigMember(name string) (sig bool, manifest bool) {
	if name == "META-INF/" {
		return true, false
	}
	if path.Dir(name) != "META-INF" || strings.HasSuffix(name, "/") {
		return false, false
	}
	base := strings.ToUpper(path.Base(name))
	if base == "MANIFEST.MF" {
		return false, true
	}
	if strings.HasPrefix(base, "SIG-") {
		return true, false
	}
	switch path.Ext(base) {
	case ".SF", ".RSA", ".DSA", ".EC":
		return true, false
	}
	return false, false
}

// zipEntry is the union of what the two readers report for one member.
type zipEntry struct {
	Name   string
	Method uint16
	Data   []byte
	Meta   string
}

// locateEOCD finds the end-of-central-directory record scanning backwards
// (APPNOTE 4.3.16) and returns its offset and the central directory offset as
// recorded (zip64 locator honoured), or -1.
func locateEOCD(b []byte) (eocd int64, cdOff int64, cdSize int64) {
	for i := len(b) - 22; i >= 0 && i >= len(b)-22-65535; i-- {
		if binary.LittleEndian.Uint32(b[i:]) == 0x06054b50 {
			clen := int(binary.LittleEndian.Uint16(b[i+20:]))
			if i+22+clen > len(b) {
				continue
			}
			cdSize = int64(binary.LittleEndian.Uint32(b[i+12:]))
			cdOff = int64(binary.LittleEndian.Uint32(b[i+16:]))
			if i >= 20 && binary.LittleEndian.Uint32(b[i-20:]) == 0x07064b50 {
				e64 := int64(binary.LittleEndian.Uint64(b[i-20+8:]))
				if e64 >= 0 && e64+56 <= int64(len(b)) && binary.LittleEndian.Uint32(b[e64:]) == 0x06064b50 {
					cdSize = int64(binary.LittleEndian.Uint64(b[e64+40:]))
					cdOff = int64(binary.LittleEndian.Uint64(b[e64+48:]))
				}
			}
			return int64(i), cdOff, cdSize
		}
	}
	return -1, -1, -1
}

// XapSplit returns the length of the ZIP part of a XAP (the whole file when
// there is no signature trailer).
func XapSplit(b []byte) (zipLen int, signed bool, err error) {
	if len(b) < 10 || binary.LittleEndian.Uint32(b[len(b)-10:]) != 0x53706158 {
		return len(b), false, nil
	}
	tsize := int(binary.LittleEndian.Uint32(b[len(b)-4:]))
	n := len(b) - 10 - tsize
	if tsize < 8 || n < 22 {
		return 0, true, fmt.Errorf("xap: trailer size %d does not fit the file", tsize)
	}
	if int(binary.LittleEndian.Uint32(b[n+4:])) != tsize-8 {
		return 0, true, fmt.Errorf("xap: signature header size does not match the trailer")
	}
	return n, true, nil
}

func readZipBased(typ, fpath string, data []byte, py *Py) (*Payload, error) {
	p := &Payload{Type: typ}
	zdata := data
	pySize := int64(-1)
	if typ == "xap" {
		n, signed, err := XapSplit(data)
		if err != nil {
			return nil, err
		}
		if signed {
			p.SigItems = append(p.SigItems, "xap-trailer")
			pySize = int64(n)
		}
		zdata = data[:n]
		// the end record must be the last thing in the ZIP part
		if e, _, _ := locateEOCD(zdata); e < 0 {
			return nil, fmt.Errorf("xap: no end-of-central-directory record before the trailer")
		}
	}
	zr, err := zip.NewReader(bytes.NewReader(zdata), int64(len(zdata)))
	if err != nil {
		return nil, fmt.Errorf("go archive/zip: %w", err)
	}
	var ents []zipEntry
	for _, f := range zr.File {
		var body []byte
		rc, err := f.Open()
		if err != nil {
			return nil, fmt.Errorf("go archive/zip: member %q: %w", clipName(f.Name), err)
		}
		body, err = io.ReadAll(rc)
		rc.Close()
		if err != nil {
			return nil, fmt.Errorf("go archive/zip: member %q: %w", clipName(f.Name), err)
		}
		if uint64(len(body)) != f.UncompressedSize64 {
			return nil, fmt.Errorf("go archive/zip: member %q: size %d != directory %d", clipName(f.Name), len(body), f.UncompressedSize64)
		}
		meta := fmt.Sprintf("method=%d utf8=%v time=%04x/%04x ext=%08x extra=%s comment=%q", f.Method, f.Flags&0x800 != 0,
			f.ModifiedDate, f.ModifiedTime, f.ExternalAttrs, hex.EncodeToString(stripZip64Extra(f.Extra)), f.Comment)
		ents = append(ents, zipEntry{f.Name, f.Method, body, meta})
	}
	// second opinion: python3 zipfile must accept the file and agree on names, order, method and content
	if py != nil {
		pe, err := py.Zip(fpath, pySize)
		if err != nil {
			return nil, err
		}
		if len(pe) != len(ents) {
			return nil, fmt.Errorf("readers disagree: go archive/zip lists %d members, python zipfile %d", len(ents), len(pe))
		}
		for i, e := range pe {
			sum := sha256.Sum256(ents[i].Data)
			// python decodes non-UTF-8-flagged names as cp437; compare through the raw bytes it kept
			if !pyNameEqual(e, ents[i].Name) || e.Method != int(ents[i].Method) || e.SHA256 != hex.EncodeToString(sum[:]) {
				return nil, fmt.Errorf("readers disagree on member %d: go (%q method=%d %s) python (%q method=%d %dB/%s)", i,
					clipName(ents[i].Name), ents[i].Method, short(ents[i].Data), clipName(e.Name), e.Method, e.Size, e.SHA256[:8])
			}
		}
	}
	if typ == "apk" || typ == "jar" {
		if _, cdOff, _ := locateEOCD(zdata); cdOff >= 32 && cdOff <= int64(len(zdata)) && string(zdata[cdOff-16:cdOff]) == "APK Sig Block 42" {
			p.SigItems = append(p.SigItems, "apk-signing-block")
		}
	}
	for _, e := range ents {
		switch typ {
		case "jar", "apk":
			sig, manifest := jarSigMember(e.Name)
			if sig {
				p.SigItems = append(p.SigItems, e.Name)
				continue
			}
			if manifest {
				items, err := manifestItems(e.Name, e.Data)
				if err != nil {
					return nil, err
				}
				p.Items = append(p.Items, items...)
				continue
			}
		case "vsix":
			switch {
			case strings.HasPrefix(e.Name, vsixDigSig):
				p.SigItems = append(p.SigItems, e.Name)
				continue
			case e.Name == "_rels/.rels":
				s, nsig, err := relsCanon(e.Data)
				if err != nil {
					return nil, fmt.Errorf("vsix: _rels/.rels: %w", err)
				}
				if nsig > 0 {
					p.SigItems = append(p.SigItems, "_rels/.rels#origin")
				}
				if s != "" {
					p.Items = append(p.Items, Item{Name: "_rels/.rels#relationships", Data: []byte(s), Floating: true})
				}
				continue
			case e.Name == "[Content_Types].xml":
				s, err := contentTypesCanon(e.Data, map[string]bool{"psdor": true, "psdsxs": true, "cer": true, "rels": true})
				if err != nil {
					return nil, fmt.Errorf("vsix: [Content_Types].xml: %w", err)
				}
				p.Items = append(p.Items, Item{Name: "[Content_Types].xml#entries", Data: []byte(s), Floating: true})
				continue
			}
		case "appx":
			switch e.Name {
			case "AppxSignature.p7x", "AppxBlockMap.xml", "AppxMetadata/CodeIntegrity.cat", "[Content_Types].xml":
				if e.Name == "AppxSignature.p7x" || e.Name == "AppxMetadata/CodeIntegrity.cat" {
					p.SigItems = append(p.SigItems, e.Name)
				}
				continue
			case "AppxManifest.xml", "AppxMetadata/AppxBundleManifest.xml":
				s, err := xmlCanon(e.Data, func(stack []string, attr string) bool {
					return len(stack) == 2 && strings.HasSuffix(stack[1], "}Identity") && attr == "Publisher"
				}, nil)
				if err != nil {
					return nil, fmt.Errorf("appx: %s: %w", e.Name, err)
				}
				p.Items = append(p.Items, Item{Name: e.Name + "#xml", Data: []byte(s), Floating: true})
				continue
			}
		}
		p.add(e.Name, e.Meta, e.Data)
	}
	if typ == "xap" {
		p.add("#zip-bytes", "", zdata)
	}
	return p, nil
}

func clipName(s string) string {
	if len(s) > 40 {
		return fmt.Sprintf("%s...(%d bytes)", s[:24], len(s))
	}
	return s
}

func pyNameEqual(e PyEntry, goName string) bool {
	if e.Name == goName || e.Orig == goName {
		return true
	}
	// cp437-decoded by python: re-encode is not needed for the ASCII/UTF-8 names used by the harness families
	return false
}

func stripZip64Extra(extra []byte) []byte {
	var out []byte
	for len(extra) >= 4 {
		tag := binary.LittleEndian.Uint16(extra)
		n := int(binary.LittleEndian.Uint16(extra[2:]))
		if 4+n > len(extra) {
			break
		}
		if tag != 1 {
			out = append(out, extra[:4+n]...)
		}
		extra = extra[4+n:]
	}
	return append(out, extra...)
}

// ---- JAR manifest (JAR File Specification: "Name-Value pairs and Sections") ----

type mfSection struct {
	attrs [][2]string
}

func parseManifestSections(b []byte) ([]mfSection, error) {
	text := strings.ReplaceAll(string(b), "\r\n", "\n")
	text = strings.ReplaceAll(text, "\r", "\n")
	// continuation lines (one leading SPACE) are joined to the line before them
	// BEFORE the header is split into name and value, as java.util.jar.Attributes
	// reads them: a break may fall anywhere in the line, also inside the name or
	// between the colon and the blank
	var logical []string
	open := false // the last element of logical is a header line that may be continued
	for _, line := range strings.Split(text, "\n") {
		if line == "" {
			logical = append(logical, "")
			open = false
			continue
		}
		if line[0] == ' ' {
			if !open {
				return nil, fmt.Errorf("manifest: continuation line without a header")
			}
			logical[len(logical)-1] += line[1:]
			continue
		}
		logical = append(logical, line)
		open = true
	}
	var secs []mfSection
	var cur *mfSection
	for _, line := range logical {
		if line == "" {
			cur = nil
			continue
		}
		i := strings.Index(line, ": ")
		if i < 0 {
			if strings.HasSuffix(line, ":") {
				i = len(line) - 1
				line += " "
			} else {
				return nil, fmt.Errorf("manifest: malformed line %q", clip(line))
			}
		}
		if cur == nil {
			secs = append(secs, mfSection{})
			cur = &secs[len(secs)-1]
		}
		cur.attrs = append(cur.attrs, [2]string{line[:i], line[i+2:]})
	}
	return secs, nil
}

func isDigestAttr(name string) bool {
	n := strings.ToLower(name)
	return strings.HasSuffix(n, "-digest") || strings.Contains(n, "-digest-")
}

func canonAttrs(attrs [][2]string, dropDigests bool) string {
	var lines []string
	for _, a := range attrs {
		k := strings.ToLower(a[0]) // attribute names are case-insensitive
		if dropDigests && (isDigestAttr(k) || k == "name") {
			continue
		}
		lines = append(lines, k+": "+a[1])
	}
	sort.Strings(lines)
	return strings.Join(lines, "\n")
}

func manifestItems(name string, b []byte) ([]Item, error) {
	secs, err := parseManifestSections(b)
	if err != nil {
		return nil, err
	}
	var out []Item
	if len(secs) == 0 {
		return []Item{{Name: name + "#main", Floating: true}}, nil
	}
	first := 0
	if len(secs[0].attrs) > 0 && !strings.EqualFold(secs[0].attrs[0][0], "Name") {
		out = append(out, Item{Name: name + "#main", Data: []byte(canonAttrs(secs[0].attrs, false)), Floating: true})
		first = 1
	} else {
		out = append(out, Item{Name: name + "#main", Floating: true})
	}
	for _, s := range secs[first:] {
		ename := ""
		for _, a := range s.attrs {
			if strings.EqualFold(a[0], "Name") {
				ename = a[1]
			}
		}
		c := canonAttrs(s.attrs, true)
		if c == "" {
			continue // only Name + digests: owned by the signing tool
		}
		out = append(out, Item{Name: name + "#entry:" + ename, Data: []byte(c), Floating: true})
	}
	return out, nil
}

// JarManifestDigests returns, per entry name, the digest attributes of the
// manifest (lower-cased attribute name -> value): used by C08 to compare the
// per-entry content digests relic records across re-signing.
func JarManifestDigests(b []byte) (map[string]map[string]string, error) {
	secs, err := parseManifestSections(b)
	if err != nil {
		return nil, err
	}
	out := map[string]map[string]string{}
	for _, s := range secs {
		ename := ""
		d := map[string]string{}
		for _, a := range s.attrs {
			if strings.EqualFold(a[0], "Name") {
				ename = a[1]
			} else if isDigestAttr(a[0]) {
				d[strings.ToLower(a[0])] = a[1]
			}
		}
		if ename != "" {
			out[ename] = d
		}
	}
	return out, nil
}

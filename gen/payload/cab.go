package payload

import (
	"bytes"
	"encoding/binary"
	"fmt"
)

// Cabinet ([MS-CAB] 2.1-2.4). Signature metadata: the per-cabinet reserved
// area of CFHEADER (cbCFHeader / abReserve: Authenticode stores {offset,size}
// of the PKCS#7 there), the flags bit cfhdrRESERVE_PRESENT, the trailing
// PKCS#7 after cbCabinet, and the three fields that move when the reserved
// area is inserted (cbCabinet, coffFiles, CFFOLDER.coffCabStart). Payload:
// every other header field, the CFFOLDER records, the CFFILE records and
// every CFDATA block (checksum, sizes, bytes).
func readCAB(data []byte) (*Payload, error) {
	le := binary.LittleEndian
	if len(data) < 36 || string(data[:4]) != "MSCF" {
		return nil, fmt.Errorf("cab: no MSCF header")
	}
	cbCabinet := int64(le.Uint32(data[8:]))
	coffFiles := int64(le.Uint32(data[16:]))
	cFolders := int(le.Uint16(data[26:]))
	cFiles := int(le.Uint16(data[28:]))
	flags := le.Uint16(data[30:])
	if cbCabinet > int64(len(data)) || coffFiles > cbCabinet {
		return nil, fmt.Errorf("cab: cbCabinet %d / coffFiles %d outside the file (%d)", cbCabinet, coffFiles, len(data))
	}
	p := &Payload{Type: "cab"}
	pos := int64(36)
	var cbFolderRes, cbDataRes int
	if flags&4 != 0 {
		if pos+4 > int64(len(data)) {
			return nil, fmt.Errorf("cab: truncated reserve header")
		}
		cbHeader := int64(le.Uint16(data[pos:]))
		cbFolderRes = int(data[pos+2])
		cbDataRes = int(data[pos+3])
		pos += 4
		if pos+cbHeader > coffFiles {
			return nil, fmt.Errorf("cab: reserved area past coffFiles")
		}
		res := data[pos : pos+cbHeader]
		pos += cbHeader
		if cbHeader >= 20 {
			// Authenticode: u32 ?, u32 cabinet size/offset of the signature, u32 size of the signature
			sigOff, sigLen := int64(le.Uint32(res[4:])), int64(le.Uint32(res[8:]))
			if sigLen != 0 {
				if sigOff != cbCabinet || sigOff+sigLen > int64(len(data)) {
					return nil, fmt.Errorf("cab: signature pointer {%d,+%d} does not address the file tail (cbCabinet %d, file %d)", sigOff, sigLen, cbCabinet, len(data))
				}
				p.SigItems = append(p.SigItems, "pkcs7-trailer")
				if sigOff+sigLen != int64(len(data)) {
					p.add("after-signature", "", data[sigOff+sigLen:])
				}
			}
		}
	} else if cbCabinet != int64(len(data)) {
		p.add("after-cabinet", "", data[cbCabinet:])
	}
	if flags&3 != 0 {
		return nil, fmt.Errorf("cab: multi-cabinet sets are outside this reader")
	}
	p.add("CFHEADER", fmt.Sprintf("res1=%#x res2=%#x res3=%#x version=%d.%d cFolders=%d cFiles=%d flags=%#x setID=%d iCabinet=%d cbCFFolder=%d cbCFData=%d",
		le.Uint32(data[4:]), le.Uint32(data[12:]), le.Uint32(data[20:]), data[25], data[24], cFolders, cFiles, flags&^4, le.Uint16(data[32:]), le.Uint16(data[34:]), cbFolderRes, cbDataRes), nil)
	type folder struct {
		off   int64
		nData int
		typ   uint16
		res   []byte
	}
	var folders []folder
	for i := 0; i < cFolders; i++ {
		if pos+8+int64(cbFolderRes) > coffFiles {
			return nil, fmt.Errorf("cab: CFFOLDER %d past coffFiles", i)
		}
		folders = append(folders, folder{int64(le.Uint32(data[pos:])), int(le.Uint16(data[pos+4:])), le.Uint16(data[pos+6:]), data[pos+8 : pos+8+int64(cbFolderRes)]})
		pos += 8 + int64(cbFolderRes)
	}
	if pos != coffFiles {
		p.add("gap-before-CFFILE", "", data[pos:coffFiles])
	}
	pos = coffFiles
	firstData := cbCabinet
	for _, f := range folders {
		if f.off < firstData {
			firstData = f.off
		}
	}
	for i := 0; i < cFiles; i++ {
		if pos+16 > cbCabinet {
			return nil, fmt.Errorf("cab: CFFILE %d truncated", i)
		}
		end := bytes.IndexByte(data[pos+16:cbCabinet], 0)
		if end < 0 {
			return nil, fmt.Errorf("cab: CFFILE %d name not terminated", i)
		}
		rec := data[pos : pos+16+int64(end)+1]
		p.add(fmt.Sprintf("CFFILE[%d] %s", i, rec[16:len(rec)-1]), fmt.Sprintf("cbFile=%d uoff=%d iFolder=%d date=%#x time=%#x attribs=%#x",
			le.Uint32(rec), le.Uint32(rec[4:]), le.Uint16(rec[8:]), le.Uint16(rec[10:]), le.Uint16(rec[12:]), le.Uint16(rec[14:])), nil)
		pos += int64(len(rec))
	}
	if cFolders > 0 && pos != firstData {
		if pos > firstData {
			return nil, fmt.Errorf("cab: CFFILE table overlaps the first CFDATA (%d > %d)", pos, firstData)
		}
		p.add("gap-before-CFDATA", "", data[pos:firstData])
	}
	dataEnd := pos
	for i, f := range folders {
		dp := f.off
		var blocks bytes.Buffer
		for k := 0; k < f.nData; k++ {
			if dp+8+int64(cbDataRes) > cbCabinet {
				return nil, fmt.Errorf("cab: folder %d CFDATA %d outside the cabinet", i, k)
			}
			cb := int64(le.Uint16(data[dp+4:]))
			if dp+8+int64(cbDataRes)+cb > cbCabinet {
				return nil, fmt.Errorf("cab: folder %d CFDATA %d payload outside the cabinet", i, k)
			}
			blocks.Write(data[dp : dp+8+int64(cbDataRes)+cb])
			dp += 8 + int64(cbDataRes) + cb
		}
		if dp > dataEnd {
			dataEnd = dp
		}
		p.add(fmt.Sprintf("CFFOLDER[%d]", i), fmt.Sprintf("cCFData=%d typeCompress=%#x reserve=%x relstart=%d", f.nData, f.typ, f.res, f.off-firstData), blocks.Bytes())
	}
	if dataEnd < cbCabinet {
		p.add("tail-inside-cabinet", "", data[dataEnd:cbCabinet])
	}
	return p, nil
}

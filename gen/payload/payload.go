// Package payload holds per-format INDEPENDENT payload readers: for every
// package type relic signs, a reader written from the format specification
// (Go stdlib archive/zip, debug/pe, debug/macho, encoding/xml, compress/zlib;
// verif/gen/cfbgen for MS-CFB; python3 zipfile, dpkg-deb and gpgv as second
// opinions) that returns the ORDERED list of payload items of an artifact,
// EXCLUDING signature metadata. The exclusion list of each format is written
// next to its reader. Nothing here imports relic.
//
// Two artifacts have "the same payload" iff Diff(Read(a), Read(b)) is empty.
package payload

import (
	"bytes"
	"crypto/sha256"
	"encoding/hex"
	"fmt"
	"os"
	"strings"
)

// Item is one payload item. Data are the item's bytes; Meta is a canonical
// rendering of the item's preserved metadata (method, flags, CLSID, ...).
type Item struct {
	Name string
	Meta string
	Data []byte
	// ZeroPad > 0: the item may be followed by fewer than ZeroPad zero bytes
	// that are alignment padding owned by the signature (PE: the attribute
	// certificate table is 8-aligned, [PE/COFF "Attribute Certificate Table"];
	// Mach-O: the signature blob is 16-aligned). Diff accepts a = b || 0^k, k < ZeroPad.
	ZeroPad int
	// Floating: the item's position among the others is not payload (a member
	// the signing tool re-creates, compared by content only).
	Floating bool
}

// Payload is what an independent reader sees in an artifact, minus signature metadata.
type Payload struct {
	Type  string
	Items []Item
	// SigItems names the signature-metadata items that were present and
	// skipped (reporting / signature counting only, never compared).
	SigItems []string
	// Unordered: item order carries no meaning in this format (CFB directory
	// entries are a search tree keyed by name; items are sorted by path).
	Unordered bool
}

func (p *Payload) add(name, meta string, data []byte) {
	p.Items = append(p.Items, Item{Name: name, Meta: meta, Data: data})
}

// Fingerprint is a short stable digest of the whole payload.
func (p *Payload) Fingerprint() string {
	h := sha256.New()
	for _, it := range p.Items {
		fmt.Fprintf(h, "%d:%s|%d:%s|%d:", len(it.Name), it.Name, len(it.Meta), it.Meta, len(it.Data))
		h.Write(it.Data)
	}
	return hex.EncodeToString(h.Sum(nil))[:16]
}

func short(b []byte) string {
	s := sha256.Sum256(b)
	return fmt.Sprintf("%dB/%s", len(b), hex.EncodeToString(s[:4]))
}

func padEqual(a, b []byte, pad int) bool {
	if len(a) > len(b) {
		a, b = b, a
	}
	if !bytes.HasPrefix(b, a) {
		return false
	}
	rest := b[len(a):]
	if len(rest) > 0 && len(rest) >= pad {
		return false
	}
	for _, c := range rest {
		if c != 0 {
			return false
		}
	}
	return true
}

// Diff lists the differences between the payload before and after; empty
// means byte-identical items in the same order. Each entry starts with a
// stable class word: "missing", "added", "order", "meta", "bytes".
func Diff(before, after *Payload) []string {
	var out []string
	if before.Type != after.Type {
		out = append(out, fmt.Sprintf("type %s -> %s", before.Type, after.Type))
	}
	type key struct {
		name string
		occ  int
	}
	index := func(p *Payload) (map[key]int, []key) {
		m := map[key]int{}
		seen := map[string]int{}
		var ks []key
		for i, it := range p.Items {
			k := key{it.Name, seen[it.Name]}
			seen[it.Name]++
			m[k] = i
			ks = append(ks, k)
		}
		return m, ks
	}
	bi, bk := index(before)
	ai, ak := index(after)
	var common []key
	for _, k := range bk {
		if _, ok := ai[k]; !ok {
			out = append(out, fmt.Sprintf("missing item %q#%d (%s)", k.name, k.occ, short(before.Items[bi[k]].Data)))
		} else {
			common = append(common, k)
		}
	}
	for _, k := range ak {
		if _, ok := bi[k]; !ok {
			out = append(out, fmt.Sprintf("added item %q#%d (%s)", k.name, k.occ, short(after.Items[ai[k]].Data)))
		}
	}
	last := -1
	for _, k := range common {
		b, a := before.Items[bi[k]], after.Items[ai[k]]
		if b.Floating || a.Floating {
			// position not compared
		} else if ai[k] < last && !before.Unordered {
			out = append(out, fmt.Sprintf("order item %q#%d moved before its predecessor", k.name, k.occ))
		}
		if ai[k] > last && !(b.Floating || a.Floating) {
			last = ai[k]
		}
		if a.Meta != b.Meta {
			out = append(out, fmt.Sprintf("meta item %q#%d: %q -> %q", k.name, k.occ, clip(b.Meta), clip(a.Meta)))
		}
		pad := a.ZeroPad
		if b.ZeroPad > pad {
			pad = b.ZeroPad
		}
		if pad > 0 {
			if !padEqual(a.Data, b.Data, pad) {
				out = append(out, fmt.Sprintf("bytes item %q#%d: %s -> %s (beyond %d-byte zero alignment padding)", k.name, k.occ, short(b.Data), short(a.Data), pad))
			}
		} else if !bytes.Equal(a.Data, b.Data) {
			out = append(out, fmt.Sprintf("bytes item %q#%d: %s -> %s%s", k.name, k.occ, short(b.Data), short(a.Data), firstDiff(b.Data, a.Data)))
		}
	}
	return out
}

func clip(s string) string {
	if len(s) > 160 {
		return s[:160] + "..."
	}
	return s
}

func firstDiff(a, b []byte) string {
	n := len(a)
	if len(b) < n {
		n = len(b)
	}
	for i := 0; i < n; i++ {
		if a[i] != b[i] {
			return fmt.Sprintf(" first difference at %d", i)
		}
	}
	return fmt.Sprintf(" common prefix %d", n)
}

// DiffClass reduces a Diff entry to its class word.
func DiffClass(d string) string {
	if i := strings.IndexByte(d, ' '); i > 0 {
		return d[:i]
	}
	return d
}

// Types lists the type names Read understands (relic's -T names, plus the
// pgp sub-modes).
var Types = []string{"jar", "apk", "xap", "vsix", "appx", "pe-coff", "msi", "cab", "cat", "ps", "appmanifest",
	"deb", "rpm", "macho", "dmg", "xar", "pgp-clearsign", "pgp-inline", "pgp-detached"}

// Read parses the artifact at path as the given type with the independent
// reader(s) of that type. An error means an independent reader does NOT accept
// the file as a well-formed package of that type. py may be nil (then the
// Python second opinion for zip-based types is skipped).
func Read(typ, path string, py *Py) (*Payload, error) {
	data, err := os.ReadFile(path)
	if err != nil {
		return nil, err
	}
	return ReadBytes(typ, path, data, py)
}

// ReadBytes is Read for bytes already in memory; path is still needed by the
// readers that drive outside tools (python3, dpkg-deb, gpgv) and for the
// script style (by extension).
func ReadBytes(typ, path string, data []byte, py *Py) (*Payload, error) {
	switch typ {
	case "jar", "apk", "xap", "vsix", "appx":
		return readZipBased(typ, path, data, py)
	case "pe-coff":
		return readPE(data)
	case "msi":
		return readCFB(data)
	case "cab":
		return readCAB(data)
	case "cat":
		return readCAT(data)
	case "ps":
		return readScript(path, data)
	case "appmanifest":
		return readAppManifest(data)
	case "deb":
		return readDeb(path, data)
	case "rpm":
		return readRPM(data)
	case "macho":
		return readMachO(data)
	case "dmg":
		return readDMG(data)
	case "xar":
		return readXAR(data)
	case "pgp-clearsign":
		return readClearsignPath(path, data)
	case "pgp-inline":
		return readInlinePath(path, data)
	case "pgp-detached":
		// a detached signature carries no payload (the content file is checked by
		// the caller); it must be a well-formed sequence of signature packets
		raw, err := dearmor(data)
		if err != nil {
			return nil, err
		}
		pkts, err := parsePackets(raw)
		if err != nil {
			return nil, err
		}
		p := &Payload{Type: typ}
		for _, k := range pkts {
			if k.Tag != 2 {
				return nil, fmt.Errorf("pgp: packet tag %d in a detached signature", k.Tag)
			}
			p.SigItems = append(p.SigItems, "signature-packet")
		}
		if len(pkts) == 0 {
			return nil, fmt.Errorf("pgp: empty detached signature")
		}
		p.add("signature-blob", "", nil)
		return p, nil
	}
	return nil, fmt.Errorf("payload: unknown type %q", typ)
}

// Package catgen generates Windows security catalogs (.cat): a PKCS#7
// SignedData whose content is a certificate trust list (OID
// 1.3.6.1.4.1.311.10.1) of catalog members, laid out as makecat.exe writes it
// (version 1, optionally empty digestAlgorithms / signerInfos = an unsigned
// catalog). Written from the CTL definition in wincrypt.h / [MS-CAT usage as
// documented for CryptCATAdmin]; DER encoding through verif/gen/dergen's
// primitive encoders. It does not import relic.
package catgen

import (
	"encoding/asn1"
	"fmt"
	"time"
	"unicode/utf16"

	"verif/gen/dergen"
	"verif/gen/shape"
)

type Spec struct {
	Members int  // catalog members
	V2      bool // SHA-256 member hashes / CatalogListMemberV2 (catalog version 2) instead of SHA-1 (version 1)
	Attrs   bool // catalog-level name/value attributes ([0] extensions of the CTL)
	// DigestAlgs: the SignedData.digestAlgorithms set lists sha1 although there
	// is no signer (makecat does that); false = empty set.
	DigestAlgs bool
}

func (s Spec) Name() string {
	v := "v1-sha1"
	if s.V2 {
		v = "v2-sha256"
	}
	n := fmt.Sprintf("cat/%s/members=%d", v, s.Members)
	if s.Attrs {
		n += "/attrs"
	}
	if s.DigestAlgs {
		n += "/digestalgs"
	}
	return n
}

func bmp(s string, nulTerminated bool) []byte {
	u := utf16.Encode([]rune(s))
	if nulTerminated {
		u = append(u, 0)
	}
	out := make([]byte, 2*len(u))
	for i, c := range u {
		out[2*i] = byte(c >> 8)
		out[2*i+1] = byte(c)
	}
	return out
}

func utf16le(s string) []byte {
	u := utf16.Encode([]rune(s + "\x00"))
	out := make([]byte, 2*len(u))
	for i, c := range u {
		out[2*i] = byte(c)
		out[2*i+1] = byte(c >> 8)
	}
	return out
}

var (
	oidSignedData  = dergen.OID(1, 2, 840, 113549, 1, 7, 2)
	oidCTL         = dergen.OID(1, 3, 6, 1, 4, 1, 311, 10, 1)
	oidCatalogList = dergen.OID(1, 3, 6, 1, 4, 1, 311, 12, 1, 1)
	oidMember      = dergen.OID(1, 3, 6, 1, 4, 1, 311, 12, 1, 2)
	oidMemberV2    = dergen.OID(1, 3, 6, 1, 4, 1, 311, 12, 1, 3)
	oidNameValue   = dergen.OID(1, 3, 6, 1, 4, 1, 311, 12, 2, 1)
	oidMemberInfo  = dergen.OID(1, 3, 6, 1, 4, 1, 311, 12, 2, 2)
	oidIndirect    = dergen.OID(1, 3, 6, 1, 4, 1, 311, 2, 1, 4)
	oidPeImageData = dergen.OID(1, 3, 6, 1, 4, 1, 311, 2, 1, 15)
	oidSha1        = dergen.OID(1, 3, 14, 3, 2, 26)
	oidSha256      = dergen.OID(2, 16, 840, 1, 101, 3, 4, 2, 1)
)

func algID(oid []byte) []byte { return dergen.Seq(oid, dergen.Null()) }

func memberHash(i, n int) []byte {
	b := make([]byte, n)
	for j := range b {
		b[j] = byte(17*i + 3*j + 1)
	}
	return b
}

func Build(s Spec) []byte {
	hashLen, hashOID, memberOID := 20, oidSha1, oidMember
	if s.V2 {
		hashLen, hashOID, memberOID = 32, oidSha256, oidMemberV2
	}
	var entries [][]byte
	for i := 0; i < s.Members; i++ {
		h := memberHash(i, hashLen)
		tag := utf16le(fmt.Sprintf("%X", h))
		if s.V2 {
			tag = h
		}
		// SpcIndirectDataContent { SpcAttributeTypeAndOptionalValue{ SpcPeImageData, {flags, [0]{[2]{[0] BMP ""}}} }, DigestInfo }
		peData := dergen.Seq(dergen.TLV(0x03, []byte{0x00}), dergen.Ctx(0, true, dergen.Ctx(2, true, dergen.Ctx(0, false))))
		indirect := dergen.Seq(dergen.Seq(oidPeImageData, peData), dergen.Seq(algID(hashOID), dergen.Octets(h)))
		memberInfo := dergen.Seq(dergen.TLV(0x1e, bmp("{C689AAB8-8E78-11D0-8C47-00C04FC295EE}", false)), dergen.Int(0x200))
		attrs := [][]byte{
			dergen.Seq(oidMemberInfo, dergen.SetAsGiven(memberInfo)),
			dergen.Seq(oidIndirect, dergen.SetAsGiven(indirect)),
		}
		nv := dergen.Seq(dergen.TLV(0x1e, bmp("File", false)), dergen.Int(0x10010001), dergen.Octets(utf16le(fmt.Sprintf("file%d.sys", i))))
		attrs = append(attrs, dergen.Seq(oidNameValue, dergen.SetAsGiven(nv)))
		entries = append(entries, dergen.Seq(dergen.Octets(tag), dergen.SetAsGiven(dergen.SortDER(attrs)...)))
	}
	ctlFields := [][]byte{
		dergen.Seq(oidCatalogList),
		dergen.Octets(memberHash(99, 16)),
		dergen.UTCTime(time.Date(2021, 1, 1, 12, 0, 0, 0, time.UTC)),
		algID(memberOID),
		dergen.Seq(entries...),
	}
	if s.Attrs {
		ext := func(name, val string) []byte {
			nv := dergen.Seq(dergen.TLV(0x1e, bmp(name, false)), dergen.Int(0x10010001), dergen.Octets(utf16le(val)))
			return dergen.Seq(oidNameValue, dergen.Octets(nv))
		}
		ctlFields = append(ctlFields, dergen.Ctx(0, true, dergen.Seq(ext("OS", "XPX86,XPX64"), ext("HWID1", "pci\\ven_1234"))))
	}
	ctl := dergen.Seq(ctlFields...)
	var digestAlgs []byte
	if s.DigestAlgs {
		digestAlgs = dergen.SetAsGiven(algID(oidSha1))
	} else {
		digestAlgs = dergen.SetAsGiven()
	}
	sd := dergen.Seq(
		dergen.Int(1),
		digestAlgs,
		dergen.Seq(oidCTL, dergen.Ctx(0, true, ctl)),
		dergen.SetAsGiven(), // signerInfos: none
	)
	return dergen.Seq(oidSignedData, dergen.Ctx(0, true, sd))
}

// Check walks the structure with encoding/asn1.
func Check(b []byte) error {
	var ci struct {
		Type    asn1.ObjectIdentifier
		Content asn1.RawValue `asn1:"explicit,tag:0"`
	}
	rest, err := asn1.Unmarshal(b, &ci)
	if err != nil {
		return fmt.Errorf("ContentInfo: %w", err)
	}
	if len(rest) != 0 {
		return fmt.Errorf("%d trailing bytes", len(rest))
	}
	if !ci.Type.Equal(asn1.ObjectIdentifier{1, 2, 840, 113549, 1, 7, 2}) {
		return fmt.Errorf("not signedData")
	}
	var sd struct {
		Version    int
		DigestAlgs asn1.RawValue
		Content    struct {
			Type    asn1.ObjectIdentifier
			Content asn1.RawValue `asn1:"explicit,tag:0"`
		}
		Rest []asn1.RawValue `asn1:"optional"`
	}
	// SignedData has optional [0]/[1] members; decode the fixed prefix by hand
	var seq asn1.RawValue
	if _, err := asn1.Unmarshal(ci.Content.Bytes, &seq); err != nil {
		return fmt.Errorf("SignedData: %w", err)
	}
	body := seq.Bytes
	var ver int
	if body, err = asn1.Unmarshal(body, &ver); err != nil {
		return fmt.Errorf("version: %w", err)
	}
	if body, err = asn1.Unmarshal(body, &sd.DigestAlgs); err != nil {
		return fmt.Errorf("digestAlgorithms: %w", err)
	}
	if body, err = asn1.Unmarshal(body, &sd.Content); err != nil {
		return fmt.Errorf("contentInfo: %w", err)
	}
	if !sd.Content.Type.Equal(asn1.ObjectIdentifier{1, 3, 6, 1, 4, 1, 311, 10, 1}) {
		return fmt.Errorf("content is not a certificate trust list")
	}
	var ctl struct {
		Usage  []asn1.ObjectIdentifier
		ListID []byte
		Date   time.Time
		Alg    struct {
			OID  asn1.ObjectIdentifier
			Null asn1.RawValue `asn1:"optional"`
		}
		Entries []struct {
			Tag   []byte
			Attrs []asn1.RawValue `asn1:"set"`
		}
		Ext asn1.RawValue `asn1:"optional,explicit,tag:0"`
	}
	if rest, err := asn1.Unmarshal(sd.Content.Content.Bytes, &ctl); err != nil {
		return fmt.Errorf("CTL: %w", err)
	} else if len(rest) != 0 {
		return fmt.Errorf("CTL trailing bytes")
	}
	// remaining: [0] certs?, [1] crls?, signerInfos SET
	for len(body) > 0 {
		var rv asn1.RawValue
		if body, err = asn1.Unmarshal(body, &rv); err != nil {
			return fmt.Errorf("SignedData tail: %w", err)
		}
	}
	return nil
}

func mk(s Spec, class string) shape.Shape {
	return shape.Shape{Name: s.Name(), Class: class, File: "c.cat", Strict: true, Source: "generated",
		Build: func() ([]byte, error) { return Build(s), nil }, Check: Check}
}

// Shapes: canonical (unsigned v1 catalog with two members) first.
// quick: 0/1/2/3 members, v1 and v2, with catalog attributes, with a declared
// digest algorithm, 400 members (~100 KiB) and 4500 members (> 1 MiB).
// thorough: members {0,1,2,3,7,60,61,62,400,4500} x version x attrs x digestalgs
// (61 +-1 members straddle a 16 KiB content; the member count changes DER
// length-of-length at 128/256/65536-byte boundaries).
func Shapes(thorough bool) []shape.Shape {
	out := []shape.Shape{
		mk(Spec{Members: 2}, "canonical"),
		mk(Spec{Members: 0}, "members-0"),
		mk(Spec{Members: 1}, "members-1"),
		mk(Spec{Members: 3, Attrs: true}, "members-3-catalog-attributes"),
		mk(Spec{Members: 2, V2: true}, "v2-sha256-members"),
		mk(Spec{Members: 2, DigestAlgs: true}, "declares-digest-algorithm"),
		mk(Spec{Members: 400}, "size-100KiB"),
		mk(Spec{Members: 4500, V2: true}, "size-1MiB"),
	}
	if !thorough {
		return out
	}
	seen := map[string]bool{}
	for _, s := range out {
		seen[s.Name] = true
	}
	for _, n := range []int{0, 1, 2, 3, 7, 60, 61, 62, 400, 4500} {
		for _, v2 := range []bool{false, true} {
			for _, at := range []bool{false, true} {
				for _, da := range []bool{false, true} {
					s := Spec{Members: n, V2: v2, Attrs: at, DigestAlgs: da}
					if !seen[s.Name()] {
						seen[s.Name()] = true
						out = append(out, mk(s, fmt.Sprintf("grid-members-%d", n)))
					}
				}
			}
		}
	}
	return out
}

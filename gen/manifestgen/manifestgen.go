// Package manifestgen generates ClickOnce application (.manifest) and
// deployment (.application) manifests following the documented schema
// (urn:schemas-microsoft-com:asm.v1 / asm.v2: assembly, assemblyIdentity,
// description, deployment, dependency/dependentAssembly, file with hash). It
// does not import relic; Check parses the bytes with encoding/xml.
package manifestgen

import (
	"bytes"
	"encoding/xml"
	"fmt"
	"strings"

	"verif/gen/shape"
)

type Spec struct {
	Kind    string // "application" | "deployment"
	Prefix  string // "asmv1" (root written as asmv1:assembly, like mage.exe) | "default" (xmlns="urn:...asm.v1" on the root)
	Deps    int    // number of dependency/file entries
	BOM     bool
	Decl    bool   // <?xml version="1.0" encoding="utf-8"?>
	EOL     string // "\r\n" | "\n"
	Token   bool   // assemblyIdentity already carries a publicKeyToken attribute
	Comment bool   // a comment and a processing-free text-only element with entity references
}

func (s Spec) Name() string {
	eol := "crlf"
	if s.EOL == "\n" {
		eol = "lf"
	}
	n := fmt.Sprintf("manifest/%s/prefix=%s/deps=%d/%s", s.Kind, s.Prefix, s.Deps, eol)
	for _, f := range []struct {
		on bool
		n  string
	}{{s.BOM, "bom"}, {s.Decl, "xmldecl"}, {s.Token, "token"}, {s.Comment, "comment-entities"}} {
		if f.on {
			n += "/" + f.n
		}
	}
	return n
}

func Build(s Spec) []byte {
	var b strings.Builder
	if s.Decl {
		b.WriteString(`<?xml version="1.0" encoding="utf-8"?>` + "\n")
	}
	root, idTag := "asmv1:assembly", "asmv1:assemblyIdentity"
	ns := `xmlns:asmv1="urn:schemas-microsoft-com:asm.v1" xmlns="urn:schemas-microsoft-com:asm.v2" xmlns:asmv2="urn:schemas-microsoft-com:asm.v2" xmlns:dsig="http://www.w3.org/2000/09/xmldsig#"`
	if s.Prefix == "default" {
		root, idTag = "assembly", "assemblyIdentity"
		ns = `xmlns="urn:schemas-microsoft-com:asm.v1" xmlns:asmv2="urn:schemas-microsoft-com:asm.v2" xmlns:dsig="http://www.w3.org/2000/09/xmldsig#"`
	}
	fmt.Fprintf(&b, `<%s manifestVersion="1.0" %s>`+"\n", root, ns)
	name := "App.exe"
	if s.Kind == "deployment" {
		name = "App.application"
	}
	tok := ""
	if s.Token {
		tok = ` publicKeyToken="0000000000000000"`
	}
	fmt.Fprintf(&b, `  <%s name="%s" version="1.0.0.0"%s language="neutral" processorArchitecture="msil" type="win32" />`+"\n", idTag, name, tok)
	v2 := ""
	if s.Prefix == "default" {
		v2 = "asmv2:"
	}
	if s.Comment {
		b.WriteString("  <!-- generated manifest -->\n")
		fmt.Fprintf(&b, `  <%sdescription %spublisher="A &amp; B &lt;Co&gt;" %sproduct="App &quot;1&quot;" xmlns="urn:schemas-microsoft-com:asm.v1" />`+"\n", "", v2, v2)
	}
	if s.Kind == "deployment" {
		fmt.Fprintf(&b, `  <%sdeployment install="true" mapFileExtensions="true" />`+"\n", v2)
	} else {
		fmt.Fprintf(&b, `  <%sapplication />`+"\n", v2)
	}
	for i := 0; i < s.Deps; i++ {
		if i%2 == 0 {
			fmt.Fprintf(&b, `  <%sdependency>`+"\n", v2)
			fmt.Fprintf(&b, `    <%sdependentAssembly dependencyType="install" allowDelayedBinding="true" codebase="Lib%d.dll" size="%d">`+"\n", v2, i, 1000+i)
			fmt.Fprintf(&b, `      <%sassemblyIdentity name="Lib%d" version="1.0.0.%d" language="neutral" processorArchitecture="msil" />`+"\n", v2, i, i)
			fmt.Fprintf(&b, `      <%shash><dsig:Transforms><dsig:Transform Algorithm="urn:schemas-microsoft-com:HashTransforms.Identity" /></dsig:Transforms><dsig:DigestMethod Algorithm="http://www.w3.org/2000/09/xmldsig#sha256" /><dsig:DigestValue>%s</dsig:DigestValue></%shash>`+"\n", v2, fakeDigest(i), v2)
			fmt.Fprintf(&b, `    </%sdependentAssembly>`+"\n", v2)
			fmt.Fprintf(&b, `  </%sdependency>`+"\n", v2)
		} else {
			fmt.Fprintf(&b, `  <%sfile name="data%d.xml" size="%d">`+"\n", v2, i, 10+i)
			fmt.Fprintf(&b, `    <%shash><dsig:Transforms><dsig:Transform Algorithm="urn:schemas-microsoft-com:HashTransforms.Identity" /></dsig:Transforms><dsig:DigestMethod Algorithm="http://www.w3.org/2000/09/xmldsig#sha256" /><dsig:DigestValue>%s</dsig:DigestValue></%shash>`+"\n", v2, fakeDigest(i), v2)
			fmt.Fprintf(&b, `  </%sfile>`+"\n", v2)
		}
	}
	fmt.Fprintf(&b, `</%s>`, root)
	out := b.String()
	if s.EOL != "\n" {
		out = strings.ReplaceAll(out, "\n", s.EOL)
	}
	if s.BOM {
		return append([]byte{0xEF, 0xBB, 0xBF}, out...)
	}
	return []byte(out)
}

func fakeDigest(i int) string {
	const a = "ABCDEFGHIJKLMNOPQRSTUVWXYZabcdefghijklmnopqrstuvwxyz0123456789+/"
	var sb strings.Builder
	for j := 0; j < 43; j++ {
		sb.WriteByte(a[(i*7+j*5)%64])
	}
	return sb.String() + "="
}

func Check(b []byte) error {
	b = bytes.TrimPrefix(b, []byte{0xEF, 0xBB, 0xBF})
	dec := xml.NewDecoder(bytes.NewReader(b))
	depth, sawRoot, sawID := 0, false, false
	for {
		tok, err := dec.Token()
		if err != nil {
			if err.Error() == "EOF" {
				break
			}
			return err
		}
		switch t := tok.(type) {
		case xml.StartElement:
			if depth == 0 {
				if t.Name.Local != "assembly" || t.Name.Space != "urn:schemas-microsoft-com:asm.v1" {
					return fmt.Errorf("root is {%s}%s", t.Name.Space, t.Name.Local)
				}
				sawRoot = true
			}
			if depth == 1 && t.Name.Local == "assemblyIdentity" && t.Name.Space == "urn:schemas-microsoft-com:asm.v1" {
				sawID = true
			}
			depth++
		case xml.EndElement:
			depth--
		}
	}
	if !sawRoot || !sawID || depth != 0 {
		return fmt.Errorf("no asm.v1 assembly/assemblyIdentity")
	}
	return nil
}

func mk(s Spec, class string) shape.Shape {
	file := "App.exe.manifest"
	if s.Kind == "deployment" {
		file = "App.application"
	}
	return shape.Shape{Name: s.Name(), Class: class, File: file, Strict: true, Source: "generated",
		Build: func() ([]byte, error) { return Build(s), nil }, Check: Check}
}

func Canonical() Spec {
	return Spec{Kind: "application", Prefix: "asmv1", Deps: 2, BOM: true, Decl: true, EOL: "\r\n"}
}

// Shapes: canonical first (what mage.exe writes: BOM, XML declaration, CRLF,
// asmv1: prefix). quick: deployment manifest, default-namespace root, 0/1/3
// entries, no BOM, no declaration, LF, existing publicKeyToken, comment and
// entity references, 250 entries (~64 KiB), 3000 entries (~1 MiB).
// thorough: kind x prefix x deps{0,1,2,3} x BOM x decl x EOL x token.
func Shapes(thorough bool) []shape.Shape {
	var out []shape.Shape
	out = append(out, mk(Canonical(), "canonical"))
	with := func(f func(*Spec)) Spec { s := Canonical(); f(&s); return s }
	out = append(out,
		mk(with(func(s *Spec) { s.Kind = "deployment" }), "deployment-manifest"),
		mk(with(func(s *Spec) { s.Prefix = "default" }), "default-namespace-root"),
		mk(with(func(s *Spec) { s.Deps = 0 }), "entries-0"),
		mk(with(func(s *Spec) { s.Deps = 1 }), "entries-1"),
		mk(with(func(s *Spec) { s.Deps = 3 }), "entries-3"),
		mk(with(func(s *Spec) { s.BOM = false }), "no-bom"),
		mk(with(func(s *Spec) { s.Decl = false; s.BOM = false }), "no-xml-declaration"),
		mk(with(func(s *Spec) { s.EOL = "\n" }), "lf-line-ends"),
		mk(with(func(s *Spec) { s.Token = true }), "existing-publickeytoken"),
		mk(with(func(s *Spec) { s.Comment = true }), "comment-and-entities"),
		mk(with(func(s *Spec) { s.Deps = 250 }), "size-64KiB"),
		mk(with(func(s *Spec) { s.Deps = 3000 }), "size-1MiB"),
	)
	if !thorough {
		return out
	}
	seen := map[string]bool{}
	for _, s := range out {
		seen[s.Name] = true
	}
	for _, kind := range []string{"application", "deployment"} {
		for _, pfx := range []string{"asmv1", "default"} {
			for _, deps := range []int{0, 1, 2, 3} {
				for _, bom := range []bool{true, false} {
					for _, decl := range []bool{true, false} {
						for _, eol := range []string{"\r\n", "\n"} {
							for _, tok := range []bool{false, true} {
								s := Spec{Kind: kind, Prefix: pfx, Deps: deps, BOM: bom, Decl: decl, EOL: eol, Token: tok}
								if !seen[s.Name()] {
									seen[s.Name()] = true
									out = append(out, mk(s, "grid-"+kind+"-"+pfx))
								}
							}
						}
					}
				}
			}
		}
	}
	return out
}

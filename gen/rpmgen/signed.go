package rpmgen

import (
	"bytes"
	"fmt"
)

// Third-party-signed packages (new file; nothing else in the package changes).
//
// rpmsign / `rpmbuild --sign` put an OpenPGP signature over the header
// structure into RSAHEADER (268) and one over header + payload into PGP (1002)
// of the signature header; whether the signature header also carries a
// RESERVEDSPACE tag (1008), and of what size, depends on the rpm version that
// built the package (none before 4.13.1; shrunk by the size of the
// signatures when rpmsign uses it up).

// SignedParts returns the two byte ranges an rpm v4 signature covers: the
// header structure, and header structure + payload.
func SignedParts(pkg []byte) (header, headerAndPayload []byte, err error) {
	f, err := Parse(pkg)
	if err != nil {
		return nil, nil, err
	}
	off := 96 + len(f.Sig.Raw) + f.Sig.Pad
	return pkg[off : off+len(f.Main.Raw)], pkg[off:], nil
}

// WithSignatures rewrites the signature header of pkg: the digest and size
// entries stay, any RSAHEADER / PGP / RESERVEDSPACE entry is dropped, and the
// given signatures (raw OpenPGP signature packets; nil = none) and a
// RESERVEDSPACE entry of `reserved` bytes (<= 0: none) are added. Lead, header
// and payload are copied unchanged. The result is laid out as Build lays a
// package out (region first, entries sorted by tag, 8-byte alignment).
func WithSignatures(pkg, rsaHeaderSig, pgpSig []byte, reserved int) ([]byte, error) {
	f, err := Parse(pkg)
	if err != nil {
		return nil, err
	}
	var ents []ent
	for _, e := range f.Sig.Entries {
		switch e.Tag {
		case SigRegion, SigRSA, SigPGP, SigDSA, SigGPG, SigReservedSpace:
			continue
		}
		ents = append(ents, ent{e.Tag, e.Type, e.Count, append([]byte(nil), e.Data...)})
	}
	if rsaHeaderSig != nil {
		ents = append(ents, eBin(SigRSA, rsaHeaderSig))
	}
	if pgpSig != nil {
		ents = append(ents, eBin(SigPGP, pgpSig))
	}
	if reserved > 0 {
		ents = append(ents, eBin(SigReservedSpace, make([]byte, reserved)))
	}
	sh := buildHeader(SigRegion, ents)
	var out bytes.Buffer
	out.Write(f.Lead)
	out.Write(sh)
	for out.Len()%8 != 0 {
		out.WriteByte(0)
	}
	off := 96 + len(f.Sig.Raw) + f.Sig.Pad
	out.Write(pkg[off:])
	if err := Check(out.Bytes()); err != nil {
		return nil, fmt.Errorf("rpmgen.WithSignatures: own reader rejects the result: %w", err)
	}
	return out.Bytes(), nil
}

// SigHeaderSize returns the number of bytes lead + signature header +
// alignment padding occupy, i.e. the offset of the header structure.
func SigHeaderSize(pkg []byte) (int, error) {
	f, err := Parse(pkg)
	if err != nil {
		return 0, err
	}
	return 96 + len(f.Sig.Raw) + f.Sig.Pad, nil
}

package rpmgen

import (
	"bytes"
	"compress/gzip"
	"crypto/md5"
	"crypto/sha1"
	"crypto/sha256"
	"encoding/binary"
	"encoding/hex"
	"fmt"
	"io"
	"strconv"
)

// Header data types.
const (
	TNull        = 0
	TChar        = 1
	TInt8        = 2
	TInt16       = 3
	TInt32       = 4
	TInt64       = 5
	TString      = 6
	TBin         = 7
	TStringArray = 8
	TI18NString  = 9
)

// Signature header tags.
const (
	SigRegion        = 62
	SigDSA           = 267
	SigRSA           = 268
	SigSHA1          = 269
	SigLongSize      = 270
	SigLongArchSize  = 271
	SigSHA256        = 273
	SigSize          = 1000
	SigPGP           = 1002
	SigMD5           = 1004
	SigGPG           = 1005
	SigPayloadSize   = 1007
	SigReservedSpace = 1008
)

// Main header tags.
const (
	TagRegion            = 63
	TagI18NTable         = 100
	TagName              = 1000
	TagVersion           = 1001
	TagRelease           = 1002
	TagEpoch             = 1003
	TagSummary           = 1004
	TagDescription       = 1005
	TagBuildTime         = 1006
	TagBuildHost         = 1007
	TagSize              = 1009
	TagLicense           = 1014
	TagGroup             = 1016
	TagOS                = 1021
	TagArch              = 1022
	TagFileSizes         = 1028
	TagFileModes         = 1030
	TagFileRdevs         = 1033
	TagFileMtimes        = 1034
	TagFileDigests       = 1035
	TagFileLinktos       = 1036
	TagFileFlags         = 1037
	TagFileUserName      = 1039
	TagFileGroupName     = 1040
	TagSourceRPM         = 1044
	TagFileVerifyFlags   = 1045
	TagProvideName       = 1047
	TagRequireFlags      = 1048
	TagRequireName       = 1049
	TagRequireVersion    = 1050
	TagRPMVersion        = 1064
	TagFileDevices       = 1095
	TagFileInodes        = 1096
	TagFileLangs         = 1097
	TagSourcePackage     = 1106
	TagProvideFlags      = 1112
	TagProvideVersion    = 1113
	TagDirIndexes        = 1116
	TagBaseNames         = 1117
	TagDirNames          = 1118
	TagPayloadFormat     = 1124
	TagPayloadCompressor = 1125
	TagPayloadFlags      = 1126
	TagPlatform          = 1132
	TagFileDigestAlgo    = 5011
	TagEncoding          = 5062
	TagPayloadDigest     = 5092
	TagPayloadDigestAlgo = 5093
)

// Entry is one index entry of a header structure together with its data.
type Entry struct {
	Tag, Type uint32
	Offset    int32
	Count     uint32
	Data      []byte // the bytes the entry covers in the data store
}

// Strings splits string-typed data.
func (e Entry) Strings() []string {
	var out []string
	for _, s := range bytes.Split(e.Data, []byte{0}) {
		out = append(out, string(s))
	}
	if len(out) > 0 {
		out = out[:len(out)-1]
	}
	return out
}

// Ints returns integer-typed data widened to uint64.
func (e Entry) Ints() []uint64 {
	var out []uint64
	w := map[uint32]int{TChar: 1, TInt8: 1, TInt16: 2, TInt32: 4, TInt64: 8}[e.Type]
	for i := 0; w > 0 && i+w <= len(e.Data); i += w {
		var v uint64
		for _, c := range e.Data[i : i+w] {
			v = v<<8 | uint64(c)
		}
		out = append(out, v)
	}
	return out
}

// Header is a parsed header structure.
type Header struct {
	Raw     []byte // intro + index + store (without the signature header's alignment padding)
	Pad     int    // padding bytes after Raw (signature header only)
	Entries []Entry
	DL      int // data store size as declared
}

// Get returns the entry with the given tag.
func (h *Header) Get(tag uint32) (Entry, bool) {
	for _, e := range h.Entries {
		if e.Tag == tag {
			return e, true
		}
	}
	return Entry{}, false
}

func (h *Header) str(tag uint32) string {
	e, ok := h.Get(tag)
	if !ok || (e.Type != TString && e.Type != TI18NString && e.Type != TStringArray) {
		return ""
	}
	s := e.Strings()
	if len(s) == 0 {
		return ""
	}
	return s[0]
}

// CpioFile is one member of the payload archive.
type CpioFile struct {
	Name          string
	Ino, Mode     uint64
	Size          int64
	SHA256        [32]byte
	Nlink, Mtime  uint64
	HeaderOffset  int64
	UID, GID, Dev uint64
}

// File is a parsed package file.
type File struct {
	Lead       []byte
	LeadType   uint16
	LeadName   string
	Sig        *Header
	Main       *Header
	Payload    []byte // compressed, as stored
	Compressor string
	Archive    []byte     // uncompressed cpio archive, nil if the compressor is not in the stdlib
	Files      []CpioFile // nil if Archive is nil
}

var typeSize = map[uint32]int{TNull: 0, TChar: 1, TInt8: 1, TInt16: 2, TInt32: 4, TInt64: 8, TBin: 1}

// parseHeader reads one header structure at the start of b: the 16-byte intro
// (magic 8e ad e8, version 01, 4 reserved bytes, index count, store size),
// the 16-byte index entries and the data store.
func parseHeader(b []byte, regionTag uint32, what string) (*Header, error) {
	if len(b) < 16 {
		return nil, fmt.Errorf("%s: truncated intro", what)
	}
	if !bytes.Equal(b[:4], []byte{0x8e, 0xad, 0xe8, 0x01}) {
		return nil, fmt.Errorf("%s: bad magic % x", what, b[:4])
	}
	if !bytes.Equal(b[4:8], []byte{0, 0, 0, 0}) {
		return nil, fmt.Errorf("%s: reserved bytes not zero", what)
	}
	il := int(binary.BigEndian.Uint32(b[8:12]))
	dl := int(binary.BigEndian.Uint32(b[12:16]))
	if il < 1 || il > 0xffff || dl < 0 || dl > 256<<20 {
		return nil, fmt.Errorf("%s: implausible index count %d / store size %d", what, il, dl)
	}
	total := 16 + 16*il + dl
	if len(b) < total {
		return nil, fmt.Errorf("%s: truncated (need %d bytes, have %d)", what, total, len(b))
	}
	h := &Header{Raw: b[:total], DL: dl}
	store := b[16+16*il : total]
	seen := map[uint32]bool{}
	for i := 0; i < il; i++ {
		x := b[16+16*i:]
		e := Entry{
			Tag:    binary.BigEndian.Uint32(x[0:4]),
			Type:   binary.BigEndian.Uint32(x[4:8]),
			Offset: int32(binary.BigEndian.Uint32(x[8:12])),
			Count:  binary.BigEndian.Uint32(x[12:16]),
		}
		if seen[e.Tag] {
			return nil, fmt.Errorf("%s: duplicate tag %d", what, e.Tag)
		}
		seen[e.Tag] = true
		if e.Type > TI18NString {
			return nil, fmt.Errorf("%s: tag %d has unknown type %d", what, e.Tag, e.Type)
		}
		if e.Offset < 0 || int(e.Offset) > dl {
			return nil, fmt.Errorf("%s: tag %d offset %d outside the store", what, e.Tag, e.Offset)
		}
		if e.Count == 0 {
			return nil, fmt.Errorf("%s: tag %d has count 0", what, e.Tag)
		}
		var end int
		if sz, ok := typeSize[e.Type]; ok {
			if sz > 1 && int(e.Offset)%sz != 0 {
				return nil, fmt.Errorf("%s: tag %d (type %d) misaligned at offset %d", what, e.Tag, e.Type, e.Offset)
			}
			end = int(e.Offset) + sz*int(e.Count)
			if end > dl {
				return nil, fmt.Errorf("%s: tag %d data runs past the store", what, e.Tag)
			}
		} else {
			if e.Type == TString && e.Count != 1 {
				return nil, fmt.Errorf("%s: STRING tag %d has count %d", what, e.Tag, e.Count)
			}
			end = int(e.Offset)
			for k := 0; k < int(e.Count); k++ {
				n := bytes.IndexByte(store[end:], 0)
				if n < 0 {
					return nil, fmt.Errorf("%s: tag %d string not terminated", what, e.Tag)
				}
				end += n + 1
			}
		}
		e.Data = store[e.Offset:end]
		h.Entries = append(h.Entries, e)
	}
	// region: the first index entry; its data is a 16-byte trailer shaped like
	// an index entry whose offset is minus the size of the covered index.
	first := h.Entries[0]
	if first.Tag == SigRegion || first.Tag == TagRegion {
		if first.Tag != regionTag {
			return nil, fmt.Errorf("%s: region tag %d, want %d", what, first.Tag, regionTag)
		}
		if first.Type != TBin || first.Count != 16 {
			return nil, fmt.Errorf("%s: region tag has type %d count %d", what, first.Type, first.Count)
		}
		tr := first.Data
		ttag := binary.BigEndian.Uint32(tr[0:4])
		ttype := binary.BigEndian.Uint32(tr[4:8])
		toff := int32(binary.BigEndian.Uint32(tr[8:12]))
		tcount := binary.BigEndian.Uint32(tr[12:16])
		if ttag != regionTag || ttype != TBin || tcount != 16 {
			return nil, fmt.Errorf("%s: bad region trailer % x", what, tr)
		}
		if toff >= 0 || int(-toff)%16 != 0 || int(-toff)/16 > il {
			return nil, fmt.Errorf("%s: region trailer offset %d does not describe the index (%d entries)", what, toff, il)
		}
	}
	for i, e := range h.Entries {
		if i > 0 && e.Tag < 64 {
			return nil, fmt.Errorf("%s: region tag %d is not the first index entry", what, e.Tag)
		}
	}
	// entries must not overlap
	used := make([]bool, dl)
	for _, e := range h.Entries {
		for k := int(e.Offset); k < int(e.Offset)+len(e.Data); k++ {
			if used[k] {
				return nil, fmt.Errorf("%s: tag %d overlaps another entry at store offset %d", what, e.Tag, k)
			}
			used[k] = true
		}
	}
	return h, nil
}

// Parse reads an RPM v3/v4 package file with a reader written from the
// format description and checks every digest and size the file carries.
func Parse(b []byte) (*File, error) {
	if len(b) < 96 {
		return nil, fmt.Errorf("lead: truncated")
	}
	f := &File{Lead: b[:96]}
	if !bytes.Equal(b[:4], []byte{0xed, 0xab, 0xee, 0xdb}) {
		return nil, fmt.Errorf("lead: bad magic")
	}
	if b[4] != 3 {
		return nil, fmt.Errorf("lead: major version %d", b[4])
	}
	f.LeadType = binary.BigEndian.Uint16(b[6:8])
	if f.LeadType > 1 {
		return nil, fmt.Errorf("lead: type %d", f.LeadType)
	}
	name := b[10:76]
	n := bytes.IndexByte(name, 0)
	if n < 0 {
		return nil, fmt.Errorf("lead: name not terminated")
	}
	f.LeadName = string(name[:n])
	if st := binary.BigEndian.Uint16(b[78:80]); st != 5 {
		return nil, fmt.Errorf("lead: signature type %d, want 5 (header-style)", st)
	}
	var err error
	f.Sig, err = parseHeader(b[96:], SigRegion, "signature header")
	if err != nil {
		return nil, err
	}
	off := 96 + len(f.Sig.Raw)
	f.Sig.Pad = (8 - len(f.Sig.Raw)%8) % 8
	if len(b) < off+f.Sig.Pad {
		return nil, fmt.Errorf("signature header: padding truncated")
	}
	for _, c := range b[off : off+f.Sig.Pad] {
		if c != 0 {
			return nil, fmt.Errorf("signature header: non-zero padding")
		}
	}
	off += f.Sig.Pad
	f.Main, err = parseHeader(b[off:], TagRegion, "header")
	if err != nil {
		return nil, err
	}
	mainRaw := f.Main.Raw
	off += len(mainRaw)
	f.Payload = b[off:]

	// digests and sizes in the signature header
	if e, ok := f.Sig.Get(SigSHA1); ok {
		d := sha1.Sum(mainRaw)
		if e.Type != TString || e.Strings()[0] != hex.EncodeToString(d[:]) {
			return nil, fmt.Errorf("signature header: SHA1 of the header does not match")
		}
	}
	if e, ok := f.Sig.Get(SigSHA256); ok {
		d := sha256.Sum256(mainRaw)
		if e.Type != TString || e.Strings()[0] != hex.EncodeToString(d[:]) {
			return nil, fmt.Errorf("signature header: SHA256 of the header does not match")
		}
	}
	if e, ok := f.Sig.Get(SigMD5); ok {
		m := md5.New()
		m.Write(mainRaw)
		m.Write(f.Payload)
		if e.Type != TBin || !bytes.Equal(e.Data, m.Sum(nil)) {
			return nil, fmt.Errorf("signature header: MD5 of header+payload does not match")
		}
	}
	sizeOK := false
	if e, ok := f.Sig.Get(SigSize); ok {
		sizeOK = true
		if e.Type != TInt32 || e.Count != 1 || e.Ints()[0] != uint64(len(mainRaw)+len(f.Payload)) {
			return nil, fmt.Errorf("signature header: SIZE %v, header+payload is %d", e.Ints(), len(mainRaw)+len(f.Payload))
		}
	}
	if e, ok := f.Sig.Get(SigLongSize); ok {
		sizeOK = true
		if e.Type != TInt64 || e.Count != 1 || e.Ints()[0] != uint64(len(mainRaw)+len(f.Payload)) {
			return nil, fmt.Errorf("signature header: LONGSIZE mismatch")
		}
	}
	if !sizeOK {
		return nil, fmt.Errorf("signature header: no SIZE tag")
	}
	for _, t := range []uint32{SigRSA, SigDSA, SigPGP, SigGPG, SigReservedSpace} {
		if e, ok := f.Sig.Get(t); ok && e.Type != TBin {
			return nil, fmt.Errorf("signature header: tag %d is not BIN", t)
		}
	}

	// mandatory header tags
	for _, t := range []uint32{TagName, TagVersion, TagRelease, TagOS, TagArch, TagLicense, TagPayloadFormat} {
		e, ok := f.Main.Get(t)
		if !ok || e.Type != TString || e.Strings()[0] == "" {
			return nil, fmt.Errorf("header: string tag %d missing", t)
		}
	}
	for _, t := range []uint32{TagSummary, TagDescription} {
		e, ok := f.Main.Get(t)
		if !ok || e.Type != TI18NString {
			return nil, fmt.Errorf("header: i18n tag %d missing", t)
		}
	}
	if e, ok := f.Main.Get(TagEpoch); ok && (e.Type != TInt32 || e.Count != 1) {
		return nil, fmt.Errorf("header: EPOCH is not a single INT32")
	}
	nvr := f.Main.str(TagName) + "-" + f.Main.str(TagVersion) + "-" + f.Main.str(TagRelease)
	if len(nvr) > 65 {
		nvr = nvr[:65]
	}
	if f.LeadName != nvr {
		return nil, fmt.Errorf("lead: name %q, header says %q", f.LeadName, nvr)
	}
	if pf := f.Main.str(TagPayloadFormat); pf != "cpio" {
		return nil, fmt.Errorf("header: payload format %q", pf)
	}
	if e, ok := f.Main.Get(TagPayloadDigest); ok {
		a, ok2 := f.Main.Get(TagPayloadDigestAlgo)
		if !ok2 || a.Type != TInt32 || a.Ints()[0] != 8 {
			return nil, fmt.Errorf("header: PAYLOADDIGEST without a SHA256 PAYLOADDIGESTALGO")
		}
		d := sha256.Sum256(f.Payload)
		if e.Type != TStringArray || e.Count != 1 || e.Strings()[0] != hex.EncodeToString(d[:]) {
			return nil, fmt.Errorf("header: PAYLOADDIGEST does not match the payload")
		}
	}

	// payload
	f.Compressor = f.Main.str(TagPayloadCompressor)
	switch f.Compressor {
	case "", "gzip":
		zr, err := gzip.NewReader(bytes.NewReader(f.Payload))
		if err != nil {
			return nil, fmt.Errorf("payload: %w", err)
		}
		zr.Multistream(false)
		f.Archive, err = io.ReadAll(zr)
		if err != nil {
			return nil, fmt.Errorf("payload: %w", err)
		}
	case "xz":
		if len(f.Payload) < 6 || !bytes.Equal(f.Payload[:6], []byte{0xfd, '7', 'z', 'X', 'Z', 0}) {
			return nil, fmt.Errorf("payload: not an xz stream")
		}
	case "zstd":
		if len(f.Payload) < 4 || !bytes.Equal(f.Payload[:4], []byte{0x28, 0xb5, 0x2f, 0xfd}) {
			return nil, fmt.Errorf("payload: not a zstd frame")
		}
	default:
		return nil, fmt.Errorf("payload: compressor %q", f.Compressor)
	}
	if f.Archive == nil {
		return f, nil
	}
	if e, ok := f.Sig.Get(SigPayloadSize); ok {
		if e.Type != TInt32 || e.Ints()[0] != uint64(len(f.Archive)) {
			return nil, fmt.Errorf("signature header: PAYLOADSIZE %v, archive is %d bytes", e.Ints(), len(f.Archive))
		}
	}
	f.Files, err = readCpio(f.Archive)
	if err != nil {
		return nil, err
	}
	if err := f.checkFiles(); err != nil {
		return nil, err
	}
	return f, nil
}

// readCpio reads an SVR4 "newc" archive (magic 070701, 13 eight-digit hex
// fields, name and data each padded to a multiple of four).
func readCpio(a []byte) ([]CpioFile, error) {
	files := []CpioFile{}
	off := 0
	for {
		if len(a)-off < 110 {
			return nil, fmt.Errorf("cpio: truncated header at %d", off)
		}
		h := a[off : off+110]
		if string(h[:6]) != "070701" {
			return nil, fmt.Errorf("cpio: bad magic %q at %d", h[:6], off)
		}
		var v [13]uint64
		for i := range v {
			x, err := strconv.ParseUint(string(h[6+8*i:14+8*i]), 16, 32)
			if err != nil {
				return nil, fmt.Errorf("cpio: bad hex field %d at %d", i, off)
			}
			v[i] = x
		}
		ns := int(v[11])
		if ns < 1 || off+110+ns > len(a) {
			return nil, fmt.Errorf("cpio: bad name size %d at %d", ns, off)
		}
		name := a[off+110 : off+110+ns]
		if name[ns-1] != 0 {
			return nil, fmt.Errorf("cpio: name not terminated at %d", off)
		}
		dataOff := (off + 110 + ns + 3) &^ 3
		size := int(v[6])
		if dataOff+size > len(a) {
			return nil, fmt.Errorf("cpio: member %q runs past the end", name[:ns-1])
		}
		next := (dataOff + size + 3) &^ 3
		if next > len(a) {
			return nil, fmt.Errorf("cpio: padding after %q missing", name[:ns-1])
		}
		if string(name[:ns-1]) == "TRAILER!!!" {
			for _, c := range a[next:] {
				if c != 0 {
					return nil, fmt.Errorf("cpio: non-zero bytes after the trailer")
				}
			}
			return files, nil
		}
		cf := CpioFile{Name: string(name[:ns-1]), Ino: v[0], Mode: v[1], UID: v[2], GID: v[3], Nlink: v[4], Mtime: v[5], Size: int64(size), HeaderOffset: int64(off)}
		cf.SHA256 = sha256.Sum256(a[dataOff : dataOff+size])
		files = append(files, cf)
		off = next
	}
}

// checkFiles compares the header's file tags with the archive.
func (f *File) checkFiles() error {
	bn, ok := f.Main.Get(TagBaseNames)
	if !ok {
		if len(f.Files) != 0 {
			return fmt.Errorf("header has no BASENAMES but the archive has %d members", len(f.Files))
		}
		return nil
	}
	names := bn.Strings()
	n := len(names)
	di, ok1 := f.Main.Get(TagDirIndexes)
	dn, ok2 := f.Main.Get(TagDirNames)
	fs, ok3 := f.Main.Get(TagFileSizes)
	fm, ok4 := f.Main.Get(TagFileModes)
	fd, ok5 := f.Main.Get(TagFileDigests)
	if !ok1 || !ok2 || !ok3 || !ok4 || !ok5 {
		return fmt.Errorf("header: incomplete file tags")
	}
	if int(di.Count) != n || int(fs.Count) != n || int(fm.Count) != n || int(fd.Count) != n || di.Type != TInt32 || fs.Type != TInt32 || fm.Type != TInt16 || fd.Type != TStringArray {
		return fmt.Errorf("header: file tag counts/types are inconsistent")
	}
	for _, t := range []uint32{TagFileRdevs, TagFileMtimes, TagFileLinktos, TagFileFlags, TagFileUserName, TagFileGroupName, TagFileDevices, TagFileInodes, TagFileLangs, TagFileVerifyFlags} {
		if e, ok := f.Main.Get(t); ok && int(e.Count) != n {
			return fmt.Errorf("header: file tag %d has %d values for %d files", t, e.Count, n)
		}
	}
	algo := uint64(1)
	if e, ok := f.Main.Get(TagFileDigestAlgo); ok {
		algo = e.Ints()[0]
	}
	dirs := dn.Strings()
	regular := 0
	byName := map[string]CpioFile{}
	for _, c := range f.Files {
		byName[c.Name] = c
	}
	var total uint64
	for i := 0; i < n; i++ {
		d := di.Ints()[i]
		if int(d) >= len(dirs) {
			return fmt.Errorf("header: DIRINDEXES[%d] out of range", i)
		}
		p := dirs[d] + names[i]
		mode := fm.Ints()[i]
		size := fs.Ints()[i]
		total += size
		if mode&0170000 != 0100000 {
			continue
		}
		regular++
		var c CpioFile
		var found bool
		for _, cand := range []string{"." + p, p, names[i]} {
			if c, found = byName[cand]; found {
				break
			}
		}
		if !found {
			return fmt.Errorf("archive has no member for %s", p)
		}
		if uint64(c.Size) != size {
			return fmt.Errorf("%s: archive has %d bytes, header says %d", p, c.Size, size)
		}
		if algo == 8 {
			if fd.Strings()[i] != hex.EncodeToString(c.SHA256[:]) {
				return fmt.Errorf("%s: FILEDIGESTS does not match the archive member", p)
			}
		}
	}
	if regular != len(f.Files) && n == regular {
		return fmt.Errorf("archive has %d members, header lists %d regular files", len(f.Files), regular)
	}
	if e, ok := f.Main.Get(TagSize); ok && e.Ints()[0] != total {
		return fmt.Errorf("header: SIZE %d, files sum to %d", e.Ints()[0], total)
	}
	return nil
}

// Check is the generic well-formedness check (usable on signed output too).
func Check(b []byte) error {
	_, err := Parse(b)
	return err
}

// Dump lists the tags of a header (development aid).
func (h *Header) Dump() string {
	var sb bytes.Buffer
	for _, e := range h.Entries {
		fmt.Fprintf(&sb, "tag=%d type=%d off=%d count=%d", e.Tag, e.Type, e.Offset, e.Count)
		switch e.Type {
		case TString, TStringArray, TI18NString:
			s := e.Strings()
			if len(s) > 4 {
				s = s[:4]
			}
			fmt.Fprintf(&sb, " %q", s)
		case TBin:
			d := e.Data
			if len(d) > 16 {
				d = d[:16]
			}
			fmt.Fprintf(&sb, " %x", d)
		default:
			v := e.Ints()
			if len(v) > 6 {
				v = v[:6]
			}
			fmt.Fprintf(&sb, " %v", v)
		}
		sb.WriteByte('\n')
	}
	return sb.String()
}

// Package rpmgen is a bounded-exhaustive generator of RPM v3/v4 package files
// (lead, signature header, header, gzip-compressed cpio "newc" payload) written
// from the RPM file format description (rpm.org "RPM V4 Package format" /
// LSB "Package File Format") and cpio(5). It imports neither relic nor
// go-rpmutils; the reader in reader.go is likewise written from the format.
//
// Layout written, as rpm itself writes it: in both header structures the
// region tag (HEADERSIGNATURES 62 / HEADERIMMUTABLE 63) is the first index
// entry, the remaining index entries are sorted by tag, and the 16-byte
// region trailer is the last item of the data store. The signature header is
// zero-padded to a multiple of eight bytes.
package rpmgen

import (
	"bytes"
	"compress/gzip"
	"crypto/md5"
	"crypto/sha1"
	"crypto/sha256"
	"encoding/binary"
	"encoding/hex"
	"fmt"
	"os"
	"sort"
	"strings"

	"verif/gen/shape"
)

// FixturePath is the third-party-signed sample shipped with relic's functional tests.
const FixturePath = "/repo/functest/packages/rocky-basesystem-11-13.el9.noarch.rpm"

// MTime is the fixed build/file time.
const MTime = 1700000000

// Ladder is the thorough payload-file size ladder.
var Ladder = []int{0, 1, 511, 512, 513, 4095, 4096, 4097, 65535, 65536, 65537, 1048575, 1048576, 1048577}

// Params is the parameter record of one generated package.
type Params struct {
	Name, Version, Release string
	Epoch                  int // -1: no EPOCH tag
	Arch                   string
	Files                  []int // payload file sizes
	// Reserved is the length of the RESERVEDSPACE tag in the signature header,
	// -1 for none.
	Reserved int
	SHA256   bool // SHA256 header digest in addition to SHA1
	// PayloadDigest adds PAYLOADDIGEST/PAYLOADDIGESTALGO/PAYLOADDIGESTALT (rpm >= 4.14).
	PayloadDigest bool
	Source        bool // source package: lead type 1, SOURCEPACKAGE tag, no SOURCERPM
}

// Content returns n deterministic, practically incompressible bytes.
func Content(n int, seed uint32) []byte {
	out := make([]byte, n)
	x := seed*2654435761 + 0x9e3779b9
	if x == 0 {
		x = 1
	}
	for i := range out {
		x ^= x << 13
		x ^= x >> 17
		x ^= x << 5
		out[i] = byte(x >> 11)
	}
	return out
}

type ent struct {
	tag, typ, count uint32
	data            []byte
}

func eStr(tag uint32, s string) ent { return ent{tag, TString, 1, append([]byte(s), 0)} }
func eI18N(tag uint32, s string) ent {
	return ent{tag, TI18NString, 1, append([]byte(s), 0)}
}
func eStrs(tag uint32, ss ...string) ent {
	var b []byte
	for _, s := range ss {
		b = append(append(b, s...), 0)
	}
	return ent{tag, TStringArray, uint32(len(ss)), b}
}
func eBin(tag uint32, b []byte) ent { return ent{tag, TBin, uint32(len(b)), b} }
func eI32(tag uint32, vs ...uint32) ent {
	b := make([]byte, 4*len(vs))
	for i, v := range vs {
		binary.BigEndian.PutUint32(b[4*i:], v)
	}
	return ent{tag, TInt32, uint32(len(vs)), b}
}
func eI16(tag uint32, vs ...uint16) ent {
	b := make([]byte, 2*len(vs))
	for i, v := range vs {
		binary.BigEndian.PutUint16(b[2*i:], v)
	}
	return ent{tag, TInt16, uint32(len(vs)), b}
}

// buildHeader serialises a header structure. The returned bytes are not padded.
func buildHeader(regionTag uint32, ents []ent) []byte {
	sort.SliceStable(ents, func(i, j int) bool { return ents[i].tag < ents[j].tag })
	il := len(ents) + 1
	var store bytes.Buffer
	index := make([]byte, 16*il)
	put := func(i int, tag, typ uint32, off int, count uint32) {
		x := index[16*i:]
		binary.BigEndian.PutUint32(x[0:], tag)
		binary.BigEndian.PutUint32(x[4:], typ)
		binary.BigEndian.PutUint32(x[8:], uint32(off))
		binary.BigEndian.PutUint32(x[12:], count)
	}
	for i, e := range ents {
		align := map[uint32]int{TInt16: 2, TInt32: 4, TInt64: 8}[e.typ]
		for align > 0 && store.Len()%align != 0 {
			store.WriteByte(0)
		}
		put(i+1, e.tag, e.typ, store.Len(), e.count)
		store.Write(e.data)
	}
	put(0, regionTag, TBin, store.Len(), 16)
	var trailer [16]byte
	binary.BigEndian.PutUint32(trailer[0:], regionTag)
	binary.BigEndian.PutUint32(trailer[4:], TBin)
	binary.BigEndian.PutUint32(trailer[8:], uint32(int32(-16*il)))
	binary.BigEndian.PutUint32(trailer[12:], 16)
	store.Write(trailer[:])
	var out bytes.Buffer
	out.Write([]byte{0x8e, 0xad, 0xe8, 0x01, 0, 0, 0, 0})
	binary.Write(&out, binary.BigEndian, uint32(il))
	binary.Write(&out, binary.BigEndian, uint32(store.Len()))
	out.Write(index)
	out.Write(store.Bytes())
	return out.Bytes()
}

func (p Params) dir() string {
	if p.Source {
		return ""
	}
	return "/usr/share/" + p.Name + "/"
}

// BaseName is the base name of payload file i.
func (p Params) BaseName(i int) string {
	if p.Source {
		if i == 0 {
			return p.Name + ".spec"
		}
		return fmt.Sprintf("%s-%s-src%d.tar", p.Name, p.Version, i)
	}
	return fmt.Sprintf("f%d.bin", i)
}

// cpio writes the SVR4 "newc" archive.
func (p Params) cpio() []byte {
	var a bytes.Buffer
	member := func(name string, ino, mode, nlink, mtime uint32, data []byte) {
		fmt.Fprintf(&a, "070701%08x%08x%08x%08x%08x%08x%08x%08x%08x%08x%08x%08x%08x",
			ino, mode, 0, 0, nlink, mtime, len(data), 0, 0, 0, 0, len(name)+1, 0)
		a.WriteString(name)
		a.WriteByte(0)
		for a.Len()%4 != 0 {
			a.WriteByte(0)
		}
		a.Write(data)
		for a.Len()%4 != 0 {
			a.WriteByte(0)
		}
	}
	for i, s := range p.Files {
		name := "." + p.dir() + p.BaseName(i)
		if p.Source {
			name = p.BaseName(i)
		}
		member(name, uint32(i+1), 0100644, 1, MTime, Content(s, uint32(i+1)))
	}
	member("TRAILER!!!", 0, 0, 1, 0, nil)
	return a.Bytes()
}

func gz(data []byte) ([]byte, error) {
	var buf bytes.Buffer
	w, err := gzip.NewWriterLevel(&buf, gzip.BestCompression)
	if err != nil {
		return nil, err
	}
	w.Header.OS = 3
	if _, err := w.Write(data); err != nil {
		return nil, err
	}
	if err := w.Close(); err != nil {
		return nil, err
	}
	return buf.Bytes(), nil
}

func (p Params) evr() string {
	s := p.Version + "-" + p.Release
	if p.Epoch >= 0 {
		s = fmt.Sprintf("%d:%s", p.Epoch, s)
	}
	return s
}

func (p Params) mainHeader(archive, payload []byte) []byte {
	var total uint32
	for _, s := range p.Files {
		total += uint32(s)
	}
	ents := []ent{
		eStrs(TagI18NTable, "C"),
		eStr(TagName, p.Name),
		eStr(TagVersion, p.Version),
		eStr(TagRelease, p.Release),
		eI18N(TagSummary, "generated test package"),
		eI18N(TagDescription, "Generated from the RPM package format description\nby verif/gen/rpmgen."),
		eI32(TagBuildTime, MTime),
		eStr(TagBuildHost, "builder.example.org"),
		eI32(TagSize, total),
		eStr(TagLicense, "Public Domain"),
		eI18N(TagGroup, "Unspecified"),
		eStr(TagOS, "linux"),
		eStr(TagArch, p.Arch),
		eStr(TagRPMVersion, "4.16.1.3"),
		eStr(TagPayloadFormat, "cpio"),
		eStr(TagPayloadCompressor, "gzip"),
		eStr(TagPayloadFlags, "9"),
		eStr(TagPlatform, p.Arch+"-redhat-linux-gnu"),
		eStr(TagEncoding, "utf-8"),
	}
	if p.Epoch >= 0 {
		ents = append(ents, eI32(TagEpoch, uint32(p.Epoch)))
	}
	const senseLE, senseEQ, senseRpmlib = 0x02 | 0x08, 0x08, 1 << 24
	reqNames := []string{"rpmlib(CompressedFileNames)", "rpmlib(FileDigests)", "rpmlib(PayloadFilesHavePrefix)"}
	reqVers := []string{"3.0.4-1", "4.6.0-1", "4.0-1"}
	if p.Source {
		reqNames, reqVers = reqNames[:2], reqVers[:2]
		ents = append(ents, eI32(TagSourcePackage, 1))
	} else {
		ents = append(ents,
			eStr(TagSourceRPM, p.Name+"-"+p.Version+"-"+p.Release+".src.rpm"),
			eStrs(TagProvideName, p.Name),
			eI32(TagProvideFlags, senseEQ),
			eStrs(TagProvideVersion, p.evr()))
	}
	flags := make([]uint32, len(reqNames))
	for i := range flags {
		flags[i] = senseRpmlib | senseLE
	}
	ents = append(ents, eI32(TagRequireFlags, flags...), eStrs(TagRequireName, reqNames...), eStrs(TagRequireVersion, reqVers...))
	if n := len(p.Files); n > 0 {
		var sizes, mtimes, fflags, devs, inos, didx, vflags []uint32
		var modes, rdevs []uint16
		var digests, links, users, groups, langs, bases []string
		for i, s := range p.Files {
			d := sha256.Sum256(Content(s, uint32(i+1)))
			sizes = append(sizes, uint32(s))
			mtimes = append(mtimes, MTime)
			fflags = append(fflags, 0)
			devs = append(devs, 1)
			inos = append(inos, uint32(i+1))
			didx = append(didx, 0)
			vflags = append(vflags, 0xffffffff)
			modes = append(modes, 0100644)
			rdevs = append(rdevs, 0)
			digests = append(digests, hex.EncodeToString(d[:]))
			links = append(links, "")
			users = append(users, "root")
			groups = append(groups, "root")
			langs = append(langs, "")
			bases = append(bases, p.BaseName(i))
		}
		ents = append(ents,
			eI32(TagFileSizes, sizes...), eI16(TagFileModes, modes...), eI16(TagFileRdevs, rdevs...),
			eI32(TagFileMtimes, mtimes...), eStrs(TagFileDigests, digests...), eStrs(TagFileLinktos, links...),
			eI32(TagFileFlags, fflags...), eStrs(TagFileUserName, users...), eStrs(TagFileGroupName, groups...),
			eI32(TagFileVerifyFlags, vflags...), eI32(TagFileDevices, devs...), eI32(TagFileInodes, inos...),
			eStrs(TagFileLangs, langs...), eI32(TagDirIndexes, didx...), eStrs(TagBaseNames, bases...),
			eStrs(TagDirNames, p.dir()), eI32(TagFileDigestAlgo, 8))
	}
	if p.PayloadDigest {
		d := sha256.Sum256(payload)
		alt := sha256.Sum256(archive)
		ents = append(ents,
			eStrs(TagPayloadDigest, hex.EncodeToString(d[:])),
			eI32(TagPayloadDigestAlgo, 8),
			eStrs(5097, hex.EncodeToString(alt[:])))
	}
	return buildHeader(TagRegion, ents)
}

// Build writes the package file.
func (p Params) Build() ([]byte, error) {
	archive := p.cpio()
	payload, err := gz(archive)
	if err != nil {
		return nil, err
	}
	main := p.mainHeader(archive, payload)

	lead := make([]byte, 96)
	copy(lead, []byte{0xed, 0xab, 0xee, 0xdb, 3, 0})
	if p.Source {
		binary.BigEndian.PutUint16(lead[6:], 1)
	}
	arch := map[string]uint16{"noarch": 255, "x86_64": 1, "i386": 1, "aarch64": 19}[p.Arch]
	binary.BigEndian.PutUint16(lead[8:], arch)
	nvr := p.Name + "-" + p.Version + "-" + p.Release
	if len(nvr) > 65 {
		nvr = nvr[:65]
	}
	copy(lead[10:76], nvr)
	binary.BigEndian.PutUint16(lead[76:], 1) // osnum: Linux
	binary.BigEndian.PutUint16(lead[78:], 5) // header-style signature

	h1 := sha1.Sum(main)
	m := md5.New()
	m.Write(main)
	m.Write(payload)
	sig := []ent{
		eStr(SigSHA1, hex.EncodeToString(h1[:])),
		eI32(SigSize, uint32(len(main)+len(payload))),
		eBin(SigMD5, m.Sum(nil)),
		eI32(SigPayloadSize, uint32(len(archive))),
	}
	if p.SHA256 {
		h2 := sha256.Sum256(main)
		sig = append(sig, eStr(SigSHA256, hex.EncodeToString(h2[:])))
	}
	if p.Reserved == 0 {
		return nil, fmt.Errorf("a tag cannot have count 0; use Reserved=-1 for no reserved space")
	}
	if p.Reserved > 0 {
		sig = append(sig, eBin(SigReservedSpace, make([]byte, p.Reserved)))
	}
	sh := buildHeader(SigRegion, sig)

	var out bytes.Buffer
	out.Write(lead)
	out.Write(sh)
	for out.Len()%8 != 0 {
		out.WriteByte(0)
	}
	out.Write(main)
	out.Write(payload)
	return out.Bytes(), nil
}

// ShapeName names every generator parameter.
func (p Params) ShapeName() string {
	var sizes []string
	for _, s := range p.Files {
		sizes = append(sizes, fmt.Sprint(s))
	}
	typ := "bin"
	if p.Source {
		typ = "src"
	}
	dig := "sha1"
	if p.SHA256 {
		dig = "sha1+sha256"
	}
	pd := "md5only"
	if p.PayloadDigest {
		pd = "payloaddigest"
	}
	res := "none"
	if p.Reserved > 0 {
		res = fmt.Sprint(p.Reserved)
	}
	ep := "none"
	if p.Epoch >= 0 {
		ep = fmt.Sprint(p.Epoch)
	}
	return fmt.Sprintf("rpm/%s/%s-%s-%s.%s/epoch=%s/files=%d[%s]/hdrdigest=%s/%s/reserved=%s",
		typ, p.Name, p.Version, p.Release, p.Arch, ep, len(p.Files), strings.Join(sizes, ","), dig, pd, res)
}

func (p Params) check(b []byte) error {
	f, err := Parse(b)
	if err != nil {
		return err
	}
	if f.Main.str(TagName) != p.Name || f.Main.str(TagVersion) != p.Version || f.Main.str(TagRelease) != p.Release || f.Main.str(TagArch) != p.Arch {
		return fmt.Errorf("NEVRA in the header does not match the parameters")
	}
	e, ok := f.Main.Get(TagEpoch)
	if ok != (p.Epoch >= 0) || ok && e.Ints()[0] != uint64(p.Epoch) {
		return fmt.Errorf("EPOCH does not match the parameters")
	}
	if (f.LeadType == 1) != p.Source {
		return fmt.Errorf("lead type %d", f.LeadType)
	}
	if len(f.Files) != len(p.Files) {
		return fmt.Errorf("%d payload files, want %d", len(f.Files), len(p.Files))
	}
	for i, c := range f.Files {
		want := sha256.Sum256(Content(p.Files[i], uint32(i+1)))
		if c.Size != int64(p.Files[i]) || c.SHA256 != want {
			return fmt.Errorf("payload file %d differs", i)
		}
	}
	first := f.Sig.Entries[0]
	if first.Tag != SigRegion || int(first.Offset) != f.Sig.DL-16 {
		return fmt.Errorf("signature header region is not laid out as rpm writes it")
	}
	if f.Main.Entries[0].Tag != TagRegion {
		return fmt.Errorf("header has no immutable region")
	}
	for _, t := range []uint32{SigSize, SigMD5, SigSHA1, SigPayloadSize} {
		if _, ok := f.Sig.Get(t); !ok {
			return fmt.Errorf("signature header lacks tag %d", t)
		}
	}
	if _, ok := f.Sig.Get(SigSHA256); ok != p.SHA256 {
		return fmt.Errorf("SHA256 tag presence is wrong")
	}
	r, ok := f.Sig.Get(SigReservedSpace)
	if ok != (p.Reserved > 0) || ok && int(r.Count) != p.Reserved {
		return fmt.Errorf("RESERVEDSPACE does not match the parameters")
	}
	if f.Sig.DL != p.SigDL() {
		return fmt.Errorf("signature header data store is %d bytes, expected %d", f.Sig.DL, p.SigDL())
	}
	if _, ok := f.Main.Get(TagPayloadDigest); ok != p.PayloadDigest {
		return fmt.Errorf("PAYLOADDIGEST presence is wrong")
	}
	return nil
}

// Shape wraps the parameter record.
func (p Params) Shape(class string, strict bool) shape.Shape {
	return shape.Shape{
		Name:   p.ShapeName(),
		Class:  class,
		File:   "p.rpm",
		Strict: strict,
		Source: "generated",
		Build:  p.Build,
		Check:  p.check,
	}
}

// SigDataSize returns the signature header's data store size (the value whose
// residue mod 8 decides the padding) of the built file.
func SigDataSize(b []byte) (int, error) {
	f, err := Parse(b)
	if err != nil {
		return 0, err
	}
	return f.Sig.DL, nil
}

// SigDL is the size of the signature header's data store as Build lays it
// out: SHA1 (41), SHA256 (65), SIZE (4-aligned), MD5, PAYLOADSIZE,
// RESERVEDSPACE, region trailer.
func (p Params) SigDL() int {
	n := 41
	if p.SHA256 {
		n += 65
	}
	n = (n + 3) &^ 3
	n += 4 + 16 + 4
	if p.Reserved > 0 {
		n += p.Reserved
	}
	return n + 16
}

func base() Params {
	return Params{
		Name: "verif-pkg", Version: "1.0", Release: "1.el9", Epoch: -1, Arch: "noarch",
		Files: []int{100}, Reserved: 4128, SHA256: true, PayloadDigest: true,
	}
}

// SizeClass is the class name of a single-file size.
func SizeClass(n int) string {
	type b struct {
		v int
		s string
	}
	for _, x := range []b{{1 << 20, "1MiB"}, {64 << 10, "64KiB"}, {4096, "4096"}, {512, "512"}} {
		switch n {
		case x.v - 1:
			return "size-" + x.s + "-1"
		case x.v:
			return "size-" + x.s
		case x.v + 1:
			return "size-" + x.s + "+1"
		}
	}
	return fmt.Sprintf("size-%d", n)
}

func fixture() shape.Shape {
	return shape.Shape{
		Name:   "rpm/fixture/rocky-basesystem-11-13.el9.noarch.rpm",
		Class:  "already-signed-third-party",
		File:   "p.rpm",
		Strict: true,
		Source: "fixture",
		Build:  func() ([]byte, error) { return os.ReadFile(FixturePath) },
		Check: func(b []byte) error {
			f, err := Parse(b)
			if err != nil {
				return err
			}
			if f.Main.str(TagName) != "basesystem" || f.Compressor != "zstd" {
				return fmt.Errorf("fixture has unexpected contents")
			}
			if _, ok := f.Sig.Get(SigRSA); !ok {
				return fmt.Errorf("fixture carries no RSA header signature")
			}
			return nil
		},
	}
}

// Shapes enumerates the family: canonical first, then simplest first.
func Shapes(thorough bool) []shape.Shape {
	var out []shape.Shape
	add := func(class string, strict bool, mod func(*Params)) {
		p := base()
		if mod != nil {
			mod(&p)
		}
		out = append(out, p.Shape(class, strict))
	}
	add("canonical", true, nil)
	add("payload-empty", true, func(p *Params) { p.Files = nil })
	sizes := []int{512, 65537, 1048576}
	if thorough {
		sizes = Ladder
	}
	for _, s := range sizes {
		s := s
		add(SizeClass(s), true, func(p *Params) { p.Files = []int{s} })
	}
	add("files-3", true, func(p *Params) { p.Files = []int{1, 513, 4097} })
	add("epoch-arch-x86_64", true, func(p *Params) { p.Epoch, p.Arch = 2, "x86_64" })
	add("sig-no-reserved-space", true, func(p *Params) { p.Reserved = -1 })
	add("hdrdigest-sha1-only-md5-only", true, func(p *Params) { p.SHA256, p.PayloadDigest, p.Reserved = false, false, -1 })
	// signature header data store sizes of every residue mod 8 (decides the
	// padding before the header); the quick tier takes one odd residue
	modClass := func(p Params) string { return fmt.Sprintf("sigdata-mod8-%d", p.SigDL()%8) }
	addRes := func(reserved int) {
		p := base()
		p.Reserved = reserved
		out = append(out, p.Shape(modClass(p), true))
	}
	addRes(35)
	if thorough {
		add("files-2", true, func(p *Params) { p.Files = []int{511, 512} })
		add("files-3-large", true, func(p *Params) { p.Files = []int{65536, 0, 1048577} })
		add("epoch-0", true, func(p *Params) { p.Epoch = 0 })
		add("epoch-noarch", true, func(p *Params) { p.Epoch = 1 })
		add("arch-x86_64", true, func(p *Params) { p.Arch = "x86_64" })
		add("epoch-arch-x86_64", true, func(p *Params) { p.Epoch, p.Arch, p.Files = 7, "x86_64", nil })
		add("hdrdigest-sha1-only", true, func(p *Params) { p.SHA256 = false })
		add("hdrdigest-sha1-only", true, func(p *Params) { p.SHA256, p.Reserved = false, -1 })
		add("payload-md5-only", true, func(p *Params) { p.PayloadDigest = false })
		add("payload-md5-only", true, func(p *Params) { p.PayloadDigest, p.Reserved = false, -1 })
		add("hdrdigest-sha1-only-md5-only", true, func(p *Params) { p.SHA256, p.PayloadDigest = false, false })
		add("sig-no-reserved-space", true, func(p *Params) { p.Reserved, p.Files = -1, nil })
		add("sig-no-reserved-space", true, func(p *Params) { p.Reserved, p.Files = -1, []int{65537} })
		// every residue, with a small, a medium and a typical reserved space
		// (the canonical shape, 4128, has residue 4)
		for r := 0; r < 8; r++ {
			addRes(8 + r)
		}
		for r := 0; r < 8; r++ {
			if 32+r != 35 {
				addRes(32 + r)
			}
		}
		for r := 1; r < 8; r++ {
			addRes(4128 + r)
		}
		// reserved space too small to hold two signatures: the signature
		// header has to grow
		add("sig-reserved-small", true, func(p *Params) { p.Reserved = 1 })
		add("sig-reserved-small", true, func(p *Params) { p.Reserved = 600 })
		add("name-long", true, func(p *Params) {
			p.Name = "verif-pkg-with-a-rather-long-name-that-overflows-the-lead-name-field-of-66-bytes"
		})
	}
	add("source-package", false, func(p *Params) { p.Source, p.Files = true, []int{300, 513} })
	if thorough {
		add("source-package", false, func(p *Params) { p.Source, p.Files, p.Reserved = true, []int{300}, -1 })
	}
	out = append(out, fixture())
	return out
}

package rpmgen

import (
	"fmt"
	"strings"
	"testing"
)

func TestShapes(t *testing.T) {
	for _, thorough := range []bool{false, true} {
		names := map[string]bool{}
		shapes := Shapes(thorough)
		if shapes[0].Class != "canonical" {
			t.Fatalf("first shape is %s", shapes[0].Class)
		}
		residues := map[int]bool{}
		pads := map[int]bool{}
		for _, s := range shapes {
			if names[s.Name] {
				t.Errorf("duplicate name %s", s.Name)
			}
			names[s.Name] = true
			if s.File != "p.rpm" || s.Class == "" || s.Source == "" {
				t.Errorf("%s: incomplete shape", s.Name)
			}
			b, err := s.Build()
			if err != nil {
				t.Errorf("%s: build: %v", s.Name, err)
				continue
			}
			b2, _ := s.Build()
			if string(b) != string(b2) {
				t.Errorf("%s: not deterministic", s.Name)
			}
			if err := s.Check(b); err != nil {
				t.Errorf("%s: check: %v", s.Name, err)
				continue
			}
			f, _ := Parse(b)
			residues[f.Sig.DL%8] = true
			pads[f.Sig.Pad] = true
			if strings.HasPrefix(s.Class, "sigdata-mod8-") && s.Class != fmt.Sprintf("sigdata-mod8-%d", f.Sig.DL%8) {
				t.Errorf("%s: class %s but data store is %d bytes", s.Name, s.Class, f.Sig.DL)
			}
		}
		if thorough && len(residues) != 8 {
			t.Errorf("residues seen: %v", residues)
		}
		t.Logf("thorough=%v: %d shapes, residues %v pads %v", thorough, len(shapes), residues, pads)
	}
}

func TestReaderRejects(t *testing.T) {
	b, err := base().Build()
	if err != nil {
		t.Fatal(err)
	}
	f, err := Parse(b)
	if err != nil {
		t.Fatal(err)
	}
	flip := func(off int) []byte {
		c := append([]byte{}, b...)
		c[off] ^= 1
		return c
	}
	mainOff := 96 + len(f.Sig.Raw) + f.Sig.Pad
	cases := map[string][]byte{
		"truncated payload":      b[:len(b)-1],
		"trailing byte":          append(append([]byte{}, b...), 0),
		"lead magic":             flip(0),
		"sig magic":              flip(96),
		"header store byte":      flip(mainOff + len(f.Main.Raw) - 20),
		"payload byte":           flip(len(b) - 10),
		"header index count":     flip(mainOff + 11),
		"signature header count": flip(96 + 11),
	}
	for name, c := range cases {
		if err := Check(c); err == nil {
			t.Errorf("%s: accepted", name)
		}
	}
}

package xargen

import (
	"bytes"
	"compress/zlib"
	"crypto"
	"crypto/rsa"
	"crypto/x509"
	"encoding/base64"
	"encoding/binary"
	"encoding/xml"
	"errors"
	"fmt"
	"io"
	"sort"
	"strings"
)

// The reader below is independent of relic: Go's compress/zlib and
// encoding/xml plus the layout rules of the xar format.

type xToc struct {
	XMLName xml.Name `xml:"xar"`
	Toc     struct {
		CreationTime string   `xml:"creation-time"`
		Checksum     *xSum    `xml:"checksum"`
		Signature    *xSig    `xml:"signature"`
		XSignature   *xSig    `xml:"x-signature"`
		Files        []*xFile `xml:"file"`
	} `xml:"toc"`
}

type xSum struct {
	Style  string `xml:"style,attr"`
	Offset *int64 `xml:"offset"`
	Size   *int64 `xml:"size"`
}

type xSig struct {
	Style  string   `xml:"style,attr"`
	Offset *int64   `xml:"offset"`
	Size   *int64   `xml:"size"`
	Certs  []string `xml:"KeyInfo>X509Data>X509Certificate"`
}

type xFile struct {
	ID    string   `xml:"id,attr"`
	Name  string   `xml:"name"`
	Type  string   `xml:"type"`
	Data  *xData   `xml:"data"`
	Files []*xFile `xml:"file"`
}

type xData struct {
	Length   *int64 `xml:"length"`
	Offset   *int64 `xml:"offset"`
	Size     *int64 `xml:"size"`
	Encoding struct {
		Style string `xml:"style,attr"`
	} `xml:"encoding"`
	Archived  *xDigest `xml:"archived-checksum"`
	Extracted *xDigest `xml:"extracted-checksum"`
}

type xDigest struct {
	Style string `xml:"style,attr"`
	Hex   string `xml:",chardata"`
}

type span struct {
	lo, hi int64
	what   string
}

// Check re-reads a xar archive and fails unless header, TOC, TOC checksum,
// optional classic signature, and every member's heap extent, encoding and
// checksums are consistent.
func Check(b []byte) error {
	if len(b) < 28 {
		return errors.New("xar: shorter than the header")
	}
	if string(b[:4]) != "xar!" {
		return errors.New("xar: bad magic")
	}
	hsize := int(binary.BigEndian.Uint16(b[4:]))
	if v := binary.BigEndian.Uint16(b[6:]); v != 1 {
		return fmt.Errorf("xar: version %d", v)
	}
	clen := binary.BigEndian.Uint64(b[8:])
	ulen := binary.BigEndian.Uint64(b[16:])
	alg := binary.BigEndian.Uint32(b[24:])
	if hsize < 28 || hsize > len(b) {
		return fmt.Errorf("xar: header size %d", hsize)
	}
	if clen > uint64(len(b)-hsize) {
		return errors.New("xar: TOC runs past end of file")
	}
	ztoc := b[hsize : hsize+int(clen)]
	heap := b[hsize+int(clen):]
	zr, err := zlib.NewReader(bytes.NewReader(ztoc))
	if err != nil {
		return fmt.Errorf("xar: TOC zlib: %w", err)
	}
	toc, err := io.ReadAll(zr)
	if err != nil {
		return fmt.Errorf("xar: TOC zlib: %w", err)
	}
	if uint64(len(toc)) != ulen {
		return fmt.Errorf("xar: TOC inflates to %d bytes, header says %d", len(toc), ulen)
	}
	var doc xToc
	if err := xml.Unmarshal(toc, &doc); err != nil {
		return fmt.Errorf("xar: TOC xml: %w", err)
	}
	var spans []span
	// TOC checksum
	algName := map[uint32]string{0: "none", 1: "sha1", 2: "md5", 3: "sha256", 4: "sha512"}[alg]
	if algName == "" {
		return fmt.Errorf("xar: checksum algorithm %d", alg)
	}
	var tocSum []byte
	cs := doc.Toc.Checksum
	if alg == 0 {
		if cs != nil && cs.Style != "none" {
			return errors.New("xar: header says no checksum but TOC has one")
		}
	} else {
		if cs == nil || cs.Offset == nil || cs.Size == nil {
			return errors.New("xar: checksum element missing or incomplete")
		}
		if cs.Style != algName {
			return fmt.Errorf("xar: header algorithm %s but TOC checksum style %q", algName, cs.Style)
		}
		tocSum, err = digest(algName, ztoc)
		if err != nil {
			return err
		}
		if *cs.Size != int64(len(tocSum)) {
			return fmt.Errorf("xar: checksum size %d for %s", *cs.Size, algName)
		}
		if *cs.Offset < 0 || *cs.Offset+*cs.Size > int64(len(heap)) {
			return errors.New("xar: checksum outside heap")
		}
		if !bytes.Equal(heap[*cs.Offset:*cs.Offset+*cs.Size], tocSum) {
			return errors.New("xar: stored TOC checksum does not match the compressed TOC")
		}
		spans = append(spans, span{*cs.Offset, *cs.Offset + *cs.Size, "checksum"})
	}
	// signatures
	for _, sg := range []*xSig{doc.Toc.Signature, doc.Toc.XSignature} {
		if sg == nil {
			continue
		}
		if sg.Offset == nil || sg.Size == nil || *sg.Offset < 0 || *sg.Size < 0 || *sg.Offset+*sg.Size > int64(len(heap)) {
			return errors.New("xar: signature outside heap")
		}
		spans = append(spans, span{*sg.Offset, *sg.Offset + *sg.Size, "signature " + sg.Style})
		if len(sg.Certs) == 0 {
			return errors.New("xar: signature without certificates")
		}
		var leaf *x509.Certificate
		for i, c := range sg.Certs {
			der, err := base64.StdEncoding.DecodeString(strings.Join(strings.Fields(c), ""))
			if err != nil {
				return fmt.Errorf("xar: signature certificate %d: %w", i, err)
			}
			cert, err := x509.ParseCertificate(der)
			if err != nil {
				return fmt.Errorf("xar: signature certificate %d: %w", i, err)
			}
			if i == 0 {
				leaf = cert
			}
		}
		if sg.Style == "RSA" && sg == doc.Toc.Signature {
			pub, ok := leaf.PublicKey.(*rsa.PublicKey)
			if !ok {
				return errors.New("xar: RSA signature with a non-RSA certificate")
			}
			ch := map[string]crypto.Hash{"sha1": crypto.SHA1, "sha256": crypto.SHA256, "sha512": crypto.SHA512}[algName]
			if ch == 0 {
				return fmt.Errorf("xar: RSA signature over a %s checksum", algName)
			}
			if err := rsa.VerifyPKCS1v15(pub, ch, tocSum, heap[*sg.Offset:*sg.Offset+*sg.Size]); err != nil {
				return fmt.Errorf("xar: classic signature: %w", err)
			}
		}
	}
	// members
	ids := map[string]bool{}
	var visit func(fs []*xFile, path string) error
	visit = func(fs []*xFile, path string) error {
		names := map[string]bool{}
		for _, f := range fs {
			p := path + "/" + f.Name
			if f.Name == "" || strings.Contains(f.Name, "/") {
				return fmt.Errorf("xar: bad member name %q", p)
			}
			if names[f.Name] {
				return fmt.Errorf("xar: duplicate member %q", p)
			}
			names[f.Name] = true
			if f.ID == "" || ids[f.ID] {
				return fmt.Errorf("xar: %s: missing or duplicate id %q", p, f.ID)
			}
			ids[f.ID] = true
			switch f.Type {
			case "directory":
				if f.Data != nil {
					return fmt.Errorf("xar: %s: directory with data", p)
				}
			case "file":
				if len(f.Files) != 0 {
					return fmt.Errorf("xar: %s: file with children", p)
				}
				if f.Data != nil {
					sp, err := checkData(p, f.Data, heap)
					if err != nil {
						return err
					}
					if sp.hi > sp.lo {
						spans = append(spans, sp)
					}
				}
			default:
				return fmt.Errorf("xar: %s: type %q", p, f.Type)
			}
			if err := visit(f.Files, p); err != nil {
				return err
			}
		}
		return nil
	}
	if err := visit(doc.Toc.Files, ""); err != nil {
		return err
	}
	// heap extents must not overlap
	sort.Slice(spans, func(i, j int) bool { return spans[i].lo < spans[j].lo })
	for i := 1; i < len(spans); i++ {
		if spans[i].lo < spans[i-1].hi {
			return fmt.Errorf("xar: heap extents of %s and %s overlap", spans[i-1].what, spans[i].what)
		}
	}
	return nil
}

func checkData(p string, d *xData, heap []byte) (span, error) {
	if d.Length == nil || d.Offset == nil || d.Size == nil {
		return span{}, fmt.Errorf("xar: %s: data without length/offset/size", p)
	}
	if *d.Offset < 0 || *d.Length < 0 || *d.Offset+*d.Length > int64(len(heap)) {
		return span{}, fmt.Errorf("xar: %s: data outside heap", p)
	}
	arch := heap[*d.Offset : *d.Offset+*d.Length]
	var raw []byte
	switch d.Encoding.Style {
	case encStored:
		raw = arch
	case encZlib:
		zr, err := zlib.NewReader(bytes.NewReader(arch))
		if err != nil {
			return span{}, fmt.Errorf("xar: %s: %w", p, err)
		}
		raw, err = io.ReadAll(zr)
		if err != nil {
			return span{}, fmt.Errorf("xar: %s: %w", p, err)
		}
	default:
		return span{}, fmt.Errorf("xar: %s: encoding %q", p, d.Encoding.Style)
	}
	if int64(len(raw)) != *d.Size {
		return span{}, fmt.Errorf("xar: %s: extracted size %d, TOC says %d", p, len(raw), *d.Size)
	}
	if d.Archived == nil || d.Extracted == nil {
		return span{}, fmt.Errorf("xar: %s: missing archived/extracted checksum", p)
	}
	for _, c := range []struct {
		d *xDigest
		b []byte
		n string
	}{{d.Archived, arch, "archived"}, {d.Extracted, raw, "extracted"}} {
		sum, err := digest(c.d.Style, c.b)
		if err != nil {
			return span{}, fmt.Errorf("xar: %s: %s checksum: %w", p, c.n, err)
		}
		if !hexEq(c.d.Hex, sum) {
			return span{}, fmt.Errorf("xar: %s: %s checksum mismatch", p, c.n)
		}
	}
	return span{*d.Offset, *d.Offset + *d.Length, p}, nil
}

package xargen

import (
	"bytes"
	"testing"
)

func TestShapes(t *testing.T) {
	for _, thorough := range []bool{false, true} {
		shapes := Shapes(thorough)
		if shapes[0].Class != "canonical" {
			t.Fatalf("first shape is %q", shapes[0].Class)
		}
		names := map[string]bool{}
		nStrict := 0
		for _, s := range shapes {
			if names[s.Name] {
				t.Errorf("duplicate name %q", s.Name)
			}
			names[s.Name] = true
			if s.File != FileName || s.Class == "" || s.Source == "" {
				t.Errorf("%s: incomplete shape", s.Name)
			}
			b, err := s.Build()
			if err != nil {
				t.Errorf("%s: build: %v", s.Name, err)
				continue
			}
			if err := s.Check(b); err != nil {
				t.Errorf("%s: check: %v", s.Name, err)
			}
			b2, _ := s.Build()
			if !bytes.Equal(b, b2) {
				t.Errorf("%s: not deterministic", s.Name)
			}
			if s.Strict {
				nStrict++
			}
		}
		t.Logf("thorough=%v: %d shapes, %d strict", thorough, len(shapes), nStrict)
	}
}

// The reader must notice damage: flip one byte in every region of the
// canonical shape.
func TestCheckRejectsDamage(t *testing.T) {
	b, err := Shapes(false)[0].Build()
	if err != nil {
		t.Fatal(err)
	}
	for _, off := range []int{0, 6, 15, 23, 27, 40, len(b) - 3000, len(b) - 1} {
		c := append([]byte(nil), b...)
		c[off] ^= 0x01
		if Check(c) == nil {
			t.Errorf("flip at %d not noticed", off)
		}
	}
}

// Package xargen is a bounded-exhaustive shape generator for xar archives
// (Apple flat packages, .pkg). It is written from the xar format description
// and does not import relic.
//
// Layout of a xar file:
//
//	header   28 bytes big endian: magic 'xar!', u16 header size, u16 version 1,
//	         u64 compressed TOC length, u64 uncompressed TOC length,
//	         u32 checksum algorithm (0 none, 1 sha1, 2 md5, 3 sha256, 4 sha512)
//	toc      zlib stream holding an XML document <xar><toc>...</toc></xar>
//	heap     everything after the TOC; offsets in the TOC are relative to the
//	         heap start. The TOC checksum (digest of the *compressed* TOC bytes)
//	         lives at the heap offset named by <checksum>, normally 0; an
//	         optional <signature> follows it; file data follows.
package xargen

import (
	"bytes"
	"compress/zlib"
	"crypto"
	"crypto/md5"
	"crypto/rsa"
	"crypto/sha1"
	"crypto/sha256"
	"crypto/sha512"
	"crypto/x509"
	"encoding/base64"
	"encoding/binary"
	"encoding/hex"
	"encoding/pem"
	"errors"
	"fmt"
	"hash"
	"os"
	"strings"

	"verif/gen/shape"
)

const (
	// FileName is the base name the shapes must be stored under.
	FileName = "p.pkg"

	fixturePkg = "/repo/functest/packages/dummy.pkg"
	keyDir     = "/verif/fixtures/keys"

	encStored = "application/octet-stream"
	encZlib   = "application/x-gzip" // in xar this names a zlib stream
)

// node is one <file> element of the TOC.
type node struct {
	name     string
	dir      bool
	children []*node
	size     int    // extracted size of a regular file
	zlib     bool   // data stored as a zlib stream
	sum      string // archived/extracted checksum style: sha1 | sha256
	noData   bool   // empty file written without a <data> element (what xar itself does)
	meta     bool   // write the usual stat properties (mode, uid, ...)

	// filled in by layout
	id       int
	archived []byte
	offset   int64
}

// spec is the full parameter set of one generated archive.
type spec struct {
	name     string
	class    string
	strict   bool
	tocSum   string // sha1 | sha256 | sha512 | md5 | none
	hdrSize  int    // 28, or 32 with four pad bytes
	files    []*node
	heapRev  bool   // heap order is the reverse of TOC order
	signedBy string // fixture key name of a pre-existing classic RSA signature, or ""
}

func newHash(style string) (hash.Hash, uint32, error) {
	switch style {
	case "sha1":
		return sha1.New(), 1, nil
	case "md5":
		return md5.New(), 2, nil
	case "sha256":
		return sha256.New(), 3, nil
	case "sha512":
		return sha512.New(), 4, nil
	}
	return nil, 0, fmt.Errorf("unknown checksum style %q", style)
}

func digest(style string, b []byte) ([]byte, error) {
	h, _, err := newHash(style)
	if err != nil {
		return nil, err
	}
	h.Write(b)
	return h.Sum(nil), nil
}

// payload returns n deterministic, moderately compressible bytes that differ
// per seed.
func payload(n int, seed int) []byte {
	var b bytes.Buffer
	b.Grow(n + 64)
	x := uint32(seed)*2654435761 + 12345
	for i := 0; b.Len() < n; i++ {
		x = x*1664525 + 1013904223
		fmt.Fprintf(&b, "line %06d of member %d: %08x payload payload\n", i, seed, x)
	}
	return b.Bytes()[:n]
}

func deflate(b []byte) []byte {
	var out bytes.Buffer
	zw, _ := zlib.NewWriterLevel(&out, zlib.DefaultCompression)
	zw.Write(b)
	zw.Close()
	return out.Bytes()
}

func walk(nodes []*node, fn func(*node)) {
	for _, n := range nodes {
		fn(n)
		walk(n.children, fn)
	}
}

func (s *spec) build() ([]byte, error) {
	// 1. ids in TOC order, archived bytes per file
	var dataNodes []*node
	id := 0
	var err error
	walk(s.files, func(n *node) {
		id++
		n.id = id
		if n.dir || n.noData {
			return
		}
		raw := payload(n.size, id)
		if n.zlib {
			n.archived = deflate(raw)
		} else {
			n.archived = raw
		}
		dataNodes = append(dataNodes, n)
	})
	// 2. heap layout
	var heap bytes.Buffer
	sumLen := 0
	if s.tocSum != "none" {
		h, _, err := newHash(s.tocSum)
		if err != nil {
			return nil, err
		}
		sumLen = h.Size()
	}
	heap.Write(make([]byte, sumLen)) // patched below
	var key *rsa.PrivateKey
	var chain [][]byte
	sigOff, sigLen := 0, 0
	if s.signedBy != "" {
		key, chain, err = loadKey(s.signedBy)
		if err != nil {
			return nil, err
		}
		sigOff, sigLen = heap.Len(), key.Size()
		heap.Write(make([]byte, sigLen))
	}
	order := append([]*node(nil), dataNodes...)
	if s.heapRev {
		for i, j := 0, len(order)-1; i < j; i, j = i+1, j-1 {
			order[i], order[j] = order[j], order[i]
		}
	}
	for _, n := range order {
		n.offset = int64(heap.Len())
		heap.Write(n.archived)
	}
	// 3. TOC
	var x strings.Builder
	x.WriteString("<?xml version=\"1.0\" encoding=\"UTF-8\"?>\n<xar>\n <toc>\n")
	x.WriteString("  <creation-time>2024-01-01T00:00:00</creation-time>\n")
	if s.tocSum != "none" {
		fmt.Fprintf(&x, "  <checksum style=\"%s\">\n   <offset>0</offset>\n   <size>%d</size>\n  </checksum>\n", s.tocSum, sumLen)
	}
	if s.signedBy != "" {
		fmt.Fprintf(&x, "  <signature style=\"RSA\">\n   <offset>%d</offset>\n   <size>%d</size>\n", sigOff, sigLen)
		x.WriteString("   <KeyInfo xmlns=\"http://www.w3.org/2000/09/xmldsig#\">\n    <X509Data>\n")
		for _, der := range chain {
			x.WriteString("     <X509Certificate>")
			enc := base64.StdEncoding.EncodeToString(der)
			for len(enc) > 72 {
				x.WriteString(enc[:72])
				x.WriteByte('\n')
				enc = enc[72:]
			}
			x.WriteString(enc)
			x.WriteString("</X509Certificate>\n")
		}
		x.WriteString("    </X509Data>\n   </KeyInfo>\n  </signature>\n")
	}
	var werr error
	var emit func(nodes []*node, ind string)
	emit = func(nodes []*node, ind string) {
		for _, n := range nodes {
			fmt.Fprintf(&x, "%s<file id=\"%d\">\n", ind, n.id)
			if !n.dir && !n.noData {
				enc := encStored
				if n.zlib {
					enc = encZlib
				}
				raw := payload(n.size, n.id)
				asum, err1 := digest(n.sum, n.archived)
				esum, err2 := digest(n.sum, raw)
				if err1 != nil || err2 != nil {
					werr = errors.Join(err1, err2)
					return
				}
				fmt.Fprintf(&x, "%s <data>\n", ind)
				fmt.Fprintf(&x, "%s  <length>%d</length>\n", ind, len(n.archived))
				fmt.Fprintf(&x, "%s  <offset>%d</offset>\n", ind, n.offset)
				fmt.Fprintf(&x, "%s  <size>%d</size>\n", ind, n.size)
				fmt.Fprintf(&x, "%s  <encoding style=\"%s\"/>\n", ind, enc)
				fmt.Fprintf(&x, "%s  <extracted-checksum style=\"%s\">%x</extracted-checksum>\n", ind, n.sum, esum)
				fmt.Fprintf(&x, "%s  <archived-checksum style=\"%s\">%x</archived-checksum>\n", ind, n.sum, asum)
				fmt.Fprintf(&x, "%s </data>\n", ind)
			}
			if n.meta {
				mode := "0644"
				if n.dir {
					mode = "0755"
				}
				for _, kv := range [][2]string{
					{"ctime", "2024-01-01T00:00:00Z"}, {"mtime", "2024-01-01T00:00:00Z"}, {"atime", "2024-01-01T00:00:00Z"},
					{"group", "wheel"}, {"gid", "0"}, {"user", "root"}, {"uid", "0"}, {"mode", mode},
					{"deviceno", "0"}, {"inode", fmt.Sprint(1000 + n.id)},
				} {
					fmt.Fprintf(&x, "%s <%s>%s</%s>\n", ind, kv[0], kv[1], kv[0])
				}
			}
			typ := "file"
			if n.dir {
				typ = "directory"
			}
			fmt.Fprintf(&x, "%s <type>%s</type>\n", ind, typ)
			fmt.Fprintf(&x, "%s <name>%s</name>\n", ind, n.name)
			emit(n.children, ind+" ")
			fmt.Fprintf(&x, "%s</file>\n", ind)
		}
	}
	emit(s.files, "  ")
	if werr != nil {
		return nil, werr
	}
	x.WriteString(" </toc>\n</xar>\n")
	toc := []byte(x.String())
	ztoc := deflate(toc)
	// 4. header
	alg := uint32(0)
	hb := heap.Bytes()
	if s.tocSum != "none" {
		var sum []byte
		_, alg, _ = newHash(s.tocSum)
		sum, _ = digest(s.tocSum, ztoc)
		copy(hb, sum)
		if key != nil {
			var ch crypto.Hash
			switch s.tocSum {
			case "sha1":
				ch = crypto.SHA1
			case "sha256":
				ch = crypto.SHA256
			case "sha512":
				ch = crypto.SHA512
			default:
				return nil, fmt.Errorf("cannot sign a %s checksum", s.tocSum)
			}
			// PKCS#1 v1.5 is deterministic
			sig, err := rsa.SignPKCS1v15(nil, key, ch, sum)
			if err != nil {
				return nil, err
			}
			copy(hb[sigOff:], sig)
		}
	}
	hdr := make([]byte, s.hdrSize)
	copy(hdr, "xar!")
	binary.BigEndian.PutUint16(hdr[4:], uint16(s.hdrSize))
	binary.BigEndian.PutUint16(hdr[6:], 1)
	binary.BigEndian.PutUint64(hdr[8:], uint64(len(ztoc)))
	binary.BigEndian.PutUint64(hdr[16:], uint64(len(toc)))
	binary.BigEndian.PutUint32(hdr[24:], alg)
	out := make([]byte, 0, len(hdr)+len(ztoc)+len(hb))
	out = append(out, hdr...)
	out = append(out, ztoc...)
	out = append(out, hb...)
	return out, nil
}

func loadKey(name string) (*rsa.PrivateKey, [][]byte, error) {
	kb, err := os.ReadFile(keyDir + "/" + name + ".key")
	if err != nil {
		return nil, nil, err
	}
	blk, _ := pem.Decode(kb)
	if blk == nil {
		return nil, nil, errors.New("no PEM block in key file")
	}
	k, err := x509.ParsePKCS8PrivateKey(blk.Bytes)
	if err != nil {
		return nil, nil, err
	}
	rk, ok := k.(*rsa.PrivateKey)
	if !ok {
		return nil, nil, errors.New("not an RSA key")
	}
	cb, err := os.ReadFile(keyDir + "/" + name + ".chain.crt")
	if err != nil {
		return nil, nil, err
	}
	var chain [][]byte
	for {
		blk, cb = pem.Decode(cb)
		if blk == nil {
			break
		}
		if blk.Type == "CERTIFICATE" {
			chain = append(chain, blk.Bytes)
		}
	}
	if len(chain) == 0 {
		return nil, nil, errors.New("no certificates in chain file")
	}
	return rk, chain, nil
}

// ---- shape family ----

// Ladder is the file-size ladder straddling 512 B, 4 KiB, 64 KiB and 1 MiB.
var Ladder = []int{0, 1, 511, 512, 513, 4095, 4096, 4097, 65535, 65536, 65537, 1048575, 1048576, 1048577}

func sizeClass(n int) string {
	switch {
	case n == 0:
		return "size-0"
	case n >= (1<<20)-1 && n <= (1<<20)+1:
		return "size-1MiB" + delta(n-(1<<20))
	case n >= (1<<16)-1 && n <= (1<<16)+1:
		return "size-64KiB" + delta(n-(1<<16))
	case n >= 4095 && n <= 4097:
		return "size-4KiB" + delta(n-4096)
	case n >= 511 && n <= 513:
		return "size-512" + delta(n-512)
	}
	return fmt.Sprintf("size-%d", n)
}

func delta(d int) string {
	switch {
	case d < 0:
		return fmt.Sprint(d)
	case d > 0:
		return fmt.Sprintf("+%d", d)
	}
	return ""
}

func file(name string, size int, z bool) *node {
	return &node{name: name, size: size, zlib: z, sum: "sha1", meta: true}
}

// member is file(), except that an empty member is written the way xar
// writes it: without a <data> element.
func member(name string, size int, z bool) *node {
	n := file(name, size, z)
	n.noData = size == 0
	return n
}

func dir(name string, ch ...*node) *node {
	return &node{name: name, dir: true, children: ch, meta: true}
}

func canonicalFiles() []*node {
	// the layout productbuild/pkgbuild write: Distribution/PackageInfo
	// zlib-encoded, Payload stored
	return []*node{
		file("PackageInfo", 830, true),
		file("Payload", 3000, false),
	}
}

func specs(thorough bool) []*spec {
	var out []*spec
	add := func(s *spec) {
		if s.hdrSize == 0 {
			s.hdrSize = 28
		}
		if s.tocSum == "" {
			s.tocSum = "sha1"
		}
		out = append(out, s)
	}
	enc := func(z bool) string {
		if z {
			return "zlib"
		}
		return "stored"
	}

	// canonical first
	add(&spec{name: "toc=sha1/files=PackageInfo:830:zlib,Payload:3000:stored", class: "canonical", strict: true, files: canonicalFiles()})

	// file count
	if thorough {
		add(&spec{name: "toc=sha1/files=1:700:stored", class: "files-1", strict: true, files: []*node{file("Payload", 700, false)}})
	}
	add(&spec{name: "toc=sha1/files=3:300:zlib,700:stored,900:zlib", class: "files-3", strict: true,
		files: []*node{file("Distribution", 300, true), file("Payload", 700, false), file("PackageInfo", 900, true)}})
	if thorough {
		add(&spec{name: "toc=sha1/files=2:700:stored,900:stored", class: "files-2", strict: true,
			files: []*node{file("Bom", 700, false), file("Payload", 900, false)}})
	}

	// nested directory
	add(&spec{name: "toc=sha1/files=Distribution:300:zlib,dir{Bom:600:zlib,Payload:2000:stored}", class: "dir-nested", strict: true,
		files: []*node{file("Distribution", 300, true), dir("com.example.pkg", file("Bom", 600, true), file("Payload", 2000, false))}})
	if thorough {
		add(&spec{name: "toc=sha1/files=dir{dir{Payload:2000:stored}}", class: "dir-nested-2", strict: true,
			files: []*node{dir("a", dir("b", file("Payload", 2000, false)))}})
		add(&spec{name: "toc=sha1/files=dir{},Payload:2000:stored", class: "dir-empty", strict: true,
			files: []*node{dir("Scripts"), file("Payload", 2000, false)}})
	}

	// zero-length member: xar itself omits <data> for empty files
	add(&spec{name: "toc=sha1/files=empty:nodata,Payload:700:stored", class: "file-empty", strict: true,
		files: []*node{{name: "empty", noData: true, meta: true, sum: "sha1"}, file("Payload", 700, false)}})
	if thorough {
		add(&spec{name: "toc=sha1/files=only-empty:nodata", class: "file-empty-only", strict: true,
			files: []*node{{name: "empty", noData: true, meta: true, sum: "sha1"}}})
	}

	// heap order differs from TOC order (productbuild does this: see dummy.pkg)
	if thorough {
		add(&spec{name: "toc=sha1/heap-reversed/files=3:300:zlib,700:stored,900:zlib", class: "heap-order-reversed", strict: true, heapRev: true,
			files: []*node{file("Distribution", 300, true), file("Payload", 700, false), file("PackageInfo", 900, true)}})
	}

	// TOC checksum style
	for _, st := range []string{"sha256", "sha512"} {
		add(&spec{name: "toc=" + st + "/files=PackageInfo:830:zlib,Payload:3000:stored", class: "toc-checksum-" + st, strict: true, tocSum: st, files: canonicalFiles()})
	}
	// file checksum style
	{
		fs := canonicalFiles()
		for _, f := range fs {
			f.sum = "sha256"
		}
		add(&spec{name: "toc=sha256/filesum=sha256/files=PackageInfo:830:zlib,Payload:3000:stored", class: "file-checksum-sha256", strict: true, tocSum: "sha256", files: fs})
	}
	if thorough {
		fs := canonicalFiles()
		for _, f := range fs {
			f.sum = "sha256"
		}
		add(&spec{name: "toc=sha1/filesum=sha256/files=PackageInfo:830:zlib,Payload:3000:stored", class: "file-checksum-sha256-toc-sha1", strict: true, files: fs})
		fs = canonicalFiles()
		fs[1].sum = "sha256"
		add(&spec{name: "toc=sha1/filesum=sha1,sha256/files=PackageInfo:830:zlib,Payload:3000:stored", class: "file-checksum-mixed", strict: true, files: fs})
	}

	// size ladder, stored and zlib
	quickSizes := []struct {
		n int
		z bool
	}{{513, false}, {65537, true}, {1048576, false}}
	if !thorough {
		for _, q := range quickSizes {
			add(&spec{name: fmt.Sprintf("toc=sha1/files=1:%d:%s", q.n, enc(q.z)), class: sizeClass(q.n) + "-" + enc(q.z), strict: true,
				files: []*node{member("Payload", q.n, q.z)}})
		}
	} else {
		for _, z := range []bool{false, true} {
			for _, n := range Ladder {
				if n == 0 && z {
					continue // identical to the stored variant: no <data> at all
				}
				add(&spec{name: fmt.Sprintf("toc=sha1/files=1:%d:%s", n, enc(z)), class: sizeClass(n) + "-" + enc(z), strict: true,
					files: []*node{member("Payload", n, z)}})
			}
		}
		// the ladder again as second member behind a small first member
		for _, n := range []int{0, 1, 4096, 65537, 1048577} {
			add(&spec{name: fmt.Sprintf("toc=sha256/files=2:300:zlib,%d:stored", n), class: sizeClass(n) + "-second-member", strict: true, tocSum: "sha256",
				files: []*node{file("PackageInfo", 300, true), member("Payload", n, false)}})
		}
		// no stat metadata at all: only name/type/data
		fs := canonicalFiles()
		for _, f := range fs {
			f.meta = false
		}
		add(&spec{name: "toc=sha1/nometa/files=PackageInfo:830:zlib,Payload:3000:stored", class: "no-file-metadata", strict: true, files: fs})
	}

	// already signed by somebody else (classic RSA signature in the heap
	// between the checksum and the first file)
	add(&spec{name: "toc=sha1/signed-by=rsaB/files=PackageInfo:830:zlib,Payload:3000:stored", class: "already-has-signature-space", strict: true, signedBy: "rsaB", files: canonicalFiles()})
	if thorough {
		add(&spec{name: "toc=sha256/signed-by=rsaB/files=PackageInfo:830:zlib,Payload:3000:stored", class: "already-has-signature-space-sha256", strict: true, tocSum: "sha256", signedBy: "rsaB", files: canonicalFiles()})
	}

	// lenient shapes
	add(&spec{name: "hdr=32/toc=sha1/files=PackageInfo:830:zlib,Payload:3000:stored", class: "header-size-32", hdrSize: 32, files: canonicalFiles()})
	add(&spec{name: "toc=md5/files=PackageInfo:830:zlib,Payload:3000:stored", class: "toc-checksum-md5", tocSum: "md5", files: canonicalFiles()})
	add(&spec{name: "toc=none/files=PackageInfo:830:zlib,Payload:3000:stored", class: "toc-checksum-none", tocSum: "none", files: canonicalFiles()})
	if thorough {
		// <data> element present with length 0 (legal, but xar drops it)
		add(&spec{name: "toc=sha1/files=empty:0:stored-with-data,Payload:700:stored", class: "file-empty-with-data-stored", strict: false,
			files: []*node{file("empty", 0, false), file("Payload", 700, false)}})
		add(&spec{name: "toc=sha1/files=empty:0:zlib-with-data,Payload:700:stored", class: "file-empty-with-data-zlib", strict: false,
			files: []*node{file("empty", 0, true), file("Payload", 700, false)}})
	}
	return out
}

// Shapes returns the xar shape family; the canonical shape first, then
// simplest first, the fixture last.
func Shapes(thorough bool) []shape.Shape {
	var out []shape.Shape
	for _, s := range specs(thorough) {
		s := s
		out = append(out, shape.Shape{
			Name:   "xar/" + s.name,
			Class:  s.class,
			File:   FileName,
			Strict: s.strict,
			Source: "generated",
			Build:  s.build,
			Check:  Check,
		})
	}
	out = append(out, shape.Shape{
		Name:   "xar/fixture=dummy.pkg",
		Class:  "fixture-dummy-pkg",
		File:   FileName,
		Strict: true,
		Source: "fixture",
		Build:  func() ([]byte, error) { return os.ReadFile(fixturePkg) },
		Check:  Check,
	})
	return out
}

// hexEq compares a hex digest from the TOC with raw digest bytes.
func hexEq(hexText string, raw []byte) bool {
	d, err := hex.DecodeString(strings.TrimSpace(hexText))
	return err == nil && bytes.Equal(d, raw)
}
